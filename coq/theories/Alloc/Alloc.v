(* Layer B — model of src/mqtt/common/value_allocator.rs (ValueAllocator<T>) and
   src/mqtt/connection/packet_id_manager.rs.  Definitions only; proofs are in AllocProofs.v.

   BTreeSet<ValueInterval<T>> is an ascending list of closed intervals.  The Ord instance of
   ValueInterval calls two overlapping intervals Equal, so
     - BTreeSet::insert of an interval overlapping an existing element is a no-op,
     - BTreeSet::remove(&x) removes the element that overlaps x.
   T's `+ 1` / `- 1` panic on overflow in a debug build; a_max is T::max_value(). *)
From MQ Require Import Base.Prelude.

Notation iv := (N * N)%type.

Record alloc := mkAlloc { a_lo : N; a_hi : N; a_max : N; a_pool : list iv }.

Definition iv_lt (x y : iv) : bool := snd x <? fst y.          (* Ordering::Less *)
Definition contains (x : iv) (v : N) : bool := (fst x <=? v) && (v <=? snd x).

Fixpoint ins (x : iv) (l : list iv) : list iv :=
  match l with
  | [] => [x]
  | y :: t => if iv_lt x y then x :: l else if iv_lt y x then y :: ins x t else l
  end.

Fixpoint rem (x : iv) (l : list iv) : list iv :=
  match l with
  | [] => []
  | y :: t => if iv_lt x y then l else if iv_lt y x then y :: rem x t else t
  end.

(* ValueAllocator::new — assert!(lowest <= highest) *)
Definition a_new (lo hi mx : N) : res alloc :=
  if lo <=? hi then Ok (mkAlloc lo hi mx [(lo, hi)]) else Panic P_ASSERT.

Definition set_pool (a : alloc) (p : list iv) : alloc := mkAlloc (a_lo a) (a_hi a) (a_max a) p.

(* checked T + 1 *)
Definition inc (mx v : N) : res N := if v <? mx then Ok (v + 1) else Panic P_OVERFLOW.

Definition a_allocate (a : alloc) : res (option N * alloc) :=
  match a_pool a with
  | [] => Ok (None, a)
  | (l, h) :: _ =>
      let p1 := rem (l, h) (a_pool a) in
      if l <? h then
        bindr (inc (a_max a) l) (fun l1 => Ok (Some l, set_pool a (ins (l1, h) p1)))
      else Ok (Some l, set_pool a p1)
  end.

Definition a_first_vacant (a : alloc) : option N :=
  match a_pool a with [] => None | (l, _) :: _ => Some l end.

(* pool.range(single(v)..).next(): first element not Less than single(v), i.e. high >= v *)
Fixpoint find_right (v : N) (p : list iv) : option iv :=
  match p with
  | [] => None
  | y :: t => if snd y <? v then find_right v t else Some y
  end.

(* pool.range(..single(v)).next_back(): last element Less than single(v), i.e. high < v *)
Fixpoint find_left (v : N) (p : list iv) (acc : option iv) : option iv :=
  match p with
  | [] => acc
  | y :: t => if snd y <? v then find_left v t (Some y) else acc
  end.

Definition a_deallocate (a : alloc) (v : N) : res alloc :=
  if negb ((a_lo a <=? v) && (v <=? a_hi a)) then Panic P_ASSERT else
  let mx := a_max a in
  let p := a_pool a in
  let right := find_right v p in
  let left := find_left v p None in
  (* the three guarded arms are tried in order; `&&` short-circuits *)
  let arm1 :=
    match left, right with
    | Some l, Some r =>
        bindr (inc mx (snd l)) (fun lh1 =>
          if lh1 =? v then bindr (inc mx v) (fun v1 => Ok (v1 =? fst r)) else Ok false)
    | _, _ => Ok false
    end in
  bindr arm1 (fun t1 =>
    if t1 then
      match left, right with
      | Some l, Some r => Ok (set_pool a (ins (fst l, snd r) (rem r (rem l p))))
      | _, _ => Panic P_UNREACHABLE
      end
    else
      let arm2 := match left with
                  | Some l => bindr (inc mx (snd l)) (fun lh1 => Ok (lh1 =? v))
                  | None => Ok false end in
      bindr arm2 (fun t2 =>
        if t2 then
          match left with
          | Some l => Ok (set_pool a (ins (fst l, v) (rem l p)))
          | None => Panic P_UNREACHABLE
          end
        else
          let arm3 := match right with
                      | Some r => bindr (inc mx v) (fun v1 => Ok (v1 =? fst r))
                      | None => Ok false end in
          bindr arm3 (fun t3 =>
            if t3 then
              match right with
              | Some r => Ok (set_pool a (ins (v, snd r) (rem r p)))
              | None => Panic P_UNREACHABLE
              end
            else Ok (set_pool a (ins (v, v) p))))).

Definition a_use_value (a : alloc) (v : N) : bool * alloc :=
  match find (fun y => contains y v) (a_pool a) with
  | Some y =>
      let p1 := rem y (a_pool a) in
      let p2 := if fst y <? v then ins (fst y, v - 1) p1 else p1 in
      let p3 := if v <? snd y then ins (v + 1, snd y) p2 else p2 in
      (true, set_pool a p3)
  | None => (false, a)
  end.

(* is_used: in range and in no free interval (after the F-20 repair) *)
Definition a_is_used (a : alloc) (v : N) : bool :=
  (a_lo a <=? v) && (v <=? a_hi a) && negb (existsb (fun y => contains y v) (a_pool a)).

Definition a_clear (a : alloc) : alloc := set_pool a [(a_lo a, a_hi a)].

Definition a_interval_count (a : alloc) : N := N.of_nat (length (a_pool a)).

(* ---- operation sequences (what the correspondence check replays) ---- *)
Inductive aop := AAllocate | AFirstVacant | ADeallocate (v : N) | AUse (v : N) | AIsUsed (v : N)
               | AClear | ACount.

(* the answer an op gives, as numbers: option N as [] / [v]; bool as [0]/[1] *)
Definition a_step (a : alloc) (o : aop) : res (list N * alloc) :=
  match o with
  | AAllocate => bindr (a_allocate a) (fun '(r, a') =>
                   Ok (match r with Some v => [v] | None => [] end, a'))
  | AFirstVacant => Ok (match a_first_vacant a with Some v => [v] | None => [] end, a)
  | ADeallocate v => bindr (a_deallocate a v) (fun a' => Ok ([], a'))
  | AUse v => let '(b, a') := a_use_value a v in Ok ([b2n b], a')
  | AIsUsed v => Ok ([b2n (a_is_used a v)], a)
  | AClear => Ok ([], a_clear a)
  | ACount => Ok ([a_interval_count a], a)
  end.

(* ---- PacketIdManager<T>: allocator over [1, T::max] ---- *)
Definition pm_new (mx : N) : alloc := mkAlloc 1 mx mx [(1, mx)].
Definition pm_acquire (a : alloc) : res (option N * alloc) := a_allocate a.
Definition pm_register (a : alloc) (v : N) : bool * alloc := a_use_value a v.
Definition pm_is_used (a : alloc) (v : N) : bool := a_is_used a v.
Definition pm_release (a : alloc) (v : N) : res alloc := a_deallocate a v.
Definition pm_clear (a : alloc) : alloc := a_clear a.
