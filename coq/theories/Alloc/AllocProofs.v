(* Layer B proofs: the interval-list allocator refines the set specification (C20). *)
From MQ Require Import Base.Prelude Alloc.Alloc Alloc.SetSpec.

(* ---------- representation invariant ---------- *)
(* ascending, valid, inside [b,hi], and consecutive intervals separated by at least one value
   (maximally merged) *)
Fixpoint wfp (b hi : N) (p : list iv) : Prop :=
  match p with
  | [] => True
  | y :: t => b <= fst y /\ fst y <= snd y /\ snd y <= hi /\ wfp (snd y + 2) hi t
  end.

Definition abs (p : list iv) (v : N) : bool := existsb (fun y => contains y v) p.

Definition WF (a : alloc) : Prop :=
  a_lo a <= a_hi a /\ a_hi a <= a_max a /\ wfp (a_lo a) (a_hi a) (a_pool a).

Lemma contains_spec y v : contains y v = true <-> fst y <= v /\ v <= snd y.
Proof. unfold contains. rewrite andb_true_iff, !N.leb_le. tauto. Qed.

Lemma contains_false y v : contains y v = false <-> v < fst y \/ snd y < v.
Proof.
  unfold contains. rewrite andb_false_iff, !N.leb_gt. tauto.
Qed.

Lemma wfp_weaken b b' hi p : b' <= b -> wfp b hi p -> wfp b' hi p.
Proof. destruct p as [|y t]; cbn [wfp]; intros; [trivial|]. intuition lia. Qed.

Lemma abs_cons y t v : abs (y :: t) v = contains y v || abs t v.
Proof. reflexivity. Qed.

Lemma abs_app p q v : abs (p ++ q) v = abs p v || abs q v.
Proof. unfold abs. apply existsb_app. Qed.

Lemma abs_ge b hi p v : wfp b hi p -> abs p v = true -> b <= v /\ v <= hi.
Proof.
  revert b; induction p as [|y t IH]; cbn [wfp abs existsb]; intros b H Ha; [discriminate|].
  destruct H as (H1 & H2 & H3 & H4). apply orb_true_iff in Ha as [Ha|Ha].
  - apply contains_spec in Ha. lia.
  - apply (IH _ H4) in Ha. lia.
Qed.

Lemma abs_lt_false b hi p v : wfp b hi p -> v < b -> abs p v = false.
Proof.
  intros H Hv. destruct (abs p v) eqn:E; [|reflexivity].
  apply (abs_ge _ _ _ _ H) in E. lia.
Qed.

(* end of the list part L: where the next interval may start *)
Fixpoint bound_after (b : N) (L : list iv) : N :=
  match L with [] => b | y :: t => bound_after (snd y + 2) t end.

Lemma wfp_app b hi L R :
  wfp b hi (L ++ R) <-> wfp b hi L /\ wfp (bound_after b L) hi R.
Proof.
  revert b; induction L as [|y t IH]; intros b; cbn [app wfp bound_after].
  - tauto.
  - rewrite IH. tauto.
Qed.

Lemma bound_after_snoc b L y : bound_after b (L ++ [y]) = snd y + 2.
Proof. revert b; induction L as [|z t IH]; intros b; cbn [app bound_after]; [reflexivity|apply IH]. Qed.

Lemma bound_after_ge b hi L : wfp b hi L -> b <= bound_after b L.
Proof.
  revert b; induction L as [|y t IH]; intros b; cbn [wfp bound_after]; [lia|].
  intros (H1 & H2 & H3 & H4). apply IH in H4. lia.
Qed.

(* every element of a wf prefix lies strictly below the bound after it *)
Lemma wfp_all_below b hi L :
  wfp b hi L -> Forall (fun y => b <= fst y /\ snd y + 2 <= bound_after b L) L.
Proof.
  revert b; induction L as [|y t IH]; intros b; cbn [wfp bound_after]; [constructor|].
  intros (H1 & H2 & H3 & H4). constructor.
  - split; [exact H1|]. apply bound_after_ge in H4. exact H4.
  - specialize (IH _ H4). eapply Forall_impl; [|exact IH]. cbn. intros z [Hz1 Hz2]. lia.
Qed.

(* ---------- BTreeSet insert / remove in the middle of the list ---------- *)
Lemma ins_mid x L R :
  Forall (fun y => fst y <= snd y /\ snd y < fst x) L ->
  fst x <= snd x ->
  match R with [] => True | z :: _ => iv_lt x z = true end ->
  ins x (L ++ R) = L ++ x :: R.
Proof.
  intros HL Hx HR. induction HL as [|y t Hy Ht IH]; cbn [app].
  - destruct R as [|z R']; cbn [ins]; [reflexivity|]. now rewrite HR.
  - cbn [ins]. unfold iv_lt in *. destruct Hy as [Hy0 Hy].
    destruct (snd x <? fst y) eqn:E; [apply N.ltb_lt in E; lia|].
    assert (Hy' : (snd y <? fst x) = true) by (apply N.ltb_lt; lia).
    rewrite Hy'. now rewrite IH.
Qed.

Lemma rem_mid x L R :
  Forall (fun y => fst y <= snd y /\ snd y < fst x) L ->
  fst x <= snd x ->
  rem x (L ++ x :: R) = L ++ R.
Proof.
  intros HL Hx. induction HL as [|y t Hy Ht IH]; cbn [app rem].
  - unfold iv_lt. destruct (snd x <? fst x) eqn:E; [apply N.ltb_lt in E; lia|reflexivity].
  - unfold iv_lt in *. destruct Hy as [Hy0 Hy].
    destruct (snd x <? fst y) eqn:E; [apply N.ltb_lt in E; lia|].
    assert (Hy' : (snd y <? fst x) = true) by (apply N.ltb_lt; lia).
    rewrite Hy'. now rewrite IH.
Qed.

Lemma rem_head x R : fst x <= snd x -> rem x (x :: R) = R.
Proof. intro H. apply (rem_mid x [] R); [constructor|exact H]. Qed.

Lemma ins_head x R :
  fst x <= snd x -> match R with [] => True | z :: _ => iv_lt x z = true end -> ins x R = x :: R.
Proof. intros H1 H2. apply (ins_mid x [] R); [constructor|exact H1|exact H2]. Qed.

(* ---------- the split of the pool around a value ---------- *)
Fixpoint tw (v : N) (p : list iv) : list iv :=
  match p with [] => [] | y :: t => if snd y <? v then y :: tw v t else [] end.
Fixpoint dw (v : N) (p : list iv) : list iv :=
  match p with [] => [] | y :: t => if snd y <? v then dw v t else p end.

Lemma tw_dw v p : tw v p ++ dw v p = p.
Proof. induction p as [|y t IH]; cbn [tw dw]; [reflexivity|]. destruct (snd y <? v); cbn [app]; [now rewrite IH|reflexivity]. Qed.

Lemma tw_all v p : Forall (fun y => snd y < v) (tw v p).
Proof.
  induction p as [|y t IH]; cbn [tw]; [constructor|]. destruct (snd y <? v) eqn:E; [|constructor].
  constructor; [now apply N.ltb_lt|exact IH].
Qed.

Lemma dw_head v p : match dw v p with [] => True | z :: _ => v <= snd z end.
Proof.
  induction p as [|y t IH]; cbn [dw]; [trivial|]. destruct (snd y <? v) eqn:E; [exact IH|].
  apply N.ltb_ge in E. exact E.
Qed.

Lemma find_right_dw v p : find_right v p = hd_error (dw v p).
Proof. induction p as [|y t IH]; cbn [find_right dw hd_error]; [reflexivity|]. destruct (snd y <? v); [exact IH|reflexivity]. Qed.

Definition last_opt (L : list iv) (acc : option iv) : option iv :=
  fold_left (fun _ y => Some y) L acc.

Lemma find_left_tw v p acc : find_left v p acc = last_opt (tw v p) acc.
Proof.
  revert acc; induction p as [|y t IH]; intros acc; cbn [find_left tw]; [reflexivity|].
  destruct (snd y <? v); [|reflexivity]. unfold last_opt. cbn [fold_left]. apply IH.
Qed.

Lemma last_opt_snoc L y acc : last_opt (L ++ [y]) acc = Some y.
Proof. unfold last_opt. rewrite fold_left_app. reflexivity. Qed.

Lemma list_snoc_cases {A} (L : list A) : L = [] \/ exists L' y, L = L' ++ [y].
Proof.
  induction L as [|x t IH]; [now left|right].
  destruct IH as [->|(L' & y & ->)]; [exists [], x|exists (x :: L'), y]; reflexivity.
Qed.

(* ---------- operations: effect on the free set and on the invariant ---------- *)
Lemma WF_set_pool a p :
  a_lo a <= a_hi a -> a_hi a <= a_max a -> wfp (a_lo a) (a_hi a) p -> WF (set_pool a p).
Proof. intros; unfold WF; cbn [set_pool a_lo a_hi a_max a_pool]; auto. Qed.

Lemma allocate_spec a :
  WF a ->
  match a_pool a with
  | [] => a_allocate a = Ok (None, a)
  | (l, h) :: t =>
      exists a', a_allocate a = Ok (Some l, a') /\ WF a' /\
                 a_lo a' = a_lo a /\ a_hi a' = a_hi a /\ a_max a' = a_max a /\
                 (forall v, abs (a_pool a') v = abs (a_pool a) v && negb (v =? l))
  end.
Proof.
  intros (Hlh & Hhm & Hp). unfold a_allocate. destruct (a_pool a) as [|[l h] t] eqn:Ep; [reflexivity|].
  cbv beta iota.
  cbn [wfp fst snd] in Hp. destruct Hp as (H1 & H2 & H3 & H4).
  assert (Hrem : rem (l, h) ((l, h) :: t) = t).
  { apply (rem_mid (l, h) [] t); [constructor|exact H2]. }
  rewrite Hrem.
  destruct (l <? h) eqn:Elh.
  - apply N.ltb_lt in Elh. unfold inc.
    assert (Hlm : (l <? a_max a) = true) by (apply N.ltb_lt; lia). rewrite Hlm. cbn [bindr].
    assert (Hins : ins (l + 1, h) t = (l + 1, h) :: t).
    { apply (ins_mid (l + 1, h) [] t); [constructor|cbn; lia|].
      destruct t as [|z t']; [trivial|]. cbn [wfp] in H4. unfold iv_lt. cbn [fst snd]. apply N.ltb_lt. lia. }
    rewrite Hins. eexists; split; [reflexivity|]. cbn [set_pool a_lo a_hi a_max a_pool].
    split; [|split; [reflexivity|split; [reflexivity|split; [reflexivity|]]]].
    + apply WF_set_pool; [exact Hlh|exact Hhm|]. cbn [wfp fst snd]. repeat split; try lia. exact H4.
    + intro v. pose proof (abs_ge _ _ _ v H4) as Hge. rewrite !abs_cons.
      apply eq_true_iff_eq. rewrite andb_true_iff, !orb_true_iff, negb_true_iff, N.eqb_neq, !contains_spec.
      cbn [fst snd]. destruct (abs t v); intuition (try lia; try discriminate).
  - apply N.ltb_ge in Elh. assert (l = h) by lia. subst h.
    eexists; split; [reflexivity|]. cbn [set_pool a_lo a_hi a_max a_pool].
    split; [|split; [reflexivity|split; [reflexivity|split; [reflexivity|]]]].
    + apply WF_set_pool; [exact Hlh|exact Hhm|]. eapply wfp_weaken; [|exact H4]. lia.
    + intro v. pose proof (abs_ge _ _ _ v H4) as Hge. rewrite !abs_cons.
      apply eq_true_iff_eq. rewrite andb_true_iff, !orb_true_iff, negb_true_iff, N.eqb_neq, !contains_spec.
      cbn [fst snd]. destruct (abs t v); intuition (try lia; try discriminate).
Qed.

(* ---- facts about a well-formed list split as L ++ y :: R ---- *)
Lemma wfp_valid_below b hi L :
  wfp b hi L -> Forall (fun y => fst y <= snd y /\ snd y + 2 <= bound_after b L) L.
Proof.
  revert b; induction L as [|y t IH]; intros b; cbn [wfp bound_after]; [constructor|].
  intros (H1 & H2 & H3 & H4). constructor.
  - split; [exact H2|]. apply bound_after_ge in H4. exact H4.
  - exact (IH _ H4).
Qed.

Lemma Forall_lt_of_bound (c d : N) (L : list iv) :
  Forall (fun y => fst y <= snd y /\ snd y + 2 <= c) L -> c <= d ->
  Forall (fun y => fst y <= snd y /\ snd y < d) L.
Proof. intros H Hc. eapply Forall_impl; [|exact H]. cbn. intros z [? ?]. split; lia. Qed.

Lemma abs_below (c : N) (L : list iv) w :
  Forall (fun y => fst y <= snd y /\ snd y + 2 <= c) L -> abs L w = true -> w + 2 <= c.
Proof.
  induction 1 as [|y t Hy Ht IH]; cbn [abs existsb]; [discriminate|].
  intro H. apply orb_true_iff in H as [H|H]; [apply contains_spec in H; lia|auto].
Qed.

Lemma abs_nil w : abs [] w = false. Proof. reflexivity. Qed.

Ltac bool_iff :=
  apply eq_true_iff_eq;
  repeat (rewrite andb_true_iff || rewrite orb_true_iff || rewrite negb_true_iff || rewrite negb_false_iff
          || rewrite orb_false_iff || rewrite andb_false_iff
          || rewrite N.eqb_neq || rewrite N.eqb_eq || rewrite N.leb_le || rewrite N.leb_gt
          || rewrite N.ltb_lt || rewrite N.ltb_ge || rewrite contains_spec || rewrite contains_false);
  cbn [fst snd].

Lemma use_value_spec a v :
  WF a ->
  exists a', a_use_value a v = (abs (a_pool a) v, a') /\ WF a' /\
             a_lo a' = a_lo a /\ a_hi a' = a_hi a /\ a_max a' = a_max a /\
             (forall w, abs (a_pool a') w = abs (a_pool a) w && negb (w =? v)).
Proof.
  intros (Hlh & Hhm & Hp). unfold a_use_value.
  remember (a_pool a) as p eqn:Ep.
  assert (Hfind : (find (fun y => contains y v) p = None /\ abs p v = false) \/
                  (exists L y R, p = L ++ y :: R /\ find (fun y => contains y v) p = Some y /\
                                 contains y v = true /\ abs p v = true)).
  { clear. induction p as [|y t IH]; cbn [find abs existsb]; [left; auto|].
    destruct (contains y v) eqn:E.
    - right. exists [], y, t. auto.
    - destruct IH as [[H1 H2]|(L & z & R & H1 & H2 & H3 & H4)].
      + left. cbn [orb]. auto.
      + right. exists (y :: L), z, R. cbn [app orb]. subst t. auto. }
  destruct Hfind as [[Hf Ha]|(L & y & R & HpLR & Hf & Hc & Ha)]; rewrite Hf, Ha.
  - exists a. split; [reflexivity|]. split; [unfold WF; rewrite <- Ep; auto|].
    repeat split; try reflexivity. intro w. rewrite <- Ep.
    destruct (N.eqb_spec w v) as [->|]; cbn [negb]; [now rewrite Ha|now rewrite andb_true_r].
  - subst p. rewrite HpLR in Hp. rewrite !HpLR. apply wfp_app in Hp as [HwL HwR]. cbn [wfp] in HwR.
    destruct HwR as (Hy1 & Hy2 & Hy3 & HwR). apply contains_spec in Hc as [Hc1 Hc2].
    pose proof (wfp_valid_below _ _ _ HwL) as HLb.
    assert (HLy : Forall (fun z => fst z <= snd z /\ snd z < fst y) L) by (eapply Forall_lt_of_bound; eauto).
    rewrite (rem_mid y L R HLy Hy2).
    set (p2 := if fst y <? v then ins (fst y, v - 1) (L ++ R) else L ++ R).
    assert (Hhead : match R with [] => True | z :: _ => snd y + 2 <= fst z end).
    { destruct R as [|z R']; [trivial|]. cbn [wfp] in HwR. lia. }
    assert (Hp2 : p2 = L ++ (if fst y <? v then [(fst y, v - 1)] else []) ++ R).
    { subst p2. destruct (fst y <? v) eqn:E; [|reflexivity]. apply N.ltb_lt in E.
      cbn [app]. apply ins_mid; cbn [fst snd]; [exact HLy|lia|].
      destruct R as [|z R']; [trivial|]. unfold iv_lt. cbn [fst snd]. apply N.ltb_lt. lia. }
    set (p3 := if v <? snd y then ins (v + 1, snd y) p2 else p2).
    assert (Hp3 : p3 = L ++ (if fst y <? v then [(fst y, v - 1)] else []) ++
                            (if v <? snd y then [(v + 1, snd y)] else []) ++ R).
    { subst p3. destruct (v <? snd y) eqn:E; [|now rewrite Hp2]. apply N.ltb_lt in E.
      rewrite Hp2. set (M := if fst y <? v then [(fst y, v - 1)] else []).
      rewrite (app_assoc L M R). rewrite (app_assoc L M (_ ++ R)). cbn [app]. subst M.
      apply ins_mid; cbn [fst snd]; [|lia|].
      - apply Forall_app. split.
        + eapply Forall_impl; [|exact HLy]. cbn. intros z [? ?]. split; lia.
        + destruct (fst y <? v) eqn:E2; [|constructor]. apply N.ltb_lt in E2.
          constructor; [cbn [fst snd]; lia|constructor].
      - destruct R as [|z R']; [trivial|]. unfold iv_lt. cbn [fst snd]. apply N.ltb_lt. lia. }
    exists (set_pool a p3). split; [reflexivity|]. cbn [set_pool a_lo a_hi a_max a_pool].
    split; [|split; [reflexivity|split; [reflexivity|split; [reflexivity|]]]].
    + apply WF_set_pool; [exact Hlh|exact Hhm|]. rewrite Hp3.
      apply wfp_app. split; [exact HwL|].
      pose proof (bound_after_ge _ _ _ HwL) as Hb.
      destruct (fst y <? v) eqn:E1; destruct (v <? snd y) eqn:E2; cbn [app wfp fst snd];
        try apply N.ltb_lt in E1; try apply N.ltb_lt in E2; try apply N.ltb_ge in E1; try apply N.ltb_ge in E2;
        repeat split; try lia; try (eapply wfp_weaken; [|exact HwR]; lia).
    + intro w. rewrite Hp3. rewrite !abs_app, abs_cons.
      pose proof (abs_below _ _ w HLb) as HL. pose proof (abs_ge _ _ _ w HwR) as HR.
      destruct (fst y <? v) eqn:E1; destruct (v <? snd y) eqn:E2; rewrite ?abs_cons, ?abs_nil;
        try apply N.ltb_lt in E1; try apply N.ltb_lt in E2; try apply N.ltb_ge in E1; try apply N.ltb_ge in E2;
        bool_iff; destruct (abs L w); destruct (abs R w); intuition (try lia; try discriminate).
Qed.

Lemma inc_ok mx v : v < mx -> inc mx v = Ok (v + 1).
Proof. intro H. unfold inc. apply N.ltb_lt in H. now rewrite H. Qed.

Lemma deallocate_spec a v :
  WF a -> a_lo a <= v -> v <= a_hi a -> abs (a_pool a) v = false ->
  exists a', a_deallocate a v = Ok a' /\ WF a' /\
             a_lo a' = a_lo a /\ a_hi a' = a_hi a /\ a_max a' = a_max a /\
             (forall w, abs (a_pool a') w = abs (a_pool a) w || (w =? v)).
Proof.
  intros (Hlh & Hhm & Hp) Hv1 Hv2 Ha. unfold a_deallocate.
  assert (Hrng : negb ((a_lo a <=? v) && (v <=? a_hi a)) = false).
  { apply negb_false_iff, andb_true_iff. split; now apply N.leb_le. }
  rewrite Hrng. cbv zeta. rewrite find_right_dw, find_left_tw.
  pose proof (tw_dw v (a_pool a)) as HLR. pose proof (tw_all v (a_pool a)) as HLall.
  pose proof (dw_head v (a_pool a)) as HRhd.
  remember (tw v (a_pool a)) as L eqn:EL. remember (dw v (a_pool a)) as R eqn:ER. clear EL ER.
  rewrite <- HLR in Hp, Ha |- *. clear HLR.
  apply wfp_app in Hp as [HwL HwR]. rewrite abs_app in Ha. apply orb_false_iff in Ha as [HaL HaR].
  pose proof (wfp_valid_below _ _ _ HwL) as HLb.
  pose proof (bound_after_ge _ _ _ HwL) as Hbge.
  (* shape of R: empty, or r :: R' with v < fst r *)
  assert (HRshape : R = [] \/ exists r R', R = r :: R' /\ v < fst r /\ fst r <= snd r /\ snd r <= a_hi a /\
                                         bound_after (a_lo a) L <= fst r /\ wfp (snd r + 2) (a_hi a) R').
  { destruct R as [|r R']; [now left|right]. exists r, R'. cbn [wfp] in HwR. destruct HwR as (H1 & H2 & H3 & H4).
    rewrite abs_cons in HaR. apply orb_false_iff in HaR as [HaR _]. apply contains_false in HaR.
    repeat split; auto. lia. }
  destruct (list_snoc_cases L) as [->|(L' & l & ->)].
  - (* no left neighbour *)
    cbn [last_opt fold_left bound_after app] in *. cbn [bindr].
    destruct HRshape as [->|(r & R' & -> & Hr1 & Hr2 & Hr3 & Hr4 & Hr5)]; cbn [hd_error bindr].
    + (* empty pool *)
      cbn [ins]. eexists; split; [reflexivity|]. cbn [set_pool a_lo a_hi a_max a_pool].
      split; [apply WF_set_pool; auto; cbn [wfp fst snd]; repeat split; lia|].
      repeat split; try reflexivity. intro w. rewrite abs_cons, abs_nil. bool_iff. intuition (try lia; try discriminate).
    + rewrite (inc_ok (a_max a) v) by lia. cbn [bindr].
      destruct (N.eqb_spec (v + 1) (fst r)) as [E|E].
      * rewrite (rem_head r R') by auto.
        assert (Hins : ins (v, snd r) R' = (v, snd r) :: R').
        { apply (ins_mid (v, snd r) [] R'); [constructor|cbn [fst snd]; lia|].
          destruct R' as [|z R'']; [trivial|]. cbn [wfp] in Hr5. unfold iv_lt; cbn [fst snd]. apply N.ltb_lt; lia. }
        rewrite Hins. eexists; split; [reflexivity|]. cbn [set_pool a_lo a_hi a_max a_pool].
        split; [apply WF_set_pool; auto; cbn [wfp fst snd]; repeat split; try lia; exact Hr5|].
        repeat split; try reflexivity. intro w. rewrite !abs_cons.
        pose proof (abs_ge _ _ _ w Hr5) as HR. bool_iff. destruct (abs R' w); intuition (try lia; try discriminate).
      * assert (Hins : ins (v, v) (r :: R') = (v, v) :: r :: R').
        { apply (ins_mid (v, v) [] (r :: R')); [constructor|cbn [fst snd]; lia|].
          unfold iv_lt; cbn [fst snd]. apply N.ltb_lt; lia. }
        rewrite Hins. eexists; split; [reflexivity|]. cbn [set_pool a_lo a_hi a_max a_pool].
        split; [apply WF_set_pool; auto; cbn [wfp fst snd]; repeat split; try lia; exact Hr5|].
        repeat split; try reflexivity. intro w. rewrite !abs_cons.
        bool_iff. destruct (abs R' w); intuition (try lia; try discriminate).
  - (* left neighbour l *)
    rewrite last_opt_snoc. rewrite bound_after_snoc in *.
    apply wfp_app in HwL as [HwL' Hwl]. cbn [wfp] in Hwl. destruct Hwl as (Hl1 & Hl2 & Hl3 & _).
    apply Forall_app in HLall as [_ HLl]. inversion HLl as [|? ? Hlv _]; subst. cbn beta in Hlv.
    pose proof (wfp_valid_below _ _ _ HwL') as HL'b.
    assert (HL'l : Forall (fun z => fst z <= snd z /\ snd z < fst l) L') by (eapply Forall_lt_of_bound; eauto).
    rewrite (inc_ok (a_max a) (snd l)) by lia. cbn [bindr].
    rewrite abs_app, abs_cons, abs_nil in HaL. apply orb_false_iff in HaL as [HaL' _].
    destruct HRshape as [->|(r & R' & -> & Hr1 & Hr2 & Hr3 & Hr4 & Hr5)]; cbn [hd_error bindr].
    + (* no right neighbour *)
      destruct (N.eqb_spec (snd l + 1) v) as [E|E]; cbn [bindr].
      * rewrite <- app_assoc. cbn [app]. rewrite (rem_mid l L' [] HL'l Hl2).
        rewrite (ins_mid (fst l, v) L' []); [|cbn [fst snd]; exact HL'l|cbn [fst snd]; lia|trivial].
        eexists; split; [reflexivity|]. cbn [set_pool a_lo a_hi a_max a_pool].
        split; [apply WF_set_pool; auto; apply wfp_app; split; [exact HwL'|]; cbn [wfp fst snd]; repeat split; lia|].
        repeat split; try reflexivity. intro w. rewrite ?abs_app, ?abs_cons, ?abs_nil.
        bool_iff. destruct (abs L' w); intuition (try lia; try discriminate).
      * rewrite (ins_mid (v, v) (L' ++ [l]) []); [| |cbn [fst snd]; lia|trivial].
        2:{ apply Forall_app; split; [|constructor; [cbn [fst snd]; lia|constructor]].
            eapply Forall_impl; [|exact HL'l]. cbn. intros z [? ?]; split; lia. }
        eexists; split; [reflexivity|]. cbn [set_pool a_lo a_hi a_max a_pool].
        split.
        { apply WF_set_pool; auto. rewrite <- app_assoc. cbn [app]. apply wfp_app; split; [exact HwL'|].
          cbn [wfp fst snd]; repeat split; lia. }
        repeat split; try reflexivity. intro w. rewrite ?abs_app, ?abs_cons, ?abs_nil.
        bool_iff. destruct (abs L' w); intuition (try lia; try discriminate).
    + (* both neighbours exist *)
      destruct (N.eqb_spec (snd l + 1) v) as [E|E]; cbn [bindr].
      * rewrite (inc_ok (a_max a) v) by lia. cbn [bindr].
        destruct (N.eqb_spec (v + 1) (fst r)) as [E2|E2]; cbn [bindr].
        -- (* merge both *)
           rewrite <- app_assoc. cbn [app].
           rewrite (rem_mid l L' (r :: R') HL'l Hl2).
           rewrite (rem_mid r L' R'); [|eapply Forall_impl; [|exact HL'l]; cbn; intros z [? ?]; split; lia|exact Hr2].
           rewrite (ins_mid (fst l, snd r) L' R'); [|cbn [fst snd]; exact HL'l|cbn [fst snd]; lia|].
           2:{ destruct R' as [|z R'']; [trivial|]. cbn [wfp] in Hr5. unfold iv_lt; cbn [fst snd]. apply N.ltb_lt; lia. }
           eexists; split; [reflexivity|]. cbn [set_pool a_lo a_hi a_max a_pool].
           split; [apply WF_set_pool; auto; apply wfp_app; split; [exact HwL'|]; cbn [wfp fst snd]; repeat split; try lia; exact Hr5|].
           repeat split; try reflexivity. intro w. rewrite ?abs_app, ?abs_cons, ?abs_nil.
           pose proof (abs_ge _ _ _ w Hr5) as HR. pose proof (abs_below _ _ w HL'b) as HL.
           bool_iff. destruct (abs L' w); destruct (abs R' w); intuition (try lia; try discriminate).
        -- (* extend l to the right *)
           rewrite <- app_assoc. cbn [app].
           rewrite (rem_mid l L' (r :: R') HL'l Hl2).
           rewrite (ins_mid (fst l, v) L' (r :: R')); [|cbn [fst snd]; exact HL'l|cbn [fst snd]; lia|].
           2:{ unfold iv_lt; cbn [fst snd]. apply N.ltb_lt; lia. }
           eexists; split; [reflexivity|]. cbn [set_pool a_lo a_hi a_max a_pool].
           split; [apply WF_set_pool; auto; apply wfp_app; split; [exact HwL'|]; cbn [wfp fst snd]; repeat split; try lia; exact Hr5|].
           repeat split; try reflexivity. intro w. rewrite ?abs_app, ?abs_cons, ?abs_nil.
           pose proof (abs_ge _ _ _ w Hr5) as HR. pose proof (abs_below _ _ w HL'b) as HL.
           bool_iff. destruct (abs L' w); destruct (abs R' w); intuition (try lia; try discriminate).
      * destruct (N.eqb_spec (snd l + 1) v) as [E'|_]; [contradiction|]. cbn [bindr].
        rewrite (inc_ok (a_max a) v) by lia. cbn [bindr].
        assert (HLall' : Forall (fun z => fst z <= snd z /\ snd z < v) (L' ++ [l])).
        { apply Forall_app; split; [|constructor; [lia|constructor]].
          eapply Forall_impl; [|exact HL'l]. cbn. intros z [? ?]; split; lia. }
        destruct (N.eqb_spec (v + 1) (fst r)) as [E2|E2]; cbn [bindr].
        -- (* extend r to the left *)
           rewrite (rem_mid r (L' ++ [l]) R'); [|eapply Forall_impl; [|exact HLall']; cbn; intros z [? ?]; split; lia|exact Hr2].
           rewrite (ins_mid (v, snd r) (L' ++ [l]) R'); [|cbn [fst snd]; exact HLall'|cbn [fst snd]; lia|].
           2:{ destruct R' as [|z R'']; [trivial|]. cbn [wfp] in Hr5. unfold iv_lt; cbn [fst snd]. apply N.ltb_lt; lia. }
           eexists; split; [reflexivity|]. cbn [set_pool a_lo a_hi a_max a_pool].
           split.
           { apply WF_set_pool; auto. rewrite <- app_assoc. cbn [app]. apply wfp_app; split; [exact HwL'|].
             cbn [wfp fst snd]; repeat split; try lia; exact Hr5. }
           repeat split; try reflexivity. intro w. rewrite ?abs_app, ?abs_cons, ?abs_nil.
           pose proof (abs_ge _ _ _ w Hr5) as HR. pose proof (abs_below _ _ w HL'b) as HL.
           bool_iff. destruct (abs L' w); destruct (abs R' w); intuition (try lia; try discriminate).
        -- (* isolated value *)
           rewrite (ins_mid (v, v) (L' ++ [l]) (r :: R')); [|cbn [fst snd]; exact HLall'|cbn [fst snd]; lia|].
           2:{ unfold iv_lt; cbn [fst snd]. apply N.ltb_lt; lia. }
           eexists; split; [reflexivity|]. cbn [set_pool a_lo a_hi a_max a_pool].
           split.
           { apply WF_set_pool; auto. rewrite <- app_assoc. cbn [app]. apply wfp_app; split; [exact HwL'|].
             cbn [wfp fst snd]; repeat split; try lia; exact Hr5. }
           repeat split; try reflexivity. intro w. rewrite ?abs_app, ?abs_cons, ?abs_nil.
           pose proof (abs_ge _ _ _ w Hr5) as HR. pose proof (abs_below _ _ w HL'b) as HL.
           bool_iff. destruct (abs L' w); destruct (abs R' w); intuition (try lia; try discriminate).
Qed.

(* ====================== the set specification ====================== *)
Fixpoint asc (b hi : N) (l : list N) : Prop :=
  match l with [] => True | u :: t => b <= u /\ u <= hi /\ asc (u + 1) hi t end.

Lemma asc_weaken b b' hi l : b' <= b -> asc b hi l -> asc b' hi l.
Proof. destruct l; cbn [asc]; intros; intuition lia. Qed.

Lemma s_mem_lt b hi l w : asc b hi l -> w < b -> s_mem w l = false.
Proof.
  revert b; induction l as [|u t IH]; intros b; cbn [asc s_mem]; [reflexivity|].
  intros (H1 & H2 & H3) Hw. apply orb_false_iff. split; [apply N.eqb_neq; lia|].
  apply (IH _ H3). lia.
Qed.

Lemma s_mem_range b hi l w : asc b hi l -> s_mem w l = true -> b <= w /\ w <= hi.
Proof.
  revert b; induction l as [|u t IH]; intros b; cbn [asc s_mem]; [discriminate|].
  intros (H1 & H2 & H3) Hw. apply orb_true_iff in Hw as [Hw|Hw].
  - apply N.eqb_eq in Hw. lia.
  - apply (IH _ H3) in Hw. lia.
Qed.

Lemma s_mem_insert v l w : s_mem w (s_insert v l) = (w =? v) || s_mem w l.
Proof.
  induction l as [|u t IH]; cbn [s_insert s_mem].
  - rewrite (N.eqb_sym v w). reflexivity.
  - destruct (v <? u) eqn:E1; [cbn [s_mem]; now rewrite (N.eqb_sym v w)|].
    destruct (u <? v) eqn:E2; cbn [s_mem].
    + rewrite IH. destruct (u =? w), (w =? v); reflexivity.
    + apply N.ltb_ge in E1, E2. assert (u = v) by lia. subst u.
      rewrite (N.eqb_sym v w). destruct (w =? v); reflexivity.
Qed.

Lemma asc_insert b hi l v : asc b hi l -> b <= v -> v <= hi -> asc b hi (s_insert v l).
Proof.
  revert b; induction l as [|u t IH]; intros b; cbn [asc s_insert]; intros H Hb Hh.
  - cbn [asc]. auto.
  - destruct H as (H1 & H2 & H3). destruct (v <? u) eqn:E1.
    + apply N.ltb_lt in E1. cbn [asc]. repeat split; try lia. eapply asc_weaken; [|exact H3]. lia.
    + destruct (u <? v) eqn:E2; cbn [asc]; [|auto]. apply N.ltb_lt in E2.
      repeat split; try lia. apply IH; auto. lia.
Qed.

Lemma s_mem_remove b hi l v w : asc b hi l -> s_mem w (s_remove v l) = s_mem w l && negb (w =? v).
Proof.
  revert b; induction l as [|u t IH]; intros b; cbn [asc s_remove s_mem]; [reflexivity|].
  intros (H1 & H2 & H3). destruct (N.eqb_spec u v) as [->|Hne].
  - destruct (N.eqb_spec v w) as [->|Hne].
    + rewrite N.eqb_refl. cbn [orb negb andb]. apply (s_mem_lt _ _ _ _ H3). lia.
    + cbn [orb]. destruct (N.eqb_spec w v); [congruence|]. now rewrite andb_true_r.
  - cbn [s_mem]. rewrite (IH _ H3). destruct (N.eqb_spec u w) as [->|Hne2]; cbn [orb]; [|reflexivity].
    destruct (N.eqb_spec w v); [congruence|reflexivity].
Qed.

Lemma asc_remove b hi l v : asc b hi l -> asc b hi (s_remove v l).
Proof.
  revert b; induction l as [|u t IH]; intros b; cbn [asc s_remove]; [trivial|].
  intros (H1 & H2 & H3). destruct (u =? v).
  - eapply asc_weaken; [|exact H3]. lia.
  - cbn [asc]. auto.
Qed.

Lemma least_free_spec b hi l :
  asc b hi l ->
  let x := least_free b l in
  b <= x /\ x <= N.max b (hi + 1) /\ s_mem x l = false /\ (forall w, b <= w -> w < x -> s_mem w l = true).
Proof.
  revert b; induction l as [|u t IH]; intros b; cbn [asc least_free s_mem].
  - intros _. repeat split; try lia; try (intros; lia).
  - intros (H1 & H2 & H3). destruct (N.eqb_spec u b) as [->|Hne].
    + specialize (IH _ H3). cbv zeta in IH. destruct IH as (I1 & I2 & I3 & I4).
      repeat split; try lia.
      * apply orb_false_iff. split; [apply N.eqb_neq; lia|exact I3].
      * intros w Hw1 Hw2. destruct (N.eqb_spec b w); [reflexivity|]. cbn [orb]. apply I4; lia.
    + repeat split; try lia.
      * apply orb_false_iff. split; [now apply N.eqb_neq|]. apply (s_mem_lt _ _ _ _ H3). lia.
Qed.

Lemma canon_spec b hi l :
  asc b hi l ->
  wfp b hi (canon b hi l) /\
  forall w, abs (canon b hi l) w = (b <=? w) && (w <=? hi) && negb (s_mem w l).
Proof.
  revert b; induction l as [|u t IH]; intros b; cbn [asc canon s_mem].
  - intros _. destruct (b <=? hi) eqn:E.
    + apply N.leb_le in E. cbn [wfp fst snd]. split; [repeat split; lia|].
      intro w. rewrite abs_cons, abs_nil. unfold contains. cbn [fst snd negb]. now rewrite orb_false_r, andb_true_r.
    + split; [exact I|]. intro w. rewrite abs_nil. apply N.leb_gt in E.
      symmetry. cbn [negb]. rewrite andb_true_r. apply andb_false_iff.
      destruct (b <=? w) eqn:E1; [right|now left]. apply N.leb_le in E1. apply N.leb_gt. lia.
  - intros (H1 & H2 & H3). destruct (IH _ H3) as [IH1 IH2]. destruct (b <? u) eqn:E.
    + apply N.ltb_lt in E. split.
      * cbn [wfp fst snd]. repeat split; try lia. eapply wfp_weaken; [|exact IH1]. lia.
      * intro w. rewrite abs_cons, IH2. pose proof (s_mem_range _ _ _ w H3) as Hm.
        destruct (s_mem w t) eqn:Em; bool_iff; intuition (try lia; try discriminate).
    + apply N.ltb_ge in E. assert (u = b) by lia. subst u. split.
      * eapply wfp_weaken; [|exact IH1]. lia.
      * intro w. rewrite IH2. pose proof (s_mem_range _ _ _ w H3) as Hm.
        destruct (s_mem w t) eqn:Em; bool_iff; intuition (try lia; try discriminate).
Qed.

Lemma wfp_unique b hi p q :
  wfp b hi p -> wfp b hi q -> (forall w, abs p w = abs q w) -> p = q.
Proof.
  revert b q; induction p as [|[l1 h1] p' IH]; intros b [|[l2 h2] q']; cbn [wfp fst snd]; intros Hp Hq Hab.
  - reflexivity.
  - exfalso. specialize (Hab l2). rewrite abs_nil, abs_cons in Hab.
    assert (contains (l2, h2) l2 = true) by (apply contains_spec; cbn; lia). rewrite H in Hab. discriminate.
  - exfalso. specialize (Hab l1). rewrite abs_nil, abs_cons in Hab.
    assert (contains (l1, h1) l1 = true) by (apply contains_spec; cbn; lia). rewrite H in Hab. discriminate.
  - destruct Hp as (P1 & P2 & P3 & P4). destruct Hq as (Q1 & Q2 & Q3 & Q4).
    assert (Hin : forall l h l' h' t t', l <= h -> wfp (h + 2) hi t -> l' <= h' -> wfp (h' + 2) hi t' ->
                    (forall w, abs ((l, h) :: t) w = abs ((l', h') :: t') w) -> l' <= l /\ (h <= h')).
    { intros l h l' h' t t' V1 W1 V2 W2 Hw. split.
      - specialize (Hw l). rewrite !abs_cons in Hw.
        assert (C : contains (l, h) l = true) by (apply contains_spec; cbn; lia). rewrite C in Hw. cbn [orb] in Hw.
        symmetry in Hw. apply orb_true_iff in Hw as [Hw|Hw].
        + apply contains_spec in Hw. cbn in Hw. lia.
        + apply (abs_ge _ _ _ _ W2) in Hw. lia.
      - destruct (N.le_gt_cases h h') as [|Hgt]; [assumption|exfalso].
        (* h' + 1 is inside (l,h) if l <= h'+1, hence free on the left, but not on the right *)
        assert (Hl : l' <= l).
        { specialize (Hw l). rewrite !abs_cons in Hw.
          assert (C : contains (l, h) l = true) by (apply contains_spec; cbn; lia). rewrite C in Hw. cbn [orb] in Hw.
          symmetry in Hw. apply orb_true_iff in Hw as [Hw|Hw].
          + apply contains_spec in Hw. cbn in Hw. lia.
          + apply (abs_ge _ _ _ _ W2) in Hw. lia. }
        assert (Hl2 : l <= l').
        { specialize (Hw l'). rewrite !abs_cons in Hw.
          assert (C : contains (l', h') l' = true) by (apply contains_spec; cbn; lia). rewrite C in Hw. cbn [orb] in Hw.
          apply orb_true_iff in Hw as [Hw|Hw].
          + apply contains_spec in Hw. cbn in Hw. lia.
          + apply (abs_ge _ _ _ _ W1) in Hw. lia. }
        specialize (Hw (h' + 1)). rewrite !abs_cons in Hw.
        assert (C : contains (l, h) (h' + 1) = true) by (apply contains_spec; cbn; lia). rewrite C in Hw. cbn [orb] in Hw.
        symmetry in Hw. apply orb_true_iff in Hw as [Hw|Hw].
        + apply contains_spec in Hw. cbn in Hw. lia.
        + apply (abs_ge _ _ _ _ W2) in Hw. lia. }
    destruct (Hin _ _ _ _ _ _ P2 P4 Q2 Q4 Hab) as [A1 A2].
    destruct (Hin _ _ _ _ _ _ Q2 Q4 P2 P4 (fun w => eq_sym (Hab w))) as [B1 B2].
    assert (l1 = l2) by lia. assert (h1 = h2) by lia. subst l2 h2. f_equal.
    apply (IH (h1 + 2)); auto. intro w. specialize (Hab w). rewrite !abs_cons in Hab.
    destruct (contains (l1, h1) w) eqn:C; [|exact Hab].
    apply contains_spec in C. cbn in C.
    rewrite (abs_lt_false _ _ _ w P4), (abs_lt_false _ _ _ w Q4) by lia. reflexivity.
Qed.

(* ====================== refinement ====================== *)
Definition R (a : alloc) (s : sset) : Prop :=
  a_lo a = s_lo s /\ a_hi a = s_hi s /\ WF a /\ asc (s_lo s) (s_hi s) (s_used s) /\
  forall w, abs (a_pool a) w = s_free s w.

Lemma R_intro a s :
  a_lo a = s_lo s -> a_hi a = s_hi s -> WF a -> asc (s_lo s) (s_hi s) (s_used s) ->
  (forall w, abs (a_pool a) w = s_free s w) -> R a s.
Proof. unfold R; auto. Qed.

Lemma R_repr a s : R a s -> a_pool a = s_repr s.
Proof.
  intros (E1 & E2 & (W1 & W2 & W3) & Hasc & Hab). unfold s_repr.
  destruct (canon_spec _ _ _ Hasc) as [C1 C2].
  apply (wfp_unique (s_lo s) (s_hi s)); [now rewrite <- E1, <- E2|exact C1|].
  intro w. rewrite Hab, C2. reflexivity.
Qed.

Lemma R_new lo hi mx : lo <= hi -> hi <= mx -> exists a, a_new lo hi mx = Ok a /\ R a (s_new lo hi) /\ a_max a = mx.
Proof.
  intros H1 H2. unfold a_new. apply N.leb_le in H1 as H1'. rewrite H1'. eexists; split; [reflexivity|].
  split; [|reflexivity]. unfold R, WF, s_new, s_free, in_range. cbn.
  repeat split; try lia.
Qed.

Theorem step_refines a s o :
  R a s -> s_pre s o = true ->
  exists a', a_step a o = Ok (fst (s_step s o), a') /\ R a' (snd (s_step s o)) /\ a_max a' = a_max a.
Proof.
  intros HR Hpre. pose proof HR as (E1 & E2 & HWF & Hasc & Hab).
  pose proof (R_repr _ _ HR) as Hrepr.
  destruct o as [| |v|v|v| |]; cbn [a_step s_step s_pre] in *.
  - (* allocate *)
    pose proof (allocate_spec a HWF) as HA. unfold s_allocate.
    pose proof (least_free_spec _ _ _ Hasc) as HL. cbv zeta in HL. destruct HL as (L1 & L2 & L3 & L4).
    set (x := least_free (s_lo s) (s_used s)) in *.
    destruct (a_pool a) as [|[l h] t] eqn:Ep.
    + (* nothing free: the spec must agree *)
      rewrite HA. cbn [bindr].
      destruct (x <=? s_hi s) eqn:Ex.
      * exfalso. apply N.leb_le in Ex. specialize (Hab x). rewrite abs_nil in Hab.
        unfold s_free, in_range in Hab. rewrite L3 in Hab.
        assert ((s_lo s <=? x) = true) by (apply N.leb_le; lia). assert ((x <=? s_hi s) = true) by (apply N.leb_le; lia).
        rewrite H, H0 in Hab. discriminate.
      * cbn [fst snd]. exists a. split; [reflexivity|]. split; [exact HR|reflexivity].
    + destruct HA as (a' & HA & HWF' & F1 & F2 & F3 & Hab').
      rewrite HA. cbn [bindr].
      assert (Hl : l = x /\ x <= s_hi s).
      { destruct HWF as (_ & _ & Hw). rewrite Ep in Hw. cbn [wfp fst snd] in Hw. destruct Hw as (W1 & W2 & W3 & W4).
        assert (Hfl : s_free s l = true).
        { rewrite <- Hab, abs_cons. apply orb_true_iff. left. apply contains_spec; cbn; lia. }
        unfold s_free, in_range in Hfl. apply andb_true_iff in Hfl as [Hr Hm]. apply andb_true_iff in Hr as [Hr1 Hr2].
        apply N.leb_le in Hr1, Hr2. apply negb_true_iff in Hm.
        destruct (N.lt_trichotomy l x) as [Hlt|[Heq|Hgt]]; [|split; lia|].
        - rewrite (L4 l) in Hm by lia. discriminate.
        - exfalso. assert (Hx : x <= s_hi s) by lia.
          specialize (Hab x). rewrite abs_cons in Hab. unfold s_free, in_range in Hab. rewrite L3 in Hab.
          assert (X1 : (s_lo s <=? x) = true) by (apply N.leb_le; lia).
          assert (X2 : (x <=? s_hi s) = true) by (apply N.leb_le; lia). rewrite X1, X2 in Hab. cbn in Hab.
          apply orb_true_iff in Hab as [Hc|Hc].
          + apply contains_spec in Hc. cbn in Hc. lia.
          + apply (abs_ge _ _ _ _ W4) in Hc. lia. }
      destruct Hl as [-> Hx]. apply N.leb_le in Hx as Hx'. rewrite Hx'. cbn [fst snd].
      exists a'. split; [reflexivity|]. split; [|exact F3].
      apply R_intro; cbn [set_used s_lo s_hi s_used]; [congruence|congruence|exact HWF'| |].
      * apply asc_insert; auto.
      * intro w. rewrite Hab', Hab. unfold s_free, in_range. cbn [set_used s_lo s_hi s_used].
        rewrite s_mem_insert. destruct (w =? x); cbn [negb orb]; [now rewrite !andb_false_r|now rewrite andb_true_r].
  - (* first_vacant *)
    exists a. split; [|split; [exact HR|reflexivity]]. cbn [fst snd]. f_equal. f_equal.
    unfold a_first_vacant, s_first_vacant. rewrite Hrepr. unfold s_repr.
    pose proof (least_free_spec _ _ _ Hasc) as HL. cbv zeta in HL. destruct HL as (L1 & L2 & L3 & L4).
    set (x := least_free (s_lo s) (s_used s)) in *.
    destruct (canon_spec _ _ _ Hasc) as [C1 C2].
    destruct (canon (s_lo s) (s_hi s) (s_used s)) as [|[l h] t] eqn:Ec.
    + destruct (x <=? s_hi s) eqn:Ex; [|reflexivity]. exfalso. apply N.leb_le in Ex.
      specialize (C2 x). rewrite abs_nil, L3 in C2.
      assert (X1 : (s_lo s <=? x) = true) by (apply N.leb_le; lia).
      assert (X2 : (x <=? s_hi s) = true) by (apply N.leb_le; lia). rewrite X1, X2 in C2. discriminate.
    + cbn [wfp fst snd] in C1. destruct C1 as (W1 & W2 & W3 & W4).
      assert (Hfl : abs ((l, h) :: t) l = true) by (rewrite abs_cons; apply orb_true_iff; left; apply contains_spec; cbn; lia).
      rewrite C2 in Hfl. apply andb_true_iff in Hfl as [Hr Hm]. apply andb_true_iff in Hr as [Hr1 Hr2].
      apply N.leb_le in Hr1, Hr2. apply negb_true_iff in Hm.
      assert (l = x).
      { destruct (N.lt_trichotomy l x) as [Hlt|[Heq|Hgt]]; [|exact Heq|].
        - rewrite (L4 l) in Hm by lia. discriminate.
        - exfalso. specialize (C2 x). rewrite abs_cons, L3 in C2.
          assert (X1 : (s_lo s <=? x) = true) by (apply N.leb_le; lia).
          assert (X2 : (x <=? s_hi s) = true) by (apply N.leb_le; lia). rewrite X1, X2 in C2. cbn in C2.
          apply orb_true_iff in C2 as [Hc|Hc].
          + apply contains_spec in Hc. cbn in Hc. lia.
          + apply (abs_ge _ _ _ _ W4) in Hc. lia. }
      subst l. assert (X2 : (x <=? s_hi s) = true) by (apply N.leb_le; lia). now rewrite X2.
  - (* deallocate a used value *)
    unfold s_is_used, in_range in Hpre. apply andb_true_iff in Hpre as [Hr Hm]. apply andb_true_iff in Hr as [Hr1 Hr2].
    apply N.leb_le in Hr1, Hr2.
    assert (Hav : abs (a_pool a) v = false).
    { rewrite Hab. unfold s_free. rewrite Hm. cbn. now rewrite andb_false_r. }
    destruct (deallocate_spec a v HWF) as (a' & HD & HWF' & F1 & F2 & F3 & Hab'); [lia|lia|exact Hav|].
    rewrite HD. cbn [bindr fst snd]. exists a'. split; [reflexivity|]. split; [|exact F3].
    unfold s_release. apply R_intro; cbn [set_used s_lo s_hi s_used]; [congruence|congruence|exact HWF'| |].
    + now apply asc_remove.
    + intro w. rewrite Hab', Hab. unfold s_free, in_range. cbn [set_used s_lo s_hi s_used].
      rewrite (s_mem_remove _ _ _ _ _ Hasc). destruct (N.eqb_spec w v) as [->|Hne]; cbn [negb].
      * rewrite andb_false_r, orb_true_r. cbn [negb]. rewrite andb_true_r. symmetry. apply andb_true_iff; split; apply N.leb_le; lia.
      * now rewrite andb_true_r, orb_false_r.
  - (* use_value *)
    destruct (use_value_spec a v HWF) as (a' & HU & HWF' & F1 & F2 & F3 & Hab').
    rewrite HU. unfold s_use. rewrite Hab.
    destruct (s_free s v) eqn:Ef; cbn [fst snd].
    + exists a'. split; [reflexivity|]. split; [|exact F3].
      unfold s_free, in_range in Ef. apply andb_true_iff in Ef as [Hr Hm]. apply andb_true_iff in Hr as [Hr1 Hr2].
      apply N.leb_le in Hr1, Hr2.
      apply R_intro; cbn [set_used s_lo s_hi s_used]; [congruence|congruence|exact HWF'| |].
      * apply asc_insert; auto.
      * intro w. rewrite Hab', Hab. unfold s_free, in_range. cbn [set_used s_lo s_hi s_used].
        rewrite s_mem_insert. destruct (w =? v); cbn [negb orb]; [now rewrite !andb_false_r|now rewrite andb_true_r].
    + exists a'. split; [reflexivity|]. split; [|exact F3].
      apply R_intro; [congruence|congruence|exact HWF'|exact Hasc|].
      intro w. rewrite Hab', Hab. destruct (N.eqb_spec w v) as [->|]; cbn [negb]; [now rewrite Ef|now rewrite andb_true_r].
  - (* is_used *)
    exists a. split; [|split; [exact HR|reflexivity]]. cbn [fst snd]. f_equal. f_equal. f_equal. f_equal.
    unfold a_is_used, s_is_used, in_range. fold (abs (a_pool a) v). rewrite Hab, E1, E2.
    unfold s_free, in_range. destruct (s_lo s <=? v), (v <=? s_hi s), (s_mem v (s_used s)); reflexivity.
  - (* clear *)
    exists (a_clear a). split; [reflexivity|]. split; [|reflexivity]. destruct HWF as (W1 & W2 & W3).
    unfold a_clear, s_clear. apply R_intro; cbn [set_pool set_used a_lo a_hi a_max a_pool s_lo s_hi s_used asc];
      [exact E1|exact E2| |exact I|].
    { apply WF_set_pool; auto. cbn [wfp fst snd]. repeat split; lia. }
    intro w. rewrite abs_cons, abs_nil. unfold s_free, in_range, contains. cbn [set_used s_lo s_hi s_used s_mem negb fst snd].
    now rewrite E1, E2, orb_false_r, andb_true_r.
  - (* interval_count *)
    exists a. split; [|split; [exact HR|reflexivity]]. cbn [fst snd]. unfold a_interval_count, s_count. now rewrite Hrepr.
Qed.

(* ====================== every operation sequence ====================== *)
Fixpoint a_run (a : alloc) (ops : list aop) : res (list (list N) * alloc) :=
  match ops with
  | [] => Ok ([], a)
  | o :: t => bindr (a_step a o) (fun '(ans, a') =>
              bindr (a_run a' t) (fun '(rest, a'') => Ok (ans :: rest, a'')))
  end.

Fixpoint s_run (s : sset) (ops : list aop) : list (list N) * sset :=
  match ops with
  | [] => ([], s)
  | o :: t => let '(ans, s') := s_step s o in let '(rest, s'') := s_run s' t in (ans :: rest, s'')
  end.

(* the caller's contract along the whole sequence: deallocate only values in use *)
Fixpoint s_pre_all (s : sset) (ops : list aop) : bool :=
  match ops with
  | [] => true
  | o :: t => s_pre s o && s_pre_all (snd (s_step s o)) t
  end.

Theorem run_refines ops : forall a s,
  R a s -> s_pre_all s ops = true ->
  exists a', a_run a ops = Ok (fst (s_run s ops), a') /\ R a' (snd (s_run s ops)) /\ a_max a' = a_max a.
Proof.
  induction ops as [|o t IH]; intros a s HR Hpre; cbn [a_run s_run s_pre_all] in *.
  - exists a. auto.
  - apply andb_true_iff in Hpre as [Hp1 Hp2].
    destruct (step_refines a s o HR Hp1) as (a1 & Hs & HR1 & Hm1).
    rewrite Hs. cbn [bindr]. destruct (s_step s o) as [ans s1] eqn:Es. cbn [fst snd] in *.
    destruct (IH a1 s1 HR1 Hp2) as (a2 & Hr & HR2 & Hm2).
    rewrite Hr. cbn [bindr]. destruct (s_run s1 t) as [rest s2]. cbn [fst snd] in *.
    exists a2. split; [reflexivity|]. split; [exact HR2|congruence].
Qed.

(* ---- what the specification itself says (so that "refines the spec" means the property) ---- *)
Lemma spec_allocate_least s :
  asc (s_lo s) (s_hi s) (s_used s) ->
  match fst (s_allocate s) with
  | Some x => s_free s x = true /\ forall w, s_free s w = true -> x <= w
  | None => forall w, s_free s w = false
  end.
Proof.
  intro Hasc. unfold s_allocate. pose proof (least_free_spec _ _ _ Hasc) as HL. cbv zeta in HL.
  destruct HL as (L1 & L2 & L3 & L4). set (x := least_free (s_lo s) (s_used s)) in *.
  destruct (x <=? s_hi s) eqn:Ex; cbn [fst].
  - apply N.leb_le in Ex. split.
    + unfold s_free, in_range. rewrite L3. cbn [negb]. rewrite andb_true_r. apply andb_true_iff; split; apply N.leb_le; lia.
    + intros w Hw. unfold s_free, in_range in Hw. apply andb_true_iff in Hw as [Hr Hm].
      apply andb_true_iff in Hr as [Hr1 Hr2]. apply N.leb_le in Hr1, Hr2. apply negb_true_iff in Hm.
      destruct (N.le_gt_cases x w) as [|Hlt]; [assumption|]. rewrite (L4 w) in Hm by lia. discriminate.
  - apply N.leb_gt in Ex. intro w. unfold s_free, in_range.
    destruct (s_lo s <=? w) eqn:E1; [|reflexivity]. destruct (w <=? s_hi s) eqn:E2; [|reflexivity].
    apply N.leb_le in E1, E2. rewrite (L4 w) by lia. reflexivity.
Qed.

Lemma spec_out_of_range_not_used s v : in_range s v = false -> s_is_used s v = false.
Proof. intro H. unfold s_is_used. now rewrite H. Qed.

Lemma spec_use_iff_free s v : fst (s_use s v) = s_free s v.
Proof. unfold s_use. destruct (s_free s v); reflexivity. Qed.

Lemma spec_used_iff s v : asc (s_lo s) (s_hi s) (s_used s) -> s_is_used s v = in_range s v && negb (s_free s v).
Proof.
  intros _. unfold s_is_used, s_free. destruct (in_range s v), (s_mem v (s_used s)); reflexivity.
Qed.

(* the run-length representation is sorted, disjoint, maximally merged, and is determined by the set *)
Lemma repr_wf a s : R a s -> wfp (s_lo s) (s_hi s) (a_pool a) /\ a_pool a = s_repr s.
Proof.
  intro HR. split; [|now apply R_repr]. destruct HR as (E1 & E2 & (_ & _ & W) & _). now rewrite <- E1, <- E2.
Qed.

(* maximal merge, stated directly: the values just outside an interval of the pool are not free *)
Lemma wfp_maximal b hi p y :
  wfp b hi p -> In y p -> abs p (snd y + 1) = false /\ (0 < fst y -> abs p (fst y - 1) = false).
Proof.
  revert b; induction p as [|z t IH]; intros b Hw Hin; [destruct Hin|].
  cbn [wfp] in Hw. destruct Hw as (H1 & H2 & H3 & H4). rewrite !abs_cons.
  destruct Hin as [->|Hin].
  - split.
    + apply orb_false_iff. split; [apply contains_false; lia|]. apply (abs_lt_false _ _ _ _ H4). lia.
    + intro Hpos. apply orb_false_iff. split; [apply contains_false; lia|]. apply (abs_lt_false _ _ _ _ H4). lia.
  - destruct (IH _ H4 Hin) as [I1 I2].
    pose proof (wfp_valid_below _ _ _ H4) as Hvb.
    assert (Hy : snd z + 2 <= fst y /\ fst y <= snd y).
    { clear - H4 Hin. revert H4. generalize (snd z + 2) as c. induction t as [|u t IHt]; intros c Hw; [destruct Hin|].
      cbn [wfp] in Hw. destruct Hw as (A1 & A2 & A3 & A4). destruct Hin as [->|Hin]; [lia|].
      specialize (IHt Hin _ A4). lia. }
    split.
    + apply orb_false_iff. split; [apply contains_false; lia|exact I1].
    + intro Hpos. apply orb_false_iff. split; [apply contains_false; lia|auto].
Qed.

Theorem alloc_refines_set lo hi mx ops :
  lo <= hi -> hi <= mx -> s_pre_all (s_new lo hi) ops = true ->
  exists a0 a', a_new lo hi mx = Ok a0 /\
                a_run a0 ops = Ok (fst (s_run (s_new lo hi) ops), a') /\
                a_pool a' = s_repr (snd (s_run (s_new lo hi) ops)) /\
                wfp lo hi (a_pool a') /\
                (forall w, abs (a_pool a') w = s_free (snd (s_run (s_new lo hi) ops)) w).
Proof.
  intros H1 H2 Hpre. destruct (R_new lo hi mx H1 H2) as (a0 & Hn & HR0 & Hm0).
  destruct (run_refines ops a0 _ HR0 Hpre) as (a' & Hr & HR' & _).
  exists a0, a'. split; [exact Hn|]. split; [exact Hr|].
  destruct (repr_wf _ _ HR') as [W E]. split; [exact E|].
  assert (Hb : forall ops s, s_lo (snd (s_run s ops)) = s_lo s /\ s_hi (snd (s_run s ops)) = s_hi s).
  { clear. induction ops as [|o t IH]; intros s; cbn [s_run]; [auto|].
    destruct (s_step s o) as [ans s1] eqn:Es. specialize (IH s1). destruct (s_run s1 t) as [rest s2]. cbn [snd] in *.
    assert (s_lo s1 = s_lo s /\ s_hi s1 = s_hi s).
    { destruct o; cbn [s_step] in Es; unfold s_allocate, s_use, s_release, s_clear in Es;
        repeat match type of Es with context [if ?c then _ else _] => destruct c end;
        inversion Es; subst; auto. }
    intuition congruence. }
  destruct (Hb ops (s_new lo hi)) as [B1 B2]. cbn [s_new s_lo s_hi] in B1, B2. rewrite B1, B2 in W.
  split; [exact W|]. destruct HR' as (_ & _ & _ & _ & Hab). exact Hab.
Qed.

(* PacketIdManager<T> is the allocator over [1, T::max] *)
Lemma pm_new_is_new mx : 1 <= mx -> a_new 1 mx mx = Ok (pm_new mx).
Proof. intro H. unfold a_new, pm_new. apply N.leb_le in H. now rewrite H. Qed.
