(* The specification the allocator is measured against (C20): a plain set of integers in use
   inside [lo,hi]; the free set is its complement.  Executable: the set is a strictly
   ascending list, so the same definitions serve as the monitor on implementation traces. *)
From MQ Require Import Base.Prelude Alloc.Alloc.

Record sset := mkSet { s_lo : N; s_hi : N; s_used : list N }.

Fixpoint s_mem (v : N) (l : list N) : bool :=
  match l with [] => false | u :: t => (u =? v) || s_mem v t end.

Fixpoint s_insert (v : N) (l : list N) : list N :=
  match l with
  | [] => [v]
  | u :: t => if v <? u then v :: l else if u <? v then u :: s_insert v t else l
  end.

Fixpoint s_remove (v : N) (l : list N) : list N :=
  match l with
  | [] => []
  | u :: t => if u =? v then t else u :: s_remove v t
  end.

(* the least value >= b that is not in the ascending list l (whose elements are all >= b) *)
Fixpoint least_free (b : N) (l : list N) : N :=
  match l with
  | [] => b
  | u :: t => if u =? b then least_free (b + 1) t else b
  end.

Definition in_range (s : sset) (v : N) : bool := (s_lo s <=? v) && (v <=? s_hi s).
Definition s_free (s : sset) (v : N) : bool := in_range s v && negb (s_mem v (s_used s)).
Definition set_used (s : sset) (l : list N) : sset := mkSet (s_lo s) (s_hi s) l.

Definition s_allocate (s : sset) : option N * sset :=
  let x := least_free (s_lo s) (s_used s) in
  if x <=? s_hi s then (Some x, set_used s (s_insert x (s_used s))) else (None, s).

Definition s_first_vacant (s : sset) : option N :=
  let x := least_free (s_lo s) (s_used s) in if x <=? s_hi s then Some x else None.

Definition s_use (s : sset) (v : N) : bool * sset :=
  if s_free s v then (true, set_used s (s_insert v (s_used s))) else (false, s).

Definition s_release (s : sset) (v : N) : sset := set_used s (s_remove v (s_used s)).
Definition s_is_used (s : sset) (v : N) : bool := in_range s v && s_mem v (s_used s).
Definition s_clear (s : sset) : sset := set_used s [].

(* the unique sorted, disjoint, maximally merged run-length representation of the free set:
   b = where the next free run would start *)
Fixpoint canon (b hi : N) (used : list N) : list iv :=
  match used with
  | [] => if b <=? hi then [(b, hi)] else []
  | u :: t => if b <? u then (b, u - 1) :: canon (u + 1) hi t else canon (u + 1) hi t
  end.

Definition s_repr (s : sset) : list iv := canon (s_lo s) (s_hi s) (s_used s).
Definition s_count (s : sset) : N := N.of_nat (length (s_repr s)).

(* precondition of an operation = the Rust contract: deallocate(v) only for a value in use *)
Definition s_pre (s : sset) (o : aop) : bool :=
  match o with ADeallocate v => s_is_used s v | _ => true end.

Definition s_step (s : sset) (o : aop) : list N * sset :=
  match o with
  | AAllocate => let '(r, s') := s_allocate s in (match r with Some v => [v] | None => [] end, s')
  | AFirstVacant => (match s_first_vacant s with Some v => [v] | None => [] end, s)
  | ADeallocate v => ([], s_release s v)
  | AUse v => let '(b, s') := s_use s v in ([b2n b], s')
  | AIsUsed v => ([b2n (s_is_used s v)], s)
  | AClear => ([], s_clear s)
  | ACount => ([s_count s], s)
  end.

Definition s_new (lo hi : N) : sset := mkSet lo hi [].
