(* Extraction of the executable correspondence checkers (volume path of the tie and the search
   for failing inputs).  ExtrOcamlBasic only: bool, option, unit, list, prod, sumbool, sumor are
   mapped to OCaml's; andb/orb inlined.  N, positive, nat stay the extracted inductives.
   No theorem depends on anything in this file. *)
From Coq Require Import Extraction ExtrOcamlBasic.
From MQ Require Import Base.Prelude Corr.Tok Corr.AllocCorr Corr.FramingCorr Corr.ConnCorr Mon.Proj Mon.MonGate Mon.MonTimers Mon.MonIds Mon.MonSession Mon.MonPair Corr.PropsCorr Corr.PkCorr Mon.MonDuo Mon.MonContract.

Extraction Language OCaml.
Separate Extraction check_alloc mon_alloc check_framing mon_framing check_conn check_conn_proj mon_c19 mon_c11 mon_c17 mon_c15 mon_c08 mon_c12 mon_c06 mon_c07 mon_c13 mon_c14 mon_c05 mon_pair chk_pair chk_c18 mon_c18 chk_pk mon_c02 mon_c03 mon_c04 chk_c04 mon_c01 chk_duo mon_c09 mon_contract.
