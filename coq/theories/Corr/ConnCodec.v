(* Numeric encoding shared with the Rust harness: packet views, events, operations, state digest.
   Inputs (ops) are decoded; the model's outputs are *encoded* and compared with the observed
   numbers as a prefix of the remaining stream. *)
From MQ Require Import Base.Prelude Alloc.Alloc Alloc.SetSpec Framing.Framing
                       Conn.Types Conn.TopicAlias Conn.ConnRecord Conn.Step Corr.Tok.

Definition ver_n (v : version) : N := match v with V311 => 4 | V50 => 5 | VUndet => 0 end.
Definition ver_of (n : N) : version := if n =? 4 then V311 else if n =? 5 then V50 else VUndet.
Definition enc_opt (o : option N) : list N := match o with Some x => [1; x] | None => [0; 0] end.

Definition enc_pkt (p : pkt) : list N :=
  [k_type p; ver_n (k_ver p); k_pid p; k_qos p; b2n (k_dup p); b2n (k_retain p); N.of_nat (length (k_topic p))]
  ++ k_topic p ++ enc_opt (k_alias p)
  ++ [k_plen p; k_paylen p; k_size p; b2n (k_rc_present p); k_rc p; b2n (k_flag p); k_keep_alive p]
  ++ enc_opt (k_tam p) ++ enc_opt (k_rm p) ++ enc_opt (k_mps p) ++ enc_opt (k_sei p) ++ enc_opt (k_ska p).

Definition dec_opt (l : list N) : option (option N * list N) :=
  match l with
  | p :: x :: t => Some ((if n2b p then Some x else None), t)
  | _ => None
  end.

Definition dec_pkt (l : list N) : option (pkt * list N) :=
  match l with
  | ty :: ver :: pid :: qos :: dup :: retain :: l1 =>
    match take_lp l1 with
    | Some (topic, l2) =>
      match dec_opt l2 with
      | Some (alias, plen :: paylen :: size :: rcp :: rc :: flag :: ka :: l3) =>
        match dec_opt l3 with
        | Some (tam, l4) =>
          match dec_opt l4 with
          | Some (rm, l5) =>
            match dec_opt l5 with
            | Some (mps, l6) =>
              match dec_opt l6 with
              | Some (sei, l7) =>
                match dec_opt l7 with
                | Some (ska, l8) =>
                  Some (mkPkt ty (ver_of ver) pid qos (n2b dup) (n2b retain) topic alias plen paylen size
                              (n2b rcp) rc (n2b flag) ka tam rm mps sei ska, l8)
                | None => None end
              | None => None end
            | None => None end
          | None => None end
        | None => None end
      | _ => None end
    | None => None end
  | _ => None
  end.

Fixpoint dec_pkts (n : nat) (l : list N) : option (list pkt * list N) :=
  match n with
  | O => Some ([], l)
  | S n' => match dec_pkt l with
            | Some (p, l1) => match dec_pkts n' l1 with
                              | Some (ps, l2) => Some (p :: ps, l2)
                              | None => None end
            | None => None end
  end.

(* a packet handed to the API: its view followed by its serialisation (length-prefixed; kept for
   replay and for the codec tie, not used by the state machine) *)
Definition dec_pkt_b (l : list N) : option (pkt * list N) :=
  match dec_pkt l with
  | Some (p, l1) => match take_lp l1 with Some (_, l2) => Some (p, l2) | None => None end
  | None => None
  end.

Fixpoint dec_pkts_b (n : nat) (l : list N) : option (list pkt * list N) :=
  match n with
  | O => Some ([], l)
  | S n' => match dec_pkt_b l with
            | Some (p, l1) => match dec_pkts_b n' l1 with
                              | Some (ps, l2) => Some (p :: ps, l2)
                              | None => None end
            | None => None end
  end.

Definition timer_n (k : timer) : N := match k with TPingreqSend => 0 | TPingreqRecv => 1 | TPingrespRecv => 2 end.
Definition timer_of (n : N) : timer := if n =? 0 then TPingreqSend else if n =? 1 then TPingreqRecv else TPingrespRecv.

Definition dec_op (l : list N) : option (op * list N) :=
  match l with
  | [] => None
  | tag :: t =>
    (* 18 = the same packet handed to checked_send (compile-time-checked entry point): the same operation *)
    if (tag =? 0) || (tag =? 18) then match dec_pkt_b t with Some (p, r) => Some (OSend p, r) | None => None end
    else if tag =? 1 then
      match take_lp t with
      | Some (bytes, prtag :: r) =>
        if prtag =? 0 then match dec_pkt r with Some (p, r') => Some (ORecv bytes (PROk p), r') | None => None end
        else if prtag =? 1 then match r with e :: r' => Some (ORecv bytes (PRErr e), r') | [] => None end
        else Some (ORecv bytes (PRErr 0), r)
      | _ => None
      end
    else if tag =? 2 then match t with k :: r => Some (OTimer (timer_of k), r) | [] => None end
    else if tag =? 3 then Some (OClosed, t)
    else if tag =? 4 then match dec_opt t with Some (o, r) => Some (OSetPingreqInterval o, r) | None => None end
    else if tag =? 5 then match t with n :: r => Some (OSetPingrespTimeout n, r) | [] => None end
    else if (6 <=? tag) && (tag <=? 10) then
      match t with
      | b :: r => Some ((if tag =? 6 then OSetOffline (n2b b) else if tag =? 7 then OSetAutoPub (n2b b)
                         else if tag =? 8 then OSetAutoPing (n2b b) else if tag =? 9 then OSetAutoMap (n2b b)
                         else OSetAutoReplace (n2b b)), r)
      | [] => None end
    else if tag =? 11 then Some (OAcquire, t)
    else if tag =? 12 then match t with id :: r => Some (ORegister id, r) | [] => None end
    else if tag =? 13 then match t with id :: r => Some (ORelease id, r) | [] => None end
    else if tag =? 14 then match t with id :: r => Some (OErase id, r) | [] => None end
    else if tag =? 15 then
      match t with
      | n :: r => match dec_pkts_b (N.to_nat n) r with Some (ps, r') => Some (ORestorePackets ps, r') | None => None end
      | [] => None end
    else if tag =? 16 then match take_lp t with Some (ids, r) => Some (ORestoreQos2 ids, r) | None => None end
    else if tag =? 17 then match dec_pkt_b t with Some (p, r) => Some (ORegulate p, r) | None => None end
    else None
  end.

(* ---- events ---- *)
Definition enc_event (e : event) : list N :=
  match e with
  | ESend p rel => 0 :: enc_pkt p ++ enc_opt rel
  | ENotify p => 1 :: enc_pkt p
  | EReleased id => [2; id]
  | ETimerReset k ms => [3; timer_n k; ms]
  | ETimerCancel k => [4; timer_n k]
  | EError e => [5; e]
  | EClose => [6]
  end.

(* consecutive release notifications come out of HashSet drains: compared as sets (sorted) *)
Fixpoint insert_sorted (x : N) (l : list N) : list N :=
  match l with [] => [x] | y :: t => if x <=? y then x :: l else y :: insert_sorted x t end.
Definition sort_n (l : list N) : list N := fold_right insert_sorted [] l.

Fixpoint canon_events (run : list N) (l : list event) : list event :=
  match l with
  | [] => map EReleased (sort_n run)
  | EReleased id :: t => canon_events (id :: run) t
  | e :: t => map EReleased (sort_n run) ++ e :: canon_events [] t
  end.

Definition enc_events (l : list event) : list N :=
  let c := canon_events [] l in
  N.of_nat (length c) :: concat (map enc_event c).

(* ---- state digest ---- *)
Definition enc_set (s : list N) : list N := N.of_nat (length s) :: s.
Definition enc_topic (t : list N) : list N := N.of_nat (length t) :: t.

(* lexicographic order on topics, for the canonical listing of the topic -> aliases map
   (Rust: Vec<(String, Vec<u16>)>::sort(), i.e. byte-wise string order) *)
Fixpoint topic_leb (a b : list N) : bool :=
  match a, b with
  | [], _ => true
  | _ :: _, [] => false
  | x :: a', y :: b' => if x <? y then true else if y <? x then false else topic_leb a' b'
  end.
Fixpoint t2a_insert (x : list N * list N) (l : list (list N * list N)) : list (list N * list N) :=
  match l with [] => [x] | y :: t => if topic_leb (fst x) (fst y) then x :: l else y :: t2a_insert x t end.
Definition t2a_sort (l : list (list N * list N)) := fold_right t2a_insert [] l.

Definition status_n (s : status) : N := match s with Disconnected => 0 | Connecting => 1 | Connected => 2 end.
Definition rstate_n (s : rstate) : N := match s with SHdr => 0 | SLen => 1 | SPayload => 2 end.

Definition enc_conn (c : conn) : list N :=
  [ver_n (c_version c)]
  ++ (N.of_nat (length (a_pool (c_pid c))) :: unpairs (a_pool (c_pid c)))
  ++ enc_set (c_suback c) ++ enc_set (c_unsuback c) ++ enc_set (c_puback c) ++ enc_set (c_pubrec c) ++ enc_set (c_pubcomp c)
  ++ [b2n (c_need_store c)]
  ++ (N.of_nat (length (c_store c)) :: concat (map enc_pkt (c_store c)))
  ++ [b2n (c_offline c); b2n (c_auto_pub c); b2n (c_auto_ping c); b2n (c_auto_map c); b2n (c_auto_replace c)]
  ++ match c_ta_recv c with
     | None => [0]
     | Some r => [1; tr_max r; N.of_nat (length (tr_map r))]
                 ++ concat (map (fun at_ => fst at_ :: enc_topic (snd at_)) (tr_map r))
     end
  ++ match c_ta_send c with
     | None => [0]
     | Some s => [1; ts_max s; N.of_nat (length (ts_a2t s))]
                 ++ concat (map (fun at_ => fst at_ :: enc_topic (snd at_)) (ts_a2t s))
                 ++ [N.of_nat (length (ts_t2a s))]
                 ++ concat (map (fun ta => enc_topic (fst ta) ++ enc_set (snd ta)) (t2a_sort (ts_t2a s)))
                 ++ (N.of_nat (length (a_pool (ts_va s))) :: unpairs (a_pool (ts_va s)))
     end
  ++ enc_opt (c_send_max c) ++ enc_opt (c_recv_max c) ++ [c_send_count c]
  ++ enc_set (c_publish_recv c)
  ++ [c_mps_send c; c_mps_recv c; status_n (c_status c)]
  ++ enc_opt (c_user_ping c) ++ [c_keep_alive_ms c] ++ enc_opt (c_server_ka_ms c)
  ++ [c_pingreq_recv_to c; c_pingresp_recv_to c]
  ++ enc_set (c_qos2 c)
  ++ [b2n (c_t_send c); b2n (c_t_recv c); b2n (c_t_resp c)]
  ++ [rstate_n (pb_st (c_pb c))] ++ enc_set (pb_hdr (c_pb c)) ++ [pb_rem (c_pb c)] ++ enc_set (pb_buf (c_pb c))
  ++ [b2n (c_is_client c)]
  ++ enc_opt (vacancy c).

(* expected tokens as a prefix of the stream: Some rest, or the position of the first difference *)
Fixpoint strip_prefix (pos : N) (exp got : list N) : list N + (N * N * N) :=
  match exp with
  | [] => inl got
  | x :: e' =>
    match got with
    | [] => inr (pos, x, 999999999)
    | y :: g' => if x =? y then strip_prefix (pos + 1) e' g' else inr (pos, x, y)
    end
  end.

(* ---- decoding of what the implementation reported (events, state digest), so that monitors
   can judge the implementation's own trace and the per-property comparison can restart from
   the implementation's state at every call ---- *)
Definition dec_event (l : list N) : option (event * list N) :=
  match l with
  | [] => None
  | t :: r =>
    if t =? 0 then
      match dec_pkt r with
      | Some (p, r1) => match dec_opt r1 with Some (rel, r2) => Some (ESend p rel, r2) | None => None end
      | None => None end
    else if t =? 1 then match dec_pkt r with Some (p, r1) => Some (ENotify p, r1) | None => None end
    else if t =? 2 then match r with id :: r1 => Some (EReleased id, r1) | [] => None end
    else if t =? 3 then match r with k :: ms :: r1 => Some (ETimerReset (timer_of k) ms, r1) | _ => None end
    else if t =? 4 then match r with k :: r1 => Some (ETimerCancel (timer_of k), r1) | [] => None end
    else if t =? 5 then match r with e :: r1 => Some (EError e, r1) | [] => None end
    else if t =? 6 then Some (EClose, r)
    else None
  end.

Fixpoint dec_events_n (n : nat) (l : list N) : option (list event * list N) :=
  match n with
  | O => Some ([], l)
  | S n' => match dec_event l with
            | Some (e, l1) => match dec_events_n n' l1 with
                              | Some (es, l2) => Some (e :: es, l2)
                              | None => None end
            | None => None end
  end.
Definition dec_events (l : list N) : option (list event * list N) :=
  match l with n :: r => dec_events_n (N.to_nat n) r | [] => None end.

Definition dec_pairs (l : list N) : option (list (N * N) * list N) :=
  match l with
  | n :: r => match take (2 * N.to_nat n) r with Some (x, r') => Some (pairs x, r') | None => None end
  | [] => None
  end.

Fixpoint dec_a2t (n : nat) (l : list N) : option (list (N * list N) * list N) :=
  match n with
  | O => Some ([], l)
  | S n' => match l with
            | a :: r => match take_lp r with
                        | Some (t, r1) => match dec_a2t n' r1 with
                                          | Some (x, r2) => Some ((a, t) :: x, r2) | None => None end
                        | None => None end
            | [] => None end
  end.
Fixpoint dec_t2a (n : nat) (l : list N) : option (list (list N * list N) * list N) :=
  match n with
  | O => Some ([], l)
  | S n' => match take_lp l with
            | Some (t, r) => match take_lp r with
                             | Some (al, r1) => match dec_t2a n' r1 with
                                                | Some (x, r2) => Some ((t, al) :: x, r2) | None => None end
                             | None => None end
            | None => None end
  end.

Definition status_of (n : N) : status := if n =? 0 then Disconnected else if n =? 1 then Connecting else Connected.
Definition rstate_of (n : N) : rstate := if n =? 0 then SHdr else if n =? 1 then SLen else SPayload.

(* option-monad plumbing *)
Definition obind {A B} (o : option A) (f : A -> option B) : option B := match o with Some a => f a | None => None end.
Notation "'do' x <- e ; k" := (obind e (fun x => k)) (at level 200, x pattern, e at level 100, k at level 200).

Definition dec_num (l : list N) : option (N * list N) := match l with x :: r => Some (x, r) | [] => None end.

Definition dec_conn (g : cfg) (l : list N) : option (conn * list N) :=
  do (ver, l) <- dec_num l;
  do (free, l) <- dec_pairs l;
  do (suback, l) <- take_lp l;
  do (unsuback, l) <- take_lp l;
  do (puback, l) <- take_lp l;
  do (pubrec, l) <- take_lp l;
  do (pubcomp, l) <- take_lp l;
  do (need_store, l) <- dec_num l;
  do (nstore, l) <- dec_num l;
  do (store, l) <- dec_pkts (N.to_nat nstore) l;
  do (f1, l) <- dec_num l; do (f2, l) <- dec_num l; do (f3, l) <- dec_num l; do (f4, l) <- dec_num l; do (f5, l) <- dec_num l;
  do (tar_p, l) <- dec_num l;
  do (tarv, l) <- (if n2b tar_p then
                     do (mx, l) <- dec_num l; do (n, l) <- dec_num l; do (m, l) <- dec_a2t (N.to_nat n) l;
                     Some (Some (mkTar mx m), l)
                   else Some (None, l));
  do (tas_p, l) <- dec_num l;
  do (tasv, l) <- (if n2b tas_p then
                     do (mx, l) <- dec_num l; do (n, l) <- dec_num l; do (a2t, l) <- dec_a2t (N.to_nat n) l;
                     do (n2, l) <- dec_num l; do (t2a, l) <- dec_t2a (N.to_nat n2) l;
                     do (fr, l) <- dec_pairs l;
                     Some (Some (mkTas mx a2t t2a (mkAlloc 1 mx 65535 fr)), l)
                   else Some (None, l));
  do (send_max, l) <- dec_opt l;
  do (recv_max, l) <- dec_opt l;
  do (send_count, l) <- dec_num l;
  do (publish_recv, l) <- take_lp l;
  do (mps_send, l) <- dec_num l; do (mps_recv, l) <- dec_num l; do (st, l) <- dec_num l;
  do (user_ping, l) <- dec_opt l; do (ka, l) <- dec_num l; do (ska, l) <- dec_opt l;
  do (prt, l) <- dec_num l; do (prr, l) <- dec_num l;
  do (qos2, l) <- take_lp l;
  do (t1, l) <- dec_num l; do (t2, l) <- dec_num l; do (t3, l) <- dec_num l;
  do (pst, l) <- dec_num l; do (hdr, l) <- take_lp l; do (rem, l) <- dec_num l; do (buf, l) <- take_lp l;
  do (is_client, l) <- dec_num l;
  do (_vac, l) <- dec_opt l;
  let mult := 128 ^ (N.of_nat (length hdr) - 1) in
  Some (mkConn (ver_of ver) (mkAlloc 1 (g_idmax g) (g_idmax g) free) suback unsuback puback pubrec pubcomp
               (n2b need_store) store (n2b f1) (n2b f2) (n2b f3) (n2b f4) (n2b f5) tarv tasv
               send_max recv_max send_count publish_recv mps_send mps_recv (status_of st)
               user_ping ka ska prt prr qos2 (n2b t1) (n2b t2) (n2b t3)
               (mkPb (rstate_of pst) hdr rem (if pst =? 0 then 1 else mult) buf) (n2b is_client), l).
