(* C18 correspondence on property lists of any length: the builder's and the parser's verdicts on a
   list of property identifiers at a location vs the specification rule. *)
From MQ Require Import Base.Prelude Packet.Prim Packet.Props Corr.Tok.

(* case: loc n id.. builder parser *)
Definition dec_c18 (cs : list N) : option (N * list N * bool * bool) :=
  match cs with
  | loc :: n :: rest =>
    let k := N.to_nat n in
    match skipn k rest with
    | [b; p] => Some (loc, firstn k rest, n2b b, n2b p)
    | _ => None
    end
  | _ => None
  end.

(* model: [] = agrees *)
Definition chk_c18 (cs : list N) : list N :=
  match dec_c18 cs with
  | Some (loc, ids, b, p) =>
    (* placement and multiplicity are C18's subject; the one cross-property dependency the library
       enforces (AUTH: Authentication Data needs an Authentication Method) is modelled as it is *)
    (* loc >= 100: the same location on a second base packet; 115 = AUTH with a non-Success reason
       code, where the Authentication Method is mandatory *)
    let bl := loc mod 100 in
    let e := placement_ok bl ids && (if bl =? L_AUTH then auth_dep_ok ids else true)
             && (if loc =? 115 then memn 21 ids else true) in
    if negb (Bool.eqb b e) then [0; V_ANSWER; b2n e]
    else if negb (Bool.eqb p e) then [0; V_STATE; b2n e]
    else []
  | None => [0; V_BADCASE]
  end.

(* monitor: the property itself on this input — builder and parser agree with each other AND with
   the specification rule (the rule is the independent reference, not a model of the code, so a
   difference is a concrete failing input) *)
Definition mon_c18 (cs : list N) : list N :=
  match dec_c18 cs with
  | Some (loc, ids, b, p) =>
    if negb (Bool.eqb b p) then [0; V_MONITOR; 1]
    else match chk_c18 cs with [] => [] | _ => [0; V_MONITOR; 2] end
  | None => [0; V_BADCASE]
  end.
