(* Correspondence checker for Layer D: replays the recorded API calls on the model and compares,
   call by call, panics, events, return values and the complete state digest.
   Case: contract role idmax idw version { op  panicked [nevents events nret ret digest] }* *)
From MQ Require Import Base.Prelude Alloc.Alloc Framing.Framing Conn.Types Conn.TopicAlias Conn.ConnRecord
                       Conn.Step Corr.Tok Corr.ConnCodec.

Definition role_of (n : N) : role := if n =? 0 then RClient else if n =? 1 then RServer else RAny.

Definition V_EVENTS_AT : N := 905.
Definition V_RET_AT : N := 907.
Definition V_STATE_AT : N := 904.

Fixpoint conn_ops (fuel : nat) (idx : N) (g : cfg) (c : conn) (l : list N) : list N :=
  match fuel with
  | O => [idx; V_BADCASE]
  | S fuel' =>
    match l with
    | [] => []
    | _ =>
      match dec_op l with
      | None => [idx; V_BADCASE; 1]
      | Some (o, panicked :: l1) =>
        match step g c o with
        | Panic w => if n2b panicked then [] else [idx; V_PANIC_MODEL_ONLY; w]
        | Ok (c', evs, ret) =>
          if n2b panicked then [idx; V_PANIC_IMPL_ONLY]
          else
            match strip_prefix 0 (enc_events evs) l1 with
            | inr (pos, e, g') => [idx; V_EVENTS_AT; pos; e; g']
            | inl l2 =>
              match strip_prefix 0 (N.of_nat (length ret) :: ret) l2 with
              | inr (pos, e, g') => [idx; V_RET_AT; pos; e; g']
              | inl l3 =>
                match strip_prefix 0 (enc_conn c') l3 with
                | inr (pos, e, g') => [idx; V_STATE_AT; pos; e; g']
                | inl l4 => conn_ops fuel' (idx + 1) g c' l4
                end
              end
            end
        end
      | Some (_, []) => [idx; V_BADCASE; 2]
      end
    end
  end.

Definition check_conn (cs : list N) : list N :=
  match cs with
  | _contract :: role_n :: idmax :: idw :: ver :: rest =>
    let g := mkCfg (role_of role_n) idmax idw in
    conn_ops (length rest) 0 g (conn_new g (ver_of ver)) rest
  | _ => [0; V_BADCASE]
  end.
