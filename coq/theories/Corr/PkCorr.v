(* Codec correspondence (C02, C03): decoding of the harness's abstract-packet tokens and the
   comparison of the library's bytes / verdicts with the reference codec of Packet/Packets.v. *)
From MQ Require Import Base.Prelude Packet.Prim Packet.Props Packet.Packets Packet.Decode Corr.Tok.

Definition tk_lp (l : list N) : option (bytes * list N) :=
  match l with
  | n :: t => let k := N.to_nat n in if N.of_nat (length t) <? n then None else Some (firstn k t, skipn k t)
  | [] => None
  end.

Definition tk_prop (l : list N) : option (prop * list N) :=
  match l with
  | id :: sh :: t =>
    if sh <? 4 then
      match t with
      | v :: t' => Some (mkProp id (if sh =? 0 then VByte v else if sh =? 1 then VU16 v else if sh =? 2 then VU32 v else VVbi v), t')
      | [] => None end
    else if sh =? 4 then do '(s, t') <- tk_lp t; Some (mkProp id (VStr s), t')
    else if sh =? 5 then do '(s, t') <- tk_lp t; Some (mkProp id (VBin s), t')
    else do '(k, t1) <- tk_lp t; do '(w, t2) <- tk_lp t1; Some (mkProp id (VPair k w), t2)
  | _ => None
  end.

Fixpoint tk_n {A} (f : list N -> option (A * list N)) (n : nat) (l : list N) : option (list A * list N) :=
  match n with
  | O => Some ([], l)
  | S k => do '(x, t) <- f l; do '(xs, t') <- tk_n f k t; Some (x :: xs, t')
  end.

Definition tk_props (l : list N) : option (list prop * list N) :=
  match l with n :: t => tk_n tk_prop (N.to_nat n) t | [] => None end.

Definition tk_opt_bytes (l : list N) : option (option bytes * list N) :=
  match l with
  | 0 :: t => Some (None, t)
  | _ :: t => do '(b, t') <- tk_lp t; Some (Some b, t')
  | [] => None
  end.

Definition tk_tail (l : list N) : option (tail * list N) :=
  do '(rc, t) <- (match l with 0 :: t => Some (None, t) | _ :: r :: t => Some (Some r, t) | _ => None end);
  do '(ps, t') <- (match t with 0 :: t' => Some (None, t') | _ :: t' => do '(ps, t'') <- tk_props t'; Some (Some ps, t'') | [] => None end);
  Some (mkTail rc ps, t').

Definition tk_entry (l : list N) : option ((bytes * N) * list N) :=
  do '(f, t) <- tk_lp l; match t with o :: t' => Some ((f, o), t') | [] => None end.
Definition tk_num (l : list N) : option (N * list N) := match l with x :: t => Some (x, t) | [] => None end.

Definition tk_body (ty : N) (l : list N) : option (body * list N) :=
  if ty =? 1 then
    match l with
    | clean :: ka :: t =>
      do '(ps, t) <- tk_props t; do '(cid, t) <- tk_lp t;
      do '(w, t) <- (match t with
                     | 0 :: t' => Some (None, t')
                     | _ :: q :: r :: t' => do '(wps, t1) <- tk_props t'; do '(wt, t2) <- tk_lp t1; do '(wp, t3) <- tk_lp t2;
                                            Some (Some (mkWill q (n2b r) wps wt wp), t3)
                     | _ => None end);
      do '(user, t) <- tk_opt_bytes t; do '(pass, t) <- tk_opt_bytes t;
      Some (BConnect (n2b clean) ka ps cid w user pass, t)
    | _ => None end
  else if ty =? 2 then
    match l with sp :: rc :: t => do '(ps, t') <- tk_props t; Some (BConnack (n2b sp) rc ps, t') | _ => None end
  else if ty =? 3 then
    match l with
    | dup :: qos :: retain :: t =>
      do '(topic, t) <- tk_lp t;
      do '(pid, t) <- (match t with 0 :: t' => Some (None, t') | _ :: i :: t' => Some (Some i, t') | _ => None end);
      do '(ps, t) <- tk_props t; do '(pl, t) <- tk_lp t;
      Some (BPublish (n2b dup) qos (n2b retain) topic pid ps pl, t)
    | _ => None end
  else if (4 <=? ty) && (ty <=? 7) then
    match l with pid :: t => do '(tl, t') <- tk_tail t; Some (BAck ty pid tl, t') | [] => None end
  else if ty =? 8 then
    match l with pid :: t => do '(ps, t) <- tk_props t;
                             match t with n :: t' => do '(es, t'') <- tk_n tk_entry (N.to_nat n) t'; Some (BSubscribe pid ps es, t'') | [] => None end
               | [] => None end
  else if ty =? 9 then
    match l with pid :: t => do '(ps, t) <- tk_props t;
                             match t with n :: t' => do '(cs, t'') <- tk_n tk_num (N.to_nat n) t'; Some (BSuback pid ps cs, t'') | [] => None end
               | [] => None end
  else if ty =? 10 then
    match l with pid :: t => do '(ps, t) <- tk_props t;
                             match t with n :: t' => do '(fs, t'') <- tk_n tk_lp (N.to_nat n) t'; Some (BUnsubscribe pid ps fs, t'') | [] => None end
               | [] => None end
  else if ty =? 11 then
    match l with pid :: t => do '(ps, t) <- tk_props t;
                             match t with n :: t' => do '(cs, t'') <- tk_n tk_num (N.to_nat n) t'; Some (BUnsuback pid ps cs, t'') | [] => None end
               | [] => None end
  else if ty =? 12 then Some (BPingreq, l)
  else if ty =? 13 then Some (BPingresp, l)
  else if ty =? 14 then do '(tl, t) <- tk_tail l; Some (BDisconnect tl, t)
  else if ty =? 15 then do '(tl, t) <- tk_tail l; Some (BAuth tl, t)
  else None.

Record pk_case := mkPkCase { pc_ver : ver; pc_idw : N; pc_body : body; pc_rest : list N }.
Definition tk_case (cs : list N) : option pk_case :=
  match cs with
  | v :: idw :: ty :: t => do '(b, r) <- tk_body ty t; Some (mkPkCase (if v =? 5 then PV50 else PV311) idw b r)
  | _ => None
  end.

(* shared subscriptions (MQTT 4.8.2): a v5.0 SUBSCRIBE / UNSUBSCRIBE filter that starts with "$share/" has a
   non-empty ShareName without '+' and '#', followed by '/' and a filter — enforced by builder and parser alike *)
Definition share_rest (f : bytes) : option bytes :=
  match f with 36 :: 115 :: 104 :: 97 :: 114 :: 101 :: 47 :: rest => Some rest | _ => None end.
Fixpoint share_name (l : bytes) : bytes := match l with [] => [] | x :: t => if x =? 47 then [] else x :: share_name t end.
Definition share_ok (f : bytes) : bool :=
  match share_rest f with
  | None => true
  | Some rest =>
    existsb (N.eqb 47) rest && negb (match share_name rest with [] => true | _ => false end)
    && negb (existsb (fun x => (x =? 43) || (x =? 35)) (share_name rest))
  end.
Definition share_rule (v : ver) (b : body) : bool :=
  match v, b with
  | PV50, BSubscribe _ _ es => forallb (fun e => share_ok (fst e)) es
  | PV50, BUnsubscribe _ _ fs => forallb share_ok fs
  | _, _ => true
  end.

(* the library's side of a built packet: bytes size bufcat_ok reparse_eq consumed_ok acc_eq *)
Definition V_REJECT_DIFF : N := 910.
Definition V_BYTES : N := 911.

(* correspondence with the reference codec: the builders accept exactly the well-formed packets and
   produce exactly the reference encoding *)
Definition chk_pk (cs : list N) : list N :=
  match tk_case cs with
  | None => [0; V_BADCASE]
  | Some c =>
    let ok := packet_ok (pc_ver c) (pc_idw c) (pc_body c) && share_rule (pc_ver c) (pc_body c) in
    match pc_rest c with
    | [0] => if ok then [0; V_REJECT_DIFF; 1] else []
    | 1 :: r =>
      if negb ok then [0; V_REJECT_DIFF; 0] else
      match tk_lp r with
      | Some (bs, _) => if nlist_eqb bs (encode (pc_ver c) (pc_idw c) (pc_body c)) then [] else [0; V_BYTES]
      | None => [0; V_BADCASE]
      end
    | [2] => [0; V_PANIC_IMPL_ONLY]
    | _ => [0; V_BADCASE]
    end
  end.

(* C02 on the implementation alone: size = serialised length = concatenated buffers; the bytes
   re-parse to an equal packet consuming exactly the body; nothing panics *)
Definition mon_c02 (cs : list N) : list N :=
  match tk_case cs with
  | None => [0; V_BADCASE]
  | Some c =>
    match pc_rest c with
    | [0] => []
    | [2] => [0; V_MONITOR; 1]
    | 1 :: r =>
      match tk_lp r with
      | Some (bs, [size; cat; re; cns; acc]) =>
        if negb (size =? N.of_nat (length bs)) then [0; V_MONITOR; 2; size]
        else if negb (n2b cat) then [0; V_MONITOR; 3]
        else if negb (n2b re) then [0; V_MONITOR; 4]
        else if negb (n2b cns) then [0; V_MONITOR; 5]
        else
          (* the Remaining Length field on the wire is the length of the body *)
          match bs with
          | _ :: t => match vbi_dec t with
                      | Some (rl, body) => if rl =? N.of_nat (length body) then [] else [0; V_MONITOR; 6; rl]
                      | None => [0; V_MONITOR; 7] end
          | [] => [0; V_MONITOR; 7]
          end
      | _ => [0; V_BADCASE]
      end
    | _ => [0; V_BADCASE]
    end
  end.

(* C03 on this input: the bytes are the specification's encoding of the field values, the
   reference decoder reads the library's bytes back to the same field values, and the library's
   accessors report them (the reference codec is the independent specification, so a difference is a
   concrete failing input) *)
Definition mon_c03 (cs : list N) : list N :=
  match tk_case cs with
  | None => [0; V_BADCASE]
  | Some c =>
    match pc_rest c with
    | [0] => if packet_ok (pc_ver c) (pc_idw c) (pc_body c) && share_rule (pc_ver c) (pc_body c) then [0; V_MONITOR; 6] else []   (* a packet the specification allows is refused *)
    | [2] => [0; V_MONITOR; 1]
    | 1 :: r =>
      match tk_lp r with
      | Some (bs, [size; cat; re; cns; acc]) =>
        if negb (nlist_eqb bs (encode (pc_ver c) (pc_idw c) (pc_body c))) then [0; V_MONITOR; 2]
        else if negb (n2b acc) then [0; V_MONITOR; 3]
        else if negb (n2b re) then [0; V_MONITOR; 4]
        else match decode (pc_ver c) (pc_idw c) bs with
             | Some _ => []
             | None => [0; V_MONITOR; 5]
             end
      | _ => [0; V_BADCASE]
      end
    | _ => [0; V_BADCASE]
    end
  end.

(* ---------- C04: arbitrary bytes into the parsers ---------- *)
(* case: ver idw fh n body.. then 2 | 0 err | 1 consumed size reparse_eq <abstract tokens> nreser reser.. *)
Definition V_LIB_REJECTS_VALID : N := 912.
Definition V_LIB_FIELDS : N := 913.

Record pm_case := mkPm { pm_ver : ver; pm_idw : N; pm_fh : N; pm_body : bytes; pm_rest : list N }.
Definition tk_pm (cs : list N) : option pm_case :=
  match cs with
  | v :: idw :: fh :: t => do '(b, r) <- tk_lp t; Some (mkPm (if v =? 5 then PV50 else PV311) idw fh b r)
  | _ => None
  end.

(* the library's extensions that are self-consistent and that its builders accept as well:
   a reason code on the v3.1.1 acknowledgements *)
Definition body_ok_lib (v : ver) (idw : N) (b : body) : bool :=
  share_rule v b &&
  match v, b with
  | PV311, BAck t pid tl =>
    (4 <=? t) && (t <=? 7) && pid_ok idw pid
    && match t_props tl with None => true | Some _ => false end
    && opt_ok (ack_rc_ok t) (t_rc tl)
  | PV311, BSubscribe pid ps es =>
    (* the v5.0 option bits are tolerated in v3.1.1 entries (parser and builder alike) *)
    pid_ok idw pid && match ps with [] => true | _ => false end && negb (match es with [] => true | _ => false end)
    && forallb (fun e => str_ok (fst e) && sub_opts_ok PV50 (snd e)) es
  | PV50, BAuth tl =>
    (* the parser also reads the reason-code-only form of a successful AUTH *)
    match t_rc tl, t_props tl with
    | Some 0, None => true
    | _, _ => body_ok v idw b
    end
  | _, _ => body_ok v idw b
  end.

Definition mon_c04 (cs : list N) : list N :=
  match tk_pm cs with
  | None => [0; V_BADCASE]
  | Some c =>
    match pm_rest c with
    | [2] => [0; V_MONITOR; 1]                                (* a parser panicked *)
    | 0 :: _ => []
    | 1 :: consumed :: size :: re :: t =>
      match tk_case t with
      | Some a =>
        match tk_lp (pc_rest a) with
        | Some (reser, _) =>
          if N.of_nat (length (pm_body c)) <? consumed then [0; V_MONITOR; 2; consumed]      (* claims more than it was given *)
          else if negb (size =? N.of_nat (length reser)) then [0; V_MONITOR; 3; size; N.of_nat (length reser)]
          else if negb (n2b re) then [0; V_MONITOR; 4]                                        (* re-parse differs *)
          else if negb (body_ok_lib (pc_ver a) (pc_idw a) (pc_body a)) then [0; V_MONITOR; 5] (* breaks a builder rule *)
          else []
        | None => [0; V_BADCASE]
        end
      | None => [0; V_BADCASE]
      end
    | _ => [0; V_BADCASE]
    end
  end.

(* correspondence with the reference decoder: whatever the (strict) reference accepts the library
   accepts with the same field values; what the library accepts re-serialises to the reference
   encoding of the field values its accessors report *)
Definition chk_c04 (cs : list N) : list N :=
  match tk_pm cs with
  | None => [0; V_BADCASE]
  | Some c =>
    let fh := pm_fh c in
    let spec := match decode_body (pm_ver c) (pm_idw c) (fh / 16) (fh mod 16) (pm_body c) with
                | Some b => if body_ok (pm_ver c) (pm_idw c) b && share_rule (pm_ver c) b then Some b else None
                | None => None end in
    match pm_rest c with
    | [2] => [0; V_PANIC_IMPL_ONLY]
    | 0 :: _ => match spec with Some _ => [0; V_LIB_REJECTS_VALID] | None => [] end
    | 1 :: consumed :: size :: re :: t =>
      match tk_case t with
      | Some a =>
        match tk_lp (pc_rest a) with
        | Some (reser, _) =>
          match spec with
               | Some b => if nlist_eqb (encode (pm_ver c) (pm_idw c) b) reser then [] else [0; V_LIB_FIELDS]
               | None => []
               end
        | None => [0; V_BADCASE]
        end
      | None => [0; V_BADCASE]
      end
    | _ => [0; V_BADCASE]
    end
  end.
