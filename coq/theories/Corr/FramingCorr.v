(* Correspondence checker and monitor for Layer F (PacketBuilder::feed).  Case format:
     nchunks { len byte*len  ncalls { tag fh nbody body* consumed }*ncalls }*nchunks
   tag 0 Complete / 1 Incomplete / 2 Error; fh = fixed-header byte of a Complete result;
   consumed = cursor advance of that call.  The harness calls feed until the chunk is used up. *)
From MQ Require Import Base.Prelude Framing.Framing Corr.Tok.

Definition res_matches (r : fres) (tag fh : N) (body : list N) : bool :=
  match r with
  | FComplete h b => (tag =? 0) && (hd 0 h =? fh) && nlist_eqb b body
  | FIncomplete => (tag =? 1)
  | FError _ => (tag =? 2)
  end.

(* the calls made on one chunk *)
Fixpoint fr_calls (fuel : nat) (ncalls : nat) (idx : N) (p : pb) (d : list N) (l : list N)
  : option (pb * list N * list N) + list N :=
  match ncalls with
  | O => if match d with [] => true | _ => false end then inl (Some (p, d, l)) else inr [idx; V_STATE; 1]
  | S nc =>
    match fuel with
    | O => inr [idx; V_BADCASE]
    | S fuel' =>
      match l with
      | tag :: fh :: l1 =>
        match take_lp l1 with
        | Some (body, consumed :: l2) =>
          let '(r, p', rest) := feed p d in
          if negb (res_matches r tag fh body) then inr [idx; V_ANSWER; tag]
          else if negb (N.of_nat (length d - length rest) =? consumed) then inr [idx; V_STATE; 2; N.of_nat (length d - length rest)]
          else fr_calls fuel' nc (idx + 1) p' rest l2
        | _ => inr [idx; V_BADCASE]
        end
      | _ => inr [idx; V_BADCASE]
      end
    end
  end.

Fixpoint fr_chunks (fuel : nat) (nchunks : nat) (idx : N) (p : pb) (l : list N) : list N :=
  match nchunks with
  | O => []
  | S nch =>
    match take_lp l with
    | Some (d, ncalls :: l1) =>
      match fr_calls fuel (N.to_nat ncalls) idx p d l1 with
      | inr v => v
      | inl (Some (p', _, l2)) => fr_chunks fuel nch (idx + 1000) p' l2
      | inl None => [idx; V_BADCASE]
      end
    | _ => [idx; V_BADCASE]
    end
  end.

Definition check_framing (c : list N) : list N :=
  match c with
  | nchunks :: rest => fr_chunks (length rest) (N.to_nat nchunks) 0 pb_init rest
  | [] => [0; V_BADCASE]
  end.

(* ---- monitor: what the implementation returned over any chunking = the declarative reading
   of the whole stream (C09), independent of the feed model ---- *)
Fixpoint obs_calls (ncalls : nat) (l : list N) : option (list (N * N * list N) * N * list N) :=
  match ncalls with
  | O => Some ([], 0, l)
  | S nc =>
    match l with
    | tag :: fh :: l1 =>
      match take_lp l1 with
      | Some (body, consumed :: l2) =>
        match obs_calls nc l2 with
        | Some (rs, tot, l3) =>
          Some ((if tag =? 1 then rs else (tag, fh, body) :: rs), consumed + tot, l3)
        | None => None
        end
      | _ => None
      end
    | _ => None
    end
  end.

Fixpoint obs_chunks (nchunks : nat) (l : list N) : option (list N * list (N * N * list N) * bool) :=
  match nchunks with
  | O => Some ([], [], true)
  | S nch =>
    match take_lp l with
    | Some (d, ncalls :: l1) =>
      match obs_calls (N.to_nat ncalls) l1 with
      | Some (rs, tot, l2) =>
        match obs_chunks nch l2 with
        | Some (ds, rss, ok) => Some (d ++ ds, rs ++ rss, ok && (tot =? N.of_nat (length d)))
        | None => None
        end
      | None => None
      end
    | _ => None
    end
  end.

Definition proj_res (r : fres) : N * N * list N :=
  match r with
  | FComplete h b => (0, hd 0 h, b)
  | FIncomplete => (1, 0, [])
  | FError _ => (2, 0, [])
  end.

Definition obs_eqb (a b : N * N * list N) : bool :=
  let '(t1, f1, b1) := a in let '(t2, f2, b2) := b in
  (t1 =? t2) && ((t1 =? 2) || ((f1 =? f2) && nlist_eqb b1 b2)).

Definition mon_framing (c : list N) : list N :=
  match c with
  | nchunks :: rest =>
    match obs_chunks (N.to_nat nchunks) rest with
    | Some (stream, observed, consumed_ok) =>
      let expected := map proj_res (fst (frames_spec stream)) in
      if negb consumed_ok then [0; V_MONITOR; 1]          (* bytes of a chunk not all consumed *)
      else if negb (list_eqb obs_eqb observed expected) then
        [0; V_MONITOR; 2; N.of_nat (length observed); N.of_nat (length expected)]
      else []
    | None => [0; V_BADCASE]
    end
  | [] => [0; V_BADCASE]
  end.
