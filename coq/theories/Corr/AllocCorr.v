(* Correspondence checker for Layer B.  Case format (all numbers):
     lo hi max nops  { tag arg panicked  nans ans*  nint (l h)* }*
   tag: 0 allocate 1 first_vacant 2 deallocate 3 use_value 4 is_used 5 clear 6 interval_count
   After every op the harness records the answer and (hook) the interval list. *)
From MQ Require Import Base.Prelude Alloc.Alloc Alloc.SetSpec Corr.Tok.

Definition aop_of (tag arg : N) : option aop :=
  match tag with
  | 0 => Some AAllocate | 1 => Some AFirstVacant | 2 => Some (ADeallocate arg)
  | 3 => Some (AUse arg) | 4 => Some (AIsUsed arg) | 5 => Some AClear | 6 => Some ACount
  | _ => None
  end.

Fixpoint alloc_ops (fuel : nat) (idx : N) (a : alloc) (l : list N) : list N :=
  match fuel with
  | O => [idx; V_BADCASE]
  | S fuel' =>
    match l with
    | [] => []
    | tag :: arg :: panicked :: l1 =>
      match aop_of tag arg, take_lp l1 with
      | Some o, Some (ans, l2) =>
        match l2 with
        | nint :: l3 =>
          match take (2 * N.to_nat nint) l3 with
          | Some (ivs, l4) =>
            match a_step a o with
            | Panic w => if n2b panicked then [] (* both abort: the object is gone *)
                         else [idx; V_PANIC_MODEL_ONLY; w]
            | Ok (ans', a') =>
              if n2b panicked then [idx; V_PANIC_IMPL_ONLY]
              else if negb (nlist_eqb ans ans') then idx :: V_ANSWER :: ans'
              else if negb (nlist_eqb ivs (unpairs (a_pool a'))) then idx :: V_STATE :: unpairs (a_pool a')
              else alloc_ops fuel' (idx + 1) a' l4
            end
          | None => [idx; V_BADCASE]
          end
        | [] => [idx; V_BADCASE]
        end
      | _, _ => [idx; V_BADCASE]
      end
    | _ => [idx; V_BADCASE]
    end
  end.

Definition check_alloc (c : list N) : list N :=
  match c with
  | lo :: hi :: mx :: rest =>
    match a_new lo hi mx with
    | Ok a => alloc_ops (length rest) 0 a rest
    | Panic _ => [0; V_BADCASE]
    end
  | _ => [0; V_BADCASE]
  end.

(* ---- monitor: the implementation's trace against the set specification itself (C20) ----
   Judged: every answer = the set machine's answer, the observed interval list = the canonical
   run-length representation of the set's complement, no panic on a contract-respecting op.
   An op outside the contract (deallocate of a value not in use) ends the judgement. *)
Fixpoint mon_alloc_ops (fuel : nat) (idx : N) (s : sset) (l : list N) : list N :=
  match fuel with
  | O => [idx; V_BADCASE]
  | S fuel' =>
    match l with
    | [] => []
    | tag :: arg :: panicked :: l1 =>
      match aop_of tag arg, take_lp l1 with
      | Some o, Some (ans, l2) =>
        match l2 with
        | nint :: l3 =>
          match take (2 * N.to_nat nint) l3 with
          | Some (ivs, l4) =>
            if negb (s_pre s o) then []
            else if n2b panicked then [idx; V_MONITOR; 1]
            else
              let '(ans', s') := s_step s o in
              if negb (nlist_eqb ans ans') then idx :: V_MONITOR :: 2 :: ans'
              else if negb (nlist_eqb ivs (unpairs (s_repr s'))) then idx :: V_MONITOR :: 3 :: unpairs (s_repr s')
              else mon_alloc_ops fuel' (idx + 1) s' l4
          | None => [idx; V_BADCASE]
          end
        | [] => [idx; V_BADCASE]
        end
      | _, _ => [idx; V_BADCASE]
      end
    | _ => [idx; V_BADCASE]
    end
  end.

Definition mon_alloc (c : list N) : list N :=
  match c with
  | lo :: hi :: mx :: rest =>
    if (lo <=? hi) && (hi <=? mx) then mon_alloc_ops (length rest) 0 (s_new lo hi) rest
    else [0; V_BADCASE]
  | _ => [0; V_BADCASE]
  end.
