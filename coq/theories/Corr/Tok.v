(* Token-stream helpers for the correspondence checkers.  A case is a flat list of numbers
   written by the Rust harness; the checkers below decode it, run the model and compare.
   The same Gallina functions are evaluated by vm_compute inside Coq and extracted to OCaml. *)
From MQ Require Import Base.Prelude.

Fixpoint take (n : nat) (l : list N) : option (list N * list N) :=
  match n with
  | O => Some ([], l)
  | S n' => match l with
            | [] => None
            | x :: t => match take n' t with
                        | Some (a, r) => Some (x :: a, r)
                        | None => None
                        end
            end
  end.

(* length-prefixed list of numbers *)
Definition take_lp (l : list N) : option (list N * list N) :=
  match l with
  | [] => None
  | n :: t => take (N.to_nat n) t
  end.

Fixpoint pairs (l : list N) : list (N * N) :=
  match l with
  | a :: b :: t => (a, b) :: pairs t
  | _ => []
  end.

Fixpoint unpairs (l : list (N * N)) : list N :=
  match l with
  | [] => []
  | (a, b) :: t => a :: b :: unpairs t
  end.

(* verdict codes shared by all checkers: [] = agree; otherwise [index; code; ...detail] *)
Definition V_BADCASE : N := 900.
Definition V_PANIC_IMPL_ONLY : N := 901.   (* implementation panicked, model did not *)
Definition V_PANIC_MODEL_ONLY : N := 902.  (* model says Panic, implementation returned *)
Definition V_ANSWER : N := 903.
Definition V_STATE : N := 904.
Definition V_EVENTS : N := 905.
Definition V_MONITOR : N := 906.
