(* The implementation's trace of a connection case, decoded: one observation per API call. *)
From MQ Require Import Base.Prelude Alloc.Alloc Framing.Framing Conn.Types Conn.TopicAlias Conn.ConnRecord
                       Conn.Step Corr.Tok Corr.ConnCodec Corr.ConnCorr.

Record obs := mkObs {
  ob_op : op;
  ob_pre : conn;            (* implementation state before the call (digest of the previous call) *)
  ob_pan : bool;            (* the call panicked *)
  ob_evs : list event;
  ob_ret : list N;
  ob_post : conn            (* implementation state after the call *)
}.

Record trace := mkTrace { tr_contract : bool; tr_cfg : cfg; tr_ver : version; tr_obs : list obs; tr_ok : bool }.

Fixpoint dec_obs (fuel : nat) (g : cfg) (pre : conn) (l : list N) : list obs * bool :=
  match fuel with
  | O => ([], false)
  | S fuel' =>
    match l with
    | [] => ([], true)
    | _ =>
      match dec_op l with
      | Some (o, panicked :: l1) =>
        if n2b panicked then ([mkObs o pre true [] [] pre], true)
        else
          match dec_events l1 with
          | Some (evs, l2) =>
            match take_lp l2 with
            | Some (ret, l3) =>
              match dec_conn g l3 with
              | Some (post, l4) =>
                let '(rest, ok) := dec_obs fuel' g post l4 in (mkObs o pre false evs ret post :: rest, ok)
              | None => ([], false) end
            | None => ([], false) end
          | None => ([], false) end
      | _ => ([], false)
      end
    end
  end.

Definition dec_trace (cs : list N) : trace :=
  match cs with
  | contract :: role_n :: idmax :: idw :: ver :: rest =>
    let g := mkCfg (role_of role_n) idmax idw in
    let '(os, ok) := dec_obs (S (length rest)) g (conn_new g (ver_of ver)) rest in
    mkTrace (n2b contract) g (ver_of ver) os ok
  | _ => mkTrace false (mkCfg RAny 65535 2) VUndet [] false
  end.

(* generic monitor runner: a per-call judgement with a ghost state threaded through the trace *)
Section Mon.
  Context {G : Type}.
  Variable judge : cfg -> G -> obs -> list N * G.    (* [] = fine; otherwise a clause code (+ detail) *)

  Fixpoint run_mon (g : cfg) (gh : G) (idx : N) (l : list obs) : list N :=
    match l with
    | [] => []
    | o :: t =>
      let '(v, gh') := judge g gh o in
      match v with
      | [] => run_mon g gh' (idx + 1) t
      | _ => idx :: V_MONITOR :: v
      end
    end.
End Mon.

(* events helpers *)
Definition is_send (e : event) : bool := match e with ESend _ _ => true | _ => false end.
Definition is_close (e : event) : bool := match e with EClose => true | _ => false end.
Definition is_error (e : event) : bool := match e with EError _ => true | _ => false end.
Definition is_notify (e : event) : bool := match e with ENotify _ => true | _ => false end.
Definition sends (l : list event) : list pkt :=
  flat_map (fun e => match e with ESend p _ => [p] | _ => [] end) l.
Definition notifies (l : list event) : list pkt :=
  flat_map (fun e => match e with ENotify p => [p] | _ => [] end) l.
Definition released (l : list event) : list N :=
  flat_map (fun e => match e with EReleased i => [i] | _ => [] end) l.
Definition errors (l : list event) : list N :=
  flat_map (fun e => match e with EError i => [i] | _ => [] end) l.
