(* Common imports and the outcome type shared by all model layers. *)
From Coq Require Export List NArith Bool Lia.
Export ListNotations.
Global Open Scope N_scope.

Arguments N.add : simpl never.
Arguments N.sub : simpl never.
Arguments N.mul : simpl never.
Arguments N.eqb : simpl never.
Arguments N.ltb : simpl never.
Arguments N.leb : simpl never.
Arguments N.div : simpl never.
Arguments N.modulo : simpl never.
Arguments N.pow : simpl never.

(* A Rust call either returns or panics (assert!, unwrap on None, debug overflow). *)
Inductive res (A : Type) : Type :=
| Ok (a : A)
| Panic (why : N).
Arguments Ok {A} a.
Arguments Panic {A} why.

Definition bindr {A B} (r : res A) (f : A -> res B) : res B :=
  match r with Ok a => f a | Panic w => Panic w end.

Definition is_ok {A} (r : res A) : bool := match r with Ok _ => true | Panic _ => false end.

(* panic sites (numbers only label the site) *)
Definition P_ASSERT : N := 1.
Definition P_OVERFLOW : N := 2.
Definition P_UNWRAP : N := 3.
Definition P_UNREACHABLE : N := 4.

Definition b2n (b : bool) : N := if b then 1 else 0.
Definition n2b (n : N) : bool := negb (n =? 0).

Fixpoint list_eqb {A} (eq : A -> A -> bool) (l1 l2 : list A) : bool :=
  match l1, l2 with
  | [], [] => true
  | x :: t1, y :: t2 => eq x y && list_eqb eq t1 t2
  | _, _ => false
  end.

Definition nlist_eqb := list_eqb N.eqb.

Lemma nlist_eqb_eq l1 l2 : nlist_eqb l1 l2 = true <-> l1 = l2.
Proof.
  unfold nlist_eqb. revert l2; induction l1 as [|x t IH]; intros [|y t2]; cbn [list_eqb]; split; intro H;
    try reflexivity; try discriminate.
  - apply andb_true_iff in H as [H1 H2]. apply N.eqb_eq in H1. apply IH in H2. now subst.
  - inversion H; subst. apply andb_true_iff; split; [apply N.eqb_refl | now apply IH].
Qed.
