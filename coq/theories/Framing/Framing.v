(* Layer F — model of src/mqtt/connection/packet_builder.rs (PacketBuilder::feed).
   Definitions only; proofs in FramingProofs.v.
   A byte is an N below 256.  raw_buf is the list of payload bytes read so far (raw_buf_offset
   is its length).  `remaining_length` counts down while the payload is read, as in the Rust. *)
From MQ Require Import Base.Prelude.

Inductive rstate := SHdr | SLen | SPayload.

Record pb := mkPb { pb_st : rstate; pb_hdr : list N; pb_rem : N; pb_mult : N; pb_buf : list N }.

Definition pb_init : pb := mkPb SHdr [] 0 1 [].

(* what one feed() call returns; the header bytes read for the frame are kept so that
   conservation of bytes can be stated (the Rust drops them after use) *)
Inductive fres :=
| FComplete (hdr : list N) (body : list N)   (* hdr = fixed-header byte :: length bytes *)
| FIncomplete
| FError (hdr : list N).                      (* MalformedPacket: 4th length byte has bit 7 *)

Definition M3 : N := 128 * 128 * 128.

(* ReadState::Payload: one bulk read of min(remaining, available) bytes *)
Definition feed_payload (p : pb) (d : list N) : fres * pb * list N :=
  let n := N.min (pb_rem p) (N.of_nat (length d)) in
  if n =? 0 then (FIncomplete, p, d)
  else
    let k := N.to_nat n in
    let buf' := pb_buf p ++ firstn k d in
    let rem' := pb_rem p - n in
    let rest := skipn k d in
    if rem' =? 0 then (FComplete (pb_hdr p) buf', pb_init, rest)
    else (FIncomplete, mkPb SPayload (pb_hdr p) rem' (pb_mult p) buf', rest).

Fixpoint feed (p : pb) (d : list N) : fres * pb * list N :=
  match d with
  | [] => (FIncomplete, p, [])
  | b :: t =>
    match pb_st p with
    | SHdr => feed (mkPb SLen (pb_hdr p ++ [b]) (pb_rem p) (pb_mult p) (pb_buf p)) t
    | SLen =>
      let hdr' := pb_hdr p ++ [b] in
      if (pb_mult p =? M3) && (128 <=? b) then (FError hdr', pb_init, t)
      else
        let rem' := pb_rem p + (b mod 128) * pb_mult p in
        let mult' := pb_mult p * 128 in
        if b <? 128 then
          if rem' =? 0 then (FComplete hdr' [], pb_init, t)
          else feed_payload (mkPb SPayload hdr' rem' mult' []) t
        else feed (mkPb SLen hdr' rem' mult' (pb_buf p)) t
    | SPayload => feed_payload p d
    end
  end.

(* the caller's loop: call feed until the buffer is exhausted, keep what is not Incomplete.
   Every call on a non-empty buffer consumes at least one byte, so |d| is enough fuel. *)
Fixpoint drain_fuel (fuel : nat) (p : pb) (d : list N) : list fres * pb :=
  match fuel with
  | O => ([], p)
  | S fuel' =>
    match d with
    | [] => ([], p)
    | _ =>
      let '(r, p', rest) := feed p d in
      let '(rs, p'') := drain_fuel fuel' p' rest in
      (match r with FIncomplete => rs | _ => r :: rs end, p'')
    end
  end.

Definition drain (p : pb) (d : list N) : list fres * pb := drain_fuel (length d) p d.

(* successive receive buffers *)
Fixpoint drain_chunks (p : pb) (chunks : list (list N)) : list fres * pb :=
  match chunks with
  | [] => ([], p)
  | c :: t => let '(r1, p1) := drain p c in let '(r2, p2) := drain_chunks p1 t in (r1 ++ r2, p2)
  end.

(* bytes held in the builder and bytes of a result *)
Definition pending (p : pb) : list N := pb_hdr p ++ pb_buf p.
Definition raw_of (r : fres) : list N :=
  match r with FComplete h b => h ++ b | FIncomplete => [] | FError h => h end.

(* ---- independent, declarative reading of a stream (the specification) ---- *)
(* Remaining Length: up to four bytes, 7 bits each, least significant first; a fourth byte with
   the continuation bit is malformed.  Returns the value and the number of bytes used. *)
Inductive rl := RLOk (n : N) (used : nat) | RLMalformed | RLShort.

Definition rl_decode (d : list N) : rl :=
  match d with
  | [] => RLShort
  | b1 :: d1 =>
    if b1 <? 128 then RLOk b1 1 else
    match d1 with
    | [] => RLShort
    | b2 :: d2 =>
      if b2 <? 128 then RLOk ((b1 - 128) + 128 * b2) 2 else
      match d2 with
      | [] => RLShort
      | b3 :: d3 =>
        if b3 <? 128 then RLOk ((b1 - 128) + 128 * (b2 - 128) + 16384 * b3) 3 else
        match d3 with
        | [] => RLShort
        | b4 :: _ =>
          if b4 <? 128 then RLOk ((b1 - 128) + 128 * (b2 - 128) + 16384 * (b3 - 128) + 2097152 * b4) 4
          else RLMalformed
        end
      end
    end
  end.

(* frames of a stream and the unconsumed tail (an incomplete last frame) *)
Fixpoint frames_fuel (fuel : nat) (d : list N) : list fres * list N :=
  match fuel with
  | O => ([], d)
  | S fuel' =>
    match d with
    | [] => ([], [])
    | fh :: l =>
      match rl_decode l with
      | RLShort => ([], d)
      | RLMalformed =>
          let '(fs, tl) := frames_fuel fuel' (skipn 4 l) in (FError (fh :: firstn 4 l) :: fs, tl)
      | RLOk n used =>
          let body := skipn used l in
          if n <=? N.of_nat (length body) then
            let '(fs, tl) := frames_fuel fuel' (skipn (N.to_nat n) body) in
            (FComplete (fh :: firstn used l) (firstn (N.to_nat n) body) :: fs, tl)
          else ([], d)
      end
    end
  end.

Definition frames_spec (d : list N) : list fres * list N := frames_fuel (length d) d.
