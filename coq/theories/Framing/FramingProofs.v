(* Layer F proofs: framing is independent of chunking, conserves bytes, makes progress (C09). *)
From MQ Require Import Base.Prelude Framing.Framing.

(* Well-formed builder state (what reset() and feed() maintain):
   - FixedHeader  : the builder is exactly the initial one;
   - RemainingLength : 1..4 header bytes read so far (k length bytes, k <= 3, each with bit 7 set),
     multiplier = 128^k, nothing buffered;
   - Payload : something remains to be read. *)
Definition pb_wf (p : pb) : Prop :=
  match pb_st p with
  | SHdr => p = pb_init
  | SLen => pb_buf p = [] /\ exists k : nat, (k <= 3)%nat /\ length (pb_hdr p) = S k /\
                                             pb_mult p = 128 ^ N.of_nat k /\ pb_rem p < pb_mult p
  | SPayload => 0 < pb_rem p
  end.

Lemma pb_init_wf : pb_wf pb_init. Proof. reflexivity. Qed.

Definition is_inc (r : fres) : bool := match r with FIncomplete => true | _ => false end.

(* the statement proved for feed_payload and feed alike *)
Definition feed_post (p : pb) (d : list N) (out : fres * pb * list N) : Prop :=
  let '(r, p', rest) := out in
  pb_wf p' /\
  (length rest <= length d)%nat /\
  (d <> [] -> (length rest < length d)%nat) /\
  pending p ++ d = (if is_inc r then pending p' else raw_of r) ++ rest /\
  (is_inc r = true -> rest = []) /\
  (is_inc r = false -> p' = pb_init).

Lemma feed_payload_post p d :
  pb_st p = SPayload -> 0 < pb_rem p -> feed_post p d (feed_payload p d).
Proof.
  intros Hst Hrem. unfold feed_payload, feed_post.
  set (n := N.min (pb_rem p) (N.of_nat (length d))).
  destruct (N.eqb_spec n 0) as [Hn|Hn].
  - assert (d = []).
    { destruct d; [reflexivity|]. exfalso. subst n. cbn [length] in Hn. lia. }
    subst d. cbn [is_inc]. split; [unfold pb_wf; now rewrite Hst|]. split; [cbn; lia|].
    split; [intros H; contradiction|]. split; [reflexivity|]. split; [reflexivity|discriminate].
  - assert (Hk : (N.to_nat n <= length d)%nat) by (subst n; lia).
    assert (Hkpos : (0 < N.to_nat n)%nat) by lia.
    destruct (N.eqb_spec (pb_rem p - n) 0) as [Hz|Hz]; cbn [is_inc raw_of].
    + split; [reflexivity|]. split; [rewrite skipn_length; lia|]. split; [intros _; rewrite skipn_length; lia|].
      split; [|split; [discriminate|reflexivity]].
      unfold pending. rewrite <- !app_assoc. f_equal. f_equal. symmetry. apply firstn_skipn.
    + assert (Hall : N.to_nat n = length d) by (subst n; lia).
      split; [unfold pb_wf; cbn; lia|]. split; [rewrite skipn_length; lia|]. split; [intros _; rewrite skipn_length; lia|].
      split; [|split; [intros _; rewrite Hall; apply skipn_all|discriminate]].
      unfold pending. cbn [pb_hdr pb_buf]. rewrite Hall, firstn_all, skipn_all.
      now rewrite !app_nil_r, app_assoc.
Qed.

Lemma pow128_pos k : 0 < 128 ^ k. Proof. apply N.neq_0_lt_0, N.pow_nonzero. discriminate. Qed.

Lemma feed_post_all d : forall p, pb_wf p -> feed_post p d (feed p d).
Proof.
  induction d as [|b t IH]; intros p Hwf.
  - cbn [feed]. unfold feed_post. cbn [is_inc].
    split; [exact Hwf|]. split; [cbn; lia|]. split; [intros H; contradiction|]. split; [reflexivity|]. split; [reflexivity|discriminate].
  - cbn [feed]. unfold pb_wf in Hwf. destruct (pb_st p) eqn:Hst.
    + (* FixedHeader *)
      subst p. cbn [pb_hdr pb_rem pb_mult pb_buf pb_init app].
      set (p1 := mkPb SLen [b] 0 1 []).
      assert (W1 : pb_wf p1).
      { unfold pb_wf, p1. cbn. split; [reflexivity|]. exists 0%nat. cbn. repeat split; lia. }
      specialize (IH p1 W1). unfold feed_post in *. destruct (feed p1 t) as [[r p'] rest].
      destruct IH as (I1 & I0 & I2 & I3 & I4 & I5).
      split; [exact I1|]. split; [cbn [length]; lia|]. split; [intros _; cbn [length]; lia|].
      split; [|split; assumption].
      rewrite <- I3. reflexivity.
    + (* RemainingLength *)
      destruct Hwf as (Hbuf & k & Hk & Hlen & Hmult & Hremlt).
      destruct ((pb_mult p =? M3) && (128 <=? b)) eqn:Elim.
      * (* fifth header byte would be needed: error, reset *)
        unfold feed_post. cbn [is_inc raw_of]. split; [reflexivity|]. split; [cbn [length]; lia|]. split; [intros _; cbn [length]; lia|].
        split; [|split; [discriminate|reflexivity]].
        unfold pending. rewrite Hbuf, app_nil_r. now rewrite <- app_assoc.
      * set (rem' := pb_rem p + b mod 128 * pb_mult p).
        set (mult' := pb_mult p * 128).
        destruct (b <? 128) eqn:Eb.
        -- destruct (N.eqb_spec rem' 0) as [Hz|Hz].
           ++ unfold feed_post. cbn [is_inc raw_of]. split; [reflexivity|]. split; [cbn [length]; lia|]. split; [intros _; cbn [length]; lia|].
              split; [|split; [discriminate|reflexivity]].
              unfold pending. rewrite Hbuf, !app_nil_r. now rewrite <- app_assoc.
           ++ set (p1 := mkPb SPayload (pb_hdr p ++ [b]) rem' mult' []).
              pose proof (feed_payload_post p1 t eq_refl ltac:(cbn; lia)) as HP.
              unfold feed_post in *. destruct (feed_payload p1 t) as [[r p'] rest].
              destruct HP as (I1 & I0 & I2 & I3 & I4 & I5).
              split; [exact I1|]. split; [cbn [length]; lia|]. split; [intros _; cbn [length]; lia|].
              split; [|split; assumption].
              rewrite <- I3. unfold pending, p1. cbn [pb_hdr pb_buf]. rewrite Hbuf, !app_nil_r.
              now rewrite <- app_assoc.
        -- (* continuation bit: another length byte follows *)
           apply N.ltb_ge in Eb.
           assert (HM3 : pb_mult p <> M3).
           { intro E. rewrite E, N.eqb_refl in Elim. cbn [andb] in Elim. apply N.leb_gt in Elim. lia. }
           assert (Hk2 : (k <= 2)%nat).
           { destruct k as [|[|[|[|k]]]]; try lia. exfalso. apply HM3. rewrite Hmult. reflexivity. }
           set (p1 := mkPb SLen (pb_hdr p ++ [b]) rem' mult' (pb_buf p)).
           assert (W1 : pb_wf p1).
           { unfold pb_wf, p1. cbn. split; [exact Hbuf|]. exists (S k). repeat split; try lia.
             - rewrite app_length, Hlen. cbn. lia.
             - unfold mult'. rewrite Hmult. rewrite Nat2N.inj_succ, N.pow_succ_r'. lia.
             - unfold rem', mult'. pose proof (N.mod_upper_bound b 128 ltac:(discriminate)).
               pose proof (pow128_pos (N.of_nat k)). rewrite <- Hmult in H0. nia. }
           specialize (IH p1 W1). unfold feed_post in *. destruct (feed p1 t) as [[r p'] rest].
           destruct IH as (I1 & I0 & I2 & I3 & I4 & I5).
           split; [exact I1|]. split; [cbn [length]; lia|]. split; [intros _; cbn [length]; lia|].
           split; [|split; assumption].
           rewrite <- I3. unfold pending, p1. cbn [pb_hdr pb_buf]. rewrite Hbuf, !app_nil_r.
           now rewrite <- app_assoc.
    + (* Payload *)
      exact (feed_payload_post p (b :: t) Hst Hwf).
Qed.

(* ---------- one call over a split buffer ---------- *)
Lemma feed_payload_state p d : pb_st p = SPayload -> feed p d = match d with [] => (FIncomplete, p, []) | _ => feed_payload p d end.
Proof. intro H. destruct d; cbn [feed]; [reflexivity|]. now rewrite H. Qed.

Lemma feed_payload_app p a b :
  pb_st p = SPayload -> 0 < pb_rem p ->
  feed_payload p (a ++ b) =
    let '(r, p', rest) := feed_payload p a in
    if is_inc r then feed p' b else (r, p', rest ++ b).
Proof.
  intros Hst Hrem. unfold feed_payload at 2.
  set (na := N.min (pb_rem p) (N.of_nat (length a))).
  destruct (N.eqb_spec na 0) as [Hna|Hna].
  - assert (a = []) by (destruct a; [reflexivity|]; exfalso; subst na; cbn [length] in Hna; lia).
    subst a. cbn [app is_inc]. rewrite (feed_payload_state p b Hst). destruct b; [|reflexivity].
    unfold feed_payload. cbn [length]. replace (N.min (pb_rem p) (N.of_nat 0)) with 0 by lia. reflexivity.
  - destruct (N.eqb_spec (pb_rem p - na) 0) as [Hz|Hz]; cbn [is_inc].
    + (* a alone completes the frame: the extra bytes are left unread *)
      assert (Hrem_le : pb_rem p <= N.of_nat (length a)) by (subst na; lia).
      unfold feed_payload. rewrite app_length.
      replace (N.min (pb_rem p) (N.of_nat (length a + length b))) with na by (subst na; lia).
      destruct (N.eqb_spec na 0); [contradiction|]. destruct (N.eqb_spec (pb_rem p - na) 0); [|contradiction].
      assert (Hk : (N.to_nat na <= length a)%nat) by (subst na; lia).
      rewrite firstn_app, skipn_app.
      replace (N.to_nat na - length a)%nat with 0%nat by lia. cbn [firstn skipn]. now rewrite app_nil_r.
    + (* a is used up and the frame is still incomplete: the call on (a ++ b) reads on into b *)
      assert (Hlt : N.of_nat (length a) < pb_rem p) by (subst na; lia).
      assert (Hna_eq : na = N.of_nat (length a)) by (subst na; lia).
      set (p' := mkPb SPayload (pb_hdr p) (pb_rem p - na) (pb_mult p) (pb_buf p ++ firstn (N.to_nat na) a)).
      replace (skipn (N.to_nat na) a) with (@nil N) by (rewrite Hna_eq, Nat2N.id, skipn_all; reflexivity).
      rewrite (feed_payload_state p' b eq_refl).
      destruct b as [|c b'].
      * rewrite app_nil_r. unfold feed_payload. fold na.
        destruct (N.eqb_spec na 0); [contradiction|]. destruct (N.eqb_spec (pb_rem p - na) 0); [contradiction|].
        subst p'. rewrite Hna_eq, Nat2N.id, skipn_all. reflexivity.
      * unfold feed_payload. rewrite app_length. cbn [pb_rem pb_buf pb_hdr pb_mult p'].
        set (nb := N.min (pb_rem p - na) (N.of_nat (length (c :: b')))).
        assert (Hsum : N.min (pb_rem p) (N.of_nat (length a + length (c :: b'))) = na + nb) by (subst nb; lia).
        rewrite Hsum.
        assert (Hnb : nb <> 0) by (subst nb; cbn [length]; lia).
        destruct (N.eqb_spec (na + nb) 0); [lia|]. destruct (N.eqb_spec nb 0); [contradiction|].
        replace (pb_rem p - (na + nb)) with (pb_rem p - na - nb) by lia.
        assert (Hf : firstn (N.to_nat (na + nb)) (a ++ c :: b') = firstn (N.to_nat na) a ++ firstn (N.to_nat nb) (c :: b')).
        { rewrite firstn_app. rewrite Hna_eq, !N2Nat.inj_add, !Nat2N.id.
          rewrite firstn_all2 by lia. rewrite firstn_all. f_equal. f_equal. lia. }
        assert (Hs : skipn (N.to_nat (na + nb)) (a ++ c :: b') = skipn (N.to_nat nb) (c :: b')).
        { rewrite skipn_app. rewrite Hna_eq, !N2Nat.inj_add, !Nat2N.id.
          rewrite skipn_all2 by lia. cbn [app]. f_equal. lia. }
        rewrite Hf, Hs, app_assoc. reflexivity.
Qed.

Lemma feed_app a : forall p b,
  pb_wf p ->
  feed p (a ++ b) =
    let '(r, p', rest) := feed p a in
    if is_inc r then feed p' b else (r, p', rest ++ b).
Proof.
  induction a as [|x t IH]; intros p b Hwf.
  - cbn [app feed is_inc]. reflexivity.
  - cbn [app feed]. unfold pb_wf in Hwf. destruct (pb_st p) eqn:Hst.
    + subst p. cbn [pb_hdr pb_rem pb_mult pb_buf pb_init app].
      apply IH. unfold pb_wf. cbn. split; [reflexivity|]. exists 0%nat. cbn. repeat split; lia.
    + destruct Hwf as (Hbuf & k & Hk & Hlen & Hmult & Hremlt).
      destruct ((pb_mult p =? M3) && (128 <=? x)) eqn:Elim; [reflexivity|].
      destruct (x <? 128) eqn:Eb.
      * destruct (N.eqb_spec (pb_rem p + x mod 128 * pb_mult p) 0) as [Hz|Hz]; [reflexivity|].
        apply feed_payload_app; [reflexivity|cbn [pb_rem]; apply N.neq_0_lt_0; exact Hz].
      * apply N.ltb_ge in Eb. apply IH.
        assert (HM3 : pb_mult p <> M3).
        { intro E. rewrite E, N.eqb_refl in Elim. cbn [andb] in Elim. apply N.leb_gt in Elim. lia. }
        assert (Hk2 : (k <= 2)%nat).
        { destruct k as [|[|[|[|k]]]]; try lia. exfalso. apply HM3. rewrite Hmult. reflexivity. }
        unfold pb_wf. cbn. split; [exact Hbuf|]. exists (S k). repeat split; try lia.
        -- rewrite app_length, Hlen. cbn. lia.
        -- rewrite Hmult. rewrite Nat2N.inj_succ, N.pow_succ_r'. lia.
        -- pose proof (N.mod_upper_bound x 128 ltac:(discriminate)).
           pose proof (pow128_pos (N.of_nat k)). rewrite <- Hmult in H0. nia.
    + change (x :: t ++ b) with ((x :: t) ++ b). apply feed_payload_app; assumption.
Qed.

(* ---------- the drain loop ---------- *)
Lemma drain_fuel_nil f p : drain_fuel f p [] = ([], p).
Proof. destruct f; reflexivity. Qed.

Lemma drain_fuel_S f p x t :
  drain_fuel (S f) p (x :: t) =
    let '(r, p', rest) := feed p (x :: t) in
    let '(rs, p'') := drain_fuel f p' rest in
    (match r with FIncomplete => rs | _ => r :: rs end, p'').
Proof. reflexivity. Qed.

Lemma feed_wf p d : pb_wf p -> pb_wf (snd (fst (feed p d))).
Proof. intro H. pose proof (feed_post_all d p H) as HP. unfold feed_post in HP. destruct (feed p d) as [[r p'] rest]. apply HP. Qed.

Lemma drain_fuel_indep f1 : forall f2 p d,
  pb_wf p -> (length d <= f1)%nat -> (length d <= f2)%nat -> drain_fuel f1 p d = drain_fuel f2 p d.
Proof.
  induction f1 as [|f1 IH]; intros f2 p d Hwf H1 H2.
  - destruct d; [|cbn in H1; lia]. now rewrite !drain_fuel_nil.
  - destruct d as [|x t]; [now rewrite !drain_fuel_nil|].
    destruct f2 as [|f2]; [cbn in H2; lia|]. cbn [drain_fuel].
    pose proof (feed_post_all (x :: t) p Hwf) as HP. unfold feed_post in HP.
    destruct (feed p (x :: t)) as [[r p'] rest]. destruct HP as (W & L0 & L & _).
    specialize (L ltac:(discriminate)). cbn [length] in *.
    rewrite (IH f2 p' rest W) by lia. reflexivity.
Qed.

Lemma drain_fuel_wf f : forall p d, pb_wf p -> pb_wf (snd (drain_fuel f p d)).
Proof.
  induction f as [|f IH]; intros p d Hwf; [exact Hwf|]. cbn [drain_fuel]. destruct d as [|x t]; [exact Hwf|].
  pose proof (feed_wf p (x :: t) Hwf) as W. destruct (feed p (x :: t)) as [[r p'] rest]. cbn [fst snd] in W.
  specialize (IH p' rest W). destruct (drain_fuel f p' rest) as [rs p'']. exact IH.
Qed.

Lemma drain_fuel_app f : forall a b p,
  pb_wf p -> (length a + length b <= f)%nat ->
  drain_fuel f p (a ++ b) =
    let '(r1, p1) := drain_fuel f p a in
    let '(r2, p2) := drain_fuel f p1 b in (r1 ++ r2, p2).
Proof.
  induction f as [|f IH]; intros a b p Hwf Hlen.
  - destruct a; [|cbn in Hlen; lia]. destruct b; [|cbn in Hlen; lia]. reflexivity.
  - destruct a as [|x t].
    + cbn [app]. rewrite drain_fuel_nil. destruct (drain_fuel (S f) p b). reflexivity.
    + change ((x :: t) ++ b) with (x :: (t ++ b)) at 1.
      rewrite (drain_fuel_S f p x (t ++ b)), (drain_fuel_S f p x t).
      change (x :: t ++ b) with ((x :: t) ++ b).
      rewrite (feed_app (x :: t) p b Hwf).
      pose proof (feed_post_all (x :: t) p Hwf) as HP. unfold feed_post in HP.
      destruct (feed p (x :: t)) as [[r p'] rest]. destruct HP as (W & L0 & L & _ & Hinc & Hdone).
      specialize (L ltac:(discriminate)). cbn [length] in *.
      destruct (is_inc r) eqn:Er.
      * (* the whole of a was absorbed without completing a frame *)
        rewrite (Hinc eq_refl). rewrite drain_fuel_nil.
        destruct r; try discriminate.
        destruct b as [|y b'].
        -- cbn [feed]. rewrite !drain_fuel_nil. reflexivity.
        -- rewrite (drain_fuel_S f p' y b').
           pose proof (feed_post_all (y :: b') p' W) as HP2. unfold feed_post in HP2.
           destruct (feed p' (y :: b')) as [[r2 p2] rest2]. destruct HP2 as (W2 & _).
           destruct (drain_fuel f p2 rest2) as [rs p3]. reflexivity.
      * rewrite (IH rest b p' W) by lia.
        destruct (drain_fuel f p' rest) as [rs1 p1] eqn:E1.
        assert (W1 : pb_wf p1) by (pose proof (drain_fuel_wf f p' rest W) as X; now rewrite E1 in X).
        rewrite (drain_fuel_indep (S f) f p1 b W1) by lia.
        destruct (drain_fuel f p1 b) as [rs2 p2].
        destruct r; try discriminate; reflexivity.
Qed.

Theorem drain_app a b p :
  pb_wf p ->
  drain p (a ++ b) =
    let '(r1, p1) := drain p a in let '(r2, p2) := drain p1 b in (r1 ++ r2, p2).
Proof.
  intro Hwf. unfold drain. rewrite app_length.
  rewrite (drain_fuel_app (length a + length b) a b p Hwf) by lia.
  rewrite (drain_fuel_indep (length a + length b) (length a) p a Hwf) by lia.
  destruct (drain_fuel (length a) p a) as [r1 p1] eqn:E1.
  assert (W1 : pb_wf p1) by (pose proof (drain_fuel_wf (length a) p a Hwf) as X; now rewrite E1 in X).
  rewrite (drain_fuel_indep (length a + length b) (length b) p1 b W1) by lia. reflexivity.
Qed.

Lemma drain_wf p d : pb_wf p -> pb_wf (snd (drain p d)).
Proof. apply drain_fuel_wf. Qed.

(* any partition of a stream into successive receive buffers: same results, same final state *)
Theorem chunking_independent chunks : forall p,
  pb_wf p -> drain_chunks p chunks = drain p (concat chunks).
Proof.
  induction chunks as [|c t IH]; intros p Hwf; cbn [drain_chunks concat].
  - reflexivity.
  - rewrite (drain_app c (concat t) p Hwf).
    destruct (drain p c) as [r1 p1] eqn:E1.
    assert (W1 : pb_wf p1) by (pose proof (drain_wf p c Hwf) as X; now rewrite E1 in X).
    rewrite (IH p1 W1). reflexivity.
Qed.

Corollary two_partitions_agree c1 c2 :
  concat c1 = concat c2 -> drain_chunks pb_init c1 = drain_chunks pb_init c2.
Proof. intro H. rewrite !chunking_independent by apply pb_init_wf. now rewrite H. Qed.

(* no byte lost, duplicated or reordered: what was held + what was fed
   = raw bytes of the results in order + what is now held *)
Lemma drain_fuel_conserve f : forall p d,
  pb_wf p -> (length d <= f)%nat ->
  pending p ++ d = concat (map raw_of (fst (drain_fuel f p d))) ++ pending (snd (drain_fuel f p d)).
Proof.
  induction f as [|f IH]; intros p d Hwf Hlen.
  - destruct d; [|cbn in Hlen; lia]. cbn. now rewrite app_nil_r.
  - destruct d as [|x t]; [cbn; now rewrite app_nil_r|]. cbn [drain_fuel].
    pose proof (feed_post_all (x :: t) p Hwf) as HP. unfold feed_post in HP.
    destruct (feed p (x :: t)) as [[r p'] rest]. destruct HP as (W & L0 & L & Hc & Hinc & Hdone).
    specialize (L ltac:(discriminate)). cbn [length] in *.
    specialize (IH p' rest W ltac:(lia)). destruct (drain_fuel f p' rest) as [rs p'']. cbn [fst snd] in *.
    rewrite Hc. destruct r; cbn [is_inc raw_of] in *.
    + rewrite (Hdone eq_refl) in IH. cbn [pending pb_init pb_hdr pb_buf app] in IH.
      cbn [map concat raw_of]. rewrite IH. now rewrite <- !app_assoc.
    + exact IH.
    + rewrite (Hdone eq_refl) in IH. cbn [pending pb_init pb_hdr pb_buf app] in IH.
      cbn [map concat raw_of]. rewrite IH. now rewrite <- !app_assoc.
Qed.

Theorem bytes_conserved d :
  d = concat (map raw_of (fst (drain pb_init d))) ++ pending (snd (drain pb_init d)).
Proof. exact (drain_fuel_conserve (length d) pb_init d pb_init_wf (le_n _)). Qed.

(* one call returns at most one frame and never reads past what it was given *)
Theorem feed_at_most_one_frame p d :
  pb_wf p -> (length (snd (feed p d)) <= length d)%nat /\ (d <> [] -> (length (snd (feed p d)) < length d)%nat).
Proof.
  intro Hwf. pose proof (feed_post_all d p Hwf) as HP. unfold feed_post in HP.
  destruct (feed p d) as [[r p'] rest]. cbn [snd]. destruct HP as (_ & L0 & L & _). auto.
Qed.

(* a Remaining Length of more than four bytes: error, and framing resumes at the next byte *)
Theorem five_byte_length_resumes fh b1 b2 b3 b4 rest :
  128 <= b1 -> 128 <= b2 -> 128 <= b3 -> 128 <= b4 ->
  feed pb_init (fh :: b1 :: b2 :: b3 :: b4 :: rest) = (FError [fh; b1; b2; b3; b4], pb_init, rest).
Proof.
  intros H1 H2 H3 H4. cbn [feed pb_init pb_st pb_hdr pb_rem pb_mult pb_buf app].
  assert (E : forall b, 128 <= b -> (b <? 128) = false) by (intros; apply N.ltb_ge; assumption).
  assert (L : forall b, 128 <= b -> (128 <=? b) = true) by (intros; apply N.leb_le; assumption).
  change (1 =? M3) with false. cbn [andb]. rewrite (E b1 H1).
  cbn [feed pb_st pb_hdr pb_rem pb_mult pb_buf app].
  change (1 * 128 =? M3) with false. cbn [andb]. rewrite (E b2 H2).
  cbn [feed pb_st pb_hdr pb_rem pb_mult pb_buf app].
  change (1 * 128 * 128 =? M3) with false. cbn [andb]. rewrite (E b3 H3).
  cbn [feed pb_st pb_hdr pb_rem pb_mult pb_buf app].
  change (1 * 128 * 128 * 128 =? M3) with true. rewrite (L b4 H4). cbn [andb]. reflexivity.
Qed.

(* ---------- the model against the declarative reading of the stream ---------- *)
From Coq Require Import ZArith ZifyBool ZifyNat ZifyN.
Ltac Zify.zify_post_hook ::= Z.div_mod_to_equations.

Definition wfb (d : list N) : Prop := Forall (fun b => b < 256) d.

Lemma mod128_hi b : 128 <= b -> b < 256 -> b mod 128 = b - 128.
Proof. intros. lia. Qed.
Lemma mod128_lo b : b < 128 -> b mod 128 = b.
Proof. intros. apply N.mod_small. assumption. Qed.

(* payload read from a fresh Payload state *)
Lemma feed_payload_fresh hdr n mult body :
  0 < n ->
  feed_payload (mkPb SPayload hdr n mult []) body =
    if n <=? N.of_nat (length body)
    then (FComplete hdr (firstn (N.to_nat n) body), pb_init, skipn (N.to_nat n) body)
    else match body with
         | [] => (FIncomplete, mkPb SPayload hdr n mult [], [])
         | _ => (FIncomplete, mkPb SPayload hdr (n - N.of_nat (length body)) mult body, [])
         end.
Proof.
  intro Hn. unfold feed_payload. cbn [pb_rem pb_buf pb_hdr pb_mult app].
  destruct (N.leb_spec n (N.of_nat (length body))) as [Hle|Hgt].
  - replace (N.min n (N.of_nat (length body))) with n by lia.
    destruct (N.eqb_spec n 0); [lia|]. replace (n - n) with 0 by lia. reflexivity.
  - replace (N.min n (N.of_nat (length body))) with (N.of_nat (length body)) by lia.
    destruct body as [|c body']; [reflexivity|].
    destruct (N.eqb_spec (N.of_nat (length (c :: body'))) 0); [cbn [length] in *; lia|].
    destruct (N.eqb_spec (n - N.of_nat (length (c :: body'))) 0); [lia|].
    rewrite Nat2N.id, firstn_all, skipn_all. reflexivity.
Qed.

Definition inc_all (out : fres * pb * list N) (d : list N) : Prop :=
  let '(r, p', rest) := out in r = FIncomplete /\ rest = [] /\ pending p' = d.

Lemma len_done hdr n mult l :
  let out := if n =? 0 then (FComplete hdr [], pb_init, l)
             else feed_payload (mkPb SPayload hdr n mult []) l in
  if n <=? N.of_nat (length l)
  then out = (FComplete hdr (firstn (N.to_nat n) l), pb_init, skipn (N.to_nat n) l)
  else inc_all out (hdr ++ l).
Proof.
  cbv zeta. destruct (N.eqb_spec n 0) as [->|Hz].
  - destruct (N.leb_spec 0 (N.of_nat (length l))); [reflexivity|lia].
  - rewrite (feed_payload_fresh hdr n mult l) by lia.
    destruct (N.leb_spec n (N.of_nat (length l))) as [Hle|Hgt]; [reflexivity|].
    destruct l; cbn; repeat split; reflexivity.
Qed.

Lemma feed_init_spec fh l :
  wfb l ->
  match rl_decode l with
  | RLShort => inc_all (feed pb_init (fh :: l)) (fh :: l)
  | RLMalformed => feed pb_init (fh :: l) = (FError (fh :: firstn 4 l), pb_init, skipn 4 l)
  | RLOk n used =>
      let body := skipn used l in
      if n <=? N.of_nat (length body)
      then feed pb_init (fh :: l) =
             (FComplete (fh :: firstn used l) (firstn (N.to_nat n) body), pb_init, skipn (N.to_nat n) body)
      else inc_all (feed pb_init (fh :: l)) (fh :: l)
  end.
Proof.
  intro Hw.
  cbn [feed pb_init pb_st pb_hdr pb_rem pb_mult pb_buf app].
  unfold rl_decode.
  (* first length byte *)
  destruct l as [|b1 l1]; [cbn; repeat split; reflexivity|].
  inversion Hw as [|? ? Hb1 Hw1]; subst.
  cbn [feed pb_st pb_hdr pb_rem pb_mult pb_buf app]. change (1 =? M3) with false. cbn [andb].
  destruct (b1 <? 128) eqn:E1.
  { apply N.ltb_lt in E1. rewrite (mod128_lo b1 E1). replace (0 + b1 * 1) with b1 by lia.
    cbn [skipn firstn]. exact (len_done [fh; b1] b1 (1 * 128) l1). }
  apply N.ltb_ge in E1. rewrite (mod128_hi b1 E1 Hb1).
  (* second *)
  destruct l1 as [|b2 l2]; [cbn; repeat split; reflexivity|].
  inversion Hw1 as [|? ? Hb2 Hw2]; subst.
  cbn [feed pb_st pb_hdr pb_rem pb_mult pb_buf app]. change (1 * 128 =? M3) with false. cbn [andb].
  destruct (b2 <? 128) eqn:E2.
  { apply N.ltb_lt in E2. rewrite (mod128_lo b2 E2).
    replace (0 + (b1 - 128) * 1 + b2 * (1 * 128)) with (b1 - 128 + 128 * b2) by lia.
    cbn [skipn firstn]. exact (len_done [fh; b1; b2] _ (1 * 128 * 128) l2). }
  apply N.ltb_ge in E2. rewrite (mod128_hi b2 E2 Hb2).
  (* third *)
  destruct l2 as [|b3 l3]; [cbn; repeat split; reflexivity|].
  inversion Hw2 as [|? ? Hb3 Hw3]; subst.
  cbn [feed pb_st pb_hdr pb_rem pb_mult pb_buf app]. change (1 * 128 * 128 =? M3) with false. cbn [andb].
  destruct (b3 <? 128) eqn:E3.
  { apply N.ltb_lt in E3. rewrite (mod128_lo b3 E3).
    replace (0 + (b1 - 128) * 1 + (b2 - 128) * (1 * 128) + b3 * (1 * 128 * 128))
      with (b1 - 128 + 128 * (b2 - 128) + 16384 * b3) by lia.
    cbn [skipn firstn]. exact (len_done [fh; b1; b2; b3] _ (1 * 128 * 128 * 128) l3). }
  apply N.ltb_ge in E3. rewrite (mod128_hi b3 E3 Hb3).
  (* fourth *)
  destruct l3 as [|b4 l4]; [cbn; repeat split; reflexivity|].
  inversion Hw3 as [|? ? Hb4 Hw4]; subst.
  cbn [feed pb_st pb_hdr pb_rem pb_mult pb_buf app]. change (1 * 128 * 128 * 128 =? M3) with true. cbn [andb].
  destruct (b4 <? 128) eqn:E4.
  { apply N.ltb_lt in E4. assert (L4 : (128 <=? b4) = false) by (apply N.leb_gt; assumption). rewrite L4.
    rewrite (mod128_lo b4 E4).
    replace (0 + (b1 - 128) * 1 + (b2 - 128) * (1 * 128) + (b3 - 128) * (1 * 128 * 128) + b4 * (1 * 128 * 128 * 128))
      with (b1 - 128 + 128 * (b2 - 128) + 16384 * (b3 - 128) + 2097152 * b4) by lia.
    cbn [skipn firstn]. exact (len_done [fh; b1; b2; b3; b4] _ (1 * 128 * 128 * 128 * 128) l4). }
  apply N.ltb_ge in E4. assert (L4 : (128 <=? b4) = true) by (apply N.leb_le; assumption). rewrite L4.
  reflexivity.
Qed.

Lemma wfb_skipn k d : wfb d -> wfb (skipn k d).
Proof.
  revert d; induction k as [|k IH]; intros d H; [exact H|]. destruct d; [exact H|].
  cbn [skipn]. apply IH. now inversion H.
Qed.

Lemma drain_fuel_spec f : forall d,
  (length d <= f)%nat -> wfb d ->
  fst (drain_fuel f pb_init d) = fst (frames_fuel f d) /\
  pending (snd (drain_fuel f pb_init d)) = snd (frames_fuel f d).
Proof.
  induction f as [|f IH]; intros d Hlen Hw.
  - destruct d; [|cbn in Hlen; lia]. cbn. auto.
  - destruct d as [|fh l]; [cbn; auto|].
    rewrite drain_fuel_S. cbn [frames_fuel]. inversion Hw as [|? ? _ Hwl]; subst.
    pose proof (feed_init_spec fh l Hwl) as HS.
    destruct (rl_decode l) as [n used| |].
    + cbv zeta in HS. destruct (n <=? N.of_nat (length (skipn used l))) eqn:Ele.
      * rewrite HS. apply N.leb_le in Ele.
        set (rest := skipn (N.to_nat n) (skipn used l)).
        assert (Hr : (length rest <= f)%nat).
        { subst rest. rewrite !skipn_length. cbn [length] in Hlen. lia. }
        assert (Hwr : wfb rest) by (subst rest; now apply wfb_skipn, wfb_skipn).
        destruct (IH rest Hr Hwr) as [I1 I2].
        destruct (drain_fuel f pb_init rest) as [rs p''].
        destruct (frames_fuel f rest) as [fs tl]. cbn [fst snd] in *. split; [now f_equal|exact I2].
      * unfold inc_all in HS. destruct (feed pb_init (fh :: l)) as [[r p'] rest].
        destruct HS as (-> & -> & Hp). rewrite drain_fuel_nil. cbn [fst snd]. auto.
    + rewrite HS.
      set (rest := skipn 4 l).
      assert (Hr : (length rest <= f)%nat).
      { subst rest. rewrite skipn_length. cbn [length] in Hlen. lia. }
      assert (Hwr : wfb rest) by (subst rest; now apply wfb_skipn).
      destruct (IH rest Hr Hwr) as [I1 I2].
      destruct (drain_fuel f pb_init rest) as [rs p''].
      destruct (frames_fuel f rest) as [fs tl]. cbn [fst snd] in *. split; [now f_equal|exact I2].
    + unfold inc_all in HS. destruct (feed pb_init (fh :: l)) as [[r p'] rest].
      destruct HS as (-> & -> & Hp). rewrite drain_fuel_nil. cbn [fst snd]. auto.
Qed.

(* the model reads a stream exactly as the declarative specification does *)
Theorem drain_is_spec d :
  wfb d ->
  fst (drain pb_init d) = fst (frames_spec d) /\ pending (snd (drain pb_init d)) = snd (frames_spec d).
Proof. intro H. exact (drain_fuel_spec (length d) d (le_n _) H). Qed.

(* hence: any chunking of a stream yields exactly the frames of the specification *)
Corollary chunks_yield_spec_frames chunks :
  wfb (concat chunks) ->
  fst (drain_chunks pb_init chunks) = fst (frames_spec (concat chunks)) /\
  pending (snd (drain_chunks pb_init chunks)) = snd (frames_spec (concat chunks)).
Proof.
  intro H. rewrite (chunking_independent chunks pb_init pb_init_wf). now apply drain_is_spec.
Qed.
