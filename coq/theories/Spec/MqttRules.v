(* What MQTT allows, written from the OASIS texts (v3.1.1 §3, v5.0 §3/§4.12) independently of
   core.rs: which role may send / receive which packet kind, in which version and state. *)
From MQ Require Import Base.Prelude Conn.Types.

Definition memn (x : N) (l : list N) : bool := existsb (N.eqb x) l.

(* packet kinds only the client / only the server originates *)
Definition CLIENT_ONLY : list N := [1; 8; 10; 12].      (* CONNECT SUBSCRIBE UNSUBSCRIBE PINGREQ *)
Definition SERVER_ONLY : list N := [2; 9; 11; 13].      (* CONNACK SUBACK UNSUBACK PINGRESP *)

Definition kind_exists (v : version) (t : N) : bool :=
  match v with
  | V311 => (1 <=? t) && (t <=? 14)
  | V50 => (1 <=? t) && (t <=? 15)
  | VUndet => false
  end.

(* may an endpoint in role r originate kind t ?  v3.1.1: only the client sends DISCONNECT *)
Definition role_may_originate (r : role) (v : version) (t : N) : bool :=
  kind_exists v t &&
  match r with
  | RClient => negb (memn t SERVER_ONLY)
  | RServer => negb (memn t CLIENT_ONLY) && negb (match v with V311 => t =? 14 | _ => false end)
  | RAny => true
  end.

Definition status_allows (s : status) (t : N) : bool :=
  if t =? 1 then status_eqb s Disconnected
  else if t =? 2 then status_eqb s Connecting
  else if t =? 15 then negb (status_eqb s Disconnected)
  else status_eqb s Connected.

(* the full send rule of C11 *)
Definition may_send (r : role) (conn_ver : version) (s : status) (p : pkt) : bool :=
  version_eqb conn_ver (k_ver p) && role_may_originate r (k_ver p) (k_type p) && status_allows s (k_type p).

(* the stated exception: a QoS>0 PUBLISH or a PUBREL may be accepted for a persistent / offline
   session without being passed to the transport *)
Definition storable_kind (p : pkt) : bool :=
  ((k_type p =? 3) && negb (k_qos p =? 0)) || (k_type p =? 6).

(* may the peer of an endpoint in role r send it kind t ?  (what the endpoint may receive) *)
Definition may_receive (r : role) (v : version) (t : N) : bool :=
  match r with
  | RClient => role_may_originate RServer v t
  | RServer => role_may_originate RClient v t
  | RAny => kind_exists v t
  end.
