(* Obligation over constants regenerated from the compiled crate on every run: every reason /
   return code enum accepts exactly the byte values of the specification (all 256 values, so extra
   codes are seen), and the fixed-header bytes are the specification's. *)
From MQ Require Import Base.Prelude Packet.Prim Packet.Packets Generated.ObservedCodes.
From MQ Require Export GenChecks.C03Defs.

Theorem observed_codes_are_spec :
  forallb code_row_ok observed_codes = true /\ map fst observed_codes = [1; 2; 4; 5; 6; 7; 8; 9; 11; 14; 15].
Proof. vm_compute. split; reflexivity. Qed.

Theorem observed_fixed_headers_are_spec : observed_fixed_headers = spec_fixed_headers.
Proof. vm_compute. reflexivity. Qed.
