(* Definitions for the obligation over a table regenerated from the compiled crate on every run
   (Generated/ObservedSendable.v): the compile-time-checked send (checked_send) accepts exactly
   the packet types that the MQTT rule table lets that role originate — the same table the
   run-time gate is proved against in Conn/SendGate.v. *)
From MQ Require Import Base.Prelude Conn.Types Spec.MqttRules Generated.ObservedSendable.

Definition role_of_n (n : N) : role := if n =? 0 then RClient else if n =? 1 then RServer else RAny.
Definition ver_of_n (n : N) : version := if n =? 4 then V311 else if n =? 5 then V50 else VUndet.

Definition sendable_cell_ok (c : N * N * N * bool) : bool :=
  let '(v, t, r, b) := c in Bool.eqb b (role_may_originate (role_of_n r) (ver_of_n v) t).

(* the full domain: 14 v3.1.1 kinds + 15 v5.0 kinds, three roles each, in the order the table lists them *)
Definition kinds_of (v : N) : list N :=
  if v =? 4 then [1; 2; 3; 4; 5; 6; 7; 8; 9; 10; 11; 12; 13; 14] else [1; 2; 3; 4; 5; 6; 7; 8; 9; 10; 11; 12; 13; 14; 15].
Definition sendable_domain : list (N * N * N) :=
  flat_map (fun v => flat_map (fun t => map (fun r => (v, t, r)) [0; 1; 2]) (kinds_of v)) [4; 5].

Definition cell_key (c : N * N * N * bool) : N * N * N := let '(v, t, r, _) := c in (v, t, r).
Definition key_eqb (a b : N * N * N) : bool :=
  let '(a1, a2, a3) := a in let '(b1, b2, b3) := b in (a1 =? b1) && (a2 =? b2) && (a3 =? b3).

Definition sendable_mismatches : list (N * N * N * bool) :=
  filter (fun c => negb (sendable_cell_ok c)) observed_sendable.

