(* Definitions for the obligation over the property tables regenerated from the compiled crate on
   every run (Generated/ObservedProps.v). *)
From MQ Require Import Base.Prelude Packet.Prim Packet.Props Generated.ObservedProps.

(* the identifier list a cell stands for (Authentication Data comes with one Authentication Method) *)
(* locations >= 100 are the same location (loc mod 100) on a second base packet (other flags, a failure
   reason code, several entries); 115 is AUTH with "Continue authentication", where the Authentication
   Method is mandatory, so its cells carry one *)
Definition base_loc (loc : N) : N := loc mod 100.
Definition cell_ids (loc id count : N) : list N :=
  (if (id =? 22) || ((loc =? 115) && negb (id =? 21)) then [21] else []) ++ repeat id (N.to_nat (N.min count 2)).
(* count 3 = twice, the two occurrences carrying DIFFERENT values *)

(* what the specification says about the cell *)
Definition cell_expected (loc id count : N) : bool :=
  placement_ok (base_loc loc) (cell_ids loc id count) && auth_dep_ok (cell_ids loc id count)
  && (if loc =? 115 then memn 21 (cell_ids loc id count) else true).

Definition ALL_CELL_LOCS : list N := ALL_LOCS ++ map (fun l => l + 100) ALL_LOCS.

Definition prop_cell_ok (c : N * N * N * bool * bool) : bool :=
  let '(loc, id, count, b, p) := c in Bool.eqb b (cell_expected loc id count) && Bool.eqb p (cell_expected loc id count).

Definition props_domain : list (N * N * N) :=
  flat_map (fun loc => flat_map (fun id => [(loc, id, 1); (loc, id, 2); (loc, id, 3)]) ALL_PROP_IDS) ALL_CELL_LOCS.
Definition prop_cell_key (c : N * N * N * bool * bool) : N * N * N := let '(l, i, n, _, _) := c in (l, i, n).
Definition key3_eqb (a b : N * N * N) : bool :=
  let '(a1, a2, a3) := a in let '(b1, b2, b3) := b in (a1 =? b1) && (a2 =? b2) && (a3 =? b3).

Definition prop_mismatches : list (N * N * N * bool * bool) := filter (fun c => negb (prop_cell_ok c)) observed_props.

(* value boundaries: constructor and parser accept exactly the values the specification allows *)
Definition val_of_shape (sh v : N) : pval :=
  if sh =? 0 then VByte v else if sh =? 1 then VU16 v else if sh =? 2 then VU32 v else VVbi v.
Definition value_row_ok (r : N * N * bool * bool) : bool :=
  let '(id, v, a, p) := r in
  match shape_of_id id with
  | Some sh => let e := value_ok id (val_of_shape sh v) in Bool.eqb a e && Bool.eqb p e
  | None => false
  end.
Definition value_mismatches : list (N * N * bool * bool) := filter (fun r => negb (value_row_ok r)) observed_values.
