(* Definitions for the obligation over the property tables regenerated from the compiled crate on
   every run (Generated/ObservedProps.v). *)
From MQ Require Import Base.Prelude Packet.Prim Packet.Props Generated.ObservedProps.

(* the identifier list a cell stands for (Authentication Data comes with one Authentication Method) *)
Definition cell_ids (id count : N) : list N :=
  (if id =? 22 then [21] else []) ++ repeat id (N.to_nat count).

(* what the specification says about the cell *)
Definition cell_expected (loc id count : N) : bool :=
  placement_ok loc (cell_ids id count) && auth_dep_ok (cell_ids id count).

Definition prop_cell_ok (c : N * N * N * bool * bool) : bool :=
  let '(loc, id, count, b, p) := c in Bool.eqb b (cell_expected loc id count) && Bool.eqb p (cell_expected loc id count).

Definition props_domain : list (N * N * N) :=
  flat_map (fun loc => flat_map (fun id => [(loc, id, 1); (loc, id, 2)]) ALL_PROP_IDS) ALL_LOCS.
Definition prop_cell_key (c : N * N * N * bool * bool) : N * N * N := let '(l, i, n, _, _) := c in (l, i, n).
Definition key3_eqb (a b : N * N * N) : bool :=
  let '(a1, a2, a3) := a in let '(b1, b2, b3) := b in (a1 =? b1) && (a2 =? b2) && (a3 =? b3).

Definition prop_mismatches : list (N * N * N * bool * bool) := filter (fun c => negb (prop_cell_ok c)) observed_props.

(* value boundaries: constructor and parser accept exactly the values the specification allows *)
Definition val_of_shape (sh v : N) : pval :=
  if sh =? 0 then VByte v else if sh =? 1 then VU16 v else if sh =? 2 then VU32 v else VVbi v.
Definition value_row_ok (r : N * N * bool * bool) : bool :=
  let '(id, v, a, p) := r in
  match shape_of_id id with
  | Some sh => let e := value_ok id (val_of_shape sh v) in Bool.eqb a e && Bool.eqb p e
  | None => false
  end.
Definition value_mismatches : list (N * N * bool * bool) := filter (fun r => negb (value_row_ok r)) observed_values.
