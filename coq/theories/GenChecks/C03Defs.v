(* Definitions for the obligation over the wire-format constants regenerated from the compiled crate
   on every run (Generated/ObservedCodes.v). *)
From MQ Require Import Base.Prelude Packet.Prim Packet.Props Packet.Packets Generated.ObservedCodes.

(* the specification's code sets, as predicates over a byte *)
Definition spec_code_ok (enum b : N) : bool :=
  if enum =? 1 then connack_rc_ok PV311 b
  else if enum =? 2 then connack_rc_ok PV50 b
  else if (4 <=? enum) && (enum <=? 7) then ack_rc_ok enum b
  else if enum =? 8 then suback_code_ok PV311 b
  else if enum =? 9 then suback_code_ok PV50 b
  else if enum =? 11 then unsuback_code_ok b
  else if enum =? 14 then disconnect_rc_ok b
  else if enum =? 15 then auth_rc_ok b
  else false.

Definition all_bytes_list : list N := map N.of_nat (seq 0 256).
Definition code_row_ok (r : N * list N) : bool :=
  let '(enum, acc) := r in nlist_eqb acc (filter (spec_code_ok enum) all_bytes_list).
Definition code_mismatches : list (N * list N) :=
  map (fun r => (fst r, filter (fun b => negb (Bool.eqb (existsb (N.eqb b) (snd r)) (spec_code_ok (fst r) b))) all_bytes_list)) 
      (filter (fun r => negb (code_row_ok r)) observed_codes).

(* fixed header of each packet type: type nibble and the reserved flags of 2.2.2 *)
Definition spec_fixed_headers : list N :=
  map (fun t => t * 16 + (if (t =? 6) || (t =? 8) || (t =? 10) then 2 else 0)) [1; 2; 3; 4; 5; 6; 7; 8; 9; 10; 11; 12; 13; 14; 15].
