(* Obligation over the tables regenerated from the compiled crate on every run: builder path and
   parser path both equal the specification table on all 28 x 27 x 3 cells (14 locations, each on two base packets); value boundaries; no
   unknown property identifier is accepted. *)
From MQ Require Import Base.Prelude Packet.Prim Packet.Props Generated.ObservedProps.
From MQ Require Export GenChecks.C18Defs.

Theorem observed_props_are_spec_table :
  forallb prop_cell_ok observed_props = true /\
  list_eqb key3_eqb (map prop_cell_key observed_props) props_domain = true.
Proof. vm_compute. split; reflexivity. Qed.

Theorem observed_values_are_spec_rules :
  forallb value_row_ok observed_values = true /\ (48 + 20 + 20 + 7 <=? N.of_nat (length observed_values)) = true.
Proof. vm_compute. split; reflexivity. Qed.

Theorem no_unknown_property_accepted : observed_unknown_ids_accepted = [].
Proof. reflexivity. Qed.
