(* Obligation over a table regenerated from the compiled crate on every run
   (Generated/ObservedSendable.v); definitions in C11Defs.v so that they still evaluate when the
   obligation fails. *)
From MQ Require Import Base.Prelude Conn.Types Spec.MqttRules Generated.ObservedSendable.
From MQ Require Export GenChecks.C11Defs.

Theorem observed_sendable_is_rule_table :
  forallb sendable_cell_ok observed_sendable = true /\
  list_eqb key_eqb (map cell_key observed_sendable) sendable_domain = true.
Proof. vm_compute. split; reflexivity. Qed.
