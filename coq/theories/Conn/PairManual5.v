(* C01 / C12, model side: MANUAL RESPONSES on both endpoints, v5.0, one exchange on an intact link.  As PairManual.v, with
   the Receive Maximum accounts: the receiver's slot stays taken from the PUBLISH until ITS APPLICATION sends PUBACK
   (QoS 1) or PUBCOMP (QoS 2), the sender's slot until the final acknowledgement arrives. *)
From MQ Require Import Base.Prelude Alloc.Alloc Alloc.SetSpec Alloc.AllocProofs Framing.Framing
                       Conn.Types Conn.TopicAlias Conn.ConnRecord Conn.Step Conn.Run Corr.ConnTrace Conn.Scope Conn.IdsQuota Conn.WfInv
                       Conn.Own Conn.OwnFrame Conn.OwnStep Conn.Qos2Dup Conn.TasBounds Conn.NoPanic
                       Conn.PairQos Conn.PairQos5 Conn.PairSeq Conn.PairSeq5 Conn.PairConc5.

Lemma manual_ack5_step g c t id : c_version c = V50 -> t = T_PUBACK \/ t = T_PUBREC \/ t = T_PUBCOMP ->
  step g c (OSend (ack_pkt g t V50 id None)) = bindr (send_puback_like c (ack_pkt g t V50 id None)) (fun '(c', e) => Ok (c', e, [])).
Proof.
  intros Rv Ht. cbn [step]. cbv zeta. unfold do_send, dispatch_send. cbv zeta. rewrite Rv.
  change (k_ver (ack_pkt g t V50 id None)) with V50. change (k_type (ack_pkt g t V50 id None)) with t.
  destruct Ht as [Ht|[Ht|Ht]]; subst t; reflexivity.
Qed.
Lemma manual_pubrel5_step g c id : c_version c = V50 ->
  step g c (OSend (ack_pkt g T_PUBREL V50 id None)) = bindr (send_pubrel c (ack_pkt g T_PUBREL V50 id None)) (fun '(c', e) => Ok (c', e, [])).
Proof. intros Rv. cbn [step]. cbv zeta. unfold do_send, dispatch_send. cbv zeta. rewrite Rv. reflexivity. Qed.

(* ---- the receiver without automatic responses: notified, nothing requested, the slot taken ---- *)
Lemma receiver_q1_5m g c p : ready5 c -> c_auto_pub c = false -> v5_pub p 1 -> recv_quota_left c ->
  match deliver g c p with
  | Ok (c1, e) => notifies e = [p] /\ sends e = [] /\ errors e = [] /\ KF c1 c /\ c_qos2 c1 = c_qos2 c /\
                  c_publish_recv c1 = ins (k_pid p) (c_publish_recv c)
  | Panic _ => False
  end.
Proof.
  intros [Rv Rs] Ha (Ht & Hv & Hq & Hte & Hal) Hrq. unfold deliver, dispatch_recv. rewrite Ht, Rv.
  change (T_PUBLISH =? 1) with false. change (T_PUBLISH =? 2) with false. change (T_PUBLISH =? 3) with true. cbn [version_eqb]. cbv iota.
  unfold recv_publish_v5. cbv zeta. rewrite Hq. change (1 =? 0) with false. change (1 =? 1) with true. change (1 =? 2) with false. cbn [negb andb].
  rewrite (recv_not_over c Hrq), Ha. cbn [andb].
  unfold resolve_recv_alias. rewrite Hte, Hal. cbn [bindr]. unfold note_handled. rewrite Hq. change (1 =? 2) with false. cbv iota.
  unfold note_inbound. rewrite Hq. change (negb (1 =? 0)) with true. cbv iota.
  set (c0 := set_publish_recv c (ins (k_pid p) (c_publish_recv c))).
  pose proof (refresh_quiet c0) as QQ. pose proof (kf_refresh c0) as R. pose proof (refresh_silent c0) as (_ & RQ). cbv zeta in QQ.
  destruct (refresh_pingreq_recv c0) as [c2 e2]. cbn [fst snd] in *. destruct QQ as (Q1 & Q2 & Q3 & _), R as (R1 & _ & R3).
  ev_simpl. rewrite Q1, Q2, Q3. cbn. do 3 (split; [reflexivity|]).
  split; [apply (kf_trans _ c0); [exact R1|unfold KF; repeat split]|]. split; [rewrite RQ; reflexivity|]. rewrite R3. reflexivity.
Qed.

Lemma receiver_q2_5m g c p : ready5 c -> c_auto_pub c = false -> v5_pub p 2 -> mem (k_pid p) (c_qos2 c) = false -> recv_quota_left c ->
  match deliver g c p with
  | Ok (c1, e) => notifies e = [p] /\ sends e = [] /\ errors e = [] /\ KF c1 c /\ c_qos2 c1 = ins (k_pid p) (c_qos2 c) /\
                  c_publish_recv c1 = ins (k_pid p) (c_publish_recv c)
  | Panic _ => False
  end.
Proof.
  intros [Rv Rs] Ha (Ht & Hv & Hq & Hte & Hal) Hn Hrq. unfold deliver, dispatch_recv. rewrite Ht, Rv.
  change (T_PUBLISH =? 1) with false. change (T_PUBLISH =? 2) with false. change (T_PUBLISH =? 3) with true. cbn [version_eqb]. cbv iota.
  unfold recv_publish_v5. cbv zeta. rewrite Hq. change (2 =? 0) with false. change (2 =? 1) with false. change (2 =? 2) with true. cbn [negb andb].
  rewrite (recv_not_over c Hrq), Rs, Ha, Hn. cbn [andb orb].
  unfold resolve_recv_alias. rewrite Hte, Hal. cbn [bindr]. unfold note_handled. rewrite Hq. change (2 =? 2) with true. cbv iota.
  unfold note_inbound. rewrite Hq. change (negb (2 =? 0)) with true. cbv iota. conn_simpl_goal.
  set (c0 := set_qos2 (set_publish_recv c (ins (k_pid p) (c_publish_recv c))) (ins (k_pid p) (c_qos2 c))).
  pose proof (refresh_quiet c0) as QQ. pose proof (kf_refresh c0) as R. pose proof (refresh_silent c0) as (_ & RQ). cbv zeta in QQ.
  destruct (refresh_pingreq_recv c0) as [c2 e2]. cbn [fst snd] in *. destruct QQ as (Q1 & Q2 & Q3 & _), R as (R1 & _ & R3).
  ev_simpl. rewrite Q1, Q2, Q3. cbn. do 3 (split; [reflexivity|]).
  split; [apply (kf_trans _ c0); [exact R1|unfold KF; repeat split]|]. split; [rewrite RQ; reflexivity|]. rewrite R3. reflexivity.
Qed.

Lemma receiver_pubrel5_m g c a : ready5 c -> c_auto_pub c = false -> k_type a = T_PUBREL ->
  match deliver g c a with
  | Ok (c1, e) => notifies e = [a] /\ sends e = [] /\ errors e = [] /\ KF c1 c /\ c_qos2 c1 = del (k_pid a) (c_qos2 c) /\
                  c_publish_recv c1 = c_publish_recv c
  | Panic _ => False
  end.
Proof.
  intros [Rv Rs] Ha Ht. unfold deliver, dispatch_recv. rewrite Ht, Rv.
  change (T_PUBREL =? 1) with false. change (T_PUBREL =? 2) with false. change (T_PUBREL =? 3) with false.
  change ((T_PUBREL =? 4) || (T_PUBREL =? 5) || (T_PUBREL =? 7) || (T_PUBREL =? 9) || (T_PUBREL =? 11)) with false.
  change (T_PUBREL =? 6) with true. cbv iota. unfold recv_pubrel. cbv zeta.
  set (c0 := set_qos2 c (del (k_pid a) (c_qos2 c))).
  change (c_auto_pub c0) with (c_auto_pub c). rewrite Ha. cbn [andb bindr].
  pose proof (refresh_quiet c0) as QQ. pose proof (kf_refresh c0) as R. pose proof (refresh_silent c0) as (_ & RQ). cbv zeta in QQ.
  destruct (refresh_pingreq_recv c0) as [c2 e2]. cbn [fst snd] in *. destruct QQ as (Q1 & Q2 & Q3 & _), R as (R1 & _ & R3).
  ev_simpl. rewrite Q1, Q2, Q3. cbn. do 3 (split; [reflexivity|]).
  split; [apply (kf_trans _ c0); [exact R1|unfold KF; repeat split]|]. split; [rewrite RQ; reflexivity|]. rewrite R3. reflexivity.
Qed.

(* the application's acknowledgement: exactly that packet; PUBACK and PUBCOMP give the slot back *)
Lemma manual_ack5 g c t id : ready5 c -> ack_fits g c -> t = T_PUBACK \/ t = T_PUBREC \/ t = T_PUBCOMP ->
  exists c1 e, step g c (OSend (ack_pkt g t V50 id None)) = Ok (c1, e, []) /\
               sends e = [ack_pkt g t V50 id None] /\ notifies e = [] /\ errors e = [] /\ KF c1 c /\ c_qos2 c1 = c_qos2 c /\
               c_publish_recv c1 = (if (t =? T_PUBACK) || (t =? T_PUBCOMP) then del id (c_publish_recv c) else c_publish_recv c).
Proof.
  intros R Hf Ht. rewrite (manual_ack5_step g c t id (proj1 R) Ht). pose proof (auto_ack5_x g c t id R Hf Ht) as H.
  destruct (send_puback_like c _) as [[c1 e]|]; [|destruct H]. exists c1, e. cbn [bindr].
  destruct H as (H1 & H2 & H3 & K & Q & P). split; [reflexivity|]. repeat (split; [assumption|]). exact P.
Qed.

(* ---- the sender without automatic responses ---- *)
Lemma sender_pubrec5_m g c a : OWN g c -> ready5 c -> c_auto_pub c = false -> k_ver a = V50 -> k_type a = T_PUBREC ->
  k_rc_present a = false -> mem (k_pid a) (c_pubrec c) = true -> is_used c (k_pid a) = true ->
  match deliver g c a with
  | Ok (c2, e) => notifies e = [a] /\ sends e = [] /\ errors e = [] /\ released e = [] /\ OWN g c2 /\ KF c2 c /\
                  c_send_count c2 = c_send_count c /\ is_used c2 (k_pid a) = true /\ fresh c2 (k_pid a)
  | Panic _ => False
  end.
Proof.
  intros HO [Rv Rs] Ha Hva Hta Hrc Hm Hu.
  unfold deliver, dispatch_recv. rewrite Hta, Rv.
  change (T_PUBREC =? 1) with false. change (T_PUBREC =? 2) with false. change (T_PUBREC =? 3) with false.
  change ((T_PUBREC =? 4) || (T_PUBREC =? 5) || (T_PUBREC =? 7) || (T_PUBREC =? 9) || (T_PUBREC =? 11)) with true. cbv iota.
  unfold recv_ack. cbv zeta. change (T_PUBREC =? T_PUBACK) with false. change (T_PUBREC =? T_PUBREC) with true.
  cbv iota. rewrite Hm, Hrc. cbn [version_eqb negb orb].
  destruct (ack_PB_own g c (k_pid a) HO Hm) as (O1 & Fr & V1). cbv zeta in O1, Fr, V1. rewrite Rv in O1, Fr, V1.
  set (c1 := store_erase _ V50 T_PUBREC (k_pid a)) in *.
  assert (A1 : c_auto_pub c1 = false) by exact Ha.
  assert (A3 : is_used c1 (k_pid a) = true) by exact Hu.
  assert (A6 : KF c1 c) by (unfold KF; repeat split).
  assert (A7 : c_send_count c1 = c_send_count c) by reflexivity.
  rewrite A1. cbn [andb bindr]. clearbody c1.
  pose proof (refresh_keeps c1) as K. pose proof (refresh_quiet c1) as Q. pose proof (kf_refresh c1) as KR. cbv zeta in K, Q.
  destruct (refresh_pingreq_recv c1) as [c2 e2]. cbn [fst snd] in *.
  destruct K as (F & _), Q as (Q1 & Q2 & Q3 & Q4), KR as (KR1 & KR2 & _). ev_simpl. rewrite Q1, Q2, Q3, Q4. cbn.
  repeat (split; [reflexivity|]). split; [exact (f8_own g c1 c2 F O1)|]. split; [exact (kf_trans _ _ _ KR1 A6)|]. split; [congruence|].
  split; [unfold is_used in *; destruct F as (F1 & _); rewrite F1; exact A3|exact (fresh_f8 c2 c1 _ F Fr)].
Qed.

Lemma sender_pubrel5_m g c id : OWN g c -> ready5 c -> ack_fits g c -> is_used c id = true -> fresh c id ->
  exists c2 e, step g c (OSend (ack_pkt g T_PUBREL V50 id None)) = Ok (c2, e, []) /\
               sends e = [ack_pkt g T_PUBREL V50 id None] /\ notifies e = [] /\ errors e = [] /\ released e = [] /\
               OWN g c2 /\ KF c2 c /\ c_send_count c2 = c_send_count c /\ is_used c2 id = true /\ mem id (c_pubcomp c2) = true.
Proof.
  intros HO [Rv Rs] Hfit Hu Hf. rewrite (manual_pubrel5_step g c id Rv).
  pose proof (send_pubrel_OR g c (ack_pkt g T_PUBREL V50 id None) HO Hf ltac:(symmetry; exact Rv) eq_refl) as HOR.
  assert (A5 : size_ok c (ack_pkt g T_PUBREL V50 id None) = true) by (unfold size_ok; apply N.leb_le; exact Hfit).
  unfold send_pubrel in *. cbv zeta in *.
  change (k_ver (ack_pkt g T_PUBREL V50 id None)) with V50 in *. change (k_pid (ack_pkt g T_PUBREL V50 id None)) with id in *.
  rewrite A5 in *. cbn [version_eqb andb negb] in *. rewrite Rs, Hu in *. cbn [negb andb] in *.
  destruct Hf as [Hc Hs].
  assert (Hfin : forall cx, c_pid cx = c_pid c -> KF cx c -> c_send_count cx = c_send_count c -> mem id (c_pubcomp cx) = true ->
     forall r, r = send_and_post cx (ack_pkt g T_PUBREL V50 id None) None [] -> OR g c r ->
     exists c2 e, bindr r (fun '(c', e) => Ok (c', e, @nil N)) = Ok (c2, e, []) /\
               sends e = [ack_pkt g T_PUBREL V50 id None] /\ notifies e = [] /\ errors e = [] /\ released e = [] /\
               OWN g c2 /\ KF c2 c /\ c_send_count c2 = c_send_count c /\ is_used c2 id = true /\ mem id (c_pubcomp c2) = true).
  { intros cx Hp Hk Hsc Hmx r Er Hor. pose proof (send_and_post_k cx (ack_pkt g T_PUBREL V50 id None) None) as K.
    rewrite <- Er in K. clear Er. destruct r as [[c2 e]|]; [|destruct K]. destruct K as (K1 & K2 & K3 & K4 & F & KK & KC & _). destruct Hor as [O2 _].
    exists c2, e. cbn [bindr]. split; [reflexivity|]. repeat (split; [assumption|]).
    split; [exact (kf_trans _ _ _ KK Hk)|]. split; [congruence|].
    destruct F as (F1 & _ & _ & _ & F5 & _). split; [unfold is_used in *; rewrite F1, Hp; exact Hu|now rewrite F5]. }
  destruct (c_need_store c) eqn:En.
  - unfold store_add in *. change (k_pid (ack_pkt g T_PUBREL V50 id None)) with id in *. rewrite Hs in *. cbn [bindr] in HOR |- *.
    conn_simpl. rewrite Rs in *.
    eapply Hfin; cycle 4; [reflexivity|exact HOR|reflexivity|unfold KF; repeat split|reflexivity|]; conn_simpl_goal; unfold mem, ins; rewrite s_mem_insert, N.eqb_refl; reflexivity.
  - cbn [bindr] in HOR |- *. conn_simpl. rewrite Rs in *.
    eapply Hfin; cycle 4; [reflexivity|exact HOR|reflexivity|unfold KF; repeat split|reflexivity|]; conn_simpl_goal; unfold mem, ins; rewrite s_mem_insert, N.eqb_refl; reflexivity.
Qed.

(* ---- QoS 1, v5.0, manual PUBACK: the receiver's slot is given back when its application sends the PUBACK ---- *)
Theorem qos1_completes_manual5 gs gr cs cr p :
  OWN gs cs -> ready5 cs -> v5_pub p 1 -> fresh cs (k_pid p) -> is_used cs (k_pid p) = true ->
  size_ok cs p = true -> c_ta_send cs = None -> quota_left cs ->
  ready5 cr -> c_auto_pub cr = false -> recv_quota_left cr -> ack_fits gr cr ->
  asc 1 (g_idmax gs) (c_publish_recv cr) -> mem (k_pid p) (c_publish_recv cr) = false -> 1 <= k_pid p <= g_idmax gs ->
  exists cs1 e1 cr1 e2 cr2 e3 cs2 e4,
    send_publish_v5 gs cs p = Ok (cs1, e1) /\ sends e1 = [p] /\ errors e1 = [] /\
    deliver gr cr p = Ok (cr1, e2) /\ notifies e2 = [p] /\ sends e2 = [] /\ errors e2 = [] /\
    c_publish_recv cr1 = ins (k_pid p) (c_publish_recv cr) /\
    step gr cr1 (OSend (puback5_for gr p)) = Ok (cr2, e3, []) /\ sends e3 = [puback5_for gr p] /\ errors e3 = [] /\ notifies e3 = [] /\
    KF cr2 cr /\ c_qos2 cr2 = c_qos2 cr /\ c_publish_recv cr2 = c_publish_recv cr /\
    deliver gs cs1 (puback5_for gr p) = Ok (cs2, e4) /\ released e4 = [k_pid p] /\ sends e4 = [] /\ errors e4 = [] /\
    OWN gs cs2 /\ KF cs2 cs /\ is_used cs2 (k_pid p) = false /\ fresh cs2 (k_pid p) /\ c_send_count cs2 = c_send_count cs.
Proof.
  intros HO Rs Hp Hf Hu Hsz Hta Hql Rr Har Hrq Hfr Hasc Hnm Hrg.
  pose proof (sender_sends5_x gs cs p 1 HO Rs Hp ltac:(lia) Hf Hu Hsz Hta Hql) as H1.
  destruct (send_publish_v5 gs cs p) as [[cs1 e1]|] eqn:E1; [|destruct H1]. destruct H1 as (S1 & _ & X1 & O1 & K1 & U1 & M1 & C1).
  change (1 =? 2) with false in M1. cbv iota in M1.
  pose proof (receiver_q1_5m gr cr p Rr Har Hp Hrq) as H2.
  destruct (deliver gr cr p) as [[cr1 e2]|] eqn:E2; [|destruct H2]. destruct H2 as (N2 & S2 & X2 & K2 & Q2 & P2).
  pose proof (ready5_kf _ _ K2 Rr) as Rr1. pose proof (ack_fits_kf gr _ _ K2 Hfr) as Fr1.
  destruct (manual_ack5 gr cr1 T_PUBACK (k_pid p) Rr1 Fr1 (or_introl eq_refl)) as (cr2 & e3 & E3 & S3 & N3 & X3 & K3 & Q3 & P3).
  change ((T_PUBACK =? T_PUBACK) || (T_PUBACK =? T_PUBCOMP)) with true in P3. cbv iota in P3.
  pose proof (ready5_kf _ _ K1 Rs) as R1.
  pose proof (sender_final_ack5_x gs cs1 (puback5_for gr p) T_PUBACK O1 R1 eq_refl eq_refl (or_introl eq_refl)) as H4.
  change (T_PUBACK =? T_PUBACK) with true in H4. cbv iota in H4. change (k_pid (puback5_for gr p)) with (k_pid p) in H4.
  specialize (H4 M1 U1).
  destruct (deliver gs cs1 (puback5_for gr p)) as [[cs2 e4]|] eqn:E4; [|destruct H4].
  destruct H4 as (L4 & S4 & X4 & O4 & K4 & U4 & F4 & C4).
  pose proof (kf_fields _ _ K1) as (_ & _ & _ & _ & _ & SM1 & _).
  exists cs1, e1, cr1, e2, cr2, e3, cs2, e4.
  split; [reflexivity|]. split; [exact S1|]. split; [exact X1|].
  split; [reflexivity|]. split; [exact N2|]. split; [exact S2|]. split; [exact X2|]. split; [exact P2|].
  split; [exact E3|]. split; [exact S3|]. split; [exact X3|]. split; [exact N3|].
  split; [exact (kf_trans _ _ _ K3 K2)|]. split; [congruence|].
  split; [rewrite P3, P2; apply (del_ins_fresh gs); assumption|].
  split; [exact E4|]. split; [exact L4|]. split; [exact S4|]. split; [exact X4|]. split; [exact O4|]. split; [exact (kf_trans _ _ _ K4 K1)|].
  split; [exact U4|]. split; [exact F4|].
  rewrite C4, SM1, C1. destruct (c_send_max cs); [lia|reflexivity].
Qed.

(* ---- QoS 2, v5.0, every response sent by the applications ---- *)
Theorem qos2_completes_manual5 gs gr cs cr p :
  OWN gs cs -> ready5 cs -> c_auto_pub cs = false -> v5_pub p 2 -> fresh cs (k_pid p) -> is_used cs (k_pid p) = true ->
  size_ok cs p = true -> c_ta_send cs = None -> quota_left cs -> ack_fits gs cs ->
  ready5 cr -> c_auto_pub cr = false -> recv_quota_left cr -> ack_fits gr cr ->
  asc 1 (g_idmax gs) (c_qos2 cr) -> c_publish_recv cr = c_qos2 cr -> mem (k_pid p) (c_qos2 cr) = false -> 1 <= k_pid p <= g_idmax gs ->
  exists cs1 e1 cr1 e2 cr2 e3 cs2 e4 cs3 e5 cr3 e6 cr4 e7 cs4 e8,
    send_publish_v5 gs cs p = Ok (cs1, e1) /\ sends e1 = [p] /\ errors e1 = [] /\
    deliver gr cr p = Ok (cr1, e2) /\ notifies e2 = [p] /\ sends e2 = [] /\ errors e2 = [] /\
    step gr cr1 (OSend (pubrec5_for gr p)) = Ok (cr2, e3, []) /\ sends e3 = [pubrec5_for gr p] /\ errors e3 = [] /\ notifies e3 = [] /\
    c_publish_recv cr2 = ins (k_pid p) (c_publish_recv cr) /\
    deliver gs cs1 (pubrec5_for gr p) = Ok (cs2, e4) /\ notifies e4 = [pubrec5_for gr p] /\ sends e4 = [] /\ errors e4 = [] /\ released e4 = [] /\
    step gs cs2 (OSend (pubrel5_for gs p)) = Ok (cs3, e5, []) /\ sends e5 = [pubrel5_for gs p] /\ errors e5 = [] /\ notifies e5 = [] /\
    deliver gr cr2 (pubrel5_for gs p) = Ok (cr3, e6) /\ notifies e6 = [pubrel5_for gs p] /\ sends e6 = [] /\ errors e6 = [] /\
    step gr cr3 (OSend (pubcomp5_for gr p)) = Ok (cr4, e7, []) /\ sends e7 = [pubcomp5_for gr p] /\ errors e7 = [] /\ notifies e7 = [] /\
    KF cr4 cr /\ c_qos2 cr4 = c_qos2 cr /\ c_publish_recv cr4 = c_publish_recv cr /\
    deliver gs cs3 (pubcomp5_for gr p) = Ok (cs4, e8) /\ released e8 = [k_pid p] /\ sends e8 = [] /\ errors e8 = [] /\
    OWN gs cs4 /\ KF cs4 cs /\ is_used cs4 (k_pid p) = false /\ fresh cs4 (k_pid p) /\ c_send_count cs4 = c_send_count cs.
Proof.
  intros HO Rs Has Hp Hf Hu Hsz Hta Hql Hfs Rr Har Hrq Hfr Hasc Hpq Hn Hrg.
  pose proof (sender_sends5_x gs cs p 2 HO Rs Hp ltac:(lia) Hf Hu Hsz Hta Hql) as H1.
  destruct (send_publish_v5 gs cs p) as [[cs1 e1]|] eqn:E1; [|destruct H1]. destruct H1 as (S1 & _ & X1 & O1 & K1 & U1 & M1 & C1).
  change (2 =? 2) with true in M1. cbv iota in M1.
  pose proof (kf_fields _ _ K1) as (_ & _ & A1 & _ & _ & SM1 & _).
  pose proof (ready5_kf _ _ K1 Rs) as R1.
  pose proof (receiver_q2_5m gr cr p Rr Har Hp Hn Hrq) as H2.
  destruct (deliver gr cr p) as [[cr1 e2]|] eqn:E2; [|destruct H2]. destruct H2 as (N2 & S2 & X2 & K2 & Q2 & P2).
  pose proof (ready5_kf _ _ K2 Rr) as Rr1. pose proof (ack_fits_kf gr _ _ K2 Hfr) as Fr1.
  destruct (manual_ack5 gr cr1 T_PUBREC (k_pid p) Rr1 Fr1 (or_intror (or_introl eq_refl))) as (cr2 & e3 & E3 & S3 & N3 & X3 & K3 & Q3 & P3).
  change ((T_PUBREC =? T_PUBACK) || (T_PUBREC =? T_PUBCOMP)) with false in P3. cbv iota in P3.
  pose proof (ready5_kf _ _ K3 Rr1) as Rr2. pose proof (ack_fits_kf gr _ _ K3 Fr1) as Fr2.
  pose proof (sender_pubrec5_m gs cs1 (pubrec5_for gr p) O1 R1 ltac:(congruence) eq_refl eq_refl eq_refl) as H4.
  change (k_pid (pubrec5_for gr p)) with (k_pid p) in H4. specialize (H4 M1 U1).
  destruct (deliver gs cs1 (pubrec5_for gr p)) as [[cs2 e4]|] eqn:E4; [|destruct H4].
  destruct H4 as (N4 & S4 & X4 & L4 & O2 & K4 & C4 & U2 & F2).
  pose proof (ready5_kf _ _ K4 R1) as R2. pose proof (ack_fits_kf gs _ _ (kf_trans _ _ _ K4 K1) Hfs) as Fs2.
  destruct (sender_pubrel5_m gs cs2 (k_pid p) O2 R2 Fs2 U2 F2) as (cs3 & e5 & E5 & S5 & N5 & X5 & L5 & O3 & K5 & C5 & U3 & M3).
  pose proof (ready5_kf _ _ K5 R2) as R3.
  assert (Ar2 : c_auto_pub cr2 = false).
  { pose proof (kf_fields _ _ K3) as (_ & _ & B3 & _). pose proof (kf_fields _ _ K2) as (_ & _ & B2 & _). congruence. }
  pose proof (receiver_pubrel5_m gr cr2 (pubrel5_for gs p) Rr2 Ar2 eq_refl) as H6.
  destruct (deliver gr cr2 (pubrel5_for gs p)) as [[cr3 e6]|] eqn:E6; [|destruct H6]. destruct H6 as (N6 & S6 & X6 & K6 & Q6 & P6).
  change (k_pid (pubrel5_for gs p)) with (k_pid p) in Q6.
  pose proof (ready5_kf _ _ K6 Rr2) as Rr3. pose proof (ack_fits_kf gr _ _ K6 Fr2) as Fr3.
  destruct (manual_ack5 gr cr3 T_PUBCOMP (k_pid p) Rr3 Fr3 (or_intror (or_intror eq_refl))) as (cr4 & e7 & E7 & S7 & N7 & X7 & K7 & Q7 & P7).
  change ((T_PUBCOMP =? T_PUBACK) || (T_PUBCOMP =? T_PUBCOMP)) with true in P7. cbv iota in P7.
  pose proof (sender_final_ack5_x gs cs3 (pubcomp5_for gr p) T_PUBCOMP O3 R3 eq_refl eq_refl (or_intror eq_refl)) as H8.
  change (T_PUBCOMP =? T_PUBACK) with false in H8. cbv iota in H8. change (k_pid (pubcomp5_for gr p)) with (k_pid p) in H8.
  specialize (H8 M3 U3).
  destruct (deliver gs cs3 (pubcomp5_for gr p)) as [[cs4 e8]|] eqn:E8; [|destruct H8].
  destruct H8 as (L8 & S8 & X8 & O4 & K8 & U4 & F4 & C8).
  pose proof (kf_fields _ _ K4) as (_ & _ & _ & _ & _ & SM4 & _). pose proof (kf_fields _ _ K5) as (_ & _ & _ & _ & _ & SM5 & _).
  exists cs1, e1, cr1, e2, cr2, e3, cs2, e4, cs3, e5, cr3, e6, cr4, e7, cs4, e8.
  split; [reflexivity|]. split; [exact S1|]. split; [exact X1|].
  split; [reflexivity|]. split; [exact N2|]. split; [exact S2|]. split; [exact X2|].
  split; [exact E3|]. split; [exact S3|]. split; [exact X3|]. split; [exact N3|]. split; [congruence|].
  split; [exact E4|]. split; [exact N4|]. split; [exact S4|]. split; [exact X4|]. split; [exact L4|].
  split; [exact E5|]. split; [exact S5|]. split; [exact X5|]. split; [exact N5|].
  split; [exact E6|]. split; [exact N6|]. split; [exact S6|]. split; [exact X6|].
  split; [exact E7|]. split; [exact S7|]. split; [exact X7|]. split; [exact N7|].
  split; [exact (kf_trans _ _ _ K7 (kf_trans _ _ _ K6 (kf_trans _ _ _ K3 K2)))|].
  split; [rewrite Q7, Q6, Q3, Q2; apply (del_ins_fresh gs); assumption|].
  split; [rewrite P7, P6, P3, P2, Hpq; apply (del_ins_fresh gs); assumption|].
  split; [exact E8|]. split; [exact L8|]. split; [exact S8|]. split; [exact X8|]. split; [exact O4|].
  split; [exact (kf_trans _ _ _ K8 (kf_trans _ _ _ K5 (kf_trans _ _ _ K4 K1)))|].
  split; [exact U4|]. split; [exact F4|].
  rewrite C8, SM5, SM4, SM1, C5, C4, C1. destruct (c_send_max cs); [lia|reflexivity].
Qed.
