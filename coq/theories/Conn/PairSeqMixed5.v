(* C01 / C12, model side, v5.0: sequences of complete exchanges of ANY mix of QoS 0 / 1 / 2 (no topic alias in play; Receive
   Maximum and Maximum Packet Size negotiated).  PairSeq5.v covers acknowledged exchanges; a QoS 0 publication takes no
   Receive Maximum slot on either side, registers no identifier and leaves nothing behind, so the pair invariant of
   PairSeq5.v - both accounts at zero between exchanges - is carried through.  Its only precondition on the application's
   side is the peer's Maximum Packet Size. *)
From MQ Require Import Base.Prelude Alloc.Alloc Alloc.SetSpec Alloc.AllocProofs Framing.Framing
                       Conn.Types Conn.TopicAlias Conn.ConnRecord Conn.Step Conn.Run Corr.ConnTrace Conn.Scope Conn.IdsQuota Conn.WfInv
                       Conn.Own Conn.OwnFrame Conn.OwnStep Conn.Qos2Dup Conn.TasBounds Conn.NoPanic Conn.PairQos Conn.PairQos5 Conn.PairSeq Conn.PairSeq5.

Lemma sender_q0_5x g c p : OWN g c -> ready5 c -> v5_pub p 0 -> size_ok c p = true -> c_ta_send c = None ->
  match send_publish_v5 g c p with
  | Ok (c1, e1) => sends e1 = [p] /\ notifies e1 = [] /\ errors e1 = [] /\ released e1 = [] /\
                   OWN g c1 /\ F8 c1 c /\ KF c1 c /\ c_send_count c1 = c_send_count c /\ c_qos2 c1 = c_qos2 c /\
                   c_publish_recv c1 = c_publish_recv c
  | Panic _ => False
  end.
Proof.
  intros HO [Rv Rs] (Ht & Hv & Hq & Hte & Hal) Hsz Hta.
  unfold send_publish_v5. cbv zeta. rewrite Hsz, Hq, Rs, Hte, Hal. change (0 =? 0) with true. cbn [negb andb bindr]. cbv iota. rewrite ?Rs, Hta.
  assert (E : (if c_auto_map c then Ok (c, p, false, @nil event) else if c_auto_replace c then Ok (c, p, false, []) else Ok (c, p, false, []))
              = Ok (c, p, false, [])) by (destruct (c_auto_map c); [|destruct (c_auto_replace c)]; reflexivity).
  rewrite E. cbn [bindr]. rewrite Rs. change ([] ++ []) with (@nil event).
  pose proof (send_and_post_k c p None) as K. destruct (send_and_post c p None []) as [[c1 e]|]; [|exact K].
  destruct K as (K1 & K2 & K3 & K4 & F & KK & KC & KQ & KP).
  do 4 (split; [assumption|]). split; [exact (f8_own g c c1 F HO)|]. repeat (split; [assumption|]). assumption.
Qed.

Lemma receiver_q0_5x g c p : ready5 c -> v5_pub p 0 ->
  match deliver g c p with
  | Ok (c1, e) => notifies e = [p] /\ sends e = [] /\ errors e = [] /\ released e = [] /\
                  F8 c1 c /\ KF c1 c /\ c_send_count c1 = c_send_count c /\ c_qos2 c1 = c_qos2 c /\ c_publish_recv c1 = c_publish_recv c
  | Panic _ => False
  end.
Proof.
  intros [Rv Rs] (Ht & Hv & Hq & Hte & Hal). unfold deliver, dispatch_recv. rewrite Ht, Rv.
  change (T_PUBLISH =? 1) with false. change (T_PUBLISH =? 2) with false. change (T_PUBLISH =? 3) with true. cbn [version_eqb]. cbv iota.
  unfold recv_publish_v5. cbv zeta. rewrite Hq. change (0 =? 0) with true. change (0 =? 1) with false. change (0 =? 2) with false. cbn [negb andb].
  unfold resolve_recv_alias, note_inbound. rewrite Hq, Hte. change (negb (0 =? 0)) with false. cbv iota. cbn [bindr].
  unfold note_handled. rewrite Hq. change (0 =? 2) with false. cbv iota. cbn [bindr]. rewrite Hal. cbn [bindr]. change ([] ++ [] ++ ?x) with x.
  pose proof (refresh_keeps c) as K. pose proof (refresh_quiet c) as Q. pose proof (kf_refresh c) as R. cbv zeta in K, Q.
  destruct (refresh_pingreq_recv c) as [c2 e2]. cbn [fst snd] in *.
  destruct K as (F & _ & _ & K4), Q as (Q1 & Q2 & Q3 & Q4), R as (R1 & R2 & R3). cbn [app]. ev_simpl. rewrite Q1, Q2, Q3, Q4. cbn.
  do 4 (split; [reflexivity|]). repeat (split; [assumption|]). assumption.
Qed.

Section Mixed5.
Variables gs gr : cfg.

Definition exchange0_5 (cs cr : conn) (p : pkt) : outcome :=
  if negb (size_ok cs p) then AppPre else
  match step gs cs (OSend p) with
  | Ok (cs1, e1, _) =>
    match one (sends e1) with
    | Some p1 =>
      if negb (none (notifies e1) && none (errors e1) && none (released e1)) then Fail else
      match deliver gr cr p1 with
      | Ok (cr1, e2) =>
        match one (notifies e2) with
        | Some n1 => if none (sends e2) && none (errors e2) && none (released e2) then Done cs1 cr1 [n1] else Fail
        | None => Fail
        end
      | Panic _ => Fail
      end
    | None => Fail
    end
  | Panic _ => Fail
  end.

Definition exchange_any5 (cs cr : conn) (p : pkt) : outcome :=
  if k_qos p =? 0 then exchange0_5 cs cr p else exchange5 gs gr cs cr p.

Fixpoint run_mixed5 (cs cr : conn) (ps : list pkt) : outcome :=
  match ps with
  | [] => Done cs cr []
  | p :: t =>
    match exchange_any5 cs cr p with
    | Done cs' cr' d => match run_mixed5 cs' cr' t with Done cs'' cr'' d' => Done cs'' cr'' (d ++ d') | o => o end
    | o => o
    end
  end.

Theorem exchange0_5_ok cs cr p : pair_inv5 gs gr cs cr -> v5_pub p 0 ->
  match exchange0_5 cs cr p with
  | Done cs' cr' d => d = [p] /\ pair_inv5 gs gr cs' cr' /\ F8 cs' cs /\ F8 cr' cr /\ c_qos2 cr' = c_qos2 cr /\ c_qos2 cs' = c_qos2 cs
  | AppPre => size_ok cs p = false          (* the only precondition: the peer's Maximum Packet Size *)
  | Fail => False
  end.
Proof.
  intros (HO & Rs & Has & Hta & Hfs & Hc0 & Hm0 & Rr & Har & Hfr & Hpr & Hrm & Hasc) Hp. unfold exchange0_5.
  destruct (size_ok cs p) eqn:Esz; cbn [negb]; [|reflexivity].
  rewrite (step_send_publish_v5 gs cs p 0 (proj1 Rs) Hp).
  pose proof (sender_q0_5x gs cs p HO Rs Hp Esz Hta) as H1.
  destruct (send_publish_v5 gs cs p) as [[cs1 e1]|]; cbn [bindr]; [|destruct H1].
  destruct H1 as (S1 & N1 & X1 & L1 & O1 & F1 & K1 & C1 & Q1 & P1). rewrite S1, N1, X1, L1. cbn [one none andb negb].
  pose proof (receiver_q0_5x gr cr p Rr Hp) as H2.
  destruct (deliver gr cr p) as [[cr1 e2]|]; [|destruct H2].
  destruct H2 as (N2 & S2 & X2 & L2 & F2 & K2 & C2 & Q2 & P2). rewrite N2, S2, X2, L2. cbn [one none andb].
  split; [reflexivity|]. split; [|split; [exact F1|split; [exact F2|split; [exact Q2|exact Q1]]]].
  pose proof (kf_fields _ _ K1) as (a1 & a2 & a3 & a4 & a5 & a6 & a7). pose proof (kf_fields _ _ K2) as (b1 & b2 & b3 & b4 & b5 & b6 & b7).
  split; [exact O1|]. split; [exact (ready5_kf _ _ K1 Rs)|]. split; [congruence|]. split; [congruence|].
  split; [exact (ack_fits_kf gs _ _ K1 Hfs)|]. split; [congruence|]. split; [congruence|].
  split; [exact (ready5_kf _ _ K2 Rr)|]. split; [congruence|]. split; [exact (ack_fits_kf gr _ _ K2 Hfr)|]. split; [congruence|]. split; [congruence|].
  rewrite Q2. exact Hasc.
Qed.

Definition v5_any (p : pkt) : Prop := v5_pub p 0 \/ v5_pub p 1 \/ v5_pub p 2.

Theorem exchange_any5_ok cs cr p : pair_inv5 gs gr cs cr -> v5_any p ->
  match exchange_any5 cs cr p with
  | Done cs' cr' d => d = [p] /\ pair_inv5 gs gr cs' cr'
  | AppPre => True
  | Fail => False
  end.
Proof.
  intros Hi Hp. unfold exchange_any5. destruct Hp as [Hp|[Hp|Hp]].
  - pose proof (exchange0_5_ok cs cr p Hi Hp) as H. destruct Hp as (_ & _ & Hq & _). rewrite Hq. change (0 =? 0) with true. cbv iota.
    destruct (exchange0_5 cs cr p) as [cs' cr' d| |]; [|exact I|exact H]. destruct H as (H1 & H2 & _). split; assumption.
  - pose proof (exchange5_ok gs gr cs cr p 1 Hi Hp (or_introl eq_refl)) as H. destruct Hp as (_ & _ & Hq & _). rewrite Hq. change (1 =? 0) with false. cbv iota. exact H.
  - pose proof (exchange5_ok gs gr cs cr p 2 Hi Hp (or_intror eq_refl)) as H. destruct Hp as (_ & _ & Hq & _). rewrite Hq. change (2 =? 0) with false. cbv iota. exact H.
Qed.

(* any number of v5.0 messages of any mix of QoS levels in sequence: notified exactly once each, in order; both Receive
   Maximum accounts at zero afterwards *)
Theorem run_mixed5_ok : forall ps cs cr, pair_inv5 gs gr cs cr -> Forall v5_any ps ->
  match run_mixed5 cs cr ps with
  | Done cs' cr' d => d = ps /\ pair_inv5 gs gr cs' cr'
  | AppPre => True
  | Fail => False
  end.
Proof.
  induction ps as [|p t IH]; intros cs cr Hi Hf; cbn [run_mixed5]; [split; [reflexivity|exact Hi]|].
  inversion Hf as [|? ? Hp Ht]; subst.
  pose proof (exchange_any5_ok cs cr p Hi Hp) as He.
  destruct (exchange_any5 cs cr p) as [cs' cr' d| |]; [|exact I|exact He]. destruct He as [-> Hi'].
  specialize (IH cs' cr' Hi' Ht). destruct (run_mixed5 cs' cr' t) as [cs'' cr'' d'| |]; [|exact I|exact IH].
  destruct IH as [-> Hi'']. split; [reflexivity|exact Hi''].
Qed.

(* C12: a QoS 0 publication takes no slot - with the sender's quota EXHAUSTED by nothing (count 0) or not, the count and the
   receiver's outstanding set are what they were; stated for the step from the invariant *)
Corollary qos0_takes_no_slot cs cr p : pair_inv5 gs gr cs cr -> v5_pub p 0 -> size_ok cs p = true ->
  exists cs' cr', exchange0_5 cs cr p = Done cs' cr' [p] /\ c_send_count cs' = 0 /\ c_publish_recv cr' = [] /\ vacancy cs' = c_send_max cs'.
Proof.
  intros Hi Hp Hsz. pose proof (exchange0_5_ok cs cr p Hi Hp) as H.
  destruct (exchange0_5 cs cr p) as [cs' cr' d| |]; [|congruence|destruct H]. destruct H as (-> & Hi' & _).
  exists cs', cr'. split; [reflexivity|]. pose proof (pair_inv5_full_vacancy gs gr cs' cr' Hi') as V.
  destruct Hi' as (_ & _ & _ & _ & _ & C0 & _ & _ & _ & _ & P0 & _). split; [exact C0|]. split; [exact P0|exact V].
Qed.
End Mixed5.
