(* C01, model side, v5.0 on an intact link: a QoS 1 and a QoS 2 exchange between two endpoints complete, for EVERY pair of
   states that satisfy the stated preconditions (no topic alias in play, the packet within the peer's limits). *)
From MQ Require Import Base.Prelude Alloc.Alloc Alloc.SetSpec Alloc.AllocProofs Framing.Framing
                       Conn.Types Conn.TopicAlias Conn.ConnRecord Conn.Step Conn.Run Corr.ConnTrace Conn.Scope Conn.IdsQuota Conn.WfInv
                       Conn.Own Conn.OwnFrame Conn.OwnStep Conn.Qos2Dup Conn.TasBounds Conn.NoPanic Conn.PairQos.

Definition v5_pub (p : pkt) (q : N) : Prop :=
  k_type p = T_PUBLISH /\ k_ver p = V50 /\ k_qos p = q /\ topic_empty p = false /\ k_alias p = None.
Definition ready5 (c : conn) : Prop := c_version c = V50 /\ status_eqb (c_status c) Connected = true.
Definition quota_left (c : conn) : Prop := match c_send_max c with Some mx => c_send_count c < mx | None => True end.

Lemma sender_sends5 g c p q : OWN g c -> ready5 c -> v5_pub p q -> 1 <= q <= 2 -> fresh c (k_pid p) -> is_used c (k_pid p) = true ->
  size_ok c p = true -> c_ta_send c = None -> quota_left c ->
  match send_publish_v5 g c p with
  | Ok (c1, e1) => In p (sends e1) /\ OWN g c1 /\ ready5 c1 /\ is_used c1 (k_pid p) = true /\ c_auto_pub c1 = c_auto_pub c /\
                   c_mps_send c1 = c_mps_send c /\
                   mem (k_pid p) (if q =? 2 then c_pubrec c1 else c_puback c1) = true /\
                   c_send_max c1 = c_send_max c /\
                   c_send_count c1 = (match c_send_max c with Some _ => c_send_count c + 1 | None => c_send_count c end)
  | Panic _ => False
  end.
Proof.
  intros HO [Rv Rs] (Ht & Hv & Hq & Hte & Hal) Hr Hf Hu Hsz Hta Hql.
  pose proof (send_publish_v5_OR g c p HO) as HOR.
  assert (E0 : (k_qos p =? 0) = false) by (apply N.eqb_neq; lia). rewrite E0 in HOR.
  specialize (HOR Hf ltac:(congruence) Ht ltac:(lia)).
  unfold send_publish_v5 in *. cbv zeta in *. rewrite Hsz, E0, Rs, Hu, Hte, Hal in *. cbn [negb andb] in *.
  assert (Hq0 : match c_send_max c with Some mx => mx <=? c_send_count c | None => false end = false).
  { unfold quota_left in Hql. destruct (c_send_max c); [apply N.leb_gt; exact Hql|reflexivity]. }
  destruct Hf as [Hc Hs].
  assert (Hfin : forall cx rel, c_pid cx = c_pid c -> c_status cx = c_status c -> c_auto_pub cx = c_auto_pub c -> c_version cx = c_version c ->
            c_mps_send cx = c_mps_send c ->
            mem (k_pid p) (if q =? 2 then c_pubrec cx else c_puback cx) = true ->
            c_send_max cx = c_send_max c ->
            c_send_count cx = (match c_send_max c with Some _ => c_send_count c + 1 | None => c_send_count c end) ->
            OR g c (send_and_post cx p rel ([] ++ [])) ->
            match send_and_post cx p rel ([] ++ []) with
            | Ok (c1, e1) => In p (sends e1) /\ OWN g c1 /\ ready5 c1 /\ is_used c1 (k_pid p) = true /\ c_auto_pub c1 = c_auto_pub c /\
                             c_mps_send c1 = c_mps_send c /\
                             mem (k_pid p) (if q =? 2 then c_pubrec c1 else c_puback c1) = true /\
                             c_send_max c1 = c_send_max c /\
                             c_send_count c1 = (match c_send_max c with Some _ => c_send_count c + 1 | None => c_send_count c end)
            | Panic _ => False end).
  { intros cx rel Hp Hst Ha Hvx Hmp Hm Hsm Hsc Hor. unfold send_and_post in *. pose proof (post_keeps cx) as K. cbv zeta in K.
    assert (Kmp : c_mps_send (fst (send_post_process cx)) = c_mps_send cx /\ c_send_max (fst (send_post_process cx)) = c_send_max cx /\
                  c_send_count (fst (send_post_process cx)) = c_send_count cx)
      by (unfold send_post_process; destruct (c_is_client cx); [destruct (0 <? _)|]; repeat split).
    destruct Kmp as (Kmp & Ksm & Ksc).
    destruct (send_post_process cx) as [c1 e]. cbn [fst OR] in *. destruct K as (F & K1 & K2 & _). destruct Hor as [O1 _].
    split; [cbn; now left|]. split; [exact O1|]. split; [split; [destruct F as (_ & _ & _ & _ & _ & _ & _ & F); congruence|rewrite K1, Hst; exact Rs]|].
    split; [unfold is_used in *; destruct F as (F & _); now rewrite F, Hp|]. split; [congruence|]. split; [congruence|].
    destruct F as (_ & _ & F3 & F4 & _). split; [destruct (q =? 2); [now rewrite F4|now rewrite F3]|]. split; congruence. }
  assert (Hkp : k_pid (set_dup (remove_topic_alias g p) true) = k_pid p) by reflexivity.
  rewrite Hq in *.
  destruct (can_store_now c) eqn:Ec.
  - unfold store_add in *. rewrite Hkp, Hs in *. cbn [bindr] in *.
    destruct (N.eqb_spec q 2) as [E2|E2]; conn_simpl; rewrite Hq0 in *; rewrite Rs in *; rewrite Hta in *;
    (destruct (c_auto_map c); [|destruct (c_auto_replace c)]); cbn [bindr] in *; conn_simpl; destruct (c_send_max c) eqn:Esm; conn_simpl;
    rewrite ?Rs in *.
    all: apply Hfin; [reflexivity|reflexivity|reflexivity|reflexivity|reflexivity| |conn_simpl_goal; first [reflexivity|assumption]|reflexivity|exact HOR];
         conn_simpl_goal; unfold mem, ins; rewrite s_mem_insert, N.eqb_refl; reflexivity.
  - cbn [bindr] in *.
    destruct (N.eqb_spec q 2) as [E2|E2]; conn_simpl; rewrite Hq0 in *; rewrite Rs in *; rewrite Hta in *;
    (destruct (c_auto_map c); [|destruct (c_auto_replace c)]); cbn [bindr] in *; conn_simpl; destruct (c_send_max c) eqn:Esm; conn_simpl;
    rewrite ?Rs in *.
    all: apply Hfin; [reflexivity|reflexivity|reflexivity|reflexivity|reflexivity| |conn_simpl_goal; first [reflexivity|assumption]|reflexivity|exact HOR];
         conn_simpl_goal; unfold mem, ins; rewrite s_mem_insert, N.eqb_refl; reflexivity.
Qed.

Definition ack_fits (g : cfg) (c : conn) : Prop := 2 + g_idw g <= c_mps_send c.
Definition recv_quota_left (c : conn) : Prop :=
  match c_recv_max c with Some mx => N.of_nat (length (c_publish_recv c)) < mx | None => True end.

Lemma post_mps c : c_mps_send (fst (send_post_process c)) = c_mps_send c.
Proof. unfold send_post_process; destruct (c_is_client c); [destruct (0 <? _)|]; reflexivity. Qed.
Lemma refresh_mps c : c_mps_send (fst (refresh_pingreq_recv c)) = c_mps_send c.
Proof. unfold refresh_pingreq_recv. destruct (negb _); reflexivity. Qed.

(* an acknowledgement without reason code that the library generates on an established v5.0 connection *)
Lemma auto_ack_sent5 g c t id : ready5 c -> ack_fits g c -> t = T_PUBACK \/ t = T_PUBREC \/ t = T_PUBCOMP ->
  match send_puback_like c (ack_pkt g t V50 id None) with
  | Ok (c1, e) => sends e = [ack_pkt g t V50 id None] /\ notifies e = [] /\ F8 c1 c /\ c_status c1 = c_status c /\
                  c_auto_pub c1 = c_auto_pub c /\ c_qos2 c1 = c_qos2 c /\ c_mps_send c1 = c_mps_send c
  | Panic _ => False
  end.
Proof.
  intros [Rv Rs] Hfit Ht. unfold send_puback_like. change (k_ver (ack_pkt g t V50 id None)) with V50. cbn [version_eqb andb].
  assert (Hsz : size_ok c (ack_pkt g t V50 id None) = true) by (unfold size_ok; apply N.leb_le; exact Hfit).
  rewrite Hsz, Rs. cbn [negb].
  change (k_rc_present (ack_pkt g t V50 id None)) with false. change (k_type (ack_pkt g t V50 id None)) with t. rewrite !andb_false_r.
  match goal with |- context [send_and_post ?x _ _ _] => set (cx := x) end.
  assert (Hx : F8 cx c /\ c_status cx = c_status c /\ c_auto_pub cx = c_auto_pub c /\ c_qos2 cx = c_qos2 c /\ c_mps_send cx = c_mps_send c).
  { unfold cx. destruct (_ || _); repeat split. }
  destruct Hx as (Fx & X1 & X2 & X3 & X4). clearbody cx.
  unfold send_and_post. pose proof (post_keeps cx) as K. pose proof (post_silent cx) as ((S1 & _ & S3) & _). pose proof (post_mps cx) as Km. cbv zeta in K.
  destruct (send_post_process cx) as [c1 e]. cbn [fst snd] in *. destruct K as (F & K1 & K2 & K3 & _).
  rewrite !sends_app', !notifies_app, S1, S3. cbn. split; [reflexivity|]. split; [reflexivity|]. split; [exact (f8_trans _ _ _ F Fx)|].
  repeat split; congruence.
Qed.

(* the receiver, QoS 1, automatic responses: notified once, PUBACK requested *)
Lemma receiver_q1_5 g c p : ready5 c -> c_auto_pub c = true -> v5_pub p 1 -> recv_quota_left c -> ack_fits g c ->
  match deliver g c p with
  | Ok (c1, e) => notifies e = [p] /\ In (ack_pkt g T_PUBACK V50 (k_pid p) None) (sends e)
  | Panic _ => False
  end.
Proof.
  intros [Rv Rs] Ha (Ht & Hv & Hq & Hte & Hal) Hrq Hfit. unfold deliver, dispatch_recv. rewrite Ht, Rv.
  change (T_PUBLISH =? 1) with false. change (T_PUBLISH =? 2) with false. change (T_PUBLISH =? 3) with true. cbn [version_eqb]. cbv iota.
  unfold recv_publish_v5. cbv zeta. rewrite Hq. change (1 =? 0) with false. change (1 =? 1) with true. change (1 =? 2) with false. cbn [negb andb].
  assert (Hov : match c_recv_max c with Some mx => mx <=? N.of_nat (length (c_publish_recv c)) | None => false end = false).
  { unfold recv_quota_left in Hrq. destruct (c_recv_max c); [apply N.leb_gt; exact Hrq|reflexivity]. }
  rewrite Hov, Rs, Ha. cbn [andb].
  unfold resolve_recv_alias. rewrite Hte, Hal. cbn [bindr]. unfold note_handled. rewrite Hq. change (1 =? 2) with false. cbv iota.
  set (c0 := note_inbound c p).
  assert (R0 : ready5 c0) by (unfold c0, note_inbound; destruct (negb _); split; assumption).
  assert (F0 : ack_fits g c0) by (unfold c0, note_inbound, ack_fits; destruct (negb _); exact Hfit).
  pose proof (auto_ack_sent5 g c0 T_PUBACK (k_pid p) R0 F0 (or_introl eq_refl)) as H.
  destruct (send_puback_like c0 _) as [[c1 e1]|]; cbn [bindr]; [|destruct H]. destruct H as (H1 & H2 & _).
  pose proof (refresh_silent c1) as ((S1 & _ & S3) & _). destruct (refresh_pingreq_recv c1) as [c2 e2]. cbn [fst snd] in *.
  rewrite !notifies_app, !sends_app', H1, H2, S1, S3. cbn. split; [reflexivity|now left].
Qed.

(* the sender receives the final acknowledgement of kind r for an identifier awaited in that set: released, counted back *)
Lemma sender_final_ack5 g c a (r : N) : OWN g c -> ready5 c -> k_ver a = V50 -> k_type a = r -> (r = T_PUBACK \/ r = T_PUBCOMP) ->
  mem (k_pid a) (if r =? T_PUBACK then c_puback c else c_pubcomp c) = true -> is_used c (k_pid a) = true ->
  match deliver g c a with
  | Ok (c2, e) => In (k_pid a) (released e) /\ is_used c2 (k_pid a) = false /\ store_has (k_pid a) (c_store c2) = false /\
                  mem (k_pid a) (c_puback c2) = false /\ mem (k_pid a) (c_pubrec c2) = false /\ mem (k_pid a) (c_pubcomp c2) = false /\
                  c_send_count c2 = (match c_send_max c with Some _ => c_send_count c - 1 | None => c_send_count c end)
  | Panic _ => False
  end.
Proof.
  intros HO [Rv Rs] Hva Hta Hr Hm Hu. unfold deliver, dispatch_recv. rewrite Hta, Rv.
  set (dec := fun c : conn => match c_send_max c with Some _ => set_send_count c (c_send_count c - 1) | None => c end).
  assert (Hfin : forall c1, OWN g c1 -> fresh c1 (k_pid a) -> is_used c1 (k_pid a) = true -> c_send_max c1 = c_send_max c -> c_send_count c1 = c_send_count c ->
            match bindr (release_if_used c1 (k_pid a)) (fun '(c0, e1) => let '(c3, e2) := refresh_pingreq_recv (dec c0) in Ok (c3, e1 ++ e2 ++ [ENotify a])) with
            | Ok (c2, e) => In (k_pid a) (released e) /\ is_used c2 (k_pid a) = false /\ store_has (k_pid a) (c_store c2) = false /\
                            mem (k_pid a) (c_puback c2) = false /\ mem (k_pid a) (c_pubrec c2) = false /\ mem (k_pid a) (c_pubcomp c2) = false /\
                            c_send_count c2 = (match c_send_max c with Some _ => c_send_count c - 1 | None => c_send_count c end)
            | Panic _ => False end).
  { intros c1 O1 [Hc Hs] U1 Hsm Hsc. unfold release_if_used. rewrite U1. unfold is_used, pm_is_used in U1.
    destruct (release_ok g _ _ (o_wf _ _ _ _ _ _ _ _ _ O1) U1) as (a' & Er & _). rewrite Er. cbn [bindr].
    destruct (release_used_spec g _ _ a' (o_wf _ _ _ _ _ _ _ _ _ O1) U1 Er) as [_ Hrel].
    set (cd := dec (set_pid c1 a')).
    assert (Hd : c_pid cd = a' /\ c_store cd = c_store c1 /\ c_puback cd = c_puback c1 /\ c_pubrec cd = c_pubrec c1 /\ c_pubcomp cd = c_pubcomp c1 /\
                 c_send_count cd = (match c_send_max c with Some _ => c_send_count c - 1 | None => c_send_count c end)).
    { unfold cd, dec. conn_simpl_goal. rewrite Hsm. destruct (c_send_max c); conn_simpl_goal; rewrite ?Hsc; repeat split. }
    destruct Hd as (D1 & D2 & D3 & D4 & D5 & D6). clearbody cd.
    pose proof (refresh_keeps cd) as K. cbv zeta in K.
    assert (Kc : c_send_count (fst (refresh_pingreq_recv cd)) = c_send_count cd) by (unfold refresh_pingreq_recv; destruct (negb _); reflexivity).
    destruct (refresh_pingreq_recv cd) as [c3 e2]. cbn [fst] in *.
    destruct K as ((F1 & F2 & F3 & F4 & F5 & _) & _).
    destruct (cnt_zero _ _ _ _ _ (k_pid a) Hc) as (Z1 & Z2 & Z3 & _).
    split; [cbn; now left|]. split; [unfold is_used, pm_is_used; rewrite F1, D1, Hrel, N.eqb_refl; apply andb_false_r|].
    split; [now rewrite F2, D2|]. split; [now rewrite F3, D3|]. split; [now rewrite F4, D4|]. split; [now rewrite F5, D5|congruence]. }
  destruct Hr as [-> | ->].
  - change (T_PUBACK =? 1) with false. change (T_PUBACK =? 2) with false. change (T_PUBACK =? 3) with false.
    change ((T_PUBACK =? 4) || (T_PUBACK =? 5) || (T_PUBACK =? 7) || (T_PUBACK =? 9) || (T_PUBACK =? 11)) with true. cbv iota.
    unfold recv_ack. cbv zeta. change (T_PUBACK =? T_PUBACK) with true in *. cbv iota in *. rewrite Hm. cbn [version_eqb].
    destruct (ack_PA_own g c (k_pid a) HO Hm) as (O1 & Fr & _). cbv zeta in O1, Fr. rewrite Rv in O1, Fr.
    apply (Hfin _ O1 Fr); [unfold is_used, store_erase in *; conn_simpl_goal; exact Hu|reflexivity|reflexivity].
  - change (T_PUBCOMP =? 1) with false. change (T_PUBCOMP =? 2) with false. change (T_PUBCOMP =? 3) with false.
    change ((T_PUBCOMP =? 4) || (T_PUBCOMP =? 5) || (T_PUBCOMP =? 7) || (T_PUBCOMP =? 9) || (T_PUBCOMP =? 11)) with true. cbv iota.
    unfold recv_ack. cbv zeta. change (T_PUBCOMP =? T_PUBACK) with false in *. change (T_PUBCOMP =? T_PUBREC) with false. change (T_PUBCOMP =? T_PUBCOMP) with true.
    cbv iota in *. rewrite Hm. cbn [version_eqb].
    destruct (ack_PC_own g c (k_pid a) HO Hm) as (O1 & Fr & _). cbv zeta in O1, Fr. rewrite Rv in O1, Fr.
    apply (Hfin _ O1 Fr); [unfold is_used, store_erase in *; conn_simpl_goal; exact Hu|reflexivity|reflexivity].
Qed.

Definition puback5_for (g : cfg) (p : pkt) : pkt := ack_pkt g T_PUBACK V50 (k_pid p) None.

(* ---- QoS 1 on v5.0, with the Receive Maximum account: the slot taken by the PUBLISH is given back by the PUBACK ---- *)
Theorem qos1_completes5 gs gr cs cr p :
  OWN gs cs -> ready5 cs -> v5_pub p 1 -> fresh cs (k_pid p) -> is_used cs (k_pid p) = true ->
  size_ok cs p = true -> c_ta_send cs = None -> quota_left cs ->
  ready5 cr -> c_auto_pub cr = true -> recv_quota_left cr -> ack_fits gr cr ->
  exists cs1 e1 cr1 e2 cs2 e3,
    send_publish_v5 gs cs p = Ok (cs1, e1) /\ In p (sends e1) /\
    deliver gr cr p = Ok (cr1, e2) /\ notifies e2 = [p] /\ In (puback5_for gr p) (sends e2) /\
    deliver gs cs1 (puback5_for gr p) = Ok (cs2, e3) /\ In (k_pid p) (released e3) /\
    is_used cs2 (k_pid p) = false /\ store_has (k_pid p) (c_store cs2) = false /\
    mem (k_pid p) (c_puback cs2) = false /\ mem (k_pid p) (c_pubrec cs2) = false /\ mem (k_pid p) (c_pubcomp cs2) = false /\
    c_send_count cs2 = c_send_count cs.
Proof.
  intros HO Rs Hp Hf Hu Hsz Hta Hql Rr Ha Hrq Hfit.
  pose proof (sender_sends5 gs cs p 1 HO Rs Hp ltac:(lia) Hf Hu Hsz Hta Hql) as H1.
  destruct (send_publish_v5 gs cs p) as [[cs1 e1]|] eqn:E1; [|destruct H1]. destruct H1 as (S1 & O1 & R1 & U1 & _ & _ & M1 & SM1 & SC1).
  change (1 =? 2) with false in M1. cbv iota in M1.
  pose proof (receiver_q1_5 gr cr p Rr Ha Hp Hrq Hfit) as H2.
  destruct (deliver gr cr p) as [[cr1 e2]|] eqn:E2; [|destruct H2]. destruct H2 as (N2 & S2).
  pose proof (sender_final_ack5 gs cs1 (puback5_for gr p) T_PUBACK O1 R1 eq_refl eq_refl (or_introl eq_refl)) as H3.
  change (T_PUBACK =? T_PUBACK) with true in H3. cbv iota in H3. change (k_pid (puback5_for gr p)) with (k_pid p) in H3.
  specialize (H3 M1 U1).
  destruct (deliver gs cs1 (puback5_for gr p)) as [[cs2 e3]|] eqn:E3; [|destruct H3].
  destruct H3 as (A1 & A2 & A3 & A4 & A5 & A6 & A7).
  exists cs1, e1, cr1, e2, cs2, e3. repeat split; try reflexivity; try assumption.
  rewrite A7, SM1, SC1. destruct (c_send_max cs); lia.
Qed.

(* ---- QoS 2 on v5.0 ---- *)
Lemma receiver_q2_5 g c p : ready5 c -> c_auto_pub c = true -> v5_pub p 2 -> mem (k_pid p) (c_qos2 c) = false ->
  recv_quota_left c -> ack_fits g c ->
  match deliver g c p with
  | Ok (c1, e) => notifies e = [p] /\ In (ack_pkt g T_PUBREC V50 (k_pid p) None) (sends e) /\
                  ready5 c1 /\ c_auto_pub c1 = true /\ mem (k_pid p) (c_qos2 c1) = true /\ ack_fits g c1
  | Panic _ => False
  end.
Proof.
  intros [Rv Rs] Ha (Ht & Hv & Hq & Hte & Hal) Hn Hrq Hfit. unfold deliver, dispatch_recv. rewrite Ht, Rv.
  change (T_PUBLISH =? 1) with false. change (T_PUBLISH =? 2) with false. change (T_PUBLISH =? 3) with true. cbn [version_eqb]. cbv iota.
  unfold recv_publish_v5. cbv zeta. rewrite Hq. change (2 =? 0) with false. change (2 =? 1) with false. change (2 =? 2) with true. cbn [negb andb].
  assert (Hov : match c_recv_max c with Some mx => mx <=? N.of_nat (length (c_publish_recv c)) | None => false end = false).
  { unfold recv_quota_left in Hrq. destruct (c_recv_max c); [apply N.leb_gt; exact Hrq|reflexivity]. }
  rewrite Hov, Rs, Ha, Hn. cbn [andb orb].
  unfold resolve_recv_alias. rewrite Hte, Hal. cbn [bindr]. unfold note_handled. rewrite Hq. change (2 =? 2) with true. cbv iota.
  set (c0 := set_qos2 (note_inbound c p) (ins (k_pid p) (c_qos2 (note_inbound c p)))).
  assert (Q0 : c_qos2 (note_inbound c p) = c_qos2 c) by (unfold note_inbound; destruct (negb _); reflexivity).
  assert (R0 : ready5 c0) by (unfold c0, note_inbound; destruct (negb _); split; assumption).
  assert (F0 : ack_fits g c0) by (unfold c0, note_inbound, ack_fits; destruct (negb _); exact Hfit).
  assert (A0 : c_auto_pub c0 = true) by (unfold c0, note_inbound; destruct (negb _); exact Ha).
  pose proof (auto_ack_sent5 g c0 T_PUBREC (k_pid p) R0 F0 (or_intror (or_introl eq_refl))) as H.
  destruct (send_puback_like c0 _) as [[c1 e1]|]; cbn [bindr]; [|destruct H]. destruct H as (H1 & H2 & F & K1 & K2 & K3 & K4).
  pose proof (refresh_silent c1) as ((S1 & _ & S3) & _). pose proof (refresh_keeps c1) as K. pose proof (refresh_mps c1) as Km. cbv zeta in K.
  destruct (refresh_pingreq_recv c1) as [c2 e2]. cbn [fst snd] in *. destruct K as (F' & K1' & K2' & K3').
  rewrite !notifies_app, !sends_app', H1, H2, S1, S3. cbn. split; [reflexivity|]. split; [now left|].
  split; [destruct R0 as [R01 R02]; split; [destruct F as (_ & _ & _ & _ & _ & _ & _ & F), F' as (_ & _ & _ & _ & _ & _ & _ & F'); congruence|rewrite K1', K1; exact R02]|].
  split; [rewrite K2', K2; exact A0|]. split; [rewrite K3', K3; unfold c0; conn_simpl_goal; unfold mem, ins; rewrite s_mem_insert, N.eqb_refl; reflexivity|].
  unfold ack_fits in *. rewrite Km, K4. exact F0.
Qed.

Lemma post_count c : c_send_max (fst (send_post_process c)) = c_send_max c /\ c_send_count (fst (send_post_process c)) = c_send_count c.
Proof. unfold send_post_process; destruct (c_is_client c); [destruct (0 <? _)|]; split; reflexivity. Qed.
Lemma refresh_count c : c_send_max (fst (refresh_pingreq_recv c)) = c_send_max c /\ c_send_count (fst (refresh_pingreq_recv c)) = c_send_count c.
Proof. unfold refresh_pingreq_recv. destruct (negb _); split; reflexivity. Qed.

Lemma post_then_refresh5 cx p rel a :
  match bindr (send_and_post cx p rel []) (fun '(c, e1) => let '(c0, e2) := refresh_pingreq_recv c in Ok (c0, e1 ++ e2 ++ [ENotify a])) with
  | Ok (c2, e) => In p (sends e) /\ F8 c2 cx /\ c_status c2 = c_status cx /\ c_send_max c2 = c_send_max cx /\ c_send_count c2 = c_send_count cx
  | Panic _ => False
  end.
Proof.
  unfold send_and_post. pose proof (post_keeps cx) as K. pose proof (post_count cx) as Kc. cbv zeta in K.
  destruct (send_post_process cx) as [c1 e1]. cbn [fst bindr] in *.
  pose proof (refresh_keeps c1) as K'. pose proof (refresh_count c1) as Kc'. cbv zeta in K'. destruct (refresh_pingreq_recv c1) as [c2 e2]. cbn [fst] in *.
  destruct K as (F & K1 & _), K' as (F' & K1' & _), Kc as [C1 C2], Kc' as [C1' C2'].
  split; [rewrite !sends_app'; cbn; now left|]. split; [exact (f8_trans _ _ _ F' F)|]. repeat split; congruence.
Qed.

Lemma sender_pubrec5 g c a : OWN g c -> ready5 c -> c_auto_pub c = true -> ack_fits g c -> k_ver a = V50 -> k_type a = T_PUBREC ->
  k_rc_present a = false -> mem (k_pid a) (c_pubrec c) = true -> is_used c (k_pid a) = true ->
  match deliver g c a with
  | Ok (c2, e) => In (ack_pkt g T_PUBREL V50 (k_pid a) None) (sends e) /\ OWN g c2 /\ ready5 c2 /\
                  is_used c2 (k_pid a) = true /\ mem (k_pid a) (c_pubcomp c2) = true /\
                  c_send_max c2 = c_send_max c /\ c_send_count c2 = c_send_count c
  | Panic _ => False
  end.
Proof.
  intros HO [Rv Rs] Ha Hfit Hva Hta Hrc Hm Hu.
  pose proof (recv_ack_OR g c T_PUBREC (PROk a) HO) as HOR.
  unfold deliver, dispatch_recv. rewrite Hta, Rv in *.
  change (T_PUBREC =? 1) with false. change (T_PUBREC =? 2) with false. change (T_PUBREC =? 3) with false.
  change ((T_PUBREC =? 4) || (T_PUBREC =? 5) || (T_PUBREC =? 7) || (T_PUBREC =? 9) || (T_PUBREC =? 11)) with true. cbv iota.
  unfold recv_ack in *. cbv zeta in *. change (T_PUBREC =? T_PUBACK) with false in *. change (T_PUBREC =? T_PUBREC) with true in *.
  cbv iota in *. rewrite Hm, Hrc in *. cbn [version_eqb negb orb] in *.
  destruct (ack_PB_own g c (k_pid a) HO Hm) as (O1 & [Hc Hs] & _). cbv zeta in *. rewrite Rv in *.
  set (c1 := store_erase _ V50 T_PUBREC (k_pid a)) in *.
  assert (A1 : c_auto_pub c1 = true) by exact Ha.
  assert (A2 : c_status c1 = c_status c) by reflexivity.
  assert (A3 : is_used c1 (k_pid a) = true) by exact Hu.
  assert (A5 : size_ok c1 (ack_pkt g T_PUBREL V50 (k_pid a) None) = true) by (unfold size_ok; apply N.leb_le; exact Hfit).
  rewrite A1, A2, Rs in *. cbn [andb] in *.
  unfold send_pubrel in *. cbv zeta in *.
  change (k_ver (ack_pkt g T_PUBREL V50 (k_pid a) None)) with V50 in *. change (k_pid (ack_pkt g T_PUBREL V50 (k_pid a) None)) with (k_pid a) in *.
  rewrite A5 in *. cbn [version_eqb andb negb] in *. rewrite A2, Rs, A3 in *. cbn [negb andb] in *.
  assert (Hfin : forall cx, c_pid cx = c_pid c1 -> c_status cx = c_status c -> c_version cx = V50 -> mem (k_pid a) (c_pubcomp cx) = true ->
     c_send_max cx = c_send_max c -> c_send_count cx = c_send_count c ->
     forall r, r = bindr (send_and_post cx (ack_pkt g T_PUBREL V50 (k_pid a) None) None [])
                     (fun '(c0, e1) => let '(c2, e2) := refresh_pingreq_recv c0 in Ok (c2, e1 ++ e2 ++ [ENotify a])) ->
     OR g c r ->
     match r with
     | Ok (c2, e) => In (ack_pkt g T_PUBREL V50 (k_pid a) None) (sends e) /\ OWN g c2 /\ ready5 c2 /\
                     is_used c2 (k_pid a) = true /\ mem (k_pid a) (c_pubcomp c2) = true /\
                     c_send_max c2 = c_send_max c /\ c_send_count c2 = c_send_count c
     | Panic _ => False end).
  { intros cx Hp Hst Hvx Hmx Hsm Hsc r Er Hor. pose proof (post_then_refresh5 cx (ack_pkt g T_PUBREL V50 (k_pid a) None) None a) as K.
    rewrite <- Er in K. clear Er. destruct r as [[c2 e]|]; [|exact K]. destruct K as (K1 & F & K2 & K3 & K4). destruct Hor as [O2 _].
    split; [exact K1|]. split; [exact O2|]. destruct F as (F1 & _ & _ & _ & F5 & _ & _ & F8v).
    split; [split; [congruence|rewrite K2, Hst; exact Rs]|]. split; [unfold is_used in *; rewrite F1, Hp; exact A3|].
    split; [now rewrite F5|]. split; congruence. }
  destruct (c_need_store c1) eqn:En.
  - unfold store_add in *. change (k_pid (ack_pkt g T_PUBREL V50 (k_pid a) None)) with (k_pid a) in *. rewrite Hs in *. cbn [bindr] in HOR |- *.
    conn_simpl. rewrite A2, Rs in *.
    eapply Hfin; [..|reflexivity|exact HOR]; try reflexivity; try exact Rv; conn_simpl_goal; unfold mem, ins; rewrite s_mem_insert, N.eqb_refl; reflexivity.
  - cbn [bindr] in HOR |- *. conn_simpl. rewrite A2, Rs in *.
    eapply Hfin; [..|reflexivity|exact HOR]; try reflexivity; try exact Rv; conn_simpl_goal; unfold mem, ins; rewrite s_mem_insert, N.eqb_refl; reflexivity.
Qed.

(* the receiver gets the PUBREL of a message it holds as handled: notified, PUBCOMP (no reason code) requested *)
Lemma receiver_pubrel5 g c a : ready5 c -> c_auto_pub c = true -> ack_fits g c -> k_type a = T_PUBREL -> mem (k_pid a) (c_qos2 c) = true ->
  match deliver g c a with
  | Ok (c1, e) => notifies e = [a] /\ In (ack_pkt g T_PUBCOMP V50 (k_pid a) None) (sends e)
  | Panic _ => False
  end.
Proof.
  intros [Rv Rs] Ha Hfit Ht Hm. unfold deliver, dispatch_recv. rewrite Ht, Rv.
  change (T_PUBREL =? 1) with false. change (T_PUBREL =? 2) with false. change (T_PUBREL =? 3) with false.
  change ((T_PUBREL =? 4) || (T_PUBREL =? 5) || (T_PUBREL =? 7) || (T_PUBREL =? 9) || (T_PUBREL =? 11)) with false.
  change (T_PUBREL =? 6) with true. cbv iota. unfold recv_pubrel. cbv zeta. rewrite Hm.
  set (c0 := set_qos2 c (del (k_pid a) (c_qos2 c))).
  assert (R0 : ready5 c0) by (split; [exact Rv|exact Rs]).
  assert (F0 : ack_fits g c0) by exact Hfit.
  change (c_auto_pub c0) with (c_auto_pub c). change (c_status c0) with (c_status c). rewrite Rs, Ha. cbn [andb version_eqb negb].
  pose proof (auto_ack_sent5 g c0 T_PUBCOMP (k_pid a) R0 F0 (or_intror (or_intror eq_refl))) as H.
  destruct (send_puback_like c0 _) as [[c1 e1]|]; cbn [bindr]; [|destruct H]. destruct H as (H1 & H2 & _).
  pose proof (refresh_silent c1) as ((S1 & _ & S3) & _). destruct (refresh_pingreq_recv c1) as [c2 e2]. cbn [fst snd] in *.
  rewrite !notifies_app, !sends_app', H1, H2, S1, S3. cbn. split; [reflexivity|now left].
Qed.

Definition pubrec5_for (g : cfg) (p : pkt) : pkt := ack_pkt g T_PUBREC V50 (k_pid p) None.
Definition pubrel5_for (g : cfg) (p : pkt) : pkt := ack_pkt g T_PUBREL V50 (k_pid p) None.
Definition pubcomp5_for (g : cfg) (p : pkt) : pkt := ack_pkt g T_PUBCOMP V50 (k_pid p) None.

Theorem qos2_completes5 gs gr cs cr p :
  OWN gs cs -> ready5 cs -> c_auto_pub cs = true -> v5_pub p 2 -> fresh cs (k_pid p) -> is_used cs (k_pid p) = true ->
  size_ok cs p = true -> c_ta_send cs = None -> quota_left cs -> ack_fits gs cs ->
  ready5 cr -> c_auto_pub cr = true -> mem (k_pid p) (c_qos2 cr) = false -> recv_quota_left cr -> ack_fits gr cr ->
  exists cs1 e1 cr1 e2 cs2 e3 cr2 e4 cs3 e5,
    send_publish_v5 gs cs p = Ok (cs1, e1) /\ In p (sends e1) /\
    deliver gr cr p = Ok (cr1, e2) /\ notifies e2 = [p] /\ In (pubrec5_for gr p) (sends e2) /\
    deliver gs cs1 (pubrec5_for gr p) = Ok (cs2, e3) /\ In (pubrel5_for gs p) (sends e3) /\ is_used cs2 (k_pid p) = true /\
    deliver gr cr1 (pubrel5_for gs p) = Ok (cr2, e4) /\ notifies e4 = [pubrel5_for gs p] /\ In (pubcomp5_for gr p) (sends e4) /\
    deliver gs cs2 (pubcomp5_for gr p) = Ok (cs3, e5) /\ In (k_pid p) (released e5) /\
    is_used cs3 (k_pid p) = false /\ store_has (k_pid p) (c_store cs3) = false /\
    mem (k_pid p) (c_puback cs3) = false /\ mem (k_pid p) (c_pubrec cs3) = false /\ mem (k_pid p) (c_pubcomp cs3) = false /\
    c_send_count cs3 = c_send_count cs.
Proof.
  intros HO Rs Has Hp Hf Hu Hsz Hta Hql Hfs Rr Ha Hn Hrq Hfr.
  pose proof (sender_sends5 gs cs p 2 HO Rs Hp ltac:(lia) Hf Hu Hsz Hta Hql) as H1.
  destruct (send_publish_v5 gs cs p) as [[cs1 e1]|] eqn:E1; [|destruct H1]. destruct H1 as (S1 & O1 & R1 & U1 & A1 & MP1 & M1 & SM1 & SC1).
  change (2 =? 2) with true in M1. cbv iota in M1. rewrite Has in A1.
  assert (Hfs1 : ack_fits gs cs1) by (unfold ack_fits in *; rewrite MP1; exact Hfs).
  pose proof (receiver_q2_5 gr cr p Rr Ha Hp Hn Hrq Hfr) as H2.
  destruct (deliver gr cr p) as [[cr1 e2]|] eqn:E2; [|destruct H2]. destruct H2 as (N2 & S2 & Rr1 & Ar1 & Mr1 & Fr1).
  pose proof (sender_pubrec5 gs cs1 (pubrec5_for gr p) O1 R1 A1 Hfs1 eq_refl eq_refl eq_refl M1 U1) as H3.
  change (k_pid (pubrec5_for gr p)) with (k_pid p) in H3.
  destruct (deliver gs cs1 (pubrec5_for gr p)) as [[cs2 e3]|] eqn:E3; [|destruct H3]. destruct H3 as (S3 & O2 & R2 & U2 & M2 & SM2 & SC2).
  pose proof (receiver_pubrel5 gr cr1 (pubrel5_for gs p) Rr1 Ar1 Fr1 eq_refl Mr1) as H4.
  change (k_pid (pubrel5_for gs p)) with (k_pid p) in H4.
  destruct (deliver gr cr1 (pubrel5_for gs p)) as [[cr2 e4]|] eqn:E4; [|destruct H4]. destruct H4 as (N4 & S4).
  pose proof (sender_final_ack5 gs cs2 (pubcomp5_for gr p) T_PUBCOMP O2 R2 eq_refl eq_refl (or_intror eq_refl)) as H5.
  change (T_PUBCOMP =? T_PUBACK) with false in H5. cbv iota in H5. change (k_pid (pubcomp5_for gr p)) with (k_pid p) in H5.
  specialize (H5 M2 U2).
  destruct (deliver gs cs2 (pubcomp5_for gr p)) as [[cs3 e5]|] eqn:E5; [|destruct H5].
  destruct H5 as (B1 & B2 & B3 & B4 & B5 & B6 & B7).
  exists cs1, e1, cr1, e2, cs2, e3, cr2, e4, cs3, e5. repeat split; try reflexivity; try assumption.
  rewrite B7, SM2, SC2, SM1, SC1. destruct (c_send_max cs); lia.
Qed.

(* ---- the tie to the step function ---- *)
Theorem step_send_publish_v5 g c p q : c_version c = V50 -> v5_pub p q ->
  step g c (OSend p) = bindr (send_publish_v5 g c p) (fun '(c', e) => Ok (c', e, [])).
Proof.
  intros Rv (Ht & Hv & _). cbn [step]. cbv zeta. unfold do_send, dispatch_send. cbv zeta. rewrite Rv, Hv, Ht. reflexivity.
Qed.

Theorem step_recv_is_deliver5 g c bytes p hdr body pb' rest :
  feed (c_pb c) bytes = (FComplete hdr body, pb', rest) ->
  hd 0 hdr / 16 = k_type p -> 3 <= k_type p <= 7 ->
  c_version c = V50 ->
  (c_mps_recv c <? remaining_length_to_total_size (N.of_nat (length body))) = false ->
  step g c (ORecv bytes (PROk p)) =
  bindr (deliver g (set_pb c pb') p) (fun '(c', e) => Ok (c', e, [N.of_nat (length rest)])).
Proof.
  intros Hf Hh Ht Rv Hm. cbn [step]. unfold do_recv. rewrite Hf. unfold process_recv_packet. conn_simpl_goal. rewrite Hm, Hh.
  assert (Hc : can_receive g (set_pb c pb') (k_type p) = true).
  { unfold can_receive. cbv zeta.
    assert (E : forall n, n < 3 \/ 7 < n -> (k_type p =? n) = false) by (intros n Hn; apply N.eqb_neq; lia).
    rewrite !E by lia. cbn [orb andb]. destruct (g_role g); reflexivity. }
  rewrite Hc. cbn [negb]. conn_simpl_goal. rewrite Rv. unfold deliver. conn_simpl_goal. rewrite Rv.
  destruct (dispatch_recv g (set_pb c pb') V50 (k_type p) (PROk p)) as [[c' e]|]; reflexivity.
Qed.
