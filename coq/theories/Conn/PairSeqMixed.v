(* C01, model side: ANY NUMBER of exchanges of ANY MIX of QoS 0 / 1 / 2 in sequence between two v3.1.1 endpoints on an
   intact link.  PairSeq.v covers sequences of acknowledged exchanges only and PairQos0.v a single QoS 0 delivery; here a
   QoS 0 publication is one more kind of step of the executable run: no identifier is registered, the packet is handed
   over, notified once, nothing is answered and neither side keeps anything of it — so the pair invariant of PairSeq.v
   is carried through unchanged, and the whole sequence is notified exactly once each, in order. *)
From MQ Require Import Base.Prelude Alloc.Alloc Alloc.SetSpec Alloc.AllocProofs Framing.Framing
                       Conn.Types Conn.TopicAlias Conn.ConnRecord Conn.Step Conn.Run Corr.ConnTrace Conn.Scope Conn.IdsQuota Conn.WfInv
                       Conn.Own Conn.OwnFrame Conn.OwnStep Conn.Qos2Dup Conn.TasBounds Conn.NoPanic Conn.PairQos Conn.PairSeq.

(* ---- the two calls of a QoS 0 delivery, with what the pair invariant needs ---- *)
Lemma sender_q0_x g c p : OWN g c -> ready c -> v311_pub p 0 ->
  match send_publish_v311 c p with
  | Ok (c1, e1) => sends e1 = [p] /\ notifies e1 = [] /\ errors e1 = [] /\ released e1 = [] /\
                   OWN g c1 /\ ready c1 /\ c_auto_pub c1 = c_auto_pub c /\ F8 c1 c /\ c_qos2 c1 = c_qos2 c
  | Panic _ => False
  end.
Proof.
  intros HO [Rv Rs] (Ht & Hv & Hq). unfold send_publish_v311. cbv zeta. rewrite Hq. change (0 =? 0) with true. cbn [negb]. rewrite Rs. cbn [negb].
  pose proof (send_and_post_x c p None) as K. destruct (send_and_post c p None []) as [[c1 e]|]; [|exact K].
  destruct K as (K1 & K2 & K3 & K4 & F & K5 & K6 & K7).
  do 4 (split; [assumption|]). split; [exact (f8_own g c c1 F HO)|].
  split; [apply (ready_f8 c1 c F K5); split; assumption|]. split; [exact K6|]. split; [exact F|exact K7].
Qed.

Lemma receiver_q0_x g c p : ready c -> v311_pub p 0 ->
  match deliver g c p with
  | Ok (c1, e) => notifies e = [p] /\ sends e = [] /\ errors e = [] /\ released e = [] /\
                  ready c1 /\ c_auto_pub c1 = c_auto_pub c /\ c_qos2 c1 = c_qos2 c /\ F8 c1 c
  | Panic _ => False
  end.
Proof.
  intros [Rv Rs] (Ht & Hv & Hq). unfold deliver, dispatch_recv. rewrite Ht, Rv.
  change (T_PUBLISH =? 1) with false. change (T_PUBLISH =? 2) with false. change (T_PUBLISH =? 3) with true. cbn [version_eqb]. cbv iota.
  unfold recv_publish_v311. cbv zeta. rewrite Hq. change (0 =? 0) with true. cbv iota.
  pose proof (refresh_keeps c) as K. pose proof (refresh_quiet c) as Q. cbv zeta in K, Q.
  destruct (refresh_pingreq_recv c) as [c2 e2]. cbn [fst snd] in *.
  destruct K as (F & K2 & K3 & K4), Q as (Q1 & Q2 & Q3 & Q4). ev_simpl. rewrite Q1, Q2, Q3, Q4. cbn.
  do 4 (split; [reflexivity|]). split; [apply (ready_f8 c2 c F K2); split; assumption|]. split; [exact K3|]. split; [exact K4|exact F].
Qed.

Section Mixed.
Variables gs gr : cfg.

(* one QoS 0 message: the application publishes (no identifier), the packet the sender requests is handed to the
   receiver; Fail = anything that is not "requested once, notified once, nothing else" *)
Definition exchange0 (cs cr : conn) (p : pkt) : outcome :=
  match step gs cs (OSend p) with
  | Ok (cs1, e1, _) =>
    match one (sends e1) with
    | Some p1 =>
      if negb (none (notifies e1) && none (errors e1) && none (released e1)) then Fail else
      match deliver gr cr p1 with
      | Ok (cr1, e2) =>
        match one (notifies e2) with
        | Some n1 => if none (sends e2) && none (errors e2) && none (released e2) then Done cs1 cr1 [n1] else Fail
        | None => Fail
        end
      | Panic _ => Fail
      end
    | None => Fail
    end
  | Panic _ => Fail
  end.

Definition exchange_any (cs cr : conn) (p : pkt) : outcome :=
  if k_qos p =? 0 then exchange0 cs cr p else exchange gs gr cs cr p.

Fixpoint run_mixed (cs cr : conn) (ps : list pkt) : outcome :=
  match ps with
  | [] => Done cs cr []
  | p :: t =>
    match exchange_any cs cr p with
    | Done cs' cr' d => match run_mixed cs' cr' t with Done cs'' cr'' d' => Done cs'' cr'' (d ++ d') | o => o end
    | o => o
    end
  end.

(* a QoS 0 delivery never answers AppPre: it has no precondition on the application's side *)
Theorem exchange0_ok cs cr p : pair_inv gs cs cr -> v311_pub p 0 ->
  match exchange0 cs cr p with
  | Done cs' cr' d => d = [p] /\ pair_inv gs cs' cr' /\ F8 cs' cs /\ F8 cr' cr /\ c_qos2 cr' = c_qos2 cr /\ c_qos2 cs' = c_qos2 cs
  | _ => False
  end.
Proof.
  intros (HO & Rs & Has & Rr & Har & Hasc) Hp. unfold exchange0.
  rewrite (step_send_publish_v311 gs cs p 0 (proj1 Rs) Hp).
  pose proof (sender_q0_x gs cs p HO Rs Hp) as H1.
  destruct (send_publish_v311 cs p) as [[cs1 e1]|]; cbn [bindr]; [|destruct H1].
  destruct H1 as (S1 & N1 & X1 & L1 & O1 & R1 & A1 & F1 & Qs1). rewrite S1, N1, X1, L1. cbn [one none andb negb].
  pose proof (receiver_q0_x gr cr p Rr Hp) as H2.
  destruct (deliver gr cr p) as [[cr1 e2]|]; [|destruct H2].
  destruct H2 as (N2 & S2 & X2 & L2 & Rr1 & Ar1 & Q1 & F2). rewrite N2, S2, X2, L2. cbn [one none andb].
  split; [reflexivity|]. split; [|split; [exact F1|split; [exact F2|split; [exact Q1|exact Qs1]]]].
  split; [exact O1|]. split; [exact R1|]. split; [congruence|]. split; [exact Rr1|]. split; [congruence|]. rewrite Q1. exact Hasc.
Qed.

Definition v311_any (p : pkt) : Prop := v311_pub p 0 \/ v311_pub p 1 \/ v311_pub p 2.

Theorem exchange_any_ok cs cr p : pair_inv gs cs cr -> v311_any p ->
  match exchange_any cs cr p with
  | Done cs' cr' d => d = [p] /\ pair_inv gs cs' cr'
  | AppPre => k_qos p <> 0            (* only an acknowledged exchange has a precondition on the application's side *)
  | Fail => False
  end.
Proof.
  intros Hi Hp. unfold exchange_any. destruct Hp as [Hp|[Hp|Hp]].
  - destruct Hp as (Ht & Hv & Hq). rewrite Hq. change (0 =? 0) with true. cbv iota.
    pose proof (exchange0_ok cs cr p Hi (conj Ht (conj Hv Hq))) as H.
    destruct (exchange0 cs cr p) as [cs' cr' d| |]; [|destruct H|destruct H]. destruct H as (H1 & H2 & _). split; assumption.
  - pose proof (exchange_ok gs gr cs cr p 1 Hi Hp (or_introl eq_refl)) as H. destruct Hp as (Ht & Hv & Hq). rewrite Hq. change (1 =? 0) with false. cbv iota.
    destruct (exchange gs gr cs cr p) as [cs' cr' d| |]; [exact H|discriminate|exact H].
  - pose proof (exchange_ok gs gr cs cr p 2 Hi Hp (or_intror eq_refl)) as H. destruct Hp as (Ht & Hv & Hq). rewrite Hq. change (2 =? 0) with false. cbv iota.
    destruct (exchange gs gr cs cr p) as [cs' cr' d| |]; [exact H|discriminate|exact H].
Qed.

(* any number of messages of any mix of QoS levels in sequence: notified exactly once each, in order *)
Theorem run_mixed_ok : forall ps cs cr, pair_inv gs cs cr -> Forall v311_any ps ->
  match run_mixed cs cr ps with
  | Done cs' cr' d => d = ps /\ pair_inv gs cs' cr'
  | AppPre => True
  | Fail => False
  end.
Proof.
  induction ps as [|p t IH]; intros cs cr Hi Hf; cbn [run_mixed]; [split; [reflexivity|exact Hi]|].
  inversion Hf as [|? ? Hp Ht]; subst.
  pose proof (exchange_any_ok cs cr p Hi Hp) as He.
  destruct (exchange_any cs cr p) as [cs' cr' d| |]; [|exact I|exact He]. destruct He as [-> Hi'].
  specialize (IH cs' cr' Hi' Ht). destruct (run_mixed cs' cr' t) as [cs'' cr'' d'| |]; [|exact I|exact IH].
  destruct IH as [-> Hi'']. split; [reflexivity|exact Hi''].
Qed.

(* a sequence of QoS 0 publications alone can never stop on the application's precondition, and leaves the allocator, the
   store, the awaited sets and the receiver's handled identifiers of both endpoints exactly as they were: at most once by
   construction, since there is nothing either side could retransmit from *)
Theorem run_mixed_qos0_only : forall ps cs cr, pair_inv gs cs cr -> Forall (fun p => v311_pub p 0) ps ->
  exists cs' cr', run_mixed cs cr ps = Done cs' cr' ps /\ pair_inv gs cs' cr' /\ F8 cs' cs /\ F8 cr' cr /\ c_qos2 cr' = c_qos2 cr /\ c_qos2 cs' = c_qos2 cs.
Proof.
  induction ps as [|p t IH]; intros cs cr Hi Hf; cbn [run_mixed].
  - exists cs, cr. split; [reflexivity|]. split; [exact Hi|]. split; [apply f8_refl|]. split; [apply f8_refl|]. split; reflexivity.
  - inversion Hf as [|? ? Hp Ht]; subst. unfold exchange_any. destruct Hp as (Ht0 & Hv & Hq). rewrite Hq. change (0 =? 0) with true. cbv iota.
    pose proof (exchange0_ok cs cr p Hi (conj Ht0 (conj Hv Hq))) as H.
    destruct (exchange0 cs cr p) as [cs1 cr1 d| |]; [|destruct H|destruct H]. destruct H as (-> & Hi1 & F1 & F2 & Q1 & Q1s).
    destruct (IH cs1 cr1 Hi1 Ht) as (cs' & cr' & E & Hi' & F1' & F2' & Q' & Q's).
    rewrite E. exists cs', cr'. split; [reflexivity|]. split; [exact Hi'|].
    split; [exact (f8_trans _ _ _ F1' F1)|]. split; [exact (f8_trans _ _ _ F2' F2)|]. split; congruence.
Qed.
End Mixed.
