(* C11 / C17 / C01, pair level: THE TWO GATES ARE DUAL.  Whatever an endpoint in the client role passes to the transport, the
   receive gate of an endpoint in the server (or any) role with the same protocol version lets through, and vice versa: two
   library endpoints never report a protocol error about each other because of the KIND of packet the other sent. *)
From MQ Require Import Base.Prelude Alloc.Alloc Alloc.SetSpec Framing.Framing
                       Conn.Types Conn.TopicAlias Conn.ConnRecord Conn.Step Conn.Run
                       Corr.ConnTrace Spec.MqttRules Mon.MonGate Conn.SendGate Conn.RecvGate.

(* the run-time receive test accepts every kind the rule table lets the peer send *)
Lemma rule_is_can_receive g c t :
  c_version c <> VUndet -> may_receive (g_role g) (c_version c) t = true -> can_receive g c t = true.
Proof.
  intros Hv H.
  assert (Hk : kind_exists (c_version c) t = true).
  { unfold may_receive, role_may_originate in H. destruct (g_role g); try (apply andb_true_iff in H as [H _]); exact H. }
  assert (Hcases : t = 1 \/ t = 2 \/ t = 3 \/ t = 4 \/ t = 5 \/ t = 6 \/ t = 7 \/ t = 8 \/ t = 9 \/ t = 10
                   \/ t = 11 \/ t = 12 \/ t = 13 \/ t = 14 \/ t = 15).
  { unfold kind_exists in Hk. destruct (c_version c); [| |discriminate Hk]; apply andb_true_iff in Hk as [H1 H2]; apply N.leb_le in H1, H2; lia. }
  unfold can_receive. revert H. unfold may_receive, role_may_originate, kind_exists, memn, CLIENT_ONLY, SERVER_ONLY.
  destruct (c_version c) eqn:Ev; [| |contradiction]; destruct (g_role g);
    repeat (destruct Hcases as [->|Hcases]; [vm_compute; intro H; first [reflexivity|discriminate H]|]);
    subst; vm_compute; intro H; first [reflexivity|discriminate H].
Qed.

Definition opposite (rs rr : role) : Prop :=
  (rs = RClient /\ rr <> RClient) \/ (rs = RServer /\ rr <> RServer).

Lemma originate_is_receivable rs rr v t : opposite rs rr -> role_may_originate rs v t = true -> may_receive rr v t = true.
Proof.
  intros [[-> Hn]|[-> Hn]] H; unfold may_receive; destruct rr; try contradiction; try exact H;
    unfold role_may_originate in H; apply andb_true_iff in H as [H _]; exact H.
Qed.

Theorem sent_passes_peer_gate gs gr cs cr p :
  pkt_wf p = true -> opposite (g_role gs) (g_role gr) -> c_version cr = c_version cs -> c_version cs <> VUndet ->
  match do_send gs cs p with
  | Ok (_, e) => sends e <> [] -> can_receive gr cr (k_type p) = true
  | Panic _ => True
  end.
Proof.
  intros Hwf Hop Hv Hnu. pose proof (gate_sound gs cs p Hwf) as Hg.
  destruct (may_send (g_role gs) (c_version cs) (c_status cs) p) eqn:Hms.
  - destruct (do_send gs cs p) as [[c' e]|]; [|exact I]. intros _.
    unfold may_send in Hms. apply andb_true_iff in Hms as [Hms _]. apply andb_true_iff in Hms as [Hve Hro].
    assert (Ek : k_ver p = c_version cs) by (destruct (c_version cs), (k_ver p); try discriminate Hve; reflexivity).
    rewrite Ek in Hro. apply rule_is_can_receive; [congruence|]. rewrite Hv.
    exact (originate_is_receivable _ _ _ _ Hop Hro).
  - specialize (Hg eq_refl). destruct (do_send gs cs p) as [[c' e]|]; [|exact I]. intro Hs. contradiction.
Qed.
