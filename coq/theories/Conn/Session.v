(* Per-call theorems (all states) for C05, C06, C07, C13, C14. *)
From MQ Require Import Base.Prelude Alloc.Alloc Alloc.SetSpec Alloc.AllocProofs Framing.Framing
                       Conn.Types Conn.TopicAlias Conn.ConnRecord Conn.Step Conn.Run Corr.ConnTrace
                       Conn.SendGate Conn.RecvGate.

(* an acknowledgement without reason code that the library generates: nothing is notified and the
   QoS2 handled set is untouched by sending it *)
Lemma send_ack_quiet c p :
  k_rc_present p = false ->
  match send_puback_like c p with
  | Ok (c', e) => notifies e = [] /\ c_qos2 c' = c_qos2 c
  | Panic _ => True
  end.
Proof.
  intro Hrc. unfold send_puback_like, too_large, not_allowed.
  destruct (_ && _); [split; reflexivity|]. destruct (negb _); [split; reflexivity|].
  rewrite Hrc. cbn [andb]. rewrite !andb_false_r.
  match goal with |- match send_and_post ?cc _ _ _ with _ => _ end => assert (Hq : c_qos2 cc = c_qos2 c) by
    (destruct (version_eqb (k_ver p) V50); [destruct (_ || _)|]; reflexivity) end.
  unfold send_and_post.
  match goal with |- context [send_post_process ?cc] =>
    assert (Hp : notifies (snd (send_post_process cc)) = [] /\ c_qos2 (fst (send_post_process cc)) = c_qos2 cc)
      by (unfold send_post_process; destruct (c_is_client cc); [destruct (0 <? _)|]; split; reflexivity);
    destruct (send_post_process cc) as [c2 e2] end.
  cbn [fst snd] in Hp. destruct Hp as [Hp1 Hp2]. split; [cbn; exact Hp1|congruence].
Qed.

(* ================= C14 ================= *)
(* a v5.0 packet larger than the peer's Maximum Packet Size is never passed to the transport,
   whatever its kind and whatever the state *)
Theorem oversize_not_sent g c p :
  k_ver p = V50 -> c_mps_send c < k_size p ->
  match dispatch_send g c p with Ok (_, e) => sends e = [] | Panic _ => True end.
Proof.
  intros Hv Hs.
  assert (Hso : size_ok c p = false) by (unfold size_ok; apply N.leb_gt; exact Hs).
  unfold dispatch_send, not_allowed. rewrite Hv. cbn [version_eqb].
  repeat match goal with |- match (if ?b then _ else _) with _ => _ end => destruct b end;
    unfold send_connect, send_connack, send_publish_v5, send_puback_like, send_pubrel, send_sub_unsub, send_plain,
           send_pingreq, send_disconnect, send_auth, too_large;
    rewrite ?Hv, ?Hso; cbn [version_eqb negb andb]; try reflexivity.
  - (* publish: the identifier is released *)
    destruct (negb (k_pid p =? 0)); [|reflexivity].
    pose proof (release_QS c (k_pid p)) as H. destruct (release_if_used c (k_pid p)) as [[c' e]|]; cbn [bindr]; [|exact I].
    destruct H as [H _]. unfold sends. rewrite flat_map_app. cbn. now apply quiet_sends.
  - pose proof (release_QS c (k_pid p)) as H. destruct (release_if_used c (k_pid p)) as [[c' e]|]; cbn [bindr]; [|exact I].
    destruct H as [H _]. unfold sends. rewrite flat_map_app. cbn. now apply quiet_sends.
Qed.

(* automatic topic-alias rewriting never produces a packet over the limit: the packet handed on
   is either the one given (already checked) or a rewritten one that was checked again *)
Lemma rewritten_within_limit (c : conn) (p q : pkt) :
  k_size p <= c_mps_send c -> k_size (if k_size q <=? c_mps_send c then q else p) <= c_mps_send c.
Proof. intro H. destruct (N.leb_spec (k_size q) (c_mps_send c)); assumption. Qed.

(* what is retransmitted on resume fits the limit; what does not fit is dropped and released *)
Lemma send_stored_events_within mps l :
  forallb (fun e => match e with ESend q _ => k_size q <=? mps | _ => true end) (send_stored_events mps l) = true.
Proof.
  induction l as [|p t IH]; cbn [send_stored_events forallb]; [reflexivity|].
  destruct (mps <? k_size p) eqn:E; cbn [forallb]; [exact IH|].
  apply N.ltb_ge in E. apply andb_true_iff. split; [|exact IH].
  unfold store_into. destruct (k_type p =? T_PUBLISH); cbn [k_size]; now apply N.leb_le.
Qed.

Lemma send_stored_l_kept mps l : forallb (fun q => k_size q <=? mps) (fst (send_stored_l mps l)) = true.
Proof.
  induction l as [|p t IH]; cbn [send_stored_l fst forallb]; [reflexivity|].
  destruct (send_stored_l mps t) as [k d]. cbn [fst] in IH.
  destruct (mps <? k_size p) eqn:E; cbn [fst forallb]; [exact IH|].
  apply N.ltb_ge in E. apply andb_true_iff. split; [now apply N.leb_le|exact IH].
Qed.

(* inbound: a frame larger than the locally announced maximum is never delivered; it is reported
   as 'Packet too large' and the transport is closed (with DISCONNECT 0x95 when it can be sent) *)
Theorem oversize_inbound g c fh body pr :
  c_mps_recv c < remaining_length_to_total_size (N.of_nat (length body)) ->
  match process_recv_packet g c fh body pr with
  | Ok (c', e) => notifies e = [] /\ In (EError E_PACKET_TOO_LARGE) e /\ existsb is_close e = true
                  \/ (status_eqb (c_status c) Connected = true /\ notifies e = [] /\ In (EError E_PACKET_TOO_LARGE) e)
  | Panic _ => False
  end.
Proof.
  intro H. unfold process_recv_packet. apply N.ltb_lt in H. rewrite H.
  destruct (status_eqb (c_status c) Connected) eqn:Es.
  - pose proof (send_disconnect_session c (disconnect_v5 149) E_PACKET_TOO_LARGE) as HS.
    unfold close_with_disconnect. rewrite Es. cbn [andb].
    destruct (negb (size_ok c (disconnect_v5 149))).
    + assert (Hn : notifies (snd (cancel_timers (set_status c Disconnected))) = []).
      { unfold cancel_timers. destruct (c_t_send _); cbn [fst snd];
          match goal with |- context [c_t_recv ?x] => destruct (c_t_recv x) end; cbn [fst snd];
          match goal with |- context [c_t_resp ?x] => destruct (c_t_resp x) end; reflexivity. }
      destruct (cancel_timers _) as [c' e]. cbn [bindr snd] in *. right. split; [reflexivity|]. split.
      * unfold notifies in *. rewrite !flat_map_app, Hn. reflexivity.
      * apply in_or_app. right. now left.
    + destruct (send_disconnect c (disconnect_v5 149)) as [[c' e]|]; cbn [bindr]; [|contradiction].
      right. destruct HS as (_ & H2 & H3). auto.
  - assert (Hn : notifies (snd (cancel_timers (set_status c Disconnected))) = []).
    { unfold cancel_timers. destruct (c_t_send _); cbn [fst snd];
        match goal with |- context [c_t_recv ?x] => destruct (c_t_recv x) end; cbn [fst snd];
        match goal with |- context [c_t_resp ?x] => destruct (c_t_resp x) end; reflexivity. }
    destruct (cancel_timers _) as [c' e]. cbn [snd] in Hn. left. split.
    + unfold notifies in *. rewrite flat_map_app, Hn. reflexivity.
    + split; [apply in_or_app; right; right; now left|]. rewrite existsb_app. cbn. now rewrite orb_true_r.
Qed.

Lemma cancel_timers_keeps c :
  c_ta_send (fst (cancel_timers c)) = c_ta_send c /\ c_ta_recv (fst (cancel_timers c)) = c_ta_recv c /\
  c_status (fst (cancel_timers c)) = c_status c /\ c_pb (fst (cancel_timers c)) = c_pb c.
Proof.
  destruct c. unfold cancel_timers. conn_simpl_goal. destruct c_t_send, c_t_recv, c_t_resp; repeat split.
Qed.

Lemma do_closed_fields c c' e :
  do_closed c = Ok (c', e) ->
  c_ta_send c' = None /\ c_ta_recv c' = None /\ c_status c' = Disconnected /\ c_pb c' = pb_init.
Proof.
  unfold do_closed.
  repeat match goal with
         | |- context [drain_release ?a ?ids] => destruct (drain_release a ids) as [[? ?]|]; cbn [bindr]; [|discriminate]
         | |- (bindr (if ?b then _ else _) _) = _ -> _ => destruct b
         | |- (bindr (Ok _) _) = _ -> _ => cbn [bindr]
         end;
  match goal with |- (let '(_, _) := cancel_timers ?cc in _) = _ -> _ =>
    pose proof (cancel_timers_keeps cc) as H; destruct (cancel_timers cc) as [c2 e2]; cbn [fst] in H end;
  intro E; inversion E; subst; destruct H as (H1 & H2 & H3 & H4); rewrite H1, H2, H3, H4; repeat split.
Qed.

(* ================= C13 ================= *)
(* bindings do not survive the connection *)
Theorem closed_clears_aliases c c' e : do_closed c = Ok (c', e) -> c_ta_send c' = None /\ c_ta_recv c' = None.
Proof. intro H. destruct (do_closed_fields c c' e H) as (H1 & H2 & _). auto. Qed.

(* what is stored for retransmission carries the full topic and no alias, and DUP *)
Lemma stored_form_topic g p :
  k_alias (set_dup (remove_topic_alias g p) true) = None /\ k_dup (set_dup (remove_topic_alias g p) true) = true /\
  k_topic (set_dup (remove_topic_alias g p) true) = k_topic p.
Proof. repeat split. Qed.

Lemma stored_form_alias g p t :
  k_alias (set_dup (remove_topic_alias_add_topic g p t) true) = None /\
  k_dup (set_dup (remove_topic_alias_add_topic g p t) true) = true /\
  k_topic (set_dup (remove_topic_alias_add_topic g p t) true) = t.
Proof. repeat split. Qed.

(* receive side: an aliased PUBLISH is delivered with the topic bound on this connection, or rejected *)
Theorem recv_alias_sound g c p :
  match resolve_recv_alias g c p with
  | Ok (c', q, false, _) =>
      (k_topic p <> [] -> q = p) /\
      (k_topic p = [] -> exists a r t, k_alias p = Some a /\ c_ta_recv c = Some r /\ tar_get r a = Some t /\ k_topic q = t)
  | Ok (_, _, true, e) => In (EError E_TOPIC_ALIAS_INVALID) e
  | Panic _ => True
  end.
Proof.
  unfold resolve_recv_alias, topic_empty. destruct (k_topic p) as [|x t] eqn:Et.
  - destruct (k_alias p) as [a|] eqn:Ea.
    + destruct (alias_out_of_range c a) eqn:Eo.
      * pose proof (handle_error_outcome c V50 E_TOPIC_ALIAS_INVALID) as H. unfold handle_error in H. cbn [version_eqb] in H.
        destruct (handle_v5_error c E_TOPIC_ALIAS_INVALID) as [[c' e]|]; cbn [bindr]; [apply H|exact I].
      * destruct (c_ta_recv c) as [r|] eqn:Er.
        -- destruct (tar_get r a) as [tp|] eqn:Eg.
           ++ split; [intro H; contradiction|]. intros _. exists a, r, tp. repeat split; auto.
           ++ pose proof (handle_error_outcome c V50 E_TOPIC_ALIAS_INVALID) as H. unfold handle_error in H. cbn [version_eqb] in H.
              destruct (handle_v5_error c E_TOPIC_ALIAS_INVALID) as [[c' e]|]; cbn [bindr]; [apply H|exact I].
        -- exfalso. unfold alias_out_of_range in Eo. rewrite Er in Eo. now rewrite orb_true_r in Eo.
    + pose proof (handle_error_outcome c V50 E_TOPIC_ALIAS_INVALID) as H. unfold handle_error in H. cbn [version_eqb] in H.
      destruct (handle_v5_error c E_TOPIC_ALIAS_INVALID) as [[c' e]|]; cbn [bindr]; [apply H|exact I].
  - destruct (k_alias p) as [a|] eqn:Ea.
    + destruct (alias_out_of_range c a).
      * pose proof (handle_error_outcome c V50 E_TOPIC_ALIAS_INVALID) as H. unfold handle_error in H. cbn [version_eqb] in H.
        destruct (handle_v5_error c E_TOPIC_ALIAS_INVALID) as [[c' e]|]; cbn [bindr]; [apply H|exact I].
      * destruct (c_ta_recv c) as [r|]; [|split; [reflexivity|discriminate]].
        destruct (tar_insert r (x :: t) a); cbn [bindr]; [|exact I]. split; [reflexivity|discriminate].
    + split; [reflexivity|discriminate].
Qed.

(* sending a PUBCOMP never touches the QoS2 handled set *)
Lemma send_puback_like_qos2_pubcomp c p :
  k_type p = T_PUBCOMP ->
  match send_puback_like c p with Ok (c', _) => c_qos2 c' = c_qos2 c | Panic _ => True end.
Proof.
  intro Ht. unfold send_puback_like, too_large, not_allowed.
  destruct (_ && _); [reflexivity|]. destruct (negb _); [reflexivity|].
  rewrite Ht. change (T_PUBCOMP =? T_PUBACK) with false. change (T_PUBCOMP =? T_PUBCOMP) with true.
  change (T_PUBCOMP =? T_PUBREC) with false. cbn [orb andb].
  unfold send_and_post.
  match goal with |- context [send_post_process ?cc] =>
    assert (Hp : c_qos2 (fst (send_post_process cc)) = c_qos2 cc)
      by (unfold send_post_process; destruct (c_is_client cc); [destruct (0 <? _)|]; reflexivity);
    destruct (send_post_process cc) as [c2 e2] end.
  cbn [fst] in Hp. rewrite Hp. destruct (version_eqb (k_ver p) V50); reflexivity.
Qed.

(* ================= C07 ================= *)
(* a retransmission of an already notified QoS 2 PUBLISH is not notified again (v3.1.1) *)
Theorem qos2_dup_not_notified_v311 g c p :
  k_qos p = 2 -> mem (k_pid p) (c_qos2 c) = true ->
  match recv_publish_v311 g c (PROk p) with
  | Ok (c', e) => notifies e = [] /\ mem (k_pid p) (c_qos2 c') = true
  | Panic _ => True
  end.
Proof.
  intros Hq Hm. unfold recv_publish_v311. rewrite Hq. change (2 =? 0) with false. change (2 =? 1) with false. cbv iota.
  rewrite Hm, orb_true_r.
  assert (Hins : forall l x, mem x l = true -> mem x (ins x l) = true).
  { intros l x H. unfold mem, ins. rewrite s_mem_insert, N.eqb_refl. reflexivity. }
  destruct (status_eqb _ _); cbn [andb].
  - pose proof (send_ack_quiet (set_qos2 c (ins (k_pid p) (c_qos2 c))) (ack_pkt g T_PUBREC V311 (k_pid p) None) eq_refl) as HS.
    destruct (send_puback_like _ _) as [[c1 e1]|]; cbn [bindr]; [|exact I].
    destruct HS as [Hn Hq2]. destruct (refresh_pingreq_recv c1) as [c2 e2] eqn:Er.
    assert (Hr : notifies e2 = [] /\ c_qos2 c2 = c_qos2 c1).
    { unfold refresh_pingreq_recv in Er. destruct (negb _); inversion Er; subst; split; reflexivity. }
    destruct Hr as [Hr1 Hr2]. split.
    + unfold notifies in *. rewrite !flat_map_app, Hn, Hr1. reflexivity.
    + rewrite Hr2, Hq2. cbn [set_qos2 c_qos2]. now apply Hins.
  - cbn [bindr]. destruct (refresh_pingreq_recv _) as [c2 e2] eqn:Er.
    assert (Hr : notifies e2 = [] /\ c_qos2 c2 = ins (k_pid p) (c_qos2 c)).
    { unfold refresh_pingreq_recv in Er. destruct (negb _); inversion Er; subst; split; reflexivity. }
    destruct Hr as [Hr1 Hr2]. split.
    + unfold notifies in *. rewrite !flat_map_app, Hr1. reflexivity.
    + rewrite Hr2. now apply Hins.
Qed.

(* PUBREL ends the exchange: the next PUBLISH with that identifier is a new message
   (the handled set is a strictly ascending list, which every insertion maintains) *)
Theorem pubrel_forgets g c v p hi :
  asc 0 hi (c_qos2 c) ->
  match recv_pubrel g c v (PROk p) with
  | Ok (c', _) => mem (k_pid p) (c_qos2 c') = false
  | Panic _ => True
  end.
Proof.
  intro Ha. unfold recv_pubrel.
  assert (Hdel : mem (k_pid p) (del (k_pid p) (c_qos2 c)) = false).
  { unfold mem, del. rewrite (s_mem_remove _ _ _ _ _ Ha). rewrite N.eqb_refl. apply andb_false_r. }
  match goal with |- match bindr ?x _ with _ => _ end => destruct x as [[c1 e1]|] eqn:E1; cbn [bindr]; [|exact I] end.
  assert (Hq : c_qos2 c1 = del (k_pid p) (c_qos2 c)).
  { revert E1. destruct (_ && _).
    - intro E.
      match type of E with send_puback_like ?cc ?pp = _ =>
        assert (Hrc : k_rc_present pp = false \/ k_rc_present pp = true) by (destruct (k_rc_present pp); auto);
        pose proof (send_puback_like_qos2_pubcomp cc pp eq_refl) as HS; rewrite E in HS; rewrite HS; reflexivity end.
    - intro E. inversion E. reflexivity. }
  destruct (refresh_pingreq_recv c1) as [c2 e2] eqn:Er.
  assert (Hr : c_qos2 c2 = c_qos2 c1) by (unfold refresh_pingreq_recv in Er; destruct (c_pingreq_recv_to c1 =? 0); cbn [negb] in Er; inversion Er; subst; reflexivity).
  now rewrite Hr, Hq.
Qed.

(* ================= C06 ================= *)
(* an acknowledgement that matches nothing in flight is a protocol error that erases nothing and
   frees no identifier *)
Theorem unmatched_ack_is_error g c v t p :
  (t = T_PUBACK /\ mem (k_pid p) (c_puback c) = false) \/
  (t = T_PUBREC /\ mem (k_pid p) (c_pubrec c) = false) \/
  (t = T_PUBCOMP /\ mem (k_pid p) (c_pubcomp c) = false) ->
  recv_ack g c v t (PROk p) = handle_error c v E_PROTOCOL.
Proof.
  intros [[-> H]|[[-> H]|[-> H]]]; unfold recv_ack; cbv zeta.
  - change (T_PUBACK =? T_PUBACK) with true. cbv iota. now rewrite H.
  - change (T_PUBREC =? T_PUBACK) with false. change (T_PUBREC =? T_PUBREC) with true. cbv iota. now rewrite H.
  - change (T_PUBCOMP =? T_PUBACK) with false. change (T_PUBCOMP =? T_PUBREC) with false.
    change (T_PUBCOMP =? T_PUBCOMP) with true. cbv iota. now rewrite H.
Qed.

(* v3.1.1: an accepted QoS>0 PUBLISH is requested for sending at once or kept in the store *)
Theorem accepted_sent_or_stored_v311 c p :
  (k_qos p =? 0) = false ->
  match send_publish_v311 c p with
  | Ok (c', e) =>
      existsb is_error e = true \/ In p (sends e) \/
      existsb (fun q => k_pid q =? k_pid p) (c_store c') = true
  | Panic _ => True
  end.
Proof.
  intro Hq. unfold send_publish_v311, not_allowed, store_add, can_store_now. rewrite Hq. cbn [negb].
  destruct (status_eqb (c_status c) Connected) eqn:Es; cbn [negb andb].
  - destruct (negb (is_used c (k_pid p))); [left; reflexivity|].
    destruct (c_need_store c && _) eqn:En.
    + destruct (store_has _ _); cbn [bindr]; [exact I|].
      destruct (k_qos p =? 2); cbn [set_pubrec set_puback set_store c_status]; rewrite Es;
        (unfold send_and_post; destruct (send_post_process _) as [c2 e2]; right; left; cbn; now left).
    + cbn [bindr]. destruct (k_qos p =? 2); cbn [set_pubrec set_puback c_status]; rewrite Es;
        (unfold send_and_post; destruct (send_post_process _) as [c2 e2]; right; left; cbn; now left).
  - destruct (c_need_store c && _) eqn:En; cbn [negb].
    + destruct (negb (is_used c (k_pid p))); [left; reflexivity|].
      destruct (store_has _ _) eqn:Eh; cbn [bindr]; [exact I|].
      destruct (k_qos p =? 2); conn_simpl_goal; rewrite Es; cbv iota;
        right; right; conn_simpl_goal; rewrite existsb_app; cbn; rewrite N.eqb_refl; now rewrite orb_true_r.
    + pose proof (release_QS c (k_pid p)) as H. destruct (release_if_used _ _) as [[c1 e1]|]; cbn [bindr]; [|exact I].
      left. reflexivity.
Qed.

(* ================= C05 ================= *)
(* after the transport is reported closed the object is ready for a new connection: status
   Disconnected, no partial frame; a client's CONNECT is then not refused for its state *)
Theorem closed_is_reusable c c' e :
  do_closed c = Ok (c', e) -> c_status c' = Disconnected /\ c_pb c' = pb_init.
Proof. intro H. destruct (do_closed_fields c c' e H) as (_ & _ & H3 & H4). auto. Qed.

Theorem connect_after_close_accepted g c p :
  c_status c = Disconnected -> k_type p = T_CONNECT -> c_version c = k_ver p -> g_role g <> RServer ->
  k_ver p = V311 \/ (k_ver p = V50 /\ k_size p <= c_mps_send c) ->
  match do_send g c p with Ok (_, e) => In p (sends e) | Panic _ => True end.
Proof.
  intros Hs Ht Hv Hr Hsz. unfold do_send. rewrite Hv.
  assert (Hvv : version_eqb (k_ver p) (k_ver p) = true) by (destruct (k_ver p); reflexivity). rewrite Hvv. cbn [negb].
  rewrite Ht. change (T_CONNECT =? T_CONNECT) with true. cbn [orb andb].
  assert (Hc : role_client_ok g = true) by (unfold role_client_ok; destruct (g_role g); try reflexivity; contradiction).
  rewrite Hc. cbn [negb andb].
  change ((T_CONNECT =? T_CONNACK) || (T_CONNECT =? T_SUBACK) || (T_CONNECT =? T_UNSUBACK) || (T_CONNECT =? T_PINGRESP)) with false.
  cbn [andb]. unfold dispatch_send. rewrite Ht. change (T_CONNECT =? T_CONNECT) with true. cbv iota.
  unfold send_connect. rewrite Hs. cbn [status_eqb negb].
  assert (Hok : version_eqb (k_ver p) V50 && negb (size_ok c p) = false).
  { destruct Hsz as [H|[H1 H2]]; [rewrite H; reflexivity|]. rewrite H1. cbn. unfold size_ok. apply N.leb_le in H2. now rewrite H2. }
  rewrite Hok. unfold send_and_post.
  match goal with |- context [send_post_process ?x] => destruct (send_post_process x) as [c2 e2] end.
  cbn. now left.
Qed.
