(* C11 — send gating: proofs about the model, for all states and all packets.
   (1) a packet is passed to the transport only if the MQTT rule table allows it;
   (2) a packet the table forbids (outside the stated store exception) yields only error events
       plus the release of its identifier, and the state is as if the call had not been made. *)
From MQ Require Import Base.Prelude Alloc.Alloc Alloc.SetSpec Framing.Framing
                       Conn.Types Conn.TopicAlias Conn.ConnRecord Conn.Step
                       Corr.ConnTrace Spec.MqttRules Mon.MonGate.

Definition R' := res (conn * list event).

(* the shape of a refusal *)
Definition refusal_ok (c : conn) (p : pkt) (r : R') : Prop :=
  match r with
  | Panic _ => True
  | Ok (c', e) =>
    sends e = [] /\ notifies e = [] /\ existsb is_close e = false /\ errors e <> [] /\
    ((c' = c /\ released e = []) \/
     (exists a, pm_release (c_pid c) (k_pid p) = Ok a /\ c' = set_pid c a /\ is_used c (k_pid p) = true /\
                released e = [k_pid p]))
  end.

Lemma refusal_plain c p x : refusal_ok c p (Ok (c, [EError x])).
Proof. cbn. repeat split; try discriminate. left. split; reflexivity. Qed.

Lemma refusal_release c p x :
  refusal_ok c p (bindr (release_if_used c (k_pid p)) (fun '(c0, e) => Ok (c0, [EError x] ++ e))).
Proof.
  unfold release_if_used. destruct (is_used c (k_pid p)) eqn:Eu; cbn [bindr].
  - destruct (pm_release (c_pid c) (k_pid p)) as [a|] eqn:Er; cbn [bindr refusal_ok]; [|exact I].
    cbn. repeat split; try discriminate. right. exists a. repeat split; auto.
  - apply refusal_plain.
Qed.

(* ---- status facts ---- *)
Lemma status_connected_only s t :
  t <> 1 -> t <> 2 -> t <> 15 -> status_allows s t = false -> negb (status_eqb s Connected) = true.
Proof.
  intros H1 H2 H3. unfold status_allows.
  destruct (N.eqb_spec t 1); [contradiction|]. destruct (N.eqb_spec t 2); [contradiction|].
  destruct (N.eqb_spec t 15); [contradiction|]. intro H. now rewrite H.
Qed.

Lemma status_allows_1 s : status_allows s 1 = status_eqb s Disconnected. Proof. reflexivity. Qed.
Lemma status_allows_2 s : status_allows s 2 = status_eqb s Connecting. Proof. reflexivity. Qed.
Lemma status_allows_15 s : status_allows s 15 = negb (status_eqb s Disconnected). Proof. reflexivity. Qed.

(* ---- (2) refusals ---- *)
Ltac refuse :=
  first [ apply refusal_plain | apply refusal_release ].

Lemma send_connect_refused c p :
  k_type p = 1 -> status_allows (c_status c) 1 = false -> refusal_ok c p (send_connect c p).
Proof.
  intros Ht Hs. unfold send_connect, too_large, not_allowed. rewrite status_allows_1 in Hs.
  destruct (_ && _); [refuse|]. rewrite Hs. cbn [negb]. refuse.
Qed.

Lemma send_connack_refused c p :
  k_type p = 2 -> status_allows (c_status c) 2 = false -> refusal_ok c p (send_connack c p).
Proof.
  intros Ht Hs. unfold send_connack, too_large, not_allowed. rewrite status_allows_2 in Hs.
  destruct (_ && _); [refuse|]. rewrite Hs. cbn [negb]. refuse.
Qed.

Lemma send_plain_refused c p :
  negb (status_eqb (c_status c) Connected) = true -> refusal_ok c p (send_plain c p).
Proof. intro Hs. unfold send_plain, too_large, not_allowed. destruct (_ && _); [refuse|]. rewrite Hs. refuse. Qed.

Lemma send_puback_like_refused c p :
  negb (status_eqb (c_status c) Connected) = true -> refusal_ok c p (send_puback_like c p).
Proof. intro Hs. unfold send_puback_like, too_large, not_allowed. destruct (_ && _); [refuse|]. rewrite Hs. refuse. Qed.

Lemma send_pingreq_refused c p :
  negb (status_eqb (c_status c) Connected) = true -> refusal_ok c p (send_pingreq c p).
Proof. intro Hs. unfold send_pingreq, too_large, not_allowed. destruct (_ && _); [refuse|]. rewrite Hs. refuse. Qed.

Lemma send_disconnect_refused c p :
  negb (status_eqb (c_status c) Connected) = true -> refusal_ok c p (send_disconnect c p).
Proof. intro Hs. unfold send_disconnect, too_large, not_allowed. destruct (_ && _); [refuse|]. rewrite Hs. refuse. Qed.

Lemma send_auth_refused c p :
  status_allows (c_status c) 15 = false -> refusal_ok c p (send_auth c p).
Proof.
  intro Hs. unfold send_auth, too_large, not_allowed. rewrite status_allows_15 in Hs. apply negb_false_iff in Hs.
  destruct (negb (size_ok c p)); [refuse|]. rewrite Hs. refuse.
Qed.

Lemma send_sub_unsub_refused c p :
  negb (status_eqb (c_status c) Connected) = true -> refusal_ok c p (send_sub_unsub c p).
Proof.
  intro Hs. unfold send_sub_unsub, too_large, not_allowed. destruct (_ && _); [refuse|]. rewrite Hs. refuse.
Qed.

Lemma send_pubrel_refused c p :
  negb (status_eqb (c_status c) Connected) = true -> c_need_store c = false -> refusal_ok c p (send_pubrel c p).
Proof.
  intros Hs Hn. unfold send_pubrel, too_large, not_allowed. destruct (_ && _); [refuse|]. rewrite Hs, Hn. refuse.
Qed.

Lemma send_publish_v311_refused c p :
  negb (status_eqb (c_status c) Connected) = true -> ((k_qos p =? 0) = false -> c_need_store c = false) ->
  refusal_ok c p (send_publish_v311 c p).
Proof.
  intros Hs Hn. unfold send_publish_v311, not_allowed, can_store_now.
  destruct (k_qos p =? 0) eqn:Eq; cbn [negb].
  - rewrite Hs. refuse.
  - rewrite Hs, (Hn eq_refl). cbn [andb negb]. refuse.
Qed.

Lemma send_publish_v5_refused g c p :
  negb (status_eqb (c_status c) Connected) = true -> ((k_qos p =? 0) = false -> c_need_store c = false) ->
  refusal_ok c p (send_publish_v5 g c p).
Proof.
  intros Hs Hn. unfold send_publish_v5, too_large, not_allowed, can_store_now.
  destruct (negb (size_ok c p)).
  { destruct (negb (k_pid p =? 0)); refuse. }
  destruct (k_qos p =? 0) eqn:Eq; cbn [negb].
  - rewrite Hs. cbn [bindr]. refuse.
  - rewrite Hs, (Hn eq_refl). cbn [andb negb].
    unfold release_if_used. destruct (is_used c (k_pid p)) eqn:Eu; cbn [bindr].
    + destruct (pm_release (c_pid c) (k_pid p)) as [a|] eqn:Er; cbn [bindr refusal_ok]; [|exact I].
      cbn. repeat split; try discriminate. right. exists a. repeat split; auto.
    + apply refusal_plain.
Qed.

(* the dispatch on the packet type when the state does not allow the kind *)
Lemma dispatch_send_refused g c p :
  status_allows (c_status c) (k_type p) = false ->
  (storable_kind p && c_need_store c) = false ->
  refusal_ok c p (dispatch_send g c p).
Proof.
  intros Hs Hex. unfold dispatch_send, not_allowed.
  destruct (N.eqb_spec (k_type p) T_CONNECT) as [E1|E1].
  { apply send_connect_refused; [exact E1|rewrite E1 in Hs; exact Hs]. }
  destruct (N.eqb_spec (k_type p) T_CONNACK) as [E2|E2].
  { apply send_connack_refused; [exact E2|rewrite E2 in Hs; exact Hs]. }
  (* every later branch except AUTH needs "not connected" *)
  assert (Hc : k_type p <> T_AUTH -> negb (status_eqb (c_status c) Connected) = true).
  { intro E15. exact (status_connected_only _ _ E1 E2 E15 Hs). }
  destruct (N.eqb_spec (k_type p) T_PUBLISH) as [E3|E3].
  { assert (Hn : (k_qos p =? 0) = false -> c_need_store c = false).
    { intro Hq. unfold storable_kind in Hex. rewrite E3, Hq in Hex. exact Hex. }
    assert (Hc' := Hc ltac:(rewrite E3; discriminate)).
    destruct (version_eqb (k_ver p) V50); [now apply send_publish_v5_refused|now apply send_publish_v311_refused]. }
  destruct ((k_type p =? T_PUBACK) || (k_type p =? T_PUBREC) || (k_type p =? T_PUBCOMP)) eqn:E4.
  { apply send_puback_like_refused, Hc. intro H15. rewrite H15 in E4. discriminate E4. }
  destruct (N.eqb_spec (k_type p) T_PUBREL) as [E6|E6].
  { apply send_pubrel_refused; [apply Hc; rewrite E6; discriminate|].
    unfold storable_kind in Hex. rewrite E6 in Hex. exact Hex. }
  destruct ((k_type p =? T_SUBSCRIBE) || (k_type p =? T_UNSUBSCRIBE)) eqn:E8.
  { apply send_sub_unsub_refused, Hc. intro H15. rewrite H15 in E8. discriminate E8. }
  destruct ((k_type p =? T_SUBACK) || (k_type p =? T_UNSUBACK) || (k_type p =? T_PINGRESP)) eqn:E9.
  { apply send_plain_refused, Hc. intro H15. rewrite H15 in E9. discriminate E9. }
  destruct (N.eqb_spec (k_type p) T_PINGREQ) as [E12|E12].
  { apply send_pingreq_refused, Hc. rewrite E12. discriminate. }
  destruct (N.eqb_spec (k_type p) T_DISCONNECT) as [E14|E14].
  { apply send_disconnect_refused, Hc. rewrite E14. discriminate. }
  destruct (N.eqb_spec (k_type p) T_AUTH) as [E15|E15].
  { apply send_auth_refused. rewrite E15 in Hs. exact Hs. }
  apply refusal_plain.
Qed.

(* the role tests of send() are the rule table's *)
Lemma role_tests g p :
  pkt_wf p = true ->
  let t := k_type p in
  let v5 := version_eqb (k_ver p) V50 in
  let client_only := (t =? T_CONNECT) || (t =? T_SUBSCRIBE) || (t =? T_UNSUBSCRIBE) || (t =? T_PINGREQ)
                     || ((t =? T_DISCONNECT) && negb v5) in
  let server_only := (t =? T_CONNACK) || (t =? T_SUBACK) || (t =? T_UNSUBACK) || (t =? T_PINGRESP) in
  role_may_originate (g_role g) (k_ver p) t =
    negb (client_only && negb (role_client_ok g)) && negb (server_only && negb (role_server_ok g)).
Proof.
  intro Hwf. cbv zeta. unfold role_may_originate, kind_exists, role_client_ok, role_server_ok, memn, CLIENT_ONLY, SERVER_ONLY.
  unfold pkt_wf in Hwf. cbn [existsb]. rewrite !orb_false_r.
  unfold T_CONNECT, T_SUBSCRIBE, T_UNSUBSCRIBE, T_PINGREQ, T_DISCONNECT, T_CONNACK, T_SUBACK, T_UNSUBACK, T_PINGRESP.
  rewrite !(N.eqb_sym (k_type p)).
  destruct (k_ver p); try discriminate; rewrite Hwf; cbn [andb version_eqb negb];
    destruct (g_role g); cbn [negb andb orb];
    destruct (1 =? k_type p), (8 =? k_type p), (10 =? k_type p), (12 =? k_type p), (14 =? k_type p),
             (2 =? k_type p), (9 =? k_type p), (11 =? k_type p), (13 =? k_type p); reflexivity.
Qed.

Theorem refused_is_noop g c p :
  pkt_wf p = true ->
  may_send (g_role g) (c_version c) (c_status c) p = false ->
  (storable_kind p && c_need_store c) = false ->
  refusal_ok c p (do_send g c p).
Proof.
  intros Hwf Hms Hex. unfold do_send, not_allowed. unfold may_send in Hms.
  destruct (version_eqb (c_version c) (k_ver p)); cbn [negb andb] in *; [|apply refusal_plain].
  pose proof (role_tests g p Hwf) as Hr. cbv zeta in Hr. rewrite Hr in Hms.
  destruct (_ && negb (role_client_ok g)); cbn [negb andb] in Hms; [apply refusal_plain|].
  destruct (_ && negb (role_server_ok g)); cbn [negb andb] in Hms; [apply refusal_plain|].
  now apply dispatch_send_refused.
Qed.

(* ---- (1) nothing is passed to the transport unless the table allows it ---- *)
Definition quiet (e : list event) : bool := forallb (fun x => negb (is_send x)) e.

Lemma quiet_app a b : quiet (a ++ b) = quiet a && quiet b.
Proof. apply forallb_app. Qed.

Lemma quiet_sends e : quiet e = true -> sends e = [].
Proof.
  induction e as [|x t IH]; cbn [quiet forallb sends flat_map]; intro H; [reflexivity|].
  apply andb_true_iff in H as [Hx Ht]. destruct x; cbn in *; try discriminate; auto.
Qed.

(* helper facts: status unchanged, no send *)
Definition QS (c : conn) (r : R') : Prop :=
  match r with Ok (c', e) => quiet e = true /\ c_status c' = c_status c | Panic _ => True end.

Lemma release_QS c id : QS c (release_if_used c id).
Proof.
  unfold release_if_used. destruct (is_used c id); [|cbn; auto].
  destruct (pm_release _ _); cbn; auto.
Qed.

Lemma refuse_publish_QS c id err pre : quiet pre = true -> QS c (refuse_publish c id err pre).
Proof.
  intro Hp. unfold refuse_publish. destruct (_ && _).
  - destruct (pm_release _ _); cbn [bindr QS]; [|exact I]. rewrite quiet_app, Hp. cbn. auto.
  - cbn. rewrite quiet_app, Hp. cbn. auto.
Qed.

Lemma validate_topic_alias_status c a : c_status (snd (validate_topic_alias c a)) = c_status c.
Proof.
  unfold validate_topic_alias. destruct a as [a|]; [|reflexivity]. destruct (negb _); [reflexivity|].
  destruct (c_ta_send c) as [s|]; [|reflexivity]. destruct (tas_get s a) as [[t|] s']; reflexivity.
Qed.

Lemma send_publish_v311_quiet c p :
  negb (status_eqb (c_status c) Connected) = true ->
  match send_publish_v311 c p with Ok (_, e) => quiet e = true | Panic _ => True end.
Proof.
  intro Hs. unfold send_publish_v311, not_allowed, store_add. apply negb_true_iff in Hs.
  destruct (negb (k_qos p =? 0)); rewrite ?Hs; cbn [negb andb].
  - destruct (negb (can_store_now c)).
    + pose proof (release_QS c (k_pid p)) as H. destruct (release_if_used _ _) as [[c' e]|]; cbn [bindr QS] in *; [|exact I].
      rewrite quiet_app. cbn. apply H.
    + destruct (negb (is_used c (k_pid p))); [reflexivity|].
      destruct (can_store_now c); [destruct (store_has _ _); cbn [bindr]; [exact I|]|cbn [bindr]];
        destruct (k_qos p =? 2); cbn [set_pubrec set_puback set_store c_status]; rewrite Hs; reflexivity.
  - reflexivity.
Qed.

Lemma send_pubrel_quiet c p :
  negb (status_eqb (c_status c) Connected) = true ->
  match send_pubrel c p with Ok (_, e) => quiet e = true | Panic _ => True end.
Proof.
  intro Hs. unfold send_pubrel, too_large, not_allowed, store_add. apply negb_true_iff in Hs.
  destruct (_ && _); [reflexivity|]. rewrite Hs. cbn [negb andb].
  destruct (negb (c_need_store c)); [reflexivity|]. destruct (negb (is_used _ _)); [reflexivity|].
  destruct (c_need_store c); [destruct (store_has _ _); cbn [bindr]; [exact I|]|cbn [bindr]];
    cbn [set_pubcomp set_store c_status]; rewrite Hs; reflexivity.
Qed.

Lemma send_publish_v5_quiet g c p :
  negb (status_eqb (c_status c) Connected) = true ->
  match send_publish_v5 g c p with Ok (_, e) => quiet e = true | Panic _ => True end.
Proof.
  intro Hs. apply negb_true_iff in Hs. unfold send_publish_v5, too_large, not_allowed, store_add.
  destruct (negb (size_ok c p)).
  { destruct (negb (k_pid p =? 0)); [|reflexivity].
    pose proof (release_QS c (k_pid p)) as H. destruct (release_if_used _ _) as [[c' e]|]; cbn [bindr QS] in *; [|exact I].
    rewrite quiet_app. cbn. apply H. }
  match goal with |- match bindr ?part1 _ with _ => _ end => destruct part1 as [[[[[c1 rel] validated] stop] e1]|] eqn:E1; [|exact I] end.
  cbn [bindr].
  assert (He1 : quiet e1 = true /\ c_status c1 = c_status c).
  { revert E1. rewrite Hs. cbn [negb andb].
    repeat match goal with
           | |- context [if ?b then _ else _] => destruct b eqn:?
           | |- context [validate_topic_alias ?cc ?a] =>
               let H := fresh in pose proof (validate_topic_alias_status cc a) as H;
               destruct (validate_topic_alias cc a) as [[?|] ?] eqn:?; cbn [snd] in H
           | |- context [release_if_used ?cc ?id] =>
               let H := fresh in pose proof (release_QS cc id) as H; destruct (release_if_used cc id) as [[? ?]|]; cbn [QS] in H
           | |- context [store_has ?a ?b] => destruct (store_has a b) eqn:?
           | |- _ => progress cbn [bindr]
           end; intro E; try discriminate; inversion E; subst; clear E; rewrite ?quiet_app;
      cbn [quiet forallb is_send negb andb set_pubrec set_puback set_store c_status];
      repeat match goal with H : _ /\ _ |- _ => destruct H end; split; try reflexivity; try assumption; try congruence. }
  destruct He1 as [He1 Hst1].
  destruct stop; [exact He1|].
  match goal with |- match (if ?b then _ else _) with _ => _ end => destruct b end.
  { pose proof (refuse_publish_QS c1 (k_pid p) E_RECEIVE_MAXIMUM_EXCEEDED e1 He1) as H.
    destruct (refuse_publish _ _ _ _) as [[c' e]|]; cbn [QS] in H; [apply H|exact I]. }
  match goal with |- match bindr ?part2 _ with _ => _ end => destruct part2 as [[[[c2 q] stop2] e2]|] eqn:E2; [|exact I] end.
  cbn [bindr].
  assert (He2 : quiet e2 = true /\ c_status c2 = c_status c1).
  { revert E2. rewrite Hst1, Hs.
    repeat match goal with
           | |- context [if ?b then _ else _] => destruct b eqn:?
           | |- context [validate_topic_alias ?cc ?a] =>
               let H := fresh in pose proof (validate_topic_alias_status cc a) as H;
               destruct (validate_topic_alias cc a) as [[?|] ?] eqn:?; cbn [snd] in H
           | |- context [refuse_publish ?cc ?id ?err ?pre] =>
               let H := fresh in pose proof (refuse_publish_QS cc id err pre eq_refl) as H;
               destruct (refuse_publish cc id err pre) as [[? ?]|]; cbn [QS] in H
           | |- context [match k_alias ?pp with _ => _ end] => destruct (k_alias pp) eqn:?
           | |- _ => progress cbn [bindr]
           end; intro E; try discriminate; inversion E; subst; clear E;
      repeat match goal with H : _ /\ _ |- _ => destruct H end; split; try reflexivity; try assumption; try congruence. }
  destruct He2 as [He2 Hst2].
  destruct stop2; [now rewrite quiet_app, He1, He2|].
  match goal with |- match (if status_eqb (c_status (if ?b then _ else _)) Connected then _ else _) with _ => _ end =>
    destruct b end; cbn [set_send_count c_status]; rewrite Hst2, Hst1, Hs; now rewrite quiet_app, He1, He2.
Qed.

Theorem gate_sound g c p :
  pkt_wf p = true ->
  may_send (g_role g) (c_version c) (c_status c) p = false ->
  match do_send g c p with Ok (_, e) => sends e = [] | Panic _ => True end.
Proof.
  intros Hwf Hms.
  destruct (storable_kind p && c_need_store c) eqn:Hex.
  - (* the store exception: accepted or refused, but never passed on while the rule forbids it *)
    unfold do_send, not_allowed. unfold may_send in Hms.
    destruct (version_eqb (c_version c) (k_ver p)); cbn [negb andb] in *; [|reflexivity].
    pose proof (role_tests g p Hwf) as Hr. cbv zeta in Hr. rewrite Hr in Hms.
    destruct (_ && negb (role_client_ok g)); cbn [negb andb] in Hms; [reflexivity|].
    destruct (_ && negb (role_server_ok g)); cbn [negb andb] in Hms; [reflexivity|].
    apply andb_true_iff in Hex as [Hk _]. unfold storable_kind in Hk. unfold dispatch_send.
    apply orb_true_iff in Hk as [Hk|Hk].
    + apply andb_true_iff in Hk as [Hk1 Hk2]. apply N.eqb_eq in Hk1.
      assert (Hc : negb (status_eqb (c_status c) Connected) = true).
      { rewrite Hk1 in Hms. apply (status_connected_only _ 3); [discriminate|discriminate|discriminate|exact Hms]. }
      rewrite Hk1. change (3 =? T_CONNECT) with false. change (3 =? T_CONNACK) with false. change (3 =? T_PUBLISH) with true.
      cbv iota. destruct (version_eqb (k_ver p) V50).
      * pose proof (send_publish_v5_quiet g c p Hc) as H. destruct (send_publish_v5 g c p) as [[c' e]|]; [now apply quiet_sends|exact I].
      * pose proof (send_publish_v311_quiet c p Hc) as H. destruct (send_publish_v311 c p) as [[c' e]|]; [now apply quiet_sends|exact I].
    + apply N.eqb_eq in Hk.
      assert (Hc : negb (status_eqb (c_status c) Connected) = true).
      { rewrite Hk in Hms. apply (status_connected_only _ 6); [discriminate|discriminate|discriminate|exact Hms]. }
      rewrite Hk. change (6 =? T_CONNECT) with false. change (6 =? T_CONNACK) with false. change (6 =? T_PUBLISH) with false.
      change ((6 =? T_PUBACK) || (6 =? T_PUBREC) || (6 =? T_PUBCOMP)) with false. change (6 =? T_PUBREL) with true. cbv iota.
      pose proof (send_pubrel_quiet c p Hc) as H. destruct (send_pubrel c p) as [[c' e]|]; [now apply quiet_sends|exact I].
  - pose proof (refused_is_noop g c p Hwf Hms Hex) as H. destruct (do_send g c p) as [[c' e]|]; [apply H|exact I].
Qed.
