(* C01, model side: THE WHOLE OF C01's QUIESCENCE CLAUSE ON INTACT LINKS, END TO END.  Two freshly constructed v5.0 endpoints,
   any Clean Start handshake (every negotiated limit), any schedule of publications by either side and deliveries on
   either link, then the drain: every message has been notified exactly once in order on the other side, both Receive
   Maximum accounts are full, nothing is outstanding, and NO packet identifier is in use on either side. *)
From MQ Require Import Base.Prelude Alloc.Alloc Alloc.SetSpec Alloc.AllocProofs Framing.Framing
                       Conn.Types Conn.TopicAlias Conn.ConnRecord Conn.Step Conn.Run Corr.ConnTrace Conn.Scope Conn.IdsQuota Conn.WfInv
                       Conn.Own Conn.OwnFrame Conn.OwnStep Conn.Qos2Dup Conn.TasBounds Conn.NoPanic
                       Conn.PairQos Conn.PairQos5 Conn.PairSeq Conn.PairSeq5 Conn.PairConc Conn.PairConc5 Conn.PairBi Conn.PairBi5
                       Conn.PairHandshake5 Conn.PairHandshake311 Conn.PairConcIds Conn.PairConcIds5 Conn.PairBiIds Conn.PairBiIds5.

(* the identifiers along the handshake: a Clean Start CONNECT resets the server's allocator, the CONNACK leaves it alone
   (nothing is stored), a CONNACK without Session Present resets the client's *)
Lemma connect5_clears_ids g c p : c_status c = Disconnected -> k_flag p = true -> k_tam p = None ->
  match recv_connect g c V50 (PROk p) with Ok (c1, _) => forall y, is_used c1 y = false | Panic _ => True end.
Proof.
  intros Hs Hfl Htam. unfold recv_connect. rewrite Hs. cbn [status_eqb negb]. cbv zeta.
  unfold connect_recv_state. rewrite Hfl, Htam. cbn [version_eqb bindr]. cbv zeta.
  unfold refresh_pingreq_recv, initialize, clear_store_related.
  destruct (k_rm p) as [rm|], (k_mps p) as [mp|], (k_sei p) as [se|]; try destruct (negb (se =? 0)); destruct (0 <? k_keep_alive p);
    conn_simpl_goal; cbn [bindr]; conn_simpl_goal; destruct (negb (_ =? 0)); intro y; unfold is_used; conn_simpl_goal; apply clear_unused.
Qed.

Lemma connack5_sent_keeps_ids c p mps smax : HV c Connecting mps smax None -> k_ver p = V50 -> k_rc p = 0 -> k_tam p = None -> size_ok c p = true ->
  match send_connack c p with Ok (c1, _) => forall y, is_used c1 y = is_used c y | Panic _ => True end.
Proof.
  intros (Hv & Hs & Hta & Hmp & Hc & Hq & Hpr & Hsm & Hrm & Hst) Hpv Hrc Htam Hsz.
  unfold send_connack. rewrite Hpv, Hsz, Hs. cbn [version_eqb negb andb status_eqb]. rewrite Hrc. change (0 =? 0) with true. cbn [negb]. cbv zeta.
  unfold connack_send_props. rewrite Hpv, Hrc, Htam. cbn [version_eqb andb]. change (0 =? 0) with true. cbv iota.
  assert (Hfin : forall cx pre, c_pid cx = c_pid c -> c_store cx = [] ->
            match bindr (send_stored (set_status cx Connected)) (fun '(c0, es) => let '(c2, e0) := send_post_process c0 in Ok (c2, pre ++ [ESend p None] ++ es ++ e0)) with
            | Ok (c1, _) => forall y, is_used c1 y = is_used c y | Panic _ => True end).
  { intros cx pre X1 X9. unfold send_stored. conn_simpl_goal. rewrite X9. cbn [send_stored_l map fold_left send_stored_events].
    unfold release_all. cbn [bindr fold_left]. conn_simpl_goal. cbn [bindr].
    unfold send_post_process.
    match goal with |- context [c_send_max ?y] => destruct (c_send_max y) end; conn_simpl_goal;
      destruct (c_is_client cx); try destruct (0 <? _); intro y; unfold is_used; conn_simpl_goal; rewrite X1; reflexivity. }
  destruct (k_rm p) as [rm|], (k_mps p) as [mp|], (k_ska p) as [sk|]; try destruct (sk =? 0); try destruct (c_t_recv _);
    apply Hfin; conn_simpl_goal; try assumption; reflexivity.
Qed.

Lemma connack5_clears_ids c p mps rmax : HV c Connecting mps None rmax -> k_rc p = 0 -> k_tam p = None -> k_flag p = false ->
  k_rm p <> Some 0 -> k_mps p <> Some 0 ->
  match recv_connack c V50 (PROk p) with Ok (c1, _) => forall y, is_used c1 y = false | Panic _ => True end.
Proof.
  intros (Hv & Hs & Hta & Hmp & Hc & Hq & Hpr & Hsm & Hrm & Hst) Hrc Htam Hfl Hr0 Hm0.
  unfold recv_connack. rewrite Hs. cbn [status_eqb]. rewrite Hrc. change (0 =? 0) with true. cbv iota. cbn [version_eqb]. cbv zeta.
  unfold connack_recv_limits. rewrite Htam. cbn [bindr].
  assert (Hfin : forall cx,
            match (let '(c0, e1) := connack_recv_ska cx p in
                   bindr (resume_or_clear (connack_recv_sei c0 p) (k_flag p)) (fun '(c2, e2) => Ok (c2, e1 ++ e2 ++ [ENotify p]))) with
            | Ok (c1, _) => forall y, is_used c1 y = false | Panic _ => True end).
  { intros cx. unfold connack_recv_ska, connack_recv_sei, resume_or_clear, clear_store_related. rewrite Hfl.
    destruct (k_ska p) as [sk|]; cbv zeta; conn_simpl_goal;
      [destruct (c_user_ping cx); [|destruct (sk * 1000 =? 0); [destruct (c_t_send cx)|]]|];
      (destruct (k_sei p) as [se|]; [destruct (se =? 0)|]);
      conn_simpl_goal; cbn [bindr]; intro y; unfold is_used; conn_simpl_goal; apply clear_unused. }
  destruct (k_rm p) as [rm|] eqn:Erm.
  - destruct (rm =? 0) eqn:E0; [apply N.eqb_eq in E0; subst rm; contradiction|]. cbn [bindr].
    destruct (k_mps p) as [mp|] eqn:Emp; [destruct (mp =? 0) eqn:E1; [apply N.eqb_eq in E1; subst mp; contradiction|]|]; cbn [bindr]; apply Hfin.
  - cbn [bindr]. destruct (k_mps p) as [mp|] eqn:Emp; [destruct (mp =? 0) eqn:E1; [apply N.eqb_eq in E1; subst mp; contradiction|]|]; cbn [bindr]; apply Hfin.
Qed.

Theorem fresh_v5_complete_quiescence gA gB cn ca l :
  1 <= g_idmax gA -> 1 <= g_idmax gB -> role_client_ok gA = true -> role_server_ok gB = true ->
  k_type cn = T_CONNECT -> k_ver cn = V50 -> k_flag cn = true -> k_tam cn = None -> k_size cn <= MQTT_PACKET_SIZE_NO_LIMIT ->
  k_type ca = T_CONNACK -> k_ver ca = V50 -> k_rc ca = 0 -> k_flag ca = false -> k_tam ca = None -> k_rm ca <> Some 0 -> k_mps ca <> Some 0 ->
  k_size ca <= limit_after (k_mps cn) MQTT_PACKET_SIZE_NO_LIMIT ->
  2 + g_idw gA <= limit_after (k_mps ca) MQTT_PACKET_SIZE_NO_LIMIT -> 2 + g_idw gB <= limit_after (k_mps cn) MQTT_PACKET_SIZE_NO_LIMIT ->
  Forall good_act25 l ->
  let A0 := set_auto_pub (conn_new gA V50) true in
  let B0 := set_auto_pub (conn_new gB V50) true in
  exists A1 e1 B1 e2 B2 e3 A2 e4 s1 s2,
    step gA A0 (OSend cn) = Ok (A1, e1, []) /\ deliver gB B0 cn = Ok (B1, e2) /\
    step gB B1 (OSend ca) = Ok (B2, e3, []) /\ deliver gA A1 ca = Ok (A2, e4) /\
    errors e1 = [] /\ errors e2 = [] /\ errors e3 = [] /\ errors e4 = [] /\
    run_sched25 gA gB (mkBi A2 B2 [] [] [] [] [] []) l = Some s1 /\
    run_sched25 gA gB s1 (drain2 (measure2 s1)) = Some s2 /\
    (* the quiescent state *)
    qab s2 = [] /\ qba s2 = [] /\ delB s2 = pubA s1 /\ delA s2 = pubB s1 /\
    vacancy (ea s2) = c_send_max (ea s2) /\ vacancy (eb s2) = c_send_max (eb s2) /\
    c_publish_recv (ea s2) = [] /\ c_publish_recv (eb s2) = [] /\
    (forall y, is_used (ea s2) y = false) /\ (forall y, is_used (eb s2) y = false).
Proof.
  intros IA IB RA RB T1 V1 F1 M1 Z1 T2 V2 C2 F2 M2 R2 Q2 Z2 FA FB Hl A0 B0.
  assert (OA : OWN gA A0) by (apply (f8_own gA (conn_new gA V50)); [unfold F8; repeat split|exact (conn_new_OWN gA V50 IA)]).
  assert (OB : OWN gB B0) by (apply (f8_own gB (conn_new gB V50)); [unfold F8; repeat split|exact (conn_new_OWN gB V50 IB)]).
  assert (Z1' : size_ok A0 cn = true) by (unfold size_ok; apply N.leb_le; exact Z1).
  destruct (handshake5_establishes_pair_invariant gA gB A0 B0 cn ca OA OB eq_refl eq_refl eq_refl eq_refl eq_refl eq_refl RA RB
              T1 V1 F1 M1 Z1' T2 V2 C2 F2 M2 R2 Q2 Z2 FA FB)
    as (A1 & e1 & B1 & e2 & B2 & e3 & A2 & e4 & E1 & S1 & X1 & E2 & N2 & X2 & _ & E3 & S3 & X3 & E4 & N4 & X4 & _ & _ & _ & _ & _ & _ & _ & Hinv).
  (* no identifier is in use after the handshake, on either side *)
  assert (HU : U2 (mkBi A2 B2 [] [] [] [] [] [])).
  { split; apply U_init.
    - destruct (client_sends_connect5 A0 cn eq_refl eq_refl V1 F1 M1 Z1') as (a1 & f1 & Ea & _ & _ & Ha & _).
      rewrite (step_send_connect gA A0 cn ltac:(symmetry; exact V1) T1 RA), Ea in E1. cbn [bindr] in E1. injection E1 as <- <-.
      pose proof (connack5_clears_ids a1 ca _ _ Ha C2 M2 F2 R2 Q2) as Hc. unfold deliver, dispatch_recv in E4. rewrite T2 in E4.
      destruct Ha as (Hv & _). rewrite Hv in E4. change (T_CONNACK =? 1) with false in E4. change (T_CONNACK =? 2) with true in E4. cbv iota in E4.
      rewrite E4 in Hc. exact Hc.
    - destruct (server_receives_connect5 gB B0 cn eq_refl eq_refl F1 M1) as (b1 & f2 & Eb & _ & _ & _ & Hb & _).
      pose proof (connect5_clears_ids gB B0 cn eq_refl F1 M1) as Hc1.
      unfold deliver, dispatch_recv in E2. rewrite T1 in E2. change (c_version B0) with V50 in E2. change (T_CONNECT =? 1) with true in E2. cbv iota in E2.
      rewrite E2 in Eb, Hc1. injection Eb as <- <-.
      assert (Z2' : size_ok B1 ca = true).
      { unfold size_ok. destruct Hb as (_ & _ & _ & Hm & _). rewrite Hm. apply N.leb_le. exact Z2. }
      pose proof (connack5_sent_keeps_ids B1 ca _ _ Hb V2 C2 M2 Z2') as Hc2.
      destruct Hb as (Hv & _).
      rewrite (step_send_connack gB B1 ca ltac:(congruence) T2 RB) in E3.
      destruct (send_connack B1 ca) as [[b2 f3]|]; [|discriminate E3]. cbn [bindr] in E3. injection E3 as <- <-.
      intro y. rewrite Hc2. apply Hc1. }
  destruct (two_way5_quiescence gA gB l _ Hinv HU Hl) as (s1 & s2 & R1 & R2' & Q1 & Q2' & D1 & D2 & W1 & W2 & P1 & P2 & I1 & I2).
  exists A1, e1, B1, e2, B2, e3, A2, e4, s1, s2.
  repeat (split; [assumption|]). assumption.
Qed.

(* ---- the same for v3.1.1 ---- *)
Lemma connect311_clears_ids g c p : c_status c = Disconnected -> k_flag p = true ->
  match recv_connect g c V311 (PROk p) with Ok (c1, _) => forall y, is_used c1 y = false | Panic _ => True end.
Proof.
  intros Hs Hfl. unfold recv_connect. rewrite Hs. cbn [status_eqb negb]. cbv zeta.
  unfold connect_recv_state. rewrite Hfl. cbn [version_eqb bindr]. cbv zeta.
  unfold refresh_pingreq_recv, initialize, clear_store_related.
  destruct (0 <? k_keep_alive p); conn_simpl_goal; cbn [bindr]; conn_simpl_goal; destruct (negb (_ =? 0)); intro y; unfold is_used; conn_simpl_goal; apply clear_unused.
Qed.

Lemma connack311_sent_keeps_ids c p : HV3 c Connecting -> k_ver p = V311 -> k_rc p = 0 ->
  match send_connack c p with Ok (c1, _) => forall y, is_used c1 y = is_used c y | Panic _ => True end.
Proof.
  intros (Hv & Hs & Hq & Hst & Hsm) Hpv Hrc.
  unfold send_connack. rewrite Hpv, Hs. cbn [version_eqb negb andb status_eqb]. rewrite Hrc. change (0 =? 0) with true. cbn [negb]. cbv zeta.
  unfold connack_send_props. rewrite Hpv. cbn [version_eqb andb].
  unfold send_stored. conn_simpl_goal. rewrite Hst. cbn [send_stored_l map fold_left send_stored_events].
  unfold release_all. cbn [bindr fold_left]. conn_simpl_goal. rewrite Hsm. cbn [bindr].
  unfold send_post_process. conn_simpl_goal. destruct (c_is_client c); try destruct (0 <? _); intro y; unfold is_used; conn_simpl_goal; reflexivity.
Qed.

Theorem fresh_v311_complete_quiescence gA gB cn ca l :
  1 <= g_idmax gA -> 1 <= g_idmax gB -> role_client_ok gA = true -> role_server_ok gB = true ->
  k_type cn = T_CONNECT -> k_ver cn = V311 -> k_flag cn = true ->
  k_type ca = T_CONNACK -> k_ver ca = V311 -> k_rc ca = 0 -> k_flag ca = false ->
  Forall good_act2 l ->
  let A0 := set_auto_pub (conn_new gA V311) true in
  let B0 := set_auto_pub (conn_new gB V311) true in
  exists A1 e1 B1 e2 B2 e3 A2 e4 s1 s2,
    step gA A0 (OSend cn) = Ok (A1, e1, []) /\ deliver gB B0 cn = Ok (B1, e2) /\
    step gB B1 (OSend ca) = Ok (B2, e3, []) /\ deliver gA A1 ca = Ok (A2, e4) /\
    errors e1 = [] /\ errors e2 = [] /\ errors e3 = [] /\ errors e4 = [] /\
    run_sched2 gA gB (mkBi A2 B2 [] [] [] [] [] []) l = Some s1 /\
    run_sched2 gA gB s1 (drain2 (measure2 s1)) = Some s2 /\
    qab s2 = [] /\ qba s2 = [] /\ delB s2 = pubA s1 /\ delA s2 = pubB s1 /\
    (forall y, is_used (ea s2) y = false) /\ (forall y, is_used (eb s2) y = false).
Proof.
  intros IA IB RA RB T1 V1 F1 T2 V2 C2 F2 Hl A0 B0.
  assert (OA : OWN gA A0) by (apply (f8_own gA (conn_new gA V311)); [unfold F8; repeat split|exact (conn_new_OWN gA V311 IA)]).
  assert (OB : OWN gB B0) by (apply (f8_own gB (conn_new gB V311)); [unfold F8; repeat split|exact (conn_new_OWN gB V311 IB)]).
  destruct (handshake311_establishes_pair_invariant gA gB A0 B0 cn ca OA OB eq_refl eq_refl eq_refl eq_refl eq_refl eq_refl RA RB
              T1 V1 F1 T2 V2 C2 F2)
    as (A1 & e1 & B1 & e2 & B2 & e3 & A2 & e4 & E1 & S1 & X1 & E2 & N2 & X2 & _ & E3 & S3 & X3 & E4 & N4 & X4 & _ & Hinv).
  assert (HU : U2 (mkBi A2 B2 [] [] [] [] [] [])).
  { split; apply U_init.
    - destruct (client_sends_connect311 A0 cn eq_refl eq_refl V1 F1) as (a1 & f1 & Ea & _ & _ & Ha & _).
      rewrite (step_send_connect gA A0 cn ltac:(symmetry; exact V1) T1 RA), Ea in E1. cbn [bindr] in E1. injection E1 as <- <-.
      pose proof (connack_clears_ids a1 ca Ha C2 F2) as Hc. unfold deliver, dispatch_recv in E4. rewrite T2 in E4.
      destruct Ha as (Hv & _). rewrite Hv in E4. change (T_CONNACK =? 1) with false in E4. change (T_CONNACK =? 2) with true in E4. cbv iota in E4.
      rewrite E4 in Hc. exact Hc.
    - destruct (server_receives_connect311 gB B0 cn eq_refl eq_refl F1) as (b1 & f2 & Eb & _ & _ & _ & Hb & _).
      pose proof (connect311_clears_ids gB B0 cn eq_refl F1) as Hc1.
      unfold deliver, dispatch_recv in E2. rewrite T1 in E2. change (c_version B0) with V311 in E2. change (T_CONNECT =? 1) with true in E2. cbv iota in E2.
      rewrite E2 in Eb, Hc1. injection Eb as <- <-.
      pose proof (connack311_sent_keeps_ids B1 ca Hb V2 C2) as Hc2.
      destruct Hb as (Hv & _).
      rewrite (step_send_connack gB B1 ca ltac:(congruence) T2 RB) in E3.
      destruct (send_connack B1 ca) as [[b2 f3]|]; [|discriminate E3]. cbn [bindr] in E3. injection E3 as <- <-.
      intro y. rewrite Hc2. apply Hc1. }
  destruct (two_way_all_identifiers_released gA gB l _ Hinv HU Hl) as (s1 & s2 & R1 & R2' & Q1 & Q2' & D1 & D2 & I1 & I2).
  exists A1, e1, B1, e2, B2, e3, A2, e4, s1, s2.
  repeat (split; [assumption|]). assumption.
Qed.
