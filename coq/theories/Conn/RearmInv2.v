(* C15 re-arm (continued): receive side, every call. *)
From MQ Require Import Base.Prelude Alloc.Alloc Alloc.SetSpec Alloc.AllocProofs Framing.Framing
                       Conn.Types Conn.TopicAlias Conn.ConnRecord Conn.Step Conn.Run Corr.ConnTrace Conn.Scope Conn.Timers Conn.RearmInv.

(* ---------- receive side ---------- *)
Lemma note_inbound_ke c p : KEYeq (note_inbound c p) c.
Proof. unfold note_inbound. destruct (negb _); unfold KEYeq; conn_simpl; auto. Qed.
Lemma note_handled_ke c p : KEYeq (note_handled c p) c.
Proof. unfold note_handled. destruct (_ =? _); unfold KEYeq; conn_simpl; auto. Qed.
Lemma store_erase_ke c v t id : KEYeq (store_erase c v t id) c.
Proof. unfold store_erase, KEYeq. conn_simpl. auto. Qed.

Section Recv2.
Variables (cl : bool) (ms : N).

(* the lemmas of the send side for any state whose key fields are those of the start state *)
Lemma RA_at c0 c (f : conn -> res (conn * list event)) :
  (forall c1, cl = c_is_client c1 -> ms = pick_interval c1 -> RA cl ms c1 (f c1)) ->
  cl = c_is_client c0 -> ms = pick_interval c0 -> KEYeq c c0 ->
  match f c with Ok (c', e) => KEYeq c' c0 /\ rearmed cl ms e = true | Panic _ => True end.
Proof.
  intros Hf Hcl Hms Hk. destruct (ke_pick c c0 Hk) as [Ki Kc].
  assert (H1 : cl = c_is_client c) by congruence. assert (H2 : ms = pick_interval c) by congruence.
  pose proof (Hf c H1 H2) as H. destruct (f c) as [[c' e]|]; cbn [RA] in *; [|exact I].
  destruct H as [H3 H4]. split; [now apply (ke_trans _ c)|exact H4].
Qed.
End Recv2.

Ltac ke_gen :=
  repeat match goal with
         | |- context [note_inbound ?c ?p] => let H := fresh in pose proof (note_inbound_ke c p) as H; generalize dependent (note_inbound c p); intros
         | _ : context [note_inbound ?c ?p] |- _ => let H := fresh in pose proof (note_inbound_ke c p) as H; generalize dependent (note_inbound c p); intros
         | |- context [note_handled ?c ?p] => let H := fresh in pose proof (note_handled_ke c p) as H; generalize dependent (note_handled c p); intros
         | _ : context [note_handled ?c ?p] |- _ => let H := fresh in pose proof (note_handled_ke c p) as H; generalize dependent (note_handled c p); intros
         | |- context [store_erase ?c ?v ?t ?i] => let H := fresh in pose proof (store_erase_ke c v t i) as H; generalize dependent (store_erase c v t i); intros
         | _ : context [store_erase ?c ?v ?t ?i] |- _ => let H := fresh in pose proof (store_erase_ke c v t i) as H; generalize dependent (store_erase c v t i); intros
         end.
Ltac ke_flat3 := ke_gen; ke_norm; ke_flat.

Ltac ra_call cl ms Hcl Hms c0 :=
  match goal with
  | |- context [handle_v5_error ?c ?e] =>
      let H := fresh "Hk" in
      assert (H : KEYeq c c0) by (ke_norm; ke_flat3);
      apply (RA_at cl ms c0 c (fun x => handle_v5_error x e) (fun c1 _ _ => handle_v5_error_RA cl ms c1 e) Hcl Hms) in H;
      cbv beta in H; destruct (handle_v5_error c e) as [[? ?]|]; [destruct H as [? ?]|]
  | |- context [handle_error ?c ?v ?e] =>
      let H := fresh "Hk" in
      assert (H : KEYeq c c0) by (ke_norm; ke_flat3);
      apply (RA_at cl ms c0 c (fun x => handle_error x v e) (fun c1 _ _ => handle_error_RA cl ms c1 v e) Hcl Hms) in H;
      cbv beta in H; destruct (handle_error c v e) as [[? ?]|]; [destruct H as [? ?]|]
  | |- context [send_puback_like ?c ?p] =>
      let H := fresh "Hk" in
      assert (H : KEYeq c c0) by (ke_norm; ke_flat3);
      apply (RA_at cl ms c0 c (fun x => send_puback_like x p) (fun c1 A B => send_puback_like_RA cl ms c1 A B p) Hcl Hms) in H;
      cbv beta in H; destruct (send_puback_like c p) as [[? ?]|]; [destruct H as [? ?]|]
  | |- context [send_pubrel ?c ?p] =>
      let H := fresh "Hk" in
      assert (H : KEYeq c c0) by (ke_norm; ke_flat3);
      apply (RA_at cl ms c0 c (fun x => send_pubrel x p) (fun c1 A B => send_pubrel_RA cl ms c1 A B p) Hcl Hms) in H;
      cbv beta in H; destruct (send_pubrel c p) as [[? ?]|]; [destruct H as [? ?]|]
  | |- context [send_plain ?c ?p] =>
      let H := fresh "Hk" in
      assert (H : KEYeq c c0) by (ke_norm; ke_flat3);
      apply (RA_at cl ms c0 c (fun x => send_plain x p) (fun c1 A B => send_plain_RA cl ms c1 A B p) Hcl Hms) in H;
      cbv beta in H; destruct (send_plain c p) as [[? ?]|]; [destruct H as [? ?]|]
  | |- context [close_with_disconnect ?c ?p] =>
      let H := fresh "Hk" in
      assert (H : KEYeq c c0) by (ke_norm; ke_flat3);
      apply (RA_at cl ms c0 c (fun x => close_with_disconnect x p) (fun c1 _ _ => close_with_disconnect_RA cl ms c1 p) Hcl Hms) in H;
      cbv beta in H; destruct (close_with_disconnect c p) as [[? ?]|]; [destruct H as [? ?]|]
  | |- context [tar_insert ?r ?t ?a] => destruct (tar_insert r t a) as [?|]
  end.

Ltac ra_frames := pose proof note_inbound_ke as Hni; pose proof note_handled_ke as Hnh; pose proof store_erase_ke as Hse.

Ltac ra_leaf3 := cbn [RA]; ke_norm; (split; [ke_flat3|ra_events]).
Ltac ra_final3 := match goal with |- RA _ _ _ (Panic _) => exact I | |- RA _ _ _ (Ok _) => ra_leaf3 end.

(* head-position versions of the helper rules: only the call that is executed next is opened, so that
   independent branches are not multiplied *)
Ltac ra_helper_h :=
  match goal with
  | |- RA _ _ _ (let '(_, _) := send_post_process ?c in _) =>
      let H := fresh "Hpost" in pose proof (post_ra c) as H; destruct (send_post_process c) as [? ?]; cbn [fst snd] in H; destruct H as (? & ? & _)
  | |- RA _ _ _ (let '(_, _) := cancel_timers ?c in _) =>
      let H := fresh "Hcan" in pose proof (cancel_ra c) as H; destruct (cancel_timers c) as [? ?]; cbn [fst snd] in H; destruct H as [? ?]
  | |- RA _ _ _ (let '(_, _) := refresh_pingreq_recv ?c in _) =>
      let H := fresh "Href" in pose proof (refresh_ra c) as H; destruct (refresh_pingreq_recv c) as [? ?]; cbn [fst snd] in H; destruct H as [? ?]
  | |- RA _ _ _ (bindr (release_if_used ?c ?id) _) =>
      let E := fresh "Erel" in destruct (release_if_used c id) as [[? ?]|] eqn:E; [apply release_ra in E; destruct E as [? ?]|]
  end.

Lemma RA_trans cl ms c1 c0 r : KEYeq c1 c0 -> RA cl ms c1 r -> RA cl ms c0 r.
Proof. destruct r as [[c' e]|]; cbn [RA]; [|trivial]. intros Hk [H1 H2]. split; [now apply (ke_trans _ c1)|exact H2]. Qed.

Ltac ra_call_h cl ms Hcl Hms c0 :=
  match goal with
  | |- RA _ _ _ (handle_v5_error ?c ?e) => apply (RA_trans cl ms c c0); [ke_flat3|apply handle_v5_error_RA]
  | |- RA _ _ _ (handle_error ?c ?v ?e) => apply (RA_trans cl ms c c0); [ke_flat3|apply handle_error_RA]
  | |- RA _ _ _ (bindr (send_puback_like ?c ?p) _) =>
      let H := fresh "Hk" in
      assert (H : KEYeq c c0) by ke_flat3;
      apply (RA_at cl ms c0 c (fun x => send_puback_like x p) (fun c1 A B => send_puback_like_RA cl ms c1 A B p) Hcl Hms) in H;
      cbv beta in H; destruct (send_puback_like c p) as [[? ?]|]; [destruct H as [? ?]|]
  | |- RA _ _ _ (bindr (send_pubrel ?c ?p) _) =>
      let H := fresh "Hk" in
      assert (H : KEYeq c c0) by ke_flat3;
      apply (RA_at cl ms c0 c (fun x => send_pubrel x p) (fun c1 A B => send_pubrel_RA cl ms c1 A B p) Hcl Hms) in H;
      cbv beta in H; destruct (send_pubrel c p) as [[? ?]|]; [destruct H as [? ?]|]
  | |- RA _ _ _ (bindr (send_plain ?c ?p) _) =>
      let H := fresh "Hk" in
      assert (H : KEYeq c c0) by ke_flat3;
      apply (RA_at cl ms c0 c (fun x => send_plain x p) (fun c1 A B => send_plain_RA cl ms c1 A B p) Hcl Hms) in H;
      cbv beta in H; destruct (send_plain c p) as [[? ?]|]; [destruct H as [? ?]|]
  | |- RA _ _ _ (bindr (close_with_disconnect ?c ?p) _) =>
      let H := fresh "Hk" in
      assert (H : KEYeq c c0) by ke_flat3;
      apply (RA_at cl ms c0 c (fun x => close_with_disconnect x p) (fun c1 _ _ => close_with_disconnect_RA cl ms c1 p) Hcl Hms) in H;
      cbv beta in H; destruct (close_with_disconnect c p) as [[? ?]|]; [destruct H as [? ?]|]
  end.

Ltac ra_step_h :=
  first
   [ progress cbn [bindr]
   | ra_helper_h
   | match goal with |- RA _ _ _ (Panic _) => exact I end
   | match goal with |- RA _ _ _ (if ?b then _ else _) => destruct b eqn:? end
   | match goal with |- RA _ _ _ (bindr (if ?b then _ else _) _) => destruct b eqn:? end
   | match goal with |- RA _ _ _ (let '(_, _) := (_, _) in _) => cbv beta iota end
   | match goal with |- RA _ _ _ (let '(_, _) := (if ?b then _ else _) in _) => destruct b eqn:? end ].

Ltac ra_auto3 cl ms Hcl Hms c0 := cbv zeta; repeat first [ra_call_h cl ms Hcl Hms c0 | ra_step_h]; try ra_final3.

Section Recv3.
Variables (cl : bool) (ms : N) (c : conn).
Hypothesis Hcl : cl = c_is_client c.
Hypothesis Hms : ms = pick_interval c.

Lemma recv_publish_v311_RA g pr : RA cl ms c (recv_publish_v311 g c pr).
Proof. unfold recv_publish_v311, handle_v311_error. destruct pr as [p|e]; ra_auto3 cl ms Hcl Hms c. Qed.

Lemma resolve_recv_alias_RA g c1 p :
  KEYeq c1 c ->
  match resolve_recv_alias g c1 p with
  | Ok (c', _, _, e) => KEYeq c' c /\ rearmed cl ms e = true
  | Panic _ => True end.
Proof.
  intro Hk1. unfold resolve_recv_alias.
  repeat first
    [ ra_call cl ms Hcl Hms c | progress cbn [bindr]
    | match goal with |- context [if ?b then _ else _] => destruct b eqn:? end
    | match goal with |- context [match ?o with Some _ => _ | None => _ end] => destruct o eqn:? end ];
  try exact I; cbv beta iota; (split; [ke_flat|ra_events]).
Qed.

Lemma recv_publish_v5_RA g pr : RA cl ms c (recv_publish_v5 g c pr).
Proof.
  unfold recv_publish_v5. destruct pr as [p|e]; [|ra_auto3 cl ms Hcl Hms c]. cbv zeta.
  destruct (_ && _); [apply handle_v5_error_RA|].
  pose proof (resolve_recv_alias_RA g (note_inbound c p) p (note_inbound_ke c p)) as Hr.
  destruct (resolve_recv_alias g (note_inbound c p) p) as [[[[c1 q] st] e0]|]; cbn [bindr]; [|exact I].
  destruct Hr as [Hr1 Hr2].
  destruct st; [cbn [RA]; split; assumption|].
  pose proof (note_handled_ke c1 p) as Hh.
  assert (Hk2 : KEYeq (note_handled c1 p) c) by (now apply (ke_trans _ c1)).
  generalize dependent (note_handled c1 p). intros c2 _ Hk2.
  ra_auto3 cl ms Hcl Hms c.
Qed.

Lemma recv_ack_RA g v t pr : RA cl ms c (recv_ack g c v t pr).
Proof. unfold recv_ack. destruct pr as [p|e]; [|apply handle_error_RA]. ra_auto3 cl ms Hcl Hms c. Qed.
Lemma recv_pubrel_RA g v pr : RA cl ms c (recv_pubrel g c v pr).
Proof. unfold recv_pubrel. destruct pr as [p|e]; [|apply handle_error_RA]. ra_auto3 cl ms Hcl Hms c. Qed.
Lemma recv_notify_RA v pr : RA cl ms c (recv_notify c v pr).
Proof. unfold recv_notify. destruct pr as [p|e]; [|apply handle_error_RA]. ra_auto3 cl ms Hcl Hms c. Qed.
Lemma recv_pingreq_RA g v pr : RA cl ms c (recv_pingreq g c v pr).
Proof. unfold recv_pingreq. destruct pr as [p|e]; [|apply handle_error_RA]. ra_auto3 cl ms Hcl Hms c. Qed.
Lemma recv_pingresp_RA v pr : RA cl ms c (recv_pingresp c v pr).
Proof. unfold recv_pingresp. destruct pr as [p|e]; [|apply handle_error_RA]. ra_auto3 cl ms Hcl Hms c. Qed.
Lemma recv_disconnect_RA v pr : RA cl ms c (recv_disconnect c v pr).
Proof. unfold recv_disconnect. destruct pr as [p|e]; [|apply handle_error_RA]. ra_auto3 cl ms Hcl Hms c. Qed.
End Recv3.

(* ---------- the calls that change the key fields: post-state form ---------- *)
Lemma recv_connect_RAP g c v pr : RAP (recv_connect g c v pr).
Proof.
  unfold recv_connect. destruct (negb _); [apply (RA_RAP c); apply handle_error_RA|].
  destruct pr as [p|e].
  - destruct (connect_recv_state _ v p) as [c1|]; cbn [bindr]; [|exact I].
    pose proof (refresh_ra c1) as [_ H2]. destruct (refresh_pingreq_recv c1) as [c2 e2]. cbn [fst snd RAP] in *.
    apply nosend_rearmed. rewrite existsb_app, H2. reflexivity.
  - pose proof (send_connack_RA (c_is_client (set_status c Connecting)) (pick_interval (set_status c Connecting)) (set_status c Connecting) eq_refl eq_refl (connect_refusal v e)) as H.
    destruct (send_connack _ _) as [[c1 ev]|]; cbn [bindr RA RAP] in *; [|exact I].
    destruct H as [Hk Hr]. destruct (ke_pick c1 _ Hk) as [Ki Kc]. rewrite Ki, Kc. apply rearmed_app; [exact Hr|reflexivity].
Qed.

Lemma resume_or_clear_RA cl ms c b : cl = c_is_client c -> ms = pick_interval c -> RA cl ms c (resume_or_clear c b).
Proof.
  intros Hcl Hms. unfold resume_or_clear. destruct b; [|cbn [RA]; split; [unfold clear_store_related, KEYeq; conn_simpl; auto|reflexivity]].
  destruct (send_stored c) as [[c1 es]|] eqn:Es; cbn [bindr]; [|exact I]. apply send_stored_ke in Es.
  destruct (existsb _ es) eqn:Ee.
  - pose proof (post_tail cl ms c Hcl Hms c1 Es) as Ht. pose proof (post_ra c1) as (P1 & _ & _).
    destruct (send_post_process c1) as [c2 e2]. cbn [fst snd RA] in *. split; [now apply (ke_trans _ c1)|]. subst e2. apply rearmed_post.
  - cbn [RA]. split; [exact Es|]. apply nosend_rearmed. exact Ee.
Qed.

Lemma connack_recv_ska_ns c p : existsb is_send (snd (connack_recv_ska c p)) = false.
Proof.
  unfold connack_recv_ska.
  repeat match goal with
         | |- context [if ?b then _ else _] => destruct b
         | |- context [match ?o with Some _ => _ | None => _ end] => destruct o
         end; reflexivity.
Qed.

Lemma recv_connack_RAP c v pr : RAP (recv_connack c v pr).
Proof.
  unfold recv_connack. destruct (status_eqb (c_status c) Connected) eqn:Es; [apply (RA_RAP c); apply handle_error_RA|].
  destruct pr as [p|e].
  2:{ destruct (version_eqb v V50); reflexivity. }
  destruct (k_rc p =? 0); [|reflexivity].
  destruct (version_eqb v V50).
  - destruct (connack_recv_limits _ p) as [c1|]; cbn [bindr]; [|exact I].
    pose proof (connack_recv_ska_ns c1 p) as K2. destruct (connack_recv_ska c1 p) as [c2 e1]. cbn [snd] in K2.
    pose proof (resume_or_clear_RA _ _ (connack_recv_sei c2 p) (k_flag p) eq_refl eq_refl) as H.
    destruct (resume_or_clear _ _) as [[c3 e2]|]; cbn [bindr RA RAP] in *; [|exact I].
    destruct H as [Hk Hr]. destruct (ke_pick c3 _ Hk) as [Ki Kc]. rewrite Ki, Kc.
    apply rearmed_app; [now apply nosend_rearmed|]. apply rearmed_app; [exact Hr|reflexivity].
  - pose proof (resume_or_clear_RA _ _ (set_status c Connected) (k_flag p) eq_refl eq_refl) as H.
    destruct (resume_or_clear _ _) as [[c3 e2]|]; cbn [bindr RA RAP] in *; [|exact I].
    destruct H as [Hk Hr]. destruct (ke_pick c3 _ Hk) as [Ki Kc]. rewrite Ki, Kc. apply rearmed_app; [exact Hr|reflexivity].
Qed.

Lemma dispatch_recv_RAP g c v t pr : RAP (dispatch_recv g c v t pr).
Proof.
  unfold dispatch_recv.
  destruct (t =? 1); [apply recv_connect_RAP|].
  destruct (t =? 2); [apply recv_connack_RAP|].
  apply (RA_RAP c).
  repeat match goal with |- RA _ _ _ (if ?b then _ else _) => destruct b end;
    first [ now apply recv_publish_v5_RA | now apply recv_publish_v311_RA | now apply recv_ack_RA | now apply recv_pubrel_RA
          | now apply recv_notify_RA | now apply recv_pingreq_RA | now apply recv_pingresp_RA | now apply recv_disconnect_RA
          | (cbn [RA]; split; [apply ke_refl|reflexivity]) ].
Qed.

Lemma process_recv_packet_RAP g c fh body pr : RAP (process_recv_packet g c fh body pr).
Proof.
  unfold process_recv_packet. cbv zeta.
  destruct (_ <? _).
  { destruct (status_eqb _ _).
    - pose proof (close_with_disconnect_RA (c_is_client c) (pick_interval c) c (disconnect_v5 149)) as H.
      destruct (close_with_disconnect _ _) as [[c1 e1]|]; cbn [bindr RA RAP] in *; [|exact I].
      destruct H as [Hk Hr]. destruct (ke_pick c1 _ Hk) as [Ki Kc]. rewrite Ki, Kc. apply rearmed_app; [exact Hr|reflexivity].
    - pose proof (cancel_ra (set_status c Disconnected)) as [_ H2]. destruct (cancel_timers _) as [c1 e1]. cbn [snd RAP] in *.
      apply nosend_rearmed. rewrite existsb_app, H2. reflexivity. }
  destruct (negb _); [reflexivity|].
  destruct (c_version c); try apply dispatch_recv_RAP.
  repeat match goal with |- RAP (if ?b then _ else _) => destruct b end; first [apply recv_connect_RAP|reflexivity].
Qed.

Definition events_of (r : res (conn * list event * list N)) : res (conn * list event) :=
  match r with Ok (c, e, _) => Ok (c, e) | Panic x => Panic x end.

Lemma do_recv_RAP g c bytes pr : RAP (events_of (do_recv g c bytes pr)).
Proof.
  unfold do_recv. destruct (feed (c_pb c) bytes) as [[r pb'] rest]. destruct r.
  - pose proof (process_recv_packet_RAP g (set_pb c pb') (hd 0 hdr) body pr) as H.
    destruct (process_recv_packet _ _ _ _ _) as [[c1 e1]|]; cbn [bindr events_of RAP] in *; [exact H|exact I].
  - reflexivity.
  - pose proof (cancel_ra (set_pb c pb')) as [_ H2]. destruct (cancel_timers _) as [c1 e1]. cbn [snd events_of RAP] in *.
    apply nosend_rearmed. rewrite existsb_app, H2. reflexivity.
Qed.

Lemma do_timer_RAP c k : RAP (do_timer c k).
Proof.
  unfold do_timer. destruct k; cbv zeta.
  - destruct (status_eqb _ _); [|reflexivity].
    destruct (c_version _); try exact I;
      match goal with |- RAP (send_pingreq ?c1 ?p) => apply (RA_RAP c1); now apply send_pingreq_RA end.
  - destruct (c_version _); try exact I; [reflexivity|].
    destruct (status_eqb _ _); [|reflexivity].
    match goal with |- RAP (close_with_disconnect ?c1 ?p) => apply (RA_RAP c1); apply close_with_disconnect_RA end.
  - destruct (c_version _); try exact I; [reflexivity|].
    destruct (status_eqb _ _); [|reflexivity].
    match goal with |- RAP (close_with_disconnect ?c1 ?p) => apply (RA_RAP c1); apply close_with_disconnect_RA end.
Qed.

Lemma drain_release_ns ids : forall a a' e, drain_release a ids = Ok (a', e) -> existsb is_send e = false.
Proof.
  induction ids as [|i t IH]; intros a a' e; cbn [drain_release]; [intro H; inversion H; reflexivity|].
  destruct (pm_is_used a i); [|apply IH].
  destruct (pm_release a i) as [a1|]; cbn [bindr]; [|discriminate].
  destruct (drain_release a1 t) as [[a2 e2]|] eqn:E; cbn [bindr]; [|discriminate].
  intro H; inversion H; subst. cbn [existsb is_send orb]. exact (IH _ _ _ E).
Qed.

Lemma do_closed_RAP c : RAP (do_closed c).
Proof.
  unfold do_closed. cbv zeta.
  repeat match goal with
         | |- RAP (bindr (drain_release ?a ?ids) _) =>
             let E := fresh "Ed" in destruct (drain_release a ids) as [[? ?]|] eqn:E; cbn [bindr]; [apply drain_release_ns in E|exact I]
         | |- RAP (bindr (if ?b then _ else _) _) => destruct b; cbn [bindr]
         | |- RAP (bindr (bindr (drain_release ?a ?ids) _) _) =>
             let E := fresh "Ed" in destruct (drain_release a ids) as [[? ?]|] eqn:E; cbn [bindr]; [apply drain_release_ns in E|exact I]
         end.
  all: match goal with |- context [cancel_timers ?cc] => pose proof (cancel_ra cc) as [_ Hc]; destruct (cancel_timers cc) as [c9 e9] end.
  all: cbn [snd RAP] in *; apply nosend_rearmed; rewrite ?existsb_app;
    repeat match goal with H : existsb is_send ?e = false |- _ => rewrite H; clear H end; reflexivity.
Qed.

(* EVERY call of the API, in every state, for every input: after the last packet the call requests
   for sending, the PINGREQ-send timer is re-armed with the interval chosen by priority (application
   override, then Server Keep Alive, then the CONNECT keep-alive) — unless the call requests a close,
   the object is not a client, or that interval is 0 *)
Theorem step_rearms g c o :
  match step g c o with
  | Ok (c', evs, _) => rearmed (c_is_client c') (pick_interval c') evs = true
  | Panic _ => True
  end.
Proof.
  destruct o; cbn [step].
  - pose proof (do_send_RAP g c p) as H. destruct (do_send g c p) as [[c' e]|]; cbn [bindr RAP] in *; [exact H|exact I].
  - pose proof (do_recv_RAP g c bytes pr) as H. destruct (do_recv g c bytes pr) as [[[c' e] r]|]; cbn [bindr events_of RAP] in *; [exact H|exact I].
  - pose proof (do_timer_RAP c k) as H. destruct (do_timer c k) as [[c' e]|]; cbn [bindr RAP] in *; [exact H|exact I].
  - pose proof (do_closed_RAP c) as H. destruct (do_closed c) as [[c' e]|]; cbn [bindr RAP] in *; [exact H|exact I].
  - unfold do_set_pingreq_interval. cbv zeta.
    repeat match goal with
           | |- context [match ?y with Some _ => _ | None => _ end] => destruct y
           | |- context [if ?b then _ else _] => destruct b
           end; reflexivity.
  - reflexivity.
  - reflexivity.
  - reflexivity.
  - reflexivity.
  - reflexivity.
  - reflexivity.
  - destruct (pm_acquire (c_pid c)) as [[r a]|]; cbn [bindr]; [reflexivity|exact I].
  - destruct (pm_register (c_pid c) id) as [b a]. reflexivity.
  - destruct (release_if_used c id) as [[c' e]|] eqn:E; cbn [bindr]; [|exact I]. apply release_ra in E as [_ H2]. now apply nosend_rearmed.
  - unfold do_erase. destruct (store_erase_publish_l _ _) as [b l]. destruct b; [|reflexivity]. cbv zeta.
    match goal with |- context [release_if_used ?y ?i] => destruct (release_if_used y i) as [[c' e]|] eqn:E end; cbn [bindr]; [|exact I].
    apply release_ra in E as [_ H2]. now apply nosend_rearmed.
  - reflexivity.
  - reflexivity.
  - reflexivity.
Qed.
