(* C01, model side: TRAFFIC IN BOTH DIRECTIONS.  Two v3.1.1 endpoints A and B with automatic responses, both publishing to
   each other over two FIFO links that carry each side's PUBLISH / PUBREL together with its acknowledgements of the other
   side's messages, under an arbitrary schedule.  The invariant is the one-direction pair invariant of PairConc.v twice —
   A as sender with B as receiver, and B as sender with A as receiver — and the proof is a simulation: every action of the
   two-way system is an action of one of the two one-way systems, and leaves the other one's invariant intact because a
   receiver's step does not touch what its sender role looks at and vice versa. *)
From Coq Require Import Permutation.
From MQ Require Import Base.Prelude Alloc.Alloc Alloc.SetSpec Alloc.AllocProofs Framing.Framing
                       Conn.Types Conn.TopicAlias Conn.ConnRecord Conn.Step Conn.Run Corr.ConnTrace Conn.Scope Conn.IdsQuota Conn.WfInv
                       Conn.Own Conn.OwnFrame Conn.OwnStep Conn.Qos2Inv Conn.Qos2Dup Conn.TasBounds Conn.NoPanic
                       Conn.PairQos Conn.PairSeq Conn.PairConc.

(* ---- a sender's steps leave its receiver role alone ---- *)
Lemma sender_pubrec_q g c a : OWN g c -> ready c -> c_auto_pub c = true -> k_ver a = V311 -> k_type a = T_PUBREC ->
  mem (k_pid a) (c_pubrec c) = true -> is_used c (k_pid a) = true ->
  match deliver g c a with
  | Ok (c2, _) => c_qos2 c2 = c_qos2 c
  | Panic _ => True
  end.
Proof.
  intros HO [Rv Rs] Ha Hva Hta Hm Hu.
  unfold deliver, dispatch_recv. rewrite Hta, Rv.
  change (T_PUBREC =? 1) with false. change (T_PUBREC =? 2) with false. change (T_PUBREC =? 3) with false.
  change ((T_PUBREC =? 4) || (T_PUBREC =? 5) || (T_PUBREC =? 7) || (T_PUBREC =? 9) || (T_PUBREC =? 11)) with true. cbv iota.
  unfold recv_ack. cbv zeta. change (T_PUBREC =? T_PUBACK) with false. change (T_PUBREC =? T_PUBREC) with true.
  cbv iota. rewrite Hm. cbn [version_eqb negb orb].
  destruct (ack_PB_own g c (k_pid a) HO Hm) as (_ & [_ Hs] & _). cbv zeta in Hs. rewrite Rv in Hs.
  set (c1 := store_erase _ V311 T_PUBREC (k_pid a)) in *.
  assert (A1 : c_auto_pub c1 = true) by exact Ha.
  assert (A2 : c_status c1 = c_status c) by reflexivity.
  assert (A3 : is_used c1 (k_pid a) = true) by exact Hu.
  rewrite A1, A2, Rs. cbn [andb].
  unfold send_pubrel. cbv zeta.
  change (k_ver (ack_pkt g T_PUBREL V311 (k_pid a) None)) with V311. change (k_pid (ack_pkt g T_PUBREL V311 (k_pid a) None)) with (k_pid a).
  cbn [version_eqb andb]. rewrite A2, Rs, A3. cbn [negb andb].
  assert (Hfin : forall cx, c_qos2 cx = c_qos2 c ->
     match bindr (send_and_post cx (ack_pkt g T_PUBREL V311 (k_pid a) None) None [])
                 (fun '(c0, e1) => let '(c2, e2) := refresh_pingreq_recv c0 in Ok (c2, e1 ++ e2 ++ [ENotify a])) with
     | Ok (c2, _) => c_qos2 c2 = c_qos2 c
     | Panic _ => True end).
  { intros cx H1. pose proof (send_and_post_x cx (ack_pkt g T_PUBREL V311 (k_pid a) None) None) as K.
    destruct (send_and_post cx _ None []) as [[c2 e]|]; cbn [bindr]; [|exact I]. destruct K as (_ & _ & _ & _ & _ & _ & _ & K8).
    pose proof (refresh_q c2) as H3. destruct (refresh_pingreq_recv c2) as [c3 e3]. cbn [fst] in H3. congruence. }
  destruct (c_need_store c1) eqn:En.
  - unfold store_add. change (k_pid (ack_pkt g T_PUBREL V311 (k_pid a) None)) with (k_pid a). rewrite Hs. cbn [bindr].
    conn_simpl_goal. rewrite A2, Rs. apply Hfin; reflexivity.
  - cbn [bindr]. conn_simpl_goal. rewrite A2, Rs. apply Hfin; reflexivity.
Qed.

Lemma sender_final_q g c a (r : N) : OWN g c -> ready c -> k_ver a = V311 -> k_type a = r -> (r = T_PUBACK \/ r = T_PUBCOMP) ->
  mem (k_pid a) (if r =? T_PUBACK then c_puback c else c_pubcomp c) = true -> is_used c (k_pid a) = true ->
  match deliver g c a with
  | Ok (c2, _) => c_qos2 c2 = c_qos2 c
  | Panic _ => True
  end.
Proof.
  intros HO [Rv Rs] Hva Hta Hr Hm Hu.
  unfold deliver. unfold dispatch_recv. rewrite Hta, Rv.
  assert (Hfin : forall c1, OWN g c1 -> is_used c1 (k_pid a) = true ->
            match bindr (release_if_used c1 (k_pid a)) (fun '(c0, e1) => let '(c3, e2) := refresh_pingreq_recv c0 in Ok (c3, e1 ++ e2 ++ [ENotify a])) with
            | Ok (c2, _) => c_qos2 c2 = c_qos2 c1
            | Panic _ => True end).
  { intros c1 O1 U1. unfold release_if_used. rewrite U1. unfold is_used, pm_is_used in U1.
    destruct (release_ok g _ _ (o_wf _ _ _ _ _ _ _ _ _ O1) U1) as (a' & Er & _). rewrite Er. cbn [bindr].
    destruct (release_used_spec g _ _ a' (o_wf _ _ _ _ _ _ _ _ _ O1) U1 Er) as [_ Hrel].
    pose proof (refresh_keeps (set_pid c1 a')) as K. cbv zeta in K.
    destruct (refresh_pingreq_recv (set_pid c1 a')) as [c3 e2]. cbn [fst] in K.
    destruct K as (_ & _ & _ & K4). conn_simpl. exact K4. }
  destruct Hr as [-> | ->].
  - change (T_PUBACK =? 1) with false. change (T_PUBACK =? 2) with false. change (T_PUBACK =? 3) with false.
    change ((T_PUBACK =? 4) || (T_PUBACK =? 5) || (T_PUBACK =? 7) || (T_PUBACK =? 9) || (T_PUBACK =? 11)) with true. cbv iota.
    unfold recv_ack. cbv zeta. change (T_PUBACK =? T_PUBACK) with true in *. cbv iota in *. rewrite Hm. cbn [version_eqb].
    destruct (ack_PA_own g c (k_pid a) HO Hm) as (O1 & _ & _). cbv zeta in O1. rewrite Rv in O1.
    apply (Hfin _ O1). unfold is_used, store_erase in *. conn_simpl_goal. exact Hu.
  - change (T_PUBCOMP =? 1) with false. change (T_PUBCOMP =? 2) with false. change (T_PUBCOMP =? 3) with false.
    change ((T_PUBCOMP =? 4) || (T_PUBCOMP =? 5) || (T_PUBCOMP =? 7) || (T_PUBCOMP =? 9) || (T_PUBCOMP =? 11)) with true. cbv iota.
    unfold recv_ack. cbv zeta. change (T_PUBCOMP =? T_PUBACK) with false in *. change (T_PUBCOMP =? T_PUBREC) with false.
    change (T_PUBCOMP =? T_PUBCOMP) with true. cbv iota in *. rewrite Hm. cbn [version_eqb].
    destruct (ack_PC_own g c (k_pid a) HO Hm) as (O1 & _ & _). cbv zeta in O1. rewrite Rv in O1.
    apply (Hfin _ O1). unfold is_used, store_erase in *. conn_simpl_goal. exact Hu.
Qed.

(* ---- a receiver's steps leave its sender role alone ---- *)
Lemma receiver_f8 g c x : ready c -> c_auto_pub c = true ->
  (k_type x = T_PUBLISH /\ (k_qos x =? 0) = false) \/ k_type x = T_PUBREL ->
  match deliver g c x with Ok (c1, _) => F8 c1 c | Panic _ => True end.
Proof.
  intros [Rv Rs] Ha Hk. unfold deliver, dispatch_recv. rewrite Rv.
  assert (Hfin : forall c0 t, F8 c0 c -> c_status c0 = c_status c ->
            match bindr (send_puback_like c0 (ack_pkt g t V311 (k_pid x) None)) (fun '(c1, e1) => let '(c2, e2) := refresh_pingreq_recv c1 in Ok (c2, e1 ++ e2 ++ [ENotify x])) with
            | Ok (c2, _) => F8 c2 c | Panic _ => True end).
  { intros c0 t F0 S0. assert (R0 : ready c0) by (apply (ready_f8 c0 c F0 S0); split; assumption).
    pose proof (auto_ack_x g c0 t (k_pid x) R0) as H. destruct (send_puback_like c0 _) as [[c1 e1]|]; cbn [bindr]; [|exact I].
    destruct H as (_ & _ & _ & F1 & _). pose proof (refresh_keeps c1) as K. cbv zeta in K. destruct (refresh_pingreq_recv c1) as [c2 e2]. cbn [fst] in K.
    destruct K as (F2 & _). exact (f8_trans _ _ _ F2 (f8_trans _ _ _ F1 F0)). }
  destruct Hk as [[Ht Hq0]|Ht]; rewrite Ht.
  - change (T_PUBLISH =? 1) with false. change (T_PUBLISH =? 2) with false. change (T_PUBLISH =? 3) with true. cbn [version_eqb]. cbv iota.
    unfold recv_publish_v311. cbv zeta. rewrite Hq0. destruct (k_qos x =? 1).
    + rewrite Rs, Ha. cbn [andb]. apply Hfin; [apply f8_refl|reflexivity].
    + set (c0 := set_qos2 c (ins (k_pid x) (c_qos2 c))). change (c_auto_pub c0) with (c_auto_pub c). rewrite Rs, Ha. cbn [andb orb].
      assert (F0 : F8 c0 c) by (unfold F8; repeat split). assert (S0 : c_status c0 = c_status c) by reflexivity. clearbody c0.
      pose proof (Hfin c0 T_PUBREC F0 S0) as H.
      destruct (send_puback_like c0 _) as [[c1 e1]|]; cbn [bindr] in *; [|exact I]. destruct (refresh_pingreq_recv c1) as [c2 e2]. exact H.
  - change (T_PUBREL =? 1) with false. change (T_PUBREL =? 2) with false. change (T_PUBREL =? 3) with false.
    change ((T_PUBREL =? 4) || (T_PUBREL =? 5) || (T_PUBREL =? 7) || (T_PUBREL =? 9) || (T_PUBREL =? 11)) with false.
    change (T_PUBREL =? 6) with true. cbv iota. unfold recv_pubrel. cbv zeta.
    set (c0 := set_qos2 c (del (k_pid x) (c_qos2 c))). change (c_auto_pub c0) with (c_auto_pub c). change (c_status c0) with (c_status c). rewrite Rs, Ha. cbn [andb version_eqb].
    assert (F0 : F8 c0 c) by (unfold F8; repeat split). assert (S0 : c_status c0 = c_status c) by reflexivity. clearbody c0.
    exact (Hfin c0 T_PUBCOMP F0 S0).
Qed.

Lemma sender_sends_q c p q : v311_pub p q -> 1 <= q <= 2 -> status_eqb (c_status c) Connected = true ->
  is_used c (k_pid p) = true -> store_has (k_pid p) (c_store c) = false ->
  match send_publish_v311 c p with
  | Ok (c1, _) => c_qos2 c1 = c_qos2 c
  | Panic _ => True
  end.
Proof.
  intros (Ht & Hv & Hq) Hr Rs Hu Hs. unfold send_publish_v311. cbv zeta. rewrite Hq.
  assert (E0 : (q =? 0) = false) by (apply N.eqb_neq; lia). rewrite E0. cbn [negb]. rewrite Rs, Hu. cbn [negb andb].
  assert (Hfin : forall cx rel, c_qos2 cx = c_qos2 c ->
            match send_and_post cx p rel [] with
            | Ok (c1, _) => c_qos2 c1 = c_qos2 c
            | Panic _ => True end).
  { intros cx rel H1. pose proof (send_and_post_x cx p rel) as K. destruct (send_and_post cx p rel []) as [[c1 e]|]; [|exact I].
    destruct K as (_ & _ & _ & _ & _ & _ & _ & K8). congruence. }
  destruct (can_store_now c).
  - unfold store_add. change (k_pid (set_dup p true)) with (k_pid p). rewrite Hs. cbn [bindr].
    destruct (N.eqb_spec q 2) as [E2|E2]; conn_simpl_goal; rewrite Rs; apply Hfin; reflexivity.
  - cbn [bindr]. destruct (N.eqb_spec q 2) as [E2|E2]; conn_simpl_goal; rewrite Rs; apply Hfin; reflexivity.
Qed.

(* ---- the one-direction invariant only looks at the sender role of one endpoint and the receiver role of the other ---- *)
Lemma inv_frame_sender gs gr c c' r qs qr pu de : inv gs gr (mkSys c r qs qr pu de) -> F8 c' c -> ready c' -> c_auto_pub c' = true ->
  inv gs gr (mkSys c' r qs qr pu de).
Proof.
  unfold inv. cbn [cs cr qsr qrs published delivered]. intros (HO & _ & _ & H4 & H5 & H6 & H7 & H8 & H9 & H10 & H11) F R A.
  pose proof F as (F1 & F2 & F3 & F4 & F5 & _).
  split; [exact (f8_own gs c c' F HO)|]. split; [exact R|]. split; [exact A|]. split; [exact H4|]. split; [exact H5|]. split; [exact H6|].
  split; [eapply Forall_impl; [|exact H7]; intros x Hx; unfold fl_sr, is_used in *; rewrite F1, F3, F4, F5; exact Hx|].
  split; [eapply Forall_impl; [|exact H8]; intros x Hx; unfold fl_rs, is_used in *; rewrite F1, F3, F4, F5; exact Hx|].
  split; [exact H9|]. split; [exact H10|exact H11].
Qed.
Lemma inv_frame_receiver gs gr c r r' qs qr pu de : inv gs gr (mkSys c r qs qr pu de) -> ready r' -> c_auto_pub r' = true -> c_qos2 r' = c_qos2 r ->
  inv gs gr (mkSys c r' qs qr pu de).
Proof.
  unfold inv. cbn [cs cr qsr qrs published delivered]. intros (H1 & H2 & H3 & _ & _ & H6 & H7 & H8 & H9 & H10 & H11) R A Q.
  rewrite Q. split; [exact H1|]. split; [exact H2|]. split; [exact H3|]. split; [exact R|]. split; [exact A|]. split; [exact H6|].
  split; [exact H7|]. split; [exact H8|]. split; [exact H9|]. split; [exact H10|exact H11].
Qed.

(* ---- the two-way system ---- *)
Section Bi.
Variables gA gB : cfg.

Record bi := mkBi { ea : conn; eb : conn; qab : list pkt; qba : list pkt;
                    pubA : list pkt; delB : list pkt; pubB : list pkt; delA : list pkt }.
Inductive act2 := PubA (p : pkt) | PubB (p : pkt) | ToB | ToA.
Inductive res2 := Next2 (s : bi) | Skip2 | Bad2.

(* the two kinds of traffic on one link *)
Definition is_sr (x : pkt) : bool := (k_type x =? T_PUBLISH) || (k_type x =? T_PUBREL).
Definition sr_part (l : list pkt) : list pkt := filter is_sr l.
Definition rs_part (l : list pkt) : list pkt := filter (fun x => negb (is_sr x)) l.

(* one packet handed to an endpoint: what it requests goes onto the other link; Bad as in PairConc *)
Inductive dres := DNext (c : conn) (out : list pkt) (d : list pkt) | DBad.
Definition deliver_to (g : cfg) (c : conn) (x : pkt) : dres :=
  match deliver g c x with
  | Ok (c1, e) =>
    if is_sr x then
      match one (sends e) with
      | Some a => if negb (none (errors e)) then DBad else DNext c1 [a] (filter is_pub (notifies e))
      | None => DBad
      end
    else
      if negb (none (errors e)) then DBad else
      match sends e with
      | [] => match released e with [i] => if i =? k_pid x then DNext c1 [] [] else DBad | _ => DBad end
      | [r] => if none (released e) then DNext c1 [r] [] else DBad
      | _ => DBad
      end
  | Panic _ => DBad
  end.

Definition do_toB (s : bi) : res2 :=
  match qab s with
  | [] => Skip2
  | x :: t => match deliver_to gB (eb s) x with
              | DNext b' out d => Next2 (mkBi (ea s) b' t (qba s ++ out) (pubA s) (delB s ++ d) (pubB s) (delA s))
              | DBad => Bad2
              end
  end.
Definition do_toA (s : bi) : res2 :=
  match qba s with
  | [] => Skip2
  | x :: t => match deliver_to gA (ea s) x with
              | DNext a' out d => Next2 (mkBi a' (eb s) (qab s ++ out) t (pubA s) (delB s) (pubB s) (delA s ++ d))
              | DBad => Bad2
              end
  end.

Inductive pres := PNext (c : conn) (p1 : pkt) | PSkip | PBad.
Definition publish_at (g : cfg) (c : conn) (p : pkt) : pres :=
  let id := k_pid p in
  if negb ((1 <=? id) && (id <=? g_idmax g) && negb (is_used c id) && freshb c id) then PSkip else
  match step g c (ORegister id) with
  | Ok (c0, [], [1]) =>
    match step g c0 (OSend p) with
    | Ok (c1, e1, _) =>
      match one (sends e1) with
      | Some p1 => if negb (none (notifies e1) && none (errors e1)) then PBad else PNext c1 p1
      | None => PBad
      end
    | Panic _ => PBad
    end
  | _ => PBad
  end.
Definition do_pubA (s : bi) (p : pkt) : res2 :=
  match publish_at gA (ea s) p with
  | PNext a' p1 => Next2 (mkBi a' (eb s) (qab s ++ [p1]) (qba s) (pubA s ++ [p]) (delB s) (pubB s) (delA s))
  | PSkip => Skip2 | PBad => Bad2
  end.
Definition do_pubB (s : bi) (p : pkt) : res2 :=
  match publish_at gB (eb s) p with
  | PNext b' p1 => Next2 (mkBi (ea s) b' (qab s) (qba s ++ [p1]) (pubA s) (delB s) (pubB s ++ [p]) (delA s))
  | PSkip => Skip2 | PBad => Bad2
  end.

Definition do_act2 (s : bi) (a : act2) : res2 :=
  match a with PubA p => do_pubA s p | PubB p => do_pubB s p | ToB => do_toB s | ToA => do_toA s end.
Fixpoint run_sched2 (s : bi) (l : list act2) : option bi :=
  match l with
  | [] => Some s
  | a :: t => match do_act2 s a with Next2 s' => run_sched2 s' t | Skip2 => run_sched2 s t | Bad2 => None end
  end.

(* the two one-way views *)
Definition vAB (s : bi) : sys := mkSys (ea s) (eb s) (sr_part (qab s)) (rs_part (qba s)) (pubA s) (delB s).
Definition vBA (s : bi) : sys := mkSys (eb s) (ea s) (sr_part (qba s)) (rs_part (qab s)) (pubB s) (delA s).
Definition inv2 (s : bi) : Prop := inv gA gB (vAB s) /\ inv gB gA (vBA s).

Lemma sr_app a b : sr_part (a ++ b) = sr_part a ++ sr_part b. Proof. apply filter_app. Qed.
Lemma rs_app a b : rs_part (a ++ b) = rs_part a ++ rs_part b. Proof. apply filter_app. Qed.
Lemma fl_sr_is_sr g c x : fl_sr g c x -> is_sr x = true /\ k_ver x = V311 /\ ((k_type x = T_PUBLISH /\ (k_qos x =? 0) = false) \/ k_type x = T_PUBREL).
Proof.
  intros (_ & [[(Ht & Hv & Hq) _]|[[(Ht & Hv & Hq) _]|[He _]]]).
  - unfold is_sr. rewrite Ht, Hq. repeat split; [exact Hv|left; split; reflexivity].
  - unfold is_sr. rewrite Ht, Hq. repeat split; [exact Hv|left; split; reflexivity].
  - rewrite He. repeat split. right. reflexivity.
Qed.
Lemma fl_rs_not_sr g c x : fl_rs g c x -> is_sr x = false /\ k_ver x = V311 /\ (k_type x = T_PUBACK \/ k_type x = T_PUBREC \/ k_type x = T_PUBCOMP).
Proof.
  intros (_ & [[He _]|[[He _]|[He _]]]); rewrite He; repeat split; [left|right; left|right; right]; reflexivity.
Qed.

Lemma part_sr x : is_sr x = true -> sr_part [x] = [x] /\ rs_part [x] = [].
Proof. intro E. unfold sr_part, rs_part. cbn [filter]. rewrite E. split; reflexivity. Qed.
Lemma part_rs x : is_sr x = false -> sr_part [x] = [] /\ rs_part [x] = [x].
Proof. intro E. unfold sr_part, rs_part. cbn [filter]. rewrite E. split; reflexivity. Qed.

(* an acknowledgement processed by the sender role leaves the handled set of the receiver role alone *)
Lemma sender_ack_q gX gY c x : OWN gX c -> ready c -> c_auto_pub c = true -> fl_rs gY c x ->
  match deliver gX c x with Ok (c2, _) => c_qos2 c2 = c_qos2 c | Panic _ => True end.
Proof.
  intros HO R A (Hu & [[He Hm]|[[He Hm]|[He Hm]]]).
  - apply (sender_final_q gX c x T_PUBACK HO R); [rewrite He; reflexivity|rewrite He; reflexivity|now left|exact Hm|exact Hu].
  - apply (sender_pubrec_q gX c x HO R A); [rewrite He; reflexivity|rewrite He; reflexivity|exact Hm|exact Hu].
  - apply (sender_final_q gX c x T_PUBCOMP HO R); [rewrite He; reflexivity|rewrite He; reflexivity|now right|exact Hm|exact Hu].
Qed.

(* ---- one delivery, seen from both one-way systems ---- *)
Lemma deliver_step gX gY (X Y : conn) qyx pubX delY pubY delX x t :
  inv gX gY (mkSys X Y (sr_part (x :: t)) (rs_part qyx) pubX delY) ->
  inv gY gX (mkSys Y X (sr_part qyx) (rs_part (x :: t)) pubY delX) ->
  match deliver_to gY Y x with
  | DNext Y' out d => inv gX gY (mkSys X Y' (sr_part t) (rs_part (qyx ++ out)) pubX (delY ++ d)) /\
                      inv gY gX (mkSys Y' X (sr_part (qyx ++ out)) (rs_part t) pubY delX) /\
                      S (measure (mkSys X Y' (sr_part t) (rs_part (qyx ++ out)) pubX (delY ++ d)) +
                         measure (mkSys Y' X (sr_part (qyx ++ out)) (rs_part t) pubY delX)) =
                      (measure (mkSys X Y (sr_part (x :: t)) (rs_part qyx) pubX delY) +
                       measure (mkSys Y X (sr_part qyx) (rs_part (x :: t)) pubY delX))%nat
  | DBad => False
  end.
Proof.
  intros H1 H2. unfold deliver_to. destruct (is_sr x) eqn:Es.
  - (* a PUBLISH or PUBREL of X: Y acts as receiver *)
    assert (E1 : sr_part (x :: t) = x :: sr_part t) by (unfold sr_part; cbn [filter]; now rewrite Es).
    assert (E2 : rs_part (x :: t) = rs_part t) by (unfold rs_part; cbn [filter]; now rewrite Es).
    rewrite E1 in *. rewrite E2 in *.
    pose proof (to_r_step gX gY _ H1) as T. unfold do_to_r in T. cbn [cs cr qsr qrs published delivered] in T.
    pose proof H1 as (_ & _ & _ & RY & AY & _ & Fsr & _). cbn [cs cr qsr qrs published delivered] in RY, AY, Fsr.
    pose proof (Forall_inv Fsr) as Hfx. destruct (fl_sr_is_sr gX X x Hfx) as (_ & _ & Hk).
    pose proof (receiver_f8 gY Y x RY AY Hk) as HF.
    destruct (deliver gY Y x) as [[Y1 e]|]; [|exact T]. destruct (one (sends e)) as [a|]; [|exact T]. destruct (negb (none (errors e))); [exact T|].
    destruct T as [T Tm].
    pose proof T as (_ & _ & _ & RY1 & AY1 & _ & _ & Frs' & _). cbn [cs cr qsr qrs published delivered] in RY1, AY1, Frs'.
    apply Forall_app in Frs' as [_ Fa]. pose proof (Forall_inv Fa) as Hfa. destruct (fl_rs_not_sr gY X a Hfa) as (Ea & _).
    destruct (part_rs a Ea) as [P1 P2]. rewrite rs_app, sr_app, P1, P2, app_nil_r.
    split; [exact T|]. split; [apply (inv_frame_sender gY gX Y Y1); [exact H2|exact HF|exact RY1|exact AY1]|].
    unfold measure in *. cbn [qsr qrs] in *. lia.
  - (* an acknowledgement from X: Y acts as sender *)
    assert (E1 : sr_part (x :: t) = sr_part t) by (unfold sr_part; cbn [filter]; now rewrite Es).
    assert (E2 : rs_part (x :: t) = x :: rs_part t) by (unfold rs_part; cbn [filter]; now rewrite Es).
    rewrite E1 in *. rewrite E2 in *.
    pose proof (to_s_step gY gX _ H2) as T. unfold do_to_s in T. cbn [cs cr qsr qrs published delivered] in T.
    pose proof H2 as (OY & RY & AY & _ & _ & _ & _ & Frs & _). cbn [cs cr qsr qrs published delivered] in OY, RY, AY, Frs.
    pose proof (Forall_inv Frs) as Hfx. pose proof (sender_ack_q gY gX Y x OY RY AY Hfx) as HQ.
    destruct (deliver gY Y x) as [[Y1 e]|]; [|exact T]. destruct (negb (none (errors e))); [exact T|].
    destruct (sends e) as [|r [|r2 l2]]; [| |exact T].
    + destruct (released e) as [|i [|i2 l2]]; [exact T| |exact T]. destruct (i =? k_pid x); [|exact T].
      destruct T as [T Tm]. rewrite !app_nil_r. pose proof T as (_ & RY1 & AY1 & _). cbn [cs] in RY1, AY1.
      split; [apply (inv_frame_receiver gX gY X Y Y1); [exact H1|exact RY1|exact AY1|exact HQ]|]. split; [exact T|].
      unfold measure in *. cbn [qsr qrs] in *. lia.
    + destruct (none (released e)); [|exact T]. destruct T as [T Tm].
      pose proof T as (_ & RY1 & AY1 & _ & _ & _ & Fsr' & _). cbn [cs cr qsr qrs published delivered] in RY1, AY1, Fsr'.
      apply Forall_app in Fsr' as [_ Fr]. pose proof (Forall_inv Fr) as Hfr. destruct (fl_sr_is_sr gY Y1 r Hfr) as (Er & _).
      destruct (part_sr r Er) as [P1 P2]. rewrite rs_app, sr_app, P1, P2, !app_nil_r.
      split; [apply (inv_frame_receiver gX gY X Y Y1); [exact H1|exact RY1|exact AY1|exact HQ]|]. split; [exact T|].
      unfold measure in *. cbn [qsr qrs] in *. lia.
Qed.

(* ---- one publication, seen from both one-way systems ---- *)
Lemma publish_step gX gY (X Y : conn) qxy qyx pubX delY pubY delX p q : v311_pub p q -> q = 1 \/ q = 2 ->
  inv gX gY (mkSys X Y (sr_part qxy) (rs_part qyx) pubX delY) ->
  inv gY gX (mkSys Y X (sr_part qyx) (rs_part qxy) pubY delX) ->
  match publish_at gX X p with
  | PNext X' p1 => inv gX gY (mkSys X' Y (sr_part (qxy ++ [p1])) (rs_part qyx) (pubX ++ [p]) delY) /\
                   inv gY gX (mkSys Y X' (sr_part qyx) (rs_part (qxy ++ [p1])) pubY delX)
  | PSkip => True
  | PBad => False
  end.
Proof.
  intros Hp Hq H1 H2. pose proof (pub_ok gX gY _ p q H1 Hp Hq) as T. unfold do_pub in T. cbn [cs cr qsr qrs published delivered] in T. cbv zeta in T.
  unfold publish_at. cbv zeta.
  destruct (negb _) eqn:Epre; [exact I|]. apply negb_false_iff in Epre.
  apply andb_true_iff in Epre as [Epre E4]. apply andb_true_iff in Epre as [Epre E3]. apply andb_true_iff in Epre as [E1 E2].
  apply N.leb_le in E1, E2. apply negb_true_iff in E3.
  pose proof H1 as (OX & RX & AX & _). cbn [cs] in OX, RX, AX.
  destruct (register_ae gX X (k_pid p) OX (conj E1 E2) E3) as (a & Ereg & _). rewrite Ereg in *.
  set (X0 := set_pid X a) in *.
  assert (HX0 : c_qos2 X0 = c_qos2 X) by reflexivity.
  assert (HS0 : c_status X0 = c_status X) by reflexivity. assert (HV0 : c_version X0 = c_version X) by reflexivity.
  assert (R0 : ready X0) by (destruct RX as [R1 R2]; split; [congruence|now rewrite HS0]).
  rewrite (step_send_publish_v311 gX X0 p q (proj1 R0) Hp) in *.
  destruct (send_publish_v311 X0 p) as [[X1 e1]|] eqn:Es; cbn [bindr] in *; [|exact T].
  destruct (one (sends e1)) as [p1|]; [|exact T]. destruct (negb _); [exact T|].
  pose proof T as (_ & RX1 & AX1 & _ & _ & _ & Fsr' & _). cbn [cs cr qsr qrs published delivered] in RX1, AX1, Fsr'.
  apply Forall_app in Fsr' as [_ Fp]. pose proof (Forall_inv Fp) as Hfp. destruct (fl_sr_is_sr gX X1 p1 Hfp) as (Ep & _).
  destruct (part_sr p1 Ep) as [P1 P2]. rewrite rs_app, sr_app, P1, P2, app_nil_r.
  split; [exact T|]. apply (inv_frame_receiver gY gX Y X X1); [exact H2|exact RX1|exact AX1|].
  (* the handled set of X is untouched *)
  rewrite <- HX0. destruct Hp as (Ht & Hv & Hqq).
  assert (E0 : (q =? 0) = false) by (apply N.eqb_neq; destruct Hq; lia).
  revert Es. unfold send_publish_v311. cbv zeta. rewrite Hqq, E0. cbn [negb].
  destruct (negb (status_eqb (c_status X0) Connected) && negb (can_store_now X0)).
  { destruct (release_if_used X0 (k_pid p)) as [[c' e']|] eqn:Er; cbn [bindr]; [|discriminate]. intro H. injection H as <- _. exact (release_q _ _ _ _ Er). }
  destruct (negb (is_used X0 (k_pid p))); [intro H; injection H as <- _; reflexivity|].
  destruct (can_store_now X0).
  - destruct (store_add X0 (set_dup p true)) as [c'|] eqn:Ea; cbn [bindr]; [|discriminate]. pose proof (store_add_q _ _ _ Ea) as Hq'.
    assert (Hst : c_status c' = c_status X0) by (unfold store_add in Ea; destruct (store_has _ _); [discriminate|]; injection Ea as <-; reflexivity).
    destruct (q =? 2); conn_simpl_goal; rewrite Hst;
    (destruct (status_eqb (c_status X0) Connected); [|intro H; injection H as <- _; conn_simpl_goal; exact Hq']);
    unfold send_and_post;
    match goal with |- (let '(_, _) := send_post_process ?y in _) = _ -> _ => pose proof (post_q y) as H4; destruct (send_post_process y) as [c4 e4] end;
    intro H; injection H as <- _; cbn [fst] in H4; conn_simpl; congruence.
  - cbn [bindr]. destruct (q =? 2); conn_simpl_goal;
    (destruct (status_eqb (c_status X0) Connected); [|intro H; injection H as <- _; reflexivity]);
    unfold send_and_post;
    match goal with |- (let '(_, _) := send_post_process ?y in _) = _ -> _ => pose proof (post_q y) as H4; destruct (send_post_process y) as [c4 e4] end;
    intro H; injection H as <- _; cbn [fst] in H4; conn_simpl; congruence.
Qed.

(* ---- every action of the two-way system ---- *)
Definition measure2 (s : bi) : nat := (measure (vAB s) + measure (vBA s))%nat.

Lemma toB_step s : inv2 s -> match do_toB s with Next2 s' => inv2 s' /\ S (measure2 s') = measure2 s | Skip2 => qab s = [] | Bad2 => False end.
Proof.
  destruct s as [a b qab0 qba0 pa db pb da]. unfold inv2, do_toB, measure2, vAB, vBA. cbn [ea eb qab qba pubA delB pubB delA].
  intros [H1 H2]. destruct qab0 as [|x t]; [reflexivity|].
  pose proof (deliver_step gA gB a b qba0 pa db pb da x t H1 H2) as H.
  destruct (deliver_to gB b x) as [b' out d|]; [|exact H]. cbn [ea eb qab qba pubA delB pubB delA]. destruct H as (K1 & K2 & K3).
  split; [split; assumption|exact K3].
Qed.
Lemma toA_step s : inv2 s -> match do_toA s with Next2 s' => inv2 s' /\ S (measure2 s') = measure2 s | Skip2 => qba s = [] | Bad2 => False end.
Proof.
  destruct s as [a b qab0 qba0 pa db pb da]. unfold inv2, do_toA, measure2, vAB, vBA. cbn [ea eb qab qba pubA delB pubB delA].
  intros [H1 H2]. destruct qba0 as [|x t]; [reflexivity|].
  pose proof (deliver_step gB gA b a qab0 pb da pa db x t H2 H1) as H.
  destruct (deliver_to gA a x) as [a' out d|]; [|exact H]. cbn [ea eb qab qba pubA delB pubB delA]. destruct H as (K1 & K2 & K3).
  split; [split; assumption|]. unfold measure in *. cbn [qsr qrs] in *. lia.
Qed.
Lemma pubA_ok s p q : v311_pub p q -> q = 1 \/ q = 2 -> inv2 s -> match do_pubA s p with Next2 s' => inv2 s' | Skip2 => True | Bad2 => False end.
Proof.
  destruct s as [a b qab0 qba0 pa db pb da]. unfold inv2, do_pubA, vAB, vBA. cbn [ea eb qab qba pubA delB pubB delA].
  intros Hp Hq [H1 H2]. pose proof (publish_step gA gB a b qab0 qba0 pa db pb da p q Hp Hq H1 H2) as H.
  destruct (publish_at gA a p) as [a' p1| |]; [|exact I|exact H]. cbn [ea eb qab qba pubA delB pubB delA]. exact H.
Qed.
Lemma pubB_ok s p q : v311_pub p q -> q = 1 \/ q = 2 -> inv2 s -> match do_pubB s p with Next2 s' => inv2 s' | Skip2 => True | Bad2 => False end.
Proof.
  destruct s as [a b qab0 qba0 pa db pb da]. unfold inv2, do_pubB, vAB, vBA. cbn [ea eb qab qba pubA delB pubB delA].
  intros Hp Hq [H1 H2]. pose proof (publish_step gB gA b a qba0 qab0 pb da pa db p q Hp Hq H2 H1) as H.
  destruct (publish_at gB b p) as [b' p1| |]; [|exact I|exact H]. cbn [ea eb qab qba pubA delB pubB delA]. destruct H as [K1 K2]. split; assumption.
Qed.

Definition good_act2 (a : act2) : Prop := match a with PubA p | PubB p => v311_pub p 1 \/ v311_pub p 2 | _ => True end.

Lemma act2_ok s a : inv2 s -> good_act2 a -> match do_act2 s a with Next2 s' => inv2 s' | Skip2 => True | Bad2 => False end.
Proof.
  intros Hi Hg. destruct a as [p|p| |]; cbn [do_act2 good_act2] in *.
  - destruct Hg as [Hg|Hg]; [apply (pubA_ok s p 1 Hg); [now left|exact Hi]|apply (pubA_ok s p 2 Hg); [now right|exact Hi]].
  - destruct Hg as [Hg|Hg]; [apply (pubB_ok s p 1 Hg); [now left|exact Hi]|apply (pubB_ok s p 2 Hg); [now right|exact Hi]].
  - pose proof (toB_step s Hi) as H. destruct (do_toB s); [apply H|exact I|exact H].
  - pose proof (toA_step s Hi) as H. destruct (do_toA s); [apply H|exact I|exact H].
Qed.

Theorem sched2_ok : forall l s, inv2 s -> Forall good_act2 l -> exists s', run_sched2 s l = Some s' /\ inv2 s'.
Proof.
  induction l as [|a t IH]; intros s Hi Hf; cbn [run_sched2]; [exists s; split; [reflexivity|exact Hi]|].
  inversion Hf as [|? ? Ha Ht]; subst. pose proof (act2_ok s a Hi Ha) as H.
  destruct (do_act2 s a) as [s'| |]; [exact (IH s' H Ht)|exact (IH s Hi Ht)|destruct H].
Qed.

(* the links drain *)
Fixpoint drain2 (n : nat) : list act2 := match n with O => [] | S k => ToB :: ToA :: drain2 k end.

Lemma measure2_zero s : measure2 s = 0%nat -> sr_part (qab s) = [] /\ rs_part (qab s) = [] /\ sr_part (qba s) = [] /\ rs_part (qba s) = [].
Proof.
  unfold measure2. intro H. destruct (measure_zero (vAB s)) as [Q1 Q2]; [lia|]. destruct (measure_zero (vBA s)) as [Q3 Q4]; [lia|].
  cbn [vAB vBA qsr qrs] in *. repeat split; assumption.
Qed.
Lemma parts_nil l : sr_part l = [] -> rs_part l = [] -> l = [].
Proof.
  destruct l as [|x t]; [reflexivity|]. unfold sr_part, rs_part. cbn [filter]. destruct (is_sr x); cbn [negb]; discriminate.
Qed.

Theorem drain2_ok : forall n s, inv2 s -> (measure2 s <= n)%nat ->
  exists s', run_sched2 s (drain2 n) = Some s' /\ inv2 s' /\ qab s' = [] /\ qba s' = [] /\ pubA s' = pubA s /\ pubB s' = pubB s.
Proof.
  assert (HpB : forall s s', do_toB s = Next2 s' -> pubA s' = pubA s /\ pubB s' = pubB s).
  { intros s s'. unfold do_toB. destruct (qab s); [discriminate|]. destruct (deliver_to gB (eb s) p); [|discriminate]. intro H. injection H as <-. split; reflexivity. }
  assert (HpA : forall s s', do_toA s = Next2 s' -> pubA s' = pubA s /\ pubB s' = pubB s).
  { intros s s'. unfold do_toA. destruct (qba s); [discriminate|]. destruct (deliver_to gA (ea s) p); [|discriminate]. intro H. injection H as <-. split; reflexivity. }
  induction n as [|k IH]; intros s Hi Hm.
  - assert (H0 : measure2 s = 0%nat) by lia. destruct (measure2_zero s H0) as (Q1 & Q2 & Q3 & Q4). exists s. cbn [drain2 run_sched2].
    split; [reflexivity|]. split; [exact Hi|]. split; [now apply parts_nil|]. split; [now apply parts_nil|]. split; reflexivity.
  - cbn [drain2 run_sched2 do_act2]. pose proof (toB_step s Hi) as H1. destruct (do_toB s) as [s1| |] eqn:E1; [| |destruct H1].
    + destruct H1 as [Hi1 Hm1]. destruct (HpB s s1 E1) as [P1 P1'].
      pose proof (toA_step s1 Hi1) as H2. destruct (do_toA s1) as [s2| |] eqn:E2; [| |destruct H2].
      * destruct H2 as [Hi2 Hm2]. destruct (HpA s1 s2 E2) as [P2 P2'].
        destruct (IH s2 Hi2 ltac:(lia)) as (s' & R & I' & Q1 & Q2 & P & P'). exists s'. split; [exact R|]. split; [exact I'|]. split; [exact Q1|]. split; [exact Q2|]. split; congruence.
      * destruct (IH s1 Hi1 ltac:(lia)) as (s' & R & I' & Q1 & Q2 & P & P'). exists s'. split; [exact R|]. split; [exact I'|]. split; [exact Q1|]. split; [exact Q2|]. split; congruence.
    + pose proof (toA_step s Hi) as H2. destruct (do_toA s) as [s2| |] eqn:E2; [| |destruct H2].
      * destruct H2 as [Hi2 Hm2]. destruct (HpA s s2 E2) as [P2 P2'].
        destruct (IH s2 Hi2 ltac:(lia)) as (s' & R & I' & Q1 & Q2 & P & P'). exists s'. split; [exact R|]. split; [exact I'|]. split; [exact Q1|]. split; [exact Q2|]. split; congruence.
      * assert (H0 : measure2 s = 0%nat) by (unfold measure2, measure, vAB, vBA; cbn [qsr qrs]; rewrite H1, H2; reflexivity).
        destruct (IH s Hi ltac:(lia)) as (s' & R & I' & Q1 & Q2 & P & P'). exists s'. split; [exact R|]. split; [exact I'|]. split; [exact Q1|]. split; [exact Q2|]. split; assumption.
Qed.

(* BOTH DIRECTIONS AT ONCE: whatever the schedule of publications by either side and of deliveries on either link, nothing
   fails; and once the links have drained each side's application has been notified of exactly the messages the other
   side published, once each, in order *)
Theorem two_way_exactly_once l s : inv2 s -> Forall good_act2 l ->
  exists s1 s2, run_sched2 s l = Some s1 /\ run_sched2 s1 (drain2 (measure2 s1)) = Some s2 /\
                qab s2 = [] /\ qba s2 = [] /\ delB s2 = pubA s1 /\ delA s2 = pubB s1.
Proof.
  intros Hi Hf. destruct (sched2_ok l s Hi Hf) as (s1 & R1 & I1).
  destruct (drain2_ok (measure2 s1) s1 I1 (le_n _)) as (s2 & R2 & [I2 I2'] & Q1 & Q2 & P & P').
  exists s1, s2. split; [exact R1|]. split; [exact R2|]. split; [exact Q1|]. split; [exact Q2|].
  destruct I2 as (_ & _ & _ & _ & _ & _ & _ & _ & _ & _ & Hpd). destruct I2' as (_ & _ & _ & _ & _ & _ & _ & _ & _ & _ & Hpd').
  cbn [vAB vBA cs cr qsr qrs published delivered] in Hpd, Hpd'. rewrite Q1 in Hpd. rewrite Q2 in Hpd'.
  unfold sr_part in Hpd, Hpd'. cbn [filter] in Hpd, Hpd'. rewrite app_nil_r in Hpd, Hpd'. split; congruence.
Qed.

Lemma inv2_init a b : OWN gA a -> ready a -> c_auto_pub a = true -> c_qos2 a = [] -> OWN gB b -> ready b -> c_auto_pub b = true -> c_qos2 b = [] ->
  inv2 (mkBi a b [] [] [] [] [] []).
Proof. intros. split; apply inv_init; assumption. Qed.
End Bi.
