(* C10: connection-scoped state is dead at the next CONNECT; a closed object that starts a new
   session is indistinguishable from a fresh object with the same options. *)
From MQ Require Import Base.Prelude Alloc.Alloc Alloc.SetSpec Alloc.AllocProofs Framing.Framing
                       Conn.Types Conn.TopicAlias Conn.ConnRecord Conn.Step Conn.Run Corr.ConnTrace.

(* ---------- the allocator's bounds never change ---------- *)
Lemma a_deallocate_bounds a v a' :
  a_deallocate a v = Ok a' -> a_lo a' = a_lo a /\ a_hi a' = a_hi a /\ a_max a' = a_max a.
Proof.
  unfold a_deallocate.
  repeat first [ progress cbn [bindr]
               | match goal with |- context [match ?x with _ => _ end] => destruct x end
               | match goal with |- context [bindr ?x _] => destruct x end ];
  intro H; inversion H; subst; cbn [set_pool a_lo a_hi a_max]; auto.
Qed.

Lemma drain_release_bounds ids : forall a a' e,
  drain_release a ids = Ok (a', e) -> a_lo a' = a_lo a /\ a_hi a' = a_hi a /\ a_max a' = a_max a.
Proof.
  induction ids as [|id t IH]; intros a a' e; cbn [drain_release].
  - intro H; inversion H; auto.
  - destruct (pm_is_used a id); [|apply IH].
    unfold pm_release. destruct (a_deallocate a id) as [a1|] eqn:E1; cbn [bindr]; [|discriminate].
    destruct (drain_release a1 t) as [[a2 e2]|] eqn:E2; cbn [bindr]; [|discriminate].
    intro H; inversion H; subst.
    destruct (a_deallocate_bounds _ _ _ E1) as (H1 & H2 & H3).
    destruct (IH _ _ _ E2) as (H4 & H5 & H6). repeat split; congruence.
Qed.

(* ---------- what notify_closed leaves behind ---------- *)
Lemma cancel_timers_state c :
  fst (cancel_timers c) = set_t_resp (set_t_recv (set_t_send c false) false) false.
Proof. destruct c. unfold cancel_timers. conn_simpl_goal. destruct c_t_send, c_t_recv, c_t_resp; reflexivity. Qed.

Definition closed_shape (c : conn) : Prop :=
  c_status c = Disconnected /\ c_pb c = pb_init /\ c_ta_send c = None /\ c_ta_recv c = None /\
  c_mps_send c = MQTT_PACKET_SIZE_NO_LIMIT /\ c_mps_recv c = MQTT_PACKET_SIZE_NO_LIMIT /\
  c_suback c = [] /\ c_unsuback c = [] /\ c_t_send c = false /\ c_t_recv c = false /\ c_t_resp c = false.

(* the options and the identity of the object survive a close *)
Definition same_options (a b : conn) : Prop :=
  c_version a = c_version b /\ a_lo (c_pid a) = a_lo (c_pid b) /\ a_hi (c_pid a) = a_hi (c_pid b) /\
  a_max (c_pid a) = a_max (c_pid b) /\ c_offline a = c_offline b /\ c_auto_pub a = c_auto_pub b /\
  c_auto_ping a = c_auto_ping b /\ c_auto_map a = c_auto_map b /\ c_auto_replace a = c_auto_replace b /\
  c_user_ping a = c_user_ping b /\ c_pingresp_recv_to a = c_pingresp_recv_to b.

Ltac closed_walk :=
  unfold do_closed;
  repeat match goal with
         | |- context [drain_release ?a ?ids] =>
           let E := fresh "E" in destruct (drain_release a ids) as [[? ?]|] eqn:E; cbn [bindr]; [|discriminate]
         | |- (bindr (if ?b then _ else _) _) = _ -> _ => destruct b eqn:?
         | |- (bindr (Ok _) _) = _ -> _ => cbn [bindr]
         end;
  match goal with |- (let '(_, _) := cancel_timers ?cc in _) = _ -> _ =>
    let H := fresh "Hct" in
    pose proof (cancel_timers_state cc) as H; destruct (cancel_timers cc) as [c2 e2]; cbn [fst] in H end;
  let E := fresh "E" in intro E; inversion E; subst.

Theorem closed_has_shape c c' e : do_closed c = Ok (c', e) -> closed_shape c'.
Proof. closed_walk; unfold closed_shape; conn_simpl_goal; repeat split. Qed.

Theorem closed_nonpersistent_ends_session c c' e :
  do_closed c = Ok (c', e) -> c_need_store c = false ->
  c_store c' = [] /\ c_qos2 c' = [] /\ c_puback c' = [] /\ c_pubrec c' = [] /\ c_pubcomp c' = [].
Proof.
  closed_walk; conn_simpl_goal; intro Hn;
    match goal with H : negb _ = _ |- _ => conn_simpl; rewrite Hn in H; try discriminate end;
    repeat split.
Qed.

Theorem closed_persistent_keeps_session c c' e :
  do_closed c = Ok (c', e) -> c_need_store c = true ->
  c_store c' = c_store c /\ c_qos2 c' = c_qos2 c /\ c_puback c' = c_puback c /\ c_pubrec c' = c_pubrec c /\
  c_pubcomp c' = c_pubcomp c.
Proof.
  closed_walk; conn_simpl_goal; intro Hn;
    match goal with H : negb _ = _ |- _ => conn_simpl; rewrite Hn in H; try discriminate end;
    repeat split.
Qed.

Theorem closed_keeps_options c c' e : do_closed c = Ok (c', e) -> same_options c' c.
Proof.
  closed_walk; unfold same_options; conn_simpl_goal;
    repeat match goal with H : drain_release _ _ = Ok _ |- _ => apply drain_release_bounds in H; conn_simpl end;
    repeat split; intuition congruence.
Qed.

Ltac conn_cbv := cbv beta iota zeta delta [c_version c_pid c_suback c_unsuback c_puback c_pubrec c_pubcomp c_need_store c_store c_offline c_auto_pub c_auto_ping c_auto_map c_auto_replace c_ta_recv c_ta_send c_send_max c_recv_max c_send_count c_publish_recv c_mps_send c_mps_recv c_status c_user_ping c_keep_alive_ms c_server_ka_ms c_pingreq_recv_to c_pingresp_recv_to c_qos2 c_t_send c_t_recv c_t_resp c_pb c_is_client set_version set_pid set_suback set_unsuback set_puback set_pubrec set_pubcomp set_need_store set_store set_offline set_auto_pub set_auto_ping set_auto_map set_auto_replace set_ta_recv set_ta_send set_send_max set_recv_max set_send_count set_publish_recv set_mps_send set_mps_recv set_status set_user_ping set_keep_alive_ms set_server_ka_ms set_pingreq_recv_to set_pingresp_recv_to set_qos2 set_t_send set_t_recv set_t_resp set_pb set_is_client set_pool a_lo a_hi a_max a_pool].

(* ---------- dead at connect ---------- *)
(* equality on everything that `initialize`, the CONNECT handlers and (for a new session)
   `clear_store_related` do not overwrite unconditionally *)
Definition conn_scope_eq (a b : conn) : Prop :=
  same_options a b /\ c_status a = c_status b /\ c_pb a = c_pb b /\
  c_mps_send a = c_mps_send b /\ c_mps_recv a = c_mps_recv b /\
  c_t_send a = c_t_send b /\ c_t_recv a = c_t_recv b /\ c_t_resp a = c_t_resp b.

Definition session_eq (a b : conn) : Prop :=
  c_store a = c_store b /\ c_qos2 a = c_qos2 b /\ c_puback a = c_puback b /\ c_pubrec a = c_pubrec b /\
  c_pubcomp a = c_pubcomp b /\ a_pool (c_pid a) = a_pool (c_pid b).

Ltac split_eqs :=
  repeat match goal with
         | H : _ /\ _ |- _ => destruct H
         end.

Ltac destruct_conns a b :=
  destruct a as [av apid a3 a4 a5 a6 a7 a8 a9 a10 a11 a12 a13 a14 a15 a16 a17 a18 a19 a20 a21 a22 a23 a24 a25 a26 a27 a28 a29 a30 a31 a32 a33 a34];
  destruct b as [bv bpid b3 b4 b5 b6 b7 b8 b9 b10 b11 b12 b13 b14 b15 b16 b17 b18 b19 b20 b21 b22 b23 b24 b25 b26 b27 b28 b29 b30 b31 b32 b33 b34];
  destruct apid as [alo ahi amax apool]; destruct bpid as [blo bhi bmax bpool];
  unfold conn_scope_eq, same_options, session_eq in *; conn_simpl; cbn [a_lo a_hi a_max a_pool] in *; split_eqs; subst.

(* the states both CONNECT handlers build before they look at the packet's properties *)
Lemma sent_base_clean a b s ka :
  conn_scope_eq a b ->
  clear_store_related (set_keep_alive_ms (set_status (initialize a true) s) ka) =
  clear_store_related (set_keep_alive_ms (set_status (initialize b true) s) ka).
Proof. intros H. destruct_conns a b. unfold initialize, clear_store_related, pm_clear, a_clear. conn_cbv. reflexivity. Qed.

Lemma sent_base_session a b s ka :
  conn_scope_eq a b -> session_eq a b ->
  set_keep_alive_ms (set_status (initialize a true) s) ka = set_keep_alive_ms (set_status (initialize b true) s) ka.
Proof. intros H Hs. destruct_conns a b. unfold initialize. conn_cbv. reflexivity. Qed.

Lemma recv_base_clean a b s (f : conn -> conn) :
  (forall x y, clear_store_related x = clear_store_related y -> clear_store_related (f x) = clear_store_related (f y)) ->
  conn_scope_eq a b ->
  clear_store_related (f (initialize (set_status a s) false)) = clear_store_related (f (initialize (set_status b s) false)).
Proof.
  intros Hf H. apply Hf. destruct_conns a b. unfold initialize, clear_store_related, pm_clear, a_clear. conn_cbv. reflexivity.
Qed.

Lemma recv_base_session a b s :
  conn_scope_eq a b -> session_eq a b -> initialize (set_status a s) false = initialize (set_status b s) false.
Proof. intros H Hs. destruct_conns a b. unfold initialize. conn_cbv. reflexivity. Qed.

Lemma scope_size_ok a b p : conn_scope_eq a b -> size_ok a p = size_ok b p.
Proof. intros (_ & _ & _ & H & _). unfold size_ok. now rewrite H. Qed.
Lemma scope_status a b : conn_scope_eq a b -> c_status a = c_status b.
Proof. intros (_ & H & _). exact H. Qed.

(* a CONNECT that starts a new session (clean start) and is accepted: the outcome depends on
   nothing but the options — whatever else the two objects held before *)
Theorem clean_connect_sent_is_scope_only a b p :
  conn_scope_eq a b -> k_flag p = true -> size_ok a p = true -> c_status a = Disconnected ->
  send_connect a p = send_connect b p.
Proof.
  intros H Hf Hsz Hst. unfold send_connect.
  rewrite <- (scope_size_ok a b p H), <- (scope_status a b H), Hsz, Hst, Hf, andb_false_r.
  cbn [status_eqb negb]. cbv zeta.
  rewrite (sent_base_clean a b Connecting (k_keep_alive p * 1000) H). reflexivity.
Qed.

Theorem connect_sent_is_scope_and_session a b p :
  conn_scope_eq a b -> session_eq a b -> size_ok a p = true -> c_status a = Disconnected ->
  send_connect a p = send_connect b p.
Proof.
  intros H Hs Hsz Hst. unfold send_connect.
  rewrite <- (scope_size_ok a b p H), <- (scope_status a b H), Hsz, Hst, andb_false_r.
  cbn [status_eqb negb]. cbv zeta.
  rewrite (sent_base_session a b Connecting (k_keep_alive p * 1000) H Hs). reflexivity.
Qed.

Lemma clear_after_to x y n :
  clear_store_related x = clear_store_related y ->
  clear_store_related (set_pingreq_recv_to x n) = clear_store_related (set_pingreq_recv_to y n).
Proof.
  destruct x, y. unfold clear_store_related, pm_clear, a_clear. conn_cbv. intro H. inversion H. reflexivity.
Qed.

Theorem clean_connect_received_is_scope_only g a b v p :
  conn_scope_eq a b -> k_flag p = true -> c_status a = Disconnected ->
  recv_connect g a v (PROk p) = recv_connect g b v (PROk p).
Proof.
  intros H Hf Hst. unfold recv_connect, connect_recv_state.
  rewrite <- (scope_status a b H), Hst, Hf. cbn [status_eqb negb]. cbv zeta.
  destruct (0 <? k_keep_alive p).
  - rewrite (recv_base_clean a b Connecting (fun x => set_pingreq_recv_to x (k_keep_alive p * 1000 * 3 / 2))); [reflexivity| |exact H].
    intros x y. apply clear_after_to.
  - rewrite (recv_base_clean a b Connecting (fun x => x)); [reflexivity|auto|exact H].
Qed.

Theorem connect_received_is_scope_and_session g a b v p :
  conn_scope_eq a b -> session_eq a b -> c_status a = Disconnected ->
  recv_connect g a v (PROk p) = recv_connect g b v (PROk p).
Proof.
  intros H Hs Hst. unfold recv_connect, connect_recv_state.
  rewrite <- (scope_status a b H), Hst. cbn [status_eqb negb]. cbv zeta.
  rewrite (recv_base_session a b Connecting H Hs). reflexivity.
Qed.

(* ---------- a closed object vs a fresh one ---------- *)
Definition pid_bounds (g : cfg) (c : conn) : Prop :=
  a_lo (c_pid c) = 1 /\ a_hi (c_pid c) = g_idmax g /\ a_max (c_pid c) = g_idmax g.

(* a freshly constructed object given the same options *)
Definition fresh_like (g : cfg) (c : conn) : conn :=
  let f := conn_new g (c_version c) in
  let f := set_offline f (c_offline c) in
  let f := set_auto_pub f (c_auto_pub c) in
  let f := set_auto_ping f (c_auto_ping c) in
  let f := set_auto_map f (c_auto_map c) in
  let f := set_auto_replace f (c_auto_replace c) in
  let f := set_user_ping f (c_user_ping c) in
  set_pingresp_recv_to f (c_pingresp_recv_to c).

Theorem closed_is_like_fresh g c c' e :
  do_closed c = Ok (c', e) -> pid_bounds g c -> conn_scope_eq c' (fresh_like g c).
Proof.
  intros H (B1 & B2 & B3).
  pose proof (closed_has_shape c c' e H) as (S1 & S2 & S3 & S4 & S5 & S6 & S7 & S8 & S9 & S10 & S11).
  pose proof (closed_keeps_options c c' e H) as (O1 & O2 & O3 & O4 & O5 & O6 & O7 & O8 & O9 & O10 & O11).
  unfold conn_scope_eq, same_options.
  rewrite S1, S2, S5, S6, S9, S10, S11, O1, O2, O3, O4, O5, O6, O7, O8, O9, O10, O11, B1, B2, B3.
  unfold fresh_like, conn_new, pm_new. conn_simpl_goal. cbn [a_lo a_hi a_max].
  repeat split.
Qed.

(* the observable behaviour of a script: events and return values of every call *)
Fixpoint run_trace (g : cfg) (c : conn) (ops : list op) : list (evs * list N) :=
  match ops with
  | [] => []
  | o :: t => match step g c o with
              | Ok (c', e, r) => (e, r) :: run_trace g c' t
              | Panic _ => []
              end
  end.

(* C10, client side: after ANY first history ended by notify_closed, a clean-start CONNECT leaves the
   reused object in the very state — and with the very events — of a fresh object with the same
   options; hence every script produces the same events and return values on both *)
Theorem reused_client_is_fresh g c c1 e p :
  do_closed c = Ok (c1, e) -> pid_bounds g c -> k_flag p = true -> size_ok c1 p = true ->
  send_connect c1 p = send_connect (fresh_like g c) p.
Proof.
  intros H B Hf Hsz. apply clean_connect_sent_is_scope_only; auto.
  - eapply closed_is_like_fresh; eauto.
  - now destruct (closed_has_shape c c1 e H).
Qed.

Theorem reused_server_is_fresh g c c1 e v p :
  do_closed c = Ok (c1, e) -> pid_bounds g c -> k_flag p = true ->
  recv_connect g c1 v (PROk p) = recv_connect g (fresh_like g c) v (PROk p).
Proof.
  intros H B Hf. apply clean_connect_received_is_scope_only; auto.
  - eapply closed_is_like_fresh; eauto.
  - now destruct (closed_has_shape c c1 e H).
Qed.

Corollary reused_client_script_equal g c c1 e p :
  do_closed c = Ok (c1, e) -> pid_bounds g c -> k_flag p = true -> size_ok c1 p = true ->
  match send_connect c1 p, send_connect (fresh_like g c) p with
  | Ok (a, ea), Ok (b, eb) => ea = eb /\ forall S, run_trace g a S = run_trace g b S
  | Panic x, Panic y => x = y
  | _, _ => False
  end.
Proof.
  intros H B Hf Hsz. rewrite (reused_client_is_fresh g c c1 e p H B Hf Hsz).
  destruct (send_connect (fresh_like g c) p) as [[b eb]|]; auto.
Qed.

Corollary reused_server_script_equal g c c1 e v p :
  do_closed c = Ok (c1, e) -> pid_bounds g c -> k_flag p = true ->
  match recv_connect g c1 v (PROk p), recv_connect g (fresh_like g c) v (PROk p) with
  | Ok (a, ea), Ok (b, eb) => ea = eb /\ forall S, run_trace g a S = run_trace g b S
  | Panic x, Panic y => x = y
  | _, _ => False
  end.
Proof.
  intros H B Hf. rewrite (reused_server_is_fresh g c c1 e v p H B Hf).
  destruct (recv_connect g (fresh_like g c) v (PROk p)) as [[b eb]|]; auto.
Qed.

(* session-not-present: the CONNACK handler ends the old session as a clean start does *)
Theorem session_not_present_clears c :
  resume_or_clear c false = Ok (clear_store_related c, []).
Proof. reflexivity. Qed.

Lemma clear_store_related_session c :
  let c' := clear_store_related c in
  c_store c' = [] /\ c_qos2 c' = [] /\ c_puback c' = [] /\ c_pubrec c' = [] /\ c_pubcomp c' = [] /\
  a_pool (c_pid c') = [(a_lo (c_pid c), a_hi (c_pid c))].
Proof. destruct c. unfold clear_store_related, pm_clear, a_clear. conn_cbv. repeat split. Qed.
