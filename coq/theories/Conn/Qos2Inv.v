(* C07 over histories: an identifier in the QoS 2 handled set stays there through EVERY call of the
   model until one of the release points of the property (PUBREL received, error PUBREC sent, a new
   session, the end of a non-persistent session, an explicit restore).  Together with "a handled
   identifier is not notified again" this is exactly-once between release points, for all histories. *)
From MQ Require Import Base.Prelude Alloc.Alloc Alloc.SetSpec Alloc.AllocProofs Framing.Framing
                       Conn.Types Conn.TopicAlias Conn.ConnRecord Conn.Step Conn.Run Corr.ConnTrace Conn.Scope.

Definition kq (x : N) (a b : list N) : Prop := mem x a = true -> mem x b = true.
Lemma kq_refl x a : kq x a a. Proof. unfold kq; auto. Qed.
Lemma kq_trans x a b c : kq x a b -> kq x b c -> kq x a c. Proof. unfold kq; auto. Qed.
Lemma kq_eq x a b : a = b -> kq x a b. Proof. intros ->. apply kq_refl. Qed.
Lemma kq_eq' x a b : a = b -> kq x b a. Proof. intros ->. apply kq_refl. Qed.
Lemma kq_ins x y a : kq x a (ins y a).
Proof. unfold kq, mem, ins. intro H. rewrite s_mem_insert, H. apply orb_true_r. Qed.
Lemma mem_del_other x y l : y <> x -> mem x l = true -> mem x (del y l) = true.
Proof.
  unfold mem, del. intro Hne. induction l as [|u t IH]; cbn [s_mem s_remove]; [discriminate|].
  destruct (N.eqb_spec u y) as [->|Huy].
  - intro H. apply orb_true_iff in H as [H|H]; [apply N.eqb_eq in H; contradiction|exact H].
  - cbn [s_mem]. intro H. apply orb_true_iff in H as [H|H]; [rewrite H; reflexivity|rewrite (IH H); apply orb_true_r].
Qed.
Lemma kq_del x y a : y <> x -> kq x a (del y a).
Proof. unfold kq. intros Hne H. now apply mem_del_other. Qed.

Definition KQ (x : N) (c : conn) (r : res (conn * list event)) : Prop :=
  match r with Ok (c', _) => kq x (c_qos2 c) (c_qos2 c') | Panic _ => True end.

Lemma KQ_trans x c c1 r : kq x (c_qos2 c) (c_qos2 c1) -> KQ x c1 r -> KQ x c r.
Proof. destruct r as [[c' e]|]; cbn [KQ]; [|trivial]. intros H1 H2. now apply (kq_trans _ _ (c_qos2 c1)). Qed.

(* ---- helpers that do not touch the handled set ---- *)
Lemma post_q c : c_qos2 (fst (send_post_process c)) = c_qos2 c.
Proof. unfold send_post_process. destruct (c_is_client c); [destruct (0 <? _)|]; reflexivity. Qed.
Lemma cancel_q c : c_qos2 (fst (cancel_timers c)) = c_qos2 c.
Proof. rewrite cancel_timers_state. reflexivity. Qed.
Lemma refresh_q c : c_qos2 (fst (refresh_pingreq_recv c)) = c_qos2 c.
Proof. unfold refresh_pingreq_recv. destruct (negb _); reflexivity. Qed.
Lemma validate_alias_q c a : c_qos2 (snd (validate_topic_alias c a)) = c_qos2 c.
Proof.
  unfold validate_topic_alias. destruct a as [a|]; [|reflexivity]. destruct (negb _); [reflexivity|].
  destruct (c_ta_send c) as [s|]; [|reflexivity]. destruct (tas_get s a) as [[t|] s']; reflexivity.
Qed.
Lemma release_q c id c' e : release_if_used c id = Ok (c', e) -> c_qos2 c' = c_qos2 c.
Proof.
  unfold release_if_used. destruct (is_used c id); [|intro H; inversion H; reflexivity].
  destruct (pm_release _ _); cbn [bindr]; [|discriminate]. intro H; inversion H; reflexivity.
Qed.
Lemma release_KQ x c id : KQ x c (release_if_used c id).
Proof.
  destruct (release_if_used c id) as [[c' e]|] eqn:E; [|exact I]. cbn [KQ]. apply kq_eq. symmetry. now apply release_q in E.
Qed.
Lemma send_and_post_KQ x c p rel pre : KQ x c (send_and_post c p rel pre).
Proof.
  unfold send_and_post, KQ. pose proof (post_q c) as H. destruct (send_post_process c) as [c' e]. cbn [fst] in H.
  rewrite H. apply kq_refl.
Qed.
Lemma store_add_q c p c' : store_add c p = Ok c' -> c_qos2 c' = c_qos2 c.
Proof. unfold store_add. destruct (store_has _ _); [discriminate|]. intro H; inversion H; reflexivity. Qed.

(* ---- automation (as in PidInv.v, for the handled set) ---- *)
Ltac kq_helper x :=
  match goal with
  | |- context [send_post_process ?c] =>
      let H := fresh "Hpost" in pose proof (post_q c) as H; destruct (send_post_process c) as [? ?]; cbn [fst] in H
  | |- context [cancel_timers ?c] =>
      let H := fresh "Hcan" in pose proof (cancel_q c) as H; destruct (cancel_timers c) as [? ?]; cbn [fst] in H
  | |- context [refresh_pingreq_recv ?c] =>
      let H := fresh "Href" in pose proof (refresh_q c) as H; destruct (refresh_pingreq_recv c) as [? ?]; cbn [fst] in H
  | |- context [validate_topic_alias ?c ?a] =>
      let H := fresh "Hval" in pose proof (validate_alias_q c a) as H; destruct (validate_topic_alias c a) as [? ?]; cbn [snd] in H
  | |- context [release_if_used ?c ?id] =>
      let H := fresh "Hrel" in pose proof (release_KQ x c id) as H; destruct (release_if_used c id) as [[? ?]|]; cbn [KQ] in H
  | |- context [store_add ?c ?p] =>
      let E := fresh "Esa" in destruct (store_add c p) as [?|] eqn:E; [apply store_add_q in E|]
  end.

Ltac kq_norm x :=
  repeat match goal with
         | |- context [if ?b then _ else _] => destruct b
         | |- context [match ?o with Some _ => _ | None => _ end] => destruct o
         | H : kq _ (c_qos2 (if ?b then _ else _)) _ |- _ => destruct b
         | H : kq _ (c_qos2 (match ?o with Some _ => _ | None => _ end)) _ |- _ => destruct o
         | H : kq _ _ (c_qos2 (if ?b then _ else _)) |- _ => destruct b
         | H : kq _ _ (c_qos2 (match ?o with Some _ => _ | None => _ end)) |- _ => destruct o
         | H : c_qos2 _ = c_qos2 (if ?b then _ else _) |- _ => destruct b
         | H : c_qos2 _ = c_qos2 (match ?o with Some _ => _ | None => _ end) |- _ => destruct o
         end;
  conn_simpl;
  repeat match goal with H : c_qos2 ?a = c_qos2 ?b |- _ => apply (kq_eq' x) in H end.

Ltac kq_solve x :=
  first [ apply kq_refl | assumption | apply kq_ins
        | (apply kq_del; assumption)
        | match goal with H : kq x ?a ?b |- kq x ?a ?c => apply (kq_trans x a b c); [exact H|]; kq_solve x end
        | match goal with |- kq x ?a (ins ?y ?b) => apply (kq_trans x a b); [kq_solve x|apply kq_ins] end
        | match goal with |- kq x ?a (del ?y ?b) => apply (kq_trans x a b); [kq_solve x|apply kq_del; assumption] end ].

Ltac kq_leaf x := cbn [KQ]; kq_norm x; kq_solve x.

Ltac kq_step x :=
  first
   [ progress cbn [bindr]
   | kq_helper x
   | match goal with |- KQ _ _ (Panic _) => exact I end
   | match goal with |- KQ _ _ (if ?b then _ else _) => destruct b eqn:? end
   | match goal with |- KQ _ _ (bindr (if ?b then _ else _) _) => destruct b eqn:? end
   | match goal with |- KQ _ _ (bindr (bindr (if ?b then _ else _) _) _) => destruct b eqn:? end
   | match goal with |- KQ _ _ (let '(_, _) := (_, _) in _) => cbv beta iota end
   | match goal with |- KQ _ _ (let '(_, _) := (if ?b then _ else _) in _) => destruct b eqn:? end
   | match goal with |- KQ _ _ (let '(_, _) := ?y in _) => destruct y as [? ?] eqn:? end
   | match goal with |- KQ _ _ (match ?y with _ => _ end) => destruct y eqn:? end
   | match goal with |- KQ _ _ (bindr (match ?y with _ => _ end) _) => destruct y eqn:? end
   | match goal with |- KQ _ _ (bindr (bindr (match ?y with _ => _ end) _) _) => destruct y eqn:? end
   | match goal with |- KQ _ _ (bindr (let '(_, _) := ?y in _) _) => destruct y as [? ?] eqn:? end
   | match goal with |- KQ _ _ (bindr (bindr (let '(_, _) := ?y in _) _) _) => destruct y as [? ?] eqn:? end
   | match goal with |- KQ _ _ (bindr ?r _) => destruct r as [?|] eqn:?; cbn [bindr] end ].

Ltac kq_final x :=
  match goal with
  | |- KQ _ _ (Panic _) => exact I
  | |- KQ _ _ (Ok _) => kq_leaf x
  | |- KQ _ ?c0 (send_and_post ?c1 _ _ _) =>
      repeat match goal with
             | |- context [if ?b then _ else _] => destruct b
             | |- context [match ?o with Some _ => _ | None => _ end] => destruct o
             end;
      (eapply KQ_trans; [|apply send_and_post_KQ]); kq_norm x; kq_solve x
  end.

Ltac kq_auto x := repeat kq_step x; kq_final x.

Lemma send_plain_KQ x c p : KQ x c (send_plain c p).
Proof. unfold send_plain. kq_auto x. Qed.

(* a CONNECT that does not start a new session keeps the handled set *)
Lemma send_connect_KQ x c p : k_flag p = false -> KQ x c (send_connect c p).
Proof. intro Hf. unfold send_connect, initialize. rewrite Hf. kq_auto x. Qed.

Lemma send_stored_q c c' e : send_stored c = Ok (c', e) -> c_qos2 c' = c_qos2 c.
Proof.
  unfold send_stored. destruct (send_stored_l _ _) as [kept dropped]. cbv zeta.
  match goal with |- bindr (release_all ?a ?ids) _ = _ -> _ => destruct (release_all a ids) as [a'|] end; cbn [bindr]; [|discriminate].
  destruct (c_send_max _); intro H; inversion H; reflexivity.
Qed.
Lemma send_stored_KQ x c : KQ x c (send_stored c).
Proof. destruct (send_stored c) as [[c' e]|] eqn:E; [|exact I]. cbn [KQ]. apply kq_eq'. now apply send_stored_q in E. Qed.

Lemma connack_send_props_q c p : c_qos2 (fst (connack_send_props c p)) = c_qos2 c.
Proof.
  unfold connack_send_props. destruct (_ && _); [|reflexivity].
  repeat match goal with |- context [match ?o with Some _ => _ | None => _ end] => destruct o
                    | |- context [if ?b then _ else _] => destruct b end; reflexivity.
Qed.

Ltac kq_step2 x :=
  first [ match goal with
          | |- KQ _ _ (let '(_, _) := connack_send_props ?c ?p in _) =>
              let H := fresh "Hcsp" in pose proof (connack_send_props_q c p) as H;
              destruct (connack_send_props c p) as [? ?]; cbn [fst] in H
          | |- context [send_stored ?c] =>
              let H := fresh "Hss" in pose proof (send_stored_KQ x c) as H; destruct (send_stored c) as [[? ?]|]; cbn [KQ] in H
          end
        | kq_step x ].
Ltac kq_auto2 x := repeat kq_step2 x; kq_final x.

Lemma send_connack_KQ x c p : KQ x c (send_connack c p).
Proof. unfold send_connack. kq_auto2 x. Qed.
Lemma refuse_publish_KQ x c id err pre : KQ x c (refuse_publish c id err pre).
Proof. unfold refuse_publish. kq_auto2 x. Qed.
Lemma send_publish_v311_KQ x c p : KQ x c (send_publish_v311 c p).
Proof. unfold send_publish_v311. kq_auto2 x. Qed.
Lemma send_pubrel_KQ x c p : KQ x c (send_pubrel c p).
Proof. unfold send_pubrel. kq_auto2 x. Qed.
Lemma send_sub_unsub_KQ x c p : KQ x c (send_sub_unsub c p).
Proof. unfold send_sub_unsub. kq_auto2 x. Qed.
Lemma send_pingreq_KQ x c p : KQ x c (send_pingreq c p).
Proof. unfold send_pingreq. kq_auto2 x. Qed.
Lemma send_disconnect_KQ x c p : KQ x c (send_disconnect c p).
Proof. unfold send_disconnect. kq_auto2 x. Qed.
Lemma send_auth_KQ x c p : KQ x c (send_auth c p).
Proof. unfold send_auth. kq_auto2 x. Qed.

(* PUBACK / PUBREC / PUBCOMP sent: only an error PUBREC for the identifier itself forgets it *)
Lemma send_puback_like_KQ x c p :
  (k_type p = T_PUBREC -> k_rc_present p = true -> 128 <= k_rc p -> k_pid p <> x) -> KQ x c (send_puback_like c p).
Proof.
  intro Hne. unfold send_puback_like.
  destruct (_ && _); [cbn [KQ]; apply kq_refl|]. destruct (negb _); [cbn [KQ]; apply kq_refl|].
  eapply KQ_trans; [|apply send_and_post_KQ].
  destruct (version_eqb (k_ver p) V50); [|apply kq_refl].
  destruct ((k_type p =? T_PUBACK) || (k_type p =? T_PUBCOMP)); [conn_simpl; apply kq_refl|].
  destruct (k_type p =? T_PUBREC) eqn:Et; cbn [andb]; [|apply kq_refl].
  destruct (k_rc_present p) eqn:Er; cbn [andb]; [|apply kq_refl].
  destruct (128 <=? k_rc p) eqn:El; [|apply kq_refl].
  conn_simpl. apply kq_del. apply Hne; [now apply N.eqb_eq in Et|reflexivity|now apply N.leb_le in El].
Qed.

Ltac kq_brute_step x :=
  first
   [ progress cbn [bindr]
   | kq_helper x
   | match goal with |- context [refuse_publish ?c ?id ?err ?pre] =>
       let H := fresh "Hrp" in pose proof (refuse_publish_KQ x c id err pre) as H;
       destruct (refuse_publish c id err pre) as [[? ?]|]; cbn [KQ] in H end
   | match goal with |- context [tas_insert ?s ?t ?a] => destruct (tas_insert s t a) as [?|] end
   | match goal with |- context [tas_lru ?s] => destruct (tas_lru s) as [?|] end
   | kq_step x ].

Lemma send_publish_v5_KQ x g c p : KQ x c (send_publish_v5 g c p).
Proof.
  unfold send_publish_v5. cbv zeta.
  repeat kq_brute_step x; kq_final x.
Qed.
