(* C16/C07: the handled-identifier set keeps its ascending representation (bounds 1..M, no duplicates) through EVERY call
   of the model, provided the QoS 2 PUBLISH packets handed in by the parser and the identifiers the application
   restores are within 1..M (what the parser guarantees: an identifier is non-zero and fits the identifier width).
   Head-position walk through all functions, cloned from Qos2Sub.v. *)
From MQ Require Import Base.Prelude Alloc.Alloc Alloc.SetSpec Alloc.AllocProofs Framing.Framing
                       Conn.Types Conn.TopicAlias Conn.ConnRecord Conn.Step Conn.Run Corr.ConnTrace Conn.Scope.

Section Asc.
Variable M : N.

(* the representation invariant passes from a (before) to b (after) *)
Definition SQ (a b : conn) : Prop := asc 1 M (c_qos2 a) -> asc 1 M (c_qos2 b).
Lemma sq_refl c : SQ c c. Proof. unfold SQ; auto. Qed.
Lemma sq_trans a b c : SQ a b -> SQ b c -> SQ a c. Proof. unfold SQ; auto. Qed.
Lemma sq_frame a b : c_qos2 b = c_qos2 a -> SQ a b. Proof. unfold SQ. now intros ->. Qed.

Definition SQR (c : conn) (r : res (conn * list event)) : Prop :=
  match r with Ok (c', _) => SQ c c' | Panic _ => True end.
Lemma SQR_trans c c1 r : SQ c c1 -> SQR c1 r -> SQR c r.
Proof. destruct r as [[c' e]|]; cbn [SQR]; [|trivial]. intros H1 H2. now apply (sq_trans _ c1). Qed.

(* setters, deletions from the handled set, emptying it *)
Ltac sq_flat :=
  unfold SQ, clear_store_related, initialize; conn_simpl_goal;
  let Hm := fresh "Hm" in intro Hm; unfold del;
  repeat apply asc_remove; first [exact Hm | exact I].

Lemma post_sq c : SQ c (fst (send_post_process c)).
Proof. unfold send_post_process. destruct (c_is_client c); [destruct (0 <? _)|]; apply sq_frame; reflexivity. Qed.
Lemma cancel_sq c : SQ c (fst (cancel_timers c)).
Proof. rewrite cancel_timers_state. apply sq_frame. reflexivity. Qed.
Lemma refresh_sq c : SQ c (fst (refresh_pingreq_recv c)).
Proof. unfold refresh_pingreq_recv. destruct (negb _); apply sq_frame; reflexivity. Qed.
Lemma validate_alias_sq c a : SQ c (snd (validate_topic_alias c a)).
Proof.
  unfold validate_topic_alias. destruct a as [a|]; [|apply sq_refl]. destruct (negb _); [apply sq_refl|].
  destruct (c_ta_send c) as [s|]; [|apply sq_refl]. destruct (tas_get s a) as [[t|] s']; [apply sq_frame; reflexivity|apply sq_refl].
Qed.
Lemma store_add_sq c p c' : store_add c p = Ok c' -> SQ c c'.
Proof. unfold store_add. destruct (store_has _ _); [discriminate|]. intro H; inversion H. apply sq_frame. reflexivity. Qed.
Lemma release_if_used_sq c id c' e : release_if_used c id = Ok (c', e) -> SQ c c'.
Proof.
  unfold release_if_used. destruct (is_used c id); [|intro H; inversion H; apply sq_refl].
  destruct (pm_release _ _) as [a|]; cbn [bindr]; [|discriminate]. intro H; inversion H; subst. apply sq_frame. reflexivity.
Qed.
Lemma send_and_post_SQR c0 c p rel pre : SQ c0 c -> SQR c0 (send_and_post c p rel pre).
Proof.
  intro H. unfold send_and_post. pose proof (post_sq c) as Hp. destruct (send_post_process c) as [c' e]. cbn [fst SQR] in *.
  now apply (sq_trans _ c).
Qed.
Lemma refuse_publish_SQR c id err pre : SQR c (refuse_publish c id err pre).
Proof.
  unfold refuse_publish. destruct (negb (id =? 0) && is_used c id); [|cbn [SQR]; apply sq_refl].
  destruct (pm_release _ _) as [a|]; cbn [bindr SQR]; [|exact I]. apply sq_frame. reflexivity.
Qed.

(* ---- automation (head position) ---- *)
Ltac sq_norm :=
  repeat match goal with
         | |- context [if ?b then _ else _] => destruct b eqn:?
         | |- context [match ?o with Some _ => _ | None => _ end] => destruct o eqn:?
         | H : SQ _ (if ?b then _ else _) |- _ => destruct b eqn:?
         | H : SQ (if ?b then _ else _) _ |- _ => destruct b eqn:?
         | H : SQ _ (match ?o with Some _ => _ | None => _ end) |- _ => destruct o eqn:?
         | H : SQ (match ?o with Some _ => _ | None => _ end) _ |- _ => destruct o eqn:?
         end.
Ltac sq_search :=
  first [ assumption | apply sq_refl | (apply sq_frame; reflexivity) | sq_flat
        | multimatch goal with H : SQ ?a ?b |- SQ ?a ?z => apply (sq_trans a b z); [exact H|clear H; sq_search] end
        | multimatch goal with H : SQ ?b ?k |- SQ ?a ?z =>
            apply (sq_trans a b z); [first [apply sq_frame; reflexivity|sq_flat]|apply (sq_trans b k z); [exact H|clear H; sq_search]] end ].
Ltac sq_leaf := cbn [SQR]; sq_norm; sq_search.

Ltac qh :=
  first
  [ progress cbn [bindr]
  | match goal with
    | |- SQR _ (Panic _) => exact I
    | |- SQR _ (let '(_, _) := send_post_process ?c in _) =>
        let H := fresh "Hpost" in pose proof (post_sq c) as H; destruct (send_post_process c) as [? ?]; cbn [fst] in H
    | |- SQR _ (let '(_, _) := cancel_timers ?c in _) =>
        let H := fresh "Hcan" in pose proof (cancel_sq c) as H; destruct (cancel_timers c) as [? ?]; cbn [fst] in H
    | |- SQR _ (let '(_, _) := refresh_pingreq_recv ?c in _) =>
        let H := fresh "Href" in pose proof (refresh_sq c) as H; destruct (refresh_pingreq_recv c) as [? ?]; cbn [fst] in H
    | |- SQR _ (bindr (release_if_used ?c ?id) _) =>
        let E := fresh "Erel" in destruct (release_if_used c id) as [[? ?]|] eqn:E; [apply release_if_used_sq in E|]
    | |- SQR _ (bindr (bindr (release_if_used ?c ?id) _) _) =>
        let E := fresh "Erel" in destruct (release_if_used c id) as [[? ?]|] eqn:E; [apply release_if_used_sq in E|]
    | |- SQR _ (bindr (bindr (bindr (release_if_used ?c ?id) _) _) _) =>
        let E := fresh "Erel" in destruct (release_if_used c id) as [[? ?]|] eqn:E; [apply release_if_used_sq in E|]
    | |- SQR _ (release_if_used ?c ?id) =>
        let E := fresh "Erel" in destruct (release_if_used c id) as [[? ?]|] eqn:E; [apply release_if_used_sq in E|]
    | |- SQR _ (bindr (store_add ?c ?p) _) =>
        let E := fresh "Esa" in destruct (store_add c p) as [?|] eqn:E; [apply store_add_sq in E|]
    | |- SQR _ (bindr (bindr (store_add ?c ?p) _) _) =>
        let E := fresh "Esa" in destruct (store_add c p) as [?|] eqn:E; [apply store_add_sq in E|]
    | |- SQR _ (bindr (bindr (bindr (store_add ?c ?p) _) _) _) =>
        let E := fresh "Esa" in destruct (store_add c p) as [?|] eqn:E; [apply store_add_sq in E|]
    | |- SQR _ (bindr (bindr (let '(_, _) := validate_topic_alias ?c ?a in _) _) _) =>
        let H := fresh "Hval" in pose proof (validate_alias_sq c a) as H; destruct (validate_topic_alias c a) as [? ?]; cbn [snd] in H
    | |- SQR _ (bindr (let '(_, _) := validate_topic_alias ?c ?a in _) _) =>
        let H := fresh "Hval" in pose proof (validate_alias_sq c a) as H; destruct (validate_topic_alias c a) as [? ?]; cbn [snd] in H
    | |- SQR _ (refuse_publish ?c ?id ?err ?pre) =>
        eapply SQR_trans; [|apply refuse_publish_SQR]; sq_norm; sq_search
    | |- SQR _ (bindr (refuse_publish ?c ?id ?err ?pre) _) =>
        let H := fresh "Hrp" in pose proof (refuse_publish_SQR c id err pre) as H; destruct (refuse_publish c id err pre) as [[? ?]|]; cbn [SQR] in H
    | |- SQR _ (bindr (bindr (refuse_publish ?c ?id ?err ?pre) _) _) =>
        let H := fresh "Hrp" in pose proof (refuse_publish_SQR c id err pre) as H; destruct (refuse_publish c id err pre) as [[? ?]|]; cbn [SQR] in H
    | |- SQR _ (bindr (bindr (tas_insert ?s ?t ?a) _) _) => destruct (tas_insert s t a) as [?|]
    | |- SQR _ (bindr (bindr (bindr (tas_insert ?s ?t ?a) _) _) _) => destruct (tas_insert s t a) as [?|]
    | |- SQR _ (bindr (bindr (tas_lru ?s) _) _) => destruct (tas_lru s) as [?|]
    | |- SQR _ (let '(_, _) := (_, _) in _) => cbv beta iota
    | |- SQR _ (let '(_, _) := (if ?b then _ else _) in _) => destruct b eqn:?
    | |- SQR _ (if ?b then _ else _) => destruct b eqn:?
    | |- SQR _ (bindr (if ?b then _ else _) _) => destruct b eqn:?
    | |- SQR _ (bindr (bindr (if ?b then _ else _) _) _) => destruct b eqn:?
    | |- SQR _ (bindr (bindr (bindr (if ?b then _ else _) _) _) _) => destruct b eqn:?
    | |- SQR _ (match ?y with _ => _ end) => destruct y eqn:?
    | |- SQR _ (bindr (match ?y with _ => _ end) _) => destruct y eqn:?
    | |- SQR _ (bindr (bindr (match ?y with _ => _ end) _) _) => destruct y eqn:?
    | |- SQR _ (bindr (bindr (bindr (match ?y with _ => _ end) _) _) _) => destruct y eqn:?
    end ].
Ltac sq_final :=
  match goal with
  | |- SQR _ (Panic _) => exact I
  | |- SQR _ (Ok _) => sq_leaf
  | |- SQR _ (send_and_post _ _ _ _) => sq_norm; (apply send_and_post_SQR; sq_search)
  end.
Ltac sq_auto := cbv zeta; repeat qh; try sq_final.


Lemma send_plain_SQR c p : SQR c (send_plain c p). Proof. unfold send_plain. sq_auto. Qed.
Lemma send_connect_SQR c p : SQR c (send_connect c p). Proof. unfold send_connect. sq_auto. Qed.
Lemma send_publish_v311_SQR c p : SQR c (send_publish_v311 c p). Proof. unfold send_publish_v311. sq_auto. Qed.
Lemma send_publish_v5_SQR g c p : SQR c (send_publish_v5 g c p). Proof. unfold send_publish_v5. sq_auto. Qed.
Lemma send_puback_like_SQR c p : SQR c (send_puback_like c p). Proof. unfold send_puback_like. sq_auto. Qed.
Lemma send_pubrel_SQR c p : SQR c (send_pubrel c p). Proof. unfold send_pubrel. sq_auto. Qed.
Lemma send_sub_unsub_SQR c p : SQR c (send_sub_unsub c p). Proof. unfold send_sub_unsub. sq_auto. Qed.
Lemma send_pingreq_SQR c p : SQR c (send_pingreq c p). Proof. unfold send_pingreq. sq_auto. Qed.
Lemma send_disconnect_SQR c p : SQR c (send_disconnect c p). Proof. unfold send_disconnect. sq_auto. Qed.
Lemma send_auth_SQR c p : SQR c (send_auth c p). Proof. unfold send_auth. sq_auto. Qed.

Lemma send_stored_SQR c : SQR c (send_stored c).
Proof.
  unfold send_stored. destruct (send_stored_l _ _) as [kept dropped]. cbv zeta.
  destruct (release_all _ _) as [a|]; cbn [bindr SQR]; [|exact I]. apply sq_frame. destruct (c_send_max _); reflexivity.
Qed.
Lemma connack_send_props_sq c p : SQ c (fst (connack_send_props c p)).
Proof.
  unfold connack_send_props. destruct (_ && _); [|apply sq_refl].
  repeat match goal with |- context [match ?o with Some _ => _ | None => _ end] => destruct o
                    | |- context [if ?b then _ else _] => destruct b end; apply sq_frame; reflexivity.
Qed.
Lemma send_connack_SQR c p : SQR c (send_connack c p).
Proof.
  unfold send_connack. destruct (_ && _); [cbn [SQR]; apply sq_refl|]. destruct (negb _); [cbn [SQR]; apply sq_refl|]. cbv zeta.
  pose proof (connack_send_props_sq c p) as K1. destruct (connack_send_props c p) as [c1 pre]. cbn [fst] in *.
  destruct (negb _).
  - pose proof (cancel_sq (set_status c1 Disconnected)) as Hc. destruct (cancel_timers _) as [c2 e]. cbn [fst SQR] in *.
    eapply sq_trans; [exact K1|]. eapply sq_trans; [|exact Hc]. apply sq_frame. reflexivity.
  - pose proof (send_stored_SQR (set_status c1 Connected)) as H. destruct (send_stored _) as [[c2 es]|]; cbn [bindr SQR] in *; [|exact I].
    pose proof (post_sq c2) as Hp. destruct (send_post_process c2) as [c3 e3]. cbn [fst SQR] in *.
    eapply sq_trans; [exact K1|]. eapply sq_trans; [apply sq_frame; reflexivity|]. eapply sq_trans; [exact H|exact Hp].
Qed.

Lemma dispatch_send_SQR g c p : SQR c (dispatch_send g c p).
Proof.
  unfold dispatch_send. cbv zeta.
  destruct (k_type p =? T_CONNECT); [apply send_connect_SQR|].
  destruct (k_type p =? T_CONNACK); [apply send_connack_SQR|].
  destruct (k_type p =? T_PUBLISH); [destruct (version_eqb _ _); [apply send_publish_v5_SQR|apply send_publish_v311_SQR]|].
  destruct ((k_type p =? T_PUBACK) || (k_type p =? T_PUBREC) || (k_type p =? T_PUBCOMP)); [apply send_puback_like_SQR|].
  destruct (k_type p =? T_PUBREL); [apply send_pubrel_SQR|].
  destruct ((k_type p =? T_SUBSCRIBE) || (k_type p =? T_UNSUBSCRIBE)); [apply send_sub_unsub_SQR|].
  destruct ((k_type p =? T_SUBACK) || (k_type p =? T_UNSUBACK) || (k_type p =? T_PINGRESP)); [apply send_plain_SQR|].
  destruct (k_type p =? T_PINGREQ); [apply send_pingreq_SQR|].
  destruct (k_type p =? T_DISCONNECT); [apply send_disconnect_SQR|].
  destruct (k_type p =? T_AUTH); [apply send_auth_SQR|]. cbn [SQR]. apply sq_refl.
Qed.
Lemma do_send_SQR g c p : SQR c (do_send g c p).
Proof.
  unfold do_send. cbv zeta.
  repeat match goal with |- SQR _ (if ?b then _ else _) => destruct b end; first [apply dispatch_send_SQR|cbn [SQR]; apply sq_refl].
Qed.

Lemma close_with_disconnect_SQR c p : SQR c (close_with_disconnect c p).
Proof. unfold close_with_disconnect. destruct (_ && _); [sq_auto|apply send_disconnect_SQR]. Qed.
Lemma handle_v5_error_SQR c e : SQR c (handle_v5_error c e).
Proof.
  unfold handle_v5_error. pose proof (close_with_disconnect_SQR c (disconnect_v5 (disc_rc_of_err e))) as H.
  destruct (close_with_disconnect _ _) as [[c' ev]|]; cbn [bindr SQR] in *; [exact H|exact I].
Qed.
Lemma handle_error_SQR c v e : SQR c (handle_error c v e).
Proof. unfold handle_error. destruct (version_eqb v V50); [apply handle_v5_error_SQR|cbn [SQR]; apply sq_refl]. Qed.

Ltac qcall :=
  match goal with
  | |- SQR _ (handle_v5_error ?c ?e) => eapply SQR_trans; [|apply handle_v5_error_SQR]; sq_norm; sq_search
  | |- SQR _ (handle_error ?c ?v ?e) => eapply SQR_trans; [|apply handle_error_SQR]; sq_norm; sq_search
  | |- SQR _ (bindr (handle_v5_error ?c ?e) _) =>
      let H := fresh "Hk" in pose proof (handle_v5_error_SQR c e) as H; destruct (handle_v5_error c e) as [[? ?]|]; cbn [SQR] in H
  | |- SQR _ (bindr (send_puback_like ?c ?p) _) =>
      let H := fresh "Hk" in pose proof (send_puback_like_SQR c p) as H; destruct (send_puback_like c p) as [[? ?]|]; cbn [SQR] in H
  | |- SQR _ (bindr (send_pubrel ?c ?p) _) =>
      let H := fresh "Hk" in pose proof (send_pubrel_SQR c p) as H; destruct (send_pubrel c p) as [[? ?]|]; cbn [SQR] in H
  | |- SQR _ (bindr (send_plain ?c ?p) _) =>
      let H := fresh "Hk" in pose proof (send_plain_SQR c p) as H; destruct (send_plain c p) as [[? ?]|]; cbn [SQR] in H
  | |- SQR _ (bindr (close_with_disconnect ?c ?p) _) =>
      let H := fresh "Hk" in pose proof (close_with_disconnect_SQR c p) as H; destruct (close_with_disconnect c p) as [[? ?]|]; cbn [SQR] in H
  end.


Lemma note_inbound_sq c p : SQ c (note_inbound c p).
Proof. unfold note_inbound. destruct (negb _); apply sq_frame; reflexivity. Qed.
Lemma store_erase_sq c v t id : SQ c (store_erase c v t id).
Proof. unfold store_erase. apply sq_frame. reflexivity. Qed.
(* the one insertion: a received PUBLISH that carries another identifier *)
Lemma note_handled_sq c p : ((k_qos p =? 0) = false -> (k_qos p =? 1) = false -> 1 <= k_pid p <= M) -> SQ c (note_handled c p).
Proof.
  intro Hne. unfold note_handled. destruct (k_qos p =? 2) eqn:E2; [|apply sq_refl]. apply N.eqb_eq in E2.
  assert (Hr : 1 <= k_pid p <= M) by (apply Hne; rewrite E2; reflexivity).
  unfold SQ. conn_simpl_goal. intro Ha. unfold ins. apply asc_insert; [exact Ha|apply Hr|apply Hr].
Qed.
Ltac sq_gen :=
  repeat match goal with
         | |- context [note_inbound ?c ?p] => let H := fresh in pose proof (note_inbound_sq c p) as H; generalize dependent (note_inbound c p); intros
         | _ : context [note_inbound ?c ?p] |- _ => let H := fresh in pose proof (note_inbound_sq c p) as H; generalize dependent (note_inbound c p); intros
         | |- context [store_erase ?c ?v ?t ?i] => let H := fresh in pose proof (store_erase_sq c v t i) as H; generalize dependent (store_erase c v t i); intros
         | _ : context [store_erase ?c ?v ?t ?i] |- _ => let H := fresh in pose proof (store_erase_sq c v t i) as H; generalize dependent (store_erase c v t i); intros
         end.
Ltac sq_final3 := match goal with |- SQR _ (Panic _) => exact I | |- SQR _ (Ok _) => cbn [SQR]; sq_gen; sq_norm; sq_search end.
Ltac sq_auto3 := cbv zeta; repeat first [qcall | qh]; try sq_final3.

Lemma ins_other_sq c y : 1 <= y <= M -> SQ c (set_qos2 c (ins y (c_qos2 c))).
Proof.
  intro Hne. unfold SQ. conn_simpl_goal. intro Ha. unfold ins. apply asc_insert; [exact Ha|apply Hne|apply Hne].
Qed.

Lemma recv_publish_v311_SQR g c pr : (match pr with PROk p => ((k_qos p =? 0) = false -> (k_qos p =? 1) = false -> 1 <= k_pid p <= M) | PRErr _ => True end) -> SQR c (recv_publish_v311 g c pr).
Proof.
  intro Hne. unfold recv_publish_v311, handle_v311_error. destruct pr as [p|e]; [|sq_auto3]. cbv zeta.
  destruct (k_qos p =? 0) eqn:E0; [sq_auto3|]. destruct (k_qos p =? 1) eqn:E1; [sq_auto3|].
  pose proof (ins_other_sq c (k_pid p) (Hne eq_refl eq_refl)) as Hi. generalize dependent (set_qos2 c (ins (k_pid p) (c_qos2 c))). intros c0 Hi.
  sq_auto3.
Qed.
Lemma resolve_recv_alias_SQR g c p :
  match resolve_recv_alias g c p with Ok (c', _, _, _) => SQ c c' | Panic _ => True end.
Proof.
  unfold resolve_recv_alias.
  repeat match goal with
         | |- match bindr (handle_v5_error ?cc ?e) _ with _ => _ end =>
             let H := fresh "Hk" in pose proof (handle_v5_error_SQR cc e) as H; destruct (handle_v5_error cc e) as [[? ?]|]; cbn [bindr SQR] in *
         | |- match bindr (tar_insert ?r ?t ?a) _ with _ => _ end => destruct (tar_insert r t a) as [?|]; cbn [bindr]
         | |- match (if ?b then _ else _) with _ => _ end => destruct b
         | |- match (match ?o with Some _ => _ | None => _ end) with _ => _ end => destruct o
         end; try exact I; try assumption; first [apply sq_refl|apply sq_frame; reflexivity].
Qed.
Lemma recv_publish_v5_SQR g c pr : (match pr with PROk p => ((k_qos p =? 0) = false -> (k_qos p =? 1) = false -> 1 <= k_pid p <= M) | PRErr _ => True end) -> SQR c (recv_publish_v5 g c pr).
Proof.
  intro Hne. unfold recv_publish_v5. destruct pr as [p|e]; [|sq_auto3]. cbv zeta.
  destruct (_ && _); [apply handle_v5_error_SQR|].
  pose proof (resolve_recv_alias_SQR g (note_inbound c p) p) as Hr.
  destruct (resolve_recv_alias g (note_inbound c p) p) as [[[[c1 q] st] e0]|]; cbn [bindr]; [|exact I].
  pose proof (note_inbound_sq c p) as Hn. assert (Hc1 : SQ c c1) by (now apply (sq_trans _ (note_inbound c p))).
  clear Hr Hn. generalize dependent (note_inbound c p). intros _.
  destruct st; [cbn [SQR]; exact Hc1|].
  pose proof (note_handled_sq c1 p Hne) as Hh. generalize dependent (note_handled c1 p). intros c2 Hh.
  sq_auto3.
Qed.
Lemma recv_ack_SQR g c v t pr : SQR c (recv_ack g c v t pr).
Proof. unfold recv_ack. destruct pr as [p|e]; [|apply handle_error_SQR]. sq_auto3. Qed.
Lemma recv_pubrel_SQR g c v pr : SQR c (recv_pubrel g c v pr).
Proof. unfold recv_pubrel. destruct pr as [p|e]; [|apply handle_error_SQR]. sq_auto3. Qed.
Lemma recv_notify_SQR c v pr : SQR c (recv_notify c v pr).
Proof. unfold recv_notify. destruct pr as [p|e]; [|apply handle_error_SQR]. sq_auto3. Qed.
Lemma recv_pingreq_SQR g c v pr : SQR c (recv_pingreq g c v pr).
Proof. unfold recv_pingreq. destruct pr as [p|e]; [|apply handle_error_SQR]. sq_auto3. Qed.
Lemma recv_pingresp_SQR c v pr : SQR c (recv_pingresp c v pr).
Proof. unfold recv_pingresp. destruct pr as [p|e]; [|apply handle_error_SQR]. sq_auto3. Qed.
Lemma recv_disconnect_SQR c v pr : SQR c (recv_disconnect c v pr).
Proof. unfold recv_disconnect. destruct pr as [p|e]; [|apply handle_error_SQR]. sq_auto3. Qed.

Lemma connect_recv_state_sq c v p c' : connect_recv_state c v p = Ok c' -> SQ c c'.
Proof.
  unfold connect_recv_state. cbv zeta.
  repeat match goal with
         | |- context [if ?b then _ else _] => destruct b
         | |- context [match ?o with Some _ => _ | None => _ end] => destruct o
         | |- context [tas_new ?m] => destruct (tas_new m)
         end; cbn [bindr]; try discriminate; intro H; injection H as <-; first [apply sq_frame; reflexivity|sq_flat].
Qed.
Lemma recv_connect_SQR g c v pr : SQR c (recv_connect g c v pr).
Proof.
  unfold recv_connect. destruct (negb _); [apply handle_error_SQR|].
  destruct pr as [p|e].
  - destruct (connect_recv_state _ v p) as [c1|] eqn:E; cbn [bindr]; [|exact I]. apply connect_recv_state_sq in E.
    pose proof (refresh_sq c1) as Hr. destruct (refresh_pingreq_recv c1) as [c2 e2]. cbn [fst SQR] in *.
    eapply sq_trans; [apply sq_frame; reflexivity|]. eapply sq_trans; [exact E|exact Hr].
  - pose proof (send_connack_SQR (set_status c Connecting) (connect_refusal v e)) as H.
    destruct (send_connack _ _) as [[c1 ev]|]; cbn [bindr SQR] in *; [|exact I].
    eapply sq_trans; [apply sq_frame; reflexivity|exact H].
Qed.
Lemma connack_recv_limits_sq c p c' : connack_recv_limits c p = Ok c' -> SQ c c'.
Proof.
  unfold connack_recv_limits.
  destruct (k_tam p) as [m|]; [destruct (0 <? m); [destruct (tas_new m)|]|]; cbn [bindr]; try discriminate;
  (destruct (k_rm p) as [r|]; [destruct (r =? 0)|]; cbn [bindr]; try discriminate);
  (destruct (k_mps p) as [y|]; [destruct (y =? 0)|]; try discriminate);
  intro H; injection H as <-; apply sq_frame; reflexivity.
Qed.
Lemma connack_recv_ska_sq c p : SQ c (fst (connack_recv_ska c p)).
Proof.
  unfold connack_recv_ska.
  repeat match goal with |- context [if ?b then _ else _] => destruct b
                    | |- context [match ?o with Some _ => _ | None => _ end] => destruct o end; apply sq_frame; reflexivity.
Qed.
Lemma resume_or_clear_SQR c b : SQR c (resume_or_clear c b).
Proof.
  unfold resume_or_clear. destruct b.
  - pose proof (send_stored_SQR c) as H. destruct (send_stored c) as [[c1 es]|]; cbn [bindr SQR] in *; [|exact I].
    destruct (existsb _ _); [|exact H]. pose proof (post_sq c1) as Hp. destruct (send_post_process c1) as [c2 e2]. cbn [fst SQR] in *. now apply (sq_trans _ c1).
  - cbn [SQR]. sq_flat.
Qed.
Lemma recv_connack_SQR c v pr : SQR c (recv_connack c v pr).
Proof.
  unfold recv_connack. destruct (status_eqb (c_status c) Connected); [apply handle_error_SQR|].
  destruct pr as [p|e].
  2:{ destruct (version_eqb v V50); cbn [SQR]; apply sq_refl. }
  destruct (k_rc p =? 0); [|cbn [SQR]; apply sq_refl]. cbv zeta.
  destruct (version_eqb v V50).
  - destruct (connack_recv_limits _ p) as [c1|] eqn:E1; cbn [bindr]; [|exact I]. apply connack_recv_limits_sq in E1.
    pose proof (connack_recv_ska_sq c1 p) as E2. destruct (connack_recv_ska c1 p) as [c2 e1]. cbn [fst] in *.
    assert (E3 : SQ c2 (connack_recv_sei c2 p)).
    { unfold connack_recv_sei. destruct (k_sei p); [destruct (_ =? 0)|]; first [apply sq_refl|apply sq_frame; reflexivity|sq_flat]. }
    pose proof (resume_or_clear_SQR (connack_recv_sei c2 p) (k_flag p)) as H.
    destruct (resume_or_clear _ _) as [[c3 e2]|]; cbn [bindr SQR] in *; [|exact I].
    eapply sq_trans; [apply sq_frame; reflexivity|]. eapply sq_trans; [exact E1|]. eapply sq_trans; [exact E2|]. eapply sq_trans; [exact E3|exact H].
  - pose proof (resume_or_clear_SQR (set_status c Connected) (k_flag p)) as H.
    destruct (resume_or_clear _ _) as [[c3 e2]|]; cbn [bindr SQR] in *; [|exact I].
    eapply sq_trans; [apply sq_frame; reflexivity|exact H].
Qed.

Definition other_id (pr : presult) : Prop := match pr with PROk p => ((k_qos p =? 0) = false -> (k_qos p =? 1) = false -> 1 <= k_pid p <= M) | PRErr _ => True end.

Lemma dispatch_recv_SQR g c v t pr : other_id pr -> SQR c (dispatch_recv g c v t pr).
Proof.
  intro Ho. unfold dispatch_recv.
  repeat match goal with |- SQR _ (if ?b then _ else _) => destruct b end;
    first [ apply recv_connect_SQR | apply recv_connack_SQR | now apply recv_publish_v5_SQR | now apply recv_publish_v311_SQR | apply recv_ack_SQR
          | apply recv_pubrel_SQR | apply recv_notify_SQR | apply recv_pingreq_SQR | apply recv_pingresp_SQR | apply recv_disconnect_SQR
          | (cbn [SQR]; apply sq_refl) ].
Qed.
Lemma process_recv_packet_SQR g c fh body pr : other_id pr -> SQR c (process_recv_packet g c fh body pr).
Proof.
  intro Ho. unfold process_recv_packet. cbv zeta.
  destruct (_ <? _).
  { destruct (status_eqb _ _).
    - pose proof (close_with_disconnect_SQR c (disconnect_v5 149)) as H. destruct (close_with_disconnect _ _) as [[c1 e1]|]; cbn [bindr SQR] in *; [exact H|exact I].
    - pose proof (cancel_sq (set_status c Disconnected)) as H. destruct (cancel_timers _) as [c1 e1]. cbn [fst SQR] in *.
      eapply sq_trans; [apply sq_frame; reflexivity|exact H]. }
  destruct (negb _); [cbn [SQR]; apply sq_refl|].
  destruct (c_version c); try (now apply dispatch_recv_SQR).
  repeat match goal with |- SQR _ (if ?b then _ else _) => destruct b end;
    first [ (eapply SQR_trans; [|apply recv_connect_SQR]; apply sq_frame; reflexivity) | (cbn [SQR]; apply sq_refl) ].
Qed.
Lemma do_recv_sq g c bytes pr : other_id pr ->
  match do_recv g c bytes pr with Ok (c', _, _) => SQ c c' | Panic _ => True end.
Proof.
  intro Ho. unfold do_recv. destruct (feed (c_pb c) bytes) as [[r pb'] rest]. destruct r.
  - pose proof (process_recv_packet_SQR g (set_pb c pb') (hd 0 hdr) body pr Ho) as H.
    destruct (process_recv_packet g _ _ body pr) as [[c1 e1]|]; cbn [bindr SQR] in *; [|exact I].
    eapply sq_trans; [apply sq_frame; reflexivity|exact H].
  - apply sq_frame. reflexivity.
  - pose proof (cancel_sq (set_pb c pb')) as H. destruct (cancel_timers (set_pb c pb')) as [c1 e1]. cbn [fst] in H.
    eapply sq_trans; [apply sq_frame; reflexivity|exact H].
Qed.
Lemma do_timer_SQR c k : SQR c (do_timer c k).
Proof.
  unfold do_timer. destruct k; cbv zeta.
  - destruct (status_eqb _ _); [|cbn [SQR]; apply sq_frame; reflexivity].
    destruct (c_version _); try exact I; (eapply SQR_trans; [|apply send_pingreq_SQR]); apply sq_frame; reflexivity.
  - destruct (c_version _); try exact I; [cbn [SQR]; apply sq_frame; reflexivity|].
    destruct (status_eqb _ _); [|cbn [SQR]; apply sq_frame; reflexivity].
    (eapply SQR_trans; [|apply close_with_disconnect_SQR]); apply sq_frame; reflexivity.
  - destruct (c_version _); try exact I; [cbn [SQR]; apply sq_frame; reflexivity|].
    destruct (status_eqb _ _); [|cbn [SQR]; apply sq_frame; reflexivity].
    (eapply SQR_trans; [|apply close_with_disconnect_SQR]); apply sq_frame; reflexivity.
Qed.
Lemma do_closed_SQR c : SQR c (do_closed c).
Proof.
  destruct (do_closed c) as [[c' e]|] eqn:E; [|exact I]. cbn [SQR]. revert E. closed_walk; unfold SQ; conn_simpl_goal; auto; intros _; exact I.
Qed.
Lemma do_erase_SQR c id : SQR c (do_erase c id).
Proof.
  unfold do_erase. destruct (store_erase_publish_l id (c_store c)) as [b l]. destruct b; [|cbn [SQR]; apply sq_refl]. cbv zeta.
  match goal with |- SQR _ (release_if_used ?y id) => destruct (release_if_used y id) as [[c1 e]|] eqn:E; [apply release_if_used_sq in E|exact I] end.
  cbn [SQR]. eapply sq_trans; [|exact E]. apply sq_frame. destruct (c_send_max _); [destruct (0 <? _)|]; reflexivity.
Qed.
Lemma do_restore_sq l : forall c, SQ c (do_restore c l).
Proof.
  induction l as [|p t IH]; intro c; cbn [do_restore]; [apply sq_refl|].
  eapply sq_trans; [|apply IH]. destruct (_ && _); [apply sq_refl|].
  destruct (pm_register _ _) as [ok a]. destruct ok; [|apply sq_refl]. unfold store_add_soft.
  repeat match goal with |- context [if ?b then _ else _] => destruct b end; apply sq_frame; reflexivity.
Qed.

(* identifiers handed in from outside are within 1..M *)
Definition ids_in_range (o : op) : Prop :=
  match o with
  | ORecv _ pr => other_id pr
  | ORestoreQos2 l => Forall (fun i => 1 <= i <= M) l
  | _ => True
  end.

Lemma fold_ins_range l : forall acc, Forall (fun i => 1 <= i <= M) l -> asc 1 M acc -> asc 1 M (fold_left (fun s i => ins i s) l acc).
Proof.
  induction l as [|i t IH]; intros acc Hf Ha; cbn [fold_left]; [exact Ha|]. inversion Hf as [|? ? Hi Ht]; subst.
  apply IH; [exact Ht|]. unfold ins. apply asc_insert; [exact Ha|apply Hi|apply Hi].
Qed.

Theorem step_keeps_asc g c o :
  ids_in_range o -> asc 1 M (c_qos2 c) ->
  match step g c o with Ok (c', _, _) => asc 1 M (c_qos2 c') | Panic _ => True end.
Proof.
  intros He Ha. destruct o; cbn [step ids_in_range] in *.
  - pose proof (do_send_SQR g c p) as H. destruct (do_send g c p) as [[c' e]|]; cbn [bindr SQR] in *; [exact (H Ha)|exact I].
  - pose proof (do_recv_sq g c bytes pr He) as H. destruct (do_recv g c bytes pr) as [[[c' e] r]|]; cbn [bindr] in *; [exact (H Ha)|exact I].
  - pose proof (do_timer_SQR c k) as H. destruct (do_timer c k) as [[c' e]|]; cbn [bindr SQR] in *; [exact (H Ha)|exact I].
  - pose proof (do_closed_SQR c) as H. destruct (do_closed c) as [[c' e]|]; cbn [bindr SQR] in *; [exact (H Ha)|exact I].
  - unfold do_set_pingreq_interval. cbv zeta.
    repeat match goal with
           | |- context [match ?y with Some _ => _ | None => _ end] => destruct y
           | |- context [if ?b then _ else _] => destruct b
           end; cbn [bindr]; conn_simpl_goal; auto.
  - conn_simpl_goal; auto.
  - destruct b; conn_simpl_goal; auto.
  - conn_simpl_goal; auto.
  - conn_simpl_goal; auto.
  - conn_simpl_goal; auto.
  - conn_simpl_goal; auto.
  - destruct (pm_acquire (c_pid c)) as [[r a]|]; cbn [bindr]; [conn_simpl_goal; auto|exact I].
  - destruct (pm_register (c_pid c) id) as [b a]. conn_simpl_goal; auto.
  - destruct (release_if_used c id) as [[c' e]|] eqn:E; cbn [bindr]; [exact (release_if_used_sq c id c' e E Ha)|exact I].
  - pose proof (do_erase_SQR c id) as H. destruct (do_erase c id) as [[c' e]|]; cbn [bindr SQR] in *; [exact (H Ha)|exact I].
  - exact (do_restore_sq l c Ha).
  - conn_simpl_goal. apply fold_ins_range; [exact He|exact I].
  - auto.
Qed.
End Asc.

(* over histories *)
Fixpoint ids_history_ok (M : N) (ops : list op) : Prop :=
  match ops with [] => True | o :: t => ids_in_range M o /\ ids_history_ok M t end.

Theorem asc_qos2_invariant M g : forall ops c,
  asc 1 M (c_qos2 c) -> ids_history_ok M ops ->
  match run_state g c ops with Some c' => asc 1 M (c_qos2 c') | None => True end.
Proof.
  induction ops as [|o t IH]; intros c Ha Hq; cbn [run_state]; [exact Ha|].
  cbn [ids_history_ok] in Hq. destruct Hq as [Ho Ht].
  pose proof (step_keeps_asc M g c o Ho Ha) as Hs. destruct (step g c o) as [[[c' e] r]|]; [|exact I].
  apply IH; [exact Hs|exact Ht].
Qed.

Corollary fresh_asc_qos2 M g v ops :
  ids_history_ok M ops ->
  match run_state g (conn_new g v) ops with Some c' => asc 1 M (c_qos2 c') | None => True end.
Proof. intro H. apply asc_qos2_invariant; [exact I|exact H]. Qed.

(* what the ordering is needed for: in every state of such a history a PUBREL makes the library forget the
   identifier (C07: the next PUBLISH with it is a new message) — no hypothesis on the representation left *)
From MQ Require Import Conn.Session.
Corollary pubrel_forgets_after_history M g v ops c v' p :
  ids_history_ok M ops -> run_state g (conn_new g v) ops = Some c ->
  match recv_pubrel g c v' (PROk p) with
  | Ok (c', _) => mem (k_pid p) (c_qos2 c') = false
  | Panic _ => True
  end.
Proof.
  intros Hi Hr. pose proof (fresh_asc_qos2 M g v ops Hi) as H. rewrite Hr in H.
  apply (pubrel_forgets g c v' p M). apply (asc_weaken 1 0); [lia|exact H].
Qed.
