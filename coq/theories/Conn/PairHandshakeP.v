(* C01, model side: THE PERSISTENT v3.1.1 HANDSHAKE (Clean Session = 0) ESTABLISHES THE LOSSY PAIR INVARIANT, and so, from two
   endpoints with nothing stored, ANY schedule of publications, deliveries AND TRANSPORT LOSSES succeeds, QoS 2 messages
   are notified exactly once and QoS 1 messages at least once. *)
From Coq Require Import Permutation.
From MQ Require Import Base.Prelude Alloc.Alloc Alloc.SetSpec Alloc.AllocProofs Framing.Framing
                       Conn.Types Conn.TopicAlias Conn.ConnRecord Conn.Step Conn.Run Corr.ConnTrace Conn.Scope Conn.IdsQuota Conn.WfInv
                       Conn.Own Conn.OwnFrame Conn.OwnStep Conn.SupStep Conn.SessInv Conn.Qos2Dup Conn.TasBounds Conn.NoPanic
                       Conn.PairQos Conn.PairSeq Conn.PairConc Conn.PairLoss Conn.PairLossAcc Conn.PairHandshake5.

(* what the handshake has to track: nothing stored, nothing awaited, nothing handled, no size limit, the session is kept *)
Definition HVP (c : conn) (st : status) : Prop :=
  c_version c = V311 /\ c_status c = st /\ c_qos2 c = [] /\ c_store c = [] /\ c_send_max c = None /\
  c_puback c = [] /\ c_pubrec c = [] /\ c_pubcomp c = [] /\ c_mps_send c = MQTT_PACKET_SIZE_NO_LIMIT /\ c_need_store c = true.
Definition EMPTY (c : conn) : Prop :=
  c_qos2 c = [] /\ c_store c = [] /\ c_puback c = [] /\ c_pubrec c = [] /\ c_pubcomp c = [] /\ c_mps_send c = MQTT_PACKET_SIZE_NO_LIMIT.

Lemma client_sends_connectP c p :
  c_version c = V311 -> c_status c = Disconnected -> EMPTY c -> k_ver p = V311 -> k_flag p = false ->
  exists c1 e, send_connect c p = Ok (c1, e) /\ sends e = [p] /\ errors e = [] /\ HVP c1 Connecting /\ c_auto_pub c1 = c_auto_pub c.
Proof.
  intros Hv Hs (E1 & E2 & E3 & E4 & E5 & E6) Hpv Hfl. unfold send_connect. rewrite Hpv, Hs, Hfl. cbn [version_eqb negb andb status_eqb]. cbv zeta.
  unfold send_and_post, send_post_process, initialize. conn_simpl_goal.
  destruct (0 <? _); (eexists _, _; split; [reflexivity|]; cbn; unfold HVP; conn_simpl_goal; repeat split; assumption || reflexivity).
Qed.

Lemma server_receives_connectP g c p :
  c_version c = V311 -> c_status c = Disconnected -> EMPTY c -> k_flag p = false ->
  exists c1 e, recv_connect g c V311 (PROk p) = Ok (c1, e) /\ notifies e = [p] /\ errors e = [] /\ sends e = [] /\
               HVP c1 Connecting /\ c_auto_pub c1 = c_auto_pub c.
Proof.
  intros Hv Hs (E1 & E2 & E3 & E4 & E5 & E6) Hfl. unfold recv_connect. rewrite Hs. cbn [status_eqb negb]. cbv zeta.
  unfold connect_recv_state. rewrite Hfl. cbn [version_eqb bindr]. cbv zeta.
  unfold refresh_pingreq_recv, initialize.
  destruct (0 <? k_keep_alive p); conn_simpl_goal; cbn [bindr]; conn_simpl_goal; destruct (negb (_ =? 0));
    (eexists _, _; split; [reflexivity|]; cbn; unfold HVP; conn_simpl_goal; repeat split; assumption || reflexivity).
Qed.

Lemma server_sends_connackP c p :
  HVP c Connecting -> k_ver p = V311 -> k_rc p = 0 ->
  exists c1 e, send_connack c p = Ok (c1, e) /\ sends e = [p] /\ errors e = [] /\ HVP c1 Connected /\ c_auto_pub c1 = c_auto_pub c.
Proof.
  intros (Hv & Hs & Hq & Hst & Hsm & H6 & H7 & H8 & H9 & H10) Hpv Hrc.
  unfold send_connack. rewrite Hpv, Hs. cbn [version_eqb negb andb status_eqb]. rewrite Hrc. change (0 =? 0) with true. cbn [negb]. cbv zeta.
  unfold connack_send_props. rewrite Hpv. cbn [version_eqb andb].
  unfold send_stored. conn_simpl_goal. rewrite Hst. cbn [send_stored_l map fold_left send_stored_events].
  unfold release_all. cbn [bindr fold_left]. conn_simpl_goal. rewrite Hsm. cbn [bindr].
  unfold send_post_process. conn_simpl_goal. destruct (c_is_client c); try destruct (0 <? _);
    (eexists _, _; split; [reflexivity|]; cbn; unfold HVP; conn_simpl_goal; repeat split; assumption || reflexivity).
Qed.

Lemma client_receives_connackP c p :
  HVP c Connecting -> k_rc p = 0 ->
  exists c1 e, recv_connack c V311 (PROk p) = Ok (c1, e) /\ notifies e = [p] /\ errors e = [] /\ sends e = [] /\
               HVP c1 Connected /\ c_auto_pub c1 = c_auto_pub c.
Proof.
  intros (Hv & Hs & Hq & Hst & Hsm & H6 & H7 & H8 & H9 & H10) Hrc.
  unfold recv_connack. rewrite Hs. cbn [status_eqb]. rewrite Hrc. change (0 =? 0) with true. cbv iota. cbn [version_eqb]. cbv zeta.
  unfold resume_or_clear, clear_store_related. destruct (k_flag p).
  - unfold send_stored. conn_simpl_goal. rewrite Hst. cbn [send_stored_l map fold_left send_stored_events]. conn_simpl_goal.
    unfold release_all. cbn [bindr fold_left]. conn_simpl_goal. rewrite Hsm. cbn [bindr existsb].
    eexists _, _; split; [reflexivity|]; cbn; unfold HVP; conn_simpl_goal; repeat split; assumption || reflexivity.
  - cbn [bindr]. conn_simpl_goal.
    eexists _, _; split; [reflexivity|]; cbn; unfold HVP; conn_simpl_goal; repeat split; assumption || reflexivity.
Qed.

Lemma K_of_HVP g c st : OWN g c -> HVP c st -> K g c.
Proof.
  intros HO (Hv & _ & _ & Hst & _ & H6 & H7 & H8 & _ & _). split; [exact HO|]. split; [|split].
  - intros _. unfold SUPX, sup8. rewrite H6, H7, H8. intro y. repeat split; intro H; discriminate H.
  - unfold ENT. rewrite Hst. intros q [].
  - rewrite Hv. discriminate.
Qed.

Theorem persistent_handshake_establishes_lossy_invariant gs gr A0 B0 cn ca :
  OWN gs A0 -> OWN gr B0 -> c_version A0 = V311 -> c_version B0 = V311 -> c_status A0 = Disconnected -> c_status B0 = Disconnected ->
  EMPTY A0 -> EMPTY B0 -> c_auto_pub A0 = true -> c_auto_pub B0 = true -> role_client_ok gs = true -> role_server_ok gr = true ->
  k_type cn = T_CONNECT -> k_ver cn = V311 -> k_flag cn = false ->
  k_type ca = T_CONNACK -> k_ver ca = V311 -> k_rc ca = 0 ->
  exists A1 e1 B1 e2 B2 e3 A2 e4,
    step gs A0 (OSend cn) = Ok (A1, e1, []) /\ sends e1 = [cn] /\ errors e1 = [] /\
    deliver gr B0 cn = Ok (B1, e2) /\ notifies e2 = [cn] /\ errors e2 = [] /\ sends e2 = [] /\
    step gr B1 (OSend ca) = Ok (B2, e3, []) /\ sends e3 = [ca] /\ errors e3 = [] /\
    deliver gs A1 ca = Ok (A2, e4) /\ notifies e4 = [ca] /\ errors e4 = [] /\ sends e4 = [] /\
    invL gs gr (mkSys A2 B2 [] [] [] []) /\ accB (mkSys A2 B2 [] [] [] []) /\ accC (mkSys A2 B2 [] [] [] []).
Proof.
  intros OA OB VA VB SA SB EA EB PA PB RA RB T1 V1 F1 T2 V2 C2.
  destruct (client_sends_connectP A0 cn VA SA EA V1 F1) as (A1 & e1 & E1 & S1 & X1 & H1 & P1).
  pose proof (send_connect_OR gs A0 cn OA) as O1. rewrite E1 in O1. destruct O1 as [OA1 _].
  destruct (server_receives_connectP gr B0 cn VB SB EB F1) as (B1 & e2 & E2 & N2 & X2 & S2 & H2 & P2).
  pose proof (recv_connect_OR gr B0 V311 (PROk cn) OB) as O2. rewrite E2 in O2. destruct O2 as [OB1 _].
  destruct (server_sends_connackP B1 ca H2 V2 C2) as (B2 & e3 & E3 & S3 & X3 & H3 & P3).
  pose proof (send_connack_OR gr B1 ca OB1) as O3. rewrite E3 in O3. destruct O3 as [OB2 _].
  destruct (client_receives_connackP A1 ca H1 C2) as (A2 & e4 & E4 & N4 & X4 & S4 & H4 & P4).
  pose proof (recv_connack_OR gs A1 V311 (PROk ca) OA1) as O4. rewrite E4 in O4. destruct O4 as [OA2 _].
  pose proof (K_of_HVP gs A2 _ OA2 H4) as KA. pose proof (K_of_HVP gr B2 _ OB2 H3) as KB.
  pose proof H1 as (a1 & _).
  destruct H3 as (c1 & c2 & c3 & c4 & c5 & c6 & c7 & c8 & c9 & c10). destruct H4 as (d1 & d2 & d3 & d4 & d5 & d6 & d7 & d8 & d9 & d10).
  exists A1, e1, B1, e2, B2, e3, A2, e4.
  split; [rewrite (step_send_connect gs A0 cn ltac:(congruence) T1 RA), E1; reflexivity|]. split; [exact S1|]. split; [exact X1|].
  split; [unfold deliver, dispatch_recv; rewrite T1, VB; exact E2|]. split; [exact N2|]. split; [exact X2|]. split; [exact S2|].
  split; [rewrite (step_send_connack gr B1 ca ltac:(destruct H2 as (b1 & _); congruence) T2 RB), E3; reflexivity|]. split; [exact S3|]. split; [exact X3|].
  split; [unfold deliver, dispatch_recv; rewrite T2, a1; exact E4|]. split; [exact N4|]. split; [exact X4|]. split; [exact S4|].
  split; [|split; [exact (accB_init A2 B2 c3 d4)|exact (accC_init A2 B2 d4)]].
  apply invL_init.
  - exact KA. - split; [exact d1|rewrite d2; reflexivity]. - congruence. - exact d10. - exact d9. - exact d4.
  - exact KB. - split; [exact c1|rewrite c2; reflexivity]. - congruence. - exact c10. - exact c4. - exact c3.
Qed.

(* END TO END ACROSS TRANSPORT LOSS: two freshly constructed v3.1.1 endpoints, the persistent handshake, then ANY schedule of
   publications, deliveries and transport losses (each followed by a resumption) *)
Theorem fresh_endpoints_interoperate_across_loss gs gr cn ca l :
  1 <= g_idmax gs -> 1 <= g_idmax gr -> role_client_ok gs = true -> role_server_ok gr = true -> 2 + g_idw gs <= MQTT_PACKET_SIZE_NO_LIMIT ->
  k_type cn = T_CONNECT -> k_ver cn = V311 -> k_flag cn = false ->
  k_type ca = T_CONNACK -> k_ver ca = V311 -> k_rc ca = 0 ->
  Forall good_actL l ->
  let A0 := set_auto_pub (conn_new gs V311) true in
  let B0 := set_auto_pub (conn_new gr V311) true in
  exists A1 e1 B1 e2 B2 e3 A2 e4 s1 s2,
    step gs A0 (OSend cn) = Ok (A1, e1, []) /\ sends e1 = [cn] /\
    deliver gr B0 cn = Ok (B1, e2) /\ notifies e2 = [cn] /\
    step gr B1 (OSend ca) = Ok (B2, e3, []) /\ sends e3 = [ca] /\
    deliver gs A1 ca = Ok (A2, e4) /\ notifies e4 = [ca] /\
    errors e1 = [] /\ errors e2 = [] /\ errors e3 = [] /\ errors e4 = [] /\
    run_schedL gs gr (mkSys A2 B2 [] [] [] []) l = Some s1 /\
    run_schedL gs gr s1 (drainL (measure s1)) = Some s2 /\
    qsr s2 = [] /\ qrs s2 = [] /\ c_store (cs s2) = [] /\
    map undup (filter q2 (delivered s2)) = map undup (filter q2 (published s1)) /\
    (forall p, In p (published s1) -> k_type p = T_PUBLISH -> k_qos p = 1 -> In (undup p) (map undup (delivered s2))).
Proof.
  intros IA IB RA RB Hw T1 V1 F1 T2 V2 C2 Hl A0 B0.
  assert (OA : OWN gs A0) by (apply (f8_own gs (conn_new gs V311)); [unfold F8; repeat split|exact (conn_new_OWN gs V311 IA)]).
  assert (OB : OWN gr B0) by (apply (f8_own gr (conn_new gr V311)); [unfold F8; repeat split|exact (conn_new_OWN gr V311 IB)]).
  assert (EA : EMPTY A0) by (unfold EMPTY; repeat split). assert (EB : EMPTY B0) by (unfold EMPTY; repeat split).
  destruct (persistent_handshake_establishes_lossy_invariant gs gr A0 B0 cn ca OA OB eq_refl eq_refl eq_refl eq_refl EA EB eq_refl eq_refl RA RB
              T1 V1 F1 T2 V2 C2)
    as (A1 & e1 & B1 & e2 & B2 & e3 & A2 & e4 & E1 & S1 & X1 & E2 & N2 & X2 & _ & E3 & S3 & X3 & E4 & N4 & X4 & _ & Hinv & HB & HC).
  destruct (qos2_exactly_once_across_loss gs gr RA RB Hw l _ Hinv HB Hl) as (s1 & s2 & R1 & R2 & Q1 & Q2 & D2).
  destruct (qos1_at_least_once_across_loss gs gr RA RB Hw l _ Hinv HC Hl) as (s1' & s2' & R1' & R2' & _ & _ & St & D1).
  assert (Es1 : s1' = s1) by congruence. subst s1'. assert (Es2 : s2' = s2) by congruence. subst s2'.
  exists A1, e1, B1, e2, B2, e3, A2, e4, s1, s2.
  repeat (split; [assumption|]). assumption.
Qed.

(* the same handshake seen with the SERVER as the publishing side (PairLossS): the invariant with the roles swapped *)
From MQ Require Import Conn.PairLossS.
Lemma persistent_handshake_states gs gr A0 B0 cn ca :
  OWN gs A0 -> OWN gr B0 -> c_version A0 = V311 -> c_version B0 = V311 -> c_status A0 = Disconnected -> c_status B0 = Disconnected ->
  EMPTY A0 -> EMPTY B0 -> role_client_ok gs = true -> role_server_ok gr = true ->
  k_type cn = T_CONNECT -> k_ver cn = V311 -> k_flag cn = false ->
  k_type ca = T_CONNACK -> k_ver ca = V311 -> k_rc ca = 0 ->
  exists A1 e1 B1 e2 B2 e3 A2 e4,
    step gs A0 (OSend cn) = Ok (A1, e1, []) /\ sends e1 = [cn] /\ errors e1 = [] /\
    deliver gr B0 cn = Ok (B1, e2) /\ notifies e2 = [cn] /\ errors e2 = [] /\
    step gr B1 (OSend ca) = Ok (B2, e3, []) /\ sends e3 = [ca] /\ errors e3 = [] /\
    deliver gs A1 ca = Ok (A2, e4) /\ notifies e4 = [ca] /\ errors e4 = [] /\
    OWN gs A2 /\ HVP A2 Connected /\ c_auto_pub A2 = c_auto_pub A0 /\ OWN gr B2 /\ HVP B2 Connected /\ c_auto_pub B2 = c_auto_pub B0.
Proof.
  intros OA OB VA VB SA SB EA EB RA RB T1 V1 F1 T2 V2 C2.
  destruct (client_sends_connectP A0 cn VA SA EA V1 F1) as (A1 & e1 & E1 & S1 & X1 & H1 & P1).
  pose proof (send_connect_OR gs A0 cn OA) as O1. rewrite E1 in O1. destruct O1 as [OA1 _].
  destruct (server_receives_connectP gr B0 cn VB SB EB F1) as (B1 & e2 & E2 & N2 & X2 & S2 & H2 & P2).
  pose proof (recv_connect_OR gr B0 V311 (PROk cn) OB) as O2. rewrite E2 in O2. destruct O2 as [OB1 _].
  destruct (server_sends_connackP B1 ca H2 V2 C2) as (B2 & e3 & E3 & S3 & X3 & H3 & P3).
  pose proof (send_connack_OR gr B1 ca OB1) as O3. rewrite E3 in O3. destruct O3 as [OB2 _].
  destruct (client_receives_connackP A1 ca H1 C2) as (A2 & e4 & E4 & N4 & X4 & S4 & H4 & P4).
  pose proof (recv_connack_OR gs A1 V311 (PROk ca) OA1) as O4. rewrite E4 in O4. destruct O4 as [OA2 _].
  pose proof H1 as (a1 & _). pose proof H2 as (b1 & _).
  exists A1, e1, B1, e2, B2, e3, A2, e4.
  split; [rewrite (step_send_connect gs A0 cn ltac:(congruence) T1 RA), E1; reflexivity|]. split; [exact S1|]. split; [exact X1|].
  split; [unfold deliver, dispatch_recv; rewrite T1, VB; exact E2|]. split; [exact N2|]. split; [exact X2|].
  split; [rewrite (step_send_connack gr B1 ca ltac:(congruence) T2 RB), E3; reflexivity|]. split; [exact S3|]. split; [exact X3|].
  split; [unfold deliver, dispatch_recv; rewrite T2, a1; exact E4|]. split; [exact N4|]. split; [exact X4|].
  split; [exact OA2|]. split; [exact H4|]. split; [congruence|]. split; [exact OB2|]. split; [exact H3|congruence].
Qed.

Theorem fresh_endpoints_interoperate_across_loss_server_publishes gc gsv cn ca l :
  1 <= g_idmax gc -> 1 <= g_idmax gsv -> role_client_ok gc = true -> role_server_ok gsv = true -> 2 + g_idw gsv <= MQTT_PACKET_SIZE_NO_LIMIT ->
  k_type cn = T_CONNECT -> k_ver cn = V311 -> k_flag cn = false ->
  k_type ca = T_CONNACK -> k_ver ca = V311 -> k_rc ca = 0 ->
  Forall good_actS l ->
  let A0 := set_auto_pub (conn_new gc V311) true in
  let B0 := set_auto_pub (conn_new gsv V311) true in
  exists A1 e1 B1 e2 B2 e3 A2 e4 s1 s2,
    step gc A0 (OSend cn) = Ok (A1, e1, []) /\ sends e1 = [cn] /\
    deliver gsv B0 cn = Ok (B1, e2) /\ notifies e2 = [cn] /\
    step gsv B1 (OSend ca) = Ok (B2, e3, []) /\ sends e3 = [ca] /\
    deliver gc A1 ca = Ok (A2, e4) /\ notifies e4 = [ca] /\
    errors e1 = [] /\ errors e2 = [] /\ errors e3 = [] /\ errors e4 = [] /\
    (* the SERVER is the publishing side from here on *)
    run_schedS gsv gc (mkSys B2 A2 [] [] [] []) l = Some s1 /\
    run_schedS gsv gc s1 (drainS (measure s1)) = Some s2 /\
    qsr s2 = [] /\ qrs s2 = [] /\ c_store (cs s2) = [] /\
    map undup (filter q2 (delivered s2)) = map undup (filter q2 (published s1)) /\
    (forall p, In p (published s1) -> k_type p = T_PUBLISH -> k_qos p = 1 -> In (undup p) (map undup (delivered s2))).
Proof.
  intros IA IB RA RB Hw T1 V1 F1 T2 V2 C2 Hl A0 B0.
  assert (OA : OWN gc A0) by (apply (f8_own gc (conn_new gc V311)); [unfold F8; repeat split|exact (conn_new_OWN gc V311 IA)]).
  assert (OB : OWN gsv B0) by (apply (f8_own gsv (conn_new gsv V311)); [unfold F8; repeat split|exact (conn_new_OWN gsv V311 IB)]).
  assert (EA : EMPTY A0) by (unfold EMPTY; repeat split). assert (EB : EMPTY B0) by (unfold EMPTY; repeat split).
  destruct (persistent_handshake_states gc gsv A0 B0 cn ca OA OB eq_refl eq_refl eq_refl eq_refl EA EB RA RB T1 V1 F1 T2 V2 C2)
    as (A1 & e1 & B1 & e2 & B2 & e3 & A2 & e4 & E1 & S1 & X1 & E2 & N2 & X2 & E3 & S3 & X3 & E4 & N4 & X4 & OA2 & HA & PA & OB2 & HB & PB).
  pose proof (K_of_HVP gc A2 _ OA2 HA) as KA. pose proof (K_of_HVP gsv B2 _ OB2 HB) as KB.
  destruct HA as (d1 & d2 & d3 & d4 & d5 & d6 & d7 & d8 & d9 & d10). destruct HB as (c1 & c2 & c3 & c4 & c5 & c6 & c7 & c8 & c9 & c10).
  assert (Hall : allS gsv gc (mkSys B2 A2 [] [] [] [])).
  { split; [|split; [exact (accB_init B2 A2 d3 c4)|exact (accC_init B2 A2 c4)]]. apply invL_init.
    - exact KB. - split; [exact c1|rewrite c2; reflexivity]. - rewrite PB; reflexivity. - exact c10. - exact c9. - exact c4.
    - exact KA. - split; [exact d1|rewrite d2; reflexivity]. - rewrite PA; reflexivity. - exact d10. - exact d4. - exact d3. }
  destruct (server_to_client_across_loss gsv gc RB RA Hw l _ Hall Hl) as (s1 & s2 & R1 & R2 & Q1 & Q2 & St & D2 & D1).
  exists A1, e1, B1, e2, B2, e3, A2, e4, s1, s2.
  repeat (split; [assumption|]). assumption.
Qed.
