(* The calls that touch neither the eight fields of the ownership invariant nor need_store. *)
From MQ Require Import Base.Prelude Alloc.Alloc Alloc.SetSpec Alloc.AllocProofs Framing.Framing
                       Conn.Types Conn.TopicAlias Conn.ConnRecord Conn.Step Conn.Run Corr.ConnTrace Conn.Scope Conn.IdsQuota Conn.WfInv Conn.Own Conn.OwnFrame.

Definition F9 (a b : conn) : Prop :=
  c_pid a = c_pid b /\ c_store a = c_store b /\ c_puback a = c_puback b /\ c_pubrec a = c_pubrec b /\
  c_pubcomp a = c_pubcomp b /\ c_suback a = c_suback b /\ c_unsuback a = c_unsuback b /\ c_version a = c_version b /\ c_need_store a = c_need_store b.
Lemma f9_refl a : F9 a a. Proof. unfold F9; repeat split. Qed.
Lemma f9_f8 a b : F9 a b -> F8 a b.
Proof. unfold F9, F8. intuition. Qed.
Lemma f9_trans a b c : F9 a b -> F9 b c -> F9 a c. Proof. unfold F9; intuition congruence. Qed.
Lemma f9_own g a b : F9 b a -> OWN g a -> OWN g b.
Proof. intro H. apply f8_own. now apply f9_f8. Qed.

Definition FR9 (c : conn) (r : res (conn * list event)) : Prop :=
  match r with Ok (c', _) => F9 c' c | Panic _ => True end.
Lemma FR9_trans c c1 r : F9 c1 c -> FR9 c1 r -> FR9 c r.
Proof. destruct r as [[c' e]|]; cbn [FR9]; [|trivial]. intros H1 H2. now apply (f9_trans _ c1). Qed.

Lemma post_f9 c : F9 (fst (send_post_process c)) c.
Proof. unfold send_post_process. destruct (c_is_client c); [destruct (0 <? _)|]; unfold F9; conn_simpl; repeat split. Qed.
Lemma cancel_f9 c : F9 (fst (cancel_timers c)) c.
Proof. rewrite cancel_timers_state. unfold F9; conn_simpl; repeat split. Qed.
Lemma refresh_f9 c : F9 (fst (refresh_pingreq_recv c)) c.
Proof. unfold refresh_pingreq_recv. destruct (negb _); unfold F9; conn_simpl; repeat split. Qed.

Ltac f9_norm :=
  repeat match goal with
         | |- context [if ?b then _ else _] => destruct b eqn:?
         | |- context [match ?o with Some _ => _ | None => _ end] => destruct o eqn:?
         | H : F9 (if ?b then _ else _) _ |- _ => destruct b eqn:?
         | H : F9 _ (if ?b then _ else _) |- _ => destruct b eqn:?
         | H : F9 (match ?o with Some _ => _ | None => _ end) _ |- _ => destruct o eqn:?
         | H : F9 _ (match ?o with Some _ => _ | None => _ end) |- _ => destruct o eqn:?
         end.
Ltac f9_flat := unfold F9 in *; conn_simpl; repeat match goal with H : _ /\ _ |- _ => destruct H end; repeat split; congruence.
Ltac f9_leaf := cbn [FR9]; f9_norm; f9_flat.

Lemma send_and_post_FR9 c0 c p rel pre : F9 c c0 -> FR9 c0 (send_and_post c p rel pre).
Proof.
  intro H. unfold send_and_post. pose proof (post_f9 c) as Hp. destruct (send_post_process c) as [c' e]. cbn [fst FR9] in *. now apply (f9_trans _ c).
Qed.

Ltac fh9 :=
  first
  [ progress cbn [bindr]
  | match goal with
    | |- FR9 _ (Panic _) => exact I
    | |- FR9 _ (let '(_, _) := send_post_process ?c in _) =>
        let H := fresh "Hpost" in pose proof (post_f9 c) as H; destruct (send_post_process c) as [? ?]; cbn [fst] in H
    | |- FR9 _ (let '(_, _) := cancel_timers ?c in _) =>
        let H := fresh "Hcan" in pose proof (cancel_f9 c) as H; destruct (cancel_timers c) as [? ?]; cbn [fst] in H
    | |- FR9 _ (let '(_, _) := refresh_pingreq_recv ?c in _) =>
        let H := fresh "Href" in pose proof (refresh_f9 c) as H; destruct (refresh_pingreq_recv c) as [? ?]; cbn [fst] in H
    | |- FR9 _ (let '(_, _) := (_, _) in _) => cbv beta iota
    | |- FR9 _ (let '(_, _) := (if ?b then _ else _) in _) => destruct b eqn:?
    | |- FR9 _ (if ?b then _ else _) => destruct b eqn:?
    | |- FR9 _ (bindr (if ?b then _ else _) _) => destruct b eqn:?
    | |- FR9 _ (match ?y with _ => _ end) => destruct y eqn:?
    end ].
Ltac f9_final :=
  match goal with
  | |- FR9 _ (Panic _) => exact I
  | |- FR9 _ (Ok _) => f9_leaf
  | |- FR9 _ (send_and_post _ _ _ _) => f9_norm; (apply send_and_post_FR9; f9_flat)
  end.
Ltac f9_auto := cbv zeta; repeat fh9; try f9_final.

Lemma send_plain_FR9 c p : FR9 c (send_plain c p). Proof. unfold send_plain. f9_auto. Qed.
Lemma send_pingreq_FR9 c p : FR9 c (send_pingreq c p). Proof. unfold send_pingreq. f9_auto. Qed.
Lemma send_disconnect_FR9 c p : FR9 c (send_disconnect c p). Proof. unfold send_disconnect. f9_auto. Qed.
Lemma send_auth_FR9 c p : FR9 c (send_auth c p). Proof. unfold send_auth. f9_auto. Qed.
Lemma send_puback_like_FR9 c p : FR9 c (send_puback_like c p). Proof. unfold send_puback_like. f9_auto. Qed.
Lemma close_with_disconnect_FR9 c p : FR9 c (close_with_disconnect c p).
Proof. unfold close_with_disconnect. destruct (_ && _); [f9_auto|apply send_disconnect_FR9]. Qed.
Lemma handle_v5_error_FR9 c e : FR9 c (handle_v5_error c e).
Proof.
  unfold handle_v5_error. pose proof (close_with_disconnect_FR9 c (disconnect_v5 (disc_rc_of_err e))) as H.
  destruct (close_with_disconnect _ _) as [[c' ev]|]; cbn [bindr FR9] in *; [exact H|exact I].
Qed.
Lemma handle_error_FR9 c v e : FR9 c (handle_error c v e).
Proof. unfold handle_error. destruct (version_eqb v V50); [apply handle_v5_error_FR9|cbn [FR9]; apply f9_refl]. Qed.

Ltac fcall9 :=
  match goal with
  | |- FR9 _ (handle_v5_error ?c ?e) => eapply FR9_trans; [|apply handle_v5_error_FR9]; f9_norm; f9_flat
  | |- FR9 _ (handle_error ?c ?v ?e) => eapply FR9_trans; [|apply handle_error_FR9]; f9_norm; f9_flat
  | |- FR9 _ (bindr (handle_v5_error ?c ?e) _) =>
      let H := fresh "Hk" in pose proof (handle_v5_error_FR9 c e) as H; destruct (handle_v5_error c e) as [[? ?]|]; cbn [FR9] in H
  | |- FR9 _ (bindr (send_puback_like ?c ?p) _) =>
      let H := fresh "Hk" in pose proof (send_puback_like_FR9 c p) as H; destruct (send_puback_like c p) as [[? ?]|]; cbn [FR9] in H
  | |- FR9 _ (bindr (send_plain ?c ?p) _) =>
      let H := fresh "Hk" in pose proof (send_plain_FR9 c p) as H; destruct (send_plain c p) as [[? ?]|]; cbn [FR9] in H
  | |- FR9 _ (bindr (close_with_disconnect ?c ?p) _) =>
      let H := fresh "Hk" in pose proof (close_with_disconnect_FR9 c p) as H; destruct (close_with_disconnect c p) as [[? ?]|]; cbn [FR9] in H
  end.
Lemma note_inbound_f9 c p : F9 (note_inbound c p) c.
Proof. unfold note_inbound. destruct (negb _); unfold F9; conn_simpl; repeat split. Qed.
Lemma note_handled_f9 c p : F9 (note_handled c p) c.
Proof. unfold note_handled. destruct (_ =? _); unfold F9; conn_simpl; repeat split. Qed.
Ltac f9_gen :=
  repeat match goal with
         | |- context [note_handled ?c ?p] => let H := fresh in pose proof (note_handled_f9 c p) as H; generalize dependent (note_handled c p); intros
         | _ : context [note_handled ?c ?p] |- _ => let H := fresh in pose proof (note_handled_f9 c p) as H; generalize dependent (note_handled c p); intros
         | |- context [note_inbound ?c ?p] => let H := fresh in pose proof (note_inbound_f9 c p) as H; generalize dependent (note_inbound c p); intros
         | _ : context [note_inbound ?c ?p] |- _ => let H := fresh in pose proof (note_inbound_f9 c p) as H; generalize dependent (note_inbound c p); intros
         end.
Ltac f9_final3 := match goal with |- FR9 _ (Panic _) => exact I | |- FR9 _ (Ok _) => cbn [FR9]; f9_gen; f9_norm; f9_flat end.
Ltac f9_auto3 := cbv zeta; repeat first [fcall9 | fh9]; try f9_final3.

Lemma recv_publish_v311_FR9 g c pr : FR9 c (recv_publish_v311 g c pr).
Proof. unfold recv_publish_v311, handle_v311_error. destruct pr as [p|e]; f9_auto3. Qed.
Lemma resolve_recv_alias_FR9 g c p :
  match resolve_recv_alias g c p with Ok (c', _, _, _) => F9 c' c | Panic _ => True end.
Proof.
  unfold resolve_recv_alias.
  repeat match goal with
         | |- match bindr (handle_v5_error ?cc ?e) _ with _ => _ end =>
             let H := fresh "Hk" in pose proof (handle_v5_error_FR9 cc e) as H; destruct (handle_v5_error cc e) as [[? ?]|]; cbn [bindr FR9] in *
         | |- match bindr (tar_insert ?r ?t ?a) _ with _ => _ end => destruct (tar_insert r t a) as [?|]; cbn [bindr]
         | |- match (if ?b then _ else _) with _ => _ end => destruct b
         | |- match (match ?o with Some _ => _ | None => _ end) with _ => _ end => destruct o
         end; try exact I; try assumption; first [apply f9_refl|unfold F9; conn_simpl; repeat split].
Qed.
Lemma recv_publish_v5_FR9 g c pr : FR9 c (recv_publish_v5 g c pr).
Proof.
  unfold recv_publish_v5. destruct pr as [p|e]; [|f9_auto3]. cbv zeta.
  destruct (_ && _); [apply handle_v5_error_FR9|].
  pose proof (resolve_recv_alias_FR9 g (note_inbound c p) p) as Hr.
  destruct (resolve_recv_alias g (note_inbound c p) p) as [[[[c1 q] st] e0]|]; cbn [bindr]; [|exact I].
  pose proof (note_inbound_f9 c p) as Hn. assert (Hc1 : F9 c1 c) by (now apply (f9_trans _ (note_inbound c p))).
  clear Hr Hn. generalize dependent (note_inbound c p). intros _.
  destruct st; [cbn [FR9]; exact Hc1|]. f9_auto3.
Qed.
Lemma recv_pubrel_FR9 g c v pr : FR9 c (recv_pubrel g c v pr).
Proof. unfold recv_pubrel. destruct pr as [p|e]; [|apply handle_error_FR9]. f9_auto3. Qed.
Lemma recv_notify_FR9 c v pr : FR9 c (recv_notify c v pr).
Proof. unfold recv_notify. destruct pr as [p|e]; [|apply handle_error_FR9]. f9_auto3. Qed.
Lemma recv_pingreq_FR9 g c v pr : FR9 c (recv_pingreq g c v pr).
Proof. unfold recv_pingreq. destruct pr as [p|e]; [|apply handle_error_FR9]. f9_auto3. Qed.
Lemma recv_pingresp_FR9 c v pr : FR9 c (recv_pingresp c v pr).
Proof. unfold recv_pingresp. destruct pr as [p|e]; [|apply handle_error_FR9]. f9_auto3. Qed.
Lemma recv_disconnect_FR9 c v pr : FR9 c (recv_disconnect c v pr).
Proof. unfold recv_disconnect. destruct pr as [p|e]; [|apply handle_error_FR9]. f9_auto3. Qed.
Lemma do_timer_FR9 c k : FR9 c (do_timer c k).
Proof.
  unfold do_timer. destruct k; cbv zeta.
  - destruct (status_eqb _ _); [|cbn [FR9]; unfold F9; conn_simpl; repeat split].
    destruct (c_version _); try exact I; (eapply FR9_trans; [|apply send_pingreq_FR9]); unfold F9; conn_simpl; repeat split.
  - destruct (c_version _); try exact I; [cbn [FR9]; unfold F9; conn_simpl; repeat split|].
    destruct (status_eqb _ _); [|cbn [FR9]; unfold F9; conn_simpl; repeat split].
    (eapply FR9_trans; [|apply close_with_disconnect_FR9]); unfold F9; conn_simpl; repeat split.
  - destruct (c_version _); try exact I; [cbn [FR9]; unfold F9; conn_simpl; repeat split|].
    destruct (status_eqb _ _); [|cbn [FR9]; unfold F9; conn_simpl; repeat split].
    (eapply FR9_trans; [|apply close_with_disconnect_FR9]); unfold F9; conn_simpl; repeat split.
Qed.
