(* C01, model side: sequences of any mix of QoS 0 / 1 / 2 with MANUAL RESPONSES (auto_pub_response off on both endpoints, the
   default of a new object; PairManualSeq.v with QoS 0 publications in between), v3.1.1 and v5.0.  A QoS 0 publication does
   not look at the response option at all: stated once for any endpoints ([exchange0_gen], [exchange0_5_gen]) and instantiated
   for the manual pair invariants. *)
From MQ Require Import Base.Prelude Alloc.Alloc Alloc.SetSpec Alloc.AllocProofs Framing.Framing
                       Conn.Types Conn.TopicAlias Conn.ConnRecord Conn.Step Conn.Run Corr.ConnTrace Conn.Scope Conn.IdsQuota Conn.WfInv
                       Conn.Own Conn.OwnFrame Conn.OwnStep Conn.Qos2Dup Conn.TasBounds Conn.NoPanic Conn.PairQos Conn.PairQos5 Conn.PairSeq Conn.PairSeq5
                       Conn.PairManual Conn.PairManual5 Conn.PairManualSeq Conn.PairManualSeq5 Conn.PairSeqMixed Conn.PairSeqMixed5.

(* v3.1.1: whatever the response options are *)
Lemma exchange0_gen gs gr cs cr p : OWN gs cs -> ready cs -> ready cr -> v311_pub p 0 ->
  exists cs' cr', exchange0 gs gr cs cr p = Done cs' cr' [p] /\
    OWN gs cs' /\ ready cs' /\ c_auto_pub cs' = c_auto_pub cs /\ ready cr' /\ c_auto_pub cr' = c_auto_pub cr /\
    F8 cs' cs /\ F8 cr' cr /\ c_qos2 cr' = c_qos2 cr /\ c_qos2 cs' = c_qos2 cs.
Proof.
  intros HO Rs Rr Hp. unfold exchange0.
  rewrite (step_send_publish_v311 gs cs p 0 (proj1 Rs) Hp).
  pose proof (sender_q0_x gs cs p HO Rs Hp) as H1.
  destruct (send_publish_v311 cs p) as [[cs1 e1]|]; cbn [bindr]; [|destruct H1].
  destruct H1 as (S1 & N1 & X1 & L1 & O1 & R1 & A1 & F1 & Qs1). rewrite S1, N1, X1, L1. cbn [one none andb negb].
  pose proof (receiver_q0_x gr cr p Rr Hp) as H2.
  destruct (deliver gr cr p) as [[cr1 e2]|]; [|destruct H2].
  destruct H2 as (N2 & S2 & X2 & L2 & Rr1 & Ar1 & Q1 & F2). rewrite N2, S2, X2, L2. cbn [one none andb].
  exists cs1, cr1. split; [reflexivity|]. repeat (split; [assumption|]). assumption.
Qed.

Section MixedM.
Variables gs gr : cfg.

Definition exchange_any_m (cs cr : conn) (p : pkt) : outcome :=
  if k_qos p =? 0 then exchange0 gs gr cs cr p else exchange_m gs gr cs cr p.

Fixpoint run_mixed_m (cs cr : conn) (ps : list pkt) : outcome :=
  match ps with
  | [] => Done cs cr []
  | p :: t =>
    match exchange_any_m cs cr p with
    | Done cs' cr' d => match run_mixed_m cs' cr' t with Done cs'' cr'' d' => Done cs'' cr'' (d ++ d') | o => o end
    | o => o
    end
  end.

Theorem exchange_any_m_ok cs cr p : pair_inv_m gs cs cr -> v311_any p ->
  match exchange_any_m cs cr p with
  | Done cs' cr' d => d = [p] /\ pair_inv_m gs cs' cr'
  | AppPre => k_qos p <> 0
  | Fail => False
  end.
Proof.
  intros Hi Hp. unfold exchange_any_m. destruct Hp as [Hp|[Hp|Hp]].
  - destruct Hi as (HO & Rs & Has & Rr & Har & Hasc).
    destruct (exchange0_gen gs gr cs cr p HO Rs Rr Hp) as (cs' & cr' & E & O' & Rs' & As' & Rr' & Ar' & _ & _ & Q & _).
    destruct Hp as (_ & _ & Hq). rewrite Hq. change (0 =? 0) with true. cbv iota. rewrite E.
    split; [reflexivity|]. split; [exact O'|]. split; [exact Rs'|]. split; [congruence|]. split; [exact Rr'|]. split; [congruence|]. rewrite Q. exact Hasc.
  - pose proof (exchange_m_ok gs gr cs cr p 1 Hi Hp (or_introl eq_refl)) as H. destruct Hp as (Ht & Hv & Hq). rewrite Hq. change (1 =? 0) with false. cbv iota.
    destruct (exchange_m gs gr cs cr p) as [cs' cr' d| |]; [exact H|discriminate|exact H].
  - pose proof (exchange_m_ok gs gr cs cr p 2 Hi Hp (or_intror eq_refl)) as H. destruct Hp as (Ht & Hv & Hq). rewrite Hq. change (2 =? 0) with false. cbv iota.
    destruct (exchange_m gs gr cs cr p) as [cs' cr' d| |]; [exact H|discriminate|exact H].
Qed.

(* manual responses, any mix of QoS levels: notified exactly once each, in order *)
Theorem run_mixed_m_ok : forall ps cs cr, pair_inv_m gs cs cr -> Forall v311_any ps ->
  match run_mixed_m cs cr ps with
  | Done cs' cr' d => d = ps /\ pair_inv_m gs cs' cr'
  | AppPre => True
  | Fail => False
  end.
Proof.
  induction ps as [|p t IH]; intros cs cr Hi Hf; cbn [run_mixed_m]; [split; [reflexivity|exact Hi]|].
  inversion Hf as [|? ? Hp Ht]; subst.
  pose proof (exchange_any_m_ok cs cr p Hi Hp) as He.
  destruct (exchange_any_m cs cr p) as [cs' cr' d| |]; [|exact I|exact He]. destruct He as [-> Hi'].
  specialize (IH cs' cr' Hi' Ht). destruct (run_mixed_m cs' cr' t) as [cs'' cr'' d'| |]; [|exact I|exact IH].
  destruct IH as [-> Hi'']. split; [reflexivity|exact Hi''].
Qed.
End MixedM.

(* v5.0: whatever the response options are *)
Lemma exchange0_5_gen gs gr cs cr p : OWN gs cs -> ready5 cs -> c_ta_send cs = None -> ready5 cr -> v5_pub p 0 -> size_ok cs p = true ->
  exists cs' cr', exchange0_5 gs gr cs cr p = Done cs' cr' [p] /\
    OWN gs cs' /\ F8 cs' cs /\ KF cs' cs /\ c_send_count cs' = c_send_count cs /\ c_qos2 cs' = c_qos2 cs /\ c_publish_recv cs' = c_publish_recv cs /\
    F8 cr' cr /\ KF cr' cr /\ c_send_count cr' = c_send_count cr /\ c_qos2 cr' = c_qos2 cr /\ c_publish_recv cr' = c_publish_recv cr.
Proof.
  intros HO Rs Hta Rr Hp Esz. unfold exchange0_5. rewrite Esz. cbn [negb].
  rewrite (step_send_publish_v5 gs cs p 0 (proj1 Rs) Hp).
  pose proof (sender_q0_5x gs cs p HO Rs Hp Esz Hta) as H1.
  destruct (send_publish_v5 gs cs p) as [[cs1 e1]|]; cbn [bindr]; [|destruct H1].
  destruct H1 as (S1 & N1 & X1 & L1 & O1 & F1 & K1 & C1 & Q1 & P1). rewrite S1, N1, X1, L1. cbn [one none andb negb].
  pose proof (receiver_q0_5x gr cr p Rr Hp) as H2.
  destruct (deliver gr cr p) as [[cr1 e2]|]; [|destruct H2].
  destruct H2 as (N2 & S2 & X2 & L2 & F2 & K2 & C2 & Q2 & P2). rewrite N2, S2, X2, L2. cbn [one none andb].
  exists cs1, cr1. split; [reflexivity|]. repeat (split; [assumption|]). assumption.
Qed.

Section MixedM5.
Variables gs gr : cfg.

Definition exchange_any5_m (cs cr : conn) (p : pkt) : outcome :=
  if k_qos p =? 0 then exchange0_5 gs gr cs cr p else exchange5_m gs gr cs cr p.

Fixpoint run_mixed5_m (cs cr : conn) (ps : list pkt) : outcome :=
  match ps with
  | [] => Done cs cr []
  | p :: t =>
    match exchange_any5_m cs cr p with
    | Done cs' cr' d => match run_mixed5_m cs' cr' t with Done cs'' cr'' d' => Done cs'' cr'' (d ++ d') | o => o end
    | o => o
    end
  end.

Theorem exchange_any5_m_ok cs cr p : pair_inv5_m gs gr cs cr -> v5_any p ->
  match exchange_any5_m cs cr p with
  | Done cs' cr' d => d = [p] /\ pair_inv5_m gs gr cs' cr'
  | AppPre => True
  | Fail => False
  end.
Proof.
  intros Hi Hp. unfold exchange_any5_m. destruct Hp as [Hp|[Hp|Hp]].
  - destruct Hi as (HO & Rs & Has & Hta & Hfs & Hc0 & Hm0 & Rr & Har & Hfr & Hpr & Hrm & Hasc).
    pose proof Hp as (_ & _ & Hq & _). rewrite Hq. change (0 =? 0) with true. cbv iota.
    destruct (size_ok cs p) eqn:Esz; [|unfold exchange0_5; rewrite Esz; exact I].
    destruct (exchange0_5_gen gs gr cs cr p HO Rs Hta Rr Hp Esz) as (cs' & cr' & E & O' & _ & K1 & C1 & _ & _ & _ & K2 & _ & Q2 & P2). rewrite E.
    pose proof (kf_fields _ _ K1) as (a1 & a2 & a3 & a4 & a5 & a6 & a7). pose proof (kf_fields _ _ K2) as (b1 & b2 & b3 & b4 & b5 & b6 & b7).
    split; [reflexivity|]. split; [exact O'|]. split; [exact (ready5_kf _ _ K1 Rs)|]. split; [congruence|]. split; [congruence|].
    split; [exact (ack_fits_kf gs _ _ K1 Hfs)|]. split; [congruence|]. split; [congruence|].
    split; [exact (ready5_kf _ _ K2 Rr)|]. split; [congruence|]. split; [exact (ack_fits_kf gr _ _ K2 Hfr)|]. split; [congruence|]. split; [congruence|].
    rewrite Q2. exact Hasc.
  - pose proof (exchange5_m_ok gs gr cs cr p 1 Hi Hp (or_introl eq_refl)) as H. destruct Hp as (_ & _ & Hq & _). rewrite Hq. change (1 =? 0) with false. cbv iota. exact H.
  - pose proof (exchange5_m_ok gs gr cs cr p 2 Hi Hp (or_intror eq_refl)) as H. destruct Hp as (_ & _ & Hq & _). rewrite Hq. change (2 =? 0) with false. cbv iota. exact H.
Qed.

Theorem run_mixed5_m_ok : forall ps cs cr, pair_inv5_m gs gr cs cr -> Forall v5_any ps ->
  match run_mixed5_m cs cr ps with
  | Done cs' cr' d => d = ps /\ pair_inv5_m gs gr cs' cr'
  | AppPre => True
  | Fail => False
  end.
Proof.
  induction ps as [|p t IH]; intros cs cr Hi Hf; cbn [run_mixed5_m]; [split; [reflexivity|exact Hi]|].
  inversion Hf as [|? ? Hp Ht]; subst.
  pose proof (exchange_any5_m_ok cs cr p Hi Hp) as He.
  destruct (exchange_any5_m cs cr p) as [cs' cr' d| |]; [|exact I|exact He]. destruct He as [-> Hi'].
  specialize (IH cs' cr' Hi' Ht). destruct (run_mixed5_m cs' cr' t) as [cs'' cr'' d'| |]; [|exact I|exact IH].
  destruct IH as [-> Hi'']. split; [reflexivity|exact Hi''].
Qed.
End MixedM5.
