(* C01 / C08, model side, quiescence of the sequential runs: every complete exchange gives back exactly the identifier it
   registered, and a QoS 0 publication touches no identifier, so when no identifier is in use before a mixed sequence (as after
   the handshake of fresh objects) none is in use after it - on either side when both publish. *)
From MQ Require Import Base.Prelude Alloc.Alloc Alloc.SetSpec Alloc.AllocProofs Framing.Framing
                       Conn.Types Conn.TopicAlias Conn.ConnRecord Conn.Step Conn.Run Corr.ConnTrace Conn.Scope Conn.IdsQuota Conn.WfInv
                       Conn.Own Conn.OwnFrame Conn.OwnStep Conn.Qos2Inv Conn.Qos2Dup Conn.TasBounds Conn.NoPanic Conn.PairQos Conn.PairSeq
                       Conn.PairConc Conn.PairBi Conn.PairBiIds Conn.PairHandshake311 Conn.PairConcIds Conn.PairSeqMixed Conn.PairSeqMixedFresh Conn.PairSeqMixed2.

Definition idle (c : conn) : Prop := forall y, is_used c y = false.

(* an acknowledged exchange leaves every identifier of the sender as it found it *)
Lemma exchange_used gs gr cs cr p q : pair_inv gs cs cr -> v311_pub p q -> q = 1 \/ q = 2 ->
  match exchange gs gr cs cr p with
  | Done cs' _ _ => forall y, is_used cs' y = is_used cs y
  | _ => True
  end.
Proof.
  intros (HO & Rs & Has & Rr & Har & Hasc) Hp Hq. unfold exchange. cbv zeta.
  destruct (negb _) eqn:Epre; [exact I|]. apply negb_false_iff in Epre.
  apply andb_true_iff in Epre as [Epre E5]. apply andb_true_iff in Epre as [Epre E4]. apply andb_true_iff in Epre as [Epre E3].
  apply andb_true_iff in Epre as [E1 E2]. apply N.leb_le in E1, E2. apply negb_true_iff in E3, E5. apply freshb_spec in E4.
  destruct (register_ae gs cs (k_pid p) HO (conj E1 E2) E3) as (a & Ereg & O0 & U0 & Hu0). rewrite Ereg.
  set (cs0 := set_pid cs a) in *.
  assert (R0 : ready cs0) by exact Rs. assert (F0 : fresh cs0 (k_pid p)) by exact E4.
  rewrite (step_send_publish_v311 gs cs0 p q (proj1 R0) Hp).
  pose proof (sender_sends_x gs cs0 p q O0 R0 Hp ltac:(lia) F0 U0) as H1.
  pose proof (sender_sends_sets cs0 p q Hp ltac:(lia) (proj2 R0) U0 (proj2 F0)) as G1.
  destruct (send_publish_v311 cs0 p) as [[cs1 e1]|]; cbn [bindr]; [|exact I].
  destruct H1 as (S1 & N1 & X1 & O1 & R1 & U1 & A1 & M1). destruct G1 as (P1 & _). rewrite S1, N1, X1. cbn [one none andb negb].
  assert (A1' : c_auto_pub cs1 = true) by (rewrite A1; exact Has).
  assert (Hfin : forall c2 c1, c_pid c1 = c_pid cs0 -> (forall y, is_used c2 y = is_used c1 y && negb (y =? k_pid p)) ->
            forall y, is_used c2 y = is_used cs y).
  { intros c2 c1 Hp1 H2 y. rewrite H2. unfold is_used at 1. rewrite Hp1. fold (is_used cs0 y).
    destruct (N.eqb_spec y (k_pid p)) as [->|Hne]; [rewrite E3, andb_false_r; reflexivity|]. rewrite andb_true_r. apply Hu0. exact Hne. }
  destruct Hp as (Ht & Hv & Hqq).
  destruct Hq as [-> | ->].
  - pose proof (receiver_q1_x gr cr p Rr Har (conj Ht (conj Hv Hqq))) as H2.
    destruct (deliver gr cr p) as [[cr1 e2]|]; [|exact I]. destruct H2 as (N2 & S2 & X2 & Rr1 & Ar1 & Q1).
    rewrite S2, N2, X2. cbn [one none negb]. rewrite Hqq. change (1 =? 1) with true. cbv iota.
    change (1 =? 2) with false in M1. cbv iota in M1.
    pose proof (sender_final_sets gs cs1 (ack_pkt gr T_PUBACK V311 (k_pid p) None) T_PUBACK O1 R1 eq_refl eq_refl (or_introl eq_refl) M1 U1) as G3.
    unfold final. destruct (deliver gs cs1 _) as [[cs2 e3]|]; [|exact I].
    destruct (none (sends e3) && none (errors e3) && _); [|exact I]. destruct G3 as (G3 & _).
    exact (Hfin cs2 cs1 P1 G3).
  - pose proof (receiver_q2_x gr cr p Rr Har (conj Ht (conj Hv Hqq)) E5) as H2.
    destruct (deliver gr cr p) as [[cr1 e2]|]; [|exact I]. destruct H2 as (N2 & S2 & X2 & Rr1 & Ar1 & Q1).
    rewrite S2, N2, X2. cbn [one none negb]. rewrite Hqq. change (2 =? 1) with false. cbv iota.
    change (2 =? 2) with true in M1. cbv iota in M1.
    pose proof (sender_pubrec_x gs cs1 (ack_pkt gr T_PUBREC V311 (k_pid p) None) O1 R1 A1' eq_refl eq_refl M1 U1) as H3.
    pose proof (sender_pubrec_sets gs cs1 (ack_pkt gr T_PUBREC V311 (k_pid p) None) O1 R1 A1' eq_refl eq_refl M1 U1) as G3.
    change (k_pid (ack_pkt gr T_PUBREC V311 (k_pid p) None)) with (k_pid p) in H3.
    destruct (deliver gs cs1 _) as [[cs2 e3]|]; [|exact I]. destruct H3 as (S3 & X3 & L3 & O2 & R2 & A2 & U2 & M2). destruct G3 as (P2 & _).
    rewrite S3, X3, L3. cbn [one none andb negb].
    pose proof (receiver_pubrel_x gr cr1 (ack_pkt gs T_PUBREL V311 (k_pid p) None) Rr1 Ar1 eq_refl) as H4.
    change (k_pid (ack_pkt gs T_PUBREL V311 (k_pid p) None)) with (k_pid p) in H4.
    destruct (deliver gr cr1 _) as [[cr2 e4]|]; [|exact I]. destruct H4 as (N4 & S4 & X4 & Rr2 & Ar2 & Q2).
    rewrite S4, X4, N4. cbn [one none andb negb filter]. change (k_type (ack_pkt gs T_PUBREL V311 (k_pid p) None) =? T_PUBLISH) with false. cbn [none negb].
    pose proof (sender_final_sets gs cs2 (ack_pkt gr T_PUBCOMP V311 (k_pid p) None) T_PUBCOMP O2 R2 eq_refl eq_refl (or_intror eq_refl) M2 U2) as G5.
    unfold final. destruct (deliver gs cs2 _) as [[cs3 e5]|]; [|exact I].
    destruct (none (sends e5) && none (errors e5) && _); [|exact I]. destruct G5 as (G5 & _).
    exact (Hfin cs3 cs2 (eq_trans P2 P1) G5).
Qed.

(* one step of any QoS: the identifiers in use on both sides are what they were *)
Lemma exchange_any_used gs gr cs cr p : pair_inv gs cs cr -> OWN gr cr -> v311_any p ->
  match exchange_any gs gr cs cr p with
  | Done cs' cr' _ => (forall y, is_used cs' y = is_used cs y) /\ (forall y, is_used cr' y = is_used cr y)
  | _ => True
  end.
Proof.
  intros Hi HOr Hp. unfold exchange_any. destruct Hp as [Hp|[Hp|Hp]].
  - pose proof (exchange0_ok gs gr cs cr p Hi Hp) as K. destruct Hp as (_ & _ & Hq). rewrite Hq. change (0 =? 0) with true. cbv iota.
    destruct (exchange0 gs gr cs cr p) as [cs' cr' d| |]; [|exact I|exact I]. destruct K as (_ & _ & F1 & F2 & _).
    split; [exact (f8_used _ _ F1)|exact (f8_used _ _ F2)].
  - pose proof (exchange_used gs gr cs cr p 1 Hi Hp (or_introl eq_refl)) as K.
    pose proof (exchange_reverse gs gr gr cs cr p 1 Hi Hp (or_introl eq_refl)) as K'.
    destruct Hp as (_ & _ & Hq). rewrite Hq. change (1 =? 0) with false. cbv iota.
    destruct (exchange gs gr cs cr p) as [cs' cr' d| |]; [|exact I|exact I]. split; [exact K|].
    (* the receiver: F8 whatever its ownership invariant is - instantiate the lemma with a trivially owned copy *)
    exact (f8_used _ _ (proj2 (proj2 (K' HOr)))).
  - pose proof (exchange_used gs gr cs cr p 2 Hi Hp (or_intror eq_refl)) as K.
    pose proof (exchange_reverse gs gr gr cs cr p 2 Hi Hp (or_intror eq_refl)) as K'.
    destruct Hp as (_ & _ & Hq). rewrite Hq. change (2 =? 0) with false. cbv iota.
    destruct (exchange gs gr cs cr p) as [cs' cr' d| |]; [|exact I|exact I]. split; [exact K|].
    exact (f8_used _ _ (proj2 (proj2 (K' HOr)))).
Qed.

Section Ids.
Variables gA gB : cfg.

(* the two-way run: identifiers in use on both sides are what they were before it *)
Theorem run_mixed2_used : forall l a b, pair_inv2 gA gB a b -> Forall (fun i => v311_any (item_pkt i)) l ->
  match run_mixed2 gA gB a b l with
  | Done2 a' b' _ _ => (forall y, is_used a' y = is_used a y) /\ (forall y, is_used b' y = is_used b y)
  | _ => True
  end.
Proof.
  induction l as [|i t IH]; intros a b [Hab Hba] Hf; cbn [run_mixed2]; [split; reflexivity|].
  inversion Hf as [|? ? Hp Ht]; subst. destruct i as [p|p]; cbn [item_pkt] in Hp.
  - pose proof (exchange_any_2 gA gB a b p Hab Hba Hp) as He.
    pose proof (exchange_any_used gA gB a b p Hab (proj1 Hba) Hp) as Hu.
    destruct (exchange_any gA gB a b p) as [a' b' d| |]; [|exact I|exact I]. destruct He as (_ & H1 & H2). destruct Hu as [U1 U2].
    specialize (IH a' b' (conj H1 H2) Ht). destruct (run_mixed2 gA gB a' b' t) as [a'' b'' dB dA| |]; [|exact I|exact I].
    destruct IH as [V1 V2]. split; intro y; [rewrite V1; apply U1|rewrite V2; apply U2].
  - pose proof (exchange_any_2 gB gA b a p Hba Hab Hp) as He.
    pose proof (exchange_any_used gB gA b a p Hba (proj1 Hab) Hp) as Hu.
    destruct (exchange_any gB gA b a p) as [b' a' d| |]; [|exact I|exact I]. destruct He as (_ & H1 & H2). destruct Hu as [U1 U2].
    specialize (IH a' b' (conj H2 H1) Ht). destruct (run_mixed2 gA gB a' b' t) as [a'' b'' dB dA| |]; [|exact I|exact I].
    destruct IH as [V1 V2]. split; intro y; [rewrite V1; apply U2|rewrite V2; apply U1].
Qed.

Corollary run_mixed2_idle l a b : pair_inv2 gA gB a b -> Forall (fun i => v311_any (item_pkt i)) l -> idle a -> idle b ->
  match run_mixed2 gA gB a b l with
  | Done2 a' b' dB dA => dB = fromA l /\ dA = fromB l /\ pair_inv2 gA gB a' b' /\ idle a' /\ idle b'
  | AppPre2 => True
  | Fail2 => False
  end.
Proof.
  intros Hi Hf Ia Ib. pose proof (run_mixed2_ok gA gB l a b Hi Hf) as H. pose proof (run_mixed2_used l a b Hi Hf) as U.
  destruct (run_mixed2 gA gB a b l) as [a' b' dB dA| |]; [|exact I|exact H]. destruct H as (H1 & H2 & H3), U as [U1 U2].
  split; [exact H1|]. split; [exact H2|]. split; [exact H3|]. split; intro y; [rewrite U1; apply Ia|rewrite U2; apply Ib].
Qed.
End Ids.
