(* C01, model side: THE v3.1.1 HANDSHAKE ESTABLISHES THE PAIR INVARIANT (Clean Session, session not present), for every
   keep-alive value: both ends are Connected with nothing handled or stored — the premises of PairBi.inv2_init — and so,
   from freshly constructed objects, any two-way schedule ends with exactly-once delivery both ways. *)
From MQ Require Import Base.Prelude Alloc.Alloc Alloc.SetSpec Alloc.AllocProofs Framing.Framing
                       Conn.Types Conn.TopicAlias Conn.ConnRecord Conn.Step Conn.Run Corr.ConnTrace Conn.Scope Conn.IdsQuota Conn.WfInv
                       Conn.Own Conn.OwnFrame Conn.OwnStep Conn.Qos2Dup Conn.TasBounds Conn.NoPanic
                       Conn.PairQos Conn.PairSeq Conn.PairConc Conn.PairBi Conn.PairHandshake5.

Definition HV3 (c : conn) (st : status) : Prop :=
  c_version c = V311 /\ c_status c = st /\ c_qos2 c = [] /\ c_store c = [] /\ c_send_max c = None.

Lemma client_sends_connect311 c p :
  c_version c = V311 -> c_status c = Disconnected -> k_ver p = V311 -> k_flag p = true ->
  exists c1 e, send_connect c p = Ok (c1, e) /\ sends e = [p] /\ errors e = [] /\ HV3 c1 Connecting /\ c_auto_pub c1 = c_auto_pub c.
Proof.
  intros Hv Hs Hpv Hfl. unfold send_connect. rewrite Hpv, Hs, Hfl. cbn [version_eqb negb andb status_eqb]. cbv zeta.
  unfold send_and_post, send_post_process, initialize, clear_store_related. conn_simpl_goal.
  destruct (0 <? _); (eexists _, _; split; [reflexivity|]; cbn; unfold HV3; conn_simpl_goal; repeat split; assumption || reflexivity).
Qed.

Lemma server_receives_connect311 g c p :
  c_version c = V311 -> c_status c = Disconnected -> k_flag p = true ->
  exists c1 e, recv_connect g c V311 (PROk p) = Ok (c1, e) /\ notifies e = [p] /\ errors e = [] /\ sends e = [] /\
               HV3 c1 Connecting /\ c_auto_pub c1 = c_auto_pub c.
Proof.
  intros Hv Hs Hfl. unfold recv_connect. rewrite Hs. cbn [status_eqb negb]. cbv zeta.
  unfold connect_recv_state. rewrite Hfl. cbn [version_eqb bindr]. cbv zeta.
  unfold refresh_pingreq_recv, initialize, clear_store_related.
  destruct (0 <? k_keep_alive p); conn_simpl_goal; cbn [bindr]; conn_simpl_goal; destruct (negb (_ =? 0));
    (eexists _, _; split; [reflexivity|]; cbn; unfold HV3; conn_simpl_goal; repeat split; assumption || reflexivity).
Qed.

Lemma server_sends_connack311 c p :
  HV3 c Connecting -> k_ver p = V311 -> k_rc p = 0 ->
  exists c1 e, send_connack c p = Ok (c1, e) /\ sends e = [p] /\ errors e = [] /\ HV3 c1 Connected /\ c_auto_pub c1 = c_auto_pub c.
Proof.
  intros (Hv & Hs & Hq & Hst & Hsm) Hpv Hrc.
  unfold send_connack. rewrite Hpv, Hs. cbn [version_eqb negb andb status_eqb]. rewrite Hrc. change (0 =? 0) with true. cbn [negb]. cbv zeta.
  unfold connack_send_props. rewrite Hpv. cbn [version_eqb andb].
  unfold send_stored. conn_simpl_goal. rewrite Hst. cbn [send_stored_l map fold_left send_stored_events].
  unfold release_all. cbn [bindr fold_left]. conn_simpl_goal. rewrite Hsm. cbn [bindr].
  unfold send_post_process. conn_simpl_goal. destruct (c_is_client c); try destruct (0 <? _);
    (eexists _, _; split; [reflexivity|]; cbn; unfold HV3; conn_simpl_goal; repeat split; assumption || reflexivity).
Qed.

Lemma client_receives_connack311 c p :
  HV3 c Connecting -> k_rc p = 0 -> k_flag p = false ->
  exists c1 e, recv_connack c V311 (PROk p) = Ok (c1, e) /\ notifies e = [p] /\ errors e = [] /\ sends e = [] /\
               HV3 c1 Connected /\ c_auto_pub c1 = c_auto_pub c.
Proof.
  intros (Hv & Hs & Hq & Hst & Hsm) Hrc Hfl.
  unfold recv_connack. rewrite Hs. cbn [status_eqb]. rewrite Hrc. change (0 =? 0) with true. cbv iota. cbn [version_eqb]. cbv zeta.
  unfold resume_or_clear, clear_store_related. rewrite Hfl. cbn [bindr]. conn_simpl_goal.
  eexists _, _; split; [reflexivity|]; cbn; unfold HV3; conn_simpl_goal; repeat split; assumption || reflexivity.
Qed.

Theorem handshake311_establishes_pair_invariant gA gB A0 B0 cn ca :
  OWN gA A0 -> OWN gB B0 -> c_version A0 = V311 -> c_version B0 = V311 -> c_status A0 = Disconnected -> c_status B0 = Disconnected ->
  c_auto_pub A0 = true -> c_auto_pub B0 = true -> role_client_ok gA = true -> role_server_ok gB = true ->
  k_type cn = T_CONNECT -> k_ver cn = V311 -> k_flag cn = true ->
  k_type ca = T_CONNACK -> k_ver ca = V311 -> k_rc ca = 0 -> k_flag ca = false ->
  exists A1 e1 B1 e2 B2 e3 A2 e4,
    step gA A0 (OSend cn) = Ok (A1, e1, []) /\ sends e1 = [cn] /\ errors e1 = [] /\
    deliver gB B0 cn = Ok (B1, e2) /\ notifies e2 = [cn] /\ errors e2 = [] /\ sends e2 = [] /\
    step gB B1 (OSend ca) = Ok (B2, e3, []) /\ sends e3 = [ca] /\ errors e3 = [] /\
    deliver gA A1 ca = Ok (A2, e4) /\ notifies e4 = [ca] /\ errors e4 = [] /\ sends e4 = [] /\
    inv2 gA gB (mkBi A2 B2 [] [] [] [] [] []).
Proof.
  intros OA OB VA VB SA SB PA PB RA RB T1 V1 F1 T2 V2 C2 F2.
  destruct (client_sends_connect311 A0 cn VA SA V1 F1) as (A1 & e1 & E1 & S1 & X1 & H1 & P1).
  pose proof (send_connect_OR gA A0 cn OA) as O1. rewrite E1 in O1. destruct O1 as [OA1 _].
  destruct (server_receives_connect311 gB B0 cn VB SB F1) as (B1 & e2 & E2 & N2 & X2 & S2 & H2 & P2).
  pose proof (recv_connect_OR gB B0 V311 (PROk cn) OB) as O2. rewrite E2 in O2. destruct O2 as [OB1 _].
  destruct (server_sends_connack311 B1 ca H2 V2 C2) as (B2 & e3 & E3 & S3 & X3 & H3 & P3).
  pose proof (send_connack_OR gB B1 ca OB1) as O3. rewrite E3 in O3. destruct O3 as [OB2 _].
  destruct (client_receives_connack311 A1 ca H1 C2 F2) as (A2 & e4 & E4 & N4 & X4 & S4 & H4 & P4).
  pose proof (recv_connack_OR gA A1 V311 (PROk ca) OA1) as O4. rewrite E4 in O4. destruct O4 as [OA2 _].
  destruct H1 as (a1 & a2 & a3 & a4 & a5). destruct H2 as (b1 & b2 & b3 & b4 & b5).
  destruct H3 as (c1 & c2 & c3 & c4 & c5). destruct H4 as (d1 & d2 & d3 & d4 & d5).
  exists A1, e1, B1, e2, B2, e3, A2, e4.
  split; [rewrite (step_send_connect gA A0 cn ltac:(congruence) T1 RA), E1; reflexivity|]. split; [exact S1|]. split; [exact X1|].
  split; [unfold deliver, dispatch_recv; rewrite T1, VB; exact E2|]. split; [exact N2|]. split; [exact X2|]. split; [exact S2|].
  split; [rewrite (step_send_connack gB B1 ca ltac:(congruence) T2 RB), E3; reflexivity|]. split; [exact S3|]. split; [exact X3|].
  split; [unfold deliver, dispatch_recv; rewrite T2, a1; exact E4|]. split; [exact N4|]. split; [exact X4|]. split; [exact S4|].
  apply inv2_init.
  - exact OA2. - split; [exact d1|rewrite d2; reflexivity]. - congruence. - exact d3.
  - exact OB2. - split; [exact c1|rewrite c2; reflexivity]. - congruence. - exact c3.
Qed.

Theorem fresh_v311_endpoints_interoperate gA gB cn ca l :
  1 <= g_idmax gA -> 1 <= g_idmax gB -> role_client_ok gA = true -> role_server_ok gB = true ->
  k_type cn = T_CONNECT -> k_ver cn = V311 -> k_flag cn = true ->
  k_type ca = T_CONNACK -> k_ver ca = V311 -> k_rc ca = 0 -> k_flag ca = false ->
  Forall good_act2 l ->
  let A0 := set_auto_pub (conn_new gA V311) true in
  let B0 := set_auto_pub (conn_new gB V311) true in
  exists A1 e1 B1 e2 B2 e3 A2 e4 s1 s2,
    step gA A0 (OSend cn) = Ok (A1, e1, []) /\ sends e1 = [cn] /\
    deliver gB B0 cn = Ok (B1, e2) /\ notifies e2 = [cn] /\
    step gB B1 (OSend ca) = Ok (B2, e3, []) /\ sends e3 = [ca] /\
    deliver gA A1 ca = Ok (A2, e4) /\ notifies e4 = [ca] /\
    errors e1 = [] /\ errors e2 = [] /\ errors e3 = [] /\ errors e4 = [] /\
    run_sched2 gA gB (mkBi A2 B2 [] [] [] [] [] []) l = Some s1 /\
    run_sched2 gA gB s1 (drain2 (measure2 s1)) = Some s2 /\
    qab s2 = [] /\ qba s2 = [] /\ delB s2 = pubA s1 /\ delA s2 = pubB s1.
Proof.
  intros IA IB RA RB T1 V1 F1 T2 V2 C2 F2 Hl A0 B0.
  assert (OA : OWN gA A0) by (apply (f8_own gA (conn_new gA V311)); [unfold F8; repeat split|exact (conn_new_OWN gA V311 IA)]).
  assert (OB : OWN gB B0) by (apply (f8_own gB (conn_new gB V311)); [unfold F8; repeat split|exact (conn_new_OWN gB V311 IB)]).
  destruct (handshake311_establishes_pair_invariant gA gB A0 B0 cn ca OA OB eq_refl eq_refl eq_refl eq_refl eq_refl eq_refl RA RB
              T1 V1 F1 T2 V2 C2 F2)
    as (A1 & e1 & B1 & e2 & B2 & e3 & A2 & e4 & E1 & S1 & X1 & E2 & N2 & X2 & _ & E3 & S3 & X3 & E4 & N4 & X4 & _ & Hinv).
  destruct (two_way_exactly_once gA gB l _ Hinv Hl) as (s1 & s2 & R1 & R2' & Q1 & Q2' & D1 & D2).
  exists A1, e1, B1, e2, B2, e3, A2, e4, s1, s2.
  repeat (split; [assumption|]). assumption.
Qed.
