(* C08 / C12 — per-call theorems about the model (all states satisfying the allocator's
   representation invariant, which C20 proves is maintained by every allocator operation). *)
From MQ Require Import Base.Prelude Alloc.Alloc Alloc.SetSpec Alloc.AllocProofs Framing.Framing
                       Conn.Types Conn.TopicAlias Conn.ConnRecord Conn.Step Conn.Run Corr.ConnTrace.

(* the packet-id allocator of a connection is the interval allocator over [1, idmax] *)
Definition WFpid (g : cfg) (c : conn) : Prop :=
  WF (c_pid c) /\ a_lo (c_pid c) = 1 /\ a_hi (c_pid c) = g_idmax g /\ a_max (c_pid c) = g_idmax g.

Lemma conn_new_WFpid g v : 1 <= g_idmax g -> WFpid g (conn_new g v).
Proof.
  intro H. unfold WFpid, conn_new, pm_new, WF. cbn. repeat split; try lia.
Qed.

Lemma WFpid_intro g c :
  WF (c_pid c) -> a_lo (c_pid c) = 1 -> a_hi (c_pid c) = g_idmax g -> a_max (c_pid c) = g_idmax g -> WFpid g c.
Proof. unfold WFpid; auto. Qed.

Definition free_in (c : conn) (id : N) : bool := abs (a_pool (c_pid c)) id.

Lemma is_used_spec g c id : WFpid g c -> is_used c id = (1 <=? id) && (id <=? g_idmax g) && negb (free_in c id).
Proof. intros (_ & E1 & E2 & _). unfold is_used, pm_is_used, a_is_used, free_in, abs. now rewrite E1, E2. Qed.

(* acquire: the least free id, not in use before, in use afterwards; exhaustion iff nothing is free *)
Theorem acquire_spec g c :
  WFpid g c ->
  match step g c OAcquire with
  | Ok (c', evs, [x]) => evs = [] /\ free_in c x = true /\ (forall y, free_in c y = true -> x <= y) /\
                         free_in c' x = false /\ (forall y, y <> x -> free_in c' y = free_in c y) /\ WFpid g c'
  | Ok (c', evs, []) => evs = [] /\ c' = c /\ forall y, free_in c y = false
  | Ok (_, _, _) => False
  | Panic _ => False
  end.
Proof.
  intros (HWF & E1 & E2 & E3). unfold step, pm_acquire.
  pose proof (allocate_spec (c_pid c) HWF) as HA. unfold free_in.
  destruct (a_pool (c_pid c)) as [|[l h] t] eqn:Ep.
  - rewrite HA. cbn [bindr]. repeat split; try reflexivity.
    + destruct c; cbn in *. unfold set_pid. cbn. reflexivity.
  - destruct HA as (a' & HA & HWF' & F1 & F2 & F3 & Hab). rewrite HA. cbn [bindr].
    destruct HWF as (W1 & W2 & W3). rewrite Ep in W3. cbn [wfp fst snd] in W3. destruct W3 as (P1 & P2 & P3 & P4).
    split; [reflexivity|]. split.
    { rewrite abs_cons. apply orb_true_iff. left. apply contains_spec. cbn. lia. }
    split.
    { intros y Hy. rewrite abs_cons in Hy. apply orb_true_iff in Hy as [Hy|Hy].
      - apply contains_spec in Hy. cbn in Hy. lia.
      - apply (abs_ge _ _ _ _ P4) in Hy. lia. }
    cbn [set_pid c_pid]. split.
    { rewrite Hab. rewrite N.eqb_refl. cbn. apply andb_false_r. }
    split.
    { intros y Hy. rewrite Hab. destruct (N.eqb_spec y l); [contradiction|]. cbn. apply andb_true_r. }
    apply WFpid_intro; cbn [set_pid c_pid]; [exact HWF'|congruence|congruence|congruence].
Qed.

(* register: succeeds exactly for a free id in range; the id is in use afterwards *)
Theorem register_spec g c id :
  WFpid g c ->
  match step g c (ORegister id) with
  | Ok (c', evs, [r]) => evs = [] /\ n2b r = free_in c id /\ (forall y, free_in c' y = free_in c y && negb (y =? id)) /\ WFpid g c'
  | _ => False
  end.
Proof.
  intros (HWF & E1 & E2 & E3). unfold step, pm_register.
  destruct (use_value_spec (c_pid c) id HWF) as (a' & HU & HWF' & F1 & F2 & F3 & Hab).
  rewrite HU. split; [reflexivity|]. split; [unfold free_in; destruct (abs _ _); reflexivity|].
  split; [exact Hab|]. apply WFpid_intro; cbn [set_pid c_pid]; [exact HWF'|congruence|congruence|congruence].
Qed.

(* release: total for every id value (0, out of range, free, in use); announces the release exactly
   when it turns an in-use id free *)
Theorem release_spec g c id :
  WFpid g c ->
  match step g c (ORelease id) with
  | Ok (c', evs, _) =>
      (is_used c id = true -> evs = [EReleased id] /\ free_in c' id = true /\
                              (forall y, y <> id -> free_in c' y = free_in c y) /\ WFpid g c') /\
      (is_used c id = false -> evs = [] /\ c' = c)
  | Panic _ => False
  end.
Proof.
  intros HW. pose proof HW as (HWF & E1 & E2 & E3). unfold step, release_if_used.
  destruct (is_used c id) eqn:Eu; cbn [bindr].
  - rewrite (is_used_spec g c id HW) in Eu. apply andb_true_iff in Eu as [Hr Hf]. apply andb_true_iff in Hr as [Hr1 Hr2].
    apply N.leb_le in Hr1, Hr2. apply negb_true_iff in Hf. unfold free_in in Hf.
    destruct (deallocate_spec (c_pid c) id HWF) as (a' & HD & HWF' & F1 & F2 & F3 & Hab); [lia|lia|exact Hf|].
    unfold pm_release. rewrite HD. cbn [bindr]. split; [|discriminate]. intros _.
    split; [reflexivity|]. unfold free_in. cbn [set_pid c_pid]. split.
    { rewrite Hab, N.eqb_refl. apply orb_true_r. }
    split.
    { intros y Hy. rewrite Hab. destruct (N.eqb_spec y id); [contradiction|]. apply orb_false_r. }
    apply WFpid_intro; cbn [set_pid c_pid]; [exact HWF'|congruence|congruence|congruence].
  - split; [discriminate|]. intros _. split; reflexivity.
Qed.

(* every id from 1 to the maximum can be in use at once: exhaustion is reported only then *)
Corollary exhaustion_only_when_full g c :
  WFpid g c ->
  (match step g c OAcquire with Ok (_, _, []) => True | _ => False end) ->
  forall id, 1 <= id -> id <= g_idmax g -> is_used c id = true.
Proof.
  intros HW H id H1 H2. pose proof (acquire_spec g c HW) as HA.
  destruct (step g c OAcquire) as [[[c' e] [|x [|y t]]]|]; try contradiction.
  destruct HA as (_ & _ & Hfree). rewrite (is_used_spec g c id HW), Hfree.
  apply N.leb_le in H1, H2. now rewrite H1, H2.
Qed.

(* ---- C12: vacancy, refusal at the limit, inbound quota ---- *)
Theorem vacancy_exact_saturating c m :
  c_send_max c = Some m -> vacancy c = Some (m - c_send_count c) /\ m - c_send_count c <= m.
Proof. intro H. unfold vacancy. rewrite H. split; [reflexivity|lia]. Qed.

(* the peer has more than the announced Receive Maximum outstanding: not delivered; DISCONNECT
   'Receive Maximum exceeded' (0x93) when the connection is established *)
Theorem inbound_over_quota g c p m :
  c_recv_max c = Some m -> (k_qos p =? 0) = false -> m <= N.of_nat (length (c_publish_recv c)) ->
  recv_publish_v5 g c (PROk p) = handle_v5_error c E_RECEIVE_MAXIMUM_EXCEEDED.
Proof.
  intros Hm Hq Hlen. unfold recv_publish_v5. rewrite Hm, Hq. cbn [negb andb].
  apply N.leb_le in Hlen. now rewrite Hlen.
Qed.

Lemma length_ins_le x l : (length (ins x l) <= S (length l))%nat.
Proof.
  unfold ins. induction l as [|y t IH]; cbn [s_insert length]; [lia|].
  destruct (x <? y); cbn [length]; [lia|]. destruct (y <? x); cbn [length]; lia.
Qed.

Lemma note_inbound_quota c p m :
  N.of_nat (length (c_publish_recv c)) < m \/ (k_qos p =? 0) = true ->
  N.of_nat (length (c_publish_recv c)) <= m ->
  N.of_nat (length (c_publish_recv (note_inbound c p))) <= m.
Proof.
  intros H Hle. unfold note_inbound.
  destruct (k_qos p =? 0) eqn:Eq; cbn [negb].
  - exact Hle.
  - destruct H as [H|H]; [|discriminate]. pose proof (length_ins_le (k_pid p) (c_publish_recv c)).
    conn_simpl_goal. lia.
Qed.

(* the send side: a QoS>0 PUBLISH that reaches the check is refused exactly when the count has
   reached the peer's maximum (shape of refuse_publish: error + release, nothing sent) *)
Theorem refuse_publish_is_quiet c id err pre c' e :
  refuse_publish c id err pre = Ok (c', e) ->
  sends e = sends pre /\ In (EError err) e /\ c_send_count c' = c_send_count c /\ c_send_max c' = c_send_max c.
Proof.
  unfold refuse_publish. destruct (_ && _).
  - destruct (pm_release _ _); cbn [bindr]; [|discriminate]. intro E. inversion E; subst.
    unfold sends. rewrite flat_map_app. cbn. rewrite app_nil_r. repeat split; try reflexivity.
    apply in_or_app. right. now left.
  - intro E. inversion E; subst. unfold sends. rewrite flat_map_app. cbn. rewrite app_nil_r. repeat split; try reflexivity.
    apply in_or_app. right. now left.
Qed.
