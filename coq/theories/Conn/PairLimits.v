(* C14 / C12, pair level: AFTER THE v5.0 HANDSHAKE THE TWO ENDS AGREE ON EVERY LIMIT.  The Maximum Packet Size one side
   enforces on what it sends is the one the other side announced and checks on what it receives; likewise the Receive
   Maximum.  (PairHandshake5 tracks the send-side fields; this file adds the receive-side Maximum Packet Size.) *)
From MQ Require Import Base.Prelude Alloc.Alloc Alloc.SetSpec Alloc.AllocProofs Framing.Framing
                       Conn.Types Conn.TopicAlias Conn.ConnRecord Conn.Step Conn.Run Corr.ConnTrace Conn.Scope Conn.IdsQuota Conn.WfInv
                       Conn.Own Conn.OwnFrame Conn.OwnStep Conn.Qos2Dup Conn.TasBounds Conn.NoPanic
                       Conn.PairQos Conn.PairQos5 Conn.PairSeq Conn.PairSeq5 Conn.PairConc Conn.PairConc5 Conn.PairBi Conn.PairBi5
                       Conn.PairHandshake5 Conn.PairManual Conn.PairManual5 Conn.PairManualSeq Conn.PairManualSeq5 Conn.PairHandshakeSeq.

Lemma send_connect_mps_recv c p : k_ver p = V50 ->
  match send_connect c p with
  | Ok (c1, e) => sends e = [p] -> c_mps_recv c1 = limit_after (k_mps p) (c_mps_recv c)
  | Panic _ => True
  end.
Proof.
  intros Hpv. unfold send_connect. rewrite Hpv. cbn [version_eqb andb]. destruct (negb (size_ok c p)); [intro H; discriminate H|].
  destruct (negb (status_eqb _ _)); [intro H; discriminate H|]. cbv zeta.
  unfold send_and_post, send_post_process, initialize, clear_store_related, limit_after.
  destruct (k_flag p), (k_tam p) as [tm|], (k_rm p) as [rm|], (k_mps p) as [mp|], (k_sei p) as [se|];
    try destruct (negb (tm =? 0)); try destruct (negb (se =? 0)); conn_simpl_goal; destruct (0 <? _); intros _; reflexivity.
Qed.

Lemma recv_connect_mps_recv g c p :
  match recv_connect g c V50 (PROk p) with
  | Ok (c1, e) => errors e = [] -> c_mps_recv c1 = c_mps_recv c
  | Panic _ => True
  end.
Proof.
  unfold recv_connect. destruct (negb (status_eqb _ _)).
  - unfold handle_error. cbn [version_eqb]. unfold handle_v5_error. destruct (close_with_disconnect c _) as [[c1 e]|]; cbn [bindr]; [|exact I].
    intro H. rewrite errors_app in H. destruct (errors e); discriminate H.
  - cbv zeta. unfold connect_recv_state. cbn [version_eqb]. cbv zeta.
    unfold refresh_pingreq_recv, initialize, clear_store_related.
    destruct (0 <? k_keep_alive p), (k_flag p), (k_tam p) as [tm|], (k_rm p) as [rm|], (k_mps p) as [mp|], (k_sei p) as [se|];
      try destruct (negb (tm =? 0)); try destruct (tas_new tm) as [s|]; cbn [bindr]; try exact I;
      try destruct (negb (se =? 0)); conn_simpl_goal; destruct (negb (_ =? 0)); intros _; reflexivity.
Qed.

Lemma send_connack_mps_recv c p : k_ver p = V50 -> k_rc p = 0 ->
  match send_connack c p with
  | Ok (c1, e) => sends e <> [] -> errors e = [] -> c_mps_recv c1 = limit_after (k_mps p) (c_mps_recv c)
  | Panic _ => True
  end.
Proof.
  intros Hpv Hrc. unfold send_connack. rewrite Hpv. cbn [version_eqb andb].
  destruct (negb (size_ok c p)); [intros _ H; discriminate H|]. destruct (negb (status_eqb _ _)); [intros _ H; discriminate H|].
  rewrite Hrc. change (0 =? 0) with true. cbn [negb]. cbv zeta.
  unfold connack_send_props. rewrite Hpv, Hrc. cbn [version_eqb andb]. change (0 =? 0) with true. cbv iota.
  assert (Hfin : forall cx pre, c_mps_recv cx = limit_after (k_mps p) (c_mps_recv c) ->
            match bindr (send_stored (set_status cx Connected)) (fun '(c0, es) => let '(c2, e0) := send_post_process c0 in Ok (c2, pre ++ [ESend p None] ++ es ++ e0)) with
            | Ok (c1, e) => sends e <> [] -> errors e = [] -> c_mps_recv c1 = limit_after (k_mps p) (c_mps_recv c)
            | Panic _ => True end).
  { intros cx pre Hx. unfold send_stored. destruct (send_stored_l _ _) as [kept dropped]. cbv zeta.
    destruct (release_all _ _) as [a|]; cbn [bindr]; [|exact I].
    unfold send_post_process.
    match goal with |- context [c_send_max ?y] => destruct (c_send_max y) end; conn_simpl_goal;
      destruct (c_is_client cx); try destruct (0 <? _); intros _ _; conn_simpl_goal; exact Hx. }
  unfold limit_after in *.
  destruct (k_tam p) as [tm|], (k_rm p) as [rm|], (k_mps p) as [mp|], (k_ska p) as [sk|];
    try destruct (negb (tm =? 0)); try destruct (sk =? 0); try destruct (c_t_recv _);
    apply Hfin; conn_simpl_goal; reflexivity.
Qed.

Lemma recv_connack_mps_recv c p :
  match recv_connack c V50 (PROk p) with
  | Ok (c1, e) => errors e = [] -> c_mps_recv c1 = c_mps_recv c
  | Panic _ => True
  end.
Proof.
  unfold recv_connack. destruct (status_eqb (c_status c) Connected).
  - unfold handle_error. cbn [version_eqb]. unfold handle_v5_error. destruct (close_with_disconnect c _) as [[c1 e]|]; cbn [bindr]; [|exact I].
    intro H. rewrite errors_app in H. destruct (errors e); discriminate H.
  - destruct (k_rc p =? 0); [|intros _; reflexivity]. cbn [version_eqb]. cbv zeta.
    unfold connack_recv_limits.
    assert (Hfin : forall cx, c_mps_recv cx = c_mps_recv c ->
              match (let '(c0, e1) := connack_recv_ska cx p in
                     bindr (resume_or_clear (connack_recv_sei c0 p) (k_flag p)) (fun '(c2, e2) => Ok (c2, e1 ++ e2 ++ [ENotify p]))) with
              | Ok (c1, e) => errors e = [] -> c_mps_recv c1 = c_mps_recv c | Panic _ => True end).
    { intros cx Hx. unfold connack_recv_ska, connack_recv_sei, resume_or_clear, clear_store_related.
      destruct (k_ska p) as [sk|]; cbv zeta; conn_simpl_goal;
        [destruct (c_user_ping cx); [|destruct (sk * 1000 =? 0); [destruct (c_t_send cx)|]]|];
        (destruct (k_sei p) as [se|]; [destruct (se =? 0)|]); conn_simpl_goal;
        (destruct (k_flag p);
         [unfold send_stored; destruct (send_stored_l _ _) as [kept dropped]; cbv zeta; destruct (release_all _ _) as [a|]; cbn [bindr]; [|exact I];
          match goal with |- context [c_send_max ?y] => destruct (c_send_max y) end; conn_simpl_goal;
          destruct (existsb _ _); unfold send_post_process; conn_simpl_goal;
          try (destruct (c_is_client cx); try destruct (0 <? _)); conn_simpl_goal; intros _; exact Hx
         |cbn [bindr]; conn_simpl_goal; intros _; exact Hx]). }
    destruct (k_tam p) as [tm|]; [destruct (0 <? tm); [destruct (tas_new tm) as [s|]; cbn [bindr]; [|exact I]|cbn [bindr]]|cbn [bindr]];
      (destruct (k_rm p) as [rm|]; [destruct (rm =? 0); cbn [bindr]; [exact I|]|cbn [bindr]]);
      (destruct (k_mps p) as [mp|]; [destruct (mp =? 0); cbn [bindr]; [exact I|]|cbn [bindr]]);
      apply Hfin; conn_simpl_goal; reflexivity.
Qed.

Theorem limits_agree_after_handshake gA gB A0 B0 cn ca :
  OWN gA A0 -> OWN gB B0 -> c_version A0 = V50 -> c_version B0 = V50 -> c_status A0 = Disconnected -> c_status B0 = Disconnected ->
  role_client_ok gA = true -> role_server_ok gB = true ->
  (* no limit of an earlier connection is left on either object (as after construction or notify_closed) *)
  c_mps_send A0 = c_mps_recv B0 -> c_mps_send B0 = c_mps_recv A0 ->
  k_type cn = T_CONNECT -> k_ver cn = V50 -> k_flag cn = true -> k_tam cn = None -> size_ok A0 cn = true ->
  k_type ca = T_CONNACK -> k_ver ca = V50 -> k_rc ca = 0 -> k_flag ca = false -> k_tam ca = None -> k_rm ca <> Some 0 -> k_mps ca <> Some 0 ->
  k_size ca <= limit_after (k_mps cn) (c_mps_send B0) ->
  exists A1 e1 B1 e2 B2 e3 A2 e4,
    step gA A0 (OSend cn) = Ok (A1, e1, []) /\ deliver gB B0 cn = Ok (B1, e2) /\
    step gB B1 (OSend ca) = Ok (B2, e3, []) /\ deliver gA A1 ca = Ok (A2, e4) /\
    (* what A may send is what B announced and checks on receipt, and vice versa *)
    c_mps_send A2 = c_mps_recv B2 /\ c_mps_send B2 = c_mps_recv A2 /\
    c_send_max A2 = c_recv_max B2 /\ c_send_max B2 = c_recv_max A2.
Proof.
  intros OA OB VA VB SA SB RA RB L1 L2 T1 V1 F1 M1 Z1 T2 V2 C2 F2 M2 R2 Q2 Z2.
  destruct (handshake5_states gA gB A0 B0 cn ca OA OB VA VB SA SB RA RB T1 V1 F1 M1 Z1 T2 V2 C2 F2 M2 R2 Q2 Z2)
    as (A1 & e1 & B1 & e2 & B2 & e3 & A2 & e4 & E1 & S1 & X1 & E2 & N2 & X2 & E3 & S3 & X3 & E4 & N4 & X4 & OA2 & HA & PA & OB2 & HB & PB).
  exists A1, e1, B1, e2, B2, e3, A2, e4. split; [exact E1|]. split; [exact E2|]. split; [exact E3|]. split; [exact E4|].
  (* the receive-side limits along the same four calls *)
  pose proof (send_connect_mps_recv A0 cn V1) as Q1. pose proof (send_connect_OR gA A0 cn OA) as O1.
  rewrite (step_send_connect gA A0 cn ltac:(congruence) T1 RA) in E1.
  destruct (send_connect A0 cn) as [[a1 f1]|]; [|discriminate E1]. cbn [bindr] in E1. injection E1 as <- <-. specialize (Q1 S1).
  destruct O1 as [_ VA1]. rewrite VA in VA1.
  pose proof (recv_connect_mps_recv gB B0 cn) as Q2'. pose proof (recv_connect_OR gB B0 V50 (PROk cn) OB) as O2.
  unfold deliver, dispatch_recv in E2. rewrite T1, VB in E2. change (T_CONNECT =? 1) with true in E2. cbv iota in E2.
  rewrite E2 in Q2', O2. specialize (Q2' X2). destruct O2 as [_ VB1]. rewrite VB in VB1.
  pose proof (send_connack_mps_recv B1 ca V2 C2) as Q3.
  rewrite (step_send_connack gB B1 ca ltac:(congruence) T2 RB) in E3.
  destruct (send_connack B1 ca) as [[b2 f3]|]; [|discriminate E3]. cbn [bindr] in E3. injection E3 as <- <-.
  assert (S3' : sends f3 <> []) by (rewrite S3; discriminate). specialize (Q3 S3' X3).
  pose proof (recv_connack_mps_recv a1 ca) as Q4. unfold deliver, dispatch_recv in E4. rewrite T2, VA1 in E4.
  change (T_CONNACK =? 1) with false in E4. change (T_CONNACK =? 2) with true in E4. cbv iota in E4.
  rewrite E4 in Q4. specialize (Q4 X4).
  destruct HA as (d1 & d2 & d3 & d4 & d5 & d6 & d7 & d8 & d9 & d10). destruct HB as (c1 & c2 & c3 & c4 & c5 & c6 & c7 & c8 & c9 & c10).
  split; [rewrite d4, Q3, Q2'; unfold limit_after; destruct (k_mps ca); [reflexivity|exact L1]|].
  split; [rewrite c4, Q4, Q1; unfold limit_after; destruct (k_mps cn); [reflexivity|exact L2]|].
  split; [rewrite d8, c9; reflexivity|rewrite c8, d9; reflexivity].
Qed.
