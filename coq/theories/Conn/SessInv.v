(* C16 / C06: the structural invariant of a session (Conn/Restore.v: the store determines the in-flight sets and
   the identifiers in use) holds in every state of every history of a persistent session in which the application
   holds no identifier — so what restore rebuilds from the export IS the original session. *)
From MQ Require Import Base.Prelude Alloc.Alloc Alloc.SetSpec Alloc.AllocProofs Framing.Framing
                       Conn.Types Conn.TopicAlias Conn.ConnRecord Conn.Step Conn.Run Corr.ConnTrace Conn.Scope Conn.IdsQuota Conn.WfInv
                       Conn.Own Conn.OwnFrame Conn.OwnStep Conn.SupFrame Conn.SupStep Conn.Restore.

(* every identifier in use belongs to an outbound QoS 1/2 exchange: the application holds none *)
Definition no_app_ids (c : conn) : Prop :=
  forall y, is_used c y = true -> mem y (c_puback c) || mem y (c_pubrec c) || mem y (c_pubcomp c) = true.

Lemma has_hask_q1 S y : has is_q1 S y = hask T_PUBACK S y.
Proof.
  unfold has, hask. induction S as [|p t IH]; cbn [existsb]; [reflexivity|]. rewrite IH. f_equal.
  unfold is_q1, response_of. destruct (k_type p =? T_PUBLISH); [destruct (k_qos p =? 1)|]; cbn [andb]; destruct (k_pid p =? y); reflexivity.
Qed.
Lemma has_hask_q2 S y : has is_q2 S y = hask T_PUBREC S y.
Proof.
  unfold has, hask. induction S as [|p t IH]; cbn [existsb]; [reflexivity|]. rewrite IH. f_equal.
  unfold is_q2, response_of. destruct (k_type p =? T_PUBLISH); [destruct (k_qos p =? 1)|]; cbn [andb negb]; destruct (k_pid p =? y); reflexivity.
Qed.
Lemma has_hask_rel S y : has is_rel S y = hask T_PUBCOMP S y.
Proof.
  unfold has, hask. induction S as [|p t IH]; cbn [existsb]; [reflexivity|]. rewrite IH. f_equal.
  unfold is_rel, response_of. destruct (k_type p =? T_PUBLISH); [destruct (k_qos p =? 1)|]; cbn [andb negb]; destruct (k_pid p =? y); reflexivity.
Qed.

Lemma own_hask g c r y : OWN g c -> hask r (c_store c) y = true -> mem y (kset r (c_puback c) (c_pubrec c) (c_pubcomp c)) = true.
Proof.
  intros HO H. apply hask_In in H as (q & Hq & E1 & E2). destruct (o_kind _ _ _ _ _ _ _ _ _ HO q Hq) as [K _]. now rewrite E1, E2 in K.
Qed.

Theorem own_sup_sess_inv g c : OWN g c -> SUPX c -> ENT c -> no_app_ids c -> sess_inv g c.
Proof.
  intros HO HS HE HN. pose proof (o_wf _ _ _ _ _ _ _ _ _ HO) as W. destruct (o_asc _ _ _ _ _ _ _ _ _ HO) as (A1 & A2 & A3 & _).
  assert (Hb : forall a b, (a = true -> b = true) -> (b = true -> a = true) -> a = b) by (intros [] []; intuition congruence).
  split; [exact W|]. split; [exact (o_nodup _ _ _ _ _ _ _ _ _ HO)|]. split.
  { intros p Hp. split; [exact (HE p Hp)|]. pose proof (is_used_range g c _ HO (o_used _ _ _ _ _ _ _ _ _ HO p Hp)) as [R1 R2].
    unfold in_rng. apply andb_true_iff. split; now apply N.leb_le. }
  split; [exact A1|]. split; [exact A2|]. split; [exact A3|].
  split; [intro y; rewrite has_hask_q1; apply Hb; [apply (HS y)|intro K; exact (own_hask g c T_PUBACK y HO K)]|].
  split; [intro y; rewrite has_hask_q2; apply Hb; [apply (HS y)|intro K; exact (own_hask g c T_PUBREC y HO K)]|].
  split; [intro y; rewrite has_hask_rel; apply Hb; [apply (HS y)|intro K; exact (own_hask g c T_PUBCOMP y HO K)]|].
  intro y. pose proof (is_used_spec g c y W) as Hu. unfold in_rng in *.
  destruct ((1 <=? y) && (y <=? g_idmax g)) eqn:Er; cbn [andb] in *.
  - assert (Hiff : is_used c y = store_has y (c_store c)).
    { apply Hb.
      - intro K. specialize (HN y K). destruct (HS y) as (S1 & S2 & S3).
        assert (Hh : exists r, hask r (c_store c) y = true).
        { destruct (mem y (c_puback c)); [exists T_PUBACK; now apply S1|]. destruct (mem y (c_pubrec c)); [exists T_PUBREC; now apply S2|].
          destruct (mem y (c_pubcomp c)); [exists T_PUBCOMP; now apply S3|discriminate]. }
        destruct Hh as (r & Hh). apply hask_In in Hh as (q & Hq & E1 & _). unfold store_has. apply existsb_exists. exists q. split; [exact Hq|now apply N.eqb_eq].
      - intro K. apply store_has_true in K as (q & Hq & E). rewrite <- E. exact (o_used _ _ _ _ _ _ _ _ _ HO q Hq). }
    rewrite <- Hiff, Hu. now destruct (free_in c y).
  - destruct W as ((_ & _ & Wp) & E1 & E2 & _). unfold free_in. destruct (abs (a_pool (c_pid c)) y) eqn:Ea; [|reflexivity].
    apply (abs_ge _ _ _ _ Wp) in Ea. rewrite E1, E2 in Ea. apply andb_false_iff in Er as [Er|Er]; apply N.leb_gt in Er; lia.
Qed.

(* ---- over histories ---- *)
Definition K (g : cfg) (c : conn) : Prop := OWN g c /\ SUP c /\ ENT c /\ c_version c <> VUndet.
Definition k_contract (c : conn) (o : op) : Prop := own_op_ok c o /\ sup_op_ok c o.
Fixpoint k_history_ok (g : cfg) (c : conn) (ops : list op) : Prop :=
  match ops with
  | [] => True
  | o :: t => k_contract c o /\ match step g c o with Ok (c', _, _) => k_history_ok g c' t | Panic _ => True end
  end.

Theorem step_keeps_K g c o : K g c -> k_contract c o -> match step g c o with Ok (c', _, _) => K g c' | Panic _ => True end.
Proof.
  intros (HO & HS & HE & Hv) (Hk & Hs).
  pose proof (step_keeps_OWN g c o HO Hv Hk) as H1. pose proof (step_keeps_SUP g c o HO HS Hv Hk Hs) as H2. pose proof (step_keeps_ENT g c o HE) as H3.
  destruct (step g c o) as [[[c' e] r]|]; [|exact I]. destruct H1 as [H1 V1]. split; [exact H1|split; [exact H2|split; [exact H3|rewrite V1; exact Hv]]].
Qed.
Theorem K_invariant g : forall ops c, K g c -> k_history_ok g c ops ->
  match run_state g c ops with Some c' => K g c' | None => True end.
Proof.
  induction ops as [|o t IH]; intros c HK Hq; cbn [run_state]; [exact HK|].
  cbn [k_history_ok] in Hq. destruct Hq as [Hc Hq]. pose proof (step_keeps_K g c o HK Hc) as Hs.
  destruct (step g c o) as [[[c' e] r]|]; [|exact I]. now apply IH.
Qed.
Lemma conn_new_K g v : 1 <= g_idmax g -> v <> VUndet -> K g (conn_new g v).
Proof.
  intros Hm Hv. split; [now apply conn_new_OWN|]. split; [apply sup_off; reflexivity|]. split; [intros q []|exact Hv].
Qed.

(* in every state of every such history of a fresh object: a persistent session whose application holds no
   identifier satisfies the structural invariant *)
Theorem history_sess_inv g v ops c :
  1 <= g_idmax g -> v <> VUndet -> k_history_ok g (conn_new g v) ops -> run_state g (conn_new g v) ops = Some c ->
  c_need_store c = true -> no_app_ids c -> sess_inv g c.
Proof.
  intros Hm Hv Hq Hr En Hn. pose proof (K_invariant g ops _ (conn_new_K g v Hm Hv) Hq) as H. rewrite Hr in H.
  destruct H as (HO & HS & HE & _). apply own_sup_sess_inv; [exact HO|now apply HS|exact HE|exact Hn].
Qed.

(* ... so the export of such a state, restored into a fresh object with the same options, IS the original session *)
Theorem history_restore_equal g v ops c :
  1 <= g_idmax g -> v <> VUndet -> k_history_ok g (conn_new g v) ops -> run_state g (conn_new g v) ops = Some c ->
  c_need_store c = true -> no_app_ids c -> asc 1 (g_idmax g) (c_qos2 c) ->
  let r := set_qos2 (do_restore (fresh_like g c) (c_store c)) (fold_left (fun s i => ins i s) (c_qos2 c) []) in
  session_eq r c /\ conn_scope_eq r (fresh_like g c).
Proof.
  intros Hm Hv Hq Hr En Hn Ha. apply restored_session_equal; [exact Hm| |exact Ha]. exact (history_sess_inv g v ops c Hm Hv Hq Hr En Hn).
Qed.

(* ... and the ordering of the handled-identifier set is not a hypothesis either: it is kept by every call as long as the
   identifiers handed in from outside (QoS 2 PUBLISH from the parser, restore_qos2_publish_handled) are within
   1..idmax (AscQos2) *)
From MQ Require Import Conn.AscQos2.
Theorem history_restore_equal_full g v ops c :
  1 <= g_idmax g -> v <> VUndet -> k_history_ok g (conn_new g v) ops -> ids_history_ok (g_idmax g) ops ->
  run_state g (conn_new g v) ops = Some c -> c_need_store c = true -> no_app_ids c ->
  let r := set_qos2 (do_restore (fresh_like g c) (c_store c)) (fold_left (fun s i => ins i s) (c_qos2 c) []) in
  session_eq r c /\ conn_scope_eq r (fresh_like g c).
Proof.
  intros Hm Hv Hq Hi Hr En Hn. apply (history_restore_equal g v ops c Hm Hv Hq Hr En Hn).
  pose proof (fresh_asc_qos2 (g_idmax g) g v ops Hi) as H. rewrite Hr in H. exact H.
Qed.
