(* C01 / C08, model side: AT QUIESCENCE EVERY PACKET IDENTIFIER HAS BEEN RELEASED, ACROSS TRANSPORT LOSSES (the lossy system of
   PairLoss.v: v3.1.1, persistent sessions, a client publishing).  The layered invariant here is [V]: every identifier in use at
   the sender has an entry in its store.  A publication registers exactly the identifier it stores; a final acknowledgement
   erases the entry and releases the identifier; a loss with its resumption acquires nothing — by the accounting theorems of
   Account.v (C08) every call of the resumption only ever turns identifiers free and keeps the store.  With "the store is empty
   once the links have drained" (PairLossAcc) no identifier is in use at quiescence. *)
From Coq Require Import Permutation.
From MQ Require Import Base.Prelude Alloc.Alloc Alloc.SetSpec Alloc.AllocProofs Framing.Framing
                       Conn.Types Conn.TopicAlias Conn.ConnRecord Conn.Step Conn.Run Corr.ConnTrace Conn.Scope Conn.IdsQuota Conn.WfInv
                       Conn.Own Conn.OwnFrame Conn.OwnStep Conn.Account Conn.SupStep Conn.SessInv Conn.StoreInv Conn.Qos2Dup Conn.TasBounds Conn.NoPanic
                       Conn.PairQos Conn.PairSeq Conn.PairConc Conn.PairLoss Conn.PairLossAcc.

(* a call that announces its releases and resets nothing only ever turns identifiers free *)
Lemma acc_mono g a a' L : accp false g a a' L -> WFa g a -> forall y, a_is_used a' y = true -> a_is_used a y = true /\ ~ In y L.
Proof.
  intros H W. destruct (H W) as (_ & _ & _ & [F|[R _]]); [|discriminate R].
  intros y Hy. rewrite F in Hy. apply andb_true_iff in Hy as [H1 H2]. split; [exact H1|]. apply negb_true_iff in H2. now apply inb_false.
Qed.

Section LossIds.
Variables gs gr : cfg.
Hypothesis gs_client : role_client_ok gs = true.
Hypothesis gr_server : role_server_ok gr = true.
Hypothesis idw_small : 2 + g_idw gs <= MQTT_PACKET_SIZE_NO_LIMIT.

Definition V (s : sys) : Prop := forall y, is_used (cs s) y = true -> store_has y (c_store (cs s)) = true.

Lemma toR_V s : invL gs gr s -> V s -> match do_to_r gr s with Next s' => V s' | _ => True end.
Proof.
  intros Hi HV. pose proof (toR_shape gs gr s Hi) as H.
  destruct (do_to_r gr s) as [s'| |]; [|exact I|exact I]. destruct H as (x & t & _ & Ec & _). unfold V. rewrite Ec. exact HV.
Qed.

(* a delivery to the sender only turns identifiers free *)
Lemma deliver_mono c x : OWN gs c -> (k_type x = T_PUBACK \/ k_type x = T_PUBREC \/ k_type x = T_PUBCOMP) ->
  match deliver gs c x with Ok (c', _) => forall y, is_used c' y = true -> is_used c y = true | Panic _ => True end.
Proof.
  intros HO Ht. unfold deliver.
  assert (Hst : pr_starts (PROk x) = true -> false = true).
  { unfold pr_starts. destruct Ht as [Ht|[Ht|Ht]]; rewrite Ht; cbn; intro H; exact H. }
  pose proof (dispatch_recv_ACC false gs c (c_version c) (k_type x) (PROk x) HO eq_refl Hst) as H.
  destruct (dispatch_recv gs c (c_version c) (k_type x) (PROk x)) as [[c' e]|]; [|exact I]. cbn [ACC] in H.
  intros y Hy. exact (proj1 (acc_mono gs _ _ _ H (o_wf _ _ _ _ _ _ _ _ _ HO) y Hy)).
Qed.

Lemma toS_V s : invL gs gr s -> V s -> match do_to_s gs s with Next s' => V s' | _ => True end.
Proof.
  intros Hi HV. pose proof (toS_shape gs gr s Hi) as H.
  pose proof Hi as ((HO & _) & _).
  assert (Hm : match qrs s with
               | x :: _ => match deliver gs (cs s) x with Ok (c', _) => forall y, is_used c' y = true -> is_used (cs s) y = true | Panic _ => True end
               | [] => True end).
  { destruct Hi as (_ & _ & _ & _ & _ & _ & _ & _ & _ & _ & _ & _ & _ & Frs & _). destruct (qrs s) as [|x t]; [exact I|].
    apply (deliver_mono (cs s) x HO). pose proof (Forall_inv Frs) as (_ & [[He _]|[[He _]|[He _]]]); rewrite He; [left|right; left|right; right]; reflexivity. }
  unfold do_to_s in *. destruct (qrs s) as [|x0 t0] eqn:Eq; [exact I|].
  destruct (deliver gs (cs s) x0) as [[c1 e]|]; [|exact I]. destruct (negb (none (errors e))); [exact I|].
  destruct (sends e) as [|r [|r2 l2]]; [| |exact I].
  - destruct (released e) as [|i [|i2 l2]]; [exact I| |exact I]. destruct (i =? k_pid x0); [|exact I].
    destruct H as (x & t & Ex & _ & _ & _ & _ & Hc). injection Ex as <- <-. cbn [cs] in Hc. unfold V. cbn [cs].
    intros y Hy. specialize (Hm y Hy).
    destruct Hc as [(_ & _ & Est & Hu)|[(_ & Eq' & _)|(_ & _ & Est & Hu)]].
    + rewrite Est. assert (Hne : k_pid x0 <> y) by (intro E; rewrite <- E, Hu in Hy; discriminate Hy).
      rewrite (store_has_erase_other y V311 T_PUBACK (k_pid x0) _ Hne). exact (HV y Hm).
    + cbn [qsr] in Eq'. exfalso. apply (f_equal (@length _)) in Eq'. rewrite app_length in Eq'. cbn in Eq'. lia.
    + rewrite Est. assert (Hne : k_pid x0 <> y) by (intro E; rewrite <- E, Hu in Hy; discriminate Hy).
      rewrite (store_has_erase_other y V311 T_PUBCOMP (k_pid x0) _ Hne). exact (HV y Hm).
  - destruct (none (released e)); [|exact I].
    destruct H as (x & t & Ex & _ & _ & _ & _ & Hc). injection Ex as <- <-. cbn [cs] in Hc. unfold V. cbn [cs].
    intros y Hy. specialize (Hm y Hy).
    destruct Hc as [(_ & Eq' & _)|[(_ & _ & Est)|(_ & Eq' & _)]].
    + cbn [qsr] in Eq'. exfalso. apply (f_equal (@length _)) in Eq'. rewrite app_length in Eq'. cbn in Eq'. lia.
    + rewrite Est, store_has_app. destruct (N.eq_dec (k_pid x0) y) as [E|Hne].
      * change (k_pid (pubrel_of gs (k_pid x0))) with (k_pid x0). rewrite E, N.eqb_refl. apply orb_true_r.
      * rewrite (store_has_erase_other y V311 T_PUBREC (k_pid x0) _ Hne), (HV y Hm). reflexivity.
    + cbn [qsr] in Eq'. exfalso. apply (f_equal (@length _)) in Eq'. rewrite app_length in Eq'. cbn in Eq'. lia.
Qed.

(* a publication registers exactly the identifier of the entry it stores *)
Lemma pub_V s p q : invL gs gr s -> v311_pub p q -> q = 1 \/ q = 2 -> V s -> match do_pub gs s p with Next s' => V s' | _ => True end.
Proof.
  intros Hi Hp Hqq HV. pose proof (pub_shape gs gr idw_small s p q Hi Hp Hqq) as H.
  pose proof Hi as ((HO & _) & _).
  unfold do_pub in *. cbv zeta in *.
  destruct (negb _) eqn:Epre; [exact I|]. apply negb_false_iff in Epre.
  apply andb_true_iff in Epre as [Epre E4]. apply andb_true_iff in Epre as [Epre E3]. apply andb_true_iff in Epre as [E1 E2].
  apply N.leb_le in E1, E2. apply negb_true_iff in E3.
  destruct (register_ae gs (cs s) (k_pid p) HO (conj E1 E2) E3) as (a & Ereg & O0 & U0 & Hu0). rewrite Ereg in *.
  set (c0 := set_pid (cs s) a) in *.
  assert (Hrs : (k_type p =? T_CONNECT) && k_flag p = true -> false = true) by (destruct Hp as (Ht & _); rewrite Ht; cbn; intro K; exact K).
  pose proof (do_send_ACC false gs c0 p O0 Hrs) as HA.
  assert (Est : step gs c0 (OSend p) = bindr (do_send gs c0 p) (fun '(c', e) => Ok (c', e, @nil N))) by reflexivity.
  rewrite Est in *. destruct (do_send gs c0 p) as [[c1 e1]|]; cbn [bindr] in *; [|exact I].
  destruct (one (sends e1)) as [p1|]; [|exact I]. destruct (negb _); [exact I|].
  destruct H as (_ & _ & _ & _ & _ & Est' & _). cbn [cs] in Est'. unfold V. cbn [cs]. cbn [ACC] in HA.
  intros y Hy. rewrite Est', store_has_app.
  pose proof (proj1 (acc_mono gs _ _ _ HA (o_wf _ _ _ _ _ _ _ _ _ O0) y Hy)) as Hy0.
  destruct (N.eq_dec y (k_pid p)) as [->|Hne]; [change (k_pid (set_dup p true)) with (k_pid p); rewrite N.eqb_refl; apply orb_true_r|].
  change (a_is_used (c_pid c0) y) with (is_used c0 y) in Hy0. rewrite (Hu0 y Hne) in Hy0. rewrite (HV y Hy0). reflexivity.
Qed.

(* a loss and its resumption: the store is kept, nothing is acquired *)
Lemma acc_mono' rs g a a' L : accp rs g a a' L -> WFa g a -> forall y, a_is_used a' y = true -> a_is_used a y = true.
Proof.
  intros H W. destruct (H W) as (_ & _ & _ & [F|[_ F]]); intros y Hy.
  - rewrite F in Hy. apply andb_true_iff in Hy as [H1 _]. exact H1.
  - rewrite F in Hy. discriminate Hy.
Qed.

Lemma lose_mono s : OWN gs (cs s) ->
  match do_lose gs gr s with Next s' => forall y, is_used (cs s') y = true -> is_used (cs s) y = true | _ => True end.
Proof.
  intro HO. unfold do_lose.
  pose proof (do_closed_ACC true gs (cs s)) as A1. pose proof (do_closed_OR gs (cs s) HO) as O1.
  destruct (do_closed (cs s)) as [[c1 e1]|]; [|exact I]. destruct (do_closed (cr s)) as [[r1 f1]|]; [|exact I].
  destruct O1 as [O1 _]. cbn [ACC] in A1.
  pose proof (do_send_ACC true gs c1 connect_pkt O1 (fun _ => eq_refl)) as A2.
  assert (Hok : send_ok c1 connect_pkt) by (split; intro H; [discriminate H|destruct H as [H|[H|H]]; discriminate H]).
  pose proof (do_send_OR gs c1 connect_pkt O1 Hok) as O2.
  destruct (do_send gs c1 connect_pkt) as [[c2 e2]|]; [|exact I]. destruct O2 as [O2 _]. cbn [ACC] in A2.
  destruct (one (sends e2)) as [cn|]; [|exact I]. destruct (negb (none (errors e2))); [exact I|].
  destruct (deliver gr r1 cn) as [[r2 e5]|]; [|exact I]. destruct (negb _); [exact I|].
  destruct (do_send gr r2 connack_pkt) as [[r3 e6]|]; [|exact I]. destruct (one (sends e6)) as [ca|]; [|exact I].
  destruct (negb (none (errors e6))); [exact I|].
  pose proof (dispatch_recv_ACC true gs c2 (c_version c2) (k_type ca) (PROk ca) O2 eq_refl (fun _ => eq_refl)) as A3.
  unfold deliver at 1. destruct (dispatch_recv gs c2 (c_version c2) (k_type ca) (PROk ca)) as [[c3 e3]|]; [|exact I]. cbn [ACC] in A3.
  destruct (negb (none (errors e3))); [exact I|]. cbn [cs].
  intros y Hy.
  pose proof (acc_mono' _ gs _ _ _ A3 (o_wf _ _ _ _ _ _ _ _ _ O2) y Hy) as Hy2.
  pose proof (acc_mono' _ gs _ _ _ A2 (o_wf _ _ _ _ _ _ _ _ _ O1) y Hy2) as Hy1.
  exact (acc_mono' _ gs _ _ _ A1 (o_wf _ _ _ _ _ _ _ _ _ HO) y Hy1).
Qed.

Lemma lose_V s : invL gs gr s -> V s -> match do_lose gs gr s with Next s' => V s' | _ => True end.
Proof.
  intros Hi HV. pose proof (lose_shape gs gr gs_client gr_server s Hi) as Hsh.
  pose proof Hi as ((HO & _) & _). pose proof (lose_mono s HO) as Hm.
  destruct (do_lose gs gr s) as [s'| |]; [|exact I|exact I].
  destruct Hsh as (_ & _ & _ & _ & Est & _). intros y Hy. rewrite Est. exact (HV y (Hm y Hy)).
Qed.

Lemma actL_V s a : invL gs gr s -> good_actL a -> V s -> match do_actL gs gr s a with Next s' => V s' | _ => True end.
Proof.
  intros Hi Hg HV. destruct a as [p| | |]; cbn [do_actL good_actL] in *.
  - destruct Hg as [[Hg|Hg] _]; [apply (pub_V s p 1 Hi Hg); [now left|exact HV]|apply (pub_V s p 2 Hi Hg); [now right|exact HV]].
  - exact (toR_V s Hi HV).
  - exact (toS_V s Hi HV).
  - exact (lose_V s Hi HV).
Qed.

Theorem schedL_V : forall l s, invL gs gr s -> V s -> Forall good_actL l ->
  match run_schedL gs gr s l with Some s' => V s' | None => True end.
Proof.
  induction l as [|a t IH]; intros s Hi HV Hf; cbn [run_schedL]; [exact HV|].
  pose proof (Forall_inv Hf) as Ha. pose proof (Forall_inv_tail Hf) as Ht.
  pose proof (actL_ok gs gr gs_client gr_server idw_small s a Hi Ha) as Hok. pose proof (actL_V s a Hi Ha HV) as HV'.
  destruct (do_actL gs gr s a) as [s'| |]; [exact (IH s' Hok HV' Ht)|exact (IH s Hi HV Ht)|exact I].
Qed.

Lemma drainL_good n : Forall good_actL (drainL n).
Proof. induction n as [|k IH]; cbn [drainL]; [constructor|]. repeat constructor; assumption || exact I. Qed.

(* AT QUIESCENCE, ACROSS LOSSES: after any schedule of publications, deliveries and transport losses, and the drain, the
   sender's store is empty and no packet identifier is in use *)
Theorem lossy_all_identifiers_released l s : invL gs gr s -> accC s -> V s -> Forall good_actL l ->
  exists s1 s2, run_schedL gs gr s l = Some s1 /\ run_schedL gs gr s1 (drainL (measure s1)) = Some s2 /\
                qsr s2 = [] /\ qrs s2 = [] /\ c_store (cs s2) = [] /\ forall y, is_used (cs s2) y = false.
Proof.
  intros Hi HC HV Hf.
  destruct (qos1_at_least_once_across_loss gs gr gs_client gr_server idw_small l s Hi HC Hf) as (s1 & s2 & R1 & R2 & Q1 & Q2 & St & _).
  exists s1, s2. split; [exact R1|]. split; [exact R2|]. split; [exact Q1|]. split; [exact Q2|]. split; [exact St|].
  pose proof (schedL_V l s Hi HV Hf) as V1. rewrite R1 in V1.
  destruct (schedL_ok gs gr gs_client gr_server idw_small l s Hi Hf) as (s1' & R1' & I1). assert (s1' = s1) by congruence. subst s1'.
  pose proof (schedL_V (drainL (measure s1)) s1 I1 V1 (drainL_good _)) as V2. rewrite R2 in V2.
  intro y. destruct (is_used (cs s2) y) eqn:E; [|reflexivity]. exfalso. specialize (V2 y E). rewrite St in V2. discriminate V2.
Qed.

Lemma V_init c1 c2 : (forall y, is_used c1 y = false) -> V (mkSys c1 c2 [] [] [] []).
Proof. intros H y Hy. cbn [cs] in Hy. rewrite H in Hy. discriminate Hy. Qed.
End LossIds.

(* ---- end to end from freshly constructed objects ---- *)
From MQ Require Import Conn.PairHandshake5 Conn.PairHandshakeP Conn.PairConcIds.

Lemma new_unused mx y : pm_is_used (pm_new mx) y = false.
Proof.
  unfold pm_is_used, pm_new, a_is_used. cbn [a_lo a_hi a_pool existsb]. unfold contains. cbn [fst snd].
  destruct (1 <=? y), (y <=? mx); reflexivity.
Qed.

Theorem fresh_endpoints_complete_quiescence_across_loss gs gr cn ca l :
  1 <= g_idmax gs -> 1 <= g_idmax gr -> role_client_ok gs = true -> role_server_ok gr = true -> 2 + g_idw gs <= MQTT_PACKET_SIZE_NO_LIMIT ->
  k_type cn = T_CONNECT -> k_ver cn = V311 -> k_flag cn = false ->
  k_type ca = T_CONNACK -> k_ver ca = V311 -> k_rc ca = 0 ->
  Forall good_actL l ->
  let A0 := set_auto_pub (conn_new gs V311) true in
  let B0 := set_auto_pub (conn_new gr V311) true in
  exists A1 e1 B1 e2 B2 e3 A2 e4 s1 s2,
    step gs A0 (OSend cn) = Ok (A1, e1, []) /\ deliver gr B0 cn = Ok (B1, e2) /\
    step gr B1 (OSend ca) = Ok (B2, e3, []) /\ deliver gs A1 ca = Ok (A2, e4) /\
    run_schedL gs gr (mkSys A2 B2 [] [] [] []) l = Some s1 /\
    run_schedL gs gr s1 (drainL (measure s1)) = Some s2 /\
    (* the quiescent state after any losses *)
    qsr s2 = [] /\ qrs s2 = [] /\ c_store (cs s2) = [] /\ (forall y, is_used (cs s2) y = false).
Proof.
  intros IA IB RA RB Hw T1 V1 F1 T2 V2 C2 Hl A0 B0.
  assert (OA : OWN gs A0) by (apply (f8_own gs (conn_new gs V311)); [unfold F8; repeat split|exact (conn_new_OWN gs V311 IA)]).
  assert (OB : OWN gr B0) by (apply (f8_own gr (conn_new gr V311)); [unfold F8; repeat split|exact (conn_new_OWN gr V311 IB)]).
  assert (EA : EMPTY A0) by (unfold EMPTY; repeat split). assert (EB : EMPTY B0) by (unfold EMPTY; repeat split).
  destruct (persistent_handshake_establishes_lossy_invariant gs gr A0 B0 cn ca OA OB eq_refl eq_refl eq_refl eq_refl EA EB eq_refl eq_refl RA RB
              T1 V1 F1 T2 V2 C2)
    as (A1 & e1 & B1 & e2 & B2 & e3 & A2 & e4 & E1 & S1 & X1 & E2 & N2 & X2 & _ & E3 & S3 & X3 & E4 & N4 & X4 & _ & Hinv & HB & HC).
  (* nothing is acquired by the handshake *)
  assert (HV : V (mkSys A2 B2 [] [] [] [])).
  { apply V_init. intros y. destruct (is_used A2 y) eqn:Ey; [|reflexivity]. exfalso.
    assert (Hok : send_ok A0 cn) by (split; intro H; [rewrite T1 in H; discriminate H|destruct H as [H|[H|H]]; rewrite T1 in H; discriminate H]).
    pose proof (do_send_ACC true gs A0 cn OA (fun _ => eq_refl)) as Q1. pose proof (do_send_OR gs A0 cn OA Hok) as O1.
    assert (Est : step gs A0 (OSend cn) = bindr (do_send gs A0 cn) (fun '(c', e) => Ok (c', e, @nil N))) by reflexivity.
    rewrite Est in E1. destruct (do_send gs A0 cn) as [[a1 f1]|]; [|discriminate E1]. cbn [bindr] in E1. injection E1 as <- <-.
    destruct O1 as [O1 _]. cbn [ACC] in Q1.
    pose proof (dispatch_recv_ACC true gs a1 (c_version a1) (k_type ca) (PROk ca) O1 eq_refl (fun _ => eq_refl)) as Q4.
    unfold deliver in E4. rewrite E4 in Q4. cbn [ACC] in Q4.
    pose proof (acc_mono' _ gs _ _ _ Q4 (o_wf _ _ _ _ _ _ _ _ _ O1) y Ey) as Hy1.
    pose proof (acc_mono' _ gs _ _ _ Q1 (o_wf _ _ _ _ _ _ _ _ _ OA) y Hy1) as Hy0.
    change (a_is_used (c_pid A0) y) with (pm_is_used (pm_new (g_idmax gs)) y) in Hy0. rewrite new_unused in Hy0. discriminate Hy0. }
  destruct (lossy_all_identifiers_released gs gr RA RB Hw l _ Hinv HC HV Hl) as (s1 & s2 & R1 & R2 & Q1 & Q2 & St & Hrel).
  exists A1, e1, B1, e2, B2, e3, A2, e4, s1, s2.
  repeat (split; [assumption|]). exact Hrel.
Qed.
