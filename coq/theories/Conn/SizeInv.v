(* C14, send direction, as ONE statement about EVERY call of the model: every packet a call requests
   for sending on a v5.0 connection fits the Maximum Packet Size in force — for user sends, automatic
   responses, error DISCONNECTs, PINGREQ from the timer, retransmitted stored packets and publishes
   rewritten by alias mapping alike. *)
From MQ Require Import Base.Prelude Alloc.Alloc Alloc.SetSpec Alloc.AllocProofs Framing.Framing
                       Conn.Types Conn.TopicAlias Conn.ConnRecord Conn.Step Conn.Run Corr.ConnTrace Conn.Scope.

(* an event respects the limit: a v5.0 packet requested for sending is not larger than it *)
Definition fits (lim : N) (e : event) : bool :=
  match e with
  | ESend p _ => negb (version_eqb (k_ver p) V50) || (k_size p <=? lim)
  | _ => true
  end.
Definition all_fit (lim : N) (l : list event) : bool := forallb (fits lim) l.

Definition is_send (e : event) : bool := match e with ESend _ _ => true | _ => false end.
Definition no_send (l : list event) : bool := forallb (fun e => negb (is_send e)) l.

Lemma all_fit_app lim a b : all_fit lim (a ++ b) = all_fit lim a && all_fit lim b.
Proof. apply forallb_app. Qed.
Lemma no_send_fit lim l : no_send l = true -> all_fit lim l = true.
Proof.
  unfold no_send, all_fit. induction l as [|e t IH]; cbn [forallb]; [reflexivity|].
  intro H. apply andb_true_iff in H as [H1 H2]. rewrite (IH H2), andb_true_r. destruct e; try reflexivity. discriminate.
Qed.

(* relative statement: the limit is unchanged and the events fit it *)
Definition SZ (c : conn) (r : res (conn * list event)) : Prop :=
  match r with
  | Ok (c', e) => c_mps_send c' = c_mps_send c /\ all_fit (c_mps_send c) e = true
  | Panic _ => True
  end.

Lemma SZ_trans c c1 r : c_mps_send c1 = c_mps_send c -> SZ c1 r -> SZ c r.
Proof. destruct r as [[c' e]|]; cbn [SZ]; [|trivial]. intros H1 [H2 H3]. rewrite <- H1. split; [congruence|exact H3]. Qed.

(* ---- helpers: limit untouched, no send requested ---- *)
Lemma post_sz c : c_mps_send (fst (send_post_process c)) = c_mps_send c /\ no_send (snd (send_post_process c)) = true.
Proof. unfold send_post_process. destruct (c_is_client c); [destruct (0 <? _)|]; split; reflexivity. Qed.
Lemma cancel_sz c : c_mps_send (fst (cancel_timers c)) = c_mps_send c /\ no_send (snd (cancel_timers c)) = true.
Proof.
  split; [rewrite cancel_timers_state; reflexivity|].
  unfold cancel_timers. destruct (c_t_send c); cbv beta iota zeta; conn_simpl.
  all: match goal with |- context [if ?b then _ else _] => destruct b end; cbv beta iota zeta; conn_simpl.
  all: match goal with |- context [if ?b then _ else _] => destruct b end; reflexivity.
Qed.
Lemma refresh_sz c : c_mps_send (fst (refresh_pingreq_recv c)) = c_mps_send c /\ no_send (snd (refresh_pingreq_recv c)) = true.
Proof. unfold refresh_pingreq_recv. destruct (negb _); split; reflexivity. Qed.
Lemma validate_alias_sz c a : c_mps_send (snd (validate_topic_alias c a)) = c_mps_send c.
Proof.
  unfold validate_topic_alias. destruct a as [a|]; [|reflexivity]. destruct (negb _); [reflexivity|].
  destruct (c_ta_send c) as [s|]; [|reflexivity]. destruct (tas_get s a) as [[t|] s']; reflexivity.
Qed.
Lemma release_sz c id c' e : release_if_used c id = Ok (c', e) -> c_mps_send c' = c_mps_send c /\ no_send e = true.
Proof.
  unfold release_if_used. destruct (is_used c id); [|intro H; inversion H; split; reflexivity].
  destruct (pm_release _ _); cbn [bindr]; [|discriminate]. intro H; inversion H; split; reflexivity.
Qed.
Lemma store_add_sz c p c' : store_add c p = Ok c' -> c_mps_send c' = c_mps_send c.
Proof. unfold store_add. destruct (store_has _ _); [discriminate|]. intro H; inversion H; reflexivity. Qed.

(* the check every send path makes *)
Lemma fits_of_check p c lim : c_mps_send c = lim ->
  version_eqb (k_ver p) V50 && negb (size_ok c p) = false -> forall rel, fits lim (ESend p rel) = true.
Proof.
  intros <- H rel. unfold fits, size_ok in *. destruct (version_eqb (k_ver p) V50); [|reflexivity].
  cbn [andb negb orb] in *. now apply negb_false_iff in H.
Qed.

(* ---- automation ---- *)
Ltac sz_helper :=
  match goal with
  | |- context [send_post_process ?c] =>
      let H := fresh "Hpost" in pose proof (post_sz c) as H; destruct (send_post_process c) as [? ?]; cbn [fst snd] in H; destruct H as [? ?]
  | |- context [cancel_timers ?c] =>
      let H := fresh "Hcan" in pose proof (cancel_sz c) as H; destruct (cancel_timers c) as [? ?]; cbn [fst snd] in H; destruct H as [? ?]
  | |- context [refresh_pingreq_recv ?c] =>
      let H := fresh "Href" in pose proof (refresh_sz c) as H; destruct (refresh_pingreq_recv c) as [? ?]; cbn [fst snd] in H; destruct H as [? ?]
  | |- context [validate_topic_alias ?c ?a] =>
      let H := fresh "Hval" in pose proof (validate_alias_sz c a) as H; destruct (validate_topic_alias c a) as [? ?]; cbn [snd] in H
  | |- context [release_if_used ?c ?id] =>
      let E := fresh "Erel" in destruct (release_if_used c id) as [[? ?]|] eqn:E; [apply release_sz in E; destruct E as [? ?]|]
  | |- context [store_add ?c ?p] =>
      let E := fresh "Esa" in destruct (store_add c p) as [?|] eqn:E; [apply store_add_sz in E|]
  end.

(* case splits left in the final state / in recorded facts *)
Ltac sz_norm :=
  repeat match goal with
         | |- context [if ?b then _ else _] => destruct b eqn:?
         | |- context [match ?o with Some _ => _ | None => _ end] => destruct o eqn:?
         | H : c_mps_send (if ?b then _ else _) = _ |- _ => destruct b eqn:?
         | H : c_mps_send (match ?o with Some _ => _ | None => _ end) = _ |- _ => destruct o eqn:?
         | H : _ = c_mps_send (if ?b then _ else _) |- _ => destruct b eqn:?
         | H : _ = c_mps_send (match ?o with Some _ => _ | None => _ end) |- _ => destruct o eqn:?
         | H : all_fit (c_mps_send (if ?b then _ else _)) _ = _ |- _ => destruct b eqn:?
         | H : all_fit (c_mps_send (match ?o with Some _ => _ | None => _ end)) _ = _ |- _ => destruct o eqn:?
         end;
  conn_simpl.

(* all limits are the start state's *)
Ltac sz_chain :=
  unfold size_ok in *; conn_simpl;
  repeat match goal with
         | H : c_mps_send ?a = c_mps_send ?b |- _ => (try rewrite H in * ); clear H
         end.

Ltac sz_bools :=
  repeat match goal with
         | H : context [version_eqb ?a ?b] |- _ => destruct (version_eqb a b)
         | |- context [version_eqb ?a ?b] => destruct (version_eqb a b)
         end;
  cbn [andb orb negb] in *;
  repeat match goal with
         | H : context [?a <=? ?b] |- _ => destruct (a <=? b)
         | |- context [?a <=? ?b] => destruct (a <=? b)
         end;
  cbn [andb orb negb] in *; try reflexivity; try discriminate; try congruence.

Ltac sz_events :=
  repeat rewrite all_fit_app;
  repeat match goal with
         | H : no_send ?e = true |- context [all_fit ?lim ?e] => rewrite (no_send_fit lim e H)
         | H : all_fit ?lim ?e = true |- context [all_fit ?lim ?e] => rewrite H
         end;
  cbn [all_fit forallb fits too_large not_allowed app andb];
  sz_bools.

Ltac sz_leaf := cbn [SZ]; sz_norm; sz_chain; (split; [try reflexivity; try congruence|sz_events]).

Lemma send_and_post_SZ c0 c p rel pre :
  c_mps_send c = c_mps_send c0 -> all_fit (c_mps_send c0) pre = true -> fits (c_mps_send c0) (ESend p rel) = true ->
  SZ c0 (send_and_post c p rel pre).
Proof.
  intros Hm Hp Hf. unfold send_and_post. sz_helper. cbn [SZ]. split; [congruence|].
  rewrite !all_fit_app, Hp. cbn [all_fit forallb]. cbn [all_fit forallb] in Hf. rewrite Hf.
  match goal with H : no_send ?e = true |- _ => rewrite (no_send_fit _ e H) end. reflexivity.
Qed.

Ltac sz_step :=
  first
   [ progress cbn [bindr]
   | sz_helper
   | match goal with |- SZ _ (Panic _) => exact I end
   | match goal with |- SZ _ (if ?b then _ else _) => destruct b eqn:? end
   | match goal with |- SZ _ (bindr (if ?b then _ else _) _) => destruct b eqn:? end
   | match goal with |- SZ _ (bindr (bindr (if ?b then _ else _) _) _) => destruct b eqn:? end
   | match goal with |- SZ _ (let '(_, _) := (_, _) in _) => cbv beta iota end
   | match goal with |- SZ _ (let '(_, _) := (if ?b then _ else _) in _) => destruct b eqn:? end
   | match goal with |- SZ _ (let '(_, _) := ?y in _) => destruct y as [? ?] eqn:? end
   | match goal with |- SZ _ (match ?y with _ => _ end) => destruct y eqn:? end
   | match goal with |- SZ _ (bindr (match ?y with _ => _ end) _) => destruct y eqn:? end
   | match goal with |- SZ _ (bindr (bindr (match ?y with _ => _ end) _) _) => destruct y eqn:? end
   | match goal with |- SZ _ (bindr (let '(_, _) := ?y in _) _) => destruct y as [? ?] eqn:? end
   | match goal with |- SZ _ (bindr (bindr (let '(_, _) := ?y in _) _) _) => destruct y as [? ?] eqn:? end
   | match goal with |- SZ _ (bindr ?r _) => destruct r as [?|] eqn:?; cbn [bindr] end ].

(* a send at the end: the limit facts, the earlier events and the size check are in the context *)
Ltac sz_send :=
  match goal with
  | |- SZ ?c0 (send_and_post ?c1 ?p ?rel ?pre) =>
      sz_norm;
      (apply send_and_post_SZ;
       [ sz_chain; try reflexivity; try congruence
       | sz_chain; sz_events
       | sz_chain; cbn [fits]; sz_bools ])
  end.

Ltac sz_final :=
  match goal with
  | |- SZ _ (Panic _) => exact I
  | |- SZ _ (Ok _) => sz_leaf
  | |- SZ _ (send_and_post _ _ _ _) => sz_send
  end.

Ltac sz_auto := repeat sz_step; sz_final.

Lemma send_plain_SZ c p : SZ c (send_plain c p).
Proof. unfold send_plain. sz_auto. Qed.

Lemma send_connect_SZ c p : SZ c (send_connect c p).
Proof. unfold send_connect, initialize, clear_store_related. sz_auto. Qed.

(* retransmission of the store: what does not fit is dropped, not sent *)
Lemma store_into_size p : k_size (store_into p) = k_size p.
Proof. unfold store_into. destruct (_ =? _); reflexivity. Qed.
Lemma send_stored_events_fit mps l : all_fit mps (send_stored_events mps l) = true.
Proof.
  induction l as [|p t IH]; cbn [send_stored_events all_fit forallb]; [reflexivity|].
  fold (all_fit mps (send_stored_events mps t)). rewrite IH, andb_true_r.
  destruct (mps <? k_size p) eqn:E; cbn [fits]; [reflexivity|]. rewrite store_into_size.
  apply N.ltb_ge in E. apply N.leb_le in E. rewrite E. apply orb_true_r.
Qed.
Lemma send_stored_SZ c : SZ c (send_stored c).
Proof.
  unfold send_stored. destruct (send_stored_l _ _) as [kept dropped]. cbv zeta.
  match goal with |- SZ _ (bindr (release_all ?a ?ids) _) => destruct (release_all a ids) as [a'|] end; cbn [bindr SZ]; [|exact I].
  split; [destruct (c_send_max _); reflexivity|apply send_stored_events_fit].
Qed.

Lemma connack_send_props_sz c p :
  c_mps_send (fst (connack_send_props c p)) = c_mps_send c /\ no_send (snd (connack_send_props c p)) = true.
Proof.
  unfold connack_send_props. destruct (_ && _); [|split; reflexivity].
  repeat match goal with |- context [match ?o with Some _ => _ | None => _ end] => destruct o
                    | |- context [if ?b then _ else _] => destruct b end; split; reflexivity.
Qed.

Ltac sz_step2 :=
  first [ match goal with
          | |- SZ _ (let '(_, _) := connack_send_props ?c ?p in _) =>
              let H := fresh "Hcsp" in pose proof (connack_send_props_sz c p) as H;
              destruct (connack_send_props c p) as [? ?]; cbn [fst snd] in H; destruct H as [? ?]
          | |- context [send_stored ?c] =>
              let H := fresh "Hss" in pose proof (send_stored_SZ c) as H; destruct (send_stored c) as [[? ?]|]; cbn [SZ] in H;
              [destruct H as [? ?]|]
          end
        | sz_step ].
Ltac sz_auto2 := repeat sz_step2; sz_final.

Lemma send_connack_SZ c p : SZ c (send_connack c p).
Proof. unfold send_connack. sz_auto2. Qed.
Lemma refuse_publish_SZ c id err pre : all_fit (c_mps_send c) pre = true -> SZ c (refuse_publish c id err pre).
Proof. intro Hp. unfold refuse_publish. sz_auto2. Qed.
Lemma send_publish_v311_SZ c p : version_eqb (k_ver p) V50 = false -> SZ c (send_publish_v311 c p).
Proof. intro Hv. unfold send_publish_v311. sz_auto2. Qed.
Lemma send_pubrel_SZ c p : SZ c (send_pubrel c p).
Proof. unfold send_pubrel. sz_auto2. Qed.
Lemma send_sub_unsub_SZ c p : SZ c (send_sub_unsub c p).
Proof. unfold send_sub_unsub. sz_auto2. Qed.
Lemma send_pingreq_SZ c p : SZ c (send_pingreq c p).
Proof. unfold send_pingreq. sz_auto2. Qed.
Lemma send_disconnect_SZ c p : SZ c (send_disconnect c p).
Proof. unfold send_disconnect. sz_auto2. Qed.
Lemma send_auth_SZ c p : SZ c (send_auth c p).
Proof. unfold send_auth. sz_auto2. Qed.
Lemma send_puback_like_SZ c p : SZ c (send_puback_like c p).
Proof. unfold send_puback_like. sz_auto2. Qed.

Ltac sz_brute_step :=
  first
   [ progress cbn [bindr]
   | sz_helper
   | match goal with |- context [refuse_publish ?c ?id ?err ?pre] =>
       let H := fresh "Hrp" in
       assert (H : SZ c (refuse_publish c id err pre)) by (apply refuse_publish_SZ; sz_norm; sz_chain; sz_events);
       destruct (refuse_publish c id err pre) as [[? ?]|]; cbn [SZ] in H; [destruct H as [? ?]|] end
   | match goal with |- context [tas_insert ?s ?t ?a] => destruct (tas_insert s t a) as [?|] end
   | match goal with |- context [tas_lru ?s] => destruct (tas_lru s) as [?|] end
   | sz_step ].

(* send_publish_v5 in three parts (id bookkeeping and storing; alias handling; the send), so that the
   case analyses add up instead of multiplying *)
Definition SZ5 (c : conn) (r : res (conn * option N * bool * bool * evs)) : Prop :=
  match r with
  | Ok (c1, _, _, _, e) => c_mps_send c1 = c_mps_send c /\ all_fit (c_mps_send c) e = true
  | Panic _ => True
  end.
Definition SZ4 (c : conn) (r : res (conn * pkt * bool * evs)) : Prop :=
  match r with
  | Ok (c1, q, _, e) => c_mps_send c1 = c_mps_send c /\ all_fit (c_mps_send c) e = true /\ fits (c_mps_send c) (ESend q None) = true
  | Panic _ => True
  end.

Ltac sz_gstep :=
  first
   [ progress cbn [bindr]
   | sz_helper
   | match goal with |- context [refuse_publish ?c ?id ?err ?pre] =>
       let H := fresh "Hrp" in
       assert (H : SZ c (refuse_publish c id err pre)) by (apply refuse_publish_SZ; sz_norm; sz_chain; sz_events);
       destruct (refuse_publish c id err pre) as [[? ?]|]; cbn [SZ] in H; [destruct H as [? ?]|] end
   | match goal with |- context [tas_insert ?s ?t ?a] => destruct (tas_insert s t a) as [?|] end
   | match goal with |- context [tas_lru ?s] => destruct (tas_lru s) as [?|] end
   | match goal with |- ?f ?a (Panic _) => exact I end
   | match goal with |- ?f ?a (if ?b then _ else _) => destruct b eqn:? end
   | match goal with |- ?f ?a (bindr (if ?b then _ else _) _) => destruct b eqn:? end
   | match goal with |- ?f ?a (bindr (bindr (if ?b then _ else _) _) _) => destruct b eqn:? end
   | match goal with |- ?f ?a (let '(_, _) := (_, _) in _) => cbv beta iota end
   | match goal with |- ?f ?a (let '(_, _) := ?y in _) => destruct y as [? ?] eqn:? end
   | match goal with |- ?f ?a (match ?y with _ => _ end) => destruct y eqn:? end
   | match goal with |- ?f ?a (bindr (match ?y with _ => _ end) _) => destruct y eqn:? end
   | match goal with |- ?f ?a (bindr (bindr (match ?y with _ => _ end) _) _) => destruct y eqn:? end
   | match goal with |- ?f ?a (bindr (let '(_, _) := ?y in _) _) => destruct y as [? ?] eqn:? end
   | match goal with |- ?f ?a (bindr (bindr (let '(_, _) := ?y in _) _) _) => destruct y as [? ?] eqn:? end
   | match goal with |- ?f ?a (bindr ?r _) => destruct r as [?|] eqn:?; cbn [bindr] end ].

Ltac sz5_final :=
  match goal with
  | |- SZ5 _ (Panic _) => exact I
  | |- SZ5 _ (Ok _) => cbn [SZ5]; sz_norm; sz_chain; (split; [try reflexivity; try congruence|sz_events])
  end.
Ltac sz4_final :=
  match goal with
  | |- SZ4 _ (Panic _) => exact I
  | |- SZ4 _ (Ok _) =>
      cbn [SZ4]; sz_norm; sz_chain;
      (split; [try reflexivity; try congruence|split; [sz_events|cbn [fits]; sz_bools]])
  end.

Lemma send_publish_v5_SZ g c p : SZ c (send_publish_v5 g c p).
Proof.
  unfold send_publish_v5. cbv zeta.
  destruct (negb (size_ok c p)) eqn:Hsz; [sz_auto|].
  match goal with |- SZ c (bindr ?P1 _) =>
    assert (H1 : SZ5 c P1) by (repeat sz_gstep; sz5_final);
    destruct P1 as [[[[[c1 rel] val] stop] e1]|]; cbn [bindr]; [|exact I] end.
  cbn [SZ5] in H1. destruct H1 as [M1 F1].
  destruct stop; [cbn [SZ]; split; assumption|].
  match goal with |- SZ c (if ?b then _ else _) => destruct b end.
  { apply (SZ_trans c c1); [exact M1|]. apply refuse_publish_SZ. now rewrite M1. }
  match goal with |- SZ c (bindr ?P2 _) =>
    assert (H2 : SZ4 c1 P2) by (repeat sz_gstep; sz4_final);
    destruct P2 as [[[[c2 q] stop2] e2]|]; cbn [bindr]; [|exact I] end.
  cbn [SZ4] in H2. rewrite M1 in H2. destruct H2 as (M2 & F2 & Fq).
  destruct stop2; [cbn [SZ]; split; [exact M2|now rewrite all_fit_app, F1, F2]|].
  match goal with |- SZ c (if ?b then _ else _) => destruct b end.
  - apply send_and_post_SZ; [destruct (_ && _); conn_simpl; exact M2|now rewrite all_fit_app, F1, F2|exact Fq].
  - cbn [SZ]. split; [destruct (_ && _); conn_simpl; exact M2|now rewrite all_fit_app, F1, F2].
Qed.

Lemma dispatch_send_SZ g c p : SZ c (dispatch_send g c p).
Proof.
  unfold dispatch_send. cbv zeta.
  destruct (k_type p =? T_CONNECT); [apply send_connect_SZ|].
  destruct (k_type p =? T_CONNACK); [apply send_connack_SZ|].
  destruct (k_type p =? T_PUBLISH); [destruct (version_eqb _ _) eqn:Ev; [apply send_publish_v5_SZ|now apply send_publish_v311_SZ]|].
  destruct ((k_type p =? T_PUBACK) || (k_type p =? T_PUBREC) || (k_type p =? T_PUBCOMP)); [apply send_puback_like_SZ|].
  destruct (k_type p =? T_PUBREL); [apply send_pubrel_SZ|].
  destruct ((k_type p =? T_SUBSCRIBE) || (k_type p =? T_UNSUBSCRIBE)); [apply send_sub_unsub_SZ|].
  destruct ((k_type p =? T_SUBACK) || (k_type p =? T_UNSUBACK) || (k_type p =? T_PINGRESP)); [apply send_plain_SZ|].
  destruct (k_type p =? T_PINGREQ); [apply send_pingreq_SZ|].
  destruct (k_type p =? T_DISCONNECT); [apply send_disconnect_SZ|].
  destruct (k_type p =? T_AUTH); [apply send_auth_SZ|]. cbn [SZ]. split; reflexivity.
Qed.

Lemma do_send_SZ g c p : SZ c (do_send g c p).
Proof.
  unfold do_send. cbv zeta.
  repeat match goal with |- SZ _ (if ?b then _ else _) => destruct b end;
    first [ apply dispatch_send_SZ | (cbn [SZ]; split; reflexivity) ].
Qed.

Lemma close_with_disconnect_SZ c p : SZ c (close_with_disconnect c p).
Proof. unfold close_with_disconnect. destruct (_ && _); [sz_auto|apply send_disconnect_SZ]. Qed.
Lemma handle_v5_error_SZ c e : SZ c (handle_v5_error c e).
Proof.
  unfold handle_v5_error. pose proof (close_with_disconnect_SZ c (disconnect_v5 (disc_rc_of_err e))) as H.
  destruct (close_with_disconnect _ _) as [[c' ev]|]; cbn [bindr SZ] in *; [|exact I].
  destruct H as [H1 H2]. split; [exact H1|]. rewrite all_fit_app, H2. reflexivity.
Qed.
Lemma handle_error_SZ c v e : SZ c (handle_error c v e).
Proof. unfold handle_error. destruct (version_eqb v V50); [apply handle_v5_error_SZ|cbn [SZ]; split; reflexivity]. Qed.

(* ---------- receive side ---------- *)
Lemma note_inbound_mps c p : c_mps_send (note_inbound c p) = c_mps_send c.
Proof. unfold note_inbound. destruct (negb _); reflexivity. Qed.
Lemma note_handled_mps c p : c_mps_send (note_handled c p) = c_mps_send c.
Proof. unfold note_handled. destruct (_ =? _); reflexivity. Qed.
Lemma store_erase_mps c v t id : c_mps_send (store_erase c v t id) = c_mps_send c.
Proof. unfold store_erase. reflexivity. Qed.

Ltac sz_known :=
  match goal with
  | |- context [handle_v5_error ?c ?e] =>
      let H := fresh "Hk" in pose proof (handle_v5_error_SZ c e) as H; destruct (handle_v5_error c e) as [[? ?]|]; cbn [SZ] in H; [destruct H as [? ?]|]
  | |- context [handle_error ?c ?v ?e] =>
      let H := fresh "Hk" in pose proof (handle_error_SZ c v e) as H; destruct (handle_error c v e) as [[? ?]|]; cbn [SZ] in H; [destruct H as [? ?]|]
  | |- context [send_puback_like ?c ?p] =>
      let H := fresh "Hk" in pose proof (send_puback_like_SZ c p) as H; destruct (send_puback_like c p) as [[? ?]|]; cbn [SZ] in H; [destruct H as [? ?]|]
  | |- context [send_pubrel ?c ?p] =>
      let H := fresh "Hk" in pose proof (send_pubrel_SZ c p) as H; destruct (send_pubrel c p) as [[? ?]|]; cbn [SZ] in H; [destruct H as [? ?]|]
  | |- context [send_plain ?c ?p] =>
      let H := fresh "Hk" in pose proof (send_plain_SZ c p) as H; destruct (send_plain c p) as [[? ?]|]; cbn [SZ] in H; [destruct H as [? ?]|]
  | |- context [send_connack ?c ?p] =>
      let H := fresh "Hk" in pose proof (send_connack_SZ c p) as H; destruct (send_connack c p) as [[? ?]|]; cbn [SZ] in H; [destruct H as [? ?]|]
  | |- context [close_with_disconnect ?c ?p] =>
      let H := fresh "Hk" in pose proof (close_with_disconnect_SZ c p) as H; destruct (close_with_disconnect c p) as [[? ?]|]; cbn [SZ] in H; [destruct H as [? ?]|]
  | |- context [tar_insert ?r ?t ?a] => destruct (tar_insert r t a) as [?|]
  end.

Ltac sz_frames := rewrite ?note_inbound_mps, ?note_handled_mps, ?store_erase_mps in *.

Ltac sz_leaf3 :=
  cbn [SZ]; sz_norm; sz_frames; sz_chain; sz_frames; sz_chain; (split; [try reflexivity; try congruence|sz_events]).
Ltac sz_final3 :=
  match goal with
  | |- SZ _ (Panic _) => exact I
  | |- SZ _ (Ok _) => sz_leaf3
  end.
Ltac sz_auto3 := cbv zeta; repeat first [sz_known | sz_step2]; sz_final3.

Lemma recv_publish_v311_SZ g c pr : SZ c (recv_publish_v311 g c pr).
Proof. unfold recv_publish_v311, handle_v311_error. destruct pr as [p|e]; sz_auto3. Qed.
Lemma resolve_recv_alias_SZ g c p :
  match resolve_recv_alias g c p with
  | Ok (c', _, _, e) => c_mps_send c' = c_mps_send c /\ all_fit (c_mps_send c) e = true
  | Panic _ => True end.
Proof.
  unfold resolve_recv_alias.
  repeat first
    [ sz_known | progress cbn [bindr]
    | match goal with |- context [if ?b then _ else _] => destruct b eqn:? end
    | match goal with |- context [match ?o with Some _ => _ | None => _ end] => destruct o eqn:? end ];
  try exact I; sz_chain; (split; [try reflexivity; try congruence|sz_events]).
Qed.
Lemma recv_publish_v5_SZ g c pr : SZ c (recv_publish_v5 g c pr).
Proof.
  unfold recv_publish_v5. destruct pr as [p|e]; [|sz_auto3]. cbv zeta.
  destruct (_ && _); [apply handle_v5_error_SZ|].
  pose proof (resolve_recv_alias_SZ g (note_inbound c p) p) as Hr.
  destruct (resolve_recv_alias g (note_inbound c p) p) as [[[[c1 q] st] e0]|]; cbn [bindr]; [|exact I].
  destruct Hr as [Hr1 Hr2]. rewrite note_inbound_mps in Hr1, Hr2.
  destruct st; [cbn [SZ]; split; assumption|].
  sz_auto3.
Qed.
Lemma recv_ack_SZ g c v t pr : SZ c (recv_ack g c v t pr).
Proof. unfold recv_ack. destruct pr as [p|e]; [|apply handle_error_SZ]. sz_auto3. Qed.
Lemma recv_pubrel_SZ g c v pr : SZ c (recv_pubrel g c v pr).
Proof. unfold recv_pubrel. destruct pr as [p|e]; [|apply handle_error_SZ]. sz_auto3. Qed.
Lemma recv_notify_SZ c v pr : SZ c (recv_notify c v pr).
Proof. unfold recv_notify. destruct pr as [p|e]; [|apply handle_error_SZ]. sz_auto3. Qed.
Lemma recv_pingreq_SZ g c v pr : SZ c (recv_pingreq g c v pr).
Proof. unfold recv_pingreq. destruct pr as [p|e]; [|apply handle_error_SZ]. sz_auto3. Qed.
Lemma recv_pingresp_SZ c v pr : SZ c (recv_pingresp c v pr).
Proof. unfold recv_pingresp. destruct pr as [p|e]; [|apply handle_error_SZ]. sz_auto3. Qed.
Lemma recv_disconnect_SZ c v pr : SZ c (recv_disconnect c v pr).
Proof. unfold recv_disconnect. destruct pr as [p|e]; [|apply handle_error_SZ]. sz_auto3. Qed.

(* ---------- the calls that change the limit: the events fit the limit in force afterwards ---------- *)
Definition SZP (r : res (conn * list event)) : Prop :=
  match r with Ok (c', e) => all_fit (c_mps_send c') e = true | Panic _ => True end.
Lemma SZ_SZP c r : SZ c r -> SZP r.
Proof. destruct r as [[c' e]|]; cbn [SZ SZP]; [|trivial]. intros [H1 H2]. now rewrite H1. Qed.

Lemma recv_connect_SZP g c v pr : SZP (recv_connect g c v pr).
Proof.
  unfold recv_connect. destruct (negb _); [eapply SZ_SZP; apply handle_error_SZ|].
  destruct pr as [p|e].
  - destruct (connect_recv_state _ v p) as [c1|]; cbn [bindr]; [|exact I].
    pose proof (refresh_sz c1) as [H1 H2]. destruct (refresh_pingreq_recv c1) as [c2 e2]. cbn [fst snd SZP] in *.
    rewrite all_fit_app, (no_send_fit _ _ H2). reflexivity.
  - apply (SZ_SZP (set_status c Connecting)). sz_auto3.
Qed.

Lemma resume_or_clear_SZ c b : SZ c (resume_or_clear c b).
Proof. unfold resume_or_clear, clear_store_related. sz_auto3. Qed.

Lemma connack_recv_ska_sz c p :
  c_mps_send (fst (connack_recv_ska c p)) = c_mps_send c /\ no_send (snd (connack_recv_ska c p)) = true.
Proof.
  unfold connack_recv_ska.
  repeat match goal with
         | |- context [if ?b then _ else _] => destruct b
         | |- context [match ?o with Some _ => _ | None => _ end] => destruct o
         end; split; reflexivity.
Qed.
Lemma connack_recv_sei_mps c p : c_mps_send (connack_recv_sei c p) = c_mps_send c.
Proof. unfold connack_recv_sei, clear_store_related. destruct (k_sei p); [destruct (_ =? _)|]; reflexivity. Qed.

Lemma recv_connack_SZP c v pr : SZP (recv_connack c v pr).
Proof.
  unfold recv_connack. destruct (status_eqb (c_status c) Connected) eqn:Es; [eapply SZ_SZP; apply handle_error_SZ|].
  destruct pr as [p|e].
  2:{ destruct (version_eqb v V50); reflexivity. }
  destruct (k_rc p =? 0); [|reflexivity].
  destruct (version_eqb v V50).
  - destruct (connack_recv_limits _ p) as [c1|]; cbn [bindr]; [|exact I].
    pose proof (connack_recv_ska_sz c1 p) as [K1 K2]. destruct (connack_recv_ska c1 p) as [c2 e1]. cbn [fst snd] in *.
    pose proof (resume_or_clear_SZ (connack_recv_sei c2 p) (k_flag p)) as H.
    destruct (resume_or_clear _ _) as [[c3 e2]|]; cbn [bindr SZ SZP] in *; [|exact I].
    destruct H as [H1 H2]. rewrite H1. rewrite !all_fit_app, H2, (no_send_fit _ _ K2). reflexivity.
  - pose proof (resume_or_clear_SZ (set_status c Connected) (k_flag p)) as H.
    destruct (resume_or_clear _ _) as [[c3 e2]|]; cbn [bindr SZ SZP] in *; [|exact I].
    destruct H as [H1 H2]. rewrite H1. rewrite !all_fit_app, H2. reflexivity.
Qed.

Lemma dispatch_recv_SZP g c v t pr : SZP (dispatch_recv g c v t pr).
Proof.
  unfold dispatch_recv.
  destruct (t =? 1); [apply recv_connect_SZP|].
  destruct (t =? 2); [apply recv_connack_SZP|].
  apply (SZ_SZP c).
  repeat match goal with |- SZ _ (if ?b then _ else _) => destruct b end;
    first [ apply recv_publish_v5_SZ | apply recv_publish_v311_SZ | apply recv_ack_SZ | apply recv_pubrel_SZ
          | apply recv_notify_SZ | apply recv_pingreq_SZ | apply recv_pingresp_SZ | apply recv_disconnect_SZ
          | (cbn [SZ]; split; reflexivity) ].
Qed.

Lemma process_recv_packet_SZP g c fh body pr : SZP (process_recv_packet g c fh body pr).
Proof.
  unfold process_recv_packet. cbv zeta.
  destruct (_ <? _).
  { apply (SZ_SZP c). sz_auto3. }
  destruct (negb _); [reflexivity|].
  destruct (c_version c); try apply dispatch_recv_SZP.
  repeat match goal with |- SZP (if ?b then _ else _) => destruct b end; first [apply recv_connect_SZP|reflexivity].
Qed.

(* ---------- every call ---------- *)
Definition events_of (r : res (conn * list event * list N)) : res (conn * list event) :=
  match r with Ok (c, e, _) => Ok (c, e) | Panic x => Panic x end.

Lemma do_recv_SZP g c bytes pr : SZP (events_of (do_recv g c bytes pr)).
Proof.
  unfold do_recv. destruct (feed (c_pb c) bytes) as [[r pb'] rest]. destruct r.
  - pose proof (process_recv_packet_SZP g (set_pb c pb') (hd 0 hdr) body pr) as H.
    destruct (process_recv_packet _ _ _ _ _) as [[c1 e1]|]; cbn [bindr events_of SZP] in *; [exact H|exact I].
  - reflexivity.
  - pose proof (cancel_sz (set_pb c pb')) as [H1 H2]. destruct (cancel_timers _) as [c1 e1]. cbn [fst snd events_of SZP] in *.
    rewrite all_fit_app, (no_send_fit _ _ H2). reflexivity.
Qed.

Lemma do_timer_SZ c k : SZ c (do_timer c k).
Proof.
  unfold do_timer. destruct k; cbv zeta.
  - destruct (status_eqb _ _); [|cbn [SZ]; split; reflexivity].
    destruct (c_version _); try exact I;
      (eapply SZ_trans; [|apply send_pingreq_SZ]); reflexivity.
  - destruct (c_version _); try exact I; [cbn [SZ]; split; reflexivity|].
    destruct (status_eqb _ _); [|cbn [SZ]; split; reflexivity].
    (eapply SZ_trans; [|apply close_with_disconnect_SZ]); reflexivity.
  - destruct (c_version _); try exact I; [cbn [SZ]; split; reflexivity|].
    destruct (status_eqb _ _); [|cbn [SZ]; split; reflexivity].
    (eapply SZ_trans; [|apply close_with_disconnect_SZ]); reflexivity.
Qed.

Lemma no_send_app a b : no_send (a ++ b) = no_send a && no_send b.
Proof. apply forallb_app. Qed.
Lemma drain_release_no_send ids : forall a a' e, drain_release a ids = Ok (a', e) -> no_send e = true.
Proof.
  induction ids as [|i t IH]; intros a a' e; cbn [drain_release]; [intro H; inversion H; reflexivity|].
  destruct (pm_is_used a i); [|apply IH].
  destruct (pm_release a i) as [a1|]; cbn [bindr]; [|discriminate].
  destruct (drain_release a1 t) as [[a2 e2]|] eqn:E; cbn [bindr]; [|discriminate].
  intro H; inversion H; subst. cbn [no_send forallb is_send negb andb]. exact (IH _ _ _ E).
Qed.

Lemma do_closed_SZP c : SZP (do_closed c).
Proof.
  unfold do_closed. cbv zeta.
  repeat match goal with
         | |- SZP (bindr (drain_release ?a ?ids) _) =>
             let E := fresh "Ed" in destruct (drain_release a ids) as [[? ?]|] eqn:E; cbn [bindr]; [apply drain_release_no_send in E|exact I]
         | |- SZP (bindr (if ?b then _ else _) _) => destruct b; cbn [bindr]
         | |- SZP (bindr (bindr (drain_release ?a ?ids) _) _) =>
             let E := fresh "Ed" in destruct (drain_release a ids) as [[? ?]|] eqn:E; cbn [bindr]; [apply drain_release_no_send in E|exact I]
         end.
  all: match goal with |- context [cancel_timers ?cc] => pose proof (cancel_sz cc) as [_ Hc]; destruct (cancel_timers cc) as [c9 e9] end.
  all: cbn [snd SZP] in *; apply no_send_fit; rewrite ?no_send_app;
    repeat match goal with H : no_send ?e = true |- _ => rewrite H; clear H end; reflexivity.
Qed.

Lemma do_set_pingreq_interval_SZ c o : SZ c (do_set_pingreq_interval c o).
Proof. unfold do_set_pingreq_interval. sz_auto3. Qed.
Lemma do_erase_SZ c id : SZ c (do_erase c id).
Proof. unfold do_erase. sz_auto3. Qed.
Lemma release_if_used_SZ c id : SZ c (release_if_used c id).
Proof.
  destruct (release_if_used c id) as [[c' e]|] eqn:E; [|exact I]. apply release_sz in E as [H1 H2].
  cbn [SZ]. split; [exact H1|now apply no_send_fit].
Qed.

(* EVERY call of the API, in every state, for every input: every v5.0 packet the call requests for
   sending fits the Maximum Packet Size in force when the call returns (the limit changes only when
   a CONNECT or CONNACK is received — then the new limit governs, in particular the retransmission
   of the store — and when the transport is reported closed, which sends nothing) *)
Theorem step_sends_fit g c o :
  match step g c o with
  | Ok (c', evs, _) => all_fit (c_mps_send c') evs = true
  | Panic _ => True
  end.
Proof.
  destruct o; cbn [step].
  - pose proof (SZ_SZP c _ (do_send_SZ g c p)) as H. destruct (do_send g c p) as [[c' e]|]; cbn [bindr SZP] in *; [exact H|exact I].
  - pose proof (do_recv_SZP g c bytes pr) as H. destruct (do_recv g c bytes pr) as [[[c' e] r]|]; cbn [bindr events_of SZP] in *; [exact H|exact I].
  - pose proof (SZ_SZP c _ (do_timer_SZ c k)) as H. destruct (do_timer c k) as [[c' e]|]; cbn [bindr SZP] in *; [exact H|exact I].
  - pose proof (do_closed_SZP c) as H. destruct (do_closed c) as [[c' e]|]; cbn [bindr SZP] in *; [exact H|exact I].
  - pose proof (SZ_SZP c _ (do_set_pingreq_interval_SZ c o)) as H. destruct (do_set_pingreq_interval c o) as [[c' e]|]; cbn [bindr SZP] in *; [exact H|exact I].
  - reflexivity.
  - reflexivity.
  - reflexivity.
  - reflexivity.
  - reflexivity.
  - reflexivity.
  - destruct (pm_acquire (c_pid c)) as [[r a]|]; cbn [bindr]; [reflexivity|exact I].
  - destruct (pm_register (c_pid c) id) as [b a]. reflexivity.
  - pose proof (SZ_SZP c _ (release_if_used_SZ c id)) as H. destruct (release_if_used c id) as [[c' e]|]; cbn [bindr SZP] in *; [exact H|exact I].
  - pose proof (SZ_SZP c _ (do_erase_SZ c id)) as H. destruct (do_erase c id) as [[c' e]|]; cbn [bindr SZP] in *; [exact H|exact I].
  - reflexivity.
  - reflexivity.
  - reflexivity.
Qed.

(* over histories: every packet requested by any call of any history fits the limit in force after that call *)
Fixpoint history_fits (g : cfg) (c : conn) (ops : list op) : Prop :=
  match ops with
  | [] => True
  | o :: t => match step g c o with
              | Ok (c', evs, _) => all_fit (c_mps_send c') evs = true /\ history_fits g c' t
              | Panic _ => True
              end
  end.
Theorem every_history_fits g : forall ops c, history_fits g c ops.
Proof.
  induction ops as [|o t IH]; intro c; cbn [history_fits]; [exact I|].
  pose proof (step_sends_fit g c o) as H. destruct (step g c o) as [[[c' e] r]|]; [|exact I]. split; [exact H|apply IH].
Qed.
