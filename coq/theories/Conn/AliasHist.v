(* C13, send side, over histories: the cover [agree] of AliasInv.v and the shape of the store are kept
   by EVERY call of the model, and no call other than send(v5.0 PUBLISH) requests an aliased PUBLISH:
   retransmissions carry the full topic and no alias. *)
From MQ Require Import Base.Prelude Alloc.Alloc Alloc.SetSpec Alloc.AllocProofs Framing.Framing
                       Conn.Types Conn.TopicAlias Conn.ConnRecord Conn.Step Conn.Run Corr.ConnTrace Conn.Scope
                       Conn.AliasTable Conn.AliasInv.

(* a packet a receiver resolves without any table: not a v5.0 PUBLISH, or one with a topic and no alias *)
Definition plain_pkt (q : pkt) : bool :=
  match k_alias q with None => true | Some _ => false end
  && (negb (is_v5_pub q) || negb (match k_topic q with [] => true | _ => false end)).
Definition plain_ev (e : event) : bool := match e with ESend q _ => plain_pkt q | _ => true end.
Definition plain_events (l : list event) : bool := forallb plain_ev l.
Definition store_ok (c : conn) : bool := forallb plain_pkt (c_store c).

Lemma plain_app a b : plain_events (a ++ b) = plain_events a && plain_events b.
Proof. apply forallb_app. Qed.

(* the relation kept by the calls that neither create nor consult the send-side table *)
Definition RR (c c' : conn) : Prop :=
  (forall G, agree c G -> agree c' G) /\ (store_ok c = true -> store_ok c' = true).
Lemma rr_refl c : RR c c. Proof. split; auto. Qed.
Lemma rr_trans a b c : RR a b -> RR b c -> RR a c. Proof. intros [A1 A2] [B1 B2]. split; auto. Qed.
Lemma rr_frame a b : c_ta_send b = c_ta_send a -> c_store b = c_store a -> RR a b.
Proof. intros H1 H2. split; [intros G; now apply agree_frame|unfold store_ok; now rewrite H2]. Qed.

Definition TA (c : conn) (r : res (conn * list event)) : Prop :=
  match r with
  | Ok (c', e) => RR c c' /\ plain_events e = true
  | Panic _ => True
  end.
Lemma TA_trans c c1 r : RR c c1 -> TA c1 r -> TA c r.
Proof. destruct r as [[c' e]|]; cbn [TA]; [|trivial]. intros H [H1 H2]. split; [now apply (rr_trans _ c1)|exact H2]. Qed.

(* ---- helpers ---- *)
Definition no_send (l : list event) : bool := forallb (fun e => match e with ESend _ _ => false | _ => true end) l.
Lemma no_send_plain l : no_send l = true -> plain_events l = true.
Proof.
  unfold no_send, plain_events. induction l as [|e t IH]; cbn [forallb]; [reflexivity|].
  intro H. apply andb_true_iff in H as [H1 H2]. rewrite (IH H2), andb_true_r. destruct e; try reflexivity. discriminate.
Qed.

Lemma post_ta c : RR c (fst (send_post_process c)) /\ no_send (snd (send_post_process c)) = true.
Proof. unfold send_post_process. destruct (c_is_client c); [destruct (0 <? _)|]; (split; [apply rr_frame; reflexivity|reflexivity]). Qed.
Lemma cancel_ta c : RR c (fst (cancel_timers c)) /\ no_send (snd (cancel_timers c)) = true.
Proof.
  split; [rewrite cancel_timers_state; apply rr_frame; reflexivity|].
  unfold cancel_timers. destruct (c_t_send c); cbv beta iota zeta; conn_simpl.
  all: match goal with |- context [if ?b then _ else _] => destruct b end; cbv beta iota zeta; conn_simpl.
  all: match goal with |- context [if ?b then _ else _] => destruct b end; reflexivity.
Qed.
Lemma refresh_ta c : RR c (fst (refresh_pingreq_recv c)) /\ no_send (snd (refresh_pingreq_recv c)) = true.
Proof. unfold refresh_pingreq_recv. destruct (negb _); (split; [apply rr_frame; reflexivity|reflexivity]). Qed.
Lemma release_ta c id c' e : release_if_used c id = Ok (c', e) -> RR c c' /\ no_send e = true.
Proof.
  unfold release_if_used. destruct (is_used c id); [|intro H; inversion H; split; [apply rr_refl|reflexivity]].
  destruct (pm_release _ _); cbn [bindr]; [|discriminate]. intro H; inversion H; split; [apply rr_frame; reflexivity|reflexivity].
Qed.
Lemma store_add_ta c q c' : plain_pkt q = true -> store_add c q = Ok c' -> RR c c'.
Proof.
  intro Hq. unfold store_add. destruct (store_has _ _); [discriminate|]. intro H; inversion H; subst. split.
  - intros G. now apply agree_frame.
  - unfold store_ok. conn_simpl. intro Hs. rewrite forallb_app, Hs. cbn [forallb]. now rewrite Hq.
Qed.
Lemma store_ok_sub c l : store_ok c = true -> (forall q, In q l -> In q (c_store c)) -> forallb plain_pkt l = true.
Proof. unfold store_ok. intros Hs Hin. apply forallb_forall. intros q Hq. rewrite forallb_forall in Hs. now apply Hs, Hin. Qed.

Lemma erase_l_sub v t id l : forall q, In q (store_erase_l v t id l) -> In q l.
Proof.
  induction l as [|p r IH]; cbn [store_erase_l]; [tauto|]. intro q.
  destruct (k_pid p =? id); [destruct (_ && _); [now right|tauto]|]. cbn [In]. intros [H|H]; [now left|right; now apply IH].
Qed.
Lemma erase_publish_l_sub id l : forall q, In q (snd (store_erase_publish_l id l)) -> In q l.
Proof.
  induction l as [|p r IH]; cbn [store_erase_publish_l]; [tauto|]. intro q.
  destruct (k_pid p =? id); [destruct (_ =? T_PUBLISH); cbn [snd]; [now right|tauto]|].
  destruct (store_erase_publish_l id r) as [b r']. cbn [snd In] in *. intros [H|H]; [now left|right; now apply IH].
Qed.
Lemma rr_store_sub c c' : c_ta_send c' = c_ta_send c -> (forall q, In q (c_store c') -> In q (c_store c)) -> RR c c'.
Proof. intros H1 H2. split; [intros G; now apply agree_frame|intro Hs; now apply (store_ok_sub c)]. Qed.

Lemma send_and_post_TA c0 c p rel pre :
  RR c0 c -> plain_events pre = true -> plain_pkt p = true -> TA c0 (send_and_post c p rel pre).
Proof.
  intros Hr Hp Hq. unfold send_and_post. pose proof (post_ta c) as [P1 P2]. destruct (send_post_process c) as [c' e].
  cbn [fst snd TA] in *. split; [now apply (rr_trans _ c)|]. rewrite !plain_app, Hp, (no_send_plain _ P2). cbn [plain_events forallb plain_ev]. now rewrite Hq.
Qed.

(* ---- automation (head position) ---- *)
Ltac rr_norm :=
  repeat match goal with
         | |- context [if ?b then _ else _] => destruct b eqn:?
         | |- context [match ?o with Some _ => _ | None => _ end] => destruct o eqn:?
         | H : RR _ (if ?b then _ else _) |- _ => destruct b eqn:?
         | H : RR (if ?b then _ else _) _ |- _ => destruct b eqn:?
         | H : RR _ (match ?o with Some _ => _ | None => _ end) |- _ => destruct o eqn:?
         | H : RR (match ?o with Some _ => _ | None => _ end) _ |- _ => destruct o eqn:?
         end.

(* RR a z from the recorded facts: follow the chain from a; the last link is a frame *)
Ltac rr_solve :=
  first [ assumption | apply rr_refl
        | (apply rr_frame; reflexivity)
        | match goal with H : RR ?a ?b |- RR ?a ?z => apply (rr_trans a b z); [exact H|]; clear H; rr_solve end ].

Ltac ta_events :=
  rewrite ?plain_app;
  repeat match goal with
         | H : no_send ?e = true |- context [plain_events ?e] => rewrite (no_send_plain e H)
         | H : plain_events ?e = true |- context [plain_events ?e] => rewrite H
         end;
  cbn [plain_events forallb plain_ev andb too_large not_allowed];
  repeat match goal with H : plain_pkt ?q = true |- context [plain_pkt ?q] => rewrite H end;
  try reflexivity.

Ltac ta_leaf := cbn [TA]; rr_norm; (split; [rr_solve|ta_events]).

Ltac th :=
  first
  [ progress cbn [bindr]
  | match goal with
    | |- TA _ (Panic _) => exact I
    | |- TA _ (let '(_, _) := send_post_process ?c in _) =>
        let H := fresh "Hpost" in pose proof (post_ta c) as H; destruct (send_post_process c) as [? ?]; cbn [fst snd] in H; destruct H as [? ?]
    | |- TA _ (let '(_, _) := cancel_timers ?c in _) =>
        let H := fresh "Hcan" in pose proof (cancel_ta c) as H; destruct (cancel_timers c) as [? ?]; cbn [fst snd] in H; destruct H as [? ?]
    | |- TA _ (let '(_, _) := refresh_pingreq_recv ?c in _) =>
        let H := fresh "Href" in pose proof (refresh_ta c) as H; destruct (refresh_pingreq_recv c) as [? ?]; cbn [fst snd] in H; destruct H as [? ?]
    | |- TA _ (bindr (release_if_used ?c ?id) _) =>
        let E := fresh "Erel" in destruct (release_if_used c id) as [[? ?]|] eqn:E; [apply release_ta in E; destruct E as [? ?]|]
    | |- TA _ (bindr (bindr (release_if_used ?c ?id) _) _) =>
        let E := fresh "Erel" in destruct (release_if_used c id) as [[? ?]|] eqn:E; [apply release_ta in E; destruct E as [? ?]|]
    | |- TA _ (bindr (pm_release ?a ?i) _) => destruct (pm_release a i) as [?|]
    | |- TA _ (if ?b then _ else _) => destruct b eqn:?
    | |- TA _ (bindr (if ?b then _ else _) _) => destruct b eqn:?
    | |- TA _ (bindr (bindr (if ?b then _ else _) _) _) => destruct b eqn:?
    | |- TA _ (let '(_, _) := (_, _) in _) => cbv beta iota
    | |- TA _ (let '(_, _) := (if ?b then _ else _) in _) => destruct b eqn:?
    end ].

Ltac ta_send :=
  match goal with
  | |- TA ?c0 (send_and_post ?c1 ?p ?rel ?pre) =>
      rr_norm; (apply send_and_post_TA; [rr_solve|ta_events|first [assumption|reflexivity]])
  end.
Ltac ta_final := match goal with |- TA _ (Panic _) => exact I | |- TA _ (Ok _) => ta_leaf | |- TA _ (send_and_post _ _ _ _) => ta_send end.
Ltac ta_auto := cbv zeta; repeat th; ta_final.

Section PlainSends.
Variables (c : conn) (p : pkt).
Hypothesis Hp : plain_pkt p = true.

Lemma send_plain_TA : TA c (send_plain c p).
Proof. unfold send_plain. ta_auto. Qed.
Lemma send_sub_unsub_TA : TA c (send_sub_unsub c p).
Proof. unfold send_sub_unsub. ta_auto. Qed.
Lemma send_auth_TA : TA c (send_auth c p).
Proof. unfold send_auth. ta_auto. Qed.
Lemma send_puback_like_TA : TA c (send_puback_like c p).
Proof. unfold send_puback_like. ta_auto. Qed.
Lemma send_disconnect_TA : TA c (send_disconnect c p).
Proof. unfold send_disconnect. ta_auto. Qed.
Lemma send_pingreq_TA : TA c (send_pingreq c p).
Proof. unfold send_pingreq. ta_auto. Qed.
End PlainSends.

Lemma rr_weak a b :
  (c_ta_send b = c_ta_send a \/ c_ta_send b = None) -> (forall q, In q (c_store b) -> In q (c_store a)) -> RR a b.
Proof.
  intros [H1|H1] H2; [now apply rr_store_sub|]. split; [intros G _; unfold agree; now rewrite H1|intro Hs; now apply (store_ok_sub a)].
Qed.
Lemma plain_set_dup p d : plain_pkt (set_dup p d) = plain_pkt p.
Proof. reflexivity. Qed.
Lemma plain_store_into q : plain_pkt q = true -> plain_pkt (store_into q) = true.
Proof.
  unfold store_into. destruct (k_type q =? T_PUBLISH) eqn:E; [auto|]. unfold plain_pkt, is_v5_pub. cbn [k_type k_alias].
  intro H. apply andb_true_iff in H as [H _]. now rewrite H.
Qed.

Lemma send_pubrel_TA c p : plain_pkt p = true -> TA c (send_pubrel c p).
Proof.
  intro Hp. unfold send_pubrel. destruct (_ && _); [ta_leaf|]. destruct (_ && _); [ta_leaf|]. cbv zeta. destruct (negb _); [ta_leaf|].
  destruct (c_need_store c).
  - destruct (store_add c p) as [c1|] eqn:E; cbn [bindr]; [|exact I]. apply (store_add_ta c p c1 Hp) in E.
    destruct (status_eqb _ _); [apply send_and_post_TA; [eapply rr_trans; [exact E|apply rr_frame; reflexivity]|reflexivity|exact Hp]|].
    cbn [TA]. split; [eapply rr_trans; [exact E|apply rr_frame; reflexivity]|reflexivity].
  - cbn [bindr]. destruct (status_eqb _ _); [apply send_and_post_TA; [apply rr_frame; reflexivity|reflexivity|exact Hp]|].
    cbn [TA]. split; [apply rr_frame; reflexivity|reflexivity].
Qed.

Lemma send_publish_v311_TA c p : plain_pkt p = true -> TA c (send_publish_v311 c p).
Proof.
  intro Hp. unfold send_publish_v311.
  destruct (negb (k_qos p =? 0)).
  2:{ destruct (negb _); [ta_leaf|]. apply send_and_post_TA; [apply rr_refl|reflexivity|exact Hp]. }
  cbv zeta. destruct (_ && _).
  { destruct (release_if_used c (k_pid p)) as [[c1 e]|] eqn:E; cbn [bindr]; [|exact I]. apply release_ta in E as [E1 E2].
    cbn [TA]. split; [exact E1|]. rewrite plain_app, (no_send_plain _ E2). reflexivity. }
  destruct (negb (is_used _ _)); [ta_leaf|].
  destruct (can_store_now c).
  - destruct (store_add c (set_dup p true)) as [c1|] eqn:E; cbn [bindr]; [|exact I].
    apply (store_add_ta c _ c1) in E; [|now rewrite plain_set_dup].
    assert (Hr : RR c (if k_qos p =? 2 then set_pubrec c1 (ins (k_pid p) (c_pubrec c1)) else set_puback c1 (ins (k_pid p) (c_puback c1))))
      by (destruct (_ =? 2); (eapply rr_trans; [exact E|apply rr_frame; reflexivity])).
    destruct (status_eqb _ _); [apply send_and_post_TA; [exact Hr|reflexivity|exact Hp]|cbn [TA]; split; [exact Hr|reflexivity]].
  - cbn [bindr].
    assert (Hr : RR c (if k_qos p =? 2 then set_pubrec c (ins (k_pid p) (c_pubrec c)) else set_puback c (ins (k_pid p) (c_puback c))))
      by (destruct (_ =? 2); apply rr_frame; reflexivity).
    destruct (status_eqb _ _); [apply send_and_post_TA; [exact Hr|reflexivity|exact Hp]|cbn [TA]; split; [exact Hr|reflexivity]].
Qed.

Lemma send_connect_TA c p : plain_pkt p = true -> TA c (send_connect c p).
Proof.
  intro Hp. unfold send_connect. destruct (_ && _); [ta_leaf|]. destruct (negb _); [ta_leaf|]. cbv zeta.
  apply send_and_post_TA; [|reflexivity|exact Hp].
  apply rr_weak.
  - unfold initialize, clear_store_related.
    repeat match goal with |- context [if ?b then _ else _] => destruct b
                      | |- context [match ?o with Some _ => _ | None => _ end] => destruct o end; conn_simpl; now right.
  - unfold initialize, clear_store_related.
    repeat match goal with |- context [if ?b then _ else _] => destruct b
                      | |- context [match ?o with Some _ => _ | None => _ end] => destruct o end; conn_simpl; intros q Hq; first [exact Hq|destruct Hq].
Qed.

(* ---- retransmission: under the shape of the store ---- *)
Lemma send_stored_l_sub mps l : forall q, In q (fst (send_stored_l mps l)) -> In q l.
Proof.
  induction l as [|p t IH]; cbn [send_stored_l]; [tauto|]. destruct (send_stored_l mps t) as [k d]. cbn [fst] in *.
  intro q. destruct (mps <? k_size p); cbn [fst In]; [intro H; right; now apply IH|intros [H|H]; [now left|right; now apply IH]].
Qed.
Lemma send_stored_events_plain mps l : forallb plain_pkt l = true -> plain_events (send_stored_events mps l) = true.
Proof.
  induction l as [|p t IH]; cbn [send_stored_events forallb plain_events]; [reflexivity|].
  intro H. apply andb_true_iff in H as [H1 H2]. fold (plain_events (send_stored_events mps t)). rewrite (IH H2), andb_true_r.
  destruct (mps <? k_size p); cbn [plain_ev]; [reflexivity|now apply plain_store_into].
Qed.
Lemma send_stored_TA c : store_ok c = true -> TA c (send_stored c).
Proof.
  intro Hs. unfold send_stored. pose proof (send_stored_l_sub (c_mps_send c) (c_store c)) as Hsub.
  destruct (send_stored_l _ _) as [kept dropped]. cbv zeta. cbn [fst] in Hsub.
  match goal with |- TA _ (bindr (release_all ?a ?ids) _) => destruct (release_all a ids) as [a'|] end; cbn [bindr TA]; [|exact I].
  split; [|now apply send_stored_events_plain].
  apply rr_store_sub; [destruct (c_send_max _); reflexivity|]. destruct (c_send_max _); conn_simpl; exact Hsub.
Qed.

Lemma connack_send_props_ta c p : RR c (fst (connack_send_props c p)) /\ no_send (snd (connack_send_props c p)) = true.
Proof.
  unfold connack_send_props. destruct (_ && _); [|split; [apply rr_refl|reflexivity]].
  repeat match goal with |- context [match ?o with Some _ => _ | None => _ end] => destruct o
                    | |- context [if ?b then _ else _] => destruct b end; (split; [apply rr_frame; reflexivity|reflexivity]).
Qed.

Lemma send_connack_TA c p : plain_pkt p = true -> store_ok c = true -> TA c (send_connack c p).
Proof.
  intros Hp Hs. unfold send_connack. destruct (_ && _); [ta_leaf|]. destruct (negb _); [ta_leaf|]. cbv zeta.
  pose proof (connack_send_props_ta c p) as [K1 N1]. destruct (connack_send_props c p) as [c1 pre]. cbn [fst snd] in *.
  destruct (negb _).
  - pose proof (cancel_ta (set_status c1 Disconnected)) as [K2 N2]. destruct (cancel_timers _) as [c2 e]. cbn [fst snd TA] in *.
    split; [eapply rr_trans; [exact K1|]; eapply rr_trans; [|exact K2]; apply rr_frame; reflexivity|].
    rewrite !plain_app, (no_send_plain _ N1), (no_send_plain _ N2). cbn [plain_events forallb plain_ev]. now rewrite Hp.
  - assert (Hs1 : store_ok (set_status c1 Connected) = true) by (destruct K1 as [_ K1]; unfold store_ok in *; conn_simpl; now apply K1).
    pose proof (send_stored_TA _ Hs1) as H. destruct (send_stored _) as [[c2 es]|]; cbn [bindr TA] in *; [|exact I]. destruct H as [H1 H2].
    pose proof (post_ta c2) as [P1 P2]. destruct (send_post_process c2) as [c3 e3]. cbn [fst snd] in *.
    split; [eapply rr_trans; [exact K1|]; eapply rr_trans; [|eapply rr_trans; [exact H1|exact P1]]; apply rr_frame; reflexivity|].
    rewrite !plain_app, (no_send_plain _ N1), H2, (no_send_plain _ P2). cbn [plain_events forallb plain_ev]. now rewrite Hp.
Qed.

(* ---- send(v5.0 PUBLISH): the shape of the store ---- *)
Definition so (a b : conn) : Prop := store_ok a = true -> store_ok b = true.
Lemma so_refl a : so a a. Proof. unfold so; auto. Qed.
Lemma so_trans a b c : so a b -> so b c -> so a c. Proof. unfold so; auto. Qed.
Lemma so_frame a b : c_store b = c_store a -> so a b. Proof. unfold so, store_ok. now intros ->. Qed.
Lemma so_sub a b : (forall q, In q (c_store b) -> In q (c_store a)) -> so a b.
Proof. intros H Hs. now apply (store_ok_sub a). Qed.
Definition SO (c : conn) (r : res (conn * list event)) : Prop :=
  match r with Ok (c', _) => so c c' | Panic _ => True end.

Lemma validate_nonempty c a G t c1 : agree c G -> validate_topic_alias c a = (Some t, c1) -> t <> [] /\ c_store c1 = c_store c.
Proof.
  intro Ha. unfold validate_topic_alias. destruct a as [x|]; [|discriminate]. destruct (negb _); [discriminate|].
  unfold agree in Ha. destruct (c_ta_send c) as [s|]; [|discriminate]. destruct Ha as [(Hw & _ & _ & Hu) _].
  destruct (tas_get s x) as [[t0|] s'] eqn:Eg; [|discriminate]. intro H; inversion H; subst.
  destruct (tas_get_spec s x t s' Hw Eg) as (Hl & _). split; [now apply (Hu x t)|reflexivity].
Qed.

Lemma plain_stored_form g p : k_topic p <> [] -> plain_pkt (set_dup (remove_topic_alias g p) true) = true.
Proof. intro H. unfold plain_pkt. cbn. destruct (k_topic p); [congruence|]. now rewrite orb_true_r. Qed.
Lemma plain_stored_form_alias g p t : t <> [] -> plain_pkt (set_dup (remove_topic_alias_add_topic g p t) true) = true.
Proof. intro H. unfold plain_pkt. cbn. destruct t; [congruence|]. now rewrite orb_true_r. Qed.

Lemma refuse_publish_SO c id err pre : SO c (refuse_publish c id err pre).
Proof.
  unfold refuse_publish. destruct (_ && _); [|cbn [SO]; apply so_refl].
  destruct (pm_release _ _); cbn [bindr SO]; [|exact I]. apply so_sub. conn_simpl. apply erase_publish_l_sub.
Qed.

Lemma send_publish_v5_SO g c p G : agree c G -> SO c (send_publish_v5 g c p).
Proof.
  intro Ha. unfold send_publish_v5. cbv zeta.
  destruct (negb (size_ok c p)).
  { destruct (negb _); [|cbn [SO]; apply so_refl].
    destruct (release_if_used c (k_pid p)) as [[c1 e]|] eqn:E; cbn [bindr SO]; [|exact I]. apply release_ta in E as [[_ E1] _]. exact E1. }
  (* part 1 *)
  match goal with |- SO c (bindr ?P1 _) =>
    assert (H1 : match P1 with Ok (c1, _, _, _, _) => so c c1 | Panic _ => True end) end.
  { destruct (negb (k_qos p =? 0)); [|destruct (negb _); apply so_refl].
    destruct (_ && _).
    { destruct (release_if_used c (k_pid p)) as [[c1 e]|] eqn:E; cbn [bindr]; [|exact I]. apply release_ta in E as [[_ E1] _]. exact E1. }
    destruct (negb (is_used _ _)); [apply so_refl|].
    assert (Hfin : forall c0, so c c0 -> so c (if k_qos p =? 2 then set_pubrec c0 (ins (k_pid p) (c_pubrec c0)) else set_puback c0 (ins (k_pid p) (c_puback c0)))).
    { intros c0 H0. destruct (_ =? 2); (eapply so_trans; [exact H0|apply so_frame; reflexivity]). }
    destruct (can_store_now c); [|cbn [bindr]; apply Hfin, so_refl].
    destruct (topic_empty p) eqn:Et.
    - destruct (validate_topic_alias c (k_alias p)) as [topt c1] eqn:Ev. destruct topt as [t|].
      + destruct (validate_nonempty c _ G t c1 Ha Ev) as [Hne Hst].
        destruct (store_add c1 _) as [c2|] eqn:E; cbn [bindr]; [|exact I].
        apply (store_add_ta c1 _ c2 (plain_stored_form_alias g p t Hne)) in E as [_ E].
        apply Hfin. eapply so_trans; [apply so_frame; exact Hst|exact E].
      + assert (Hst : c_store c1 = c_store c).
        { unfold validate_topic_alias in Ev. destruct (k_alias p) as [x|]; [|now inversion Ev]. destruct (negb _); [now inversion Ev|].
          destruct (c_ta_send c) as [s|]; [|now inversion Ev]. destruct (tas_get s x) as [[t0|] s']; inversion Ev; reflexivity. }
        destruct (release_if_used c1 (k_pid p)) as [[c2 e]|] eqn:E; cbn [bindr]; [|exact I]. apply release_ta in E as [[_ E1] _].
        eapply so_trans; [apply so_frame; exact Hst|exact E1].
    - assert (Hne : k_topic p <> []) by (unfold topic_empty in Et; destruct (k_topic p); discriminate).
      destruct (store_add c _) as [c2|] eqn:E; cbn [bindr]; [|exact I].
      apply (store_add_ta c _ c2 (plain_stored_form g p Hne)) in E as [_ E]. now apply Hfin. }
  match goal with |- SO c (bindr ?P1 _) => destruct P1 as [[[[[c1 rel] val] stop] e1]|]; cbn [bindr]; [|exact I] end.
  destruct stop; [exact H1|].
  match goal with |- SO c (if ?b then _ else _) => destruct b end.
  { pose proof (refuse_publish_SO c1 (k_pid p) E_RECEIVE_MAXIMUM_EXCEEDED e1) as H. destruct (refuse_publish _ _ _ _) as [[c2 e]|]; cbn [SO] in *; [|exact I].
    now apply (so_trans _ c1). }
  (* part 2: the store is only touched by a refusal *)
  match goal with |- SO c (bindr ?P2 _) =>
    assert (H2 : match P2 with Ok (c2, _, _, _) => so c1 c2 | Panic _ => True end) end.
  { repeat match goal with
           | |- match (if ?b then _ else _) with _ => _ end => destruct b
           | |- match (match ?o with Some _ => _ | None => _ end) with _ => _ end => destruct o
           | |- match (let '(_, _) := validate_topic_alias ?cc ?a in _) with _ => _ end =>
               let E := fresh "Ev" in destruct (validate_topic_alias cc a) as [? ?] eqn:E;
               assert (c_store c0 = c_store cc) by (unfold validate_topic_alias in E; destruct a as [x|]; [|now inversion E]; destruct (negb _); [now inversion E|];
                 destruct (c_ta_send cc) as [s|]; [|now inversion E]; destruct (tas_get s x) as [[t0|] s']; inversion E; reflexivity)
           | |- match bindr (refuse_publish ?cc ?i ?er ?pr) _ with _ => _ end =>
               let H := fresh "Hrp" in pose proof (refuse_publish_SO cc i er pr) as H; destruct (refuse_publish cc i er pr) as [[? ?]|]; cbn [bindr SO] in *
           | |- match bindr (tas_insert ?s ?t ?a) _ with _ => _ end => destruct (tas_insert s t a) as [?|]; cbn [bindr]
           | |- match bindr (tas_lru ?s) _ with _ => _ end => destruct (tas_lru s) as [?|]; cbn [bindr]
           end; try exact I; try (apply so_frame; reflexivity); try apply so_refl;
      try (eapply so_trans; [apply so_frame; eassumption|assumption]); try assumption; try (apply so_frame; assumption). }
  match goal with |- SO c (bindr ?P2 _) => destruct P2 as [[[[c2 q] stop2] e2]|]; cbn [bindr]; [|exact I] end.
  assert (H12 : so c c2) by (now apply (so_trans _ c1)).
  destruct stop2; [exact H12|].
  match goal with |- SO c (if ?b then _ else _) => destruct b end.
  - unfold send_and_post. match goal with |- context [send_post_process ?cc] => pose proof (post_ta cc) as [[_ P1] _]; destruct (send_post_process cc) as [c4 e] end.
    cbn [fst SO] in *. eapply so_trans; [exact H12|]. eapply so_trans; [|exact P1]. destruct (_ && _); apply so_frame; reflexivity.
  - cbn [SO]. eapply so_trans; [exact H12|]. destruct (_ && _); apply so_frame; reflexivity.
Qed.

(* ---- error handlers and the receive side ---- *)
Lemma close_with_disconnect_TA c p : plain_pkt p = true -> TA c (close_with_disconnect c p).
Proof. intro Hp. unfold close_with_disconnect. destruct (_ && _); [ta_auto|now apply send_disconnect_TA]. Qed.
Lemma handle_v5_error_TA c e : TA c (handle_v5_error c e).
Proof.
  unfold handle_v5_error. pose proof (close_with_disconnect_TA c (disconnect_v5 (disc_rc_of_err e)) eq_refl) as H.
  destruct (close_with_disconnect _ _) as [[c' ev]|]; cbn [bindr TA] in *; [|exact I].
  destruct H as [H1 H2]. split; [exact H1|]. rewrite plain_app, H2. reflexivity.
Qed.
Lemma handle_error_TA c v e : TA c (handle_error c v e).
Proof. unfold handle_error. destruct (version_eqb v V50); [apply handle_v5_error_TA|cbn [TA]; split; [apply rr_refl|reflexivity]]. Qed.

Ltac tcall :=
  match goal with
  | |- TA _ (handle_v5_error ?c ?e) => eapply TA_trans; [|apply handle_v5_error_TA]; rr_norm; rr_solve
  | |- TA _ (handle_error ?c ?v ?e) => eapply TA_trans; [|apply handle_error_TA]; rr_norm; rr_solve
  | |- TA _ (bindr (handle_v5_error ?c ?e) _) =>
      let H := fresh "Hk" in pose proof (handle_v5_error_TA c e) as H; destruct (handle_v5_error c e) as [[? ?]|]; cbn [TA] in H; [destruct H as [? ?]|]
  | |- TA _ (bindr (send_puback_like ?c ?p) _) =>
      let H := fresh "Hk" in assert (H : TA c (send_puback_like c p)) by (apply send_puback_like_TA; reflexivity);
      destruct (send_puback_like c p) as [[? ?]|]; cbn [TA] in H; [destruct H as [? ?]|]
  | |- TA _ (bindr (send_pubrel ?c ?p) _) =>
      let H := fresh "Hk" in assert (H : TA c (send_pubrel c p)) by (apply send_pubrel_TA; reflexivity);
      destruct (send_pubrel c p) as [[? ?]|]; cbn [TA] in H; [destruct H as [? ?]|]
  | |- TA _ (bindr (send_plain ?c ?p) _) =>
      let H := fresh "Hk" in assert (H : TA c (send_plain c p)) by (apply send_plain_TA; reflexivity);
      destruct (send_plain c p) as [[? ?]|]; cbn [TA] in H; [destruct H as [? ?]|]
  | |- TA _ (bindr (close_with_disconnect ?c ?p) _) =>
      let H := fresh "Hk" in assert (H : TA c (close_with_disconnect c p)) by (apply close_with_disconnect_TA; reflexivity);
      destruct (close_with_disconnect c p) as [[? ?]|]; cbn [TA] in H; [destruct H as [? ?]|]
  end.

Lemma note_inbound_rr c p : RR c (note_inbound c p).
Proof. unfold note_inbound. destruct (negb _); apply rr_frame; reflexivity. Qed.
Lemma note_handled_rr c p : RR c (note_handled c p).
Proof. unfold note_handled. destruct (_ =? _); apply rr_frame; reflexivity. Qed.
Lemma store_erase_rr c v t id : RR c (store_erase c v t id).
Proof. unfold store_erase. apply rr_store_sub; [reflexivity|]. conn_simpl. apply erase_l_sub. Qed.

Ltac rr_gen :=
  repeat match goal with
         | |- context [note_handled ?c ?p] => let H := fresh in pose proof (note_handled_rr c p) as H; generalize dependent (note_handled c p); intros
         | _ : context [note_handled ?c ?p] |- _ => let H := fresh in pose proof (note_handled_rr c p) as H; generalize dependent (note_handled c p); intros
         | |- context [note_inbound ?c ?p] => let H := fresh in pose proof (note_inbound_rr c p) as H; generalize dependent (note_inbound c p); intros
         | _ : context [note_inbound ?c ?p] |- _ => let H := fresh in pose proof (note_inbound_rr c p) as H; generalize dependent (note_inbound c p); intros
         | |- context [store_erase ?c ?v ?t ?i] => let H := fresh in pose proof (store_erase_rr c v t i) as H; generalize dependent (store_erase c v t i); intros
         | _ : context [store_erase ?c ?v ?t ?i] |- _ => let H := fresh in pose proof (store_erase_rr c v t i) as H; generalize dependent (store_erase c v t i); intros
         end.

(* chains may now branch (several facts start at the same state): search with backtracking *)
Ltac rr_search :=
  first [ assumption | apply rr_refl | (apply rr_frame; reflexivity)
        | multimatch goal with H : RR ?a ?b |- RR ?a ?z => apply (rr_trans a b z); [exact H|clear H; rr_search] end
        (* the next recorded fact starts at a state obtained from the current one by setters *)
        | multimatch goal with H : RR ?b ?k |- RR ?a ?z =>
            apply (rr_trans a b z); [apply rr_frame; reflexivity|apply (rr_trans b k z); [exact H|clear H; rr_search]] end ].

Ltac ta_leaf3 := cbn [TA]; rr_gen; rr_norm; (split; [rr_search|ta_events]).
Ltac ta_final3 := match goal with |- TA _ (Panic _) => exact I | |- TA _ (Ok _) => ta_leaf3 end.
Ltac ta_auto3 := cbv zeta; repeat first [tcall | th]; try ta_final3.

Lemma recv_publish_v311_TA g c pr : TA c (recv_publish_v311 g c pr).
Proof. unfold recv_publish_v311, handle_v311_error. destruct pr as [p|e]; ta_auto3. Qed.
Lemma recv_ack_TA g c v t pr : TA c (recv_ack g c v t pr).
Proof. unfold recv_ack. destruct pr as [p|e]; [|apply handle_error_TA]. ta_auto3. Qed.
Lemma recv_pubrel_TA g c v pr : TA c (recv_pubrel g c v pr).
Proof. unfold recv_pubrel. destruct pr as [p|e]; [|apply handle_error_TA]. ta_auto3. Qed.
Lemma recv_notify_TA c v pr : TA c (recv_notify c v pr).
Proof. unfold recv_notify. destruct pr as [p|e]; [|apply handle_error_TA]. ta_auto3. Qed.
Lemma recv_pingreq_TA g c v pr : TA c (recv_pingreq g c v pr).
Proof. unfold recv_pingreq. destruct pr as [p|e]; [|apply handle_error_TA]. ta_auto3. Qed.
Lemma recv_pingresp_TA c v pr : TA c (recv_pingresp c v pr).
Proof. unfold recv_pingresp. destruct pr as [p|e]; [|apply handle_error_TA]. ta_auto3. Qed.
Lemma recv_disconnect_TA c v pr : TA c (recv_disconnect c v pr).
Proof. unfold recv_disconnect. destruct pr as [p|e]; [|apply handle_error_TA]. ta_auto3. Qed.

Lemma resolve_recv_alias_TA g c p :
  match resolve_recv_alias g c p with
  | Ok (c', _, _, e) => RR c c' /\ plain_events e = true
  | Panic _ => True end.
Proof.
  unfold resolve_recv_alias.
  repeat match goal with
         | |- match bindr (handle_v5_error ?cc ?e) _ with _ => _ end =>
             let H := fresh "Hk" in pose proof (handle_v5_error_TA cc e) as H; destruct (handle_v5_error cc e) as [[? ?]|]; cbn [bindr TA] in *
         | |- match bindr (tar_insert ?r ?t ?a) _ with _ => _ end => destruct (tar_insert r t a) as [?|]; cbn [bindr]
         | |- match (if ?b then _ else _) with _ => _ end => destruct b
         | |- match (match ?o with Some _ => _ | None => _ end) with _ => _ end => destruct o
         end; try exact I; try assumption; (split; [first [apply rr_refl|apply rr_frame; reflexivity]|reflexivity]).
Qed.

Lemma recv_publish_v5_TA g c pr : TA c (recv_publish_v5 g c pr).
Proof.
  unfold recv_publish_v5. destruct pr as [p|e]; [|ta_auto3]. cbv zeta.
  destruct (_ && _); [apply handle_v5_error_TA|].
  pose proof (resolve_recv_alias_TA g (note_inbound c p) p) as Hr.
  destruct (resolve_recv_alias g (note_inbound c p) p) as [[[[c1 q] st] e0]|]; cbn [bindr]; [|exact I].
  destruct Hr as [Hr1 Hr2]. pose proof (note_inbound_rr c p) as Hn. assert (Hc1 : RR c c1) by (now apply (rr_trans _ (note_inbound c p))).
  clear Hr1 Hn. generalize dependent (note_inbound c p). intros _.
  destruct st; [cbn [TA]; split; assumption|].
  ta_auto3.
Qed.

(* ---- the calls that create a table ---- *)
Definition tam_ok (p : pkt) : Prop := match k_tam p with Some m => m <= 65535 | None => True end.

Lemma connect_recv_state_rr c v p c' : tam_ok p -> connect_recv_state c v p = Ok c' -> RR c c'.
Proof.
  intro Ht. unfold connect_recv_state. cbv zeta.
  set (c1 := if k_flag p then _ else _).
  assert (H1 : RR c c1).
  { subst c1. apply rr_weak.
    - unfold initialize, clear_store_related. repeat match goal with |- context [if ?b then _ else _] => destruct b end; conn_simpl; now right.
    - unfold initialize, clear_store_related. repeat match goal with |- context [if ?b then _ else _] => destruct b end; conn_simpl; intros q Hq; first [exact Hq|destruct Hq]. }
  assert (Hnone : c_ta_send c1 = None).
  { subst c1. unfold initialize, clear_store_related. repeat match goal with |- context [if ?b then _ else _] => destruct b end; reflexivity. }
  clearbody c1.
  destruct (version_eqb v V50); [|intro H; injection H as <-; exact H1].
  unfold tam_ok in Ht. destruct (k_tam p) as [m|].
  - destruct (negb (m =? 0)).
    + destruct (tas_new m) as [s|] eqn:En; cbn [bindr]; [|discriminate].
      intro H; injection H as <-. eapply rr_trans; [exact H1|]. split.
      * intros G _. apply (agree_frame (set_ta_send c1 (Some s))); [|now apply (new_table_agree c1 m s G)].
        repeat match goal with |- context [match ?o with Some _ => _ | None => _ end] => destruct o
                          | |- context [if ?b then _ else _] => destruct b end; reflexivity.
      * unfold store_ok. repeat match goal with |- context [match ?o with Some _ => _ | None => _ end] => destruct o
                          | |- context [if ?b then _ else _] => destruct b end; conn_simpl; auto.
    + cbn [bindr]. intro H; injection H as <-. eapply rr_trans; [exact H1|]. apply rr_frame;
        repeat match goal with |- context [match ?o with Some _ => _ | None => _ end] => destruct o
                          | |- context [if ?b then _ else _] => destruct b end; reflexivity.
  - cbn [bindr]. intro H; injection H as <-. eapply rr_trans; [exact H1|]. apply rr_frame;
      repeat match goal with |- context [match ?o with Some _ => _ | None => _ end] => destruct o
                        | |- context [if ?b then _ else _] => destruct b end; reflexivity.
Qed.

Definition pr_tam_ok (pr : presult) : Prop := match pr with PROk p => tam_ok p | PRErr _ => True end.

Lemma recv_connect_TA g c v pr : pr_tam_ok pr -> store_ok c = true -> TA c (recv_connect g c v pr).
Proof.
  intros Ht Hs. unfold recv_connect. destruct (negb _); [apply handle_error_TA|].
  destruct pr as [p|e].
  - destruct (connect_recv_state _ v p) as [c1|] eqn:E; cbn [bindr]; [|exact I].
    apply (connect_recv_state_rr _ v p c1 Ht) in E.
    pose proof (refresh_ta c1) as [R1 R2]. destruct (refresh_pingreq_recv c1) as [c2 e2]. cbn [fst snd TA] in *.
    split; [eapply rr_trans; [apply rr_frame; reflexivity|]; eapply rr_trans; [exact E|exact R1]|].
    rewrite plain_app, (no_send_plain _ R2). reflexivity.
  - assert (Hs1 : store_ok (set_status c Connecting) = true) by exact Hs.
    pose proof (send_connack_TA (set_status c Connecting) (connect_refusal v e)) as H.
    assert (Hp : plain_pkt (connect_refusal v e) = true).
    { unfold connect_refusal, connack_v5, connack_v311, simple_pkt. repeat match goal with |- context [if ?b then _ else _] => destruct b end; reflexivity. }
    specialize (H Hp Hs1). destruct (send_connack _ _) as [[c1 ev]|]; cbn [bindr TA] in *; [|exact I]. destruct H as [H1 H2].
    split; [eapply rr_trans; [apply rr_frame; reflexivity|exact H1]|]. rewrite plain_app, H2. reflexivity.
Qed.

Lemma connack_recv_limits_rr c p c' : tam_ok p -> connack_recv_limits c p = Ok c' -> RR c c'.
Proof.
  intros Ht H. split.
  - intros G Ha. now apply (connack_recv_limits_agree c p c' G).
  - unfold connack_recv_limits in H. unfold store_ok.
    repeat match type of H with
           | context [match ?o with Some _ => _ | None => _ end] => destruct o
           | context [if ?b then _ else _] => destruct b
           | context [tas_new ?m] => destruct (tas_new m)
           end; cbn [bindr] in H; try discriminate; injection H as <-; conn_simpl; auto.
Qed.

Lemma resume_or_clear_TA c b : store_ok c = true -> TA c (resume_or_clear c b).
Proof.
  intro Hs. unfold resume_or_clear. destruct b.
  - pose proof (send_stored_TA c Hs) as H. destruct (send_stored c) as [[c1 es]|]; cbn [bindr TA] in *; [|exact I]. destruct H as [H1 H2].
    destruct (existsb _ es); [|split; assumption].
    pose proof (post_ta c1) as [P1 P2]. destruct (send_post_process c1) as [c2 e2]. cbn [fst snd TA] in *.
    split; [now apply (rr_trans _ c1)|]. rewrite plain_app, H2, (no_send_plain _ P2). reflexivity.
  - cbn [TA]. split; [|reflexivity]. apply rr_store_sub; [reflexivity|]. unfold clear_store_related. conn_simpl. intros q [].
Qed.

Lemma recv_connack_TA c v pr : pr_tam_ok pr -> store_ok c = true -> TA c (recv_connack c v pr).
Proof.
  intros Ht Hs. unfold recv_connack. destruct (status_eqb (c_status c) Connected) eqn:Es; [apply handle_error_TA|].
  destruct pr as [p|e].
  2:{ destruct (version_eqb v V50); cbn [TA]; (split; [apply rr_refl|reflexivity]). }
  destruct (k_rc p =? 0); [|cbn [TA]; split; [apply rr_refl|reflexivity]].
  destruct (version_eqb v V50).
  - destruct (connack_recv_limits _ p) as [c1|] eqn:E1; cbn [bindr]; [|exact I].
    apply (connack_recv_limits_rr _ p c1 Ht) in E1.
    assert (K2 : RR c1 (fst (connack_recv_ska c1 p)) /\ no_send (snd (connack_recv_ska c1 p)) = true).
    { unfold connack_recv_ska.
      repeat match goal with |- context [if ?b then _ else _] => destruct b
                        | |- context [match ?o with Some _ => _ | None => _ end] => destruct o end; (split; [apply rr_frame; reflexivity|reflexivity]). }
    destruct (connack_recv_ska c1 p) as [c2 e1]. cbn [fst snd] in K2. destruct K2 as [K2 K3].
    assert (K4 : RR c2 (connack_recv_sei c2 p)).
    { unfold connack_recv_sei. destruct (k_sei p); [destruct (_ =? 0)|]; [|apply rr_frame; reflexivity|apply rr_refl].
      apply rr_store_sub; [reflexivity|]. unfold clear_store_related. conn_simpl. intros q []. }
    assert (Hc : RR c (connack_recv_sei c2 p)).
    { eapply rr_trans; [apply rr_frame; reflexivity|]. eapply rr_trans; [exact E1|]. eapply rr_trans; [exact K2|exact K4]. }
    pose proof (resume_or_clear_TA (connack_recv_sei c2 p) (k_flag p) (proj2 Hc Hs)) as H.
    destruct (resume_or_clear _ _) as [[c3 e2]|]; cbn [bindr TA] in *; [|exact I]. destruct H as [H1 H2].
    split; [now apply (rr_trans _ (connack_recv_sei c2 p))|]. rewrite !plain_app, (no_send_plain _ K3), H2. reflexivity.
  - assert (Hs1 : store_ok (set_status c Connected) = true) by exact Hs.
    pose proof (resume_or_clear_TA (set_status c Connected) (k_flag p) Hs1) as H.
    destruct (resume_or_clear _ _) as [[c3 e2]|]; cbn [bindr TA] in *; [|exact I]. destruct H as [H1 H2].
    split; [eapply rr_trans; [apply rr_frame; reflexivity|exact H1]|]. rewrite plain_app, H2. reflexivity.
Qed.

Lemma dispatch_recv_TA g c v t pr : pr_tam_ok pr -> store_ok c = true -> TA c (dispatch_recv g c v t pr).
Proof.
  intros Ht Hs. unfold dispatch_recv.
  destruct (t =? 1); [now apply recv_connect_TA|].
  destruct (t =? 2); [now apply recv_connack_TA|].
  repeat match goal with |- TA _ (if ?b then _ else _) => destruct b end;
    first [ apply recv_publish_v5_TA | apply recv_publish_v311_TA | apply recv_ack_TA | apply recv_pubrel_TA
          | apply recv_notify_TA | apply recv_pingreq_TA | apply recv_pingresp_TA | apply recv_disconnect_TA
          | (cbn [TA]; split; [apply rr_refl|reflexivity]) ].
Qed.

Lemma process_recv_packet_TA g c fh body pr : pr_tam_ok pr -> store_ok c = true -> TA c (process_recv_packet g c fh body pr).
Proof.
  intros Ht Hs. unfold process_recv_packet. cbv zeta.
  destruct (_ <? _).
  { destruct (status_eqb _ _).
    - pose proof (close_with_disconnect_TA c (disconnect_v5 149) eq_refl) as H.
      destruct (close_with_disconnect _ _) as [[c1 e1]|]; cbn [bindr TA] in *; [|exact I].
      destruct H as [H1 H2]. split; [exact H1|]. rewrite plain_app, H2. reflexivity.
    - pose proof (cancel_ta (set_status c Disconnected)) as [H1 H2]. destruct (cancel_timers _) as [c1 e1]. cbn [fst snd TA] in *.
      split; [eapply rr_trans; [apply rr_frame; reflexivity|exact H1]|]. rewrite plain_app, (no_send_plain _ H2). reflexivity. }
  destruct (negb _); [cbn [TA]; split; [apply rr_refl|reflexivity]|].
  destruct (c_version c); try (now apply dispatch_recv_TA).
  repeat match goal with |- TA _ (if ?b then _ else _) => destruct b end;
    first [ (eapply TA_trans; [|apply recv_connect_TA; [exact Ht|exact Hs]]; apply rr_frame; reflexivity)
          | (cbn [TA]; split; [apply rr_refl|reflexivity]) ].
Qed.

Definition events_of (r : res (conn * list event * list N)) : res (conn * list event) :=
  match r with Ok (c, e, _) => Ok (c, e) | Panic x => Panic x end.

Lemma do_recv_TA g c bytes pr : pr_tam_ok pr -> store_ok c = true -> TA c (events_of (do_recv g c bytes pr)).
Proof.
  intros Ht Hs. unfold do_recv. destruct (feed (c_pb c) bytes) as [[r pb'] rest]. destruct r.
  - assert (Hs1 : store_ok (set_pb c pb') = true) by exact Hs.
    pose proof (process_recv_packet_TA g (set_pb c pb') (hd 0 hdr) body pr Ht Hs1) as H.
    destruct (process_recv_packet _ _ _ _ _) as [[c1 e1]|]; cbn [bindr events_of TA] in *; [|exact I].
    destruct H as [H1 H2]. split; [eapply rr_trans; [apply rr_frame; reflexivity|exact H1]|exact H2].
  - cbn [events_of TA]. split; [apply rr_frame; reflexivity|reflexivity].
  - pose proof (cancel_ta (set_pb c pb')) as [H1 H2]. destruct (cancel_timers _) as [c1 e1]. cbn [fst snd events_of TA] in *.
    split; [eapply rr_trans; [apply rr_frame; reflexivity|exact H1]|]. rewrite plain_app, (no_send_plain _ H2). reflexivity.
Qed.

Lemma do_timer_TA c k : TA c (do_timer c k).
Proof.
  unfold do_timer. destruct k; cbv zeta.
  - destruct (status_eqb _ _); [|cbn [TA]; split; [apply rr_frame; reflexivity|reflexivity]].
    destruct (c_version _); try exact I;
      (eapply TA_trans; [|apply send_pingreq_TA; reflexivity]); apply rr_frame; reflexivity.
  - destruct (c_version _); try exact I; [cbn [TA]; split; [apply rr_frame; reflexivity|reflexivity]|].
    destruct (status_eqb _ _); [|cbn [TA]; split; [apply rr_frame; reflexivity|reflexivity]].
    (eapply TA_trans; [|apply close_with_disconnect_TA; reflexivity]); apply rr_frame; reflexivity.
  - destruct (c_version _); try exact I; [cbn [TA]; split; [apply rr_frame; reflexivity|reflexivity]|].
    destruct (status_eqb _ _); [|cbn [TA]; split; [apply rr_frame; reflexivity|reflexivity]].
    (eapply TA_trans; [|apply close_with_disconnect_TA; reflexivity]); apply rr_frame; reflexivity.
Qed.

Lemma drain_release_ns ids : forall a a' e, drain_release a ids = Ok (a', e) -> no_send e = true.
Proof.
  induction ids as [|i t IH]; intros a a' e; cbn [drain_release]; [intro H; inversion H; reflexivity|].
  destruct (pm_is_used a i); [|apply IH].
  destruct (pm_release a i) as [a1|]; cbn [bindr]; [|discriminate].
  destruct (drain_release a1 t) as [[a2 e2]|] eqn:E; cbn [bindr]; [|discriminate].
  intro H; inversion H; subst. cbn [no_send forallb andb]. exact (IH _ _ _ E).
Qed.

Lemma do_closed_TA c : TA c (do_closed c).
Proof.
  destruct (do_closed c) as [[c' e]|] eqn:E; [|exact I]. cbn [TA].
  destruct (closed_has_shape c c' e E) as (_ & _ & Hs & _). split.
  - split; [intros G _; unfold agree; now rewrite Hs|].
    (* the store is kept or emptied *)
    destruct (c_need_store c) eqn:En.
    + destruct (closed_persistent_keeps_session c c' e E En) as (Hst & _). unfold store_ok. now rewrite Hst.
    + destruct (closed_nonpersistent_ends_session c c' e E En) as (Hst & _). unfold store_ok. now rewrite Hst.
  - revert E. unfold do_closed. cbv zeta.
    repeat match goal with
           | |- bindr (drain_release ?a ?ids) _ = _ -> _ =>
               let E := fresh "Ed" in destruct (drain_release a ids) as [[? ?]|] eqn:E; cbn [bindr]; [apply drain_release_ns in E|discriminate]
           | |- bindr (if ?b then _ else _) _ = _ -> _ => destruct b; cbn [bindr]
           | |- bindr (bindr (drain_release ?a ?ids) _) _ = _ -> _ =>
               let E := fresh "Ed" in destruct (drain_release a ids) as [[? ?]|] eqn:E; cbn [bindr]; [apply drain_release_ns in E|discriminate]
           end.
    all: match goal with |- context [cancel_timers ?cc] => pose proof (cancel_ta cc) as [_ Hc]; destruct (cancel_timers cc) as [c9 e9] end.
    all: cbn [snd] in *; intro H; inversion H; subst; apply no_send_plain; unfold no_send; rewrite ?forallb_app;
      repeat match goal with H : no_send ?x = true |- _ => unfold no_send in H; rewrite H; clear H end; reflexivity.
Qed.

(* ---------- the receiver's table along an event list ---------- *)
Definition rx_ev (G : list (N * topic)) (e : event) : list (N * topic) :=
  match e with ESend q _ => rx_step G q | _ => G end.
Definition ghost_after (G : list (N * topic)) (l : list event) : list (N * topic) := fold_left rx_ev l G.
(* every v5.0 PUBLISH in the list is resolvable when it is received (the table grows along the list) *)
Fixpoint res_evs (G : list (N * topic)) (l : list event) : Prop :=
  match l with
  | [] => True
  | e :: t => (match e with ESend q _ => is_v5_pub q = true -> rx_topic (rx_step G q) q <> None | _ => True end)
              /\ res_evs (rx_ev G e) t
  end.

Lemma plain_ghost l : forall G, plain_events l = true -> ghost_after G l = G /\ res_evs G l.
Proof.
  induction l as [|e t IH]; intros G; cbn [plain_events forallb ghost_after fold_left res_evs]; [auto|].
  intro H. apply andb_true_iff in H as [H1 H2].
  assert (Hg : rx_ev G e = G).
  { destruct e; try reflexivity. cbn [plain_ev] in H1. unfold plain_pkt in H1. apply andb_true_iff in H1 as [Ha _].
    cbn [rx_ev]. unfold rx_step. destruct (k_alias p); [discriminate|reflexivity]. }
  rewrite Hg. destruct (IH G H2) as [I1 I2]. split; [exact I1|]. split; [|exact I2].
  destruct e; try exact I. cbn [plain_ev] in H1. unfold plain_pkt in H1. apply andb_true_iff in H1 as [Ha Hb].
  intro Hv. rewrite Hv in Hb. cbn [negb orb] in Hb. cbn [rx_ev] in Hg. rewrite Hg. unfold rx_topic. destruct (k_topic p); [discriminate|discriminate].
Qed.

Lemma ghost_app G a b : ghost_after G (a ++ b) = ghost_after (ghost_after G a) b.
Proof. unfold ghost_after. apply fold_left_app. Qed.
Lemma res_app a : forall G b, res_evs G a -> res_evs (ghost_after G a) b -> res_evs G (a ++ b).
Proof.
  induction a as [|e t IH]; intros G b; cbn [app res_evs ghost_after fold_left]; [auto|].
  intros [H1 H2] H3. split; [exact H1|]. now apply IH.
Qed.

(* an event list with exactly one send *)
Lemma one_send_ghost l q : sends l = [q] ->
  forall G, ghost_after G l = rx_step G q /\ ((is_v5_pub q = true -> rx_topic (rx_step G q) q <> None) -> res_evs G l).
Proof.
  induction l as [|e t IH]; [discriminate|]. intros Hs G. destruct e.
  1:{ unfold sends in Hs. cbn [flat_map app] in Hs. inversion Hs as [[Hq Ht]]. subst p.
      assert (Hn : sends t = []) by exact Ht.
      assert (Hp : plain_events t = true).
      { clear -Hn. induction t as [|e t IH]; [reflexivity|]. destruct e; try (cbn [plain_events forallb plain_ev andb]; apply IH; exact Hn).
        unfold sends in Hn. cbn [flat_map app] in Hn. discriminate. }
      destruct (plain_ghost t (rx_step G q) Hp) as [P1 P2]. cbn [ghost_after fold_left rx_ev res_evs]. fold (ghost_after (rx_step G q) t).
      split; [exact P1|]. intro Hr. split; [exact Hr|exact P2]. }
  all: unfold sends in Hs; cbn [flat_map app] in Hs; destruct (IH Hs G) as [I1 I2]; cbn [ghost_after fold_left rx_ev res_evs];
    (split; [exact I1|intro Hr; split; [exact I|now apply I2]]).
Qed.
Lemma no_send_ghost l : sends l = [] -> plain_events l = true.
Proof.
  induction l as [|e t IH]; [reflexivity|]. destruct e; try (intro H; cbn [plain_events forallb plain_ev andb]; apply IH; exact H).
  unfold sends. cbn [flat_map app]. discriminate.
Qed.

(* ---------- every call ---------- *)
Definition Inv (c : conn) (G : list (N * topic)) : Prop := agree c G /\ store_ok c = true.

(* the application contract and the parser oracle, as far as this property needs them: the Topic Alias
   Maximum of a received CONNECT/CONNACK is a two-byte integer; packets handed to restore_packets have
   the stored shape; a packet that is not a v5.0 PUBLISH carries no Topic Alias *)
Definition op_ok (o : op) : Prop :=
  match o with
  | ORecv _ pr => pr_tam_ok pr
  | ORestorePackets l => forallb plain_pkt l = true
  | OSend p => is_v5_pub p = false -> k_alias p = None
  | _ => True
  end.

Lemma dispatch_send_TA g c p : plain_pkt p = true -> is_v5_pub p = false -> store_ok c = true -> TA c (dispatch_send g c p).
Proof.
  intros Hp Hv Hs. unfold dispatch_send. cbv zeta.
  destruct (k_type p =? T_CONNECT); [now apply send_connect_TA|].
  destruct (k_type p =? T_CONNACK); [now apply send_connack_TA|].
  destruct (k_type p =? T_PUBLISH) eqn:Et.
  { destruct (version_eqb (k_ver p) V50) eqn:Ev; [unfold is_v5_pub in Hv; rewrite Et, Ev in Hv; discriminate|now apply send_publish_v311_TA]. }
  destruct ((k_type p =? T_PUBACK) || (k_type p =? T_PUBREC) || (k_type p =? T_PUBCOMP)); [now apply send_puback_like_TA|].
  destruct (k_type p =? T_PUBREL); [now apply send_pubrel_TA|].
  destruct ((k_type p =? T_SUBSCRIBE) || (k_type p =? T_UNSUBSCRIBE)); [now apply send_sub_unsub_TA|].
  destruct ((k_type p =? T_SUBACK) || (k_type p =? T_UNSUBACK) || (k_type p =? T_PINGRESP)); [now apply send_plain_TA|].
  destruct (k_type p =? T_PINGREQ); [now apply send_pingreq_TA|].
  destruct (k_type p =? T_DISCONNECT); [now apply send_disconnect_TA|].
  destruct (k_type p =? T_AUTH); [now apply send_auth_TA|]. cbn [TA]. split; [apply rr_refl|reflexivity].
Qed.

Lemma TA_inv c G r : Inv c G -> TA c r ->
  match r with Ok (c', e) => Inv c' (ghost_after G e) /\ res_evs G e | Panic _ => True end.
Proof.
  intros [Ha Hs] H. destruct r as [[c' e]|]; [|exact I]. cbn [TA] in H. destruct H as [[R1 R2] Hp].
  destruct (plain_ghost e G Hp) as [P1 P2]. rewrite P1. split; [split; [now apply R1|now apply R2]|exact P2].
Qed.

Lemma do_send_inv g c p G : Inv c G -> op_ok (OSend p) ->
  match do_send g c p with Ok (c', e) => Inv c' (ghost_after G e) /\ res_evs G e | Panic _ => True end.
Proof.
  intros HI Hok. cbn [op_ok] in Hok. unfold do_send. cbv zeta.
  assert (Hid : forall ev, plain_events ev = true -> Inv c (ghost_after G ev) /\ res_evs G ev).
  { intros ev Hp. destruct (plain_ghost ev G Hp) as [P1 P2]. now rewrite P1. }
  destruct (negb (version_eqb _ _)); [now apply Hid|].
  destruct (_ && negb (role_client_ok g)); [now apply Hid|]. destruct (_ && negb (role_server_ok g)); [now apply Hid|].
  destruct (is_v5_pub p) eqn:Ev.
  - (* a v5.0 PUBLISH: the theorem of AliasInv.v and the shape of the store *)
    unfold is_v5_pub in Ev. apply andb_true_iff in Ev as [Et Evv]. unfold dispatch_send. cbv zeta.
    assert (E1 : (k_type p =? T_CONNECT) = false) by (apply N.eqb_eq in Et; rewrite Et; reflexivity).
    assert (E2 : (k_type p =? T_CONNACK) = false) by (apply N.eqb_eq in Et; rewrite Et; reflexivity).
    rewrite E1, E2, Et, Evv.
    destruct HI as [Ha Hs].
    pose proof (send_publish_v5_resolvable g c p G Ha) as Hr. pose proof (send_publish_v5_SO g c p G Ha) as Hso.
    destruct (send_publish_v5 g c p) as [[c' e]|]; [|exact I]. cbn [send_spec SO] in *.
    destruct (sends e) as [|q [|q2 r]] eqn:Ese; [| |contradiction].
    + destruct (plain_ghost e G (no_send_ghost e Ese)) as [P1 P2]. rewrite P1. split; [split; [exact Hr|now apply Hso]|exact P2].
    + destruct Hr as (R1 & R2 & R3). destruct (one_send_ghost e q Ese G) as [O1 O2]. rewrite O1.
      split; [split; [exact R1|now apply Hso]|]. apply O2. intros _. unfold resolved in R2.
      destruct (k_topic p); [destruct R2 as (x & t & _ & _ & R2); now rewrite R2|now rewrite R2].
  - assert (Hp : plain_pkt p = true).
    { unfold plain_pkt. rewrite (Hok eq_refl), Ev. reflexivity. }
    apply (TA_inv c G); [exact HI|]. apply dispatch_send_TA; [exact Hp|exact Ev|exact (proj2 HI)].
Qed.

Lemma do_restore_rr l : forall c, forallb plain_pkt l = true -> RR c (do_restore c l).
Proof.
  induction l as [|p t IH]; intros c; cbn [do_restore forallb]; [intros _; apply rr_refl|].
  intro H. apply andb_true_iff in H as [Hp Ht]. eapply rr_trans; [|apply IH; exact Ht].
  destruct (_ && _); [apply rr_refl|]. destruct (pm_register _ _) as [ok a]. destruct ok; [|apply rr_refl].
  unfold store_add_soft.
  match goal with |- context [if store_has ?i ?l then ?x else ?y] => destruct (store_has i l) end.
  - destruct (_ =? T_PUBLISH); [destruct (_ =? 1)|]; apply rr_frame; reflexivity.
  - split; [intros G; apply agree_frame; destruct (_ =? T_PUBLISH); [destruct (_ =? 1)|]; reflexivity|].
    unfold store_ok. intro Hs. destruct (_ =? T_PUBLISH); [destruct (_ =? 1)|]; conn_simpl; rewrite forallb_app, Hs; cbn [forallb]; now rewrite Hp.
Qed.

(* EVERY call of the API keeps the cover of the sender's table by the receiver's and the shape of the
   store, and every v5.0 PUBLISH it requests is resolvable by the receiver at the moment it arrives *)
Theorem step_alias_inv g c o G :
  Inv c G -> op_ok o ->
  match step g c o with
  | Ok (c', evs, _) => Inv c' (ghost_after G evs) /\ res_evs G evs
  | Panic _ => True
  end.
Proof.
  intros HI Hok. pose proof HI as [Ha Hs].
  assert (Hframe : forall c', c_ta_send c' = c_ta_send c -> c_store c' = c_store c -> Inv c' G).
  { intros c' H1 H2. split; [now apply (agree_frame c)|unfold store_ok; now rewrite H2]. }
  destruct o; cbn [step].
  - pose proof (do_send_inv g c p G HI Hok) as H. destruct (do_send g c p) as [[c' e]|]; cbn [bindr] in *; [exact H|exact I].
  - pose proof (TA_inv c G _ HI (do_recv_TA g c bytes pr Hok Hs)) as H.
    destruct (do_recv g c bytes pr) as [[[c' e] r]|]; cbn [bindr events_of] in *; [exact H|exact I].
  - pose proof (TA_inv c G _ HI (do_timer_TA c k)) as H. destruct (do_timer c k) as [[c' e]|]; cbn [bindr] in *; [exact H|exact I].
  - pose proof (TA_inv c G _ HI (do_closed_TA c)) as H. destruct (do_closed c) as [[c' e]|]; cbn [bindr] in *; [exact H|exact I].
  - unfold do_set_pingreq_interval. cbv zeta.
    repeat match goal with
           | |- context [match ?y with Some _ => _ | None => _ end] => destruct y
           | |- context [if ?b then _ else _] => destruct b
           end; cbn [bindr ghost_after fold_left rx_ev res_evs]; (split; [apply Hframe; reflexivity|auto]).
  - split; [apply Hframe; reflexivity|exact I].
  - split; [destruct b; apply Hframe; reflexivity|exact I].
  - split; [apply Hframe; reflexivity|exact I].
  - split; [apply Hframe; reflexivity|exact I].
  - split; [apply Hframe; reflexivity|exact I].
  - split; [apply Hframe; reflexivity|exact I].
  - destruct (pm_acquire (c_pid c)) as [[r a]|]; cbn [bindr]; [|exact I]. split; [apply Hframe; reflexivity|exact I].
  - destruct (pm_register (c_pid c) id) as [b a]. split; [apply Hframe; reflexivity|exact I].
  - destruct (release_if_used c id) as [[c' e]|] eqn:E; cbn [bindr]; [|exact I]. apply release_ta in E as [[R1 R2] Hn].
    destruct (plain_ghost e G (no_send_plain e Hn)) as [P1 P2]. rewrite P1. split; [split; [now apply R1|now apply R2]|exact P2].
  - unfold do_erase. pose proof (erase_publish_l_sub id (c_store c)) as Hsub. destruct (store_erase_publish_l _ _) as [b l]. cbn [snd] in Hsub.
    destruct b; [|cbn [bindr]; split; [exact HI|exact I]]. cbv zeta.
    match goal with |- context [release_if_used ?y ?i] =>
      assert (Hy : RR c y) by (apply rr_store_sub; [destruct (c_send_max _); [destruct (0 <? _)|]; reflexivity|destruct (c_send_max _); [destruct (0 <? _)|]; conn_simpl; exact Hsub]);
      destruct (release_if_used y i) as [[c' e]|] eqn:E end; cbn [bindr]; [|exact I].
    apply release_ta in E as [[R1 R2] Hn]. destruct Hy as [Y1 Y2].
    destruct (plain_ghost e G (no_send_plain e Hn)) as [P1 P2]. rewrite P1. split; [split; [apply R1, Y1, Ha|apply R2, Y2, Hs]|exact P2].
  - cbn [op_ok] in Hok. destruct (do_restore_rr l c Hok) as [R1 R2]. split; [split; [now apply R1|now apply R2]|exact I].
  - split; [apply Hframe; reflexivity|exact I].
  - split; [exact HI|exact I].
Qed.

(* over histories: the ghost follows the events; at notify_closed the receiver's table is dropped too
   (bindings do not survive the connection) *)
Definition next_ghost (G : list (N * topic)) (o : op) (evs : list event) : list (N * topic) :=
  match o with OClosed => [] | _ => ghost_after G evs end.
Fixpoint hist_resolvable (g : cfg) (c : conn) (G : list (N * topic)) (ops : list op) : Prop :=
  match ops with
  | [] => True
  | o :: t => match step g c o with
              | Ok (c', evs, _) => res_evs G evs /\ hist_resolvable g c' (next_ghost G o evs) t
              | Panic _ => True
              end
  end.

Lemma step_closed_agree g c c' evs r G : step g c OClosed = Ok (c', evs, r) -> agree c' G.
Proof.
  cbn [step]. destruct (do_closed c) as [[c1 e1]|] eqn:Ec; cbn [bindr]; [|discriminate].
  intro H. injection H as <- <- _. now apply (closed_agree c c1 e1).
Qed.
Lemma next_inv g c o c' evs r G :
  Inv c' (ghost_after G evs) -> step g c o = Ok (c', evs, r) -> Inv c' (next_ghost G o evs).
Proof.
  intros [Ha Hs] Hst. unfold next_ghost. destruct o; try (split; assumption).
  split; [now apply (step_closed_agree g c c' evs r)|exact Hs].
Qed.

Theorem every_history_resolvable g : forall ops c G,
  Inv c G -> Forall op_ok ops -> hist_resolvable g c G ops.
Proof.
  induction ops as [|o t IH]; intros c G HI Hall; cbn [hist_resolvable]; [exact I|].
  inversion Hall as [|o' t' Ho Ht]; subst.
  pose proof (step_alias_inv g c o G HI Ho) as H.
  pose proof (next_inv g c o) as Hn.
  destruct (step g c o) as [[[c' evs] r]|]; [|exact I]. destruct H as [HI' Hr]. split; [exact Hr|].
  apply IH; [|exact Ht]. now apply (Hn c' evs r G).
Qed.

(* ... from a freshly constructed object, with the receiver's table empty *)
Corollary fresh_history_resolvable g v ops : Forall op_ok ops -> hist_resolvable g (conn_new g v) [] ops.
Proof. intro H. apply every_history_resolvable; [|exact H]. split; [apply fresh_agree|reflexivity]. Qed.
