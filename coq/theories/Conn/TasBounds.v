(* The bounds of the send-side topic alias table: the allocator of vacant aliases ranges over [1, max],
   max >= 1, every bound alias lies in [1, max].  Kept by every call of the model — what the assertions of
   get_lru_alias and insert_or_update need (Conn/NoPanic.v). *)
From MQ Require Import Base.Prelude Alloc.Alloc Alloc.SetSpec Alloc.AllocProofs Framing.Framing
                       Conn.Types Conn.TopicAlias Conn.ConnRecord Conn.Step Conn.Run Corr.ConnTrace Conn.Scope.

Definition TB (s : tas) : Prop :=
  a_lo (ts_va s) = 1 /\ a_hi (ts_va s) = ts_max s /\ 1 <= ts_max s /\ WF (ts_va s) /\
  (forall a t, In (a, t) (ts_a2t s) -> 1 <= a <= ts_max s).
Definition TAS (c : conn) : Prop := match c_ta_send c with Some s => TB s | None => True end.

Lemma assoc_remove_in (a : N) (l : list (N * topic)) b u : In (b, u) (assoc_remove a l) -> In (b, u) l.
Proof.
  induction l as [|[k v] r IH]; cbn [assoc_remove]; [auto|]. destruct (k =? a); [now right|]. intros [H|H]; [now left|right; now apply IH].
Qed.
Lemma assoc_get_in (a : N) (l : list (N * topic)) t : assoc_get a l = Some t -> In (a, t) l.
Proof.
  induction l as [|[k v] r IH]; cbn [assoc_get]; [discriminate|]. destruct (N.eqb_spec k a) as [->|Hne]; [intro H; injection H as ->; now left|right; now apply IH].
Qed.
Lemma tas_new_tb m s : m <= 65535 -> tas_new m = Ok s -> TB s.
Proof.
  intro Hm. unfold tas_new, a_new. destruct (1 <=? m) eqn:E; cbn [bindr]; [|discriminate]. intro H; injection H as <-.
  apply N.leb_le in E. unfold TB, WF. cbn. repeat split; try lia; try (intros a t []); try tauto.
Qed.
Lemma tas_insert_tb s t a s' : TB s -> tas_insert s t a = Ok s' -> TB s'.
Proof.
  intros (B1 & B2 & B3 & B4 & B5). unfold tas_insert. destruct (_ || _) eqn:Eg; [discriminate|].
  apply orb_false_iff in Eg as [Eg E3]. apply orb_false_iff in Eg as [_ E2]. apply N.ltb_ge in E2, E3.
  destruct (use_value_spec (ts_va s) a B4) as (va' & HU & W' & F1 & F2 & _ & _). rewrite HU.
  set (a2t1t2a1 := if abs (a_pool (ts_va s)) a then _ else _).
  assert (H1 : forall b u, In (b, u) (fst a2t1t2a1) -> 1 <= b <= ts_max s).
  { subst a2t1t2a1. destruct (abs _ _); [exact B5|]. destruct (assoc_get a (ts_a2t s)); [|exact B5]. cbn [fst]. intros b u Hin.
    apply (B5 b u). now apply (assoc_remove_in a). }
  destruct a2t1t2a1 as [a2t1 t2a1]. cbn [fst] in H1. intro H; injection H as <-. unfold TB. cbn [ts_va ts_max ts_a2t].
  split; [congruence|]. split; [congruence|]. split; [exact B3|]. split; [exact W'|].
  intros b u Hin. destruct (assoc_get a a2t1).
  - apply in_map_iff in Hin as ([k v] & E & Hk). cbn [fst] in E. destruct (k =? a); [injection E as <- <-; lia|injection E as <- <-; now apply (H1 k v)].
  - apply in_app_iff in Hin as [Hin|[E|[]]]; [now apply (H1 b u)|injection E as <- <-; lia].
Qed.
Lemma tas_get_tb s a : TB s -> TB (snd (tas_get s a)).
Proof.
  intros (B1 & B2 & B3 & B4 & B5). unfold tas_get. destruct (_ && _); [|cbn [snd]; exact (conj B1 (conj B2 (conj B3 (conj B4 B5))))].
  destruct (assoc_get a (ts_a2t s)) as [t|] eqn:Eg; cbn [snd]; [|exact (conj B1 (conj B2 (conj B3 (conj B4 B5))))]. unfold TB. cbn [ts_va ts_max ts_a2t].
  split; [exact B1|]. split; [exact B2|]. split; [exact B3|]. split; [exact B4|].
  intros b u Hin. apply in_app_iff in Hin as [Hin|[E|[]]].
  - apply (B5 b u). now apply (assoc_remove_in a).
  - injection E as <- <-. apply (B5 a t). now apply assoc_get_in.
Qed.

Ltac own_split_goal :=
  unfold initialize, clear_store_related;
  repeat match goal with
         | |- context [if ?b then _ else _] => destruct b
         | |- context [match ?o with Some _ => _ | None => _ end] => destruct o
         end; conn_simpl_goal; reflexivity.

(* ---- preservation, as a preorder ---- *)
Definition TP (a b : conn) : Prop := TAS a -> TAS b.
Lemma tp_refl c : TP c c. Proof. unfold TP; auto. Qed.
Lemma tp_trans a b c : TP a b -> TP b c -> TP a c. Proof. unfold TP; auto. Qed.
Lemma tp_frame a b : c_ta_send b = c_ta_send a -> TP a b. Proof. unfold TP, TAS. now intros ->. Qed.
Lemma tp_none a b : c_ta_send b = None -> TP a b. Proof. unfold TP, TAS. now intros ->. Qed.
Lemma tp_set a b s : c_ta_send b = Some s -> TB s -> TP a b. Proof. unfold TP, TAS. intros -> H _. exact H. Qed.

Definition TPR (c : conn) (r : res (conn * list event)) : Prop :=
  match r with Ok (c', _) => TP c c' | Panic _ => True end.
Lemma TPR_trans c c1 r : TP c c1 -> TPR c1 r -> TPR c r.
Proof. destruct r as [[c' e]|]; cbn [TPR]; [|trivial]. intros H1 H2. now apply (tp_trans _ c1). Qed.

Ltac tp_flat :=
  first [ (apply tp_none; unfold clear_store_related, initialize; conn_simpl_goal; reflexivity)
        | (unfold clear_store_related, initialize; apply tp_frame; conn_simpl_goal; reflexivity) ].

Lemma post_tp c : TP c (fst (send_post_process c)).
Proof. unfold send_post_process. destruct (c_is_client c); [destruct (0 <? _)|]; apply tp_frame; reflexivity. Qed.
Lemma cancel_tp c : TP c (fst (cancel_timers c)).
Proof. rewrite cancel_timers_state. apply tp_frame. reflexivity. Qed.
Lemma refresh_tp c : TP c (fst (refresh_pingreq_recv c)).
Proof. unfold refresh_pingreq_recv. destruct (negb _); apply tp_frame; reflexivity. Qed.
Lemma validate_alias_tp c a : TP c (snd (validate_topic_alias c a)).
Proof.
  unfold validate_topic_alias. destruct a as [a|]; [|apply tp_refl]. destruct (negb _); [apply tp_refl|].
  destruct (c_ta_send c) as [s|] eqn:Es; [|apply tp_refl]. pose proof (tas_get_tb s a) as H. destruct (tas_get s a) as [[t|] s']; cbn [snd] in *; [|apply tp_refl].
  unfold TP, TAS. rewrite Es. conn_simpl_goal. exact H.
Qed.
Lemma store_add_tp c p c' : store_add c p = Ok c' -> TP c c'.
Proof. unfold store_add. destruct (store_has _ _); [discriminate|]. intro H; inversion H. apply tp_frame. reflexivity. Qed.
Lemma release_if_used_tp c id c' e : release_if_used c id = Ok (c', e) -> TP c c'.
Proof.
  unfold release_if_used. destruct (is_used c id); [|intro H; inversion H; apply tp_refl].
  destruct (pm_release _ _) as [a|]; cbn [bindr]; [|discriminate]. intro H; inversion H; subst. apply tp_frame. reflexivity.
Qed.
Lemma send_and_post_TPR c0 c p rel pre : TP c0 c -> TPR c0 (send_and_post c p rel pre).
Proof.
  intro H. unfold send_and_post. pose proof (post_tp c) as Hp. destruct (send_post_process c) as [c' e]. cbn [fst TPR] in *.
  now apply (tp_trans _ c).
Qed.
Lemma refuse_publish_TPR c id err pre : TPR c (refuse_publish c id err pre).
Proof.
  unfold refuse_publish. destruct (negb (id =? 0) && is_used c id); [|cbn [TPR]; apply tp_refl].
  destruct (pm_release _ _) as [a|]; cbn [bindr TPR]; [|exact I]. apply tp_frame. reflexivity.
Qed.
(* the table after insert_or_update *)
Lemma insert_tp' c z s t a s' : c_ta_send c = Some s -> tas_insert s t a = Ok s' -> c_ta_send z = Some s' -> TP c z.
Proof. intros Es Ei Ez. unfold TP, TAS. rewrite Es, Ez. intro H. exact (tas_insert_tb s t a s' H Ei). Qed.
Lemma insert_tp c s t a s' : c_ta_send c = Some s -> tas_insert s t a = Ok s' -> TP c (set_ta_send c (Some s')).
Proof. intros Es Ei. unfold TP, TAS. rewrite Es. conn_simpl_goal. intro H. exact (tas_insert_tb s t a s' H Ei). Qed.

(* ---- automation (head position) ---- *)
Ltac tp_norm :=
  repeat match goal with
         | |- context [if ?b then _ else _] => destruct b eqn:?
         | |- context [match ?o with Some _ => _ | None => _ end] => destruct o eqn:?
         | H : TP _ (if ?b then _ else _) |- _ => destruct b eqn:?
         | H : TP (if ?b then _ else _) _ |- _ => destruct b eqn:?
         | H : TP _ (match ?o with Some _ => _ | None => _ end) |- _ => destruct o eqn:?
         | H : TP (match ?o with Some _ => _ | None => _ end) _ |- _ => destruct o eqn:?
         end.
Ltac tp_search :=
  first [ assumption | apply tp_refl | (apply tp_frame; reflexivity) | tp_flat
        | match goal with Es : c_ta_send ?c1 = Some ?s, Ei : tas_insert ?s _ _ = Ok ?s' |- TP ?a ?z =>
            apply (tp_trans a c1 z); [first [apply tp_refl|apply tp_frame; reflexivity]|apply (insert_tp' c1 z s _ _ s' Es Ei); conn_simpl_goal; reflexivity] end
        | multimatch goal with H : TP ?a ?b |- TP ?a ?z => apply (tp_trans a b z); [exact H|clear H; tp_search] end
        | multimatch goal with H : TP ?b ?k |- TP ?a ?z =>
            apply (tp_trans a b z); [first [apply tp_frame; reflexivity|tp_flat]|apply (tp_trans b k z); [exact H|clear H; tp_search]] end ].
Ltac tp_leaf := cbn [TPR]; tp_norm; tp_search.

Ltac th :=
  first
  [ progress cbn [bindr]
  | match goal with
    | |- TPR _ (Panic _) => exact I
    | |- TPR _ (let '(_, _) := send_post_process ?c in _) =>
        let H := fresh "Hpost" in pose proof (post_tp c) as H; destruct (send_post_process c) as [? ?]; cbn [fst] in H
    | |- TPR _ (let '(_, _) := cancel_timers ?c in _) =>
        let H := fresh "Hcan" in pose proof (cancel_tp c) as H; destruct (cancel_timers c) as [? ?]; cbn [fst] in H
    | |- TPR _ (let '(_, _) := refresh_pingreq_recv ?c in _) =>
        let H := fresh "Href" in pose proof (refresh_tp c) as H; destruct (refresh_pingreq_recv c) as [? ?]; cbn [fst] in H
    | |- TPR _ (bindr (release_if_used ?c ?id) _) =>
        let E := fresh "Erel" in destruct (release_if_used c id) as [[? ?]|] eqn:E; [apply release_if_used_tp in E|]
    | |- TPR _ (bindr (bindr (release_if_used ?c ?id) _) _) =>
        let E := fresh "Erel" in destruct (release_if_used c id) as [[? ?]|] eqn:E; [apply release_if_used_tp in E|]
    | |- TPR _ (bindr (bindr (bindr (release_if_used ?c ?id) _) _) _) =>
        let E := fresh "Erel" in destruct (release_if_used c id) as [[? ?]|] eqn:E; [apply release_if_used_tp in E|]
    | |- TPR _ (release_if_used ?c ?id) =>
        let E := fresh "Erel" in destruct (release_if_used c id) as [[? ?]|] eqn:E; [apply release_if_used_tp in E|]
    | |- TPR _ (bindr (store_add ?c ?p) _) =>
        let E := fresh "Esa" in destruct (store_add c p) as [?|] eqn:E; [apply store_add_tp in E|]
    | |- TPR _ (bindr (bindr (store_add ?c ?p) _) _) =>
        let E := fresh "Esa" in destruct (store_add c p) as [?|] eqn:E; [apply store_add_tp in E|]
    | |- TPR _ (bindr (bindr (bindr (store_add ?c ?p) _) _) _) =>
        let E := fresh "Esa" in destruct (store_add c p) as [?|] eqn:E; [apply store_add_tp in E|]
    | |- TPR _ (bindr (bindr (let '(_, _) := validate_topic_alias ?c ?a in _) _) _) =>
        let H := fresh "Hval" in pose proof (validate_alias_tp c a) as H; destruct (validate_topic_alias c a) as [? ?]; cbn [snd] in H
    | |- TPR _ (bindr (let '(_, _) := validate_topic_alias ?c ?a in _) _) =>
        let H := fresh "Hval" in pose proof (validate_alias_tp c a) as H; destruct (validate_topic_alias c a) as [? ?]; cbn [snd] in H
    | |- TPR _ (refuse_publish ?c ?id ?err ?pre) =>
        eapply TPR_trans; [|apply refuse_publish_TPR]; tp_norm; tp_search
    | |- TPR _ (bindr (refuse_publish ?c ?id ?err ?pre) _) =>
        let H := fresh "Hrp" in pose proof (refuse_publish_TPR c id err pre) as H; destruct (refuse_publish c id err pre) as [[? ?]|]; cbn [TPR] in H
    | |- TPR _ (bindr (bindr (refuse_publish ?c ?id ?err ?pre) _) _) =>
        let H := fresh "Hrp" in pose proof (refuse_publish_TPR c id err pre) as H; destruct (refuse_publish c id err pre) as [[? ?]|]; cbn [TPR] in H
    | |- TPR _ (bindr (bindr (tas_insert ?s ?t ?a) _) _) => let E := fresh "Eins" in destruct (tas_insert s t a) as [?|] eqn:E
    | |- TPR _ (bindr (bindr (bindr (tas_insert ?s ?t ?a) _) _) _) => let E := fresh "Eins" in destruct (tas_insert s t a) as [?|] eqn:E
    | |- TPR _ (bindr (bindr (tas_lru ?s) _) _) => destruct (tas_lru s) as [?|]
    | |- TPR _ (let '(_, _) := (_, _) in _) => cbv beta iota
    | |- TPR _ (let '(_, _) := (if ?b then _ else _) in _) => destruct b eqn:?
    | |- TPR _ (if ?b then _ else _) => destruct b eqn:?
    | |- TPR _ (bindr (if ?b then _ else _) _) => destruct b eqn:?
    | |- TPR _ (bindr (bindr (if ?b then _ else _) _) _) => destruct b eqn:?
    | |- TPR _ (bindr (bindr (bindr (if ?b then _ else _) _) _) _) => destruct b eqn:?
    | |- TPR _ (match ?y with _ => _ end) => destruct y eqn:?
    | |- TPR _ (bindr (match ?y with _ => _ end) _) => destruct y eqn:?
    | |- TPR _ (bindr (bindr (match ?y with _ => _ end) _) _) => destruct y eqn:?
    | |- TPR _ (bindr (bindr (bindr (match ?y with _ => _ end) _) _) _) => destruct y eqn:?
    end ].
Ltac tp_final :=
  match goal with
  | |- TPR _ (Panic _) => exact I
  | |- TPR _ (Ok _) => tp_leaf
  | |- TPR _ (send_and_post _ _ _ _) => tp_norm; (apply send_and_post_TPR; tp_search)
  end.
Ltac tp_auto := cbv zeta; repeat th; try tp_final.



Lemma send_plain_TPR c p : TPR c (send_plain c p). Proof. unfold send_plain. tp_auto. Qed.
Lemma send_connect_TPR c p : TPR c (send_connect c p). Proof. unfold send_connect. tp_auto. Qed.
Lemma send_publish_v311_TPR c p : TPR c (send_publish_v311 c p). Proof. unfold send_publish_v311. tp_auto. Qed.
Lemma send_publish_v5_TPR g c p : TPR c (send_publish_v5 g c p). Proof. unfold send_publish_v5. tp_auto. Qed.
Lemma send_puback_like_TPR c p : TPR c (send_puback_like c p). Proof. unfold send_puback_like. tp_auto. Qed.
Lemma send_pubrel_TPR c p : TPR c (send_pubrel c p). Proof. unfold send_pubrel. tp_auto. Qed.
Lemma send_sub_unsub_TPR c p : TPR c (send_sub_unsub c p). Proof. unfold send_sub_unsub. tp_auto. Qed.
Lemma send_pingreq_TPR c p : TPR c (send_pingreq c p). Proof. unfold send_pingreq. tp_auto. Qed.
Lemma send_disconnect_TPR c p : TPR c (send_disconnect c p). Proof. unfold send_disconnect. tp_auto. Qed.
Lemma send_auth_TPR c p : TPR c (send_auth c p). Proof. unfold send_auth. tp_auto. Qed.

Lemma send_stored_TPR c : TPR c (send_stored c).
Proof.
  unfold send_stored. destruct (send_stored_l _ _) as [kept dropped]. cbv zeta.
  destruct (release_all _ _) as [a|]; cbn [bindr TPR]; [|exact I]. apply tp_frame. destruct (c_send_max _); reflexivity.
Qed.
Lemma connack_send_props_tp c p : TP c (fst (connack_send_props c p)).
Proof.
  unfold connack_send_props. destruct (_ && _); [|apply tp_refl].
  repeat match goal with |- context [match ?o with Some _ => _ | None => _ end] => destruct o
                    | |- context [if ?b then _ else _] => destruct b end; apply tp_frame; reflexivity.
Qed.
Lemma send_connack_TPR c p : TPR c (send_connack c p).
Proof.
  unfold send_connack. destruct (_ && _); [cbn [TPR]; apply tp_refl|]. destruct (negb _); [cbn [TPR]; apply tp_refl|]. cbv zeta.
  pose proof (connack_send_props_tp c p) as K1. destruct (connack_send_props c p) as [c1 pre]. cbn [fst] in *.
  destruct (negb _).
  - pose proof (cancel_tp (set_status c1 Disconnected)) as Hc. destruct (cancel_timers _) as [c2 e]. cbn [fst TPR] in *.
    eapply tp_trans; [exact K1|]. eapply tp_trans; [|exact Hc]. apply tp_frame. reflexivity.
  - pose proof (send_stored_TPR (set_status c1 Connected)) as H. destruct (send_stored _) as [[c2 es]|]; cbn [bindr TPR] in *; [|exact I].
    pose proof (post_tp c2) as Hp. destruct (send_post_process c2) as [c3 e3]. cbn [fst TPR] in *.
    eapply tp_trans; [exact K1|]. eapply tp_trans; [apply tp_frame; reflexivity|]. eapply tp_trans; [exact H|exact Hp].
Qed.
Lemma dispatch_send_TPR g c p : TPR c (dispatch_send g c p).
Proof.
  unfold dispatch_send. cbv zeta.
  destruct (k_type p =? T_CONNECT); [apply send_connect_TPR|].
  destruct (k_type p =? T_CONNACK); [apply send_connack_TPR|].
  destruct (k_type p =? T_PUBLISH); [destruct (version_eqb _ _); [apply send_publish_v5_TPR|apply send_publish_v311_TPR]|].
  destruct ((k_type p =? T_PUBACK) || (k_type p =? T_PUBREC) || (k_type p =? T_PUBCOMP)); [apply send_puback_like_TPR|].
  destruct (k_type p =? T_PUBREL); [apply send_pubrel_TPR|].
  destruct ((k_type p =? T_SUBSCRIBE) || (k_type p =? T_UNSUBSCRIBE)); [apply send_sub_unsub_TPR|].
  destruct ((k_type p =? T_SUBACK) || (k_type p =? T_UNSUBACK) || (k_type p =? T_PINGRESP)); [apply send_plain_TPR|].
  destruct (k_type p =? T_PINGREQ); [apply send_pingreq_TPR|].
  destruct (k_type p =? T_DISCONNECT); [apply send_disconnect_TPR|].
  destruct (k_type p =? T_AUTH); [apply send_auth_TPR|]. cbn [TPR]. apply tp_refl.
Qed.
Lemma do_send_TPR g c p : TPR c (do_send g c p).
Proof.
  unfold do_send. cbv zeta.
  repeat match goal with |- TPR _ (if ?b then _ else _) => destruct b end; first [apply dispatch_send_TPR|cbn [TPR]; apply tp_refl].
Qed.

Lemma close_with_disconnect_TPR c p : TPR c (close_with_disconnect c p).
Proof. unfold close_with_disconnect. destruct (_ && _); [tp_auto|apply send_disconnect_TPR]. Qed.
Lemma handle_v5_error_TPR c e : TPR c (handle_v5_error c e).
Proof.
  unfold handle_v5_error. pose proof (close_with_disconnect_TPR c (disconnect_v5 (disc_rc_of_err e))) as H.
  destruct (close_with_disconnect _ _) as [[c' ev]|]; cbn [bindr TPR] in *; [exact H|exact I].
Qed.
Lemma handle_error_TPR c v e : TPR c (handle_error c v e).
Proof. unfold handle_error. destruct (version_eqb v V50); [apply handle_v5_error_TPR|cbn [TPR]; apply tp_refl]. Qed.

Ltac tcall :=
  match goal with
  | |- TPR _ (handle_v5_error ?c ?e) => eapply TPR_trans; [|apply handle_v5_error_TPR]; tp_norm; tp_search
  | |- TPR _ (handle_error ?c ?v ?e) => eapply TPR_trans; [|apply handle_error_TPR]; tp_norm; tp_search
  | |- TPR _ (bindr (handle_v5_error ?c ?e) _) =>
      let H := fresh "Hk" in pose proof (handle_v5_error_TPR c e) as H; destruct (handle_v5_error c e) as [[? ?]|]; cbn [TPR] in H
  | |- TPR _ (bindr (send_puback_like ?c ?p) _) =>
      let H := fresh "Hk" in pose proof (send_puback_like_TPR c p) as H; destruct (send_puback_like c p) as [[? ?]|]; cbn [TPR] in H
  | |- TPR _ (bindr (send_pubrel ?c ?p) _) =>
      let H := fresh "Hk" in pose proof (send_pubrel_TPR c p) as H; destruct (send_pubrel c p) as [[? ?]|]; cbn [TPR] in H
  | |- TPR _ (bindr (send_plain ?c ?p) _) =>
      let H := fresh "Hk" in pose proof (send_plain_TPR c p) as H; destruct (send_plain c p) as [[? ?]|]; cbn [TPR] in H
  | |- TPR _ (bindr (close_with_disconnect ?c ?p) _) =>
      let H := fresh "Hk" in pose proof (close_with_disconnect_TPR c p) as H; destruct (close_with_disconnect c p) as [[? ?]|]; cbn [TPR] in H
  end.



Lemma note_inbound_tp c p : TP c (note_inbound c p).
Proof. unfold note_inbound. destruct (negb _); apply tp_frame; reflexivity. Qed.
Lemma note_handled_tp c p : TP c (note_handled c p).
Proof. unfold note_handled. destruct (_ =? _); apply tp_frame; reflexivity. Qed.
Lemma store_erase_tp c v t id : TP c (store_erase c v t id).
Proof. unfold store_erase. apply tp_frame. reflexivity. Qed.
Ltac tp_gen :=
  repeat match goal with
         | |- context [note_handled ?c ?p] => let H := fresh in pose proof (note_handled_tp c p) as H; generalize dependent (note_handled c p); intros
         | _ : context [note_handled ?c ?p] |- _ => let H := fresh in pose proof (note_handled_tp c p) as H; generalize dependent (note_handled c p); intros
         | |- context [note_inbound ?c ?p] => let H := fresh in pose proof (note_inbound_tp c p) as H; generalize dependent (note_inbound c p); intros
         | _ : context [note_inbound ?c ?p] |- _ => let H := fresh in pose proof (note_inbound_tp c p) as H; generalize dependent (note_inbound c p); intros
         | |- context [store_erase ?c ?v ?t ?i] => let H := fresh in pose proof (store_erase_tp c v t i) as H; generalize dependent (store_erase c v t i); intros
         | _ : context [store_erase ?c ?v ?t ?i] |- _ => let H := fresh in pose proof (store_erase_tp c v t i) as H; generalize dependent (store_erase c v t i); intros
         end.
Ltac tp_final3 := match goal with |- TPR _ (Panic _) => exact I | |- TPR _ (Ok _) => cbn [TPR]; tp_gen; tp_norm; tp_search end.
Ltac tp_auto3 := cbv zeta; repeat first [tcall | th]; try tp_final3.

Lemma recv_publish_v311_TPR g c pr : TPR c (recv_publish_v311 g c pr).
Proof. unfold recv_publish_v311, handle_v311_error. destruct pr as [p|e]; tp_auto3. Qed.
Lemma resolve_recv_alias_TPR g c p :
  match resolve_recv_alias g c p with Ok (c', _, _, _) => TP c c' | Panic _ => True end.
Proof.
  unfold resolve_recv_alias.
  repeat match goal with
         | |- match bindr (handle_v5_error ?cc ?e) _ with _ => _ end =>
             let H := fresh "Hk" in pose proof (handle_v5_error_TPR cc e) as H; destruct (handle_v5_error cc e) as [[? ?]|]; cbn [bindr TPR] in *
         | |- match bindr (tar_insert ?r ?t ?a) _ with _ => _ end => destruct (tar_insert r t a) as [?|]; cbn [bindr]
         | |- match (if ?b then _ else _) with _ => _ end => destruct b
         | |- match (match ?o with Some _ => _ | None => _ end) with _ => _ end => destruct o
         end; try exact I; try assumption; first [apply tp_refl|apply tp_frame; reflexivity].
Qed.
Lemma recv_publish_v5_TPR g c pr : TPR c (recv_publish_v5 g c pr).
Proof.
  unfold recv_publish_v5. destruct pr as [p|e]; [|tp_auto3]. cbv zeta.
  destruct (_ && _); [apply handle_v5_error_TPR|].
  pose proof (resolve_recv_alias_TPR g (note_inbound c p) p) as Hr.
  destruct (resolve_recv_alias g (note_inbound c p) p) as [[[[c1 q] st] e0]|]; cbn [bindr]; [|exact I].
  pose proof (note_inbound_tp c p) as Hn. assert (Hc1 : TP c c1) by (now apply (tp_trans _ (note_inbound c p))).
  clear Hr Hn. generalize dependent (note_inbound c p). intros _.
  destruct st; [cbn [TPR]; exact Hc1|]. tp_auto3.
Qed.
Lemma recv_ack_TPR g c v t pr : TPR c (recv_ack g c v t pr).
Proof. unfold recv_ack. destruct pr as [p|e]; [|apply handle_error_TPR]. tp_auto3. Qed.
Lemma recv_pubrel_TPR g c v pr : TPR c (recv_pubrel g c v pr).
Proof. unfold recv_pubrel. destruct pr as [p|e]; [|apply handle_error_TPR]. tp_auto3. Qed.
Lemma recv_notify_TPR c v pr : TPR c (recv_notify c v pr).
Proof. unfold recv_notify. destruct pr as [p|e]; [|apply handle_error_TPR]. tp_auto3. Qed.
Lemma recv_pingreq_TPR g c v pr : TPR c (recv_pingreq g c v pr).
Proof. unfold recv_pingreq. destruct pr as [p|e]; [|apply handle_error_TPR]. tp_auto3. Qed.
Lemma recv_pingresp_TPR c v pr : TPR c (recv_pingresp c v pr).
Proof. unfold recv_pingresp. destruct pr as [p|e]; [|apply handle_error_TPR]. tp_auto3. Qed.
Lemma recv_disconnect_TPR c v pr : TPR c (recv_disconnect c v pr).
Proof. unfold recv_disconnect. destruct pr as [p|e]; [|apply handle_error_TPR]. tp_auto3. Qed.

(* the Topic Alias Maximum a parsed CONNECT / CONNACK reports is a two-byte integer *)
Definition tam_le (p : pkt) : Prop := match k_tam p with Some m => m <= 65535 | None => True end.

Lemma connect_recv_state_tp c v p c' : tam_le p -> connect_recv_state c v p = Ok c' -> TP c c'.
Proof.
  intro Ht. unfold connect_recv_state, tam_le in *. cbv zeta.
  destruct (version_eqb v V50).
  - destruct (k_tam p) as [m|].
    + destruct (negb (m =? 0)).
      * destruct (tas_new m) as [s|] eqn:En; cbn [bindr]; [|discriminate]. intro H; injection H as <-.
        apply (tp_set _ _ s); [own_split_goal|exact (tas_new_tb m s Ht En)].
      * cbn [bindr]. intro H; injection H as <-. apply tp_none. own_split_goal.
    + cbn [bindr]. intro H; injection H as <-. apply tp_none. own_split_goal.
  - intro H; injection H as <-. apply tp_none. own_split_goal.
Qed.

Definition pr_tam_le (pr : presult) : Prop := match pr with PROk p => tam_le p | PRErr _ => True end.

Lemma recv_connect_TPR g c v pr : pr_tam_le pr -> TPR c (recv_connect g c v pr).
Proof.
  intro Ht. unfold recv_connect. destruct (negb _); [apply handle_error_TPR|].
  destruct pr as [p|e].
  - destruct (connect_recv_state _ v p) as [c1|] eqn:E; cbn [bindr]; [|exact I]. apply (connect_recv_state_tp _ v p c1 Ht) in E.
    pose proof (refresh_tp c1) as Hr. destruct (refresh_pingreq_recv c1) as [c2 e2]. cbn [fst TPR] in *.
    eapply tp_trans; [apply tp_frame; reflexivity|]. eapply tp_trans; [exact E|exact Hr].
  - pose proof (send_connack_TPR (set_status c Connecting) (connect_refusal v e)) as H.
    destruct (send_connack _ _) as [[c1 ev]|]; cbn [bindr TPR] in *; [|exact I].
    eapply tp_trans; [apply tp_frame; reflexivity|exact H].
Qed.
Lemma connack_recv_limits_tp c p c' : tam_le p -> connack_recv_limits c p = Ok c' -> TP c c'.
Proof.
  intro Ht. unfold connack_recv_limits, tam_le in *.
  destruct (k_tam p) as [m|]; [destruct (0 <? m); [destruct (tas_new m) as [s|] eqn:En|]|]; cbn [bindr]; try discriminate;
  (destruct (k_rm p) as [r|]; [destruct (r =? 0)|]; cbn [bindr]; try discriminate);
  (destruct (k_mps p) as [y|]; [destruct (y =? 0)|]; try discriminate);
  intro H; injection H as <-;
  first [ (apply (tp_set _ _ s); [conn_simpl_goal; reflexivity|exact (tas_new_tb m s Ht En)]) | (apply tp_frame; reflexivity) ].
Qed.
Lemma connack_recv_ska_tp c p : TP c (fst (connack_recv_ska c p)).
Proof.
  unfold connack_recv_ska.
  repeat match goal with |- context [if ?b then _ else _] => destruct b
                    | |- context [match ?o with Some _ => _ | None => _ end] => destruct o end; apply tp_frame; reflexivity.
Qed.
Lemma resume_or_clear_TPR c b : TPR c (resume_or_clear c b).
Proof.
  unfold resume_or_clear. destruct b.
  - pose proof (send_stored_TPR c) as H. destruct (send_stored c) as [[c1 es]|]; cbn [bindr TPR] in *; [|exact I].
    destruct (existsb _ _); [|exact H]. pose proof (post_tp c1) as Hp. destruct (send_post_process c1) as [c2 e2]. cbn [fst TPR] in *. now apply (tp_trans _ c1).
  - cbn [TPR]. apply tp_frame. unfold clear_store_related. conn_simpl_goal. reflexivity.
Qed.
Lemma recv_connack_TPR c v pr : pr_tam_le pr -> TPR c (recv_connack c v pr).
Proof.
  intro Ht. unfold recv_connack. destruct (status_eqb (c_status c) Connected); [apply handle_error_TPR|].
  destruct pr as [p|e].
  2:{ destruct (version_eqb v V50); cbn [TPR]; apply tp_refl. }
  destruct (k_rc p =? 0); [|cbn [TPR]; apply tp_refl]. cbv zeta.
  destruct (version_eqb v V50).
  - destruct (connack_recv_limits _ p) as [c1|] eqn:E1; cbn [bindr]; [|exact I]. apply (connack_recv_limits_tp _ p c1 Ht) in E1.
    pose proof (connack_recv_ska_tp c1 p) as E2. destruct (connack_recv_ska c1 p) as [c2 e1]. cbn [fst] in *.
    assert (E3 : TP c2 (connack_recv_sei c2 p)).
    { unfold connack_recv_sei. destruct (k_sei p); [destruct (_ =? 0)|]; first [apply tp_refl|(apply tp_frame; unfold clear_store_related; conn_simpl_goal; reflexivity)]. }
    pose proof (resume_or_clear_TPR (connack_recv_sei c2 p) (k_flag p)) as H.
    destruct (resume_or_clear _ _) as [[c3 e2]|]; cbn [bindr TPR] in *; [|exact I].
    eapply tp_trans; [apply tp_frame; reflexivity|]. eapply tp_trans; [exact E1|]. eapply tp_trans; [exact E2|]. eapply tp_trans; [exact E3|exact H].
  - pose proof (resume_or_clear_TPR (set_status c Connected) (k_flag p)) as H.
    destruct (resume_or_clear _ _) as [[c3 e2]|]; cbn [bindr TPR] in *; [|exact I].
    eapply tp_trans; [apply tp_frame; reflexivity|exact H].
Qed.

Lemma dispatch_recv_TPR g c v t pr : pr_tam_le pr -> TPR c (dispatch_recv g c v t pr).
Proof.
  intro Ho. unfold dispatch_recv.
  repeat match goal with |- TPR _ (if ?b then _ else _) => destruct b end;
    first [ now apply recv_connect_TPR | now apply recv_connack_TPR | apply recv_publish_v5_TPR | apply recv_publish_v311_TPR | apply recv_ack_TPR
          | apply recv_pubrel_TPR | apply recv_notify_TPR | apply recv_pingreq_TPR | apply recv_pingresp_TPR | apply recv_disconnect_TPR
          | (cbn [TPR]; apply tp_refl) ].
Qed.
Lemma process_recv_packet_TPR g c fh body pr : pr_tam_le pr -> TPR c (process_recv_packet g c fh body pr).
Proof.
  intro Ho. unfold process_recv_packet. cbv zeta.
  destruct (_ <? _).
  { destruct (status_eqb _ _).
    - pose proof (close_with_disconnect_TPR c (disconnect_v5 149)) as H. destruct (close_with_disconnect _ _) as [[c1 e1]|]; cbn [bindr TPR] in *; [exact H|exact I].
    - pose proof (cancel_tp (set_status c Disconnected)) as H. destruct (cancel_timers _) as [c1 e1]. cbn [fst TPR] in *.
      eapply tp_trans; [apply tp_frame; reflexivity|exact H]. }
  destruct (negb _); [cbn [TPR]; apply tp_refl|].
  destruct (c_version c); try (now apply dispatch_recv_TPR).
  repeat match goal with |- TPR _ (if ?b then _ else _) => destruct b end;
    first [ (eapply TPR_trans; [|now apply recv_connect_TPR]; apply tp_frame; reflexivity) | (cbn [TPR]; apply tp_refl) ].
Qed.
Lemma do_recv_tp g c bytes pr : pr_tam_le pr ->
  match do_recv g c bytes pr with Ok (c', _, _) => TP c c' | Panic _ => True end.
Proof.
  intro Ho. unfold do_recv. destruct (feed (c_pb c) bytes) as [[r pb'] rest]. destruct r.
  - pose proof (process_recv_packet_TPR g (set_pb c pb') (hd 0 hdr) body pr Ho) as H.
    destruct (process_recv_packet g _ _ body pr) as [[c1 e1]|]; cbn [bindr TPR] in *; [|exact I].
    eapply tp_trans; [apply tp_frame; reflexivity|exact H].
  - apply tp_frame. reflexivity.
  - pose proof (cancel_tp (set_pb c pb')) as H. destruct (cancel_timers (set_pb c pb')) as [c1 e1]. cbn [fst] in H.
    eapply tp_trans; [apply tp_frame; reflexivity|exact H].
Qed.
Lemma do_timer_TPR c k : TPR c (do_timer c k).
Proof.
  unfold do_timer. destruct k; cbv zeta.
  - destruct (status_eqb _ _); [|cbn [TPR]; apply tp_frame; reflexivity].
    destruct (c_version _); try exact I; (eapply TPR_trans; [|apply send_pingreq_TPR]); apply tp_frame; reflexivity.
  - destruct (c_version _); try exact I; [cbn [TPR]; apply tp_frame; reflexivity|].
    destruct (status_eqb _ _); [|cbn [TPR]; apply tp_frame; reflexivity].
    (eapply TPR_trans; [|apply close_with_disconnect_TPR]); apply tp_frame; reflexivity.
  - destruct (c_version _); try exact I; [cbn [TPR]; apply tp_frame; reflexivity|].
    destruct (status_eqb _ _); [|cbn [TPR]; apply tp_frame; reflexivity].
    (eapply TPR_trans; [|apply close_with_disconnect_TPR]); apply tp_frame; reflexivity.
Qed.
Lemma do_closed_TPR c : TPR c (do_closed c).
Proof.
  destruct (do_closed c) as [[c' e]|] eqn:E; [|exact I]. cbn [TPR]. apply tp_none.
  now destruct (closed_has_shape c c' e E) as (_ & _ & Hs & _).
Qed.
Lemma do_erase_TPR c id : TPR c (do_erase c id).
Proof.
  unfold do_erase. destruct (store_erase_publish_l id (c_store c)) as [b l]. destruct b; [|cbn [TPR]; apply tp_refl]. cbv zeta.
  match goal with |- TPR _ (release_if_used ?y id) => destruct (release_if_used y id) as [[c1 e]|] eqn:E; [apply release_if_used_tp in E|exact I] end.
  cbn [TPR]. eapply tp_trans; [|exact E]. apply tp_frame. destruct (c_send_max _); [destruct (0 <? _)|]; reflexivity.
Qed.
Lemma do_restore_tp l : forall c, TP c (do_restore c l).
Proof.
  induction l as [|p t IH]; intro c; cbn [do_restore]; [apply tp_refl|].
  eapply tp_trans; [|apply IH]. destruct (_ && _); [apply tp_refl|].
  destruct (pm_register _ _) as [ok a]. destruct ok; [|apply tp_refl]. unfold store_add_soft.
  repeat match goal with |- context [if ?b then _ else _] => destruct b end; apply tp_frame; reflexivity.
Qed.

Definition tam_op_ok (o : op) : Prop := match o with ORecv _ pr => pr_tam_le pr | _ => True end.

Theorem step_keeps_TAS g c o : tam_op_ok o -> TAS c ->
  match step g c o with Ok (c', _, _) => TAS c' | Panic _ => True end.
Proof.
  intros Ho HT. destruct o; cbn [step tam_op_ok] in *.
  - pose proof (do_send_TPR g c p) as H. destruct (do_send g c p) as [[c' e]|]; cbn [bindr TPR] in *; [now apply H|exact I].
  - pose proof (do_recv_tp g c bytes pr Ho) as H. destruct (do_recv g c bytes pr) as [[[c' e] r]|]; cbn [bindr] in *; [now apply H|exact I].
  - pose proof (do_timer_TPR c k) as H. destruct (do_timer c k) as [[c' e]|]; cbn [bindr TPR] in *; [now apply H|exact I].
  - pose proof (do_closed_TPR c) as H. destruct (do_closed c) as [[c' e]|]; cbn [bindr TPR] in *; [now apply H|exact I].
  - unfold do_set_pingreq_interval. cbv zeta.
    repeat match goal with
           | |- context [match ?y with Some _ => _ | None => _ end] => destruct y
           | |- context [if ?b then _ else _] => destruct b
           end; cbn [bindr]; exact HT.
  - exact HT.
  - destruct b; exact HT.
  - exact HT.
  - exact HT.
  - exact HT.
  - exact HT.
  - destruct (pm_acquire (c_pid c)) as [[r a]|]; cbn [bindr]; [exact HT|exact I].
  - destruct (pm_register (c_pid c) id) as [b a]. exact HT.
  - destruct (release_if_used c id) as [[c' e]|] eqn:E; cbn [bindr]; [exact (release_if_used_tp c id c' e E HT)|exact I].
  - pose proof (do_erase_TPR c id) as H. destruct (do_erase c id) as [[c' e]|]; cbn [bindr TPR] in *; [now apply H|exact I].
  - exact (do_restore_tp l c HT).
  - exact HT.
  - exact HT.
Qed.
