(* C01, model side: THE DELIVERY ACCOUNTING ACROSS TRANSPORT LOSS, QoS 2.  On top of PairLoss.v: in every state of every
   schedule of publications, deliveries and losses, the QoS 2 messages published are — up to the DUP flag — the QoS 2
   messages already notified to the receiving application followed by those whose PUBLISH is in flight and has not yet
   been recorded by the receiver, in order; so once the links have drained every QoS 2 message has been notified EXACTLY
   ONCE, in order of publication, whatever was lost and retransmitted on the way. *)
From Coq Require Import Permutation.
From MQ Require Import Base.Prelude Alloc.Alloc Alloc.SetSpec Alloc.AllocProofs Framing.Framing
                       Conn.Types Conn.TopicAlias Conn.ConnRecord Conn.Step Conn.Run Corr.ConnTrace Conn.Scope Conn.IdsQuota Conn.WfInv
                       Conn.Own Conn.OwnFrame Conn.OwnStep Conn.Qos2Dup Conn.TasBounds Conn.NoPanic Conn.SupFrame Conn.SupStep Conn.SessInv
                       Conn.PairQos Conn.PairQos5 Conn.PairSeq Conn.PairConc Conn.PairLoss.

(* ---- lists ---- *)
Definition undup (x : pkt) : pkt := set_dup x false.
Definition q2 (x : pkt) : bool := is_pub x && negb (k_qos x =? 1).
(* QoS 2 PUBLISHes of a list that the receiver (handled set Q) has not recorded *)
Definition pend2 (Q : list N) (l : list pkt) : list pkt := filter (fun x => q2 x && negb (mem (k_pid x) Q)) l.

Lemma undup_pid a b : undup a = undup b -> k_pid a = k_pid b.
Proof. intro H. change (k_pid a) with (k_pid (undup a)). rewrite H. reflexivity. Qed.
Lemma pend2_app Q a b : pend2 Q (a ++ b) = pend2 Q a ++ pend2 Q b. Proof. unfold pend2. apply filter_app. Qed.
Lemma pend2_ext Q Q' l : (forall x, In x l -> q2 x = true -> mem (k_pid x) Q' = mem (k_pid x) Q) -> pend2 Q' l = pend2 Q l.
Proof.
  intro H. unfold pend2. apply filter_ext_in. intros x Hx. destruct (q2 x) eqn:E; [|reflexivity]. rewrite (H x Hx E). reflexivity.
Qed.
Lemma pend2_other Q Q' id l : (forall y, y <> id -> mem y Q' = mem y Q) -> ~ In id (map k_pid l) -> pend2 Q' l = pend2 Q l.
Proof.
  intros H Hn. apply pend2_ext. intros x Hx _. apply H. intro E. apply Hn. rewrite <- E. now apply in_map.
Qed.

Lemma pend2_ins Q id l : pend2 (ins id Q) l = filter (fun x => negb (k_pid x =? id)) (pend2 Q l).
Proof.
  unfold pend2. induction l as [|x t IH]; cbn [filter]; [reflexivity|]. rewrite mem_ins.
  destruct (q2 x); cbn [andb]; [|exact IH]. destruct (k_pid x =? id) eqn:E; cbn [orb negb].
  - destruct (mem (k_pid x) Q); cbn [negb filter]; [exact IH|]. rewrite E. cbn [negb]. exact IH.
  - destruct (mem (k_pid x) Q); cbn [negb filter]; [exact IH|]. rewrite E. cbn [negb]. now rewrite IH.
Qed.
Lemma nodup_filter_map (f : pkt -> bool) l : NoDup (map k_pid l) -> NoDup (map k_pid (filter f l)).
Proof.
  induction l as [|x t IH]; cbn [map filter]; [auto|]. intro H. inversion H as [|? ? Hn Ht]; subst. destruct (f x); cbn [map]; [|now apply IH].
  constructor; [|now apply IH]. intro Hi. apply Hn. apply in_map_iff in Hi as (y & E & Hy). apply filter_In in Hy as [Hy _]. rewrite <- E. now apply in_map.
Qed.
Lemma filter_all (f : pkt -> bool) l : (forall x, In x l -> f x = true) -> filter f l = l.
Proof. induction l as [|x t IH]; cbn [filter]; [auto|]. intro H. rewrite (H x (or_introl eq_refl)). f_equal. apply IH. intros y Hy. apply H. now right. Qed.
Lemma nodup_pid_eq l a b : NoDup (map k_pid l) -> In a l -> In b l -> k_pid a = k_pid b -> a = b.
Proof.
  induction l as [|x t IH]; [intros _ []|]. cbn [map]. intro H. inversion H as [|? ? Hn Ht]; subst. intros [Ha|Ha] [Hb|Hb] E.
  - congruence.
  - subst x. exfalso. apply Hn. rewrite E. now apply in_map.
  - subst x. exfalso. apply Hn. rewrite <- E. now apply in_map.
  - now apply IH.
Qed.
Lemma filter_erase_l (f : pkt -> bool) v r id S :
  (forall q, In q S -> k_pid q = id -> response_of q = r -> f q = false) -> filter f (store_erase_l v r id S) = filter f S.
Proof.
  induction S as [|p t IH]; cbn [store_erase_l]; [reflexivity|]. intro H. destruct (N.eqb_spec (k_pid p) id) as [E|E].
  - destruct (version_eqb (k_ver p) v && (response_of p =? r)) eqn:Em; [|reflexivity].
    apply andb_true_iff in Em as [_ Er]. apply N.eqb_eq in Er. cbn [filter]. now rewrite (H p (or_introl eq_refl) E Er).
  - cbn [filter]. rewrite IH; [reflexivity|]. intros q Hq. apply H. now right.
Qed.
Lemma q2_dup p b : q2 (set_dup p b) = q2 p. Proof. reflexivity. Qed.
Lemma undup_dup p b : undup (set_dup p b) = undup p. Proof. reflexivity. Qed.
Lemma store_into_pub q : (k_type q =? T_PUBLISH) = true -> store_into q = q.
Proof. intro E. unfold store_into. now rewrite E. Qed.
Lemma store_into_nonpub q : (k_type q =? T_PUBLISH) = false -> q2 (store_into q) = false /\ q2 q = false.
Proof. intro E. unfold store_into, q2, is_pub. rewrite E. split; reflexivity. Qed.
Lemma pend2_store_into Q S : pend2 Q (map store_into S) = pend2 Q S.
Proof.
  unfold pend2. induction S as [|q t IH]; cbn [map filter]; [reflexivity|]. destruct (k_type q =? T_PUBLISH) eqn:E.
  - rewrite (store_into_pub q E). now rewrite IH.
  - destruct (store_into_nonpub q E) as [E1 E2]. rewrite E1, E2. cbn [andb]. exact IH.
Qed.
Lemma filter_q2_snoc l x : filter q2 (l ++ [x]) = filter q2 l ++ (if q2 x then [x] else []).
Proof. rewrite filter_app. reflexivity. Qed.

Section Acc.
Variables gs gr : cfg.
Hypothesis gs_client : role_client_ok gs = true.
Hypothesis gr_server : role_server_ok gr = true.
Hypothesis idw_small : 2 + g_idw gs <= MQTT_PACKET_SIZE_NO_LIMIT.

(* ---- what each action does to the system, case by case ---- *)
Lemma toR_shape s : invL gs gr s ->
  match do_to_r gr s with
  | Next s' => exists x t, qsr s = x :: t /\ cs s' = cs s /\ qsr s' = t /\ published s' = published s /\
      ((k_type x = T_PUBLISH /\ k_qos x = 1 /\ delivered s' = delivered s ++ [x] /\ qrs s' = qrs s ++ [ack_of gr T_PUBACK (k_pid x)] /\
        c_qos2 (cr s') = c_qos2 (cr s)) \/
       (k_type x = T_PUBLISH /\ (k_qos x =? 1) = false /\
        delivered s' = delivered s ++ (if mem (k_pid x) (c_qos2 (cr s)) then [] else [x]) /\
        qrs s' = qrs s ++ [ack_of gr T_PUBREC (k_pid x)] /\ c_qos2 (cr s') = ins (k_pid x) (c_qos2 (cr s))) \/
       (k_type x = T_PUBREL /\ delivered s' = delivered s /\ qrs s' = qrs s ++ [ack_of gr T_PUBCOMP (k_pid x)] /\
        c_qos2 (cr s') = del (k_pid x) (c_qos2 (cr s))))
  | _ => True
  end.
Proof.
  destruct s as [cs0 cr0 qsr0 qrs0 pub0 del0]. unfold invL, do_to_r. cbn [cs cr qsr qrs published delivered].
  intros (HK & Rs & Has & Hns & Hmp & Hfit & HKr & Rr & Har & Hnr & Hsr & Hasc & Fsr & Frs & Hnd & Hq & Hpc).
  destruct qsr0 as [|x t]; [exact I|]. inversion Fsr as [|? ? Hx Ht]; subst.
  destruct Hx as (Hu & Hvx & [(Htp & Hqq & Hm)|[(Htp & Hq0 & Hq1 & Hm)|(Htp & Hm)]]).
  - pose proof (receiver_pub1 gr cr0 x Rr Har Htp Hvx Hqq) as H.
    destruct (deliver gr cr0 x) as [[cr1 e]|]; [|exact I]. destruct H as (N1 & S1 & X1 & _ & Q1).
    rewrite S1, X1, N1. cbn [one none negb filter].
    assert (Hip : is_pub x = true) by (unfold is_pub; rewrite Htp; reflexivity). rewrite Hip.
    exists x, t. cbn [cs cr qsr qrs published delivered]. do 4 (split; [reflexivity|]). left. repeat split; assumption || reflexivity.
  - pose proof (receiver_pub2 gr cr0 x Rr Har Htp Hvx Hq0 Hq1) as H.
    destruct (deliver gr cr0 x) as [[cr1 e]|]; [|exact I]. destruct H as (N1 & S1 & X1 & _ & Q1).
    rewrite S1, X1, N1. cbn [one none negb].
    assert (Hip : is_pub x = true) by (unfold is_pub; rewrite Htp; reflexivity).
    exists x, t. cbn [cs cr qsr qrs published delivered]. do 4 (split; [reflexivity|]). right. left.
    split; [exact Htp|]. split; [exact Hq1|]. split; [|split; [reflexivity|exact Q1]].
    destruct (mem (k_pid x) (c_qos2 cr0)); cbn [filter]; rewrite ?Hip; reflexivity.
  - pose proof (receiver_rel gr cr0 x Rr Har Htp) as H.
    destruct (deliver gr cr0 x) as [[cr1 e]|]; [|exact I]. destruct H as (N1 & S1 & X1 & _ & Q1).
    rewrite S1, X1, N1. cbn [one none negb filter].
    assert (Hip : is_pub x = false) by (unfold is_pub; rewrite Htp; reflexivity). rewrite Hip.
    exists x, t. cbn [cs cr qsr qrs published delivered]. do 4 (split; [reflexivity|]). right. right.
    split; [exact Htp|]. split; [apply app_nil_r|]. split; [reflexivity|exact Q1].
Qed.

Lemma toS_shape s : invL gs gr s ->
  match do_to_s gs s with
  | Next s' => exists x t, qrs s = x :: t /\ cr s' = cr s /\ qrs s' = t /\ published s' = published s /\ delivered s' = delivered s /\
      ((k_type x = T_PUBACK /\ qsr s' = qsr s /\ c_store (cs s') = store_erase_l V311 T_PUBACK (k_pid x) (c_store (cs s)) /\
        is_used (cs s') (k_pid x) = false) \/
       (k_type x = T_PUBREC /\ qsr s' = qsr s ++ [pubrel_of gs (k_pid x)] /\
        c_store (cs s') = store_erase_l V311 T_PUBREC (k_pid x) (c_store (cs s)) ++ [pubrel_of gs (k_pid x)]) \/
       (k_type x = T_PUBCOMP /\ qsr s' = qsr s /\ c_store (cs s') = store_erase_l V311 T_PUBCOMP (k_pid x) (c_store (cs s)) /\
        is_used (cs s') (k_pid x) = false))
  | _ => True
  end.
Proof.
  destruct s as [cs0 cr0 qsr0 qrs0 pub0 del0]. unfold invL, do_to_s. cbn [cs cr qsr qrs published delivered].
  intros (HK & Rs & Has & Hns & Hmp & Hfit & HKr & Rr & Har & Hnr & Hsr & Hasc & Fsr & Frs & Hnd & Hq & Hpc).
  destruct qrs0 as [|x t]; [exact I|]. inversion Frs as [|? ? Hx Ht]; subst.
  destruct HK as (HO & HS & HE & Hv).
  destruct Hx as [Hu [[He Hm]|[[He Hm]|[He Hm]]]].
  - assert (Hvx : k_ver x = V311) by (rewrite He; reflexivity). assert (Htp : k_type x = T_PUBACK) by (rewrite He; reflexivity).
    pose proof (sender_final_ack_x gs cs0 x T_PUBACK HO Rs Hvx Htp (or_introl eq_refl) Hm Hu) as H.
    pose proof (sender_final_store gs cs0 x T_PUBACK HO Rs Hns Hvx Htp (or_introl eq_refl) Hm Hu) as H''.
    destruct (deliver gs cs0 x) as [[c2 e]|]; [|exact I]. destruct H as (L1 & S1 & X1 & _ & _ & _ & U2f & _). destruct H'' as (T1 & _).
    rewrite X1, S1, L1, N.eqb_refl. cbn [none negb]. exists x, t. cbn [cs cr qsr qrs published delivered].
    do 5 (split; [reflexivity|]). left. repeat split; assumption || reflexivity.
  - assert (Hvx : k_ver x = V311) by (rewrite He; reflexivity). assert (Htp : k_type x = T_PUBREC) by (rewrite He; reflexivity).
    pose proof (sender_pubrec_x gs cs0 x HO Rs Has Hvx Htp Hm Hu) as H.
    pose proof (sender_pubrec_store gs cs0 x HO Rs Has Hns Hvx Htp Hm Hu) as H''.
    destruct (deliver gs cs0 x) as [[c2 e]|]; [|exact I]. destruct H as (S1 & X1 & L1 & _). destruct H'' as (T1 & _).
    rewrite X1, S1, L1. cbn [none negb]. exists x, t. cbn [cs cr qsr qrs published delivered].
    do 5 (split; [reflexivity|]). right. left. repeat split; assumption || reflexivity.
  - assert (Hvx : k_ver x = V311) by (rewrite He; reflexivity). assert (Htp : k_type x = T_PUBCOMP) by (rewrite He; reflexivity).
    pose proof (sender_final_ack_x gs cs0 x T_PUBCOMP HO Rs Hvx Htp (or_intror eq_refl) Hm Hu) as H.
    pose proof (sender_final_store gs cs0 x T_PUBCOMP HO Rs Hns Hvx Htp (or_intror eq_refl) Hm Hu) as H''.
    destruct (deliver gs cs0 x) as [[c2 e]|]; [|exact I]. destruct H as (L1 & S1 & X1 & _ & _ & _ & U2f & _). destruct H'' as (T1 & _).
    rewrite X1, S1, L1, N.eqb_refl. cbn [none negb]. exists x, t. cbn [cs cr qsr qrs published delivered].
    do 5 (split; [reflexivity|]). right. right. repeat split; assumption || reflexivity.
Qed.

Lemma pub_shape s p q : invL gs gr s -> v311_pub p q -> q = 1 \/ q = 2 ->
  match do_pub gs s p with
  | Next s' => cr s' = cr s /\ qrs s' = qrs s /\ delivered s' = delivered s /\ published s' = published s ++ [p] /\
               qsr s' = qsr s ++ [p] /\ c_store (cs s') = c_store (cs s) ++ [set_dup p true] /\ is_used (cs s) (k_pid p) = false
  | _ => True
  end.
Proof.
  destruct s as [cs0 cr0 qsr0 qrs0 pub0 del0]. unfold invL, do_pub. cbn [cs cr qsr qrs published delivered]. cbv zeta.
  intros (HK & Rs & Has & Hns & Hmp & Hfit & _) Hp Hqq.
  destruct (negb _) eqn:Epre; [exact I|]. apply negb_false_iff in Epre.
  apply andb_true_iff in Epre as [Epre E4]. apply andb_true_iff in Epre as [Epre E3]. apply andb_true_iff in Epre as [E1 E2].
  apply N.leb_le in E1, E2. apply negb_true_iff in E3. apply freshb_spec in E4.
  pose proof HK as (HO & HS & HE & Hv).
  destruct (register_ae gs cs0 (k_pid p) HO (conj E1 E2) E3) as (a & Ereg & O0 & U0 & Hu0). rewrite Ereg.
  set (c0 := set_pid cs0 a) in *.
  assert (R0 : ready c0) by exact Rs. assert (F0 : fresh c0 (k_pid p)) by exact E4.
  rewrite (step_send_publish_v311 gs c0 p q (proj1 R0) Hp).
  pose proof (sender_sends_x gs c0 p q O0 R0 Hp ltac:(destruct Hqq; lia) F0 U0) as H1.
  pose proof (sender_sends_store c0 p q Hp ltac:(destruct Hqq; lia) (proj2 R0) Hns U0 (proj2 F0)) as H1''.
  destruct (send_publish_v311 c0 p) as [[c1 e1]|]; cbn [bindr] in *; [|exact I].
  destruct H1 as (S1 & N1 & X1 & _). destruct H1'' as (T1 & _).
  rewrite S1, N1, X1. cbn [one none andb negb]. cbn [cs cr qsr qrs published delivered]. repeat split; assumption || reflexivity.
Qed.

Lemma lose_shape s : invL gs gr s ->
  match do_lose gs gr s with
  | Next s' => published s' = published s /\ delivered s' = delivered s /\ qrs s' = [] /\ qsr s' = map store_into (c_store (cs s)) /\
               c_store (cs s') = c_store (cs s) /\ c_qos2 (cr s') = c_qos2 (cr s)
  | _ => True
  end.
Proof.
  destruct s as [cs0 cr0 qsr0 qrs0 pub0 del0]. unfold invL, do_lose. cbn [cs cr qsr qrs published delivered].
  intros (HK & Rs & Has & Hns & Hmp & Hfit & HKr & Rr & Har & Hnr & Hsr & Hasc & _).
  destruct (close_K gs cs0 HK Hns) as (c1 & e1 & E1 & K1 & Sh1 & N1 & St1 & _ & V1 & A1). rewrite E1.
  destruct (close_K gr cr0 HKr Hnr) as (r1 & f1 & F1 & Kr1 & Shr1 & Nr1 & Str1 & Q1 & Vr1 & Ar1). rewrite F1.
  assert (Rv1 : c_version c1 = V311) by (rewrite V1; apply Rs). assert (Rvr1 : c_version r1 = V311) by (rewrite Vr1; apply Rr).
  destruct (connect_sent gs c1 gs_client K1 Sh1 Rv1 N1) as (c2 & e2 & E2 & K2 & S2 & X2 & _ & St2 & V2 & N2 & T2 & A2 & M2). rewrite E2, S2, X2.
  cbn [one none negb].
  destruct (connect_received gr r1 Kr1 Shr1 Rvr1 Nr1) as (r2 & e5 & E5 & Kr2 & _ & X5 & S5 & Str2 & Vr2 & Nr2 & Tr2 & Ar2 & Q2). rewrite E5, X5, S5.
  cbn [none andb negb].
  assert (Hst2 : c_store r2 = []) by congruence.
  destruct (connack_sent gr r2 gr_server Kr2 Str2 Vr2 Nr2 Hst2) as (r3 & e6 & E6 & Kr3 & S6 & X6 & Rr3 & Nr3 & Tr3 & Ar3 & Q3). rewrite E6, S6, X6.
  cbn [one none negb].
  assert (Hfit2 : stored_fit c2) by (unfold stored_fit; rewrite T2, St1, M2, <- Hmp; exact Hfit).
  destruct (connack_received gs c2 K2 St2 V2 N2 Hfit2) as (c3 & e3 & E3 & K3 & S3 & X3 & R3 & N3 & T3 & A3 & M3). rewrite E3, X3, S3.
  cbn [none negb]. cbn [cs cr qsr qrs published delivered].
  do 3 (split; [reflexivity|]). split; [congruence|]. split; congruence.
Qed.

(* ---- the accounting invariant ---- *)
Definition accB (s : sys) : Prop :=
  (forall x, In x (qrs s) -> k_type x = T_PUBREC -> mem (k_pid x) (c_qos2 (cr s)) = true) /\
  map undup (filter q2 (published s)) = map undup (filter q2 (delivered s)) ++ map undup (pend2 (c_qos2 (cr s)) (qsr s)) /\
  map undup (pend2 (c_qos2 (cr s)) (c_store (cs s))) = map undup (pend2 (c_qos2 (cr s)) (qsr s)).

Lemma q2_of x : k_type x = T_PUBLISH -> (k_qos x =? 1) = false -> q2 x = true.
Proof. intros Ht Hq. unfold q2, is_pub. now rewrite Ht, Hq. Qed.
Lemma q2_q1 x : k_qos x = 1 -> q2 x = false.
Proof. intro Hq. unfold q2. rewrite Hq. apply andb_false_r. Qed.
Lemma q2_nonpub x : k_type x <> T_PUBLISH -> q2 x = false.
Proof. intro Ht. unfold q2, is_pub. apply N.eqb_neq in Ht. now rewrite Ht. Qed.

Lemma accB_toR s : invL gs gr s -> accB s ->
  match do_to_r gr s with Next s' => accB s' | _ => True end.
Proof.
  intros Hi (Hpr & Hacc & Hord). pose proof (toR_shape s Hi) as Hsh. pose proof (toL_r_step gs gr idw_small s Hi) as Hst.
  destruct (do_to_r gr s) as [s'| |]; [|exact I|exact I]. destruct Hst as [Hi' _].
  destruct Hsh as (x & t & Eq & Ecs & Eq' & Epub & Hcase).
  destruct Hi as (HK & Rs & Has & Hns & Hmp & Hfit & HKr & Rr & Har & Hnr & Hsr & Hasc & Fsr & Frs & Hnd & Hq & Hpc).
  rewrite Eq in *. cbn [ids map app] in Hnd.
  assert (Hnx : ~ In (k_pid x) (ids t ++ ids (qrs s))) by (apply NoDup_cons_iff in Hnd; apply Hnd).
  assert (Hnt : ~ In (k_pid x) (map k_pid t)) by (intro Hy; apply Hnx; apply in_or_app; now left).
  unfold accB. rewrite Ecs, Eq', Epub.
  destruct Hcase as [(Htp & Hqq & Ed & Er & EQ)|[(Htp & Hq1 & Ed & Er & EQ)|(Htp & Ed & Er & EQ)]]; rewrite Ed, Er, EQ.
  - (* QoS 1 PUBLISH *)
    split.
    { intros z Hz Hzt. apply in_app_or in Hz as [Hz|Hz]; [exact (Hpr z Hz Hzt)|]. destruct Hz as [<-|[]]. rewrite ack_type in Hzt. discriminate. }
    rewrite filter_q2_snoc, (q2_q1 x Hqq), app_nil_r.
    assert (E : pend2 (c_qos2 (cr s)) (x :: t) = pend2 (c_qos2 (cr s)) t) by (unfold pend2; cbn [filter]; now rewrite (q2_q1 x Hqq)).
    rewrite E in Hacc, Hord. split; assumption.
  - (* QoS 2 PUBLISH *)
    pose proof (q2_of x Htp Hq1) as Hq2.
    destruct (mem (k_pid x) (c_qos2 (cr s))) eqn:Em.
    + (* a retransmission of a message the receiver already has *)
      assert (Hsame : forall y, mem y (ins (k_pid x) (c_qos2 (cr s))) = mem y (c_qos2 (cr s))).
      { intro y. rewrite mem_ins. destruct (N.eqb_spec y (k_pid x)) as [->|]; [now rewrite Em|reflexivity]. }
      split.
      { intros z Hz Hzt. rewrite Hsame. apply in_app_or in Hz as [Hz|Hz]; [exact (Hpr z Hz Hzt)|]. destruct Hz as [<-|[]]. rewrite ack_pid. exact Em. }
      rewrite app_nil_r. rewrite !(pend2_ext (c_qos2 (cr s)) (ins (k_pid x) (c_qos2 (cr s)))) by (intros; apply Hsame).
      assert (E : pend2 (c_qos2 (cr s)) (x :: t) = pend2 (c_qos2 (cr s)) t) by (unfold pend2; cbn [filter]; now rewrite Hq2, Em).
      rewrite E in Hacc, Hord. split; assumption.
    + (* the first arrival *)
      assert (E : pend2 (c_qos2 (cr s)) (x :: t) = x :: pend2 (c_qos2 (cr s)) t) by (unfold pend2; cbn [filter]; now rewrite Hq2, Em).
      rewrite E in Hacc, Hord. cbn [map] in Hacc, Hord.
      assert (Et : pend2 (ins (k_pid x) (c_qos2 (cr s))) t = pend2 (c_qos2 (cr s)) t).
      { apply (pend2_other _ _ (k_pid x)); [intros y Hne; now apply mem_ins_ne|exact Hnt]. }
      split.
      { intros z Hz Hzt. rewrite mem_ins. apply in_app_or in Hz as [Hz|Hz]; [rewrite (Hpr z Hz Hzt); apply orb_true_r|].
        destruct Hz as [<-|[]]. rewrite ack_pid, N.eqb_refl. reflexivity. }
      rewrite filter_q2_snoc, Hq2, map_app, Et. cbn [map]. rewrite <- app_assoc. cbn [app]. split; [exact Hacc|].
      (* the store: its first pending entry is x's twin; it is no longer pending, the others are untouched *)
      rewrite pend2_ins. destruct (pend2 (c_qos2 (cr s)) (c_store (cs s))) as [|e rest] eqn:Ep; [discriminate Hord|].
      cbn [map] in Hord.
      assert (He : undup e = undup x) by exact (f_equal (fun l => hd (undup x) l) Hord).
      assert (Hrest : map undup rest = map undup (pend2 (c_qos2 (cr s)) t)) by exact (f_equal (@tl _) Hord).
      pose proof (undup_pid e x He) as Hpe.
      destruct HK as (HO & _). pose proof (o_nodup _ _ _ _ _ _ _ _ _ HO) as Hnds. unfold sids in Hnds.
      pose proof (nodup_filter_map (fun y => q2 y && negb (mem (k_pid y) (c_qos2 (cr s)))) _ Hnds) as Hnp. fold (pend2 (c_qos2 (cr s)) (c_store (cs s))) in Hnp.
      rewrite Ep in Hnp. cbn [map] in Hnp. inversion Hnp as [|? ? Hne' Hnr']; subst.
      cbn [filter]. rewrite Hpe, N.eqb_refl. cbn [negb]. rewrite filter_all; [exact Hrest|].
      intros y Hy. apply negb_true_iff, N.eqb_neq. intro Ey. apply Hne'. rewrite Hpe, <- Ey. now apply in_map.
  - (* PUBREL *)
    assert (Hnp : q2 x = false) by (apply q2_nonpub; rewrite Htp; discriminate).
    assert (E : pend2 (c_qos2 (cr s)) (x :: t) = pend2 (c_qos2 (cr s)) t) by (unfold pend2; cbn [filter]; now rewrite Hnp).
    rewrite E in Hacc, Hord.
    assert (Hne : forall y, y <> k_pid x -> mem y (del (k_pid x) (c_qos2 (cr s))) = mem y (c_qos2 (cr s))) by (intros y Hy; now apply (mem_del_ne gs)).
    assert (Et : pend2 (del (k_pid x) (c_qos2 (cr s))) t = pend2 (c_qos2 (cr s)) t) by (apply (pend2_other _ _ (k_pid x)); assumption).
    split.
    { intros z Hz Hzt. apply in_app_or in Hz as [Hz|Hz].
      - rewrite Hne; [exact (Hpr z Hz Hzt)|]. intro Ez. apply Hnx. apply in_or_app. right. rewrite <- Ez. now apply in_ids.
      - destruct Hz as [<-|[]]. rewrite ack_type in Hzt. discriminate. }
    rewrite Et. split; [exact Hacc|]. rewrite <- Hord. f_equal. apply pend2_ext. intros q Hq' Hq2.
    apply Hne. intro Ey.
    (* a stored entry with this identifier is the PUBREL entry, not a PUBLISH *)
    inversion Fsr as [|? ? Hfx _]; subst. destruct Hfx as (_ & _ & [(Hc & _)|[(Hc & _)|(_ & Hm)]]); [rewrite Htp in Hc; discriminate|rewrite Htp in Hc; discriminate|].
    destruct HK as (HO & HS & _). destruct (HS Hns (k_pid x)) as (_ & _ & H3). apply H3 in Hm. apply hask_In in Hm as (r & Hr & Epr & Err).
    pose proof (o_nodup _ _ _ _ _ _ _ _ _ HO) as Hnds. unfold sids in Hnds.
    assert (q = r) by (apply (nodup_pid_eq (c_store (cs s))); [exact Hnds|exact Hq'|exact Hr|congruence]). subst q.
    unfold response_of in Err. unfold q2, is_pub in Hq2. destruct (k_type r =? T_PUBLISH); [|discriminate Hq2].
    destruct (k_qos r =? 1); discriminate Err.
Qed.

Lemma accB_toS s : invL gs gr s -> accB s ->
  match do_to_s gs s with Next s' => accB s' | _ => True end.
Proof.
  intros Hi (Hpr & Hacc & Hord). pose proof (toS_shape s Hi) as Hsh.
  destruct (do_to_s gs s) as [s'| |]; [|exact I|exact I].
  destruct Hsh as (x & t & Eq & Ecr & Eq' & Epub & Edel & Hcase).
  unfold accB. rewrite Ecr, Eq', Epub, Edel.
  assert (Hpr' : forall z, In z t -> k_type z = T_PUBREC -> mem (k_pid z) (c_qos2 (cr s)) = true) by (intros z Hz; apply Hpr; rewrite Eq; now right).
  split; [exact Hpr'|].
  destruct Hcase as [(Htp & Es & Est & _)|[(Htp & Es & Est)|(Htp & Es & Est & _)]]; rewrite Es, Est.
  - split; [exact Hacc|]. rewrite <- Hord. f_equal. unfold pend2. apply filter_erase_l. intros q _ _ Hr.
    unfold response_of in Hr. unfold q2, is_pub. destruct (k_type q =? T_PUBLISH); [|reflexivity]. destruct (k_qos q =? 1); [reflexivity|discriminate Hr].
  - assert (Hnp : q2 (pubrel_of gs (k_pid x)) = false) by reflexivity.
    rewrite !pend2_app. unfold pend2 at 2 4. cbn [filter]. rewrite Hnp. cbn [andb]. rewrite !app_nil_r.
    split; [exact Hacc|]. rewrite <- Hord. f_equal. unfold pend2. apply filter_erase_l. intros q _ Hp _.
    rewrite Hp. rewrite (Hpr x); [apply andb_false_r|rewrite Eq; now left|exact Htp].
  - split; [exact Hacc|]. rewrite <- Hord. f_equal. unfold pend2. apply filter_erase_l. intros q _ _ Hr.
    unfold response_of in Hr. unfold q2, is_pub. destruct (k_type q =? T_PUBLISH); [|reflexivity]. destruct (k_qos q =? 1); discriminate Hr.
Qed.

Lemma accB_pub s p q : invL gs gr s -> accB s -> v311_pub p q -> q = 1 \/ q = 2 ->
  match do_pub gs s p with Next s' => accB s' | _ => True end.
Proof.
  intros Hi (Hpr & Hacc & Hord) Hp Hqq. pose proof (pub_shape s p q Hi Hp Hqq) as Hsh.
  destruct (do_pub gs s p) as [s'| |]; [|exact I|exact I].
  destruct Hsh as (Ecr & Eqr & Edel & Epub & Eqs & Est & Hun).
  unfold accB. rewrite Ecr, Eqr, Edel, Epub, Eqs, Est. split; [exact Hpr|].
  rewrite filter_q2_snoc, !pend2_app. destruct Hp as (Htp & Hv & Hqp).
  destruct Hqq as [-> | ->].
  - (* QoS 1: no QoS 2 list moves *)
    assert (E1 : q2 p = false) by (apply q2_q1; exact Hqp).
    unfold pend2 at 2 4 6. cbn [filter]. rewrite q2_dup, E1. cbn [andb]. rewrite !app_nil_r. split; assumption.
  - (* QoS 2: the identifier is not handled at the receiver, since it was free at the sender *)
    assert (E2 : q2 p = true) by (apply q2_of; [exact Htp|rewrite Hqp; reflexivity]).
    assert (Hnm : mem (k_pid p) (c_qos2 (cr s)) = false).
    { destruct (mem (k_pid p) (c_qos2 (cr s))) eqn:Em; [|reflexivity]. exfalso.
      destruct Hi as ((HO & _) & _ & _ & _ & _ & _ & _ & _ & _ & _ & _ & _ & _ & _ & _ & Hq & _).
      assert (Hst : exists r, In r (c_store (cs s)) /\ k_pid r = k_pid p).
      { destruct (Hq _ Em) as [Hh|Hh]; apply hask_In in Hh as (r & Hr & Er & _); exists r; split; assumption. }
      destruct Hst as (r & Hr & Er). pose proof (o_used _ _ _ _ _ _ _ _ _ HO r Hr) as Hu. rewrite Er in Hu. unfold is_used, pm_is_used in Hun. rewrite Hu in Hun. discriminate Hun. }
    unfold pend2 at 2 4 6. cbn [filter]. change (k_pid (set_dup p true)) with (k_pid p). rewrite q2_dup, E2, Hnm. cbn [andb negb].
    rewrite !map_app. cbn [map]. rewrite undup_dup. split; [rewrite Hacc, <- app_assoc; reflexivity|rewrite Hord; reflexivity].
Qed.

Lemma accB_lose s : invL gs gr s -> accB s ->
  match do_lose gs gr s with Next s' => accB s' | _ => True end.
Proof.
  intros Hi (Hpr & Hacc & Hord). pose proof (lose_shape s Hi) as Hsh.
  destruct (do_lose gs gr s) as [s'| |]; [|exact I|exact I].
  destruct Hsh as (Epub & Edel & Eqr & Eqs & Est & EQ).
  unfold accB. rewrite Epub, Edel, Eqr, Eqs, Est, EQ, pend2_store_into. split; [intros x []|]. split; [rewrite Hord; exact Hacc|reflexivity].
Qed.

(* ---- every schedule, with the accounting ---- *)
Lemma actB_ok s a : invL gs gr s -> accB s -> good_actL a ->
  match do_actL gs gr s a with Next s' => invL gs gr s' /\ accB s' | Skip => True | Bad => False end.
Proof.
  intros Hi Ha Hg. destruct a as [p| | |].
  - change (do_actL gs gr s (PubL p)) with (do_pub gs s p). destruct Hg as [[Hg|Hg] Hs].
    + pose proof (pubL_ok gs gr idw_small s p 1 Hi Hg (or_introl eq_refl) Hs) as H1.
      pose proof (accB_pub s p 1 Hi Ha Hg (or_introl eq_refl)) as H2. destruct (do_pub gs s p); [split; assumption|exact I|exact H1].
    + pose proof (pubL_ok gs gr idw_small s p 2 Hi Hg (or_intror eq_refl) Hs) as H1.
      pose proof (accB_pub s p 2 Hi Ha Hg (or_intror eq_refl)) as H2. destruct (do_pub gs s p); [split; assumption|exact I|exact H1].
  - change (do_actL gs gr s ToRL) with (do_to_r gr s). pose proof (toL_r_step gs gr idw_small s Hi) as H1.
    pose proof (accB_toR s Hi Ha) as H2. destruct (do_to_r gr s); [split; [apply H1|exact H2]|exact I|exact H1].
  - change (do_actL gs gr s ToSL) with (do_to_s gs s). pose proof (toL_s_step gs gr idw_small s Hi) as H1.
    pose proof (accB_toS s Hi Ha) as H2. destruct (do_to_s gs s); [split; [apply H1|exact H2]|exact I|exact H1].
  - change (do_actL gs gr s Lose) with (do_lose gs gr s). pose proof (loseL_ok gs gr gs_client gr_server s Hi) as H1.
    pose proof (accB_lose s Hi Ha) as H2. destruct (do_lose gs gr s); [split; assumption|exact I|exact H1].
Qed.

Theorem schedB_ok : forall l s, invL gs gr s -> accB s -> Forall good_actL l ->
  exists s', run_schedL gs gr s l = Some s' /\ invL gs gr s' /\ accB s'.
Proof.
  induction l as [|a t IH]; intros s Hi Ha Hf; cbn [run_schedL]; [exists s; split; [reflexivity|split; assumption]|].
  inversion Hf as [|? ? Hga Ht]; subst. pose proof (actB_ok s a Hi Ha Hga) as H.
  destruct (do_actL gs gr s a) as [s'| |]; [destruct H as [H1 H2]; exact (IH s' H1 H2 Ht)|exact (IH s Hi Ha Ht)|destruct H].
Qed.

Lemma drain_good n : Forall good_actL (drainL n).
Proof. induction n as [|k IH]; cbn [drainL]; [constructor|]. constructor; [exact I|]. constructor; [exact I|exact IH]. Qed.

(* QoS 2, EXACTLY ONCE ACROSS TRANSPORT LOSS: whatever the schedule of publications, deliveries and losses, once the
   links have drained the QoS 2 messages notified to the receiving application are exactly the QoS 2 messages published,
   once each, in order of publication — up to the DUP flag, which a retransmitted PUBLISH carries *)
Theorem qos2_exactly_once_across_loss l s : invL gs gr s -> accB s -> Forall good_actL l ->
  exists s1 s2, run_schedL gs gr s l = Some s1 /\ run_schedL gs gr s1 (drainL (measure s1)) = Some s2 /\
                qsr s2 = [] /\ qrs s2 = [] /\
                map undup (filter q2 (delivered s2)) = map undup (filter q2 (published s1)).
Proof.
  intros Hi Ha Hf. destruct (schedB_ok l s Hi Ha Hf) as (s1 & R1 & I1 & A1).
  destruct (drainL_ok gs gr idw_small (measure s1) s1 I1 (le_n _)) as (s2 & R2 & I2 & Q1 & Q2 & P2).
  destruct (schedB_ok (drainL (measure s1)) s1 I1 A1 (drain_good _)) as (s2' & R2' & _ & (_ & A2 & _)).
  rewrite R2 in R2'. injection R2' as <-.
  exists s1, s2. split; [exact R1|]. split; [exact R2|]. split; [exact Q1|]. split; [exact Q2|].
  rewrite Q1 in A2. unfold pend2 in A2. cbn [filter map] in A2. rewrite app_nil_r in A2. rewrite <- P2. symmetry. exact A2.
Qed.

Lemma accB_init c1 c2 : c_qos2 c2 = [] -> c_store c1 = [] -> accB (mkSys c1 c2 [] [] [] []).
Proof. intros Q S. unfold accB. cbn [cs cr qsr qrs published delivered]. rewrite S. split; [intros x []|]. split; reflexivity. Qed.

(* ---- QoS 1: at least once ---- *)
Definition accC (s : sys) : Prop :=
  (* every stored exchange has a packet in flight *)
  (forall q, In q (c_store (cs s)) -> In (k_pid q) (ids (qsr s) ++ ids (qrs s))) /\
  (* a PUBLISH in flight and the stored entry of its exchange are the same message *)
  (forall x e, In x (qsr s) -> k_type x = T_PUBLISH -> In e (c_store (cs s)) -> k_pid e = k_pid x -> undup e = undup x) /\
  (* a PUBACK in flight is for a message that has been notified *)
  (forall x e, In x (qrs s) -> k_type x = T_PUBACK -> In e (c_store (cs s)) -> k_pid e = k_pid x -> In (undup e) (map undup (delivered s))) /\
  (* every published QoS 1 message has been notified or is still stored *)
  (forall p, In p (published s) -> k_type p = T_PUBLISH -> k_qos p = 1 ->
             In (undup p) (map undup (delivered s)) \/ exists e, In e (c_store (cs s)) /\ undup e = undup p).

Lemma in_ids_app_l x a b : In x (ids a) -> In x (ids a ++ ids b). Proof. intro H. apply in_or_app. now left. Qed.
Lemma in_ids_app_r x a b : In x (ids b) -> In x (ids a ++ ids b). Proof. intro H. apply in_or_app. now right. Qed.
Lemma undup_type a b : undup a = undup b -> k_type a = k_type b.
Proof. intro H. change (k_type a) with (k_type (undup a)). rewrite H. reflexivity. Qed.
Lemma undup_qos a b : undup a = undup b -> k_qos a = k_qos b.
Proof. intro H. change (k_qos a) with (k_qos (undup a)). rewrite H. reflexivity. Qed.

Lemma accC_toR s : invL gs gr s -> accC s -> match do_to_r gr s with Next s' => accC s' | _ => True end.
Proof.
  intros Hi (Hfl & Htw & Hpa & Hac). pose proof (toR_shape s Hi) as Hsh.
  destruct (do_to_r gr s) as [s'| |]; [|exact I|exact I].
  destruct Hsh as (x & t & Eq & Ecs & Eq' & Epub & Hcase).
  assert (Hdel : exists d, delivered s' = delivered s ++ d /\ (k_type x = T_PUBLISH -> k_qos x = 1 -> d = [x])).
  { destruct Hcase as [(Htp & Hqq & Ed & _)|[(Htp & Hq1 & Ed & _)|(Htp & Ed & _)]].
    - exists [x]. split; [exact Ed|reflexivity].
    - eexists. split; [exact Ed|]. intros _ Hq. rewrite Hq in Hq1. discriminate.
    - exists []. split; [now rewrite app_nil_r|]. intro Hc. rewrite Htp in Hc. discriminate. }
  destruct Hdel as (d & Ed & Hd1).
  assert (Hqr : exists a, qrs s' = qrs s ++ [a] /\ k_pid a = k_pid x /\ (k_type a = T_PUBACK -> k_type x = T_PUBLISH /\ k_qos x = 1)).
  { destruct Hcase as [(Htp & Hqq & _ & Er & _)|[(Htp & Hq1 & _ & Er & _)|(Htp & _ & Er & _)]]; eexists; (split; [exact Er|]); (split; [reflexivity|]).
    - intros _. split; assumption.
    - intro Hc. discriminate Hc.
    - intro Hc. discriminate Hc. }
  destruct Hqr as (a & Er & Epa & Hta).
  unfold accC. rewrite Ecs, Eq', Epub, Ed, Er. rewrite Eq in *.
  split; [|split; [|split]].
  - intros q Hq. specialize (Hfl q Hq). rewrite ids_app. cbn [ids map app] in Hfl |- *. rewrite Epa.
    destruct Hfl as [Hfl|Hfl]; [apply in_or_app; right; apply in_or_app; right; left; exact Hfl|].
    apply in_app_or in Hfl as [Hfl|Hfl]; apply in_or_app; [left; exact Hfl|right; apply in_or_app; left; exact Hfl].
  - intros x' e Hx'. apply Htw. now right.
  - intros x' e Hx' Hty He Hpe. rewrite map_app. apply in_or_app. apply in_app_or in Hx' as [Hx'|Hx'].
    + left. exact (Hpa x' e Hx' Hty He Hpe).
    + destruct Hx' as [<-|[]]. destruct (Hta Hty) as [Htx Hqx]. right. rewrite (Hd1 Htx Hqx). cbn [map]. left.
      symmetry. apply (Htw x e); [now left|exact Htx|exact He|congruence].
  - intros p Hp Htp Hqp. destruct (Hac p Hp Htp Hqp) as [H|H]; [left; rewrite map_app; apply in_or_app; now left|now right].
Qed.

(* the stored entry with a given identifier is unique, so its kind is the kind the sender awaits for that identifier *)
Lemma stored_kind c e (r : N) id : OWN gs c -> SUP c -> c_need_store c = true -> In e (c_store c) -> k_pid e = id ->
  mem id (kset r (c_puback c) (c_pubrec c) (c_pubcomp c)) = true -> (r = T_PUBACK \/ r = T_PUBREC \/ r = T_PUBCOMP) -> response_of e = r.
Proof.
  intros HO HS Hn He Hpe Hm Hr. destruct (HS Hn id) as (H1 & H2 & H3).
  assert (Hh : hask r (c_store c) id = true).
  { destruct Hr as [-> | [-> | ->]]; unfold kset in Hm.
    - change (T_PUBACK =? T_PUBACK) with true in Hm. exact (H1 Hm).
    - change (T_PUBREC =? T_PUBACK) with false in Hm. change (T_PUBREC =? T_PUBREC) with true in Hm. exact (H2 Hm).
    - change (T_PUBCOMP =? T_PUBACK) with false in Hm. change (T_PUBCOMP =? T_PUBREC) with false in Hm. exact (H3 Hm). }
  apply hask_In in Hh as (q & Hq & Epq & Erq). pose proof (o_nodup _ _ _ _ _ _ _ _ _ HO) as Hnd. unfold sids in Hnd.
  assert (e = q) by (apply (nodup_pid_eq (c_store c)); [exact Hnd|exact He|exact Hq|congruence]). now subst q.
Qed.

Lemma accC_toS s : invL gs gr s -> accC s -> match do_to_s gs s with Next s' => accC s' | _ => True end.
Proof.
  intros Hi (Hfl & Htw & Hpa & Hac). pose proof (toS_shape s Hi) as Hsh. pose proof (toL_s_step gs gr idw_small s Hi) as Hst.
  destruct (do_to_s gs s) as [s'| |]; [|exact I|exact I]. destruct Hst as [Hi' _].
  destruct Hsh as (x & t & Eq & Ecr & Eq' & Epub & Edel & Hcase).
  destruct Hi as (HK & Rs & Has & Hns & Hmp & Hfit & HKr & Rr & Har & Hnr & Hsr & Hasc & Fsr & Frs & Hnd & Hq & Hpc).
  destruct HK as (HO & HS & HE & Hv).
  rewrite Eq in *. pose proof (Forall_inv Frs) as Hfx.
  assert (Hnx : ~ In (k_pid x) (ids (qsr s) ++ ids t)) by (cbn [ids map] in Hnd; apply NoDup_remove_2 in Hnd; exact Hnd).
  destruct Hi' as ((HO' & _) & _).
  unfold accC. rewrite Eq', Epub, Edel.
  destruct Hcase as [(Htp & Es & Est & Huf)|[(Htp & Es & Est)|(Htp & Es & Est & Huf)]]; rewrite Es, Est.
  - (* PUBACK *)
    split; [|split; [|split]].
    + intros q Hq'. assert (Hne : k_pid q <> k_pid x).
      { intro E. rewrite <- Est in Hq'. pose proof (o_used _ _ _ _ _ _ _ _ _ HO' q Hq') as Hu. rewrite E in Hu. unfold is_used, pm_is_used in Huf. rewrite Hu in Huf. discriminate. }
      apply erase_l_sub in Hq'. specialize (Hfl q Hq'). cbn [ids map] in Hfl. apply in_app_or in Hfl as [Hfl|Hfl]; [now apply in_ids_app_l|].
      destruct Hfl as [Hfl|Hfl]; [congruence|now apply in_ids_app_r].
    + intros x' e Hx' Hty He. apply erase_l_sub in He. now apply Htw.
    + intros x' e Hx' Hty He Hpe. apply erase_l_sub in He. apply (Hpa x' e); [now right|exact Hty|exact He|exact Hpe].
    + intros p Hp Htyp Hqp. destruct (Hac p Hp Htyp Hqp) as [H|(e & He & Eu)]; [now left|].
      destruct (N.eq_dec (k_pid e) (k_pid x)) as [E|E].
      * left. rewrite <- Eu. apply (Hpa x e); [now left|exact Htp|exact He|exact E].
      * right. exists e. split; [apply erase_l_keep; [exact He|now left]|exact Eu].
  - (* PUBREC *)
    destruct Hfx as (Hux & [[He0 _]|[[_ Hmx]|[He0 _]]]); [rewrite He0 in Htp; discriminate Htp| |rewrite He0 in Htp; discriminate Htp].
    split; [|split; [|split]].
    + intros q Hq'. rewrite ids_app. cbn [ids map]. rewrite pubrel_pid. apply in_app_or in Hq' as [Hq'|Hq'].
      * apply erase_l_sub in Hq'. specialize (Hfl q Hq'). cbn [ids map] in Hfl. apply in_app_or in Hfl as [Hfl|Hfl].
        -- apply in_or_app. left. apply in_or_app. now left.
        -- destruct Hfl as [Hfl|Hfl]; [apply in_or_app; left; apply in_or_app; right; left; exact Hfl|now apply in_or_app; right].
      * destruct Hq' as [<-|[]]. rewrite pubrel_pid. apply in_or_app. left. apply in_or_app. right. now left.
    + intros x' e Hx' Hty He Hpe. apply in_app_or in Hx' as [Hx'|Hx']; [|destruct Hx' as [<-|[]]; discriminate Hty].
      apply in_app_or in He as [He|He]; [apply erase_l_sub in He; now apply Htw|].
      destruct He as [<-|[]]. rewrite pubrel_pid in Hpe. exfalso. apply Hnx. apply in_or_app. left. rewrite Hpe. now apply in_ids.
    + intros x' e Hx' Hty He Hpe. apply in_app_or in He as [He|He]; [apply erase_l_sub in He; apply (Hpa x' e); [now right|exact Hty|exact He|exact Hpe]|].
      destruct He as [<-|[]]. rewrite pubrel_pid in Hpe. exfalso. apply Hnx. apply in_or_app. right. rewrite Hpe. now apply in_ids.
    + intros p Hp Htyp Hqp. destruct (Hac p Hp Htyp Hqp) as [H|(e & He & Eu)]; [now left|]. right. exists e. split; [|exact Eu].
      apply in_or_app. left. apply erase_l_keep; [exact He|]. left. intro E.
      pose proof (stored_kind (cs s) e T_PUBREC (k_pid x) HO HS Hns He E) as Hk. unfold kset in Hk.
      change (T_PUBREC =? T_PUBACK) with false in Hk. change (T_PUBREC =? T_PUBREC) with true in Hk. specialize (Hk Hmx (or_intror (or_introl eq_refl))).
      unfold response_of in Hk. rewrite (undup_type e p Eu), Htyp, (undup_qos e p Eu), Hqp in Hk. discriminate Hk.
  - (* PUBCOMP *)
    destruct Hfx as (Hux & [[He0 _]|[[He0 _]|[_ Hmx]]]); [rewrite He0 in Htp; discriminate Htp|rewrite He0 in Htp; discriminate Htp|].
    split; [|split; [|split]].
    + intros q Hq'. assert (Hne : k_pid q <> k_pid x).
      { intro E. rewrite <- Est in Hq'. pose proof (o_used _ _ _ _ _ _ _ _ _ HO' q Hq') as Hu. rewrite E in Hu. unfold is_used, pm_is_used in Huf. rewrite Hu in Huf. discriminate. }
      apply erase_l_sub in Hq'. specialize (Hfl q Hq'). cbn [ids map] in Hfl. apply in_app_or in Hfl as [Hfl|Hfl]; [now apply in_ids_app_l|].
      destruct Hfl as [Hfl|Hfl]; [congruence|now apply in_ids_app_r].
    + intros x' e Hx' Hty He. apply erase_l_sub in He. now apply Htw.
    + intros x' e Hx' Hty He Hpe. apply erase_l_sub in He. apply (Hpa x' e); [now right|exact Hty|exact He|exact Hpe].
    + intros p Hp Htyp Hqp. destruct (Hac p Hp Htyp Hqp) as [H|(e & He & Eu)]; [now left|]. right. exists e. split; [|exact Eu].
      apply erase_l_keep; [exact He|]. left. intro E.
      pose proof (stored_kind (cs s) e T_PUBCOMP (k_pid x) HO HS Hns He E) as Hk. unfold kset in Hk.
      change (T_PUBCOMP =? T_PUBACK) with false in Hk. change (T_PUBCOMP =? T_PUBREC) with false in Hk. specialize (Hk Hmx (or_intror (or_intror eq_refl))).
      unfold response_of in Hk. rewrite (undup_type e p Eu), Htyp in Hk. change (T_PUBLISH =? T_PUBLISH) with true in Hk. destruct (k_qos e =? 1); discriminate Hk.
Qed.

Lemma accC_pub s p q : invL gs gr s -> accC s -> v311_pub p q -> q = 1 \/ q = 2 ->
  match do_pub gs s p with Next s' => accC s' | _ => True end.
Proof.
  intros Hi (Hfl & Htw & Hpa & Hac) Hp Hqq. pose proof (pub_shape s p q Hi Hp Hqq) as Hsh.
  destruct (do_pub gs s p) as [s'| |]; [|exact I|exact I].
  destruct Hsh as (Ecr & Eqr & Edel & Epub & Eqs & Est & Hun).
  destruct Hi as ((HO & _) & _ & _ & _ & _ & _ & _ & _ & _ & _ & _ & _ & Fsr & Frs & _).
  assert (Hns : forall e, In e (c_store (cs s)) -> k_pid e <> k_pid p).
  { intros e He E. pose proof (o_used _ _ _ _ _ _ _ _ _ HO e He) as Hu. rewrite E in Hu. unfold is_used, pm_is_used in Hun. rewrite Hu in Hun. discriminate. }
  assert (Hnq : forall x', In x' (qsr s) -> k_pid x' <> k_pid p).
  { intros x' Hx' E. rewrite (flightL_used (cs s) (qsr s) (k_pid p) Fsr) in Hun; [discriminate|]. rewrite <- E. now apply in_ids. }
  assert (Hnr : forall x', In x' (qrs s) -> k_pid x' <> k_pid p).
  { intros x' Hx' E. rewrite (flight_used_rs gr (cs s) (qrs s) (k_pid p) Frs) in Hun; [discriminate|]. rewrite <- E. now apply in_ids. }
  unfold accC. rewrite Eqr, Edel, Epub, Eqs, Est.
  split; [|split; [|split]].
  - intros e He. rewrite ids_app. apply in_app_or in He as [He|He].
    + specialize (Hfl e He). apply in_app_or in Hfl as [Hfl|Hfl]; [apply in_or_app; left; apply in_or_app; now left|now apply in_or_app; right].
    + destruct He as [<-|[]]. apply in_or_app. left. apply in_or_app. right. now left.
  - intros x' e Hx' Hty He Hpe. apply in_app_or in Hx' as [Hx'|Hx']; apply in_app_or in He as [He|He].
    + now apply Htw.
    + destruct He as [<-|[]]. exfalso. apply (Hnq x' Hx'). symmetry. exact Hpe.
    + destruct Hx' as [<-|[]]. exfalso. exact (Hns e He Hpe).
    + destruct Hx' as [<-|[]]. destruct He as [<-|[]]. reflexivity.
  - intros x' e Hx' Hty He Hpe. apply in_app_or in He as [He|He]; [now apply (Hpa x' e)|].
    destruct He as [<-|[]]. exfalso. apply (Hnr x' Hx'). symmetry. exact Hpe.
  - intros p' Hp' Htyp Hqp. apply in_app_or in Hp' as [Hp'|Hp'].
    + destruct (Hac p' Hp' Htyp Hqp) as [H|(e & He & Eu)]; [now left|]. right. exists e. split; [apply in_or_app; now left|exact Eu].
    + destruct Hp' as [<-|[]]. right. exists (set_dup p true). split; [apply in_or_app; right; now left|reflexivity].
Qed.

Lemma accC_lose s : invL gs gr s -> accC s -> match do_lose gs gr s with Next s' => accC s' | _ => True end.
Proof.
  intros Hi (Hfl & Htw & Hpa & Hac). pose proof (lose_shape s Hi) as Hsh.
  destruct (do_lose gs gr s) as [s'| |]; [|exact I|exact I].
  destruct Hsh as (Epub & Edel & Eqr & Eqs & Est & EQ).
  destruct Hi as ((HO & _) & _).
  unfold accC. rewrite Epub, Edel, Eqr, Eqs, Est.
  split; [|split; [|split]].
  - intros e He. rewrite app_nil_r, ids_store_into. now apply in_map.
  - intros x' e Hx' Hty He Hpe. apply in_map_iff in Hx' as (e' & <- & He').
    destruct (k_type e' =? T_PUBLISH) eqn:Et; [|unfold store_into in Hty; rewrite Et in Hty; discriminate Hty].
    rewrite (store_into_pub e' Et) in *. f_equal.
    apply (nodup_pid_eq (c_store (cs s))); [exact (o_nodup _ _ _ _ _ _ _ _ _ HO)|exact He|exact He'|exact Hpe].
  - intros x' e [].
  - exact Hac.
Qed.

Lemma actC_ok s a : invL gs gr s -> accC s -> good_actL a -> match do_actL gs gr s a with Next s' => accC s' | _ => True end.
Proof.
  intros Hi Ha Hg. destruct a as [p| | |].
  - change (do_actL gs gr s (PubL p)) with (do_pub gs s p). destruct Hg as [[Hg|Hg] _].
    + exact (accC_pub s p 1 Hi Ha Hg (or_introl eq_refl)).
    + exact (accC_pub s p 2 Hi Ha Hg (or_intror eq_refl)).
  - exact (accC_toR s Hi Ha).
  - exact (accC_toS s Hi Ha).
  - exact (accC_lose s Hi Ha).
Qed.

Theorem schedC_ok : forall l s, invL gs gr s -> accC s -> Forall good_actL l ->
  exists s', run_schedL gs gr s l = Some s' /\ invL gs gr s' /\ accC s'.
Proof.
  induction l as [|a t IH]; intros s Hi Ha Hf; cbn [run_schedL]; [exists s; split; [reflexivity|split; assumption]|].
  inversion Hf as [|? ? Hga Ht]; subst.
  pose proof (actL_ok gs gr gs_client gr_server idw_small s a Hi Hga) as H1. pose proof (actC_ok s a Hi Ha Hga) as H2.
  destruct (do_actL gs gr s a) as [s'| |]; [exact (IH s' H1 H2 Ht)|exact (IH s Hi Ha Ht)|destruct H1].
Qed.

(* QoS 1, AT LEAST ONCE ACROSS TRANSPORT LOSS: once the links have drained, every QoS 1 message that was published has been
   notified to the receiving application (possibly more than once, possibly with the DUP flag) and nothing is stored any more *)
Theorem qos1_at_least_once_across_loss l s : invL gs gr s -> accC s -> Forall good_actL l ->
  exists s1 s2, run_schedL gs gr s l = Some s1 /\ run_schedL gs gr s1 (drainL (measure s1)) = Some s2 /\
                qsr s2 = [] /\ qrs s2 = [] /\ c_store (cs s2) = [] /\
                (forall p, In p (published s1) -> k_type p = T_PUBLISH -> k_qos p = 1 -> In (undup p) (map undup (delivered s2))).
Proof.
  intros Hi Ha Hf. destruct (schedC_ok l s Hi Ha Hf) as (s1 & R1 & I1 & A1).
  destruct (drainL_ok gs gr idw_small (measure s1) s1 I1 (le_n _)) as (s2 & R2 & I2 & Q1 & Q2 & P2).
  destruct (schedC_ok (drainL (measure s1)) s1 I1 A1 (drain_good _)) as (s2' & R2' & _ & (Hfl & _ & _ & Hac)).
  rewrite R2 in R2'. injection R2' as <-.
  assert (Hst : c_store (cs s2) = []).
  { destruct (c_store (cs s2)) as [|e t] eqn:E; [reflexivity|]. exfalso. specialize (Hfl e (or_introl eq_refl)). rewrite Q1, Q2 in Hfl. destruct Hfl. }
  exists s1, s2. split; [exact R1|]. split; [exact R2|]. split; [exact Q1|]. split; [exact Q2|]. split; [exact Hst|].
  intros p Hp Htp Hqp. rewrite <- P2 in Hp. destruct (Hac p Hp Htp Hqp) as [H|(e & He & _)]; [exact H|]. rewrite Hst in He. destruct He.
Qed.

Lemma accC_init c1 c2 : c_store c1 = [] -> accC (mkSys c1 c2 [] [] [] []).
Proof.
  intro S. unfold accC. cbn [cs cr qsr qrs published delivered]. rewrite S. split; [intros q []|]. split; [intros x e []|]. split; [intros x e []|intros p []].
Qed.
End Acc.
