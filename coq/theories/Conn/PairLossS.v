(* C01, model side: the pair across transport loss with the roles the other way round — the SERVER publishes to the client.
   The resumption is the same handshake seen from the other side: the client (now the receiver) sends CONNECT without Clean
   Session, the server receives it, sends CONNACK with Session Present and, in the same call, retransmits what it has
   stored.  Everything else is PairLoss.v / PairLossAcc.v unchanged: the per-action lemmas there do not depend on the roles. *)
From Coq Require Import Permutation.
From MQ Require Import Base.Prelude Alloc.Alloc Alloc.SetSpec Alloc.AllocProofs Framing.Framing
                       Conn.Types Conn.TopicAlias Conn.ConnRecord Conn.Step Conn.Run Corr.ConnTrace Conn.Scope Conn.IdsQuota Conn.WfInv
                       Conn.Own Conn.OwnFrame Conn.OwnStep Conn.Qos2Dup Conn.TasBounds Conn.NoPanic Conn.SupFrame Conn.SupStep Conn.SessInv
                       Conn.PairQos Conn.PairQos5 Conn.PairSeq Conn.PairConc Conn.PairLoss Conn.PairLossAcc.

(* the server sends the CONNACK with Session Present and retransmits its store in the same call *)
Lemma connack_sent_resume g c : role_server_ok g = true -> K g c -> c_status c = Connecting -> c_version c = V311 -> c_need_store c = true -> stored_fit c ->
  exists c3 e, do_send g c connack_pkt = Ok (c3, e) /\ K g c3 /\ sends e = connack_pkt :: map store_into (c_store c) /\ errors e = [] /\
               ready c3 /\ c_need_store c3 = true /\ c_store c3 = c_store c /\ c_auto_pub c3 = c_auto_pub c /\ c_mps_send c3 = c_mps_send c /\
               c_qos2 c3 = c_qos2 c.
Proof.
  intros Hrole (HO & HS & HE & Hv) St Rv Hn Hf.
  pose proof (send_connack_OR g c connack_pkt HO) as H1. pose proof (send_connack_SR g c connack_pkt HO HS) as H2.
  pose proof (send_connack_ER c connack_pkt HE) as H3. pose proof (K_of g c _ H1 H2 H3 Hv) as HK. clear H1 H2 H3.
  rewrite (do_send_connack g c Hrole Rv).
  unfold send_connack in *. change (k_ver connack_pkt) with V311 in *. cbn [version_eqb andb] in *. rewrite St in *. cbn [status_eqb negb] in *. cbv zeta in *.
  unfold connack_send_props in *. change (k_ver connack_pkt) with V311 in *. cbn [version_eqb andb] in *. change (k_rc connack_pkt =? 0) with true in *. cbn [negb] in *.
  set (c0 := set_status c Connected) in *.
  assert (Hf0 : stored_fit c0) by exact Hf.
  destruct (send_stored_all c0 Hf0) as (c1 & E1 & S1 & S2 & S3 & S4 & S5 & S6 & S7). rewrite E1 in *. cbn [bindr] in *.
  assert (Y : c_store c0 = c_store c /\ c_status c0 = Connected /\ c_version c0 = c_version c /\ c_need_store c0 = c_need_store c /\
              c_auto_pub c0 = c_auto_pub c /\ c_qos2 c0 = c_qos2 c /\ c_mps_send c0 = c_mps_send c) by (repeat split).
  destruct Y as (Y1 & Y2 & Y3 & Y4 & Y5 & Y6 & Y7). clearbody c0.
  set (es := map (fun q => ESend (store_into q) None) (c_store c0)) in *.
  assert (Es : sends es = map store_into (c_store c0) /\ errors es = [] /\ notifies es = [])
    by (unfold es; split; [apply sends_map_send|split; [apply errors_map_send|apply notifies_map_send]]).
  destruct Es as (Es1 & Es2 & Es3). clearbody es.
  pose proof (post_keeps c1) as P. pose proof (post_quiet c1) as Q. pose proof (post_extra c1) as X. cbv zeta in P, Q, X.
  destruct (send_post_process c1) as [c2 e2]. cbn [fst snd] in *. destruct P as (F & P1 & P2 & P3 & _), Q as (Q1 & Q2 & Q3 & _), X as (X1 & X2 & _).
  eexists _, _. split; [reflexivity|]. split; [exact HK|]. ev_simpl. rewrite Es1, Es2, Q2, Q3. cbn. rewrite !app_nil_r.
  split; [congruence|]. split; [reflexivity|].
  split; [split; [destruct F as (_ & _ & _ & _ & _ & _ & _ & F); congruence|rewrite P1, S2, Y2; reflexivity]|].
  split; [congruence|]. split; [destruct F as (_ & F & _); congruence|]. split; [congruence|]. split; congruence.
Qed.

Section LossS.
Variables gs gr : cfg.
Hypothesis gs_server : role_server_ok gs = true.
Hypothesis gr_client : role_client_ok gr = true.
Hypothesis idw_small : 2 + g_idw gs <= MQTT_PACKET_SIZE_NO_LIMIT.

Definition tl_or_nil (l : list pkt) : list pkt := match l with [] => [] | _ :: t => t end.

(* the transport is lost; the receiver is the client and reconnects, the sender is the server and retransmits with its CONNACK *)
Definition do_loseS (s : sys) : res3 :=
  match do_closed (cs s), do_closed (cr s) with
  | Ok (c1, _), Ok (r1, _) =>
    match do_send gr r1 connect_pkt with
    | Ok (r2, e2) =>
      match one (sends e2) with
      | Some cn =>
        if negb (none (errors e2)) then Bad else
        match deliver gs c1 cn with
        | Ok (c2, e5) =>
          if negb (none (errors e5) && none (sends e5)) then Bad else
          match do_send gs c2 connack_pkt with
          | Ok (c3, e6) =>
            match sends e6 with
            | ca :: resent =>
              if negb (none (errors e6)) then Bad else
              match deliver gr r2 ca with
              | Ok (r3, e3) => if negb (none (errors e3) && none (sends e3)) then Bad
                               else Next (mkSys c3 r3 resent [] (published s) (delivered s))
              | Panic _ => Bad
              end
            | [] => Bad
            end
          | Panic _ => Bad
          end
        | Panic _ => Bad
        end
      | None => Bad
      end
    | Panic _ => Bad
    end
  | _, _ => Bad
  end.

Lemma loseS_both s : invL gs gr s ->
  match do_loseS s with
  | Next s' => invL gs gr s' /\
               published s' = published s /\ delivered s' = delivered s /\ qrs s' = [] /\ qsr s' = map store_into (c_store (cs s)) /\
               c_store (cs s') = c_store (cs s) /\ c_qos2 (cr s') = c_qos2 (cr s)
  | Skip => True
  | Bad => False
  end.
Proof.
  destruct s as [cs0 cr0 qsr0 qrs0 pub0 del0]. unfold invL, do_loseS. cbn [cs cr qsr qrs published delivered].
  intros (HK & Rs & Has & Hns & Hmp & Hfit & HKr & Rr & Har & Hnr & Hsr & Hasc & Fsr & Frs & Hnd & Hq & Hpc).
  destruct (close_K gs cs0 HK Hns) as (c1 & e1 & E1 & K1 & Sh1 & N1 & St1 & _ & V1 & A1). rewrite E1.
  destruct (close_K gr cr0 HKr Hnr) as (r1 & f1 & F1 & Kr1 & Shr1 & Nr1 & Str1 & Q1 & Vr1 & Ar1). rewrite F1.
  assert (Rv1 : c_version c1 = V311) by (rewrite V1; apply Rs). assert (Rvr1 : c_version r1 = V311) by (rewrite Vr1; apply Rr).
  (* the client (receiver) reconnects *)
  destruct (connect_sent gr r1 gr_client Kr1 Shr1 Rvr1 Nr1) as (r2 & e2 & E2 & Kr2 & S2 & X2 & _ & Str2 & Vr2 & Nr2 & Tr2 & Ar2 & Mr2). rewrite E2, S2, X2.
  cbn [one none negb].
  (* the server (sender) receives the CONNECT *)
  destruct (connect_received gs c1 K1 Sh1 Rv1 N1) as (c2 & e5 & E5 & K2 & _ & X5 & S5 & St2 & V2 & N2 & T2 & A2 & _). rewrite E5, X5, S5.
  cbn [none andb negb].
  assert (M2 : c_mps_send c2 = MQTT_PACKET_SIZE_NO_LIMIT).
  { (* the receive path of CONNECT does not touch the send limit of a v3.1.1 connection: it is the closed state's *)
    destruct Sh1 as (Hd & _ & _ & _ & Hm1 & _). revert E5. unfold deliver, dispatch_recv. rewrite Rv1. change (k_type connect_pkt) with T_CONNECT. change (T_CONNECT =? 1) with true. cbv iota.
    rewrite (recv_connect_closed gs c1 Hd). pose proof (refresh_extra (srv_connecting c1)) as X. cbv zeta in X.
    destruct (refresh_pingreq_recv (srv_connecting c1)) as [cc ee]. cbn [fst] in X. intro H. injection H as <- _. destruct X as (_ & X2' & _). rewrite X2'. exact Hm1. }
  assert (Hfit2 : stored_fit c2) by (unfold stored_fit; rewrite T2, St1, M2, <- Hmp; exact Hfit).
  (* ... and answers with CONNACK and the retransmissions *)
  destruct (connack_sent_resume gs c2 gs_server K2 St2 V2 N2 Hfit2) as (c3 & e6 & E6 & K3 & S6 & X6 & R3 & N3 & T3 & A3 & M3 & _). rewrite E6, S6, X6.
  cbn [none negb].
  (* the client receives the CONNACK: it has nothing stored *)
  assert (Hst2 : c_store r2 = []) by congruence.
  assert (Hfr2 : stored_fit r2) by (unfold stored_fit; rewrite Hst2; constructor).
  destruct (connack_received gr r2 Kr2 Str2 Vr2 Nr2 Hfr2) as (r3 & e3 & E3 & Kr3 & S3 & X3 & Rr3 & Nr3 & Tr3 & Ar3 & _). rewrite E3, X3, S3, Hst2.
  cbn [map none andb negb]. cbn [cs cr qsr qrs published delivered].
  assert (Q3 : c_qos2 r3 = c_qos2 r2).
  { revert E3. unfold deliver, dispatch_recv. rewrite Vr2. change (k_type connack_pkt) with T_CONNACK. change (T_CONNACK =? 1) with false. change (T_CONNACK =? 2) with true. cbv iota.
    unfold recv_connack. rewrite Str2. cbn [status_eqb]. change (k_rc connack_pkt =? 0) with true. cbv iota. cbn [version_eqb]. change (k_flag connack_pkt) with true.
    unfold resume_or_clear. set (c0 := set_status r2 Connected).
    assert (Hq0 : c_qos2 c0 = c_qos2 r2) by reflexivity.
    assert (Hf0 : stored_fit c0) by exact Hfr2. destruct (send_stored_all c0 Hf0) as (cc & Ec & _ & _ & _ & _ & _ & _ & Qc). rewrite Ec. cbn [bindr].
    destruct (existsb _ _).
    - pose proof (Qos2Dup.post_silent cc) as (_ & _ & Qp). destruct (send_post_process cc) as [cd ed]. cbn [fst bindr] in *. intro H. injection H as <- _. congruence.
    - cbn [bindr]. intro H. injection H as <- _. congruence. }
  assert (Q2 : c_qos2 r2 = c_qos2 r1).
  { revert E2. rewrite (do_send_connect gr r1 gr_client Rvr1). destruct Shr1 as (Hd & _). rewrite (send_connect_closed r1 Hd).
    pose proof (send_and_post_x (connecting r1) connect_pkt None) as Kx. destruct (send_and_post (connecting r1) connect_pkt None []) as [[cc ee]|]; [|discriminate].
    intro H. injection H as <- _. destruct Kx as (_ & _ & _ & _ & _ & _ & _ & Kq). rewrite Kq. reflexivity. }
  pose proof K3 as (O3 & _ & HE3 & _).
  split.
  { split; [exact K3|]. split; [exact R3|]. split; [congruence|]. split; [exact N3|]. split; [congruence|].
    split; [unfold stored_fit; rewrite T3, M3; exact Hfit2|].
    split; [exact Kr3|]. split; [exact Rr3|]. split; [congruence|]. split; [exact Nr3|]. split; [congruence|]. split; [rewrite Q3, Q2, Q1; exact Hasc|].
    split.
    { rewrite <- T3. apply Forall_forall. intros x Hx. apply in_map_iff in Hx as (q & <- & Hq'). apply (resend_flight gs); [exact O3|exact HE3|apply R3|exact Hq']. }
    split; [constructor|].
    split; [rewrite app_nil_r, <- T3, ids_store_into; exact (o_nodup _ _ _ _ _ _ _ _ _ O3)|].
    split; [|intros x []].
    intros y Hy. rewrite Q3, Q2, Q1 in Hy. rewrite T3, T2, St1. exact (Hq y Hy). }
  do 3 (split; [reflexivity|]). split; [congruence|]. split; [congruence|]. congruence.
Qed.

(* ---- the system: PairLoss's, with this resumption ---- *)
Inductive actS := PubS (p : pkt) | ToRS | ToSS | LoseS.
Definition do_actS (s : sys) (a : actS) : res3 :=
  match a with PubS p => do_pub gs s p | ToRS => do_to_r gr s | ToSS => do_to_s gs s | LoseS => do_loseS s end.
Fixpoint run_schedS (s : sys) (l : list actS) : option sys :=
  match l with
  | [] => Some s
  | a :: t => match do_actS s a with Next s' => run_schedS s' t | Skip => run_schedS s t | Bad => None end
  end.
Definition good_actS (a : actS) : Prop :=
  match a with PubS p => (v311_pub p 1 \/ v311_pub p 2) /\ k_size p <= MQTT_PACKET_SIZE_NO_LIMIT | _ => True end.

Definition allS (s : sys) : Prop := invL gs gr s /\ accB s /\ accC s.

Lemma accB_loseS s : invL gs gr s -> accB s -> match do_loseS s with Next s' => accB s' | _ => True end.
Proof.
  intros Hi (Hpr & Hacc & Hord). pose proof (loseS_both s Hi) as Hsh.
  destruct (do_loseS s) as [s'| |]; [|exact I|exact I]. destruct Hsh as (_ & Epub & Edel & Eqr & Eqs & Est & EQ).
  unfold accB. rewrite Epub, Edel, Eqr, Eqs, Est, EQ, pend2_store_into. split; [intros x []|]. split; [rewrite Hord; exact Hacc|reflexivity].
Qed.
Lemma accC_loseS s : invL gs gr s -> accC s -> match do_loseS s with Next s' => accC s' | _ => True end.
Proof.
  intros Hi (Hfl & Htw & Hpa & Hac). pose proof (loseS_both s Hi) as Hsh.
  destruct (do_loseS s) as [s'| |]; [|exact I|exact I]. destruct Hsh as (_ & Epub & Edel & Eqr & Eqs & Est & EQ).
  destruct Hi as ((HO & _) & _).
  unfold accC. rewrite Epub, Edel, Eqr, Eqs, Est.
  split; [|split; [|split]].
  - intros e He. rewrite app_nil_r, ids_store_into. now apply in_map.
  - intros x' e Hx' Hty He Hpe. apply in_map_iff in Hx' as (e' & <- & He').
    destruct (k_type e' =? T_PUBLISH) eqn:Et; [|unfold store_into in Hty; rewrite Et in Hty; discriminate Hty].
    rewrite (store_into_pub e' Et) in *. f_equal.
    apply (nodup_pid_eq (c_store (cs s))); [exact (o_nodup _ _ _ _ _ _ _ _ _ HO)|exact He|exact He'|exact Hpe].
  - intros x' e [].
  - exact Hac.
Qed.

Lemma actS_ok s a : allS s -> good_actS a -> match do_actS s a with Next s' => allS s' | Skip => True | Bad => False end.
Proof.
  intros (Hi & Hb & Hc) Hg. destruct a as [p| | |].
  - change (do_actS s (PubS p)) with (do_pub gs s p). destruct Hg as [[Hg|Hg] Hs].
    + pose proof (pubL_ok gs gr idw_small s p 1 Hi Hg (or_introl eq_refl) Hs) as H1.
      pose proof (accB_pub gs gr idw_small s p 1 Hi Hb Hg (or_introl eq_refl)) as H2. pose proof (accC_pub gs gr idw_small s p 1 Hi Hc Hg (or_introl eq_refl)) as H3.
      destruct (do_pub gs s p); [split; [exact H1|split; [exact H2|exact H3]]|exact I|exact H1].
    + pose proof (pubL_ok gs gr idw_small s p 2 Hi Hg (or_intror eq_refl) Hs) as H1.
      pose proof (accB_pub gs gr idw_small s p 2 Hi Hb Hg (or_intror eq_refl)) as H2. pose proof (accC_pub gs gr idw_small s p 2 Hi Hc Hg (or_intror eq_refl)) as H3.
      destruct (do_pub gs s p); [split; [exact H1|split; [exact H2|exact H3]]|exact I|exact H1].
  - change (do_actS s ToRS) with (do_to_r gr s). pose proof (toL_r_step gs gr idw_small s Hi) as H1.
    pose proof (accB_toR gs gr idw_small s Hi Hb) as H2. pose proof (accC_toR gs gr s Hi Hc) as H3.
    destruct (do_to_r gr s); [split; [apply H1|split; assumption]|exact I|exact H1].
  - change (do_actS s ToSS) with (do_to_s gs s). pose proof (toL_s_step gs gr idw_small s Hi) as H1.
    pose proof (accB_toS gs gr s Hi Hb) as H2. pose proof (accC_toS gs gr idw_small s Hi Hc) as H3.
    destruct (do_to_s gs s); [split; [apply H1|split; assumption]|exact I|exact H1].
  - change (do_actS s LoseS) with (do_loseS s). pose proof (loseS_both s Hi) as H1.
    pose proof (accB_loseS s Hi Hb) as H2. pose proof (accC_loseS s Hi Hc) as H3.
    destruct (do_loseS s); [split; [apply H1|split; assumption]|exact I|exact H1].
Qed.

Theorem schedS_ok : forall l s, allS s -> Forall good_actS l -> exists s', run_schedS s l = Some s' /\ allS s'.
Proof.
  induction l as [|a t IH]; intros s Hi Hf; cbn [run_schedS]; [exists s; split; [reflexivity|exact Hi]|].
  inversion Hf as [|? ? Ha Ht]; subst. pose proof (actS_ok s a Hi Ha) as H.
  destruct (do_actS s a) as [s'| |]; [exact (IH s' H Ht)|exact (IH s Hi Ht)|destruct H].
Qed.

Fixpoint drainS (n : nat) : list actS := match n with O => [] | S k => ToRS :: ToSS :: drainS k end.
Lemma drainS_good n : Forall good_actS (drainS n).
Proof. induction n as [|k IH]; cbn [drainS]; [constructor|]. constructor; [exact I|]. constructor; [exact I|exact IH]. Qed.

Lemma drainS_empties : forall n s, invL gs gr s -> (measure s <= n)%nat ->
  exists s', run_schedS s (drainS n) = Some s' /\ qsr s' = [] /\ qrs s' = [] /\ published s' = published s.
Proof.
  induction n as [|k IH]; intros s Hi Hm.
  - assert (H0 : measure s = 0%nat) by lia. destruct (measure_zero s H0) as [Q1 Q2]. exists s. cbn [drainS run_schedS]. repeat split; assumption.
  - cbn [drainS run_schedS do_actS]. pose proof (toL_r_step gs gr idw_small s Hi) as H1. destruct (do_to_r gr s) as [s1| |] eqn:E1; [| |destruct H1].
    + destruct H1 as [Hi1 Hm1]. pose proof (to_r_pub gr s s1 E1) as P1.
      pose proof (toL_s_step gs gr idw_small s1 Hi1) as H2. destruct (do_to_s gs s1) as [s2| |] eqn:E2; [| |destruct H2].
      * destruct H2 as [Hi2 Hm2]. pose proof (to_s_pub gs s1 s2 E2) as P2.
        destruct (IH s2 Hi2 ltac:(lia)) as (s' & R & Q1 & Q2 & P'). exists s'. split; [exact R|]. split; [exact Q1|]. split; [exact Q2|]. congruence.
      * destruct (IH s1 Hi1 ltac:(lia)) as (s' & R & Q1 & Q2 & P'). exists s'. split; [exact R|]. split; [exact Q1|]. split; [exact Q2|]. congruence.
    + pose proof (toL_s_step gs gr idw_small s Hi) as H2. destruct (do_to_s gs s) as [s2| |] eqn:E2; [| |destruct H2].
      * destruct H2 as [Hi2 Hm2]. pose proof (to_s_pub gs s s2 E2) as P2.
        destruct (IH s2 Hi2 ltac:(lia)) as (s' & R & Q1 & Q2 & P'). exists s'. split; [exact R|]. split; [exact Q1|]. split; [exact Q2|]. congruence.
      * assert (H0 : measure s = 0%nat) by (unfold measure; rewrite H1, H2; reflexivity).
        destruct (IH s Hi ltac:(lia)) as (s' & R & Q1 & Q2 & P'). exists s'. split; [exact R|]. split; [exact Q1|]. split; [exact Q2|]. exact P'.
Qed.

(* THE SERVER PUBLISHES TO THE CLIENT ACROSS TRANSPORT LOSS: every schedule succeeds; after the drain nothing is in flight or
   stored, the QoS 2 messages notified are exactly those published (once each, in order, up to DUP) and every published
   QoS 1 message has been notified *)
Theorem server_to_client_across_loss l s : allS s -> Forall good_actS l ->
  exists s1 s2, run_schedS s l = Some s1 /\ run_schedS s1 (drainS (measure s1)) = Some s2 /\
                qsr s2 = [] /\ qrs s2 = [] /\ c_store (cs s2) = [] /\
                map undup (filter q2 (delivered s2)) = map undup (filter q2 (published s1)) /\
                (forall p, In p (published s1) -> k_type p = T_PUBLISH -> k_qos p = 1 -> In (undup p) (map undup (delivered s2))).
Proof.
  intros Hi Hf. destruct (schedS_ok l s Hi Hf) as (s1 & R1 & I1).
  destruct (drainS_empties (measure s1) s1 (proj1 I1) (le_n _)) as (s2 & R2 & Q1 & Q2 & P2).
  destruct (schedS_ok (drainS (measure s1)) s1 I1 (drainS_good _)) as (s2' & R2' & _ & (_ & A2 & _) & (Hfl & _ & _ & Hac)).
  rewrite R2 in R2'. injection R2' as <-.
  assert (Hst : c_store (cs s2) = []).
  { destruct (c_store (cs s2)) as [|e t] eqn:E; [reflexivity|]. exfalso. specialize (Hfl e (or_introl eq_refl)). rewrite Q1, Q2 in Hfl. destruct Hfl. }
  exists s1, s2. split; [exact R1|]. split; [exact R2|]. split; [exact Q1|]. split; [exact Q2|]. split; [exact Hst|]. split.
  - rewrite Q1 in A2. unfold pend2 in A2. cbn [filter map] in A2. rewrite app_nil_r in A2. rewrite <- P2. symmetry. exact A2.
  - intros p Hp Htp Hqp. rewrite <- P2 in Hp. destruct (Hac p Hp Htp Hqp) as [H|(e & He & _)]; [exact H|]. rewrite Hst in He. destruct He.
Qed.
End LossS.
