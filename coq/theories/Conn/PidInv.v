(* The packet-identifier allocator of a connection keeps its bounds [1, idmax] through EVERY call
   of the model, in every state and for every input: `pid_bounds` is an invariant of all histories.
   (It is the hypothesis of the C10 theorems and part of WFpid.) *)
From MQ Require Import Base.Prelude Alloc.Alloc Alloc.SetSpec Alloc.AllocProofs Framing.Framing
                       Conn.Types Conn.TopicAlias Conn.ConnRecord Conn.Step Conn.Run Corr.ConnTrace Conn.Scope.

Definition same_bounds (a b : alloc) : Prop := a_lo a = a_lo b /\ a_hi a = a_hi b /\ a_max a = a_max b.
Lemma sb_refl a : same_bounds a a. Proof. unfold same_bounds; auto. Qed.
Lemma sb_trans a b c : same_bounds a b -> same_bounds b c -> same_bounds a c.
Proof. unfold same_bounds; intuition congruence. Qed.

Lemma allocate_bounds a r a' : a_allocate a = Ok (r, a') -> same_bounds a' a.
Proof.
  unfold a_allocate. destruct (a_pool a) as [|[l h] t]; [intro H; inversion H; apply sb_refl|].
  destruct (l <? h).
  - destruct (inc (a_max a) l); cbn [bindr]; [|discriminate]. intro H; inversion H; subst. unfold same_bounds; cbn; auto.
  - intro H; inversion H; subst. unfold same_bounds; cbn; auto.
Qed.
Lemma use_value_bounds a v : same_bounds (snd (a_use_value a v)) a.
Proof. unfold a_use_value. destruct (find _ _); cbn [snd]; [unfold same_bounds; cbn; auto|apply sb_refl]. Qed.
Lemma deallocate_bounds a v a' : a_deallocate a v = Ok a' -> same_bounds a' a.
Proof. intro H. apply a_deallocate_bounds in H. exact H. Qed.
Lemma clear_bounds a : same_bounds (a_clear a) a.
Proof. unfold a_clear, same_bounds; cbn; auto. Qed.

Lemma release_all_bounds ids : forall a a', release_all a ids = Ok a' -> same_bounds a' a.
Proof.
  induction ids as [|i t IH]; intros a a'; cbn [release_all]; [intro H; inversion H; apply sb_refl|].
  unfold pm_release. destruct (a_deallocate a i) as [a1|] eqn:E; cbn [bindr]; [|discriminate].
  intro H. apply (sb_trans _ a1); [now apply IH|now apply deallocate_bounds in E].
Qed.
Lemma drain_bounds ids a a' e : drain_release a ids = Ok (a', e) -> same_bounds a' a.
Proof. intro H. apply drain_release_bounds in H. exact H. Qed.

(* the relative statement for results: the allocator of the outcome has the bounds of c's *)
Definition BD (c : conn) (r : res (conn * list event)) : Prop :=
  match r with Ok (c', _) => same_bounds (c_pid c') (c_pid c) | Panic _ => True end.

Lemma BD_bind c {A} (r : res A) (f : A -> res (conn * list event)) :
  (forall a, r = Ok a -> BD c (f a)) -> BD c (bindr r f).
Proof. intro H. destruct r; cbn [bindr]; [now apply H|exact I]. Qed.

Lemma BD_trans c c1 r : same_bounds (c_pid c1) (c_pid c) -> BD c1 r -> BD c r.
Proof. destruct r as [[c' e]|]; cbn [BD]; [|trivial]. intros H1 H2. now apply (sb_trans _ (c_pid c1)). Qed.

(* ---- helpers that do not touch the allocator ---- *)
Lemma post_pid c : c_pid (fst (send_post_process c)) = c_pid c.
Proof. unfold send_post_process. destruct (c_is_client c); [destruct (0 <? _)|]; reflexivity. Qed.
Lemma cancel_pid c : c_pid (fst (cancel_timers c)) = c_pid c.
Proof. rewrite cancel_timers_state. reflexivity. Qed.
Lemma refresh_pid c : c_pid (fst (refresh_pingreq_recv c)) = c_pid c.
Proof. unfold refresh_pingreq_recv. destruct (negb _); reflexivity. Qed.
Lemma validate_alias_pid c a : c_pid (snd (validate_topic_alias c a)) = c_pid c.
Proof.
  unfold validate_topic_alias. destruct a as [a|]; [|reflexivity]. destruct (negb _); [reflexivity|].
  destruct (c_ta_send c) as [s|]; [|reflexivity]. destruct (tas_get s a) as [[t|] s']; reflexivity.
Qed.
Lemma release_BD c id : BD c (release_if_used c id).
Proof.
  unfold release_if_used, BD. destruct (is_used c id); [|apply sb_refl].
  unfold pm_release. destruct (a_deallocate (c_pid c) id) eqn:E; cbn [bindr]; [|exact I].
  cbn [set_pid c_pid]. now apply deallocate_bounds in E.
Qed.
Lemma send_and_post_BD c p rel pre : BD c (send_and_post c p rel pre).
Proof.
  unfold send_and_post, BD. pose proof (post_pid c) as H. destruct (send_post_process c) as [c' e]. cbn [fst] in H.
  rewrite H. apply sb_refl.
Qed.

(* ---- automation ---- *)
Ltac bd_helper :=
  match goal with
  | |- context [send_post_process ?c] =>
      let H := fresh "Hpost" in pose proof (post_pid c) as H; destruct (send_post_process c) as [? ?]; cbn [fst] in H
  | |- context [cancel_timers ?c] =>
      let H := fresh "Hcan" in pose proof (cancel_pid c) as H; destruct (cancel_timers c) as [? ?]; cbn [fst] in H
  | |- context [refresh_pingreq_recv ?c] =>
      let H := fresh "Href" in pose proof (refresh_pid c) as H; destruct (refresh_pingreq_recv c) as [? ?]; cbn [fst] in H
  | |- context [validate_topic_alias ?c ?a] =>
      let H := fresh "Hval" in pose proof (validate_alias_pid c a) as H; destruct (validate_topic_alias c a) as [? ?]; cbn [snd] in H
  | |- context [release_if_used ?c ?id] =>
      let H := fresh "Hrel" in pose proof (release_BD c id) as H; destruct (release_if_used c id) as [[? ?]|]; cbn [BD] in H
  end.

(* leaf: the allocator of the outcome is, through setters that do not touch it and the recorded
   equalities / bound facts, the allocator of the start state *)
Ltac bd_facts :=
  repeat match goal with
         | H : pm_release _ _ = Ok _ |- _ => unfold pm_release in H; apply deallocate_bounds in H
         | H : release_all _ _ = Ok _ |- _ => apply release_all_bounds in H
         | H : drain_release _ _ = Ok _ |- _ => apply drain_bounds in H
         | H : pm_acquire _ = Ok _ |- _ => unfold pm_acquire in H; apply allocate_bounds in H
         end.

Lemma sb_sym a b : same_bounds a b -> same_bounds b a.
Proof. unfold same_bounds; intuition. Qed.
Lemma sb_eq a b : a = b -> same_bounds a b.
Proof. intros ->. apply sb_refl. Qed.

Ltac bd_norm :=
  repeat match goal with
         | |- context [if ?b then _ else _] => destruct b
         | |- context [match ?o with Some _ => _ | None => _ end] => destruct o
         | H : same_bounds _ (c_pid (if ?b then _ else _)) |- _ => destruct b
         | H : same_bounds _ (c_pid (match ?o with Some _ => _ | None => _ end)) |- _ => destruct o
         | H : c_pid _ = c_pid (if ?b then _ else _) |- _ => destruct b
         | H : c_pid _ = c_pid (match ?o with Some _ => _ | None => _ end) |- _ => destruct o
         end;
  conn_simpl;
  repeat match goal with H : c_pid ?x = c_pid ?y |- _ => apply sb_eq in H end.

Ltac bd_solve :=
  first [ apply sb_refl | assumption | apply clear_bounds
        | match goal with H : same_bounds ?a ?b |- same_bounds ?a ?c =>
            apply (sb_trans _ b); [exact H|]; bd_solve end
        | match goal with H : same_bounds ?b ?a |- same_bounds ?a ?c =>
            apply (sb_trans _ b); [apply sb_sym; exact H|]; clear H; bd_solve end ].

Ltac bd_leaf := cbn [BD]; bd_facts; bd_norm; try unfold pm_clear; bd_solve.

Ltac bd_step :=
  match goal with
  | |- BD _ (Panic _) => exact I
  | |- BD _ (Ok _) => bd_leaf
  | |- BD _ (bindr (Panic _) _) => exact I
  | |- BD _ (bindr (Ok _) _) => cbn [bindr]
  | |- BD _ (if ?b then _ else _) => destruct b eqn:?
  | |- BD _ (let '(_, _) := (if ?b then _ else _) in _) => destruct b eqn:?
  | |- BD _ (let '(_, _) := ?x in _) => first [bd_helper | destruct x as [? ?] eqn:?]
  | |- BD _ (match ?x with _ => _ end) => first [bd_helper | destruct x eqn:?]
  | |- BD _ (bindr (if ?b then _ else _) _) => destruct b eqn:?
  | |- BD _ (bindr ?r _) => first [bd_helper | destruct r as [?|] eqn:?]; cbn [bindr]
  | |- BD _ (send_and_post _ _ _ _) =>
      repeat match goal with
             | |- context [if ?b then _ else _] => destruct b
             | |- context [match ?o with Some _ => _ | None => _ end] => destruct o
             end;
      (eapply BD_trans; [|apply send_and_post_BD]); bd_facts; bd_norm; try unfold pm_clear; bd_solve
  end.

Lemma send_plain_BD c p : BD c (send_plain c p).
Proof. unfold send_plain. repeat bd_step. Qed.
Lemma send_connect_BD c p : BD c (send_connect c p).
Proof.
  unfold send_connect, initialize, clear_store_related, pm_clear. repeat bd_step.
Qed.

Lemma send_stored_BD c : BD c (send_stored c).
Proof.
  unfold send_stored. destruct (send_stored_l _ _) as [kept dropped]. cbv zeta.
  match goal with |- BD _ (bindr (release_all ?a ?ids) _) => destruct (release_all a ids) as [a'|] eqn:E end; cbn [bindr]; [|exact I].
  apply release_all_bounds in E. conn_simpl. destruct (c_send_max _); cbn [BD]; conn_simpl; exact E.
Qed.

Ltac bd_sub :=
  match goal with
  | |- context [send_stored ?c] =>
      let H := fresh "Hss" in pose proof (send_stored_BD c) as H; destruct (send_stored c) as [[? ?]|]; cbn [BD] in H
  end.

Lemma connack_send_props_pid c p : c_pid (fst (connack_send_props c p)) = c_pid c.
Proof.
  unfold connack_send_props. destruct (_ && _); [|reflexivity].
  destruct (k_ska p) as [v|].
  - destruct (v =? 0).
    + repeat match goal with |- context [match ?o with Some _ => _ | None => _ end] => destruct o
                        | |- context [if ?b then _ else _] => destruct b end; reflexivity.
    + repeat match goal with |- context [match ?o with Some _ => _ | None => _ end] => destruct o
                        | |- context [if ?b then _ else _] => destruct b end; reflexivity.
  - repeat match goal with |- context [match ?o with Some _ => _ | None => _ end] => destruct o
                      | |- context [if ?b then _ else _] => destruct b end; reflexivity.
Qed.

Ltac bd_step2 :=
  first [ match goal with
          | |- BD _ (let '(_, _) := connack_send_props ?c ?p in _) =>
              let H := fresh "Hcsp" in pose proof (connack_send_props_pid c p) as H;
              destruct (connack_send_props c p) as [? ?]; cbn [fst] in H
          | |- BD _ (bindr (send_stored _) _) => bd_sub; cbn [bindr]
          | |- BD _ (match send_stored _ with _ => _ end) => bd_sub
          end
        | bd_step ].

Lemma send_connack_BD c p : BD c (send_connack c p).
Proof. unfold send_connack. repeat bd_step2. Qed.

Lemma refuse_publish_BD c id err pre : BD c (refuse_publish c id err pre).
Proof. unfold refuse_publish. repeat bd_step2. Qed.

Lemma store_add_pid c p c' : store_add c p = Ok c' -> c_pid c' = c_pid c.
Proof. unfold store_add. destruct (store_has _ _); [discriminate|]. intro H; inversion H; reflexivity. Qed.

Ltac bd_step3 :=
  first [ match goal with
          | |- BD _ (bindr (bindr (store_add ?c ?p) _) _) =>
              let E := fresh "Esa" in destruct (store_add c p) as [?|] eqn:E; cbn [bindr]; [apply store_add_pid in E|exact I]
          | |- BD _ (bindr (store_add ?c ?p) _) =>
              let E := fresh "Esa" in destruct (store_add c p) as [?|] eqn:E; cbn [bindr]; [apply store_add_pid in E|exact I]
          | |- BD _ (bindr (refuse_publish ?c ?id ?err ?pre) _) =>
              let H := fresh "Hrp" in pose proof (refuse_publish_BD c id err pre) as H;
              destruct (refuse_publish c id err pre) as [[? ?]|]; cbn [BD bindr] in *
          | |- BD ?c0 (refuse_publish ?c ?id ?err ?pre) =>
              (eapply BD_trans; [|apply refuse_publish_BD]); bd_facts; bd_norm; bd_solve
          end
        | bd_step2 ].

Lemma send_publish_v311_BD c p : BD c (send_publish_v311 c p).
Proof. unfold send_publish_v311. repeat bd_step3. Qed.

Lemma send_puback_like_BD c p : BD c (send_puback_like c p).
Proof. unfold send_puback_like. repeat bd_step3. Qed.
Lemma send_pubrel_BD c p : BD c (send_pubrel c p).
Proof. unfold send_pubrel. repeat bd_step3. Qed.
Lemma send_sub_unsub_BD c p : BD c (send_sub_unsub c p).
Proof. unfold send_sub_unsub. repeat bd_step3. Qed.
Lemma send_pingreq_BD c p : BD c (send_pingreq c p).
Proof. unfold send_pingreq. repeat bd_step3. Qed.
Lemma send_disconnect_BD c p : BD c (send_disconnect c p).
Proof. unfold send_disconnect. repeat bd_step3. Qed.
Lemma send_auth_BD c p : BD c (send_auth c p).
Proof. unfold send_auth. repeat bd_step3. Qed.

(* brute force for the large functions: split every condition, keep the allocator facts of the
   helpers, solve the leaves *)
Ltac bd_brute_step :=
  first
   [ progress cbn [bindr]
   | bd_helper
   | match goal with |- context [refuse_publish ?c ?id ?err ?pre] =>
       let H := fresh "Hrp" in pose proof (refuse_publish_BD c id err pre) as H;
       destruct (refuse_publish c id err pre) as [[? ?]|]; cbn [BD] in H end
   | match goal with |- context [store_add ?c ?p] =>
       let E := fresh "Esa" in destruct (store_add c p) as [?|] eqn:E; [apply store_add_pid in E|] end
   | match goal with |- context [tas_insert ?s ?t ?a] => destruct (tas_insert s t a) as [?|] end
   | match goal with |- context [tas_lru ?s] => destruct (tas_lru s) as [?|] end
   | match goal with |- BD _ (if ?b then _ else _) => destruct b eqn:? end
   | match goal with |- BD _ (bindr (if ?b then _ else _) _) => destruct b eqn:? end
   | match goal with |- BD _ (bindr (bindr (if ?b then _ else _) _) _) => destruct b eqn:? end
   | match goal with |- BD _ (match ?x with _ => _ end) => destruct x eqn:? end
   | match goal with |- BD _ (bindr (match ?x with _ => _ end) _) => destruct x eqn:? end
   | match goal with |- BD _ (bindr (bindr (match ?x with _ => _ end) _) _) => destruct x eqn:? end
   | match goal with |- BD _ (bindr (let '(_, _) := ?x in _) _) => destruct x as [? ?] eqn:? end
   | match goal with |- BD _ (bindr (bindr (let '(_, _) := ?x in _) _) _) => destruct x as [? ?] eqn:? end ].

Ltac bd_final :=
  match goal with
  | |- BD _ (Panic _) => exact I
  | |- BD _ (Ok _) => bd_leaf
  | |- BD _ (send_and_post _ _ _ _) => bd_step
  end.

Lemma send_publish_v5_BD g c p : BD c (send_publish_v5 g c p).
Proof.
  unfold send_publish_v5. cbv zeta.
  repeat bd_brute_step; bd_final.
Qed.

