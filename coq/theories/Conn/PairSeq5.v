(* C01 / C12, model side, v5.0: ANY NUMBER of QoS 1 / QoS 2 exchanges in sequence between two v5.0 endpoints on an intact link
   (no topic alias in play), with Receive Maximum and Maximum Packet Size negotiated: every message is notified exactly once,
   in order, no call panics or reports an error, and after every exchange the Receive Maximum account is back at zero on both
   sides (the vacancy is the full maximum again).  Executable run + induction on the pair invariant, as in PairSeq.v. *)
From MQ Require Import Base.Prelude Alloc.Alloc Alloc.SetSpec Alloc.AllocProofs Framing.Framing
                       Conn.Types Conn.TopicAlias Conn.ConnRecord Conn.Step Conn.Run Corr.ConnTrace Conn.Scope Conn.IdsQuota Conn.WfInv
                       Conn.Own Conn.OwnFrame Conn.OwnStep Conn.Qos2Dup Conn.TasBounds Conn.NoPanic Conn.PairQos Conn.PairQos5 Conn.PairSeq.

(* what none of the calls of an exchange touches *)
Definition KF (a b : conn) : Prop :=
  c_status a = c_status b /\ c_version a = c_version b /\ c_auto_pub a = c_auto_pub b /\ c_ta_send a = c_ta_send b /\
  c_mps_send a = c_mps_send b /\ c_send_max a = c_send_max b /\ c_recv_max a = c_recv_max b.
Lemma kf_refl a : KF a a. Proof. unfold KF; repeat split. Qed.
Lemma kf_trans a b c : KF a b -> KF b c -> KF a c. Proof. unfold KF; intuition congruence. Qed.
Lemma kf_post c : KF (fst (send_post_process c)) c /\ c_send_count (fst (send_post_process c)) = c_send_count c /\
                  c_publish_recv (fst (send_post_process c)) = c_publish_recv c.
Proof. unfold send_post_process; destruct (c_is_client c); [destruct (0 <? _)|]; cbn [fst]; unfold KF; repeat split. Qed.
Lemma kf_refresh c : KF (fst (refresh_pingreq_recv c)) c /\ c_send_count (fst (refresh_pingreq_recv c)) = c_send_count c /\
                     c_publish_recv (fst (refresh_pingreq_recv c)) = c_publish_recv c.
Proof. unfold refresh_pingreq_recv. destruct (negb _); cbn [fst]; unfold KF; repeat split. Qed.

Lemma ready5_kf a b : KF a b -> ready5 b -> ready5 a.
Proof. intros (K1 & K2 & _) [R1 R2]. split; [congruence|now rewrite K1]. Qed.
Lemma ack_fits_kf g a b : KF a b -> ack_fits g b -> ack_fits g a.
Proof. intros (_ & _ & _ & _ & K5 & _) H. unfold ack_fits in *. now rewrite K5. Qed.

Lemma send_and_post_k cx p rel :
  match send_and_post cx p rel [] with
  | Ok (c1, e) => sends e = [p] /\ notifies e = [] /\ errors e = [] /\ released e = [] /\
                  F8 c1 cx /\ KF c1 cx /\ c_send_count c1 = c_send_count cx /\ c_qos2 c1 = c_qos2 cx /\ c_publish_recv c1 = c_publish_recv cx
  | Panic _ => False
  end.
Proof.
  pose proof (send_and_post_x cx p rel) as H. unfold send_and_post in *. pose proof (kf_post cx) as K.
  destruct (send_post_process cx) as [c1 e]. cbn [fst] in *. destruct H as (H1 & H2 & H3 & H4 & F & _ & _ & Q), K as (K1 & K2 & K3).
  repeat (split; [assumption|]). assumption.
Qed.

Lemma post_then_refresh_k cx p rel a :
  match bindr (send_and_post cx p rel []) (fun '(c, e1) => let '(c0, e2) := refresh_pingreq_recv c in Ok (c0, e1 ++ e2 ++ [ENotify a])) with
  | Ok (c2, e) => sends e = [p] /\ errors e = [] /\ released e = [] /\ F8 c2 cx /\ KF c2 cx /\ c_send_count c2 = c_send_count cx
  | Panic _ => False
  end.
Proof.
  pose proof (send_and_post_k cx p rel) as K. destruct (send_and_post cx p rel []) as [[c1 e1]|]; cbn [bindr]; [|exact K].
  destruct K as (K1 & K2 & K3 & K4 & F & KK & KC & _).
  pose proof (refresh_keeps c1) as K'. pose proof (refresh_quiet c1) as Q. pose proof (kf_refresh c1) as R. cbv zeta in K', Q.
  destruct (refresh_pingreq_recv c1) as [c2 e2]. cbn [fst snd] in *.
  destruct K' as (F' & _), Q as (Q1 & Q2 & Q3 & Q4), R as (R1 & R2 & _).
  ev_simpl. rewrite K1, K3, K4, Q2, Q3, Q4. cbn. do 3 (split; [reflexivity|]). split; [exact (f8_trans _ _ _ F' F)|].
  split; [exact (kf_trans _ _ _ R1 KK)|congruence].
Qed.

(* the sender accepts the PUBLISH *)
Lemma sender_sends5_x g c p q : OWN g c -> ready5 c -> v5_pub p q -> 1 <= q <= 2 -> fresh c (k_pid p) -> is_used c (k_pid p) = true ->
  size_ok c p = true -> c_ta_send c = None -> quota_left c ->
  match send_publish_v5 g c p with
  | Ok (c1, e1) => sends e1 = [p] /\ notifies e1 = [] /\ errors e1 = [] /\
                   OWN g c1 /\ KF c1 c /\ is_used c1 (k_pid p) = true /\
                   mem (k_pid p) (if q =? 2 then c_pubrec c1 else c_puback c1) = true /\
                   c_send_count c1 = (match c_send_max c with Some _ => c_send_count c + 1 | None => c_send_count c end)
  | Panic _ => False
  end.
Proof.
  intros HO [Rv Rs] (Ht & Hv & Hq & Hte & Hal) Hr Hf Hu Hsz Hta Hql.
  pose proof (send_publish_v5_OR g c p HO) as HOR.
  assert (E0 : (k_qos p =? 0) = false) by (apply N.eqb_neq; lia). rewrite E0 in HOR.
  specialize (HOR Hf ltac:(congruence) Ht ltac:(lia)).
  unfold send_publish_v5 in *. cbv zeta in *. rewrite Hsz, E0, Rs, Hu, Hte, Hal in *. cbn [negb andb] in *.
  assert (Hq0 : match c_send_max c with Some mx => mx <=? c_send_count c | None => false end = false).
  { unfold quota_left in Hql. destruct (c_send_max c); [apply N.leb_gt; exact Hql|reflexivity]. }
  destruct Hf as [Hc Hs].
  assert (Hfin : forall cx rel, c_pid cx = c_pid c -> KF cx c ->
            mem (k_pid p) (if q =? 2 then c_pubrec cx else c_puback cx) = true ->
            c_send_count cx = (match c_send_max c with Some _ => c_send_count c + 1 | None => c_send_count c end) ->
            OR g c (send_and_post cx p rel ([] ++ [])) ->
            match send_and_post cx p rel ([] ++ []) with
            | Ok (c1, e1) => sends e1 = [p] /\ notifies e1 = [] /\ errors e1 = [] /\
                             OWN g c1 /\ KF c1 c /\ is_used c1 (k_pid p) = true /\
                             mem (k_pid p) (if q =? 2 then c_pubrec c1 else c_puback c1) = true /\
                             c_send_count c1 = (match c_send_max c with Some _ => c_send_count c + 1 | None => c_send_count c end)
            | Panic _ => False end).
  { intros cx rel Hp Hk Hm Hsc Hor. change ([] ++ []) with (@nil event) in *. pose proof (send_and_post_k cx p rel) as K.
    destruct (send_and_post cx p rel []) as [[c1 e]|]; [|exact K]. destruct K as (K1 & K2 & K3 & _ & F & KK & KC & _). destruct Hor as [O1 _].
    do 3 (split; [assumption|]). split; [exact O1|]. split; [exact (kf_trans _ _ _ KK Hk)|].
    split; [unfold is_used in *; destruct F as (F & _); now rewrite F, Hp|].
    destruct F as (_ & _ & F3 & F4 & _). split; [destruct (q =? 2); [now rewrite F4|now rewrite F3]|congruence]. }
  assert (Hkp : k_pid (set_dup (remove_topic_alias g p) true) = k_pid p) by reflexivity.
  rewrite Hq in *.
  destruct (can_store_now c) eqn:Ec.
  - unfold store_add in *. rewrite Hkp, Hs in *. cbn [bindr] in *.
    destruct (N.eqb_spec q 2) as [E2|E2]; conn_simpl; rewrite Hq0 in *; rewrite Rs in *; rewrite Hta in *;
    (destruct (c_auto_map c); [|destruct (c_auto_replace c)]); cbn [bindr] in *; conn_simpl; destruct (c_send_max c) eqn:Esm; conn_simpl;
    rewrite ?Rs in *.
    all: apply Hfin; [reflexivity|unfold KF; conn_simpl_goal; repeat split; first [reflexivity|assumption|symmetry; assumption]| |reflexivity|exact HOR];
         conn_simpl_goal; unfold mem, ins; rewrite s_mem_insert, N.eqb_refl; reflexivity.
  - cbn [bindr] in *.
    destruct (N.eqb_spec q 2) as [E2|E2]; conn_simpl; rewrite Hq0 in *; rewrite Rs in *; rewrite Hta in *;
    (destruct (c_auto_map c); [|destruct (c_auto_replace c)]); cbn [bindr] in *; conn_simpl; destruct (c_send_max c) eqn:Esm; conn_simpl;
    rewrite ?Rs in *.
    all: apply Hfin; [reflexivity|unfold KF; conn_simpl_goal; repeat split; first [reflexivity|assumption|symmetry; assumption]| |reflexivity|exact HOR];
         conn_simpl_goal; unfold mem, ins; rewrite s_mem_insert, N.eqb_refl; reflexivity.
Qed.

(* a bare acknowledgement the library generates on an established v5.0 connection; PUBACK / PUBCOMP close the inbound account *)
Lemma auto_ack5_x g c t id : ready5 c -> ack_fits g c -> t = T_PUBACK \/ t = T_PUBREC \/ t = T_PUBCOMP ->
  match send_puback_like c (ack_pkt g t V50 id None) with
  | Ok (c1, e) => sends e = [ack_pkt g t V50 id None] /\ notifies e = [] /\ errors e = [] /\ KF c1 c /\ c_qos2 c1 = c_qos2 c /\
                  c_publish_recv c1 = (if (t =? T_PUBACK) || (t =? T_PUBCOMP) then del id (c_publish_recv c) else c_publish_recv c)
  | Panic _ => False
  end.
Proof.
  intros [Rv Rs] Hfit Ht. unfold send_puback_like. change (k_ver (ack_pkt g t V50 id None)) with V50. cbn [version_eqb andb].
  assert (Hsz : size_ok c (ack_pkt g t V50 id None) = true) by (unfold size_ok; apply N.leb_le; exact Hfit).
  rewrite Hsz, Rs. cbn [negb].
  change (k_rc_present (ack_pkt g t V50 id None)) with false. change (k_type (ack_pkt g t V50 id None)) with t.
  change (k_pid (ack_pkt g t V50 id None)) with id. rewrite !andb_false_r.
  match goal with |- context [send_and_post ?x _ _ _] => set (cx := x) end.
  assert (Hx : KF cx c /\ c_qos2 cx = c_qos2 c /\
               c_publish_recv cx = (if (t =? T_PUBACK) || (t =? T_PUBCOMP) then del id (c_publish_recv c) else c_publish_recv c)).
  { unfold cx. destruct (_ || _); unfold KF; repeat split. }
  destruct Hx as (Kx & X3 & X4). clearbody cx.
  pose proof (send_and_post_k cx (ack_pkt g t V50 id None) None) as K.
  destruct (send_and_post cx _ None []) as [[c1 e]|]; [|exact K]. destruct K as (K1 & K2 & K3 & _ & _ & KK & _ & Q & P).
  do 3 (split; [assumption|]). split; [exact (kf_trans _ _ _ KK Kx)|]. split; congruence.
Qed.

Lemma recv_not_over c : recv_quota_left c ->
  match c_recv_max c with Some mx => mx <=? N.of_nat (length (c_publish_recv c)) | None => false end = false.
Proof. unfold recv_quota_left. destruct (c_recv_max c); [intro H; apply N.leb_gt; exact H|reflexivity]. Qed.

(* the receiver: a QoS 1 PUBLISH *)
Lemma receiver_q1_5x g c p : ready5 c -> c_auto_pub c = true -> v5_pub p 1 -> recv_quota_left c -> ack_fits g c ->
  match deliver g c p with
  | Ok (c1, e) => notifies e = [p] /\ sends e = [ack_pkt g T_PUBACK V50 (k_pid p) None] /\ errors e = [] /\
                  KF c1 c /\ c_qos2 c1 = c_qos2 c /\ c_publish_recv c1 = del (k_pid p) (ins (k_pid p) (c_publish_recv c))
  | Panic _ => False
  end.
Proof.
  intros [Rv Rs] Ha (Ht & Hv & Hq & Hte & Hal) Hrq Hfit. unfold deliver, dispatch_recv. rewrite Ht, Rv.
  change (T_PUBLISH =? 1) with false. change (T_PUBLISH =? 2) with false. change (T_PUBLISH =? 3) with true. cbn [version_eqb]. cbv iota.
  unfold recv_publish_v5. cbv zeta. rewrite Hq. change (1 =? 0) with false. change (1 =? 1) with true. change (1 =? 2) with false. cbn [negb andb].
  rewrite (recv_not_over c Hrq), Rs, Ha. cbn [andb].
  unfold resolve_recv_alias. rewrite Hte, Hal. cbn [bindr]. unfold note_handled. rewrite Hq. change (1 =? 2) with false. cbv iota.
  unfold note_inbound. rewrite Hq. change (negb (1 =? 0)) with true. cbv iota.
  set (c0 := set_publish_recv c (ins (k_pid p) (c_publish_recv c))).
  assert (R0 : ready5 c0) by (split; assumption). assert (F0 : ack_fits g c0) by exact Hfit.
  pose proof (auto_ack5_x g c0 T_PUBACK (k_pid p) R0 F0 (or_introl eq_refl)) as H.
  destruct (send_puback_like c0 _) as [[c1 e1]|]; cbn [bindr]; [|destruct H]. destruct H as (H1 & H2 & H3 & KK & Q & P).
  change ((T_PUBACK =? T_PUBACK) || (T_PUBACK =? T_PUBCOMP)) with true in P. cbv iota in P.
  pose proof (refresh_quiet c1) as QQ. pose proof (kf_refresh c1) as R. pose proof (refresh_silent c1) as (_ & RQ). cbv zeta in QQ.
  destruct (refresh_pingreq_recv c1) as [c2 e2]. cbn [fst snd] in *. destruct QQ as (Q1 & Q2 & Q3 & _), R as (R1 & _ & R3).
  ev_simpl. rewrite H1, H2, H3, Q1, Q2, Q3. cbn. do 3 (split; [reflexivity|]).
  split; [exact (kf_trans _ _ _ R1 (kf_trans _ _ _ KK (kf_refl _)))|]. split; [rewrite RQ, Q; reflexivity|]. rewrite R3, P. reflexivity.
Qed.

(* the receiver: a first QoS 2 PUBLISH *)
Lemma receiver_q2_5x g c p : ready5 c -> c_auto_pub c = true -> v5_pub p 2 -> mem (k_pid p) (c_qos2 c) = false ->
  recv_quota_left c -> ack_fits g c ->
  match deliver g c p with
  | Ok (c1, e) => notifies e = [p] /\ sends e = [ack_pkt g T_PUBREC V50 (k_pid p) None] /\ errors e = [] /\
                  KF c1 c /\ c_qos2 c1 = ins (k_pid p) (c_qos2 c) /\ c_publish_recv c1 = ins (k_pid p) (c_publish_recv c)
  | Panic _ => False
  end.
Proof.
  intros [Rv Rs] Ha (Ht & Hv & Hq & Hte & Hal) Hn Hrq Hfit. unfold deliver, dispatch_recv. rewrite Ht, Rv.
  change (T_PUBLISH =? 1) with false. change (T_PUBLISH =? 2) with false. change (T_PUBLISH =? 3) with true. cbn [version_eqb]. cbv iota.
  unfold recv_publish_v5. cbv zeta. rewrite Hq. change (2 =? 0) with false. change (2 =? 1) with false. change (2 =? 2) with true. cbn [negb andb].
  rewrite (recv_not_over c Hrq), Rs, Ha, Hn. cbn [andb orb].
  unfold resolve_recv_alias. rewrite Hte, Hal. cbn [bindr]. unfold note_handled. rewrite Hq. change (2 =? 2) with true. cbv iota.
  unfold note_inbound. rewrite Hq. change (negb (2 =? 0)) with true. cbv iota. conn_simpl_goal.
  set (c0 := set_qos2 (set_publish_recv c (ins (k_pid p) (c_publish_recv c))) (ins (k_pid p) (c_qos2 c))).
  assert (R0 : ready5 c0) by (split; assumption). assert (F0 : ack_fits g c0) by exact Hfit.
  pose proof (auto_ack5_x g c0 T_PUBREC (k_pid p) R0 F0 (or_intror (or_introl eq_refl))) as H.
  destruct (send_puback_like c0 _) as [[c1 e1]|]; cbn [bindr]; [|destruct H]. destruct H as (H1 & H2 & H3 & KK & Q & P).
  change ((T_PUBREC =? T_PUBACK) || (T_PUBREC =? T_PUBCOMP)) with false in P. cbv iota in P.
  pose proof (refresh_quiet c1) as QQ. pose proof (kf_refresh c1) as R. pose proof (refresh_silent c1) as (_ & RQ). cbv zeta in QQ.
  destruct (refresh_pingreq_recv c1) as [c2 e2]. cbn [fst snd] in *. destruct QQ as (Q1 & Q2 & Q3 & _), R as (R1 & _ & R3).
  ev_simpl. rewrite H1, H2, H3, Q1, Q2, Q3. cbn. do 3 (split; [reflexivity|]).
  split; [exact (kf_trans _ _ _ R1 (kf_trans _ _ _ KK (kf_refl _)))|]. split; [rewrite RQ, Q; reflexivity|]. rewrite R3, P. reflexivity.
Qed.

(* the receiver: the PUBREL of a message it holds as handled *)
Lemma receiver_pubrel5_x g c a : ready5 c -> c_auto_pub c = true -> ack_fits g c -> k_type a = T_PUBREL -> mem (k_pid a) (c_qos2 c) = true ->
  match deliver g c a with
  | Ok (c1, e) => notifies e = [a] /\ sends e = [ack_pkt g T_PUBCOMP V50 (k_pid a) None] /\ errors e = [] /\
                  KF c1 c /\ c_qos2 c1 = del (k_pid a) (c_qos2 c) /\ c_publish_recv c1 = del (k_pid a) (c_publish_recv c)
  | Panic _ => False
  end.
Proof.
  intros [Rv Rs] Ha Hfit Ht Hm. unfold deliver, dispatch_recv. rewrite Ht, Rv.
  change (T_PUBREL =? 1) with false. change (T_PUBREL =? 2) with false. change (T_PUBREL =? 3) with false.
  change ((T_PUBREL =? 4) || (T_PUBREL =? 5) || (T_PUBREL =? 7) || (T_PUBREL =? 9) || (T_PUBREL =? 11)) with false.
  change (T_PUBREL =? 6) with true. cbv iota. unfold recv_pubrel. cbv zeta. rewrite Hm.
  set (c0 := set_qos2 c (del (k_pid a) (c_qos2 c))).
  assert (R0 : ready5 c0) by (split; assumption). assert (F0 : ack_fits g c0) by exact Hfit.
  change (c_auto_pub c0) with (c_auto_pub c). change (c_status c0) with (c_status c). rewrite Rs, Ha. cbn [andb version_eqb negb].
  pose proof (auto_ack5_x g c0 T_PUBCOMP (k_pid a) R0 F0 (or_intror (or_intror eq_refl))) as H.
  destruct (send_puback_like c0 _) as [[c1 e1]|]; cbn [bindr]; [|destruct H]. destruct H as (H1 & H2 & H3 & KK & Q & P).
  change ((T_PUBCOMP =? T_PUBACK) || (T_PUBCOMP =? T_PUBCOMP)) with true in P. cbv iota in P.
  pose proof (refresh_quiet c1) as QQ. pose proof (kf_refresh c1) as R. pose proof (refresh_silent c1) as (_ & RQ). cbv zeta in QQ.
  destruct (refresh_pingreq_recv c1) as [c2 e2]. cbn [fst snd] in *. destruct QQ as (Q1 & Q2 & Q3 & _), R as (R1 & _ & R3).
  ev_simpl. rewrite H1, H2, H3, Q1, Q2, Q3. cbn. do 3 (split; [reflexivity|]).
  split; [exact (kf_trans _ _ _ R1 (kf_trans _ _ _ KK (kf_refl _)))|]. split; [rewrite RQ, Q; reflexivity|]. rewrite R3, P. reflexivity.
Qed.

(* the sender: the PUBREC *)
Lemma sender_pubrec5_x g c a : OWN g c -> ready5 c -> c_auto_pub c = true -> ack_fits g c -> k_ver a = V50 -> k_type a = T_PUBREC ->
  k_rc_present a = false -> mem (k_pid a) (c_pubrec c) = true -> is_used c (k_pid a) = true ->
  match deliver g c a with
  | Ok (c2, e) => sends e = [ack_pkt g T_PUBREL V50 (k_pid a) None] /\ errors e = [] /\ released e = [] /\
                  OWN g c2 /\ KF c2 c /\ c_send_count c2 = c_send_count c /\
                  is_used c2 (k_pid a) = true /\ mem (k_pid a) (c_pubcomp c2) = true
  | Panic _ => False
  end.
Proof.
  intros HO [Rv Rs] Ha Hfit Hva Hta Hrc Hm Hu.
  pose proof (recv_ack_OR g c T_PUBREC (PROk a) HO) as HOR.
  unfold deliver, dispatch_recv. rewrite Hta, Rv in *.
  change (T_PUBREC =? 1) with false. change (T_PUBREC =? 2) with false. change (T_PUBREC =? 3) with false.
  change ((T_PUBREC =? 4) || (T_PUBREC =? 5) || (T_PUBREC =? 7) || (T_PUBREC =? 9) || (T_PUBREC =? 11)) with true. cbv iota.
  unfold recv_ack in *. cbv zeta in *. change (T_PUBREC =? T_PUBACK) with false in *. change (T_PUBREC =? T_PUBREC) with true in *.
  cbv iota in *. rewrite Hm, Hrc in *. cbn [version_eqb negb orb] in *.
  destruct (ack_PB_own g c (k_pid a) HO Hm) as (O1 & [Hc Hs] & _). cbv zeta in *. rewrite Rv in *.
  set (c1 := store_erase _ V50 T_PUBREC (k_pid a)) in *.
  assert (A1 : c_auto_pub c1 = true) by exact Ha.
  assert (A2 : c_status c1 = c_status c) by reflexivity.
  assert (A3 : is_used c1 (k_pid a) = true) by exact Hu.
  assert (A5 : size_ok c1 (ack_pkt g T_PUBREL V50 (k_pid a) None) = true) by (unfold size_ok; apply N.leb_le; exact Hfit).
  assert (A6 : KF c1 c) by (unfold KF; repeat split).
  rewrite A1, A2, Rs in *. cbn [andb] in *.
  unfold send_pubrel in *. cbv zeta in *.
  change (k_ver (ack_pkt g T_PUBREL V50 (k_pid a) None)) with V50 in *. change (k_pid (ack_pkt g T_PUBREL V50 (k_pid a) None)) with (k_pid a) in *.
  rewrite A5 in *. cbn [version_eqb andb negb] in *. rewrite A2, Rs, A3 in *. cbn [negb andb] in *.
  assert (Hfin : forall cx, c_pid cx = c_pid c1 -> KF cx c -> mem (k_pid a) (c_pubcomp cx) = true -> c_send_count cx = c_send_count c ->
     forall r, r = bindr (send_and_post cx (ack_pkt g T_PUBREL V50 (k_pid a) None) None [])
                     (fun '(c0, e1) => let '(c2, e2) := refresh_pingreq_recv c0 in Ok (c2, e1 ++ e2 ++ [ENotify a])) ->
     OR g c r ->
     match r with
     | Ok (c2, e) => sends e = [ack_pkt g T_PUBREL V50 (k_pid a) None] /\ errors e = [] /\ released e = [] /\
                     OWN g c2 /\ KF c2 c /\ c_send_count c2 = c_send_count c /\
                     is_used c2 (k_pid a) = true /\ mem (k_pid a) (c_pubcomp c2) = true
     | Panic _ => False end).
  { intros cx Hp Hk Hmx Hsc r Er Hor. pose proof (post_then_refresh_k cx (ack_pkt g T_PUBREL V50 (k_pid a) None) None a) as K.
    rewrite <- Er in K. clear Er. destruct r as [[c2 e]|]; [|exact K]. destruct K as (K1 & K2 & K3 & F & KK & KC). destruct Hor as [O2 _].
    do 3 (split; [assumption|]). split; [exact O2|]. split; [exact (kf_trans _ _ _ KK Hk)|]. split; [congruence|].
    destruct F as (F1 & _ & _ & _ & F5 & _). split; [unfold is_used in *; rewrite F1, Hp; exact A3|now rewrite F5]. }
  destruct (c_need_store c1) eqn:En.
  - unfold store_add in *. change (k_pid (ack_pkt g T_PUBREL V50 (k_pid a) None)) with (k_pid a) in *. rewrite Hs in *. cbn [bindr] in HOR |- *.
    conn_simpl. rewrite A2, Rs in *.
    eapply Hfin; cycle 4; [reflexivity|exact HOR|reflexivity|exact A6| |reflexivity]; conn_simpl_goal; unfold mem, ins; rewrite s_mem_insert, N.eqb_refl; reflexivity.
  - cbn [bindr] in HOR |- *. conn_simpl. rewrite A2, Rs in *.
    eapply Hfin; cycle 4; [reflexivity|exact HOR|reflexivity|exact A6| |reflexivity]; conn_simpl_goal; unfold mem, ins; rewrite s_mem_insert, N.eqb_refl; reflexivity.
Qed.

(* the sender: the final acknowledgement; the Receive Maximum slot is given back *)
Lemma sender_final_ack5_x g c a (r : N) : OWN g c -> ready5 c -> k_ver a = V50 -> k_type a = r -> (r = T_PUBACK \/ r = T_PUBCOMP) ->
  mem (k_pid a) (if r =? T_PUBACK then c_puback c else c_pubcomp c) = true -> is_used c (k_pid a) = true ->
  match deliver g c a with
  | Ok (c2, e) => released e = [k_pid a] /\ sends e = [] /\ errors e = [] /\
                  OWN g c2 /\ KF c2 c /\ is_used c2 (k_pid a) = false /\ fresh c2 (k_pid a) /\
                  c_send_count c2 = (match c_send_max c with Some _ => c_send_count c - 1 | None => c_send_count c end)
  | Panic _ => False
  end.
Proof.
  intros HO [Rv Rs] Hva Hta Hr Hm Hu.
  pose proof (dispatch_recv_OR g c (k_type a) (PROk a) HO) as HOR.
  unfold deliver in *. unfold dispatch_recv in *. rewrite Hta, Rv in *.
  set (dec := fun c : conn => match c_send_max c with Some _ => set_send_count c (c_send_count c - 1) | None => c end).
  assert (Hfin : forall c1, OWN g c1 -> fresh c1 (k_pid a) -> is_used c1 (k_pid a) = true -> KF c1 c -> c_send_count c1 = c_send_count c ->
            forall res, res = bindr (release_if_used c1 (k_pid a)) (fun '(c0, e1) => let '(c3, e2) := refresh_pingreq_recv (dec c0) in Ok (c3, e1 ++ e2 ++ [ENotify a])) ->
            OR g c res ->
            match res with
            | Ok (c2, e) => released e = [k_pid a] /\ sends e = [] /\ errors e = [] /\
                            OWN g c2 /\ KF c2 c /\ is_used c2 (k_pid a) = false /\ fresh c2 (k_pid a) /\
                            c_send_count c2 = (match c_send_max c with Some _ => c_send_count c - 1 | None => c_send_count c end)
            | Panic _ => False end).
  { intros c1 O1 Hfr U1 Hk Hsc res Eres Hor. subst res. revert Hor. unfold release_if_used. rewrite U1. unfold is_used, pm_is_used in U1.
    destruct (release_ok g _ _ (o_wf _ _ _ _ _ _ _ _ _ O1) U1) as (a' & Er & _). rewrite Er. cbn [bindr].
    destruct (release_used_spec g _ _ a' (o_wf _ _ _ _ _ _ _ _ _ O1) U1 Er) as [_ Hrel].
    set (cd := dec (set_pid c1 a')).
    assert (Hd : F8 cd (set_pid c1 a') /\ KF cd c1 /\
                 c_send_count cd = (match c_send_max c with Some _ => c_send_count c - 1 | None => c_send_count c end)).
    { unfold cd, dec. conn_simpl_goal. destruct Hk as (_ & _ & _ & _ & _ & Hsm & _). rewrite Hsm.
      destruct (c_send_max c) eqn:Esm; conn_simpl_goal; rewrite ?Hsc; unfold F8, KF; conn_simpl_goal; repeat split; try reflexivity; try (symmetry; assumption); assumption. }
    destruct Hd as (Fd & Kd & Cd). clearbody cd.
    pose proof (refresh_keeps cd) as K. pose proof (refresh_quiet cd) as Q. pose proof (kf_refresh cd) as R. cbv zeta in K, Q.
    destruct (refresh_pingreq_recv cd) as [c3 e2]. cbn [fst snd] in K, Q, R.
    destruct K as (F & _), Q as (_ & Q2 & Q3 & Q4), R as (R1 & R2 & _).
    pose proof (f8_trans _ _ _ F Fd) as FF. destruct FF as (F1 & F2 & F3 & F4 & F5 & F6 & F7 & F8v). conn_simpl.
    intros [O3 _]. ev_simpl. rewrite Q2, Q3, Q4. cbn. do 3 (split; [reflexivity|]). split; [exact O3|].
    split; [exact (kf_trans _ _ _ R1 (kf_trans _ _ _ Kd Hk))|].
    split; [unfold is_used, pm_is_used; rewrite F1, Hrel, N.eqb_refl; apply andb_false_r|].
    split; [destruct Hfr as [Hc Hs]; unfold fresh; rewrite F2, F3, F4, F5, F6, F7; split; assumption|congruence]. }
  destruct Hr as [-> | ->].
  - change (T_PUBACK =? 1) with false in *. change (T_PUBACK =? 2) with false in *. change (T_PUBACK =? 3) with false in *.
    change ((T_PUBACK =? 4) || (T_PUBACK =? 5) || (T_PUBACK =? 7) || (T_PUBACK =? 9) || (T_PUBACK =? 11)) with true in *. cbv iota in *.
    unfold recv_ack in *. cbv zeta in *. change (T_PUBACK =? T_PUBACK) with true in *. cbv iota in *. rewrite Hm in *. cbn [version_eqb] in *.
    destruct (ack_PA_own g c (k_pid a) HO Hm) as (O1 & Fr & _). cbv zeta in O1, Fr. rewrite Rv in O1, Fr.
    eapply (Hfin _ O1 Fr); [unfold is_used, store_erase in *; conn_simpl_goal; exact Hu|unfold KF; repeat split|reflexivity|reflexivity|exact HOR].
  - change (T_PUBCOMP =? 1) with false in *. change (T_PUBCOMP =? 2) with false in *. change (T_PUBCOMP =? 3) with false in *.
    change ((T_PUBCOMP =? 4) || (T_PUBCOMP =? 5) || (T_PUBCOMP =? 7) || (T_PUBCOMP =? 9) || (T_PUBCOMP =? 11)) with true in *. cbv iota in *.
    unfold recv_ack in *. cbv zeta in *. change (T_PUBCOMP =? T_PUBACK) with false in *. change (T_PUBCOMP =? T_PUBREC) with false in *.
    change (T_PUBCOMP =? T_PUBCOMP) with true in *.
    cbv iota in *. rewrite Hm in *. cbn [version_eqb] in *.
    destruct (ack_PC_own g c (k_pid a) HO Hm) as (O1 & Fr & _). cbv zeta in O1, Fr. rewrite Rv in O1, Fr.
    eapply (Hfin _ O1 Fr); [unfold is_used, store_erase in *; conn_simpl_goal; exact Hu|unfold KF; repeat split|reflexivity|reflexivity|exact HOR].
Qed.

(* the application registers a free identifier that nothing awaits: only the allocator changes *)
Lemma register_k g c id : OWN g c -> 1 <= id <= g_idmax g -> is_used c id = false -> fresh c id ->
  exists c0, step g c (ORegister id) = Ok (c0, [], [1]) /\ OWN g c0 /\ is_used c0 id = true /\ fresh c0 id /\ KF c0 c /\
             c_send_count c0 = c_send_count c.
Proof.
  intros HO Hr Hu Hf. pose proof (o_wf _ _ _ _ _ _ _ _ _ HO) as W. change (WFa g (c_pid c)) with (WFpid g c) in W.
  pose proof (register_spec g c id W) as H. pose proof (register_own g c id HO) as HO'.
  assert (Hfree : free_in c id = true).
  { rewrite (is_used_spec g c id W) in Hu. destruct (free_in c id); [reflexivity|].
    assert ((1 <=? id) = true) by (apply N.leb_le; lia). assert ((id <=? g_idmax g) = true) by (apply N.leb_le; lia).
    rewrite H0, H1 in Hu. discriminate. }
  cbn [step] in H |- *. destruct (pm_register (c_pid c) id) as [b a]. cbn [snd] in HO'. destruct H as (_ & Hb & Hfr & W').
  rewrite Hfree in Hb. destruct b; cbn [b2n n2b] in Hb |- *; [|discriminate Hb].
  eexists. split; [reflexivity|]. split; [exact HO'|]. split.
  - rewrite (is_used_spec g _ id W'), Hfr, N.eqb_refl, andb_false_r. cbn [negb].
    assert (E1 : (1 <=? id) = true) by (apply N.leb_le; lia). assert (E2 : (id <=? g_idmax g) = true) by (apply N.leb_le; lia).
    rewrite E1, E2. reflexivity.
  - split; [exact Hf|]. split; [unfold KF; repeat split|reflexivity].
Qed.

(* ---- the executable run ---- *)
Section Seq5.
Variables gs gr : cfg.

Definition final5 (cs cr : conn) (a : pkt) (id : N) (n : pkt) : outcome :=
  match deliver gs cs a with
  | Ok (cs', e) => if none (sends e) && none (errors e) && (match released e with [i] => i =? id | _ => false end)
                   then Done cs' cr [n] else Fail
  | Panic _ => Fail
  end.

(* as in PairSeq.exchange; the application's precondition now includes that the packet fits the peer's Maximum Packet Size *)
Definition exchange5 (cs cr : conn) (p : pkt) : outcome :=
  let id := k_pid p in
  if negb ((1 <=? id) && (id <=? g_idmax gs) && negb (is_used cs id) && freshb cs id && negb (mem id (c_qos2 cr)) && size_ok cs p) then AppPre else
  match step gs cs (ORegister id) with
  | Ok (cs0, [], [1]) =>
    match step gs cs0 (OSend p) with
    | Ok (cs1, e1, _) =>
      match one (sends e1) with
      | Some p1 =>
        if negb (none (notifies e1) && none (errors e1)) then Fail else
        match deliver gr cr p1 with
        | Ok (cr1, e2) =>
          match one (sends e2), one (notifies e2) with
          | Some a1, Some n1 =>
            if negb (none (errors e2)) then Fail else
            if k_qos p =? 1 then final5 cs1 cr1 a1 id n1
            else
              match deliver gs cs1 a1 with
              | Ok (cs2, e3) =>
                match one (sends e3) with
                | Some r1 =>
                  if negb (none (errors e3) && none (released e3)) then Fail else
                  match deliver gr cr1 r1 with
                  | Ok (cr2, e4) =>
                    match one (sends e4) with
                    | Some c1 =>
                      if negb (none (errors e4) && none (filter (fun x => k_type x =? T_PUBLISH) (notifies e4))) then Fail
                      else final5 cs2 cr2 c1 id n1
                    | None => Fail
                    end
                  | Panic _ => Fail
                  end
                | None => Fail
                end
              | Panic _ => Fail
              end
          | _, _ => Fail
          end
        | Panic _ => Fail
        end
      | None => Fail
      end
    | Panic _ => Fail
    end
  | _ => Fail
  end.

Fixpoint run_seq5 (cs cr : conn) (ps : list pkt) : outcome :=
  match ps with
  | [] => Done cs cr []
  | p :: t =>
    match exchange5 cs cr p with
    | Done cs' cr' d => match run_seq5 cs' cr' t with Done cs'' cr'' d' => Done cs'' cr'' (d ++ d') | o => o end
    | o => o
    end
  end.

(* the pair invariant between exchanges: both Receive Maximum accounts are at zero *)
Definition pair_inv5 (cs cr : conn) : Prop :=
  OWN gs cs /\ ready5 cs /\ c_auto_pub cs = true /\ c_ta_send cs = None /\ ack_fits gs cs /\
  c_send_count cs = 0 /\ c_send_max cs <> Some 0 /\
  ready5 cr /\ c_auto_pub cr = true /\ ack_fits gr cr /\ c_publish_recv cr = [] /\ c_recv_max cr <> Some 0 /\
  asc 1 (g_idmax gs) (c_qos2 cr).

Lemma final5_ok cs cr a (r : N) n : OWN gs cs -> ready5 cs -> k_ver a = V50 -> k_type a = r -> (r = T_PUBACK \/ r = T_PUBCOMP) ->
  mem (k_pid a) (if r =? T_PUBACK then c_puback cs else c_pubcomp cs) = true -> is_used cs (k_pid a) = true ->
  exists cs', final5 cs cr a (k_pid a) n = Done cs' cr [n] /\ OWN gs cs' /\ KF cs' cs /\
              c_send_count cs' = (match c_send_max cs with Some _ => c_send_count cs - 1 | None => c_send_count cs end).
Proof.
  intros HO Rs Hv Ht Hr Hm Hu. pose proof (sender_final_ack5_x gs cs a r HO Rs Hv Ht Hr Hm Hu) as H. unfold final5.
  destruct (deliver gs cs a) as [[cs' e]|]; [|destruct H]. destruct H as (H1 & H2 & H3 & O' & K' & _ & _ & C').
  rewrite H1, H2, H3, N.eqb_refl. cbn. exists cs'. split; [reflexivity|]. split; [exact O'|]. split; assumption.
Qed.

Lemma del_ins_nil id : del id (ins id []) = [].
Proof. unfold del, ins. cbn [s_insert s_remove]. rewrite N.eqb_refl. reflexivity. Qed.

Lemma kf_fields a b : KF a b -> c_status a = c_status b /\ c_version a = c_version b /\ c_auto_pub a = c_auto_pub b /\ c_ta_send a = c_ta_send b /\
  c_mps_send a = c_mps_send b /\ c_send_max a = c_send_max b /\ c_recv_max a = c_recv_max b.
Proof. exact (fun H => H). Qed.

Theorem exchange5_ok cs cr p q : pair_inv5 cs cr -> v5_pub p q -> q = 1 \/ q = 2 ->
  match exchange5 cs cr p with
  | Done cs' cr' d => d = [p] /\ pair_inv5 cs' cr'
  | AppPre => True
  | Fail => False
  end.
Proof.
  intros (HO & Rs & Has & Hta & Hfs & Hc0 & Hm0 & Rr & Har & Hfr & Hpr & Hrm & Hasc) Hp Hq. unfold exchange5. cbv zeta.
  destruct (negb _) eqn:Epre; [exact I|]. apply negb_false_iff in Epre.
  apply andb_true_iff in Epre as [Epre E6]. apply andb_true_iff in Epre as [Epre E5]. apply andb_true_iff in Epre as [Epre E4].
  apply andb_true_iff in Epre as [Epre E3]. apply andb_true_iff in Epre as [E1 E2].
  apply N.leb_le in E1, E2. apply negb_true_iff in E3, E5. apply freshb_spec in E4.
  destruct (register_k gs cs (k_pid p) HO (conj E1 E2) E3 E4) as (cs0 & Ereg & O0 & U0 & F0 & K0 & C0). rewrite Ereg.
  pose proof (kf_fields _ _ K0) as (K01 & K02 & K03 & K04 & K05 & K06 & K07).
  assert (R0 : ready5 cs0) by exact (ready5_kf _ _ K0 Rs).
  rewrite (step_send_publish_v5 gs cs0 p q (proj1 R0) Hp).
  assert (Hsz0 : size_ok cs0 p = true) by (unfold size_ok in *; now rewrite K05).
  assert (Hq0 : quota_left cs0).
  { unfold quota_left. rewrite K06, C0, Hc0. destruct (c_send_max cs) as [mx|]; [|exact I]. assert (mx <> 0) by congruence. lia. }
  pose proof (sender_sends5_x gs cs0 p q O0 R0 Hp ltac:(lia) F0 U0 Hsz0 ltac:(congruence) Hq0) as H1.
  destruct (send_publish_v5 gs cs0 p) as [[cs1 e1]|]; cbn [bindr]; [|destruct H1].
  destruct H1 as (S1 & N1 & X1 & O1 & K1 & U1 & M1 & C1). rewrite S1, N1, X1. cbn [one none andb negb].
  pose proof (kf_fields _ _ K1) as (K11 & K12 & K13 & K14 & K15 & K16 & K17).
  assert (R1 : ready5 cs1) by exact (ready5_kf _ _ K1 R0).
  assert (Hrq : recv_quota_left cr).
  { unfold recv_quota_left. rewrite Hpr. cbn. destruct (c_recv_max cr) as [mx|]; [|exact I]. assert (mx <> 0) by congruence. lia. }
  destruct Hp as (Ht & Hv & Hqq & Hte & Hal).
  destruct Hq as [-> | ->].
  - (* QoS 1 *)
    pose proof (receiver_q1_5x gr cr p Rr Har (conj Ht (conj Hv (conj Hqq (conj Hte Hal)))) Hrq Hfr) as H2.
    destruct (deliver gr cr p) as [[cr1 e2]|]; [|destruct H2]. destruct H2 as (N2 & S2 & X2 & Kr1 & Q1 & P1).
    rewrite S2, N2, X2. cbn [one none negb]. rewrite Hqq. change (1 =? 1) with true. cbv iota.
    change (1 =? 2) with false in M1. cbv iota in M1.
    destruct (final5_ok cs1 cr1 (ack_pkt gr T_PUBACK V50 (k_pid p) None) T_PUBACK p O1 R1 eq_refl eq_refl (or_introl eq_refl) M1 U1)
      as (cs2 & Ef & O2 & K2 & C2).
    change (k_pid (ack_pkt gr T_PUBACK V50 (k_pid p) None)) with (k_pid p) in Ef. rewrite Ef.
    pose proof (kf_fields _ _ K2) as (K21 & K22 & K23 & K24 & K25 & K26 & K27).
    pose proof (kf_fields _ _ Kr1) as (L1 & L2 & L3 & L4 & L5 & L6 & L7).
    split; [reflexivity|]. split; [exact O2|]. split; [exact (ready5_kf _ _ K2 R1)|]. split; [congruence|]. split; [congruence|].
    split; [unfold ack_fits in *; congruence|].
    split; [rewrite C2, C1; rewrite ?K16, ?K06, ?C0, ?Hc0; destruct (c_send_max cs); reflexivity|].
    split; [congruence|]. split; [exact (ready5_kf _ _ Kr1 Rr)|]. split; [congruence|]. split; [unfold ack_fits in *; congruence|].
    split; [rewrite P1, Hpr; apply del_ins_nil|]. split; [congruence|]. rewrite Q1. exact Hasc.
  - (* QoS 2 *)
    pose proof (receiver_q2_5x gr cr p Rr Har (conj Ht (conj Hv (conj Hqq (conj Hte Hal)))) E5 Hrq Hfr) as H2.
    destruct (deliver gr cr p) as [[cr1 e2]|]; [|destruct H2]. destruct H2 as (N2 & S2 & X2 & Kr1 & Q1 & P1).
    rewrite S2, N2, X2. cbn [one none negb]. rewrite Hqq. change (2 =? 1) with false. cbv iota.
    change (2 =? 2) with true in M1. cbv iota in M1.
    pose proof (kf_fields _ _ Kr1) as (L1 & L2 & L3 & L4 & L5 & L6 & L7).
    assert (A1 : c_auto_pub cs1 = true) by congruence.
    assert (Fs1 : ack_fits gs cs1) by (unfold ack_fits in *; congruence).
    pose proof (sender_pubrec5_x gs cs1 (ack_pkt gr T_PUBREC V50 (k_pid p) None) O1 R1 A1 Fs1 eq_refl eq_refl eq_refl M1 U1) as H3.
    change (k_pid (ack_pkt gr T_PUBREC V50 (k_pid p) None)) with (k_pid p) in H3.
    destruct (deliver gs cs1 _) as [[cs2 e3]|]; [|destruct H3]. destruct H3 as (S3 & X3 & L3' & O2 & K2 & C2 & U2 & M2).
    rewrite S3, X3, L3'. cbn [one none andb negb].
    pose proof (kf_fields _ _ K2) as (K21 & K22 & K23 & K24 & K25 & K26 & K27).
    assert (Rr1 : ready5 cr1) by exact (ready5_kf _ _ Kr1 Rr).
    assert (Ar1 : c_auto_pub cr1 = true) by congruence.
    assert (Fr1 : ack_fits gr cr1) by (unfold ack_fits in *; congruence).
    assert (Mr1 : mem (k_pid p) (c_qos2 cr1) = true) by (rewrite Q1; unfold mem, ins; rewrite s_mem_insert, N.eqb_refl; reflexivity).
    pose proof (receiver_pubrel5_x gr cr1 (ack_pkt gs T_PUBREL V50 (k_pid p) None) Rr1 Ar1 Fr1 eq_refl Mr1) as H4.
    change (k_pid (ack_pkt gs T_PUBREL V50 (k_pid p) None)) with (k_pid p) in H4.
    destruct (deliver gr cr1 _) as [[cr2 e4]|]; [|destruct H4]. destruct H4 as (N4 & S4 & X4 & Kr2 & Q2 & P2).
    rewrite S4, X4, N4. cbn [one none andb negb filter]. change (k_type (ack_pkt gs T_PUBREL V50 (k_pid p) None) =? T_PUBLISH) with false. cbn [none negb].
    pose proof (kf_fields _ _ Kr2) as (J1 & J2 & J3 & J4 & J5 & J6 & J7).
    assert (R2 : ready5 cs2) by exact (ready5_kf _ _ K2 R1).
    destruct (final5_ok cs2 cr2 (ack_pkt gr T_PUBCOMP V50 (k_pid p) None) T_PUBCOMP p O2 R2 eq_refl eq_refl (or_intror eq_refl) M2 U2)
      as (cs3 & Ef & O3 & K3 & C3).
    change (k_pid (ack_pkt gr T_PUBCOMP V50 (k_pid p) None)) with (k_pid p) in Ef. rewrite Ef.
    pose proof (kf_fields _ _ K3) as (K31 & K32 & K33 & K34 & K35 & K36 & K37).
    split; [reflexivity|]. split; [exact O3|]. split; [exact (ready5_kf _ _ K3 R2)|]. split; [congruence|]. split; [congruence|].
    split; [unfold ack_fits in *; congruence|].
    split; [rewrite C3, C2, C1; rewrite ?K26, ?K16, ?K06, ?C0, ?Hc0; destruct (c_send_max cs); reflexivity|].
    split; [congruence|]. split; [exact (ready5_kf _ _ Kr2 Rr1)|]. split; [congruence|]. split; [unfold ack_fits in *; congruence|].
    split; [rewrite P2, P1, Hpr; apply del_ins_nil|]. split; [congruence|]. rewrite Q2, Q1.
    unfold del, ins. apply asc_remove. apply asc_insert; assumption.
Qed.

(* any number of v5.0 messages in sequence: delivered exactly once each, in order; both Receive Maximum accounts back at zero *)
Theorem run_seq5_ok : forall ps cs cr, pair_inv5 cs cr -> Forall (fun p => v5_pub p 1 \/ v5_pub p 2) ps ->
  match run_seq5 cs cr ps with
  | Done cs' cr' d => d = ps /\ pair_inv5 cs' cr'
  | AppPre => True
  | Fail => False
  end.
Proof.
  induction ps as [|p t IH]; intros cs cr Hi Hf; cbn [run_seq5]; [split; [reflexivity|exact Hi]|].
  inversion Hf as [|? ? Hp Ht]; subst.
  assert (He : match exchange5 cs cr p with Done cs' cr' d => d = [p] /\ pair_inv5 cs' cr' | AppPre => True | Fail => False end).
  { destruct Hp as [Hp|Hp]; [apply (exchange5_ok cs cr p 1 Hi Hp); now left|apply (exchange5_ok cs cr p 2 Hi Hp); now right]. }
  destruct (exchange5 cs cr p) as [cs' cr' d| |]; [|exact I|exact He]. destruct He as [-> Hi'].
  specialize (IH cs' cr' Hi' Ht). destruct (run_seq5 cs' cr' t) as [cs'' cr'' d'| |]; [|exact I|exact IH].
  destruct IH as [-> Hi'']. split; [reflexivity|exact Hi''].
Qed.

(* C12 read off the invariant: between exchanges the vacancy is the full Receive Maximum *)
Corollary pair_inv5_full_vacancy cs cr : pair_inv5 cs cr -> vacancy cs = c_send_max cs.
Proof.
  intros (_ & _ & _ & _ & _ & Hc & _). unfold vacancy. rewrite Hc. destruct (c_send_max cs); [now rewrite N.sub_0_r|reflexivity].
Qed.
Corollary vacancy_returns_after_sequence ps cs cr :
  pair_inv5 cs cr -> Forall (fun p => v5_pub p 1 \/ v5_pub p 2) ps ->
  match run_seq5 cs cr ps with
  | Done cs' cr' d => vacancy cs' = c_send_max cs' /\ c_publish_recv cr' = []
  | AppPre => True
  | Fail => False
  end.
Proof.
  intros Hi Hf. pose proof (run_seq5_ok ps cs cr Hi Hf) as H.
  destruct (run_seq5 cs cr ps) as [cs' cr' d| |]; [|exact I|exact H]. destruct H as [_ H'].
  split; [exact (pair_inv5_full_vacancy cs' cr' H')|]. apply H'.
Qed.
End Seq5.
