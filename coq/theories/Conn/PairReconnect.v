(* C10 / C01, pair level: WHATEVER HAPPENED ON THE PREVIOUS CONNECTION, once both sides have been told the transport is closed
   a v5.0 Clean Start handshake establishes the two-way pair invariant again — so any schedule on the new connection
   behaves as on a first connection: nothing of the old connection or session is in the way. *)
From MQ Require Import Base.Prelude Alloc.Alloc Alloc.SetSpec Alloc.AllocProofs Framing.Framing
                       Conn.Types Conn.TopicAlias Conn.ConnRecord Conn.Step Conn.Run Corr.ConnTrace Conn.Scope Conn.IdsQuota Conn.WfInv
                       Conn.Own Conn.OwnFrame Conn.OwnStep Conn.Qos2Dup Conn.TasBounds Conn.NoPanic
                       Conn.PairQos Conn.PairQos5 Conn.PairSeq Conn.PairSeq5 Conn.PairConc Conn.PairConc5 Conn.PairBi Conn.PairBi5 Conn.PairHandshake5.

Theorem reconnect_reestablishes_pair_invariant gA gB A B A0 evA B0 evB cn ca l :
  OWN gA A -> OWN gB B -> c_version A = V50 -> c_version B = V50 -> c_auto_pub A = true -> c_auto_pub B = true ->
  role_client_ok gA = true -> role_server_ok gB = true ->
  (* both sides are told the transport is closed, in whatever state they are *)
  do_closed A = Ok (A0, evA) -> do_closed B = Ok (B0, evB) ->
  k_type cn = T_CONNECT -> k_ver cn = V50 -> k_flag cn = true -> k_tam cn = None -> k_size cn <= MQTT_PACKET_SIZE_NO_LIMIT ->
  k_type ca = T_CONNACK -> k_ver ca = V50 -> k_rc ca = 0 -> k_flag ca = false -> k_tam ca = None -> k_rm ca <> Some 0 -> k_mps ca <> Some 0 ->
  k_size ca <= limit_after (k_mps cn) MQTT_PACKET_SIZE_NO_LIMIT ->
  2 + g_idw gA <= limit_after (k_mps ca) MQTT_PACKET_SIZE_NO_LIMIT -> 2 + g_idw gB <= limit_after (k_mps cn) MQTT_PACKET_SIZE_NO_LIMIT ->
  Forall good_act25 l ->
  exists A1 e1 B1 e2 B2 e3 A2 e4 s1 s2,
    step gA A0 (OSend cn) = Ok (A1, e1, []) /\ deliver gB B0 cn = Ok (B1, e2) /\
    step gB B1 (OSend ca) = Ok (B2, e3, []) /\ deliver gA A1 ca = Ok (A2, e4) /\
    errors e1 = [] /\ errors e2 = [] /\ errors e3 = [] /\ errors e4 = [] /\
    inv25 gA gB (mkBi A2 B2 [] [] [] [] [] []) /\
    run_sched25 gA gB (mkBi A2 B2 [] [] [] [] [] []) l = Some s1 /\
    run_sched25 gA gB s1 (drain2 (measure2 s1)) = Some s2 /\
    qab s2 = [] /\ qba s2 = [] /\ delB s2 = pubA s1 /\ delA s2 = pubB s1 /\
    vacancy (ea s2) = c_send_max (ea s2) /\ vacancy (eb s2) = c_send_max (eb s2).
Proof.
  intros OA OB VA VB PA PB RA RB CA CB T1 V1 F1 M1 Z1 T2 V2 C2 F2 M2 R2 Q2 Z2 FA FB Hl.
  pose proof (do_closed_OR gA A OA) as O1. rewrite CA in O1. destruct O1 as [OA0 VA0].
  pose proof (do_closed_OR gB B OB) as O2. rewrite CB in O2. destruct O2 as [OB0 VB0].
  pose proof (closed_has_shape A A0 evA CA) as (SA & _ & _ & _ & MA & _). pose proof (closed_has_shape B B0 evB CB) as (SB & _ & _ & _ & MB & _).
  pose proof (closed_keeps_options A A0 evA CA) as (_ & _ & _ & _ & _ & PA0 & _). pose proof (closed_keeps_options B B0 evB CB) as (_ & _ & _ & _ & _ & PB0 & _).
  assert (Z1' : size_ok A0 cn = true) by (unfold size_ok; rewrite MA; apply N.leb_le; exact Z1).
  rewrite <- MB in Z2. rewrite <- MA in FA. rewrite <- MB in FB.
  destruct (handshake5_establishes_pair_invariant gA gB A0 B0 cn ca OA0 OB0 ltac:(congruence) ltac:(congruence) SA SB ltac:(congruence) ltac:(congruence) RA RB
              T1 V1 F1 M1 Z1' T2 V2 C2 F2 M2 R2 Q2 Z2 FA FB)
    as (A1 & e1 & B1 & e2 & B2 & e3 & A2 & e4 & E1 & _ & X1 & E2 & _ & X2 & _ & E3 & _ & X3 & E4 & _ & X4 & _ & _ & _ & _ & _ & _ & _ & Hinv).
  destruct (two_way5_exactly_once gA gB l _ Hinv Hl) as (s1 & s2 & R1 & R2' & Q1 & Q2' & D1 & D2 & W1 & W2 & _).
  exists A1, e1, B1, e2, B2, e3, A2, e4, s1, s2.
  repeat (split; [assumption|]). assumption.
Qed.
