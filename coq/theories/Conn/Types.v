(* Layer D — types of the connection model: configuration, packet views, events, operations.
   The state machine works on a *view* of each packet (the fields core.rs reads); the parser is an
   oracle supplied with each received frame (instantiated by the codec layer / by the harness). *)
From MQ Require Import Base.Prelude.

Inductive version := V311 | V50 | VUndet.
Inductive role := RClient | RServer | RAny.
Inductive status := Disconnected | Connecting | Connected.
Inductive timer := TPingreqSend | TPingreqRecv | TPingrespRecv.

Definition version_eqb (a b : version) : bool :=
  match a, b with V311, V311 | V50, V50 | VUndet, VUndet => true | _, _ => false end.
Definition status_eqb (a b : status) : bool :=
  match a, b with Disconnected, Disconnected | Connecting, Connecting | Connected, Connected => true | _, _ => false end.
Definition timer_eqb (a b : timer) : bool :=
  match a, b with TPingreqSend, TPingreqSend | TPingreqRecv, TPingreqRecv | TPingrespRecv, TPingrespRecv => true | _, _ => false end.

(* static configuration: the Role type parameter and the PacketIdType *)
Record cfg := mkCfg { g_role : role; g_idmax : N; g_idw : N }.

(* packet types (the fixed-header nibble) *)
Definition T_CONNECT := 1.  Definition T_CONNACK := 2.  Definition T_PUBLISH := 3.
Definition T_PUBACK := 4.   Definition T_PUBREC := 5.   Definition T_PUBREL := 6.
Definition T_PUBCOMP := 7.  Definition T_SUBSCRIBE := 8. Definition T_SUBACK := 9.
Definition T_UNSUBSCRIBE := 10. Definition T_UNSUBACK := 11. Definition T_PINGREQ := 12.
Definition T_PINGRESP := 13. Definition T_DISCONNECT := 14. Definition T_AUTH := 15.

(* the view of a packet: exactly what the connection logic reads or rewrites *)
Record pkt := mkPkt {
  k_type : N;
  k_ver : version;          (* V311 or V50 *)
  k_pid : N;                (* 0 when the packet carries none *)
  k_qos : N;
  k_dup : bool;
  k_retain : bool;
  k_topic : list N;         (* PUBLISH topic name, bytes *)
  k_alias : option N;       (* Topic Alias property *)
  k_plen : N;               (* v5.0 PUBLISH: byte size of the property list *)
  k_paylen : N;             (* PUBLISH payload length *)
  k_size : N;               (* total encoded size *)
  k_rc_present : bool;      (* a reason code is present (v5.0 acks) *)
  k_rc : N;                 (* reason / return code byte *)
  k_flag : bool;            (* CONNECT: clean start/session; CONNACK: session present *)
  k_keep_alive : N;
  k_tam : option N;         (* Topic Alias Maximum *)
  k_rm : option N;          (* Receive Maximum *)
  k_mps : option N;         (* Maximum Packet Size *)
  k_sei : option N;         (* Session Expiry Interval *)
  k_ska : option N          (* Server Keep Alive *)
}.

Definition pkt0 (t : N) (v : version) : pkt :=
  mkPkt t v 0 0 false false [] None 0 0 0 false 0 false 0 None None None None None.

(* MqttError discriminants *)
Definition E_UNSPECIFIED := 128.            Definition E_MALFORMED := 129.
Definition E_PROTOCOL := 130.               Definition E_UNSUPPORTED_VERSION := 132.
Definition E_CLIENT_ID_NOT_VALID := 133.    Definition E_BAD_USER_PASSWORD := 134.
Definition E_KEEP_ALIVE_TIMEOUT := 141.     Definition E_RECEIVE_MAXIMUM_EXCEEDED := 147.
Definition E_TOPIC_ALIAS_INVALID := 148.    Definition E_PACKET_TOO_LARGE := 149.
Definition E_PID_FULLY_USED := 385.         Definition E_PID_CONFLICT := 386.
Definition E_PID_INVALID := 387.            Definition E_NOT_ALLOWED_TO_SEND := 388.
Definition E_NOT_REGULATED := 390.          Definition E_VERSION_MISMATCH := 393.

(* From<MqttError> for DisconnectReasonCode *)
Definition disc_rc_of_err (e : N) : N :=
  if (128 <=? e) && (e <=? 162) then
    if (e =? 132) || (e =? 133) || (e =? 134) || (e =? 136) || (e =? 138) || (e =? 140)
       || (e =? 145) || (e =? 146) then 128 else e
  else 128.

Inductive event :=
| ESend (p : pkt) (rel : option N)      (* RequestSendPacket + release_packet_id_if_send_error *)
| ENotify (p : pkt)                      (* NotifyPacketReceived *)
| EReleased (id : N)                     (* NotifyPacketIdReleased *)
| ETimerReset (k : timer) (ms : N)
| ETimerCancel (k : timer)
| EError (e : N)
| EClose.

(* what the version's parser says about a complete frame (type nibble, flags, body) *)
Inductive presult := PROk (p : pkt) | PRErr (e : N).

Inductive op :=
| OSend (p : pkt)
| ORecv (bytes : list N) (pr : presult)   (* one recv() call on a buffer holding `bytes` *)
| OTimer (k : timer)
| OClosed
| OSetPingreqInterval (o : option N)
| OSetPingrespTimeout (n : N)
| OSetOffline (b : bool) | OSetAutoPub (b : bool) | OSetAutoPing (b : bool)
| OSetAutoMap (b : bool) | OSetAutoReplace (b : bool)
| OAcquire | ORegister (id : N) | ORelease (id : N) | OErase (id : N)
| ORestorePackets (l : list pkt) | ORestoreQos2 (l : list N)
| ORegulate (p : pkt).
(* get_stored_packets, get_qos2_publish_handled, vacancy and version are pure reads of the state
   and are compared through the state digest after every operation *)

Definition MQTT_PACKET_SIZE_NO_LIMIT : N := 1 + 4 + 128 * 128 * 128 * 128.

Definition vbi_len (n : N) : N :=
  if n <? 128 then 1 else if n <? 16384 then 2 else if n <? 2097152 then 3 else 4.

Definition remaining_length_to_total_size (rl : N) : N := 1 + vbi_len rl + rl.

(* v5.0 PUBLISH: size as recalculate_lengths()/size() compute it from the parts *)
Definition publish_v5_size (idw : N) (p : pkt) : N :=
  let rl := (2 + N.of_nat (length (k_topic p))) + (if k_qos p =? 0 then 0 else idw)
            + vbi_len (k_plen p) + k_plen p + k_paylen p in
  1 + vbi_len rl + rl.

Definition opt_eqb (a b : option N) : bool :=
  match a, b with Some x, Some y => x =? y | None, None => true | _, _ => false end.
