(* C01 / C12, model side, v5.0 with SEVERAL exchanges in flight: two v5.0 endpoints with automatic responses (no topic alias
   in play; Receive Maximum and Maximum Packet Size negotiated), two FIFO links, an arbitrary schedule of publications and
   deliveries.  The pair invariant of PairConc.v plus the Receive Maximum accounts: the sender's count is the number of
   exchanges in flight, the receiver's set of outstanding QoS>0 PUBLISH is its handled set, and the quota announced by the
   receiver is never exceeded — no call reports 'Receive Maximum exceeded', and at rest the vacancy is the full maximum. *)
From Coq Require Import Permutation.
From MQ Require Import Base.Prelude Alloc.Alloc Alloc.SetSpec Alloc.AllocProofs Framing.Framing
                       Conn.Types Conn.TopicAlias Conn.ConnRecord Conn.Step Conn.Run Corr.ConnTrace Conn.Scope Conn.IdsQuota Conn.WfInv
                       Conn.Own Conn.OwnFrame Conn.OwnStep Conn.Qos2Dup Conn.TasBounds Conn.NoPanic Conn.Restore Conn.PairQos Conn.PairQos5 Conn.PairSeq Conn.PairSeq5 Conn.PairConc.

(* ---- what each v5.0 sender step does to the awaited sets and the allocator, exactly ---- *)
Lemma sender_sends5_sets g c p q : OWN g c -> ready5 c -> v5_pub p q -> 1 <= q <= 2 -> fresh c (k_pid p) -> is_used c (k_pid p) = true ->
  size_ok c p = true -> c_ta_send c = None -> quota_left c ->
  match send_publish_v5 g c p with
  | Ok (c1, e1) => c_pid c1 = c_pid c /\ c_pubcomp c1 = c_pubcomp c /\
                   c_puback c1 = (if q =? 2 then c_puback c else ins (k_pid p) (c_puback c)) /\
                   c_pubrec c1 = (if q =? 2 then ins (k_pid p) (c_pubrec c) else c_pubrec c) /\ c_qos2 c1 = c_qos2 c /\
                   c_publish_recv c1 = c_publish_recv c
  | Panic _ => True
  end.
Proof.
  intros HO [Rv Rs] (Ht & Hv & Hq & Hte & Hal) Hr Hf Hu Hsz Hta Hql.
  pose proof (send_publish_v5_OR g c p HO) as HOR.
  assert (E0 : (k_qos p =? 0) = false) by (apply N.eqb_neq; lia). rewrite E0 in HOR.
  specialize (HOR Hf ltac:(congruence) Ht ltac:(lia)).
  unfold send_publish_v5 in *. cbv zeta in *. rewrite Hsz, E0, Rs, Hu, Hte, Hal in *. cbn [negb andb] in *.
  assert (Hq0 : match c_send_max c with Some mx => mx <=? c_send_count c | None => false end = false).
  { unfold quota_left in Hql. destruct (c_send_max c); [apply N.leb_gt; exact Hql|reflexivity]. }
  destruct Hf as [Hc Hs].
  assert (Hfin : forall cx rel, c_pid cx = c_pid c -> c_pubcomp cx = c_pubcomp c ->
            c_puback cx = (if q =? 2 then c_puback c else ins (k_pid p) (c_puback c)) ->
            c_pubrec cx = (if q =? 2 then ins (k_pid p) (c_pubrec c) else c_pubrec c) -> c_qos2 cx = c_qos2 c -> c_publish_recv cx = c_publish_recv c ->
            match send_and_post cx p rel ([] ++ []) with
            | Ok (c1, e1) => c_pid c1 = c_pid c /\ c_pubcomp c1 = c_pubcomp c /\
                   c_puback c1 = (if q =? 2 then c_puback c else ins (k_pid p) (c_puback c)) /\
                   c_pubrec c1 = (if q =? 2 then ins (k_pid p) (c_pubrec c) else c_pubrec c) /\ c_qos2 c1 = c_qos2 c /\
                   c_publish_recv c1 = c_publish_recv c
            | Panic _ => True end).
  { intros cx rel H1 H2 H3 H4 H5 H6. change ([] ++ []) with (@nil event). pose proof (send_and_post_k cx p rel) as K.
    destruct (send_and_post cx p rel []) as [[c1 e]|]; [|exact I]. destruct K as (_ & _ & _ & _ & (F1 & _ & F3 & F4 & F5 & _) & _ & _ & KQ & KP).
    repeat split; congruence. }
  assert (Hkp : k_pid (set_dup (remove_topic_alias g p) true) = k_pid p) by reflexivity.
  rewrite Hq in *.
  destruct (can_store_now c) eqn:Ec.
  - unfold store_add in *. rewrite Hkp, Hs in *. cbn [bindr] in *.
    destruct (N.eqb_spec q 2) as [E2|E2]; conn_simpl; rewrite Hq0 in *; rewrite Rs in *; rewrite Hta in *;
    (destruct (c_auto_map c); [|destruct (c_auto_replace c)]); cbn [bindr] in *; conn_simpl; destruct (c_send_max c) eqn:Esm; conn_simpl;
    rewrite ?Rs in *.
    all: apply Hfin; reflexivity.
  - cbn [bindr] in *.
    destruct (N.eqb_spec q 2) as [E2|E2]; conn_simpl; rewrite Hq0 in *; rewrite Rs in *; rewrite Hta in *;
    (destruct (c_auto_map c); [|destruct (c_auto_replace c)]); cbn [bindr] in *; conn_simpl; destruct (c_send_max c) eqn:Esm; conn_simpl;
    rewrite ?Rs in *.
    all: apply Hfin; reflexivity.
Qed.

Lemma sender_pubrec5_sets g c a : OWN g c -> ready5 c -> c_auto_pub c = true -> ack_fits g c -> k_ver a = V50 -> k_type a = T_PUBREC ->
  k_rc_present a = false -> mem (k_pid a) (c_pubrec c) = true -> is_used c (k_pid a) = true ->
  match deliver g c a with
  | Ok (c2, e) => c_pid c2 = c_pid c /\ c_puback c2 = c_puback c /\ c_pubrec c2 = del (k_pid a) (c_pubrec c) /\
                  c_pubcomp c2 = ins (k_pid a) (c_pubcomp c) /\ c_qos2 c2 = c_qos2 c /\ c_publish_recv c2 = c_publish_recv c
  | Panic _ => True
  end.
Proof.
  intros HO [Rv Rs] Ha Hfit Hva Hta Hrc Hm Hu.
  pose proof (recv_ack_OR g c T_PUBREC (PROk a) HO) as HOR.
  unfold deliver, dispatch_recv. rewrite Hta, Rv in *.
  change (T_PUBREC =? 1) with false. change (T_PUBREC =? 2) with false. change (T_PUBREC =? 3) with false.
  change ((T_PUBREC =? 4) || (T_PUBREC =? 5) || (T_PUBREC =? 7) || (T_PUBREC =? 9) || (T_PUBREC =? 11)) with true. cbv iota.
  unfold recv_ack in *. cbv zeta in *. change (T_PUBREC =? T_PUBACK) with false in *. change (T_PUBREC =? T_PUBREC) with true in *.
  cbv iota in *. rewrite Hm, Hrc in *. cbn [version_eqb negb orb] in *.
  destruct (ack_PB_own g c (k_pid a) HO Hm) as (O1 & [Hc Hs] & _). cbv zeta in *. rewrite Rv in *.
  set (c1 := store_erase _ V50 T_PUBREC (k_pid a)) in *.
  assert (A1 : c_auto_pub c1 = true) by exact Ha.
  assert (A2 : c_status c1 = c_status c) by reflexivity.
  assert (A3 : is_used c1 (k_pid a) = true) by exact Hu.
  assert (A5 : size_ok c1 (ack_pkt g T_PUBREL V50 (k_pid a) None) = true) by (unfold size_ok; apply N.leb_le; exact Hfit).
  assert (A6 : KF c1 c) by (unfold KF; repeat split).
  rewrite A1, A2, Rs in *. cbn [andb] in *.
  unfold send_pubrel in *. cbv zeta in *.
  change (k_ver (ack_pkt g T_PUBREL V50 (k_pid a) None)) with V50 in *. change (k_pid (ack_pkt g T_PUBREL V50 (k_pid a) None)) with (k_pid a) in *.
  rewrite A5 in *. cbn [version_eqb andb negb] in *. rewrite A2, Rs, A3 in *. cbn [negb andb] in *.
  assert (Hfin : forall cx, c_pid cx = c_pid c -> c_puback cx = c_puback c -> c_pubrec cx = del (k_pid a) (c_pubrec c) ->
     c_pubcomp cx = ins (k_pid a) (c_pubcomp c) -> c_qos2 cx = c_qos2 c -> c_publish_recv cx = c_publish_recv c ->
     match bindr (send_and_post cx (ack_pkt g T_PUBREL V50 (k_pid a) None) None [])
                     (fun '(c0, e1) => let '(c2, e2) := refresh_pingreq_recv c0 in Ok (c2, e1 ++ e2 ++ [ENotify a])) with
     | Ok (c2, e) => c_pid c2 = c_pid c /\ c_puback c2 = c_puback c /\ c_pubrec c2 = del (k_pid a) (c_pubrec c) /\
                  c_pubcomp c2 = ins (k_pid a) (c_pubcomp c) /\ c_qos2 c2 = c_qos2 c /\ c_publish_recv c2 = c_publish_recv c
     | Panic _ => True end).
  { intros cx H1 H2 H3 H4 H5 H6. pose proof (send_and_post_k cx (ack_pkt g T_PUBREL V50 (k_pid a) None) None) as K.
    destruct (send_and_post cx _ None []) as [[c2 e]|]; cbn [bindr]; [|exact I].
    destruct K as (_ & _ & _ & _ & (F1 & _ & F3 & F4 & F5 & _) & _ & _ & KQ & KP).
    pose proof (refresh_keeps c2) as K'. pose proof (kf_refresh c2) as R. cbv zeta in K'. destruct (refresh_pingreq_recv c2) as [c3 e3]. cbn [fst] in *.
    destruct K' as ((G1 & _ & G3 & G4 & G5 & _) & _ & _ & G9), R as (_ & _ & RP). repeat split; congruence. }
  destruct (c_need_store c1) eqn:En.
  - unfold store_add in *. change (k_pid (ack_pkt g T_PUBREL V50 (k_pid a) None)) with (k_pid a) in *. rewrite Hs in *. cbn [bindr] in HOR |- *.
    conn_simpl. rewrite A2, Rs in *.
    apply Hfin; reflexivity.
  - cbn [bindr] in HOR |- *. conn_simpl. rewrite A2, Rs in *.
    apply Hfin; reflexivity.
Qed.

Lemma sender_final5_sets g c a (r : N) : OWN g c -> ready5 c -> k_ver a = V50 -> k_type a = r -> (r = T_PUBACK \/ r = T_PUBCOMP) ->
  mem (k_pid a) (if r =? T_PUBACK then c_puback c else c_pubcomp c) = true -> is_used c (k_pid a) = true ->
  match deliver g c a with
  | Ok (c2, e) => (forall y, is_used c2 y = is_used c y && negb (y =? k_pid a)) /\
                  c_puback c2 = (if r =? T_PUBACK then del (k_pid a) (c_puback c) else c_puback c) /\
                  c_pubrec c2 = c_pubrec c /\
                  c_pubcomp c2 = (if r =? T_PUBACK then c_pubcomp c else del (k_pid a) (c_pubcomp c)) /\
                  c_qos2 c2 = c_qos2 c /\ c_publish_recv c2 = c_publish_recv c
  | Panic _ => True
  end.
Proof.
  intros HO [Rv Rs] Hva Hta Hr Hm Hu.
  pose proof (dispatch_recv_OR g c (k_type a) (PROk a) HO) as HOR.
  unfold deliver in *. unfold dispatch_recv in *. rewrite Hta, Rv in *.
  set (dec := fun c : conn => match c_send_max c with Some _ => set_send_count c (c_send_count c - 1) | None => c end).
  assert (Hfin : forall c1, OWN g c1 -> is_used c1 (k_pid a) = true ->
            match bindr (release_if_used c1 (k_pid a)) (fun '(c0, e1) => let '(c3, e2) := refresh_pingreq_recv (dec c0) in Ok (c3, e1 ++ e2 ++ [ENotify a])) with
            | Ok (c2, _) => (forall y, is_used c2 y = is_used c1 y && negb (y =? k_pid a)) /\
                            c_puback c2 = c_puback c1 /\ c_pubrec c2 = c_pubrec c1 /\ c_pubcomp c2 = c_pubcomp c1 /\
                            c_qos2 c2 = c_qos2 c1 /\ c_publish_recv c2 = c_publish_recv c1
            | Panic _ => True end).
  { intros c1 O1 U1. unfold release_if_used. rewrite U1. unfold is_used, pm_is_used in U1.
    destruct (release_ok g _ _ (o_wf _ _ _ _ _ _ _ _ _ O1) U1) as (a' & Er & _). rewrite Er. cbn [bindr].
    destruct (release_used_spec g _ _ a' (o_wf _ _ _ _ _ _ _ _ _ O1) U1 Er) as [_ Hrel].
    set (cd := dec (set_pid c1 a')).
    assert (Hd : c_pid cd = a' /\ c_puback cd = c_puback c1 /\ c_pubrec cd = c_pubrec c1 /\ c_pubcomp cd = c_pubcomp c1 /\
                 c_qos2 cd = c_qos2 c1 /\ c_publish_recv cd = c_publish_recv c1).
    { unfold cd, dec. conn_simpl_goal. destruct (c_send_max c1); conn_simpl_goal; repeat split. }
    destruct Hd as (D1 & D2 & D3 & D4 & D5 & D6). clearbody cd.
    pose proof (refresh_keeps cd) as K. pose proof (kf_refresh cd) as R. cbv zeta in K.
    destruct (refresh_pingreq_recv cd) as [c3 e2]. cbn [fst] in K, R.
    destruct K as ((F1 & _ & F3 & F4 & F5 & _) & _ & _ & F9), R as (_ & _ & RP).
    split; [intro y; unfold is_used, pm_is_used; rewrite F1, D1; apply Hrel|]. repeat split; congruence. }
  destruct Hr as [-> | ->].
  - change (T_PUBACK =? 1) with false in *. change (T_PUBACK =? 2) with false in *. change (T_PUBACK =? 3) with false in *.
    change ((T_PUBACK =? 4) || (T_PUBACK =? 5) || (T_PUBACK =? 7) || (T_PUBACK =? 9) || (T_PUBACK =? 11)) with true in *. cbv iota in *.
    unfold recv_ack in *. cbv zeta in *. change (T_PUBACK =? T_PUBACK) with true in *. cbv iota in *. rewrite Hm in *. cbn [version_eqb] in *.
    destruct (ack_PA_own g c (k_pid a) HO Hm) as (O1 & Fr & _). cbv zeta in O1, Fr. rewrite Rv in O1, Fr.
    apply (Hfin _ O1). unfold is_used, store_erase in *. conn_simpl_goal. exact Hu.
  - change (T_PUBCOMP =? 1) with false in *. change (T_PUBCOMP =? 2) with false in *. change (T_PUBCOMP =? 3) with false in *.
    change ((T_PUBCOMP =? 4) || (T_PUBCOMP =? 5) || (T_PUBCOMP =? 7) || (T_PUBCOMP =? 9) || (T_PUBCOMP =? 11)) with true in *. cbv iota in *.
    unfold recv_ack in *. cbv zeta in *. change (T_PUBCOMP =? T_PUBACK) with false in *. change (T_PUBCOMP =? T_PUBREC) with false in *.
    change (T_PUBCOMP =? T_PUBCOMP) with true in *.
    cbv iota in *. rewrite Hm in *. cbn [version_eqb] in *.
    destruct (ack_PC_own g c (k_pid a) HO Hm) as (O1 & Fr & _). cbv zeta in O1, Fr. rewrite Rv in O1, Fr.
    apply (Hfin _ O1). unfold is_used, store_erase in *. conn_simpl_goal. exact Hu.
Qed.

(* ---- sets ---- *)
Lemma asc_lb b hi l x : asc b hi l -> In x l -> b <= x.
Proof.
  revert b. induction l as [|y t IH]; intros b Ha Hx; [destruct Hx|]. cbn [asc] in Ha. destruct Ha as (A1 & A2 & A3).
  destruct Hx as [->|Hx]; [exact A1|]. specialize (IH _ A3 Hx). lia.
Qed.
Lemma asc_nodup b hi l : asc b hi l -> NoDup l.
Proof.
  revert b. induction l as [|y t IH]; intros b Ha; [constructor|]. cbn [asc] in Ha. destruct Ha as (A1 & A2 & A3).
  constructor; [|exact (IH _ A3)]. intro Hy. pose proof (asc_lb _ _ _ _ A3 Hy). lia.
Qed.
Lemma mem_In x l : mem x l = true <-> In x l.
Proof.
  unfold mem. induction l as [|y t IH]; cbn [s_mem In]; [split; [discriminate|intros []]|].
  rewrite orb_true_iff, IH, N.eqb_eq. split; (intros [H|H]; [left; congruence|right; exact H]).
Qed.
Lemma del_ins_fresh g id l : asc 1 (g_idmax g) l -> 1 <= id <= g_idmax g -> mem id l = false -> del id (ins id l) = l.
Proof.
  intros Ha Hr Hm. apply (asc_ext 1 (g_idmax g) _ l 1).
  - unfold del, ins. apply asc_remove. apply asc_insert; [exact Ha|apply Hr|apply Hr].
  - exact Ha.
  - intro y. change (s_mem y (del id (ins id l))) with (mem y (del id (ins id l))). change (s_mem y l) with (mem y l).
    rewrite (mem_del g y id (ins id l)); [|unfold ins; apply asc_insert; [exact Ha|apply Hr|apply Hr]]. rewrite mem_ins.
    destruct (N.eqb_spec y id) as [->|Hne]; cbn [orb negb]; [rewrite Hm; reflexivity|apply andb_true_r].
Qed.

(* ---- the v5.0 system ---- *)
Section Conc5.
Variables gs gr : cfg.

Definition pubrel5_of (id : N) : pkt := ack_pkt gs T_PUBREL V50 id None.
Definition ack5_of (t id : N) : pkt := ack_pkt gr t V50 id None.

(* the application publishes: its precondition now includes a free Receive Maximum slot and the peer's Maximum Packet Size *)
Definition do_pub5 (s : sys) (p : pkt) : res3 :=
  let id := k_pid p in
  if negb ((1 <=? id) && (id <=? g_idmax gs) && negb (is_used (cs s) id) && freshb (cs s) id && size_ok (cs s) p &&
           match c_send_max (cs s) with Some mx => c_send_count (cs s) <? mx | None => true end) then Skip else
  match step gs (cs s) (ORegister id) with
  | Ok (cs0, [], [1]) =>
    match step gs cs0 (OSend p) with
    | Ok (cs1, e1, _) =>
      match one (sends e1) with
      | Some p1 => if negb (none (notifies e1) && none (errors e1)) then Bad
                   else Next (mkSys cs1 (cr s) (qsr s ++ [p1]) (qrs s) (published s ++ [p]) (delivered s))
      | None => Bad
      end
    | Panic _ => Bad
    end
  | _ => Bad
  end.

Inductive act5 := Pub5 (p : pkt) | ToR5 | ToS5.
Definition do_act5 (s : sys) (a : act5) : res3 :=
  match a with Pub5 p => do_pub5 s p | ToR5 => do_to_r gr s | ToS5 => do_to_s gs s end.
Fixpoint run_sched5 (s : sys) (l : list act5) : option sys :=
  match l with
  | [] => Some s
  | a :: t => match do_act5 s a with Next s' => run_sched5 s' t | Skip => run_sched5 s t | Bad => None end
  end.

Definition fl_sr5 (c : conn) (x : pkt) : Prop :=
  is_used c (k_pid x) = true /\
  ((v5_pub x 1 /\ mem (k_pid x) (c_puback c) = true) \/
   (v5_pub x 2 /\ mem (k_pid x) (c_pubrec c) = true) \/
   (x = pubrel5_of (k_pid x) /\ mem (k_pid x) (c_pubcomp c) = true)).
Definition fl_rs5 (c : conn) (x : pkt) : Prop :=
  is_used c (k_pid x) = true /\
  ((x = ack5_of T_PUBACK (k_pid x) /\ mem (k_pid x) (c_puback c) = true) \/
   (x = ack5_of T_PUBREC (k_pid x) /\ mem (k_pid x) (c_pubrec c) = true) \/
   (x = ack5_of T_PUBCOMP (k_pid x) /\ mem (k_pid x) (c_pubcomp c) = true)).

Definition flight (s : sys) : N := N.of_nat (length (qsr s) + length (qrs s)).

Definition inv5 (s : sys) : Prop :=
  OWN gs (cs s) /\ ready5 (cs s) /\ c_auto_pub (cs s) = true /\ c_ta_send (cs s) = None /\ ack_fits gs (cs s) /\
  (* the sender's Receive Maximum account is the number of exchanges in flight, within the peer's limit *)
  (forall m, c_send_max (cs s) = Some m -> c_send_count (cs s) = flight s /\ flight s <= m) /\
  ready5 (cr s) /\ c_auto_pub (cr s) = true /\ ack_fits gr (cr s) /\ asc 1 (g_idmax gs) (c_qos2 (cr s)) /\
  (* the receiver's account is its handled set; what it announced is what the sender respects *)
  c_publish_recv (cr s) = c_qos2 (cr s) /\
  (forall R, c_recv_max (cr s) = Some R -> exists m, c_send_max (cs s) = Some m /\ m <= R) /\
  Forall (fl_sr5 (cs s)) (qsr s) /\ Forall (fl_rs5 (cs s)) (qrs s) /\
  NoDup (ids (qsr s) ++ ids (qrs s)) /\
  (forall y, mem y (c_qos2 (cr s)) = true -> In (ack5_of T_PUBREC y) (qrs s) \/ In (pubrel5_of y) (qsr s)) /\
  (forall x, In x (qrs s) -> k_type x = T_PUBREC -> mem (k_pid x) (c_qos2 (cr s)) = true) /\
  (forall x, In x (qsr s) -> k_type x = T_PUBREL -> mem (k_pid x) (c_qos2 (cr s)) = true) /\
  published s = delivered s ++ filter is_pub (qsr s).

Lemma fl_sr5_frame c' c id x : AE c' c id -> k_pid x <> id -> fl_sr5 c x -> fl_sr5 c' x.
Proof. intros H Hne [Hu Hc]. destruct (H _ Hne) as (H1 & H2 & H3 & H4). unfold fl_sr5. rewrite H1, H2, H3, H4. split; assumption. Qed.
Lemma fl_rs5_frame c' c id x : AE c' c id -> k_pid x <> id -> fl_rs5 c x -> fl_rs5 c' x.
Proof. intros H Hne [Hu Hc]. destruct (H _ Hne) as (H1 & H2 & H3 & H4). unfold fl_rs5. rewrite H1, H2, H3, H4. split; assumption. Qed.
Lemma flight5_used_sr c l i : Forall (fl_sr5 c) l -> In i (ids l) -> is_used c i = true.
Proof. intros Hf Hi. unfold ids in Hi. apply in_map_iff in Hi as (x & <- & Hx). rewrite Forall_forall in Hf. apply (Hf x Hx). Qed.
Lemma flight5_used_rs c l i : Forall (fl_rs5 c) l -> In i (ids l) -> is_used c i = true.
Proof. intros Hf Hi. unfold ids in Hi. apply in_map_iff in Hi as (x & <- & Hx). rewrite Forall_forall in Hf. apply (Hf x Hx). Qed.
Lemma pubrel5_type id : k_type (pubrel5_of id) = T_PUBREL. Proof. reflexivity. Qed.
Lemma pubrel5_pid id : k_pid (pubrel5_of id) = id. Proof. reflexivity. Qed.
Lemma ack5_pid t id : k_pid (ack5_of t id) = id. Proof. reflexivity. Qed.
Lemma ack5_type t id : k_type (ack5_of t id) = t. Proof. reflexivity. Qed.

(* the handled set is no larger than the number of the other exchanges in flight *)
Lemma handled_le_flight Q (t qr : list pkt) x :
  asc 1 (g_idmax gs) Q -> k_type x = T_PUBLISH ->
  (forall y, mem y Q = true -> In (ack5_of T_PUBREC y) qr \/ In (pubrel5_of y) (x :: t)) ->
  (length Q <= length t + length qr)%nat.
Proof.
  intros Ha Hx Hq. rewrite <- app_length. rewrite <- (map_length k_pid (t ++ qr)).
  apply NoDup_incl_length; [exact (asc_nodup _ _ _ Ha)|]. intros y Hy. apply mem_In in Hy. rewrite map_app. apply in_or_app.
  destruct (Hq y Hy) as [Hi|Hi]; [right; apply in_map_iff; exists (ack5_of T_PUBREC y); split; [reflexivity|exact Hi]|].
  destruct Hi as [Hi|Hi]; [rewrite Hi in Hx; discriminate Hx|]. left. apply in_map_iff. exists (pubrel5_of y). split; [reflexivity|exact Hi].
Qed.

Ltac fold_acks5 :=
  repeat match goal with
         | |- context [ack_pkt gr ?t V50 ?i None] => change (ack_pkt gr t V50 i None) with (ack5_of t i)
         | |- context [ack_pkt gs T_PUBREL V50 ?i None] => change (ack_pkt gs T_PUBREL V50 i None) with (pubrel5_of i)
         end.
Lemma w_sr_pubrel5 id : w_sr (pubrel5_of id) = 2%nat. Proof. reflexivity. Qed.
Lemma w_rs_ack5 t id : w_rs (ack5_of t id) = if t =? T_PUBREC then 3%nat else 1%nat. Proof. reflexivity. Qed.
Ltac meas5 :=
  unfold measure; cbn [qsr qrs]; rewrite ?wsum_app, ?wsum_cons, ?wsum_nil, ?w_sr_pubrel5, ?w_rs_ack5;
  repeat match goal with
         | Hi : is_pub ?x = true, Hq : k_qos ?x = 1 |- context [w_sr ?x] => rewrite (w_sr_pub1 x Hi Hq)
         | Hi : is_pub ?x = true, Hq : k_qos ?x = 2 |- context [w_sr ?x] => rewrite (w_sr_pub2 x Hi Hq)
         | Hi : is_pub ?x = false |- context [w_sr ?x] => rewrite (w_sr_rel x Hi)
         | Ht : k_type ?x = ?t |- context [w_rs ?x] => rewrite (w_rs_type x t Ht)
         end;
  change (T_PUBACK =? T_PUBREC) with false; change (T_PUBREC =? T_PUBREC) with true; change (T_PUBCOMP =? T_PUBREC) with false;
  cbv iota; lia.

(* ---- a packet reaches the receiver ---- *)
Lemma to_r5_step s : inv5 s -> match do_to_r gr s with Next s' => inv5 s' /\ S (measure s') = measure s | Skip => qsr s = [] | Bad => False end.
Proof.
  destruct s as [cs0 cr0 qsr0 qrs0 pub0 del0]. unfold inv5, do_to_r, flight. cbn [cs cr qsr qrs published delivered].
  intros (HO & Rs & Has & Hta & Hfs & Hcnt & Rr & Har & Hfr & Hasc & Hpr & Hrm & Fsr & Frs & Hnd & Hq & Hprp & Hplp & Hpd).
  destruct qsr0 as [|x t]; [reflexivity|]. pose proof (Forall_inv Fsr) as Hx. pose proof (Forall_inv_tail Fsr) as Ht. cbn [ids map app] in Hnd.
  assert (Hnx : ~ In (k_pid x) (ids t ++ ids qrs0)) by (apply NoDup_cons_iff in Hnd; apply Hnd).
  assert (Hcnt' : forall m, c_send_max cs0 = Some m ->
            c_send_count cs0 = N.of_nat (length t + length (qrs0 ++ [ack5_of 0 0])) /\ N.of_nat (length t + length (qrs0 ++ [ack5_of 0 0])) <= m).
  { intros m Hm. destruct (Hcnt m Hm) as [C1 C2]. rewrite app_length. cbn [length] in *.
    replace (length t + (length qrs0 + 1))%nat with (S (length t) + length qrs0)%nat by lia. split; assumption. }
  destruct Hx as [Hu [[Hp Hm]|[[Hp Hm]|[He Hm]]]].
  - (* QoS 1 PUBLISH *)
    destruct Hp as (Htp & Hv & Hqq & Hte & Hal).
    assert (Hn2 : mem (k_pid x) (c_qos2 cr0) = false).
    { destruct (mem (k_pid x) (c_qos2 cr0)) eqn:E; [|reflexivity]. exfalso. destruct (Hq _ E) as [Hi|Hi].
      - apply Hnx. apply in_or_app. right. apply in_ids in Hi. rewrite ack5_pid in Hi. exact Hi.
      - destruct Hi as [Hi|Hi]; [rewrite Hi in Htp; discriminate Htp|]. apply Hnx. apply in_or_app. left. apply in_ids in Hi. rewrite pubrel5_pid in Hi. exact Hi. }
    assert (Hrq : recv_quota_left cr0).
    { unfold recv_quota_left. rewrite Hpr. destruct (c_recv_max cr0) as [R|] eqn:ER; [|exact I]. destruct (Hrm R eq_refl) as (m & Hm' & HmR).
      destruct (Hcnt m Hm') as [_ Hfl]. pose proof (handled_le_flight (c_qos2 cr0) t qrs0 x Hasc Htp Hq) as Hl. cbn [length] in Hfl. lia. }
    pose proof (receiver_q1_5x gr cr0 x Rr Har (conj Htp (conj Hv (conj Hqq (conj Hte Hal)))) Hrq Hfr) as H.
    destruct (deliver gr cr0 x) as [[cr1 e]|]; [|destruct H]. destruct H as (N1 & S1 & X1 & KK & Q1 & P1).
    rewrite S1, X1, N1. fold_acks5. cbn [one none negb filter].
    assert (Hip : is_pub x = true) by (unfold is_pub; rewrite Htp; reflexivity). rewrite Hip.
    cbn [cs cr qsr qrs published delivered].
    pose proof (used_range gs _ _ (o_wf _ _ _ _ _ _ _ _ _ HO) Hu) as Hrg.
    destruct KK as (K1 & K2 & K3 & K4 & K5 & K6 & K7).
    split; [|meas5].
    split; [exact HO|]. split; [exact Rs|]. split; [exact Has|]. split; [exact Hta|]. split; [exact Hfs|].
    split; [intros m Hm'; destruct (Hcnt' m Hm') as [C1 C2]; rewrite app_length in *; cbn [length] in *; split; assumption|].
    split; [destruct Rr as [R1 R2]; split; [congruence|now rewrite K1]|]. split; [congruence|]. split; [unfold ack_fits in *; congruence|].
    split; [rewrite Q1; exact Hasc|].
    split; [rewrite P1, Q1, Hpr; apply (del_ins_fresh gs); [exact Hasc|exact Hrg|exact Hn2]|].
    split; [intros R HR; apply Hrm; congruence|].
    split; [exact Ht|]. split.
    { apply Forall_app. split; [exact Frs|]. constructor; [|constructor]. unfold fl_rs5. rewrite ack5_pid. split; [exact Hu|]. left. split; [reflexivity|exact Hm]. }
    split; [rewrite ids_app; cbn [ids map]; rewrite ack5_pid; apply nodup_move; exact Hnd|].
    split.
    { intros y Hy. rewrite Q1 in Hy. destruct (Hq y Hy) as [Hi|Hi]; [left; apply in_or_app; now left|].
      destruct Hi as [Hi|Hi]; [|now right]. exfalso. rewrite Hi in Htp. discriminate Htp. }
    split.
    { intros z Hz Hzt. rewrite Q1. apply in_app_or in Hz as [Hz|Hz]; [exact (Hprp z Hz Hzt)|]. destruct Hz as [<-|[]]. rewrite ack5_type in Hzt. discriminate. }
    split; [intros z Hz Hzt; rewrite Q1; apply Hplp; [now right|exact Hzt]|].
    rewrite Hpd. cbn [filter]. rewrite Hip, <- app_assoc. reflexivity.
  - (* QoS 2 PUBLISH *)
    destruct Hp as (Htp & Hv & Hqq & Hte & Hal).
    assert (Hn2 : mem (k_pid x) (c_qos2 cr0) = false).
    { destruct (mem (k_pid x) (c_qos2 cr0)) eqn:E; [|reflexivity]. exfalso. destruct (Hq _ E) as [Hi|Hi].
      - apply Hnx. apply in_or_app. right. apply in_ids in Hi. rewrite ack5_pid in Hi. exact Hi.
      - destruct Hi as [Hi|Hi]; [rewrite Hi in Htp; discriminate Htp|]. apply Hnx. apply in_or_app. left. apply in_ids in Hi. rewrite pubrel5_pid in Hi. exact Hi. }
    assert (Hrq : recv_quota_left cr0).
    { unfold recv_quota_left. rewrite Hpr. destruct (c_recv_max cr0) as [R|] eqn:ER; [|exact I]. destruct (Hrm R eq_refl) as (m & Hm' & HmR).
      destruct (Hcnt m Hm') as [_ Hfl]. pose proof (handled_le_flight (c_qos2 cr0) t qrs0 x Hasc Htp Hq) as Hl. cbn [length] in Hfl. lia. }
    pose proof (receiver_q2_5x gr cr0 x Rr Har (conj Htp (conj Hv (conj Hqq (conj Hte Hal)))) Hn2 Hrq Hfr) as H.
    destruct (deliver gr cr0 x) as [[cr1 e]|]; [|destruct H]. destruct H as (N1 & S1 & X1 & KK & Q1 & P1).
    rewrite S1, X1, N1. fold_acks5. cbn [one none negb filter].
    assert (Hip : is_pub x = true) by (unfold is_pub; rewrite Htp; reflexivity). rewrite Hip.
    cbn [cs cr qsr qrs published delivered].
    pose proof (used_range gs _ _ (o_wf _ _ _ _ _ _ _ _ _ HO) Hu) as Hrg.
    destruct KK as (K1 & K2 & K3 & K4 & K5 & K6 & K7).
    split; [|meas5].
    split; [exact HO|]. split; [exact Rs|]. split; [exact Has|]. split; [exact Hta|]. split; [exact Hfs|].
    split; [intros m Hm'; destruct (Hcnt' m Hm') as [C1 C2]; rewrite app_length in *; cbn [length] in *; split; assumption|].
    split; [destruct Rr as [R1 R2]; split; [congruence|now rewrite K1]|]. split; [congruence|]. split; [unfold ack_fits in *; congruence|].
    split; [rewrite Q1; unfold ins; apply asc_insert; [exact Hasc|apply Hrg|apply Hrg]|].
    split; [rewrite P1, Q1, Hpr; reflexivity|].
    split; [intros R HR; apply Hrm; congruence|].
    split; [exact Ht|]. split.
    { apply Forall_app. split; [exact Frs|]. constructor; [|constructor]. unfold fl_rs5. rewrite ack5_pid. split; [exact Hu|]. right. left. split; [reflexivity|exact Hm]. }
    split; [rewrite ids_app; cbn [ids map]; rewrite ack5_pid; apply nodup_move; exact Hnd|].
    split.
    { intros y Hy. rewrite Q1, mem_ins in Hy. apply orb_true_iff in Hy as [Hy|Hy].
      - apply N.eqb_eq in Hy. subst y. left. apply in_or_app. right. now left.
      - destruct (Hq y Hy) as [Hi|Hi]; [left; apply in_or_app; now left|].
        destruct Hi as [Hi|Hi]; [|now right]. exfalso. rewrite Hi in Htp. discriminate Htp. }
    split.
    { intros z Hz Hzt. rewrite Q1, mem_ins. apply in_app_or in Hz as [Hz|Hz]; [rewrite (Hprp z Hz Hzt); apply orb_true_r|].
      destruct Hz as [<-|[]]. rewrite ack5_pid, N.eqb_refl. reflexivity. }
    split; [intros z Hz Hzt; rewrite Q1, mem_ins, (Hplp z (or_intror Hz) Hzt); apply orb_true_r|].
    rewrite Hpd. cbn [filter]. rewrite Hip, <- app_assoc. reflexivity.
  - (* PUBREL *)
    assert (Htp : k_type x = T_PUBREL) by (rewrite He; reflexivity).
    assert (Hm2 : mem (k_pid x) (c_qos2 cr0) = true) by (apply Hplp; [now left|exact Htp]).
    pose proof (receiver_pubrel5_x gr cr0 x Rr Har Hfr Htp Hm2) as H.
    destruct (deliver gr cr0 x) as [[cr1 e]|]; [|destruct H]. destruct H as (N1 & S1 & X1 & KK & Q1 & P1).
    rewrite S1, X1, N1. fold_acks5. cbn [one none negb filter].
    assert (Hip : is_pub x = false) by (unfold is_pub; rewrite Htp; reflexivity). rewrite Hip.
    cbn [cs cr qsr qrs published delivered].
    destruct KK as (K1 & K2 & K3 & K4 & K5 & K6 & K7).
    assert (Hne : forall z, In (k_pid z) (ids t ++ ids qrs0) -> mem (k_pid z) (del (k_pid x) (c_qos2 cr0)) = mem (k_pid z) (c_qos2 cr0)).
    { intros z Hz. apply (mem_del_ne gs); [exact Hasc|]. intro E. apply Hnx. rewrite <- E. exact Hz. }
    split; [|meas5].
    split; [exact HO|]. split; [exact Rs|]. split; [exact Has|]. split; [exact Hta|]. split; [exact Hfs|].
    split; [intros m Hm'; destruct (Hcnt' m Hm') as [C1 C2]; rewrite app_length in *; cbn [length] in *; split; assumption|].
    split; [destruct Rr as [R1 R2]; split; [congruence|now rewrite K1]|]. split; [congruence|]. split; [unfold ack_fits in *; congruence|].
    split; [rewrite Q1; unfold del; apply asc_remove; exact Hasc|].
    split; [rewrite P1, Q1, Hpr; reflexivity|].
    split; [intros R HR; apply Hrm; congruence|].
    split; [exact Ht|]. split.
    { apply Forall_app. split; [exact Frs|]. constructor; [|constructor]. unfold fl_rs5. rewrite ack5_pid. split; [exact Hu|]. right. right. split; [reflexivity|exact Hm]. }
    split; [rewrite ids_app; cbn [ids map]; rewrite ack5_pid; apply nodup_move; exact Hnd|].
    split.
    { intros y Hy. rewrite Q1 in Hy. rewrite (mem_del gs y (k_pid x) _ Hasc) in Hy. apply andb_true_iff in Hy as [Hy Hney]. apply negb_true_iff, N.eqb_neq in Hney.
      destruct (Hq y Hy) as [Hi|Hi]; [left; apply in_or_app; now left|].
      destruct Hi as [Hi|Hi]; [|now right]. exfalso. apply Hney. rewrite Hi. reflexivity. }
    split.
    { intros z Hz Hzt. rewrite Q1. apply in_app_or in Hz as [Hz|Hz].
      - rewrite Hne; [exact (Hprp z Hz Hzt)|]. apply in_or_app. right. now apply in_ids.
      - destruct Hz as [<-|[]]. rewrite ack5_type in Hzt. discriminate. }
    split; [intros z Hz Hzt; rewrite Q1, Hne; [apply Hplp; [now right|exact Hzt]|apply in_or_app; left; now apply in_ids]|].
    rewrite Hpd. cbn [filter]. rewrite Hip, app_nil_r. reflexivity.
Qed.

(* ---- a packet reaches the sender ---- *)
Lemma ae_final5 c2 c id : OWN gs c ->
  (forall y, is_used c2 y = is_used c y && negb (y =? id)) ->
  (c_puback c2 = del id (c_puback c) /\ c_pubcomp c2 = c_pubcomp c \/ c_puback c2 = c_puback c /\ c_pubcomp c2 = del id (c_pubcomp c)) ->
  c_pubrec c2 = c_pubrec c -> AE c2 c id.
Proof. exact (ae_final gs c2 c id). Qed.

Lemma to_s5_step s : inv5 s -> match do_to_s gs s with Next s' => inv5 s' /\ S (measure s') = measure s | Skip => qrs s = [] | Bad => False end.
Proof.
  destruct s as [cs0 cr0 qsr0 qrs0 pub0 del0]. unfold inv5, do_to_s, flight. cbn [cs cr qsr qrs published delivered].
  intros (HO & Rs & Has & Hta & Hfs & Hcnt & Rr & Har & Hfr & Hasc & Hpr & Hrm & Fsr & Frs & Hnd & Hq & Hprp & Hplp & Hpd).
  destruct qrs0 as [|x t]; [reflexivity|]. pose proof (Forall_inv Frs) as Hx. pose proof (Forall_inv_tail Frs) as Ht. cbn [ids map] in Hnd.
  assert (Hnx : ~ In (k_pid x) (ids qsr0 ++ ids t)) by (apply NoDup_remove_2 in Hnd; exact Hnd).
  assert (Hn1 : ~ In (k_pid x) (ids qsr0)) by (intro Hi; apply Hnx; apply in_or_app; now left).
  assert (Hn2 : ~ In (k_pid x) (ids t)) by (intro Hi; apply Hnx; apply in_or_app; now right).
  assert (Hprp' : forall z, In z t -> k_type z = T_PUBREC -> mem (k_pid z) (c_qos2 cr0) = true) by (intros z Hz; apply Hprp; now right).
  destruct Hx as [Hu [[He Hm]|[[He Hm]|[He Hm]]]].
  - (* PUBACK *)
    assert (Hv : k_ver x = V50) by (rewrite He; reflexivity). assert (Htp : k_type x = T_PUBACK) by (rewrite He; reflexivity).
    pose proof (sender_final_ack5_x gs cs0 x T_PUBACK HO Rs Hv Htp (or_introl eq_refl) Hm Hu) as H.
    pose proof (sender_final5_sets gs cs0 x T_PUBACK HO Rs Hv Htp (or_introl eq_refl) Hm Hu) as H'.
    destruct (deliver gs cs0 x) as [[c2 e]|]; [|destruct H]. destruct H as (L1 & S1 & X1 & O2 & K2 & _ & _ & C2).
    destruct H' as (U2 & P1 & P2 & P3 & _). change (T_PUBACK =? T_PUBACK) with true in P1, P3. cbv iota in P1, P3.
    rewrite X1, S1, L1, N.eqb_refl. cbn [none negb]. cbn [cs cr qsr qrs published delivered].
    assert (HA : AE c2 cs0 (k_pid x)) by (apply ae_final5; [exact HO|exact U2|left; split; assumption|exact P2]).
    destruct K2 as (K21 & K22 & K23 & K24 & K25 & K26 & K27).
    split; [|meas5].
    split; [exact O2|]. split; [destruct Rs as [R1 R2]; split; [congruence|now rewrite K21]|]. split; [congruence|]. split; [congruence|].
    split; [unfold ack_fits in *; congruence|].
    split.
    { intros m Hm'. rewrite K26 in Hm'. destruct (Hcnt m Hm') as [C1 C3]. rewrite C2, Hm', C1. cbn [length] in *. split; lia. }
    split; [exact Rr|]. split; [exact Har|]. split; [exact Hfr|]. split; [exact Hasc|]. split; [exact Hpr|].
    split; [intros R HR; destruct (Hrm R HR) as (m & E1 & E2); exists m; split; [congruence|exact E2]|].
    split; [apply (Forall_frame (fl_sr5 cs0) (fl_sr5 c2) qsr0 (k_pid x)); [intros z Hz Hfz; exact (fl_sr5_frame c2 cs0 (k_pid x) z HA Hz Hfz)|exact Hn1|exact Fsr]|].
    split; [apply (Forall_frame (fl_rs5 cs0) (fl_rs5 c2) t (k_pid x)); [intros z Hz Hfz; exact (fl_rs5_frame c2 cs0 (k_pid x) z HA Hz Hfz)|exact Hn2|exact Ht]|].
    split; [apply NoDup_remove_1 in Hnd; exact Hnd|].
    split.
    { intros y Hy. destruct (Hq y Hy) as [Hi|Hi]; [|now right]. destruct Hi as [Hi|Hi]; [|now left]. exfalso. rewrite Hi in Htp. discriminate Htp. }
    split; [exact Hprp'|]. split; [exact Hplp|exact Hpd].
  - (* PUBREC *)
    assert (Hv : k_ver x = V50) by (rewrite He; reflexivity). assert (Htp : k_type x = T_PUBREC) by (rewrite He; reflexivity).
    assert (Hrc : k_rc_present x = false) by (rewrite He; reflexivity).
    pose proof (sender_pubrec5_x gs cs0 x HO Rs Has Hfs Hv Htp Hrc Hm Hu) as H.
    pose proof (sender_pubrec5_sets gs cs0 x HO Rs Has Hfs Hv Htp Hrc Hm Hu) as H'.
    destruct (deliver gs cs0 x) as [[c2 e]|]; [|destruct H]. destruct H as (S1 & X1 & L1 & O2 & K2 & C2 & U2 & M2).
    destruct H' as (P0 & P1 & P2 & P3 & _).
    rewrite X1, S1, L1. fold_acks5. cbn [none negb]. cbn [cs cr qsr qrs published delivered].
    destruct (o_asc _ _ _ _ _ _ _ _ _ HO) as (A1' & A2' & A3' & _).
    assert (HA : AE c2 cs0 (k_pid x)).
    { intros y Hne. rewrite P1, P2, P3. rewrite (mem_del_ne gs _ y _ A2' Hne), (mem_ins_ne _ y _ Hne). unfold is_used. rewrite P0. repeat split. }
    destruct K2 as (K21 & K22 & K23 & K24 & K25 & K26 & K27).
    assert (Hm2 : mem (k_pid x) (c_qos2 cr0) = true) by (apply Hprp; [now left|exact Htp]).
    split; [|meas5].
    split; [exact O2|]. split; [destruct Rs as [R1 R2]; split; [congruence|now rewrite K21]|]. split; [congruence|]. split; [congruence|].
    split; [unfold ack_fits in *; congruence|].
    split.
    { intros m Hm'. rewrite K26 in Hm'. destruct (Hcnt m Hm') as [C1 C3]. rewrite C2, C1, app_length. cbn [length] in *.
      replace (length qsr0 + 1 + length t)%nat with (length qsr0 + S (length t))%nat by lia. split; [reflexivity|exact C3]. }
    split; [exact Rr|]. split; [exact Har|]. split; [exact Hfr|]. split; [exact Hasc|]. split; [exact Hpr|].
    split; [intros R HR; destruct (Hrm R HR) as (m & E1 & E2); exists m; split; [congruence|exact E2]|].
    split.
    { apply Forall_app. split; [apply (Forall_frame (fl_sr5 cs0) (fl_sr5 c2) qsr0 (k_pid x)); [intros z Hz Hfz; exact (fl_sr5_frame c2 cs0 (k_pid x) z HA Hz Hfz)|exact Hn1|exact Fsr]|].
      constructor; [|constructor]. unfold fl_sr5. rewrite pubrel5_pid. split; [exact U2|]. right. right. split; [reflexivity|exact M2]. }
    split; [apply (Forall_frame (fl_rs5 cs0) (fl_rs5 c2) t (k_pid x)); [intros z Hz Hfz; exact (fl_rs5_frame c2 cs0 (k_pid x) z HA Hz Hfz)|exact Hn2|exact Ht]|].
    split; [rewrite ids_app; cbn [ids map]; rewrite pubrel5_pid; rewrite <- app_assoc; exact Hnd|].
    split.
    { intros y Hy. destruct (Hq y Hy) as [Hi|Hi]; [|right; apply in_or_app; now left]. destruct Hi as [Hi|Hi]; [|now left].
      right. apply in_or_app. right. left. rewrite Hi. reflexivity. }
    split; [exact Hprp'|]. split.
    { intros z Hz Hzt. apply in_app_or in Hz as [Hz|Hz]; [exact (Hplp z Hz Hzt)|]. destruct Hz as [<-|[]]. rewrite pubrel5_pid. exact Hm2. }
    rewrite filter_app. cbn [filter]. change (is_pub (pubrel5_of (k_pid x))) with false. cbv iota. rewrite app_nil_r. exact Hpd.
  - (* PUBCOMP *)
    assert (Hv : k_ver x = V50) by (rewrite He; reflexivity). assert (Htp : k_type x = T_PUBCOMP) by (rewrite He; reflexivity).
    pose proof (sender_final_ack5_x gs cs0 x T_PUBCOMP HO Rs Hv Htp (or_intror eq_refl) Hm Hu) as H.
    pose proof (sender_final5_sets gs cs0 x T_PUBCOMP HO Rs Hv Htp (or_intror eq_refl) Hm Hu) as H'.
    destruct (deliver gs cs0 x) as [[c2 e]|]; [|destruct H]. destruct H as (L1 & S1 & X1 & O2 & K2 & _ & _ & C2).
    destruct H' as (U2 & P1 & P2 & P3 & _). change (T_PUBCOMP =? T_PUBACK) with false in P1, P3. cbv iota in P1, P3.
    rewrite X1, S1, L1, N.eqb_refl. cbn [none negb]. cbn [cs cr qsr qrs published delivered].
    assert (HA : AE c2 cs0 (k_pid x)) by (apply ae_final5; [exact HO|exact U2|right; split; assumption|exact P2]).
    destruct K2 as (K21 & K22 & K23 & K24 & K25 & K26 & K27).
    split; [|meas5].
    split; [exact O2|]. split; [destruct Rs as [R1 R2]; split; [congruence|now rewrite K21]|]. split; [congruence|]. split; [congruence|].
    split; [unfold ack_fits in *; congruence|].
    split.
    { intros m Hm'. rewrite K26 in Hm'. destruct (Hcnt m Hm') as [C1 C3]. rewrite C2, Hm', C1. cbn [length] in *. split; lia. }
    split; [exact Rr|]. split; [exact Har|]. split; [exact Hfr|]. split; [exact Hasc|]. split; [exact Hpr|].
    split; [intros R HR; destruct (Hrm R HR) as (m & E1 & E2); exists m; split; [congruence|exact E2]|].
    split; [apply (Forall_frame (fl_sr5 cs0) (fl_sr5 c2) qsr0 (k_pid x)); [intros z Hz Hfz; exact (fl_sr5_frame c2 cs0 (k_pid x) z HA Hz Hfz)|exact Hn1|exact Fsr]|].
    split; [apply (Forall_frame (fl_rs5 cs0) (fl_rs5 c2) t (k_pid x)); [intros z Hz Hfz; exact (fl_rs5_frame c2 cs0 (k_pid x) z HA Hz Hfz)|exact Hn2|exact Ht]|].
    split; [apply NoDup_remove_1 in Hnd; exact Hnd|].
    split.
    { intros y Hy. destruct (Hq y Hy) as [Hi|Hi]; [|now right]. destruct Hi as [Hi|Hi]; [|now left]. exfalso. rewrite Hi in Htp. discriminate Htp. }
    split; [exact Hprp'|]. split; [exact Hplp|exact Hpd].
Qed.

(* ---- the application publishes ---- *)
Lemma pub5_ok s p q : inv5 s -> v5_pub p q -> q = 1 \/ q = 2 ->
  match do_pub5 s p with Next s' => inv5 s' | Skip => True | Bad => False end.
Proof.
  destruct s as [cs0 cr0 qsr0 qrs0 pub0 del0]. unfold inv5, do_pub5, flight. cbn [cs cr qsr qrs published delivered]. cbv zeta.
  intros (HO & Rs & Has & Hta & Hfs & Hcnt & Rr & Har & Hfr & Hasc & Hpr & Hrm & Fsr & Frs & Hnd & Hq & Hprp & Hplp & Hpd) Hp Hqq.
  destruct (negb _) eqn:Epre; [exact I|]. apply negb_false_iff in Epre.
  apply andb_true_iff in Epre as [Epre E6]. apply andb_true_iff in Epre as [Epre E5]. apply andb_true_iff in Epre as [Epre E4].
  apply andb_true_iff in Epre as [Epre E3]. apply andb_true_iff in Epre as [E1 E2].
  apply N.leb_le in E1, E2. apply negb_true_iff in E3. apply freshb_spec in E4.
  destruct (register_k gs cs0 (k_pid p) HO (conj E1 E2) E3 E4) as (c0 & Ereg & O0 & U0 & F0 & K0 & C0). rewrite Ereg.
  pose proof (kf_fields _ _ K0) as (K01 & K02 & K03 & K04 & K05 & K06 & K07).
  assert (R0 : ready5 c0) by exact (ready5_kf _ _ K0 Rs).
  rewrite (step_send_publish_v5 gs c0 p q (proj1 R0) Hp).
  assert (Hsz0 : size_ok c0 p = true) by (unfold size_ok in *; now rewrite K05).
  assert (Hq0 : quota_left c0).
  { unfold quota_left. rewrite K06, C0. destruct (c_send_max cs0) as [mx|]; [apply N.ltb_lt; exact E6|exact I]. }
  (* other identifiers are untouched: registration only touches the allocator at this identifier *)
  assert (Hu0 : forall y, y <> k_pid p -> is_used c0 y = is_used cs0 y /\ c_puback c0 = c_puback cs0 /\ c_pubrec c0 = c_pubrec cs0 /\ c_pubcomp c0 = c_pubcomp cs0).
  { destruct (register_ae gs cs0 (k_pid p) HO (conj E1 E2) E3) as (a & Ereg' & _ & _ & Hu'). rewrite Ereg in Ereg'. injection Ereg' as ->.
    intros y Hy. split; [exact (Hu' y Hy)|repeat split]. }
  pose proof (sender_sends5_x gs c0 p q O0 R0 Hp ltac:(destruct Hqq; lia) F0 U0 Hsz0 ltac:(congruence) Hq0) as H1.
  pose proof (sender_sends5_sets gs c0 p q O0 R0 Hp ltac:(destruct Hqq; lia) F0 U0 Hsz0 ltac:(congruence) Hq0) as H1'.
  destruct (send_publish_v5 gs c0 p) as [[c1 e1]|]; cbn [bindr]; [|destruct H1].
  destruct H1 as (S1 & N1 & X1 & O1 & K1 & U1 & M1 & C1). destruct H1' as (P0 & P3 & P1 & P2 & _).
  rewrite S1, N1, X1. cbn [one none andb negb]. cbn [cs cr qsr qrs published delivered].
  pose proof (kf_fields _ _ K1) as (K11 & K12 & K13 & K14 & K15 & K16 & K17).
  assert (Hn1 : ~ In (k_pid p) (ids qsr0)) by (intro Hi; rewrite (flight5_used_sr cs0 qsr0 _ Fsr Hi) in E3; discriminate).
  assert (Hn2 : ~ In (k_pid p) (ids qrs0)) by (intro Hi; rewrite (flight5_used_rs cs0 qrs0 _ Frs Hi) in E3; discriminate).
  assert (HA : AE c1 cs0 (k_pid p)).
  { intros y Hne. destruct (Hu0 y Hne) as (W1 & W2 & W3 & W4). rewrite P1, P2, P3, W2, W3, W4. unfold is_used at 1. rewrite P0. fold (is_used c0 y). rewrite W1.
    destruct (q =? 2); rewrite ?(mem_ins_ne _ y _ Hne); repeat split. }
  assert (Hip : is_pub p = true) by (destruct Hp as (Htp & _); unfold is_pub; rewrite Htp; reflexivity).
  split; [exact O1|]. split; [exact (ready5_kf _ _ K1 R0)|]. split; [congruence|]. split; [congruence|].
  split; [unfold ack_fits in *; congruence|].
  split.
  { intros m Hm'. assert (Hm0 : c_send_max cs0 = Some m) by congruence. destruct (Hcnt m Hm0) as [C2 C3].
    rewrite C1, K06, Hm0, C0, C2, app_length. cbn [length]. rewrite Hm0 in E6. apply N.ltb_lt in E6. rewrite C2 in E6.
    replace (length qsr0 + 1 + length qrs0)%nat with (S (length qsr0 + length qrs0)) by lia. split; lia. }
  split; [exact Rr|]. split; [exact Har|]. split; [exact Hfr|]. split; [exact Hasc|]. split; [exact Hpr|].
  split; [intros R HR; destruct (Hrm R HR) as (m & E1' & E2'); exists m; split; [congruence|exact E2']|].
  split.
  { apply Forall_app. split; [apply (Forall_frame (fl_sr5 cs0) (fl_sr5 c1) qsr0 (k_pid p)); [intros z Hz Hfz; exact (fl_sr5_frame c1 cs0 (k_pid p) z HA Hz Hfz)|exact Hn1|exact Fsr]|].
    constructor; [|constructor]. unfold fl_sr5. split; [exact U1|].
    destruct Hqq as [-> | ->]; [left|right; left]; (split; [exact Hp|exact M1]). }
  split; [apply (Forall_frame (fl_rs5 cs0) (fl_rs5 c1) qrs0 (k_pid p)); [intros z Hz Hfz; exact (fl_rs5_frame c1 cs0 (k_pid p) z HA Hz Hfz)|exact Hn2|exact Frs]|].
  split.
  { rewrite ids_app. cbn [ids map]. rewrite <- app_assoc. cbn [app].
    apply (Permutation_NoDup (Permutation_middle (ids qsr0) (ids qrs0) (k_pid p))). constructor; [|exact Hnd].
    intro Hi. apply in_app_or in Hi as [Hi|Hi]; [exact (Hn1 Hi)|exact (Hn2 Hi)]. }
  split; [intros y Hy; destruct (Hq y Hy) as [Hi|Hi]; [now left|right; apply in_or_app; now left]|].
  split; [exact Hprp|].
  split.
  { intros z Hz Hzt. apply in_app_or in Hz as [Hz|Hz]; [exact (Hplp z Hz Hzt)|]. destruct Hz as [<-|[]]. destruct Hp as (Htp & _). rewrite Htp in Hzt. discriminate. }
  rewrite Hpd, filter_app. cbn [filter]. rewrite Hip. rewrite <- app_assoc. reflexivity.
Qed.

(* ---- every schedule ---- *)
Definition good_act5 (a : act5) : Prop := match a with Pub5 p => v5_pub p 1 \/ v5_pub p 2 | _ => True end.

Lemma act5_ok s a : inv5 s -> good_act5 a -> match do_act5 s a with Next s' => inv5 s' | Skip => True | Bad => False end.
Proof.
  intros Hi Hg. destruct a as [p| |]; cbn [do_act5 good_act5] in *.
  - destruct Hg as [Hg|Hg]; [apply (pub5_ok s p 1 Hi Hg); now left|apply (pub5_ok s p 2 Hi Hg); now right].
  - pose proof (to_r5_step s Hi) as H. destruct (do_to_r gr s); [apply H|exact I|exact H].
  - pose proof (to_s5_step s Hi) as H. destruct (do_to_s gs s); [apply H|exact I|exact H].
Qed.

Theorem sched5_ok : forall l s, inv5 s -> Forall good_act5 l -> exists s', run_sched5 s l = Some s' /\ inv5 s'.
Proof.
  induction l as [|a t IH]; intros s Hi Hf; cbn [run_sched5]; [exists s; split; [reflexivity|exact Hi]|].
  inversion Hf as [|? ? Ha Ht]; subst. pose proof (act5_ok s a Hi Ha) as H.
  destruct (do_act5 s a) as [s'| |]; [exact (IH s' H Ht)|exact (IH s Hi Ht)|destruct H].
Qed.

Fixpoint drain5 (n : nat) : list act5 := match n with O => [] | S k => ToR5 :: ToS5 :: drain5 k end.

Theorem drain5_ok : forall n s, inv5 s -> (measure s <= n)%nat ->
  exists s', run_sched5 s (drain5 n) = Some s' /\ inv5 s' /\ qsr s' = [] /\ qrs s' = [] /\ published s' = published s.
Proof.
  induction n as [|k IH]; intros s Hi Hm.
  - assert (H0 : measure s = 0%nat) by lia. destruct (measure_zero s H0) as [Q1 Q2]. exists s. cbn [drain5 run_sched5].
    split; [reflexivity|]. split; [exact Hi|]. split; [exact Q1|]. split; [exact Q2|reflexivity].
  - cbn [drain5 run_sched5 do_act5]. pose proof (to_r5_step s Hi) as H1. destruct (do_to_r gr s) as [s1| |] eqn:E1; [| |destruct H1].
    + destruct H1 as [Hi1 Hm1]. pose proof (to_r_pub gr s s1 E1) as P1.
      pose proof (to_s5_step s1 Hi1) as H2. destruct (do_to_s gs s1) as [s2| |] eqn:E2; [| |destruct H2].
      * destruct H2 as [Hi2 Hm2]. pose proof (to_s_pub gs s1 s2 E2) as P2.
        destruct (IH s2 Hi2 ltac:(lia)) as (s' & R & I' & Q1 & Q2 & P'). exists s'. split; [exact R|]. split; [exact I'|]. split; [exact Q1|]. split; [exact Q2|]. congruence.
      * destruct (IH s1 Hi1 ltac:(lia)) as (s' & R & I' & Q1 & Q2 & P'). exists s'. split; [exact R|]. split; [exact I'|]. split; [exact Q1|]. split; [exact Q2|]. congruence.
    + pose proof (to_s5_step s Hi) as H2. destruct (do_to_s gs s) as [s2| |] eqn:E2; [| |destruct H2].
      * destruct H2 as [Hi2 Hm2]. pose proof (to_s_pub gs s s2 E2) as P2.
        destruct (IH s2 Hi2 ltac:(lia)) as (s' & R & I' & Q1 & Q2 & P'). exists s'. split; [exact R|]. split; [exact I'|]. split; [exact Q1|]. split; [exact Q2|]. congruence.
      * assert (H0 : measure s = 0%nat) by (unfold measure; rewrite H1, H2; reflexivity).
        destruct (IH s Hi ltac:(lia)) as (s' & R & I' & Q1 & Q2 & P'). exists s'. split; [exact R|]. split; [exact I'|]. split; [exact Q1|]. split; [exact Q2|]. exact P'.
Qed.

(* v5.0, SEVERAL EXCHANGES IN FLIGHT: whatever the schedule, nothing fails — in particular no side ever reports 'Receive
   Maximum exceeded' — the sender's account is the number of exchanges in flight throughout, and once the links have
   drained the messages notified are exactly the published ones, once each, in order, the vacancy is the full Receive
   Maximum again and the receiver has nothing outstanding *)
Theorem concurrent5_exactly_once l s : inv5 s -> Forall good_act5 l ->
  exists s1 s2, run_sched5 s l = Some s1 /\ run_sched5 s1 (drain5 (measure s1)) = Some s2 /\
                qsr s2 = [] /\ qrs s2 = [] /\ delivered s2 = published s1 /\
                vacancy (cs s2) = c_send_max (cs s2) /\ c_publish_recv (cr s2) = [] /\
                (forall m, c_send_max (cs s1) = Some m -> c_send_count (cs s1) = flight s1).
Proof.
  intros Hi Hf. destruct (sched5_ok l s Hi Hf) as (s1 & R1 & I1).
  destruct (drain5_ok (measure s1) s1 I1 (le_n _)) as (s2 & R2 & I2 & Q1 & Q2 & P2).
  exists s1, s2. split; [exact R1|]. split; [exact R2|]. split; [exact Q1|]. split; [exact Q2|].
  pose proof I1 as (_ & _ & _ & _ & _ & Hc1 & _).
  destruct I2 as (_ & _ & _ & _ & _ & Hc2 & _ & _ & _ & Hasc2 & Hpr2 & _ & _ & _ & _ & Hq2 & _ & _ & Hpd).
  rewrite Q1 in Hpd. cbn [filter] in Hpd. rewrite app_nil_r in Hpd.
  split; [congruence|]. split.
  { unfold vacancy. destruct (c_send_max (cs s2)) as [m|] eqn:Em; [|reflexivity]. destruct (Hc2 m eq_refl) as [C _]. unfold flight in C. rewrite Q1, Q2 in C. cbn in C.
    rewrite C. now rewrite N.sub_0_r. }
  split.
  { rewrite Hpr2. destruct (c_qos2 (cr s2)) as [|y t] eqn:Eq; [reflexivity|]. exfalso.
    assert (Hy : mem y (y :: t) = true) by (unfold mem; cbn [s_mem]; now rewrite N.eqb_refl).
    destruct (Hq2 y Hy) as [Hi'|Hi']; [rewrite Q2 in Hi'|rewrite Q1 in Hi']; destruct Hi'. }
  intros m Hm. exact (proj1 (Hc1 m Hm)).
Qed.

Lemma inv5_init c1 c2 : OWN gs c1 -> ready5 c1 -> c_auto_pub c1 = true -> c_ta_send c1 = None -> ack_fits gs c1 -> c_send_count c1 = 0 ->
  ready5 c2 -> c_auto_pub c2 = true -> ack_fits gr c2 -> c_qos2 c2 = [] -> c_publish_recv c2 = [] ->
  (forall R, c_recv_max c2 = Some R -> exists m, c_send_max c1 = Some m /\ m <= R) ->
  inv5 (mkSys c1 c2 [] [] [] []).
Proof.
  intros HO R1 A1 T1 F1 C1 R2 A2 F2 Q P L. unfold inv5, flight. cbn [cs cr qsr qrs published delivered length].
  split; [exact HO|]. split; [exact R1|]. split; [exact A1|]. split; [exact T1|]. split; [exact F1|].
  split; [intros m _; rewrite C1; cbn; split; [reflexivity|lia]|].
  split; [exact R2|]. split; [exact A2|]. split; [exact F2|]. split; [rewrite Q; exact I|]. split; [congruence|]. split; [exact L|].
  split; [constructor|]. split; [constructor|]. split; [constructor|]. split; [intros y Hy; rewrite Q in Hy; discriminate|].
  split; [intros x []|]. split; [intros x []|reflexivity].
Qed.
End Conc5.
