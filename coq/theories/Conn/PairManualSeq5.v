(* C01 / C12, model side: ANY NUMBER of v5.0 QoS 1 / QoS 2 exchanges in sequence with MANUAL RESPONSES on both endpoints
   (intact link, identifiers reused, Receive Maximum and Maximum Packet Size negotiated).  As PairManualSeq.v; the pair
   invariant says both Receive Maximum accounts are at zero between exchanges — the receiver's slot is given back when
   its APPLICATION sends PUBACK / PUBCOMP. *)
From MQ Require Import Base.Prelude Alloc.Alloc Alloc.SetSpec Alloc.AllocProofs Framing.Framing
                       Conn.Types Conn.TopicAlias Conn.ConnRecord Conn.Step Conn.Run Corr.ConnTrace Conn.Scope Conn.IdsQuota Conn.WfInv
                       Conn.Own Conn.OwnFrame Conn.OwnStep Conn.Qos2Dup Conn.TasBounds Conn.NoPanic
                       Conn.PairQos Conn.PairQos5 Conn.PairSeq Conn.PairSeq5 Conn.PairConc5 Conn.PairManual Conn.PairManual5 Conn.PairManualSeq.

Section ManualSeq5.
Variables gs gr : cfg.

Definition exchange5_m (cs cr : conn) (p : pkt) : outcome :=
  let id := k_pid p in
  if negb ((1 <=? id) && (id <=? g_idmax gs) && negb (is_used cs id) && freshb cs id && negb (mem id (c_qos2 cr)) && size_ok cs p) then AppPre else
  match step gs cs (ORegister id) with
  | Ok (cs0, [], [1]) =>
    match app_send gs cs0 p with
    | Some (cs1, p1) =>
      match quiet_recv gr cr p1 with
      | Some (cr1, n1) =>
        if k_qos p =? 1 then
          match app_send gr cr1 (puback5_for gr n1) with
          | Some (cr2, a1) => final5 gs cs1 cr2 a1 id n1
          | None => Fail
          end
        else
          match app_send gr cr1 (pubrec5_for gr n1) with
          | Some (cr2, a1) =>
            match quiet_recv gs cs1 a1 with
            | Some (cs2, n2) =>
              match app_send gs cs2 (pubrel5_for gs n2) with
              | Some (cs3, r1) =>
                match quiet_recv gr cr2 r1 with
                | Some (cr3, n3) =>
                  if k_type n3 =? T_PUBLISH then Fail else
                  match app_send gr cr3 (pubcomp5_for gr n3) with
                  | Some (cr4, c1) => final5 gs cs3 cr4 c1 id n1
                  | None => Fail
                  end
                | None => Fail
                end
              | None => Fail
              end
            | None => Fail
            end
          | None => Fail
          end
      | None => Fail
      end
    | None => Fail
    end
  | _ => Fail
  end.

Fixpoint run_seq5_m (cs cr : conn) (ps : list pkt) : outcome :=
  match ps with
  | [] => Done cs cr []
  | p :: t =>
    match exchange5_m cs cr p with
    | Done cs' cr' d => match run_seq5_m cs' cr' t with Done cs'' cr'' d' => Done cs'' cr'' (d ++ d') | o => o end
    | o => o
    end
  end.

Definition pair_inv5_m (cs cr : conn) : Prop :=
  OWN gs cs /\ ready5 cs /\ c_auto_pub cs = false /\ c_ta_send cs = None /\ ack_fits gs cs /\
  c_send_count cs = 0 /\ c_send_max cs <> Some 0 /\
  ready5 cr /\ c_auto_pub cr = false /\ ack_fits gr cr /\ c_publish_recv cr = [] /\ c_recv_max cr <> Some 0 /\
  asc 1 (g_idmax gs) (c_qos2 cr).

Lemma app_ack5 g c t id : ready5 c -> ack_fits g c -> t = T_PUBACK \/ t = T_PUBREC \/ t = T_PUBCOMP ->
  exists c1, app_send g c (ack_pkt g t V50 id None) = Some (c1, ack_pkt g t V50 id None) /\ KF c1 c /\ c_qos2 c1 = c_qos2 c /\
             c_publish_recv c1 = (if (t =? T_PUBACK) || (t =? T_PUBCOMP) then del id (c_publish_recv c) else c_publish_recv c).
Proof.
  intros R Hf Ht. destruct (manual_ack5 g c t id R Hf Ht) as (c1 & e & E & S & N & X & K & Q & P). exists c1. unfold app_send. rewrite E, S, N, X. cbn.
  split; [reflexivity|]. split; [exact K|]. split; assumption.
Qed.

Theorem exchange5_m_ok cs cr p q : pair_inv5_m cs cr -> v5_pub p q -> q = 1 \/ q = 2 ->
  match exchange5_m cs cr p with
  | Done cs' cr' d => d = [p] /\ pair_inv5_m cs' cr'
  | AppPre => True
  | Fail => False
  end.
Proof.
  intros (HO & Rs & Has & Hta & Hfs & Hc0 & Hm0 & Rr & Har & Hfr & Hpr & Hrm & Hasc) Hp Hq. unfold exchange5_m. cbv zeta.
  destruct (negb _) eqn:Epre; [exact I|]. apply negb_false_iff in Epre.
  apply andb_true_iff in Epre as [Epre E6]. apply andb_true_iff in Epre as [Epre E5]. apply andb_true_iff in Epre as [Epre E4].
  apply andb_true_iff in Epre as [Epre E3]. apply andb_true_iff in Epre as [E1 E2].
  apply N.leb_le in E1, E2. apply negb_true_iff in E3, E5. apply freshb_spec in E4.
  destruct (register_k gs cs (k_pid p) HO (conj E1 E2) E3 E4) as (cs0 & Ereg & O0 & U0 & F0 & K0 & C0). rewrite Ereg.
  pose proof (kf_fields _ _ K0) as (K01 & K02 & K03 & K04 & K05 & K06 & K07).
  assert (R0 : ready5 cs0) by exact (ready5_kf _ _ K0 Rs).
  unfold app_send at 1. rewrite (step_send_publish_v5 gs cs0 p q (proj1 R0) Hp).
  assert (Hsz0 : size_ok cs0 p = true) by (unfold size_ok in *; now rewrite K05).
  assert (Hq0 : quota_left cs0).
  { unfold quota_left. rewrite K06, C0, Hc0. destruct (c_send_max cs) as [mx|]; [|exact I]. assert (mx <> 0) by congruence. lia. }
  pose proof (sender_sends5_x gs cs0 p q O0 R0 Hp ltac:(lia) F0 U0 Hsz0 ltac:(congruence) Hq0) as H1.
  destruct (send_publish_v5 gs cs0 p) as [[cs1 e1]|]; cbn [bindr]; [|destruct H1].
  destruct H1 as (S1 & N1 & X1 & O1 & K1 & U1 & M1 & C1). rewrite S1, N1, X1. cbn [one none andb].
  pose proof (kf_fields _ _ K1) as (K11 & K12 & K13 & K14 & K15 & K16 & K17).
  assert (R1 : ready5 cs1) by exact (ready5_kf _ _ K1 R0).
  assert (Hrq : recv_quota_left cr).
  { unfold recv_quota_left. rewrite Hpr. cbn. destruct (c_recv_max cr) as [mx|]; [|exact I]. assert (mx <> 0) by congruence. lia. }
  destruct Hp as (Ht & Hv & Hqq & Hte & Hal).
  destruct Hq as [-> | ->].
  - (* QoS 1 *)
    pose proof (receiver_q1_5m gr cr p Rr Har (conj Ht (conj Hv (conj Hqq (conj Hte Hal)))) Hrq) as H2. unfold quiet_recv.
    destruct (deliver gr cr p) as [[cr1 e2]|]; [|destruct H2]. destruct H2 as (N2 & S2 & X2 & Kr1 & Q1 & P1).
    rewrite S2, N2, X2. cbn [one none andb]. rewrite Hqq. change (1 =? 1) with true. cbv iota.
    change (1 =? 2) with false in M1. cbv iota in M1.
    pose proof (ready5_kf _ _ Kr1 Rr) as Rr1. pose proof (ack_fits_kf gr _ _ Kr1 Hfr) as Fr1.
    destruct (app_ack5 gr cr1 T_PUBACK (k_pid p) Rr1 Fr1 (or_introl eq_refl)) as (cr2 & Ea & Kr2 & Q2 & P2).
    change ((T_PUBACK =? T_PUBACK) || (T_PUBACK =? T_PUBCOMP)) with true in P2. cbv iota in P2.
    unfold puback5_for. rewrite Ea.
    destruct (final5_ok gs cs1 cr2 (ack_pkt gr T_PUBACK V50 (k_pid p) None) T_PUBACK p O1 R1 eq_refl eq_refl (or_introl eq_refl) M1 U1)
      as (cs2 & Ef & O2 & K2 & C2).
    change (k_pid (ack_pkt gr T_PUBACK V50 (k_pid p) None)) with (k_pid p) in Ef. rewrite Ef.
    pose proof (kf_fields _ _ K2) as (K21 & K22 & K23 & K24 & K25 & K26 & K27).
    pose proof (kf_fields _ _ (kf_trans _ _ _ Kr2 Kr1)) as (L1 & L2 & L3 & L4 & L5 & L6 & L7).
    split; [reflexivity|]. split; [exact O2|]. split; [exact (ready5_kf _ _ K2 R1)|]. split; [congruence|]. split; [congruence|].
    split; [unfold ack_fits in *; congruence|].
    split; [rewrite C2, C1; rewrite ?K16, ?K06, ?C0, ?Hc0; destruct (c_send_max cs); reflexivity|].
    split; [congruence|]. split; [exact (ready5_kf _ _ Kr2 Rr1)|]. split; [congruence|]. split; [exact (ack_fits_kf gr _ _ Kr2 Fr1)|].
    split; [rewrite P2, P1, Hpr; apply del_ins_nil|]. split; [congruence|]. rewrite Q2, Q1. exact Hasc.
  - (* QoS 2 *)
    pose proof (receiver_q2_5m gr cr p Rr Har (conj Ht (conj Hv (conj Hqq (conj Hte Hal)))) E5 Hrq) as H2. unfold quiet_recv at 1.
    destruct (deliver gr cr p) as [[cr1 e2]|]; [|destruct H2]. destruct H2 as (N2 & S2 & X2 & Kr1 & Q1 & P1).
    rewrite S2, N2, X2. cbn [one none andb]. rewrite Hqq. change (2 =? 1) with false. cbv iota.
    change (2 =? 2) with true in M1. cbv iota in M1.
    pose proof (ready5_kf _ _ Kr1 Rr) as Rr1. pose proof (ack_fits_kf gr _ _ Kr1 Hfr) as Fr1.
    destruct (app_ack5 gr cr1 T_PUBREC (k_pid p) Rr1 Fr1 (or_intror (or_introl eq_refl))) as (cr2 & Ea & Kr2 & Q2 & P2).
    change ((T_PUBREC =? T_PUBACK) || (T_PUBREC =? T_PUBCOMP)) with false in P2. cbv iota in P2.
    unfold pubrec5_for. rewrite Ea.
    pose proof (ready5_kf _ _ Kr2 Rr1) as Rr2. pose proof (ack_fits_kf gr _ _ Kr2 Fr1) as Fr2.
    assert (Ar2 : c_auto_pub cr2 = false).
    { pose proof (kf_fields _ _ Kr2) as (_ & _ & B2 & _). pose proof (kf_fields _ _ Kr1) as (_ & _ & B1 & _). congruence. }
    assert (A1 : c_auto_pub cs1 = false) by congruence.
    pose proof (sender_pubrec5_m gs cs1 (ack_pkt gr T_PUBREC V50 (k_pid p) None) O1 R1 A1 eq_refl eq_refl eq_refl) as H4.
    change (k_pid (ack_pkt gr T_PUBREC V50 (k_pid p) None)) with (k_pid p) in H4. specialize (H4 M1 U1). unfold quiet_recv at 1.
    destruct (deliver gs cs1 _) as [[cs2 e4]|]; [|destruct H4]. destruct H4 as (N4 & S4 & X4 & L4 & O2 & K2 & C2 & U2 & F2).
    rewrite S4, X4, N4. cbn [one none andb].
    pose proof (kf_fields _ _ K2) as (K21 & K22 & K23 & K24 & K25 & K26 & K27).
    assert (R2 : ready5 cs2) by exact (ready5_kf _ _ K2 R1).
    assert (Fs2 : ack_fits gs cs2) by (unfold ack_fits in *; congruence).
    destruct (sender_pubrel5_m gs cs2 (k_pid p) O2 R2 Fs2 U2 F2) as (cs3 & e5 & E5' & S5 & N5 & X5 & L5 & O3 & K3 & C3 & U3 & M3).
    unfold app_send at 1. unfold pubrel5_for. change (k_pid (ack_pkt gr T_PUBREC V50 (k_pid p) None)) with (k_pid p).
    rewrite E5', S5, N5, X5. cbn [one none andb].
    pose proof (kf_fields _ _ K3) as (K31 & K32 & K33 & K34 & K35 & K36 & K37).
    assert (R3 : ready5 cs3) by exact (ready5_kf _ _ K3 R2).
    pose proof (receiver_pubrel5_m gr cr2 (ack_pkt gs T_PUBREL V50 (k_pid p) None) Rr2 Ar2 eq_refl) as H6. unfold quiet_recv.
    destruct (deliver gr cr2 _) as [[cr3 e6]|]; [|destruct H6]. destruct H6 as (N6 & S6 & X6 & Kr3 & Q3 & P3).
    change (k_pid (ack_pkt gs T_PUBREL V50 (k_pid p) None)) with (k_pid p) in Q3.
    rewrite S6, X6, N6. cbn [one none andb]. change (k_type (ack_pkt gs T_PUBREL V50 (k_pid p) None) =? T_PUBLISH) with false. cbv iota.
    pose proof (ready5_kf _ _ Kr3 Rr2) as Rr3. pose proof (ack_fits_kf gr _ _ Kr3 Fr2) as Fr3.
    destruct (app_ack5 gr cr3 T_PUBCOMP (k_pid p) Rr3 Fr3 (or_intror (or_intror eq_refl))) as (cr4 & Ec & Kr4 & Q4 & P4).
    change ((T_PUBCOMP =? T_PUBACK) || (T_PUBCOMP =? T_PUBCOMP)) with true in P4. cbv iota in P4.
    unfold pubcomp5_for. change (k_pid (ack_pkt gs T_PUBREL V50 (k_pid p) None)) with (k_pid p). rewrite Ec.
    destruct (final5_ok gs cs3 cr4 (ack_pkt gr T_PUBCOMP V50 (k_pid p) None) T_PUBCOMP p O3 R3 eq_refl eq_refl (or_intror eq_refl) M3 U3)
      as (cs4 & Ef & O4 & K4 & C4).
    change (k_pid (ack_pkt gr T_PUBCOMP V50 (k_pid p) None)) with (k_pid p) in Ef. rewrite Ef.
    pose proof (kf_fields _ _ K4) as (K41 & K42 & K43 & K44 & K45 & K46 & K47).
    pose proof (kf_fields _ _ (kf_trans _ _ _ Kr4 (kf_trans _ _ _ Kr3 (kf_trans _ _ _ Kr2 Kr1)))) as (L1 & L2 & L3 & L4' & L5' & L6 & L7).
    split; [reflexivity|]. split; [exact O4|]. split; [exact (ready5_kf _ _ K4 R3)|]. split; [congruence|]. split; [congruence|].
    split; [unfold ack_fits in *; congruence|].
    split; [rewrite C4, C3, C2, C1; rewrite ?K36, ?K26, ?K16, ?K06, ?C0, ?Hc0; destruct (c_send_max cs); reflexivity|].
    split; [congruence|]. split; [exact (ready5_kf _ _ Kr4 Rr3)|]. split; [congruence|]. split; [exact (ack_fits_kf gr _ _ Kr4 Fr3)|].
    split; [rewrite P4, P3, P2, P1, Hpr; apply del_ins_nil|]. split; [congruence|]. rewrite Q4, Q3, Q2, Q1.
    unfold del, ins. apply asc_remove. apply asc_insert; assumption.
Qed.

Theorem run_seq5_m_ok : forall ps cs cr, pair_inv5_m cs cr -> Forall (fun p => v5_pub p 1 \/ v5_pub p 2) ps ->
  match run_seq5_m cs cr ps with
  | Done cs' cr' d => d = ps /\ pair_inv5_m cs' cr'
  | AppPre => True
  | Fail => False
  end.
Proof.
  induction ps as [|p t IH]; intros cs cr Hi Hf; cbn [run_seq5_m]; [split; [reflexivity|exact Hi]|].
  pose proof (Forall_inv Hf) as Hp. pose proof (Forall_inv_tail Hf) as Ht.
  assert (He : match exchange5_m cs cr p with Done cs' cr' d => d = [p] /\ pair_inv5_m cs' cr' | AppPre => True | Fail => False end).
  { destruct Hp as [Hp|Hp]; [apply (exchange5_m_ok cs cr p 1 Hi Hp); now left|apply (exchange5_m_ok cs cr p 2 Hi Hp); now right]. }
  destruct (exchange5_m cs cr p) as [cs' cr' d| |]; [|exact I|exact He]. destruct He as [-> Hi'].
  specialize (IH cs' cr' Hi' Ht). destruct (run_seq5_m cs' cr' t) as [cs'' cr'' d'| |]; [|exact I|exact IH].
  destruct IH as [-> Hi'']. split; [reflexivity|exact Hi''].
Qed.

(* C12: between manual exchanges the vacancy is the full Receive Maximum and nothing is outstanding at the receiver *)
Corollary manual_vacancy_returns ps cs cr : pair_inv5_m cs cr -> Forall (fun p => v5_pub p 1 \/ v5_pub p 2) ps ->
  match run_seq5_m cs cr ps with
  | Done cs' cr' d => vacancy cs' = c_send_max cs' /\ c_publish_recv cr' = []
  | AppPre => True
  | Fail => False
  end.
Proof.
  intros Hi Hf. pose proof (run_seq5_m_ok ps cs cr Hi Hf) as H. destruct (run_seq5_m cs cr ps) as [cs' cr' d| |]; [|exact I|exact H].
  destruct H as (_ & _ & _ & _ & _ & _ & Hc & _ & _ & _ & _ & Hp & _). split; [|exact Hp].
  unfold vacancy. destruct (c_send_max cs') as [m|]; [|reflexivity]. rewrite Hc. f_equal. lia.
Qed.
End ManualSeq5.
