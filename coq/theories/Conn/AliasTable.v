(* The send-side topic-alias table (model of topic_alias_send.rs): its two maps stay consistent under
   every operation, and what each operation does to the alias -> topic lookup. *)
From MQ Require Import Base.Prelude Alloc.Alloc Alloc.AllocProofs Conn.TopicAlias.

Definition look (s : tas) (a : N) : option topic := assoc_get a (ts_a2t s).

(* alias -> topic has one entry per alias; every alias listed under a topic is bound to that topic *)
Definition tas_wf (s : tas) : Prop :=
  NoDup (map fst (ts_a2t s)) /\
  (forall t al a, t2a_get t (ts_t2a s) = Some al -> In a al -> look s a = Some t).

(* the full representation invariant, needed for insert_or_update: the allocator of used aliases is
   well formed and marks every bound alias as used *)
Definition tas_inv (s : tas) : Prop :=
  tas_wf s /\ NoDup (map fst (ts_t2a s)) /\ WF (ts_va s) /\
  (forall b t, look s b = Some t -> abs (a_pool (ts_va s)) b = false /\ 1 <= b <= ts_max s /\ t <> []).

Lemma nlist_eqb_refl t : nlist_eqb t t = true. Proof. now apply nlist_eqb_eq. Qed.
Lemma nlist_eqb_neq t u : t <> u -> nlist_eqb t u = false.
Proof. intro H. destruct (nlist_eqb t u) eqn:E; [apply nlist_eqb_eq in E; contradiction|reflexivity]. Qed.

Lemma NoDup_snoc {A} (l : list A) x : NoDup l -> ~ In x l -> NoDup (l ++ [x]).
Proof.
  induction l as [|y t IH]; cbn [app]; intros Hd Hn; [constructor; [tauto|constructor]|].
  inversion Hd as [|y' t' Hy Ht]; subst. constructor.
  - rewrite in_app_iff. cbn [In]. intros [K|[K|[]]]; [contradiction|]. subst. apply Hn. now left.
  - apply IH; [exact Ht|]. intro K. apply Hn. now right.
Qed.

(* ---- association lists ---- *)
Section Assoc.
Context {V : Type}.
Implicit Types l : list (N * V).

Lemma assoc_get_in k l v : assoc_get k l = Some v -> In k (map fst l).
Proof.
  induction l as [|[k' v'] t IH]; cbn [assoc_get map fst In]; [discriminate|].
  destruct (N.eqb_spec k' k); [now left|]. intro H. right. now apply IH.
Qed.
Lemma assoc_get_notin k l : ~ In k (map fst l) -> assoc_get k l = None.
Proof.
  induction l as [|[k' v'] t IH]; cbn [assoc_get map fst In]; [reflexivity|].
  intro H. destruct (N.eqb_spec k' k); [exfalso; apply H; now left|]. apply IH. intro K. apply H. now right.
Qed.
Lemma assoc_get_app k l1 l2 :
  assoc_get k (l1 ++ l2) = match assoc_get k l1 with Some v => Some v | None => assoc_get k l2 end.
Proof. induction l1 as [|[k' v'] t IH]; cbn [assoc_get app]; [reflexivity|]. destruct (k' =? k); [reflexivity|exact IH]. Qed.
Lemma assoc_remove_other k b l : b <> k -> assoc_get b (assoc_remove k l) = assoc_get b l.
Proof.
  intro Hne. induction l as [|[k' v'] t IH]; cbn [assoc_get assoc_remove]; [reflexivity|].
  destruct (N.eqb_spec k' k) as [->|Hk].
  - destruct (N.eqb_spec k b); [congruence|reflexivity].
  - cbn [assoc_get]. destruct (k' =? b); [reflexivity|exact IH].
Qed.
Lemma assoc_remove_keys k l : forall x, In x (map fst (assoc_remove k l)) -> In x (map fst l).
Proof.
  induction l as [|[k' v'] t IH]; cbn [assoc_remove map fst In]; [tauto|].
  intro x. destruct (k' =? k); [now right|]. cbn [map fst In]. intros [H|H]; [now left|right; now apply IH].
Qed.
Lemma assoc_remove_nodup k l : NoDup (map fst l) -> NoDup (map fst (assoc_remove k l)) /\ ~ In k (map fst (assoc_remove k l)).
Proof.
  induction l as [|[k' v'] t IH]; cbn [assoc_remove map fst]; [intro; split; [constructor|tauto]|].
  intro H. inversion H as [|x xs Hn Hd]; subst.
  destruct (N.eqb_spec k' k) as [->|Hk]; [split; assumption|].
  destruct (IH Hd) as [I1 I2]. cbn [map fst]. split.
  - constructor; [|exact I1]. intro K. apply Hn. now apply (assoc_remove_keys k t).
  - cbn [In]. intros [K|K]; [contradiction|now apply I2].
Qed.
Lemma assoc_get_remove_same k l : NoDup (map fst l) -> assoc_get k (assoc_remove k l) = None.
Proof. intro H. apply assoc_get_notin. now apply assoc_remove_nodup. Qed.

Lemma assoc_get_update k v l b :
  assoc_get b (map (fun kv : N * V => if fst kv =? k then (k, v) else kv) l)
  = if b =? k then (match assoc_get k l with Some _ => Some v | None => None end) else assoc_get b l.
Proof.
  induction l as [|[k' v'] t IH]; cbn [assoc_get map fst]; [now destruct (b =? k)|].
  destruct (N.eqb_spec k' k) as [E1|E1]; cbn [assoc_get fst].
  - subst k'. destruct (N.eqb_spec k b) as [E2|E2].
    + subst b. now rewrite N.eqb_refl.
    + rewrite IH. destruct (N.eqb_spec b k); [congruence|reflexivity].
  - destruct (N.eqb_spec k' b) as [E2|E2].
    + subst b. destruct (N.eqb_spec k' k); [congruence|reflexivity].
    + exact IH.
Qed.
Lemma map_update_keys k v l :
  map fst (map (fun kv : N * V => if fst kv =? k then (k, v) else kv) l) = map fst l.
Proof.
  induction l as [|[k' v'] t IH]; cbn [map fst]; [reflexivity|]. rewrite IH.
  destruct (N.eqb_spec k' k) as [->|]; reflexivity.
Qed.
End Assoc.

(* ---- tas_get: the lookup is unchanged (only the LRU order moves) ---- *)
Lemma tas_get_spec s a t s' :
  tas_wf s -> tas_get s a = (Some t, s') ->
  look s a = Some t /\ (forall b, look s' b = look s b) /\ ts_t2a s' = ts_t2a s /\ ts_max s' = ts_max s /\ tas_wf s'.
Proof.
  intros [Hnd Hc]. unfold tas_get. destruct (_ && _); [|discriminate].
  destruct (assoc_get a (ts_a2t s)) as [t0|] eqn:E; [|discriminate]. intro H; inversion H; subst. clear H.
  assert (Hl : forall b, look (mkTas (ts_max s) (assoc_remove a (ts_a2t s) ++ [(a, t)]) (ts_t2a s) (ts_va s)) b = look s b).
  { intro b. unfold look. cbn [ts_a2t]. rewrite assoc_get_app. destruct (N.eqb_spec b a) as [->|Hb].
    - rewrite (assoc_get_remove_same a _ Hnd). cbn [assoc_get]. now rewrite N.eqb_refl, E.
    - rewrite (assoc_remove_other a b _ Hb). destruct (assoc_get b (ts_a2t s)); [reflexivity|].
      cbn [assoc_get]. destruct (N.eqb_spec a b); [congruence|reflexivity]. }
  split; [exact E|]. split; [exact Hl|]. split; [reflexivity|]. split; [reflexivity|]. split.
  - cbn [ts_a2t]. rewrite map_app. cbn [map fst]. destruct (assoc_remove_nodup a _ Hnd) as [N1 N2].
    now apply NoDup_snoc.
  - intros t1 al b Ht Hin. rewrite Hl. now apply (Hc t1 al b).
Qed.

Lemma tas_get_inv s a t s' : tas_inv s -> tas_get s a = (Some t, s') -> tas_inv s' /\ ts_va s' = ts_va s.
Proof.
  intros (Hw & Hnt & Hva & Hu) H. destruct (tas_get_spec s a t s' Hw H) as (_ & Hl & Ht2a & Hmx' & Hw').
  assert (Hv : ts_va s' = ts_va s).
  { unfold tas_get in H. destruct (_ && _); [|discriminate]. destruct (assoc_get _ _); inversion H; reflexivity. }
  split; [|exact Hv]. split; [exact Hw'|]. rewrite Hv, Ht2a. split; [exact Hnt|]. split; [exact Hva|]. intros b t0 Hb. rewrite Hl in Hb. rewrite Hmx'. now apply (Hu b t0).
Qed.

(* ---- topic -> aliases map ---- *)
Lemma t2a_get_set_same t v l : t2a_get t (t2a_set t v l) = Some v.
Proof.
  induction l as [|[t' v'] r IH]; cbn [t2a_set t2a_get]; [now rewrite nlist_eqb_refl|].
  destruct (nlist_eqb t' t) eqn:E; cbn [t2a_get]; [now rewrite nlist_eqb_refl|]. now rewrite E.
Qed.
Lemma t2a_get_set_other t u v l : u <> t -> t2a_get u (t2a_set t v l) = t2a_get u l.
Proof.
  intro Hne. induction l as [|[t' v'] r IH]; cbn [t2a_set t2a_get].
  - rewrite nlist_eqb_neq; [reflexivity|congruence].
  - destruct (nlist_eqb t' t) eqn:E; cbn [t2a_get].
    + apply nlist_eqb_eq in E. subst t'. rewrite !nlist_eqb_neq by congruence. reflexivity.
    + destruct (nlist_eqb t' u); [reflexivity|exact IH].
Qed.
Lemma t2a_get_remove_other t u l : u <> t -> t2a_get u (t2a_remove t l) = t2a_get u l.
Proof.
  intro Hne. induction l as [|[t' v'] r IH]; cbn [t2a_remove t2a_get]; [reflexivity|].
  destruct (nlist_eqb t' t) eqn:E.
  - apply nlist_eqb_eq in E. subst t'. rewrite nlist_eqb_neq; [reflexivity|congruence].
  - cbn [t2a_get]. destruct (nlist_eqb t' u); [reflexivity|exact IH].
Qed.
Lemma t2a_get_app_none t l x : t2a_get t l = None -> t2a_get t (l ++ [x]) = t2a_get t [x].
Proof. induction l as [|[t' v'] r IH]; cbn [t2a_get app]; [reflexivity|]. destruct (nlist_eqb t' t); [discriminate|exact IH]. Qed.
Lemma t2a_get_app_other t u l v : u <> t -> t2a_get u (l ++ [(t, v)]) = t2a_get u l.
Proof.
  intro Hne. induction l as [|[t' v'] r IH]; cbn [t2a_get app].
  - rewrite nlist_eqb_neq; [reflexivity|congruence].
  - destruct (nlist_eqb t' u); [reflexivity|exact IH].
Qed.


Lemma t2a_get_in t l v : t2a_get t l = Some v -> In t (map fst l).
Proof.
  induction l as [|[t' v'] r IH]; cbn [t2a_get map fst In]; [discriminate|].
  destruct (nlist_eqb t' t) eqn:E; [apply nlist_eqb_eq in E; now left|]. intro H. right. now apply IH.
Qed.
Lemma t2a_get_notin t l : ~ In t (map fst l) -> t2a_get t l = None.
Proof.
  induction l as [|[t' v'] r IH]; cbn [t2a_get map fst In]; [reflexivity|].
  intro H. destruct (nlist_eqb t' t) eqn:E; [apply nlist_eqb_eq in E; exfalso; apply H; now left|].
  apply IH. intro K. apply H. now right.
Qed.
Lemma t2a_set_keys t v l : In t (map fst l) -> map fst (t2a_set t v l) = map fst l.
Proof.
  induction l as [|[t' v'] r IH]; cbn [t2a_set map fst In]; [tauto|].
  destruct (nlist_eqb t' t) eqn:E; cbn [map fst].
  - apply nlist_eqb_eq in E. now subst.
  - intros [H|H]; [subst; now rewrite nlist_eqb_refl in E|]. now rewrite IH.
Qed.
Lemma t2a_remove_keys t l x : In x (map fst (t2a_remove t l)) -> In x (map fst l).
Proof.
  induction l as [|[t' v'] r IH]; cbn [t2a_remove map fst In]; [tauto|].
  destruct (nlist_eqb t' t); [now right|]. cbn [map fst In]. intros [H|H]; [now left|right; now apply IH].
Qed.
Lemma t2a_remove_nodup t l : NoDup (map fst l) -> NoDup (map fst (t2a_remove t l)) /\ ~ In t (map fst (t2a_remove t l)).
Proof.
  induction l as [|[t' v'] r IH]; cbn [t2a_remove map fst]; [intro; split; [constructor|tauto]|].
  intro H. inversion H as [|x xs Hn Hd]; subst.
  destruct (nlist_eqb t' t) eqn:E; [apply nlist_eqb_eq in E; subst; split; assumption|].
  destruct (IH Hd) as [I1 I2]. cbn [map fst]. split.
  - constructor; [|exact I1]. intro K. apply Hn. now apply (t2a_remove_keys t r).
  - cbn [In]. intros [K|K]; [subst; now rewrite nlist_eqb_refl in E|now apply I2].
Qed.

Lemma assoc_get_none_notin {V} k (l : list (N * V)) : assoc_get k l = None -> ~ In k (map fst l).
Proof.
  induction l as [|[k' v'] t IH]; cbn [assoc_get map fst In]; [tauto|].
  destruct (N.eqb_spec k' k); [discriminate|]. intros H [K|K]; [contradiction|now apply IH].
Qed.

(* the common tail of insert_or_update: the alias is appended to alias -> topic and added under the topic *)
Lemma insert_tail a t (a2t1 : list (N * topic)) (t2a1 : list (topic * list N)) :
  assoc_get a a2t1 = None -> NoDup (map fst a2t1) -> NoDup (map fst t2a1) ->
  (forall t1 al b, t2a_get t1 t2a1 = Some al -> In b al -> b <> a /\ assoc_get b a2t1 = Some t1) ->
  let a2t2 := a2t1 ++ [(a, t)] in
  let t2a2 := match t2a_get t t2a1 with Some al => t2a_set t (al ++ [a]) t2a1 | None => t2a1 ++ [(t, [a])] end in
  NoDup (map fst a2t2) /\ NoDup (map fst t2a2) /\ assoc_get a a2t2 = Some t /\
  (forall b, b <> a -> assoc_get b a2t2 = assoc_get b a2t1) /\
  (forall t1 al b, t2a_get t1 t2a2 = Some al -> In b al -> assoc_get b a2t2 = Some t1).
Proof.
  intros Hn Hd1 Hd2 Hc. cbv zeta.
  assert (Ha : assoc_get a (a2t1 ++ [(a, t)]) = Some t) by (rewrite assoc_get_app, Hn; cbn [assoc_get]; now rewrite N.eqb_refl).
  assert (Hb : forall b, b <> a -> assoc_get b (a2t1 ++ [(a, t)]) = assoc_get b a2t1).
  { intros b Hne. rewrite assoc_get_app. destruct (assoc_get b a2t1); [reflexivity|]. cbn [assoc_get].
    destruct (N.eqb_spec a b); [congruence|reflexivity]. }
  split. { rewrite map_app. cbn [map fst]. apply NoDup_snoc; [exact Hd1|now apply assoc_get_none_notin]. }
  split.
  { destruct (t2a_get t t2a1) as [al|] eqn:E.
    - rewrite t2a_set_keys; [exact Hd2|now apply (t2a_get_in t t2a1 al)].
    - rewrite map_app. cbn [map fst]. apply NoDup_snoc; [exact Hd2|]. intro K.
      assert (t2a_get t t2a1 <> None); [|congruence].
      clear -K. induction t2a1 as [|[t' v'] r IH]; cbn [map fst In t2a_get] in *; [tauto|].
      destruct (nlist_eqb t' t) eqn:E; [discriminate|]. destruct K as [K|K]; [subst; now rewrite nlist_eqb_refl in E|now apply IH]. }
  split; [exact Ha|]. split; [exact Hb|].
  intros t1 al b Hg Hin.
  destruct (list_eq_dec N.eq_dec t1 t) as [->|Hne].
  - destruct (t2a_get t t2a1) as [al0|] eqn:E.
    + rewrite t2a_get_set_same in Hg. inversion Hg; subst. apply in_app_iff in Hin as [Hin|[<-|[]]]; [|exact Ha].
      destruct (Hc t al0 b E Hin) as [Hba Hl]. now rewrite Hb.
    + rewrite (t2a_get_app_none t t2a1 _ E) in Hg. cbn [t2a_get] in Hg. rewrite nlist_eqb_refl in Hg. inversion Hg; subst.
      destruct Hin as [<-|[]]. exact Ha.
  - assert (Hg' : t2a_get t1 t2a1 = Some al).
    { destruct (t2a_get t t2a1) as [al0|]; [now rewrite t2a_get_set_other in Hg|now rewrite t2a_get_app_other in Hg]. }
    destruct (Hc t1 al b Hg' Hin) as [Hba Hl]. now rewrite Hb.
Qed.

(* taking alias a out of the list of its old topic *)
Lemma without_ok a old (a2t : list (N * topic)) (t2a : list (topic * list N)) :
  NoDup (map fst a2t) -> NoDup (map fst t2a) -> assoc_get a a2t = Some old ->
  (forall t1 al b, t2a_get t1 t2a = Some al -> In b al -> assoc_get b a2t = Some t1) ->
  let a2t1 := assoc_remove a a2t in
  let t2a1 := match t2a_get old t2a with
              | Some al => let al' := filter (fun x => negb (x =? a)) al in
                           match al' with [] => t2a_remove old t2a | _ => t2a_set old al' t2a end
              | None => t2a end in
  assoc_get a a2t1 = None /\ NoDup (map fst a2t1) /\ NoDup (map fst t2a1) /\
  (forall b, b <> a -> assoc_get b a2t1 = assoc_get b a2t) /\
  (forall t1 al b, t2a_get t1 t2a1 = Some al -> In b al -> b <> a /\ assoc_get b a2t1 = Some t1).
Proof.
  intros Hd1 Hd2 Ho Hc. cbv zeta.
  split; [now apply assoc_get_remove_same|]. split; [now apply assoc_remove_nodup|].
  assert (Hoth : forall b, b <> a -> assoc_get b (assoc_remove a a2t) = assoc_get b a2t) by (intros b Hb; now apply assoc_remove_other).
  split.
  { destruct (t2a_get old t2a) as [al|] eqn:E; [|exact Hd2].
    destruct (filter _ al); [now apply t2a_remove_nodup|]. rewrite t2a_set_keys; [exact Hd2|now apply (t2a_get_in old t2a al)]. }
  split; [exact Hoth|].
  intros t1 al b Hg Hin.
  destruct (list_eq_dec N.eq_dec t1 old) as [->|Hne].
  - destruct (t2a_get old t2a) as [al0|] eqn:E.
    + destruct (filter (fun x => negb (x =? a)) al0) as [|y ys] eqn:F.
      * exfalso. rewrite t2a_get_notin in Hg; [discriminate|]. now apply t2a_remove_nodup.
      * rewrite t2a_get_set_same in Hg. inversion Hg; subst al. rewrite <- F in Hin. apply filter_In in Hin as [Hin Hf].
        apply negb_true_iff, N.eqb_neq in Hf. split; [exact Hf|]. rewrite Hoth by exact Hf. now apply (Hc old al0 b).
    + rewrite E in Hg. discriminate.
  - assert (Hg' : t2a_get t1 t2a = Some al).
    { destruct (t2a_get old t2a) as [al0|]; [|exact Hg].
      destruct (filter _ al0); [now rewrite t2a_get_remove_other in Hg|now rewrite t2a_get_set_other in Hg]. }
    pose proof (Hc t1 al b Hg' Hin) as Hl.
    assert (Hba : b <> a) by (intro K; subst; congruence).
    split; [exact Hba|]. now rewrite Hoth.
Qed.

Lemma tas_insert_spec s t a s' :
  tas_inv s -> tas_insert s t a = Ok s' ->
  look s' a = Some t /\ (forall b, b <> a -> look s' b = look s b) /\ ts_max s' = ts_max s /\ tas_inv s'.
Proof.
  intros ((Hd1 & Hc) & Hd2 & Hva & Hu). unfold tas_insert. destruct (_ || _) eqn:Eguard; [discriminate|].
  destruct (use_value_spec (ts_va s) a Hva) as (va' & Huse & Hva' & _ & _ & _ & Habs). rewrite Huse.
  (* the state after the "replace" step *)
  assert (Hmid : exists a2t1 t2a1,
     (if abs (a_pool (ts_va s)) a then (ts_a2t s, ts_t2a s) else
      match assoc_get a (ts_a2t s) with
      | Some old =>
          (assoc_remove a (ts_a2t s),
           match t2a_get old (ts_t2a s) with
           | Some al => match filter (fun x => negb (x =? a)) al with [] => t2a_remove old (ts_t2a s) | _ => t2a_set old (filter (fun x => negb (x =? a)) al) (ts_t2a s) end
           | None => ts_t2a s end)
      | None => (ts_a2t s, ts_t2a s) end) = (a2t1, t2a1) /\
     assoc_get a a2t1 = None /\ NoDup (map fst a2t1) /\ NoDup (map fst t2a1) /\
     (forall b, b <> a -> assoc_get b a2t1 = look s b) /\
     (forall t1 al b, t2a_get t1 t2a1 = Some al -> In b al -> b <> a /\ assoc_get b a2t1 = Some t1)).
  { assert (Hsame : look s a = None ->
        assoc_get a (ts_a2t s) = None /\ NoDup (map fst (ts_a2t s)) /\ NoDup (map fst (ts_t2a s)) /\
        (forall b, b <> a -> assoc_get b (ts_a2t s) = look s b) /\
        (forall t1 al b, t2a_get t1 (ts_t2a s) = Some al -> In b al -> b <> a /\ assoc_get b (ts_a2t s) = Some t1)).
    { intro Hn. split; [exact Hn|]. split; [exact Hd1|]. split; [exact Hd2|]. split; [reflexivity|].
      intros t1 al b Hg Hin. pose proof (Hc t1 al b Hg Hin) as K. split; [|exact K]. intro; subst. congruence. }
    destruct (abs (a_pool (ts_va s)) a) eqn:Ea.
    - exists (ts_a2t s), (ts_t2a s). split; [reflexivity|]. apply Hsame.
      destruct (look s a) as [t0|] eqn:El; [|reflexivity]. rewrite (proj1 (Hu a t0 El)) in Ea. discriminate.
    - destruct (assoc_get a (ts_a2t s)) as [old|] eqn:Eo.
      + eexists _, _. split; [reflexivity|].
        destruct (without_ok a old (ts_a2t s) (ts_t2a s) Hd1 Hd2 Eo Hc) as (W1 & W2 & W3 & W4 & W5). cbv zeta in *.
        split; [exact W1|split; [exact W2|split; [exact W3|split; [exact W4|exact W5]]]].
      + exists (ts_a2t s), (ts_t2a s). split; [reflexivity|]. rewrite Eo. apply Hsame. exact Eo. }
  destruct Hmid as (a2t1 & t2a1 & Hm & F1 & F2 & F4 & F3 & F5).
  match goal with |- (let '(_, _) := ?e in _) = _ -> _ => replace e with (a2t1, t2a1) end.
  rewrite F1.
  destruct (insert_tail a t a2t1 t2a1 F1 F2 F4 F5) as (T1 & T2 & T3 & T4 & T5). cbv zeta in *.
  intro H; inversion H; subst s'. clear H. unfold look. cbn [ts_a2t ts_t2a ts_va ts_max].
  split; [exact T3|]. split; [intros b Hb; rewrite (T4 b Hb); now apply F3|]. split; [reflexivity|].
  split; [split; [exact T1|]|].
  - intros t1 al b Hg Hin. unfold look. cbn [ts_a2t]. now apply (T5 t1 al b).
  - split; [exact T2|]. split; [exact Hva'|]. intros b t0 Hb. unfold look in Hb. cbn [ts_a2t] in Hb. rewrite Habs.
    destruct (N.eqb_spec b a) as [->|Hne].
    + split; [now rewrite andb_false_r|]. apply orb_false_iff in Eguard as [Eg E3]. apply orb_false_iff in Eg as [E1 E2].
      apply N.ltb_ge in E2, E3. cbn [ts_max]. split; [lia|].
      rewrite T3 in Hb. inversion Hb; subst t0. destruct t; [discriminate|discriminate].
    + rewrite (T4 b Hne), (F3 b Hne) in Hb. destruct (Hu b t0 Hb) as [U1 U2]. rewrite U1. split; [reflexivity|exact U2].
Qed.

Lemma tas_find_by_topic_spec s t a : tas_wf s -> tas_find_by_topic s t = Some a -> look s a = Some t.
Proof.
  intros [_ Hc]. unfold tas_find_by_topic. destruct (t2a_get t (ts_t2a s)) as [[|x xs]|] eqn:E; try discriminate.
  intro H; inversion H; subst. apply (Hc t (a :: xs) a E). now left.
Qed.

Lemma tas_new_inv mx s : mx <= 65535 -> tas_new mx = Ok s -> tas_inv s /\ (forall a, look s a = None) /\ ts_max s = mx.
Proof.
  intro Hmx. unfold tas_new, a_new. destruct (1 <=? mx) eqn:E; cbn [bindr]; [|discriminate]. intro H; inversion H; subst.
  apply N.leb_le in E. unfold tas_inv, tas_wf, look. cbn [ts_a2t ts_t2a ts_va ts_max map assoc_get t2a_get].
  split; [|split; [reflexivity|reflexivity]].
  split; [split; [constructor|discriminate]|]. split; [constructor|]. split; [|discriminate].
  unfold WF. cbn. lia.
Qed.

Lemma tas_insert_range s t a s' : tas_insert s t a = Ok s' -> 1 <= a <= ts_max s /\ t <> [].
Proof.
  unfold tas_insert. destruct (_ || _) eqn:E; [discriminate|]. intros _.
  apply orb_false_iff in E as [E E3]. apply orb_false_iff in E as [E1 E2]. apply N.ltb_ge in E2, E3.
  split; [lia|]. destruct t; [discriminate|discriminate].
Qed.
Lemma tas_find_range s t a : tas_inv s -> tas_find_by_topic s t = Some a -> look s a = Some t /\ 1 <= a <= ts_max s.
Proof.
  intros (Hw & _ & _ & Hu) H. pose proof (tas_find_by_topic_spec s t a Hw H) as Hl. split; [exact Hl|]. now apply (Hu a t).
Qed.
