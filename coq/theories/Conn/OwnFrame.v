(* The calls that do not touch the eight fields of the ownership invariant. *)
From MQ Require Import Base.Prelude Alloc.Alloc Alloc.SetSpec Alloc.AllocProofs Framing.Framing
                       Conn.Types Conn.TopicAlias Conn.ConnRecord Conn.Step Conn.Run Corr.ConnTrace Conn.Scope Conn.IdsQuota Conn.WfInv Conn.Own.

Definition F8 (a b : conn) : Prop :=
  c_pid a = c_pid b /\ c_store a = c_store b /\ c_puback a = c_puback b /\ c_pubrec a = c_pubrec b /\
  c_pubcomp a = c_pubcomp b /\ c_suback a = c_suback b /\ c_unsuback a = c_unsuback b /\ c_version a = c_version b.
Lemma f8_refl a : F8 a a. Proof. unfold F8; repeat split. Qed.
Lemma f8_trans a b c : F8 a b -> F8 b c -> F8 a c. Proof. unfold F8; intuition congruence. Qed.
Lemma f8_own g a b : F8 b a -> OWN g a -> OWN g b.
Proof. unfold F8, OWN. intros (H1 & H2 & H3 & H4 & H5 & H6 & H7 & H8). now rewrite H1, H2, H3, H4, H5, H6, H7, H8. Qed.

Definition FR (c : conn) (r : res (conn * list event)) : Prop :=
  match r with Ok (c', _) => F8 c' c | Panic _ => True end.
Lemma FR_trans c c1 r : F8 c1 c -> FR c1 r -> FR c r.
Proof. destruct r as [[c' e]|]; cbn [FR]; [|trivial]. intros H1 H2. now apply (f8_trans _ c1). Qed.

Lemma post_f8 c : F8 (fst (send_post_process c)) c.
Proof. unfold send_post_process. destruct (c_is_client c); [destruct (0 <? _)|]; unfold F8; conn_simpl; repeat split. Qed.
Lemma cancel_f8 c : F8 (fst (cancel_timers c)) c.
Proof. rewrite cancel_timers_state. unfold F8; conn_simpl; repeat split. Qed.
Lemma refresh_f8 c : F8 (fst (refresh_pingreq_recv c)) c.
Proof. unfold refresh_pingreq_recv. destruct (negb _); unfold F8; conn_simpl; repeat split. Qed.

Ltac f8_norm :=
  repeat match goal with
         | |- context [if ?b then _ else _] => destruct b eqn:?
         | |- context [match ?o with Some _ => _ | None => _ end] => destruct o eqn:?
         | H : F8 (if ?b then _ else _) _ |- _ => destruct b eqn:?
         | H : F8 _ (if ?b then _ else _) |- _ => destruct b eqn:?
         | H : F8 (match ?o with Some _ => _ | None => _ end) _ |- _ => destruct o eqn:?
         | H : F8 _ (match ?o with Some _ => _ | None => _ end) |- _ => destruct o eqn:?
         end.
Ltac f8_flat := unfold F8 in *; conn_simpl; repeat match goal with H : _ /\ _ |- _ => destruct H end; repeat split; congruence.
Ltac f8_leaf := cbn [FR]; f8_norm; f8_flat.

Lemma send_and_post_FR c0 c p rel pre : F8 c c0 -> FR c0 (send_and_post c p rel pre).
Proof.
  intro H. unfold send_and_post. pose proof (post_f8 c) as Hp. destruct (send_post_process c) as [c' e]. cbn [fst FR] in *. now apply (f8_trans _ c).
Qed.

Ltac fh :=
  first
  [ progress cbn [bindr]
  | match goal with
    | |- FR _ (Panic _) => exact I
    | |- FR _ (let '(_, _) := send_post_process ?c in _) =>
        let H := fresh "Hpost" in pose proof (post_f8 c) as H; destruct (send_post_process c) as [? ?]; cbn [fst] in H
    | |- FR _ (let '(_, _) := cancel_timers ?c in _) =>
        let H := fresh "Hcan" in pose proof (cancel_f8 c) as H; destruct (cancel_timers c) as [? ?]; cbn [fst] in H
    | |- FR _ (let '(_, _) := refresh_pingreq_recv ?c in _) =>
        let H := fresh "Href" in pose proof (refresh_f8 c) as H; destruct (refresh_pingreq_recv c) as [? ?]; cbn [fst] in H
    | |- FR _ (let '(_, _) := (_, _) in _) => cbv beta iota
    | |- FR _ (let '(_, _) := (if ?b then _ else _) in _) => destruct b eqn:?
    | |- FR _ (if ?b then _ else _) => destruct b eqn:?
    | |- FR _ (bindr (if ?b then _ else _) _) => destruct b eqn:?
    | |- FR _ (match ?y with _ => _ end) => destruct y eqn:?
    end ].
Ltac f8_final :=
  match goal with
  | |- FR _ (Panic _) => exact I
  | |- FR _ (Ok _) => f8_leaf
  | |- FR _ (send_and_post _ _ _ _) => f8_norm; (apply send_and_post_FR; f8_flat)
  end.
Ltac f8_auto := cbv zeta; repeat fh; try f8_final.

Lemma send_plain_FR c p : FR c (send_plain c p). Proof. unfold send_plain. f8_auto. Qed.
Lemma send_pingreq_FR c p : FR c (send_pingreq c p). Proof. unfold send_pingreq. f8_auto. Qed.
Lemma send_disconnect_FR c p : FR c (send_disconnect c p). Proof. unfold send_disconnect. f8_auto. Qed.
Lemma send_auth_FR c p : FR c (send_auth c p). Proof. unfold send_auth. f8_auto. Qed.
Lemma send_puback_like_FR c p : FR c (send_puback_like c p). Proof. unfold send_puback_like. f8_auto. Qed.
Lemma close_with_disconnect_FR c p : FR c (close_with_disconnect c p).
Proof. unfold close_with_disconnect. destruct (_ && _); [f8_auto|apply send_disconnect_FR]. Qed.
Lemma handle_v5_error_FR c e : FR c (handle_v5_error c e).
Proof.
  unfold handle_v5_error. pose proof (close_with_disconnect_FR c (disconnect_v5 (disc_rc_of_err e))) as H.
  destruct (close_with_disconnect _ _) as [[c' ev]|]; cbn [bindr FR] in *; [exact H|exact I].
Qed.
Lemma handle_error_FR c v e : FR c (handle_error c v e).
Proof. unfold handle_error. destruct (version_eqb v V50); [apply handle_v5_error_FR|cbn [FR]; apply f8_refl]. Qed.

Ltac fcall :=
  match goal with
  | |- FR _ (handle_v5_error ?c ?e) => eapply FR_trans; [|apply handle_v5_error_FR]; f8_norm; f8_flat
  | |- FR _ (handle_error ?c ?v ?e) => eapply FR_trans; [|apply handle_error_FR]; f8_norm; f8_flat
  | |- FR _ (bindr (handle_v5_error ?c ?e) _) =>
      let H := fresh "Hk" in pose proof (handle_v5_error_FR c e) as H; destruct (handle_v5_error c e) as [[? ?]|]; cbn [FR] in H
  | |- FR _ (bindr (send_puback_like ?c ?p) _) =>
      let H := fresh "Hk" in pose proof (send_puback_like_FR c p) as H; destruct (send_puback_like c p) as [[? ?]|]; cbn [FR] in H
  | |- FR _ (bindr (send_plain ?c ?p) _) =>
      let H := fresh "Hk" in pose proof (send_plain_FR c p) as H; destruct (send_plain c p) as [[? ?]|]; cbn [FR] in H
  | |- FR _ (bindr (close_with_disconnect ?c ?p) _) =>
      let H := fresh "Hk" in pose proof (close_with_disconnect_FR c p) as H; destruct (close_with_disconnect c p) as [[? ?]|]; cbn [FR] in H
  end.
Lemma note_inbound_f8 c p : F8 (note_inbound c p) c.
Proof. unfold note_inbound. destruct (negb _); unfold F8; conn_simpl; repeat split. Qed.
Lemma note_handled_f8 c p : F8 (note_handled c p) c.
Proof. unfold note_handled. destruct (_ =? _); unfold F8; conn_simpl; repeat split. Qed.
Ltac f8_gen :=
  repeat match goal with
         | |- context [note_handled ?c ?p] => let H := fresh in pose proof (note_handled_f8 c p) as H; generalize dependent (note_handled c p); intros
         | _ : context [note_handled ?c ?p] |- _ => let H := fresh in pose proof (note_handled_f8 c p) as H; generalize dependent (note_handled c p); intros
         | |- context [note_inbound ?c ?p] => let H := fresh in pose proof (note_inbound_f8 c p) as H; generalize dependent (note_inbound c p); intros
         | _ : context [note_inbound ?c ?p] |- _ => let H := fresh in pose proof (note_inbound_f8 c p) as H; generalize dependent (note_inbound c p); intros
         end.
Ltac f8_final3 := match goal with |- FR _ (Panic _) => exact I | |- FR _ (Ok _) => cbn [FR]; f8_gen; f8_norm; f8_flat end.
Ltac f8_auto3 := cbv zeta; repeat first [fcall | fh]; try f8_final3.

Lemma recv_publish_v311_FR g c pr : FR c (recv_publish_v311 g c pr).
Proof. unfold recv_publish_v311, handle_v311_error. destruct pr as [p|e]; f8_auto3. Qed.
Lemma resolve_recv_alias_FR g c p :
  match resolve_recv_alias g c p with Ok (c', _, _, _) => F8 c' c | Panic _ => True end.
Proof.
  unfold resolve_recv_alias.
  repeat match goal with
         | |- match bindr (handle_v5_error ?cc ?e) _ with _ => _ end =>
             let H := fresh "Hk" in pose proof (handle_v5_error_FR cc e) as H; destruct (handle_v5_error cc e) as [[? ?]|]; cbn [bindr FR] in *
         | |- match bindr (tar_insert ?r ?t ?a) _ with _ => _ end => destruct (tar_insert r t a) as [?|]; cbn [bindr]
         | |- match (if ?b then _ else _) with _ => _ end => destruct b
         | |- match (match ?o with Some _ => _ | None => _ end) with _ => _ end => destruct o
         end; try exact I; try assumption; first [apply f8_refl|unfold F8; conn_simpl; repeat split].
Qed.
Lemma recv_publish_v5_FR g c pr : FR c (recv_publish_v5 g c pr).
Proof.
  unfold recv_publish_v5. destruct pr as [p|e]; [|f8_auto3]. cbv zeta.
  destruct (_ && _); [apply handle_v5_error_FR|].
  pose proof (resolve_recv_alias_FR g (note_inbound c p) p) as Hr.
  destruct (resolve_recv_alias g (note_inbound c p) p) as [[[[c1 q] st] e0]|]; cbn [bindr]; [|exact I].
  pose proof (note_inbound_f8 c p) as Hn. assert (Hc1 : F8 c1 c) by (now apply (f8_trans _ (note_inbound c p))).
  clear Hr Hn. generalize dependent (note_inbound c p). intros _.
  destruct st; [cbn [FR]; exact Hc1|]. f8_auto3.
Qed.
Lemma recv_pubrel_FR g c v pr : FR c (recv_pubrel g c v pr).
Proof. unfold recv_pubrel. destruct pr as [p|e]; [|apply handle_error_FR]. f8_auto3. Qed.
Lemma recv_notify_FR c v pr : FR c (recv_notify c v pr).
Proof. unfold recv_notify. destruct pr as [p|e]; [|apply handle_error_FR]. f8_auto3. Qed.
Lemma recv_pingreq_FR g c v pr : FR c (recv_pingreq g c v pr).
Proof. unfold recv_pingreq. destruct pr as [p|e]; [|apply handle_error_FR]. f8_auto3. Qed.
Lemma recv_pingresp_FR c v pr : FR c (recv_pingresp c v pr).
Proof. unfold recv_pingresp. destruct pr as [p|e]; [|apply handle_error_FR]. f8_auto3. Qed.
Lemma recv_disconnect_FR c v pr : FR c (recv_disconnect c v pr).
Proof. unfold recv_disconnect. destruct pr as [p|e]; [|apply handle_error_FR]. f8_auto3. Qed.
Lemma do_timer_FR c k : FR c (do_timer c k).
Proof.
  unfold do_timer. destruct k; cbv zeta.
  - destruct (status_eqb _ _); [|cbn [FR]; unfold F8; conn_simpl; repeat split].
    destruct (c_version _); try exact I; (eapply FR_trans; [|apply send_pingreq_FR]); unfold F8; conn_simpl; repeat split.
  - destruct (c_version _); try exact I; [cbn [FR]; unfold F8; conn_simpl; repeat split|].
    destruct (status_eqb _ _); [|cbn [FR]; unfold F8; conn_simpl; repeat split].
    (eapply FR_trans; [|apply close_with_disconnect_FR]); unfold F8; conn_simpl; repeat split.
  - destruct (c_version _); try exact I; [cbn [FR]; unfold F8; conn_simpl; repeat split|].
    destruct (status_eqb _ _); [|cbn [FR]; unfold F8; conn_simpl; repeat split].
    (eapply FR_trans; [|apply close_with_disconnect_FR]); unfold F8; conn_simpl; repeat split.
Qed.
