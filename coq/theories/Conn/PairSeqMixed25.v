(* C01 / C12, model side, v5.0: sequences with BOTH endpoints publishing, any mix of QoS 0 / 1 / 2 (PairSeqMixed2.v for
   v5.0).  The invariant is [pair_inv5] in both directions: all four Receive Maximum accounts - each side's send count and
   each side's set of outstanding inbound PUBLISH - are at zero between exchanges.  An exchange A->B keeps the invariant of
   B->A because B's calls as a receiver leave its sender role alone ([SF]: allocator, store, awaited sets, limits, count;
   receiver5_f8 of PairBi5.v) and A's calls as a sender leave its receiver role alone (limits, handled set, outstanding
   set; sender_sends5_sets, sender_ack5_q). *)
From MQ Require Import Base.Prelude Alloc.Alloc Alloc.SetSpec Alloc.AllocProofs Framing.Framing
                       Conn.Types Conn.TopicAlias Conn.ConnRecord Conn.Step Conn.Run Corr.ConnTrace Conn.Scope Conn.IdsQuota Conn.WfInv
                       Conn.Own Conn.OwnFrame Conn.OwnStep Conn.Qos2Inv Conn.Qos2Dup Conn.TasBounds Conn.NoPanic Conn.PairQos Conn.PairQos5 Conn.PairSeq Conn.PairSeq5
                       Conn.PairConc Conn.PairConc5 Conn.PairBi Conn.PairBi5 Conn.PairSeqMixed Conn.PairSeqMixed2 Conn.PairSeqMixed5.

Lemma register_q5 g c id c0 r : step g c (ORegister id) = Ok (c0, [], r) -> c_qos2 c0 = c_qos2 c /\ c_publish_recv c0 = c_publish_recv c.
Proof. cbn [step]. destruct (pm_register (c_pid c) id) as [b a]. intro E. injection E as <- _. split; reflexivity. Qed.

(* what the reverse direction needs of the two endpoints after an exchange *)
Definition REV (cs' cs cr' cr : conn) : Prop :=
  SF cr' cr /\ KF cs' cs /\ c_qos2 cs' = c_qos2 cs /\ c_publish_recv cs' = c_publish_recv cs.

Lemma exchange5_reverse gs gr cs cr p q : pair_inv5 gs gr cs cr -> v5_pub p q -> q = 1 \/ q = 2 ->
  match exchange5 gs gr cs cr p with
  | Done cs' cr' _ => REV cs' cs cr' cr
  | _ => True
  end.
Proof.
  intros (HO & Rs & Has & Hta & Hfs & Hc0 & Hm0 & Rr & Har & Hfr & Hpr & Hrm & Hasc) Hp Hq. unfold exchange5. cbv zeta.
  destruct (negb _) eqn:Epre; [exact I|]. apply negb_false_iff in Epre.
  apply andb_true_iff in Epre as [Epre E6]. apply andb_true_iff in Epre as [Epre E5]. apply andb_true_iff in Epre as [Epre E4].
  apply andb_true_iff in Epre as [Epre E3]. apply andb_true_iff in Epre as [E1 E2].
  apply N.leb_le in E1, E2. apply negb_true_iff in E3, E5. apply freshb_spec in E4.
  destruct (register_k gs cs (k_pid p) HO (conj E1 E2) E3 E4) as (cs0 & Ereg & O0 & U0 & F0 & K0 & C0). rewrite Ereg.
  destruct (register_q5 gs cs (k_pid p) cs0 [1] Ereg) as [Qr0 Pr0].
  pose proof (kf_fields _ _ K0) as (K01 & K02 & K03 & K04 & K05 & K06 & K07).
  assert (R0 : ready5 cs0) by exact (ready5_kf _ _ K0 Rs).
  rewrite (step_send_publish_v5 gs cs0 p q (proj1 R0) Hp).
  assert (Hsz0 : size_ok cs0 p = true) by (unfold size_ok in *; now rewrite K05).
  assert (Hq0 : quota_left cs0).
  { unfold quota_left. rewrite K06, C0, Hc0. destruct (c_send_max cs) as [mx|]; [|exact I]. assert (mx <> 0) by congruence. lia. }
  pose proof (sender_sends5_x gs cs0 p q O0 R0 Hp ltac:(lia) F0 U0 Hsz0 ltac:(congruence) Hq0) as H1.
  pose proof (sender_sends5_sets gs cs0 p q O0 R0 Hp ltac:(lia) F0 U0 Hsz0 ltac:(congruence) Hq0) as G1.
  destruct (send_publish_v5 gs cs0 p) as [[cs1 e1]|]; cbn [bindr]; [|exact I].
  destruct H1 as (S1 & N1 & X1 & O1 & K1 & U1 & M1 & C1). destruct G1 as (_ & _ & _ & _ & Qr1 & Pr1). rewrite S1, N1, X1. cbn [one none andb negb].
  pose proof (kf_fields _ _ K1) as (K11 & K12 & K13 & K14 & K15 & K16 & K17).
  assert (R1 : ready5 cs1) by exact (ready5_kf _ _ K1 R0).
  assert (A1 : c_auto_pub cs1 = true) by congruence.
  assert (Fs1 : ack_fits gs cs1) by (unfold ack_fits in *; congruence).
  assert (Hrq : recv_quota_left cr).
  { unfold recv_quota_left. rewrite Hpr. cbn. destruct (c_recv_max cr) as [mx|]; [|exact I]. assert (mx <> 0) by congruence. lia. }
  pose proof Hp as (Ht & Hv & Hqq & Hte & Hal).
  destruct Hq as [-> | ->].
  - (* QoS 1 *)
    pose proof (receiver_q1_5x gr cr p Rr Har Hp Hrq Hfr) as H2.
    pose proof (receiver5_f8 gr cr p Rr Har Hfr (fun _ => Hrq) (or_introl Hp)) as G2.
    destruct (deliver gr cr p) as [[cr1 e2]|]; [|exact I]. destruct H2 as (N2 & S2 & X2 & Kr1 & Q1 & P1).
    rewrite S2, N2, X2. cbn [one none negb]. rewrite Hqq. change (1 =? 1) with true. cbv iota.
    change (1 =? 2) with false in M1. cbv iota in M1.
    pose proof (sender_ack5_q gs gr cs1 (ack_pkt gr T_PUBACK V50 (k_pid p) None) O1 R1 A1 Fs1
                  (conj U1 (or_introl (conj eq_refl M1)))) as G3.
    unfold final5. destruct (deliver gs cs1 _) as [[cs2 e3]|]; [|exact I].
    destruct (none (sends e3) && none (errors e3) && _); [|exact I]. destruct G3 as (G31 & G32 & G33).
    split; [exact G2|]. split; [exact (kf_trans _ _ _ G31 (kf_trans _ _ _ K1 K0))|]. split; congruence.
  - (* QoS 2 *)
    pose proof (receiver_q2_5x gr cr p Rr Har Hp E5 Hrq Hfr) as H2.
    pose proof (receiver5_f8 gr cr p Rr Har Hfr (fun _ => Hrq) (or_intror (or_introl (conj Hp E5)))) as G2.
    destruct (deliver gr cr p) as [[cr1 e2]|]; [|exact I]. destruct H2 as (N2 & S2 & X2 & Kr1 & Q1 & P1).
    rewrite S2, N2, X2. cbn [one none negb]. rewrite Hqq. change (2 =? 1) with false. cbv iota.
    change (2 =? 2) with true in M1. cbv iota in M1.
    pose proof (kf_fields _ _ Kr1) as (L1 & L2 & L3 & L4 & L5 & L6 & L7).
    pose proof (sender_pubrec5_x gs cs1 (ack_pkt gr T_PUBREC V50 (k_pid p) None) O1 R1 A1 Fs1 eq_refl eq_refl eq_refl M1 U1) as H3.
    pose proof (sender_ack5_q gs gr cs1 (ack_pkt gr T_PUBREC V50 (k_pid p) None) O1 R1 A1 Fs1
                  (conj U1 (or_intror (or_introl (conj eq_refl M1))))) as G3.
    change (k_pid (ack_pkt gr T_PUBREC V50 (k_pid p) None)) with (k_pid p) in H3.
    destruct (deliver gs cs1 _) as [[cs2 e3]|]; [|exact I]. destruct H3 as (S3 & X3 & L3' & O2 & K2 & C2 & U2 & M2).
    destruct G3 as (G31 & G32 & G33).
    rewrite S3, X3, L3'. cbn [one none andb negb].
    pose proof (kf_fields _ _ K2) as (K21 & K22 & K23 & K24 & K25 & K26 & K27).
    assert (Rr1 : ready5 cr1) by exact (ready5_kf _ _ Kr1 Rr).
    assert (Ar1 : c_auto_pub cr1 = true) by congruence.
    assert (Fr1 : ack_fits gr cr1) by (unfold ack_fits in *; congruence).
    assert (Mr1 : mem (k_pid p) (c_qos2 cr1) = true) by (rewrite Q1; unfold mem, ins; rewrite s_mem_insert, N.eqb_refl; reflexivity).
    pose proof (receiver_pubrel5_x gr cr1 (ack_pkt gs T_PUBREL V50 (k_pid p) None) Rr1 Ar1 Fr1 eq_refl Mr1) as H4.
    pose proof (receiver5_f8 gr cr1 (ack_pkt gs T_PUBREL V50 (k_pid p) None) Rr1 Ar1 Fr1 (fun E => ltac:(discriminate E))
                  (or_intror (or_intror (conj eq_refl Mr1)))) as G4.
    change (k_pid (ack_pkt gs T_PUBREL V50 (k_pid p) None)) with (k_pid p) in H4.
    destruct (deliver gr cr1 _) as [[cr2 e4]|]; [|exact I]. destruct H4 as (N4 & S4 & X4 & Kr2 & Q2 & P2).
    rewrite S4, X4, N4. cbn [one none andb negb filter]. change (k_type (ack_pkt gs T_PUBREL V50 (k_pid p) None) =? T_PUBLISH) with false. cbn [none negb].
    assert (R2 : ready5 cs2) by exact (ready5_kf _ _ K2 R1).
    assert (A2 : c_auto_pub cs2 = true) by congruence.
    assert (Fs2 : ack_fits gs cs2) by (unfold ack_fits in *; congruence).
    pose proof (sender_ack5_q gs gr cs2 (ack_pkt gr T_PUBCOMP V50 (k_pid p) None) O2 R2 A2 Fs2
                  (conj U2 (or_intror (or_intror (conj eq_refl M2))))) as G5.
    unfold final5. destruct (deliver gs cs2 _) as [[cs3 e5]|]; [|exact I].
    destruct (none (sends e5) && none (errors e5) && _); [|exact I]. destruct G5 as (G51 & G52 & G53).
    split; [exact (sf_trans _ _ _ G4 G2)|]. split; [exact (kf_trans _ _ _ G51 (kf_trans _ _ _ G31 (kf_trans _ _ _ K1 K0)))|]. split; congruence.
Qed.

(* a QoS 0 publication touches neither role of either endpoint *)
Lemma exchange0_5_frames gs gr cs cr p : pair_inv5 gs gr cs cr -> v5_pub p 0 ->
  match exchange0_5 gs gr cs cr p with
  | Done cs' cr' _ => REV cs' cs cr' cr
  | _ => True
  end.
Proof.
  intros (HO & Rs & Has & Hta & Hfs & Hc0 & Hm0 & Rr & Har & Hfr & Hpr & Hrm & Hasc) Hp. unfold exchange0_5.
  destruct (size_ok cs p) eqn:Esz; cbn [negb]; [|exact I].
  rewrite (step_send_publish_v5 gs cs p 0 (proj1 Rs) Hp).
  pose proof (sender_q0_5x gs cs p HO Rs Hp Esz Hta) as H1.
  destruct (send_publish_v5 gs cs p) as [[cs1 e1]|]; cbn [bindr]; [|exact I].
  destruct H1 as (S1 & N1 & X1 & L1 & O1 & F1 & K1 & C1 & Q1 & P1). rewrite S1, N1, X1, L1. cbn [one none andb negb].
  pose proof (receiver_q0_5x gr cr p Rr Hp) as H2.
  destruct (deliver gr cr p) as [[cr1 e2]|]; [|exact I].
  destruct H2 as (N2 & S2 & X2 & L2 & F2 & K2 & C2 & Q2 & P2). rewrite N2, S2, X2, L2. cbn [one none andb].
  split; [split; [exact F2|split; [exact K2|exact C2]]|]. split; [exact K1|]. split; [exact Q1|exact P1].
Qed.

(* the reverse invariant survives anything that satisfies REV *)
Lemma pair_inv5_rev gs gr cs cr cs' cr' : pair_inv5 gr gs cr cs -> REV cs' cs cr' cr -> pair_inv5 gr gs cr' cs'.
Proof.
  intros (HO & Rs & Has & Hta & Hfs & Hc0 & Hm0 & Rr & Har & Hfr & Hpr & Hrm & Hasc) ((F & K & C) & K' & Q & P).
  pose proof (kf_fields _ _ K) as (a1 & a2 & a3 & a4 & a5 & a6 & a7). pose proof (kf_fields _ _ K') as (b1 & b2 & b3 & b4 & b5 & b6 & b7).
  split; [exact (f8_own gr cr cr' F HO)|]. split; [exact (ready5_kf _ _ K Rs)|]. split; [congruence|]. split; [congruence|].
  split; [exact (ack_fits_kf gr _ _ K Hfs)|]. split; [congruence|]. split; [congruence|].
  split; [exact (ready5_kf _ _ K' Rr)|]. split; [congruence|]. split; [exact (ack_fits_kf gs _ _ K' Hfr)|]. split; [congruence|]. split; [congruence|].
  rewrite Q. exact Hasc.
Qed.

Section Two5.
Variables gA gB : cfg.

Definition pair_inv52 (a b : conn) : Prop := pair_inv5 gA gB a b /\ pair_inv5 gB gA b a.

Lemma exchange_any5_2 gs gr cs cr p : pair_inv5 gs gr cs cr -> pair_inv5 gr gs cr cs -> v5_any p ->
  match exchange_any5 gs gr cs cr p with
  | Done cs' cr' d => d = [p] /\ pair_inv5 gs gr cs' cr' /\ pair_inv5 gr gs cr' cs'
  | AppPre => True
  | Fail => False
  end.
Proof.
  intros Hi Hr Hp. pose proof (exchange_any5_ok gs gr cs cr p Hi Hp) as H.
  assert (G : match exchange_any5 gs gr cs cr p with Done cs' cr' _ => REV cs' cs cr' cr | _ => True end).
  { unfold exchange_any5. destruct Hp as [Hp|[Hp|Hp]].
    - pose proof (exchange0_5_frames gs gr cs cr p Hi Hp) as K. destruct Hp as (_ & _ & Hq & _). rewrite Hq. change (0 =? 0) with true. cbv iota. exact K.
    - pose proof (exchange5_reverse gs gr cs cr p 1 Hi Hp (or_introl eq_refl)) as K. destruct Hp as (_ & _ & Hq & _). rewrite Hq. change (1 =? 0) with false. cbv iota. exact K.
    - pose proof (exchange5_reverse gs gr cs cr p 2 Hi Hp (or_intror eq_refl)) as K. destruct Hp as (_ & _ & Hq & _). rewrite Hq. change (2 =? 0) with false. cbv iota. exact K. }
  destruct (exchange_any5 gs gr cs cr p) as [cs' cr' d| |]; [|exact I|exact H].
  destruct H as [Hd Hi']. split; [exact Hd|]. split; [exact Hi'|]. exact (pair_inv5_rev gs gr cs cr cs' cr' Hr G).
Qed.

Fixpoint run_mixed52 (a b : conn) (l : list item) : outcome2 :=
  match l with
  | [] => Done2 a b [] []
  | FromA p :: t =>
    match exchange_any5 gA gB a b p with
    | Done a' b' d => match run_mixed52 a' b' t with Done2 a'' b'' dB dA => Done2 a'' b'' (d ++ dB) dA | o => o end
    | AppPre => AppPre2
    | Fail => Fail2
    end
  | FromB p :: t =>
    match exchange_any5 gB gA b a p with
    | Done b' a' d => match run_mixed52 a' b' t with Done2 a'' b'' dB dA => Done2 a'' b'' dB (d ++ dA) | o => o end
    | AppPre => AppPre2
    | Fail => Fail2
    end
  end.

(* v5.0, any number of messages, any mix of QoS levels, either side publishing: each application is notified of exactly the
   other side's messages, once each, in order, and all four Receive Maximum accounts are at zero again *)
Theorem run_mixed52_ok : forall l a b, pair_inv52 a b -> Forall (fun i => v5_any (item_pkt i)) l ->
  match run_mixed52 a b l with
  | Done2 a' b' dB dA => dB = fromA l /\ dA = fromB l /\ pair_inv52 a' b'
  | AppPre2 => True
  | Fail2 => False
  end.
Proof.
  induction l as [|i t IH]; intros a b [Hab Hba] Hf; cbn [run_mixed52]; [split; [reflexivity|]; split; [reflexivity|split; assumption]|].
  inversion Hf as [|? ? Hp Ht]; subst. destruct i as [p|p]; cbn [item_pkt] in Hp.
  - pose proof (exchange_any5_2 gA gB a b p Hab Hba Hp) as He.
    destruct (exchange_any5 gA gB a b p) as [a' b' d| |]; [|exact I|exact He]. destruct He as (-> & H1 & H2).
    specialize (IH a' b' (conj H1 H2) Ht). destruct (run_mixed52 a' b' t) as [a'' b'' dB dA| |]; [|exact I|exact IH].
    destruct IH as (-> & -> & Hi). split; [reflexivity|]. split; [reflexivity|exact Hi].
  - pose proof (exchange_any5_2 gB gA b a p Hba Hab Hp) as He.
    destruct (exchange_any5 gB gA b a p) as [b' a' d| |]; [|exact I|exact He]. destruct He as (-> & H1 & H2).
    specialize (IH a' b' (conj H2 H1) Ht). destruct (run_mixed52 a' b' t) as [a'' b'' dB dA| |]; [|exact I|exact IH].
    destruct IH as (-> & -> & Hi). split; [reflexivity|]. split; [reflexivity|exact Hi].
Qed.
End Two5.
