(* C15, "a client re-arms the PINGREQ timer after every packet it sends, with the interval chosen by
   priority", as ONE statement about every call of the model: in the event list of any call, after the
   last packet requested for sending there is a reset of the PINGREQ-send timer with the chosen
   interval — unless the call requests a close, the object is not a client, or the interval is 0. *)
From MQ Require Import Base.Prelude Alloc.Alloc Alloc.SetSpec Alloc.AllocProofs Framing.Framing
                       Conn.Types Conn.TopicAlias Conn.ConnRecord Conn.Step Conn.Run Corr.ConnTrace Conn.Scope Conn.Timers.

Definition is_send (e : event) : bool := match e with ESend _ _ => true | _ => false end.
Definition is_rst (ms : N) (e : event) : bool :=
  match e with ETimerReset TPingreqSend m => m =? ms | _ => false end.

(* the events after the last requested send *)
Fixpoint als (e : list event) : list event :=
  match e with
  | [] => []
  | x :: t => if existsb is_send t then als t else if is_send x then t else x :: als t
  end.

Definition rearmed (cl : bool) (ms : N) (e : list event) : bool :=
  negb (existsb is_send e) || existsb is_close e || negb (cl && (0 <? ms)) || existsb (is_rst ms) (als e).

Lemma als_app_send a b : existsb is_send b = true -> als (a ++ b) = als b.
Proof.
  intro Hb. induction a as [|x t IH]; cbn [app als]; [reflexivity|].
  rewrite existsb_app, Hb, orb_true_r. exact IH.
Qed.
Lemma als_app_nosend a b : existsb is_send b = false -> als (a ++ b) = als a ++ b \/ existsb is_send a = false.
Proof.
  intro Hb. induction a as [|x t IH]; cbn [app als]; [now right|].
  rewrite existsb_app, Hb, orb_false_r. destruct (existsb is_send t) eqn:Et.
  - destruct IH as [IH|IH]; [now left|discriminate].
  - destruct (is_send x) eqn:Ex; [now left|]. cbn [existsb]. rewrite Ex, Et. now right.
Qed.

Lemma rearmed_app cl ms a b : rearmed cl ms a = true -> rearmed cl ms b = true -> rearmed cl ms (a ++ b) = true.
Proof.
  unfold rearmed. intros Ha Hb. rewrite !existsb_app.
  destruct (negb (cl && (0 <? ms))); [now rewrite !orb_true_r|]. rewrite !orb_false_r in *.
  destruct (existsb is_close a); [now rewrite orb_true_r|]. destruct (existsb is_close b); [now rewrite !orb_true_r|].
  cbn [orb] in *. rewrite !orb_false_r in *.
  destruct (existsb is_send b) eqn:Sb.
  - cbn [negb orb] in Hb. rewrite orb_true_r. cbn [negb orb]. now rewrite als_app_send.
  - destruct (als_app_nosend a b Sb) as [H|H].
    + rewrite H, existsb_app. rewrite orb_false_r. destruct (existsb is_send a); [|reflexivity]. cbn [negb orb] in *. now rewrite Ha.
    + now rewrite H.
Qed.
Lemma nosend_rearmed cl ms e : existsb is_send e = false -> rearmed cl ms e = true.
Proof. unfold rearmed. now intros ->. Qed.
Lemma close_rearmed cl ms e : existsb is_close e = true -> rearmed cl ms e = true.
Proof. unfold rearmed. intros ->. now rewrite orb_true_r. Qed.

(* the fields that decide whether and with which interval the client re-arms *)
Definition KEYeq (a b : conn) : Prop :=
  c_is_client a = c_is_client b /\ c_user_ping a = c_user_ping b /\
  c_server_ka_ms a = c_server_ka_ms b /\ c_keep_alive_ms a = c_keep_alive_ms b.
Lemma ke_refl a : KEYeq a a. Proof. unfold KEYeq; auto. Qed.
Lemma ke_trans a b c : KEYeq a b -> KEYeq b c -> KEYeq a c. Proof. unfold KEYeq; intuition congruence. Qed.
Lemma ke_sym a b : KEYeq a b -> KEYeq b a. Proof. unfold KEYeq; intuition. Qed.
Lemma ke_pick a b : KEYeq a b -> pick_interval a = pick_interval b /\ c_is_client a = c_is_client b.
Proof. unfold KEYeq, pick_interval. intros (H1 & H2 & H3 & H4). now rewrite H1, H2, H3, H4. Qed.

Definition RA (cl : bool) (ms : N) (c : conn) (r : res (conn * list event)) : Prop :=
  match r with
  | Ok (c', e) => KEYeq c' c /\ rearmed cl ms e = true
  | Panic _ => True
  end.

(* ---- helpers: key fields untouched, no send requested ---- *)
Lemma post_ra c : KEYeq (fst (send_post_process c)) c /\ existsb is_send (snd (send_post_process c)) = false /\
                  snd (send_post_process c) = (if c_is_client c && (0 <? pick_interval c) then [ETimerReset TPingreqSend (pick_interval c)] else []).
Proof.
  split; [|split; [|apply post_process_spec]].
  - unfold send_post_process. destruct (c_is_client c); [destruct (0 <? _)|]; apply ke_refl || (unfold KEYeq; conn_simpl; auto).
  - rewrite post_process_spec. destruct (_ && _); reflexivity.
Qed.
Lemma cancel_ra c : KEYeq (fst (cancel_timers c)) c /\ existsb is_send (snd (cancel_timers c)) = false.
Proof.
  split; [rewrite cancel_timers_state; unfold KEYeq; conn_simpl; auto|].
  unfold cancel_timers. destruct (c_t_send c); cbv beta iota zeta; conn_simpl.
  all: match goal with |- context [if ?b then _ else _] => destruct b end; cbv beta iota zeta; conn_simpl.
  all: match goal with |- context [if ?b then _ else _] => destruct b end; reflexivity.
Qed.
Lemma refresh_ra c : KEYeq (fst (refresh_pingreq_recv c)) c /\ existsb is_send (snd (refresh_pingreq_recv c)) = false.
Proof. unfold refresh_pingreq_recv. destruct (negb _); (split; [unfold KEYeq; conn_simpl; auto|reflexivity]). Qed.
Lemma validate_alias_ra c a : KEYeq (snd (validate_topic_alias c a)) c.
Proof.
  unfold validate_topic_alias. destruct a as [a|]; [|apply ke_refl]. destruct (negb _); [apply ke_refl|].
  destruct (c_ta_send c) as [s|]; [|apply ke_refl]. destruct (tas_get s a) as [[t|] s']; [unfold KEYeq; conn_simpl; auto|apply ke_refl].
Qed.
Lemma release_ra c id c' e : release_if_used c id = Ok (c', e) -> KEYeq c' c /\ existsb is_send e = false.
Proof.
  unfold release_if_used. destruct (is_used c id); [|intro H; inversion H; split; [apply ke_refl|reflexivity]].
  destruct (pm_release _ _); cbn [bindr]; [|discriminate]. intro H; inversion H; split; [unfold KEYeq; conn_simpl; auto|reflexivity].
Qed.
Lemma store_add_ra c p c' : store_add c p = Ok c' -> KEYeq c' c.
Proof. unfold store_add. destruct (store_has _ _); [discriminate|]. intro H; inversion H; unfold KEYeq; conn_simpl; auto. Qed.

(* the common tail: the send is followed by the re-arm of the state it is issued from *)
Lemma send_and_post_RA cl ms c0 c p rel pre :
  KEYeq c c0 -> cl = c_is_client c0 -> ms = pick_interval c0 -> rearmed cl ms pre = true ->
  RA cl ms c0 (send_and_post c p rel pre).
Proof.
  intros Hk Hcl Hms Hp. unfold send_and_post. pose proof (post_ra c) as (P1 & P2 & P3).
  destruct (send_post_process c) as [c' e]. cbn [fst snd RA] in *. split; [now apply (ke_trans _ c)|].
  apply rearmed_app; [exact Hp|]. destruct (ke_pick c c0 Hk) as [Ki Kc]. subst e cl ms. rewrite Kc, Ki.
  unfold rearmed. cbn [app existsb is_send]. destruct (c_is_client c0 && (0 <? pick_interval c0)) eqn:E; cbn [negb orb als existsb app is_send is_close is_rst].
  - rewrite N.eqb_refl. cbn [orb]. rewrite ?orb_true_r. reflexivity.
  - reflexivity.
Qed.

(* ---- automation ---- *)
Ltac ra_helper :=
  match goal with
  | |- context [send_post_process ?c] =>
      let H := fresh "Hpost" in pose proof (post_ra c) as H; destruct (send_post_process c) as [? ?]; cbn [fst snd] in H; destruct H as (? & ? & _)
  | |- context [cancel_timers ?c] =>
      let H := fresh "Hcan" in pose proof (cancel_ra c) as H; destruct (cancel_timers c) as [? ?]; cbn [fst snd] in H; destruct H as [? ?]
  | |- context [refresh_pingreq_recv ?c] =>
      let H := fresh "Href" in pose proof (refresh_ra c) as H; destruct (refresh_pingreq_recv c) as [? ?]; cbn [fst snd] in H; destruct H as [? ?]
  | |- context [validate_topic_alias ?c ?a] =>
      let H := fresh "Hval" in pose proof (validate_alias_ra c a) as H; destruct (validate_topic_alias c a) as [? ?]; cbn [snd] in H
  | |- context [release_if_used ?c ?id] =>
      let E := fresh "Erel" in destruct (release_if_used c id) as [[? ?]|] eqn:E; [apply release_ra in E; destruct E as [? ?]|]
  | |- context [store_add ?c ?p] =>
      let E := fresh "Esa" in destruct (store_add c p) as [?|] eqn:E; [apply store_add_ra in E|]
  end.

Lemma ke_eq a b : a = b -> KEYeq a b. Proof. intros ->. apply ke_refl. Qed.

(* KEYeq of a term built from setters that do not touch the key fields *)
Ltac ke_norm :=
  repeat match goal with
         | |- context [if ?b then _ else _] => destruct b eqn:?
         | |- context [match ?o with Some _ => _ | None => _ end] => destruct o eqn:?
         | H : KEYeq (if ?b then _ else _) _ |- _ => destruct b eqn:?
         | H : KEYeq _ (if ?b then _ else _) |- _ => destruct b eqn:?
         | H : KEYeq (match ?o with Some _ => _ | None => _ end) _ |- _ => destruct o eqn:?
         | H : KEYeq _ (match ?o with Some _ => _ | None => _ end) |- _ => destruct o eqn:?
         end.

Ltac ke_flat := unfold KEYeq in *; conn_simpl; repeat match goal with H : _ /\ _ |- _ => destruct H end; repeat split; congruence.

Ltac ra_events :=
  repeat (apply rearmed_app);
  first [ assumption
        | (apply nosend_rearmed; first [assumption | reflexivity])
        | (apply close_rearmed; reflexivity)
        | (apply close_rearmed; rewrite ?existsb_app; cbn [existsb is_close orb]; rewrite ?orb_true_r; reflexivity) ].

Ltac ra_leaf := cbn [RA]; ke_norm; (split; [ke_flat|ra_events]).

Ltac ra_step :=
  first
   [ progress cbn [bindr]
   | ra_helper
   | match goal with |- RA _ _ _ (Panic _) => exact I end
   | match goal with |- RA _ _ _ (if ?b then _ else _) => destruct b eqn:? end
   | match goal with |- RA _ _ _ (bindr (if ?b then _ else _) _) => destruct b eqn:? end
   | match goal with |- RA _ _ _ (bindr (bindr (if ?b then _ else _) _) _) => destruct b eqn:? end
   | match goal with |- RA _ _ _ (let '(_, _) := (_, _) in _) => cbv beta iota end
   | match goal with |- RA _ _ _ (let '(_, _) := (if ?b then _ else _) in _) => destruct b eqn:? end
   | match goal with |- RA _ _ _ (let '(_, _) := ?y in _) => destruct y as [? ?] eqn:? end
   | match goal with |- RA _ _ _ (match ?y with _ => _ end) => destruct y eqn:? end
   | match goal with |- RA _ _ _ (bindr (match ?y with _ => _ end) _) => destruct y eqn:? end
   | match goal with |- RA _ _ _ (bindr (bindr (match ?y with _ => _ end) _) _) => destruct y eqn:? end
   | match goal with |- RA _ _ _ (bindr (let '(_, _) := ?y in _) _) => destruct y as [? ?] eqn:? end
   | match goal with |- RA _ _ _ (bindr (bindr (let '(_, _) := ?y in _) _) _) => destruct y as [? ?] eqn:? end
   | match goal with |- RA _ _ _ (bindr ?r _) => destruct r as [?|] eqn:?; cbn [bindr] end ].

Ltac ra_send Hcl Hms :=
  match goal with
  | |- RA _ _ ?c0 (send_and_post ?c1 ?p ?rel ?pre) =>
      ke_norm; (apply send_and_post_RA; [ke_flat|exact Hcl|exact Hms|ra_events])
  end.

Ltac ra_final Hcl Hms :=
  match goal with
  | |- RA _ _ _ (Panic _) => exact I
  | |- RA _ _ _ (Ok _) => ra_leaf
  | |- RA _ _ _ (send_and_post _ _ _ _) => ra_send Hcl Hms
  end.

Ltac ra_auto Hcl Hms := repeat ra_step; ra_final Hcl Hms.

Section Sends.
Variables (cl : bool) (ms : N) (c : conn).
Hypothesis Hcl : cl = c_is_client c.
Hypothesis Hms : ms = pick_interval c.

Lemma send_plain_RA p : RA cl ms c (send_plain c p).
Proof. unfold send_plain. ra_auto Hcl Hms. Qed.
Lemma send_pubrel_RA p : RA cl ms c (send_pubrel c p).
Proof. unfold send_pubrel. ra_auto Hcl Hms. Qed.
Lemma send_sub_unsub_RA p : RA cl ms c (send_sub_unsub c p).
Proof. unfold send_sub_unsub. ra_auto Hcl Hms. Qed.
Lemma send_auth_RA p : RA cl ms c (send_auth c p).
Proof. unfold send_auth. ra_auto Hcl Hms. Qed.
Lemma send_puback_like_RA p : RA cl ms c (send_puback_like c p).
Proof. unfold send_puback_like. ra_auto Hcl Hms. Qed.
Lemma send_publish_v311_RA p : RA cl ms c (send_publish_v311 c p).
Proof. unfold send_publish_v311. ra_auto Hcl Hms. Qed.
Lemma send_disconnect_RA p : RA cl ms c (send_disconnect c p).
Proof. unfold send_disconnect. ra_auto Hcl Hms. Qed.
End Sends.

Lemma rearmed_post cl ms a :
  rearmed cl ms (a ++ (if cl && (0 <? ms) then [ETimerReset TPingreqSend ms] else [])) = true.
Proof.
  unfold rearmed. destruct (cl && (0 <? ms)) eqn:E; cbn [negb orb]; [|now rewrite !orb_true_r].
  rewrite !existsb_app. cbn [existsb is_send is_close orb]. rewrite !orb_false_r.
  destruct (als_app_nosend a [ETimerReset TPingreqSend ms] eq_refl) as [H|H].
  - rewrite H, existsb_app. cbn [existsb is_rst]. rewrite N.eqb_refl. now rewrite !orb_true_r.
  - now rewrite H.
Qed.

Section Sends2.
Variables (cl : bool) (ms : N) (c : conn).
Hypothesis Hcl : cl = c_is_client c.
Hypothesis Hms : ms = pick_interval c.

Lemma post_tail c1 : KEYeq c1 c ->
  snd (send_post_process c1) = (if cl && (0 <? ms) then [ETimerReset TPingreqSend ms] else []).
Proof. intro Hk. destruct (ke_pick c1 c Hk) as [Ki Kc]. rewrite (proj2 (proj2 (post_ra c1))), Ki, Kc, <- Hcl, <- Hms. reflexivity. Qed.

Lemma send_pingreq_RA p : RA cl ms c (send_pingreq c p).
Proof.
  unfold send_pingreq. destruct (_ && _); [ra_leaf|]. destruct (negb _); [ra_leaf|].
  set (c1 := if negb (c_pingresp_recv_to c =? 0) then set_t_resp c true else c).
  set (e1 := if negb (c_pingresp_recv_to c =? 0) then [ETimerReset TPingrespRecv (c_pingresp_recv_to c)] else []).
  assert (Hk1 : KEYeq c1 c) by (subst c1; destruct (negb _); unfold KEYeq; conn_simpl; auto).
  replace (if negb (c_pingresp_recv_to c =? 0) then (set_t_resp c true, [ETimerReset TPingrespRecv (c_pingresp_recv_to c)]) else (c, []))
    with (c1, e1) by (subst c1 e1; destruct (negb _); reflexivity).
  pose proof (post_tail c1 Hk1) as Ht. pose proof (post_ra c1) as (P1 & _ & _).
  destruct (send_post_process c1) as [c2 e2]. cbn [fst snd RA] in *. split; [now apply (ke_trans _ c1)|].
  subst e2. rewrite app_assoc. apply rearmed_post.
Qed.

Lemma send_stored_ke c1 c2 e : send_stored c1 = Ok (c2, e) -> KEYeq c2 c1.
Proof.
  unfold send_stored. destruct (send_stored_l _ _) as [kept dropped]. cbv zeta.
  match goal with |- bindr (release_all ?a ?ids) _ = _ -> _ => destruct (release_all a ids) as [a'|] end; cbn [bindr]; [|discriminate].
  destruct (c_send_max _); intro H; inversion H; unfold KEYeq; conn_simpl; auto.
Qed.

Lemma connack_send_props_ra c1 p :
  KEYeq (fst (connack_send_props c1 p)) c1 /\ existsb is_send (snd (connack_send_props c1 p)) = false.
Proof.
  unfold connack_send_props. destruct (_ && _); [|split; [apply ke_refl|reflexivity]].
  repeat match goal with |- context [match ?o with Some _ => _ | None => _ end] => destruct o
                    | |- context [if ?b then _ else _] => destruct b end; (split; [unfold KEYeq; conn_simpl; auto|reflexivity]).
Qed.

Lemma send_connack_RA p : RA cl ms c (send_connack c p).
Proof.
  unfold send_connack. destruct (_ && _); [ra_leaf|]. destruct (negb _); [ra_leaf|]. cbv zeta.
  pose proof (connack_send_props_ra c p) as [K1 N1]. destruct (connack_send_props c p) as [c1 pre]. cbn [fst snd] in *.
  destruct (negb _).
  - pose proof (cancel_ra (set_status c1 Disconnected)) as [K2 N2]. destruct (cancel_timers _) as [c2 e]. cbn [fst snd RA] in *.
    split; [ke_flat|]. apply close_rearmed. rewrite !existsb_app. cbn [existsb is_close orb]. now rewrite !orb_true_r.
  - destruct (send_stored (set_status c1 Connected)) as [[c2 es]|] eqn:Es; cbn [bindr]; [|exact I].
    apply send_stored_ke in Es.
    assert (Hk2 : KEYeq c2 c) by (apply (ke_trans _ (set_status c1 Connected)); [exact Es|ke_flat]).
    pose proof (post_tail c2 Hk2) as Ht. pose proof (post_ra c2) as (P1 & _ & _).
    destruct (send_post_process c2) as [c3 e3]. cbn [fst snd RA] in *. split; [now apply (ke_trans _ c2)|].
    subst e3. rewrite !app_assoc. apply rearmed_post.
Qed.

Lemma refuse_publish_RA id err pre : rearmed cl ms pre = true -> RA cl ms c (refuse_publish c id err pre).
Proof. intro Hp. unfold refuse_publish. ra_auto Hcl Hms. Qed.
End Sends2.

Ltac rh cl ms :=
  first
  [ progress cbn [bindr]
  | match goal with
    | |- RA _ _ _ (Panic _) => exact I
    | |- RA _ _ _ (let '(_, _) := send_post_process ?c in _) =>
        let H := fresh "Hpost" in pose proof (post_ra c) as H; destruct (send_post_process c) as [? ?]; cbn [fst snd] in H; destruct H as (? & ? & _)
    | |- RA _ _ _ (bindr (release_if_used ?c ?id) _) =>
        let E := fresh "Erel" in destruct (release_if_used c id) as [[? ?]|] eqn:E; [apply release_ra in E; destruct E as [? ?]|]
    | |- RA _ _ _ (bindr (bindr (release_if_used ?c ?id) _) _) =>
        let E := fresh "Erel" in destruct (release_if_used c id) as [[? ?]|] eqn:E; [apply release_ra in E; destruct E as [? ?]|]
    | |- RA _ _ _ (bindr (bindr (bindr (release_if_used ?c ?id) _) _) _) =>
        let E := fresh "Erel" in destruct (release_if_used c id) as [[? ?]|] eqn:E; [apply release_ra in E; destruct E as [? ?]|]
    | |- RA _ _ _ (bindr (bindr (store_add ?c ?p) _) _) =>
        let E := fresh "Esa" in destruct (store_add c p) as [?|] eqn:E; [apply store_add_ra in E|]
    | |- RA _ _ _ (bindr (bindr (bindr (store_add ?c ?p) _) _) _) =>
        let E := fresh "Esa" in destruct (store_add c p) as [?|] eqn:E; [apply store_add_ra in E|]
    | |- RA _ _ _ (bindr (bindr (let '(_, _) := validate_topic_alias ?c ?a in _) _) _) =>
        let H := fresh "Hval" in pose proof (validate_alias_ra c a) as H; destruct (validate_topic_alias c a) as [? ?]; cbn [snd] in H
    | |- RA _ _ _ (bindr (let '(_, _) := validate_topic_alias ?c ?a in _) _) =>
        let H := fresh "Hval" in pose proof (validate_alias_ra c a) as H; destruct (validate_topic_alias c a) as [? ?]; cbn [snd] in H
    | |- RA _ _ _ (refuse_publish ?c ?id ?err ?pre) =>
        unfold refuse_publish
    | |- RA _ _ _ (bindr (bindr (refuse_publish ?c ?id ?err ?pre) _) _) =>
        unfold refuse_publish
    | |- RA _ _ _ (bindr (refuse_publish ?c ?id ?err ?pre) _) =>
        unfold refuse_publish
    | |- RA _ _ _ (bindr (bindr (tas_insert ?s ?t ?a) _) _) => destruct (tas_insert s t a) as [?|]
    | |- RA _ _ _ (bindr (bindr (bindr (tas_insert ?s ?t ?a) _) _) _) => destruct (tas_insert s t a) as [?|]
    | |- RA _ _ _ (bindr (bindr (tas_lru ?s) _) _) => destruct (tas_lru s) as [?|]
    | |- RA _ _ _ (bindr (bindr (pm_release ?a ?i) _) _) => destruct (pm_release a i) as [?|]
    | |- RA _ _ _ (bindr (pm_release ?a ?i) _) => destruct (pm_release a i) as [?|]
    | |- RA _ _ _ (bindr (bindr (bindr (pm_release ?a ?i) _) _) _) => destruct (pm_release a i) as [?|]
    | |- RA _ _ _ (if ?b then _ else _) => destruct b eqn:?
    | |- RA _ _ _ (bindr (if ?b then _ else _) _) => destruct b eqn:?
    | |- RA _ _ _ (bindr (bindr (if ?b then _ else _) _) _) => destruct b eqn:?
    | |- RA _ _ _ (bindr (bindr (bindr (if ?b then _ else _) _) _) _) => destruct b eqn:?
    | |- RA _ _ _ (match ?y with _ => _ end) => destruct y eqn:?
    | |- RA _ _ _ (bindr (match ?y with _ => _ end) _) => destruct y eqn:?
    | |- RA _ _ _ (bindr (bindr (match ?y with _ => _ end) _) _) => destruct y eqn:?
    | |- RA _ _ _ (bindr (bindr (bindr (match ?y with _ => _ end) _) _) _) => destruct y eqn:?
    | |- RA _ _ _ (let '(_, _) := (_, _) in _) => cbv beta iota
    end ].

Lemma send_publish_v5_RA cl ms g c p : cl = c_is_client c -> ms = pick_interval c -> RA cl ms c (send_publish_v5 g c p).
Proof.
  intros Hcl Hms. unfold send_publish_v5. cbv zeta.
  repeat rh cl ms. all: ra_final Hcl Hms.
Qed.

(* ---------- post-state form, for the calls that change the key fields ---------- *)
Definition RAP (r : res (conn * list event)) : Prop :=
  match r with Ok (c', e) => rearmed (c_is_client c') (pick_interval c') e = true | Panic _ => True end.
Lemma RA_RAP c r : RA (c_is_client c) (pick_interval c) c r -> RAP r.
Proof.
  destruct r as [[c' e]|]; cbn [RA RAP]; [|trivial]. intros [Hk Hr]. destruct (ke_pick c' c Hk) as [Ki Kc]. now rewrite Ki, Kc.
Qed.

Lemma send_connect_RAP c p : RAP (send_connect c p).
Proof.
  unfold send_connect. destruct (_ && _); [reflexivity|]. destruct (negb _); [reflexivity|]. cbv zeta.
  match goal with |- RAP (send_and_post ?c9 _ _ _) => apply (RA_RAP c9); apply send_and_post_RA; [apply ke_refl|reflexivity|reflexivity|reflexivity] end.
Qed.

Lemma dispatch_send_RAP g c p : RAP (dispatch_send g c p).
Proof.
  unfold dispatch_send. cbv zeta.
  destruct (k_type p =? T_CONNECT); [apply send_connect_RAP|].
  apply (RA_RAP c).
  destruct (k_type p =? T_CONNACK); [now apply send_connack_RA|].
  destruct (k_type p =? T_PUBLISH); [destruct (version_eqb _ _); [now apply send_publish_v5_RA|now apply send_publish_v311_RA]|].
  destruct ((k_type p =? T_PUBACK) || (k_type p =? T_PUBREC) || (k_type p =? T_PUBCOMP)); [now apply send_puback_like_RA|].
  destruct (k_type p =? T_PUBREL); [now apply send_pubrel_RA|].
  destruct ((k_type p =? T_SUBSCRIBE) || (k_type p =? T_UNSUBSCRIBE)); [now apply send_sub_unsub_RA|].
  destruct ((k_type p =? T_SUBACK) || (k_type p =? T_UNSUBACK) || (k_type p =? T_PINGRESP)); [now apply send_plain_RA|].
  destruct (k_type p =? T_PINGREQ); [now apply send_pingreq_RA|].
  destruct (k_type p =? T_DISCONNECT); [now apply send_disconnect_RA|].
  destruct (k_type p =? T_AUTH); [now apply send_auth_RA|]. cbn [RA]. split; [apply ke_refl|reflexivity].
Qed.

Lemma do_send_RAP g c p : RAP (do_send g c p).
Proof.
  unfold do_send. cbv zeta.
  repeat match goal with |- RAP (if ?b then _ else _) => destruct b end;
    first [ apply dispatch_send_RAP | reflexivity ].
Qed.

Section Recv.
Variables (cl : bool) (ms : N) (c : conn).
Hypothesis Hcl : cl = c_is_client c.
Hypothesis Hms : ms = pick_interval c.

Lemma close_with_disconnect_RA p : RA cl ms c (close_with_disconnect c p).
Proof. unfold close_with_disconnect. destruct (_ && _); [ra_auto Hcl Hms|now apply send_disconnect_RA]. Qed.
Lemma handle_v5_error_RA e : RA cl ms c (handle_v5_error c e).
Proof.
  unfold handle_v5_error. pose proof (close_with_disconnect_RA (disconnect_v5 (disc_rc_of_err e))) as H.
  destruct (close_with_disconnect _ _) as [[c' ev]|]; cbn [bindr RA] in *; [|exact I].
  destruct H as [H1 H2]. split; [exact H1|]. apply rearmed_app; [exact H2|reflexivity].
Qed.
Lemma handle_error_RA v e : RA cl ms c (handle_error c v e).
Proof. unfold handle_error. destruct (version_eqb v V50); [apply handle_v5_error_RA|cbn [RA]; split; [apply ke_refl|reflexivity]]. Qed.
End Recv.

