(* C01 / C08, model side: AT QUIESCENCE EVERY PACKET IDENTIFIER HAS BEEN RELEASED ON BOTH SIDES — the two-way v3.1.1 system of
   PairBi.v.  [U] of PairConcIds.v in both one-way views: an action is an action of one view, where PairConcIds applies, and in
   the other view it changes neither the acting endpoint's allocator (a receiver's step keeps F8; a sender's step of the
   other direction is not involved) nor that view's packets in flight. *)
From Coq Require Import Permutation.
From MQ Require Import Base.Prelude Alloc.Alloc Alloc.SetSpec Alloc.AllocProofs Framing.Framing
                       Conn.Types Conn.TopicAlias Conn.ConnRecord Conn.Step Conn.Run Corr.ConnTrace Conn.Scope Conn.IdsQuota Conn.WfInv
                       Conn.Own Conn.OwnFrame Conn.OwnStep Conn.Qos2Dup Conn.TasBounds Conn.NoPanic
                       Conn.PairQos Conn.PairSeq Conn.PairConc Conn.PairBi Conn.PairConcIds.

Lemma U_frame c c' r r' qs qr pu de pu' de' :
  (forall y, is_used c' y = is_used c y) -> U (mkSys c r qs qr pu de) -> U (mkSys c' r' qs qr pu' de').
Proof. intros H HU y Hy. cbn [cs qsr qrs] in *. rewrite H in Hy. exact (HU y Hy). Qed.
Lemma f8_used c1 c : F8 c1 c -> forall y, is_used c1 y = is_used c y.
Proof. intros (F1 & _) y. unfold is_used. now rewrite F1. Qed.

Section BiIds.
Variables gA gB : cfg.

Definition U2 (s : bi) : Prop := U (vAB s) /\ U (vBA s).

(* one delivery: both views *)
Lemma deliver_U gX gY (X Y : conn) qyx pubX delY pubY delX x t :
  inv gX gY (mkSys X Y (sr_part (x :: t)) (rs_part qyx) pubX delY) ->
  inv gY gX (mkSys Y X (sr_part qyx) (rs_part (x :: t)) pubY delX) ->
  U (mkSys X Y (sr_part (x :: t)) (rs_part qyx) pubX delY) ->
  U (mkSys Y X (sr_part qyx) (rs_part (x :: t)) pubY delX) ->
  match deliver_to gY Y x with
  | DNext Y' out d => U (mkSys X Y' (sr_part t) (rs_part (qyx ++ out)) pubX (delY ++ d)) /\
                      U (mkSys Y' X (sr_part (qyx ++ out)) (rs_part t) pubY delX)
  | DBad => True
  end.
Proof.
  intros H1 H2 U1 U2'. unfold deliver_to. destruct (is_sr x) eqn:Es.
  - assert (E1 : sr_part (x :: t) = x :: sr_part t) by (unfold sr_part; cbn [filter]; now rewrite Es).
    assert (E2 : rs_part (x :: t) = rs_part t) by (unfold rs_part; cbn [filter]; now rewrite Es).
    rewrite E1 in *. rewrite E2 in *.
    pose proof (to_r_U gX gY _ H1 U1) as T. pose proof (to_r_ok gX gY _ H1) as T'. unfold do_to_r in T, T'. cbn [cs cr qsr qrs published delivered] in T, T'.
    pose proof H1 as (_ & _ & _ & RY & AY & _ & Fsr & _). cbn [cs cr qsr qrs published delivered] in RY, AY, Fsr.
    pose proof (Forall_inv Fsr) as Hfx. destruct (fl_sr_is_sr gX X x Hfx) as (_ & _ & Hk).
    pose proof (receiver_f8 gY Y x RY AY Hk) as HF.
    destruct (deliver gY Y x) as [[Y1 e]|]; [|exact I]. destruct (one (sends e)) as [a|]; [|exact I]. destruct (negb (none (errors e))); [exact I|].
    pose proof T' as (_ & _ & _ & _ & _ & _ & _ & Frs' & _). cbn [cs cr qsr qrs published delivered] in Frs'.
    apply Forall_app in Frs' as [_ Fa]. pose proof (Forall_inv Fa) as Hfa. destruct (fl_rs_not_sr gY X a Hfa) as (Ea & _).
    destruct (part_rs a Ea) as [P1 P2]. rewrite rs_app, sr_app, P1, P2, app_nil_r.
    split; [exact T|]. exact (U_frame Y Y1 X X _ _ _ _ _ _ (f8_used Y1 Y HF) U2').
  - assert (E1 : sr_part (x :: t) = sr_part t) by (unfold sr_part; cbn [filter]; now rewrite Es).
    assert (E2 : rs_part (x :: t) = x :: rs_part t) by (unfold rs_part; cbn [filter]; now rewrite Es).
    rewrite E1 in *. rewrite E2 in *.
    pose proof (to_s_U gY gX _ H2 U2') as T. pose proof (to_s_ok gY gX _ H2) as T'. unfold do_to_s in T, T'. cbn [cs cr qsr qrs published delivered] in T, T'.
    destruct (deliver gY Y x) as [[Y1 e]|]; [|exact I]. destruct (negb (none (errors e))); [exact I|].
    destruct (sends e) as [|r [|r2 l2]]; [| |exact I].
    + destruct (released e) as [|i [|i2 l2]]; [exact I| |exact I]. destruct (i =? k_pid x); [|exact I].
      rewrite !app_nil_r. split; [|exact T]. exact (U_frame X X Y Y1 _ _ _ _ _ _ (fun y => eq_refl) U1).
    + destruct (none (released e)); [|exact I].
      pose proof T' as (_ & _ & _ & _ & _ & _ & Fsr' & _). cbn [cs cr qsr qrs published delivered] in Fsr'.
      apply Forall_app in Fsr' as [_ Fr]. pose proof (Forall_inv Fr) as Hfr. destruct (fl_sr_is_sr gY Y1 r Hfr) as (Er & _).
      destruct (part_sr r Er) as [P1 P2]. rewrite rs_app, sr_app, P1, P2, !app_nil_r.
      split; [|exact T]. exact (U_frame X X Y Y1 _ _ _ _ _ _ (fun y => eq_refl) U1).
Qed.

(* one publication: both views *)
Lemma publish_U gX gY (X Y : conn) qxy qyx pubX delY pubY delX p q : v311_pub p q -> q = 1 \/ q = 2 ->
  inv gX gY (mkSys X Y (sr_part qxy) (rs_part qyx) pubX delY) ->
  U (mkSys X Y (sr_part qxy) (rs_part qyx) pubX delY) ->
  U (mkSys Y X (sr_part qyx) (rs_part qxy) pubY delX) ->
  match publish_at gX X p with
  | PNext X' p1 => U (mkSys X' Y (sr_part (qxy ++ [p1])) (rs_part qyx) (pubX ++ [p]) delY) /\
                   U (mkSys Y X' (sr_part qyx) (rs_part (qxy ++ [p1])) pubY delX)
  | _ => True
  end.
Proof.
  intros Hp Hq H1 U1 U2'. pose proof (pub_U gX gY _ p q H1 Hp Hq U1) as T. pose proof (pub_ok gX gY _ p q H1 Hp Hq) as T'.
  unfold do_pub in T, T'. cbn [cs cr qsr qrs published delivered] in T, T'. cbv zeta in T, T'.
  unfold publish_at. cbv zeta.
  destruct (negb _) eqn:Epre; [exact I|]. apply negb_false_iff in Epre.
  apply andb_true_iff in Epre as [Epre E4]. apply andb_true_iff in Epre as [Epre E3]. apply andb_true_iff in Epre as [E1 E2].
  apply N.leb_le in E1, E2. apply negb_true_iff in E3.
  pose proof H1 as (OX & _). cbn [cs] in OX.
  destruct (register_ae gX X (k_pid p) OX (conj E1 E2) E3) as (a & Ereg & _). rewrite Ereg in *.
  set (X0 := set_pid X a) in *.
  destruct (step gX X0 (OSend p)) as [[[X1 e1] r1]|]; [|exact I].
  destruct (one (sends e1)) as [p1|]; [|exact I]. destruct (negb _); [exact I|].
  pose proof T' as (_ & _ & _ & _ & _ & _ & Fsr' & _). cbn [cs cr qsr qrs published delivered] in Fsr'.
  apply Forall_app in Fsr' as [_ Fp]. pose proof (Forall_inv Fp) as Hfp. destruct (fl_sr_is_sr gX X1 p1 Hfp) as (Ep & _).
  destruct (part_sr p1 Ep) as [P1 P2]. rewrite rs_app, sr_app, P1, P2, app_nil_r.
  split; [exact T|]. exact (U_frame Y Y X X1 _ _ _ _ _ _ (fun y => eq_refl) U2').
Qed.

Lemma toB_U s : inv2 gA gB s -> U2 s -> match do_toB gB s with Next2 s' => U2 s' | _ => True end.
Proof.
  destruct s as [a b qab0 qba0 pa db pb da]. unfold inv2, U2, do_toB, vAB, vBA. cbn [ea eb qab qba pubA delB pubB delA].
  intros [H1 H2] [V1 V2]. destruct qab0 as [|x t]; [exact I|].
  pose proof (deliver_U gA gB a b qba0 pa db pb da x t H1 H2 V1 V2) as H.
  destruct (deliver_to gB b x) as [b' out d|]; [|exact I]. cbn [ea eb qab qba pubA delB pubB delA]. exact H.
Qed.
Lemma toA_U s : inv2 gA gB s -> U2 s -> match do_toA gA s with Next2 s' => U2 s' | _ => True end.
Proof.
  destruct s as [a b qab0 qba0 pa db pb da]. unfold inv2, U2, do_toA, vAB, vBA. cbn [ea eb qab qba pubA delB pubB delA].
  intros [H1 H2] [V1 V2]. destruct qba0 as [|x t]; [exact I|].
  pose proof (deliver_U gB gA b a qab0 pb da pa db x t H2 H1 V2 V1) as H.
  destruct (deliver_to gA a x) as [a' out d|]; [|exact I]. cbn [ea eb qab qba pubA delB pubB delA]. destruct H as [K1 K2]. split; assumption.
Qed.
Lemma pubA_U s p q : v311_pub p q -> q = 1 \/ q = 2 -> inv2 gA gB s -> U2 s -> match do_pubA gA s p with Next2 s' => U2 s' | _ => True end.
Proof.
  destruct s as [a b qab0 qba0 pa db pb da]. unfold inv2, U2, do_pubA, vAB, vBA. cbn [ea eb qab qba pubA delB pubB delA].
  intros Hp Hq [H1 H2] [V1 V2]. pose proof (publish_U gA gB a b qab0 qba0 pa db pb da p q Hp Hq H1 V1 V2) as H.
  destruct (publish_at gA a p) as [a' p1| |]; [|exact I|exact I]. cbn [ea eb qab qba pubA delB pubB delA]. exact H.
Qed.
Lemma pubB_U s p q : v311_pub p q -> q = 1 \/ q = 2 -> inv2 gA gB s -> U2 s -> match do_pubB gB s p with Next2 s' => U2 s' | _ => True end.
Proof.
  destruct s as [a b qab0 qba0 pa db pb da]. unfold inv2, U2, do_pubB, vAB, vBA. cbn [ea eb qab qba pubA delB pubB delA].
  intros Hp Hq [H1 H2] [V1 V2]. pose proof (publish_U gB gA b a qba0 qab0 pb da pa db p q Hp Hq H2 V2 V1) as H.
  destruct (publish_at gB b p) as [b' p1| |]; [|exact I|exact I]. cbn [ea eb qab qba pubA delB pubB delA]. destruct H as [K1 K2]. split; assumption.
Qed.

Lemma act2_U s a : inv2 gA gB s -> good_act2 a -> U2 s -> match do_act2 gA gB s a with Next2 s' => U2 s' | _ => True end.
Proof.
  intros Hi Hg HU. destruct a as [p|p| |]; cbn [do_act2 good_act2] in *.
  - destruct Hg as [Hg|Hg]; [apply (pubA_U s p 1 Hg); [now left|exact Hi|exact HU]|apply (pubA_U s p 2 Hg); [now right|exact Hi|exact HU]].
  - destruct Hg as [Hg|Hg]; [apply (pubB_U s p 1 Hg); [now left|exact Hi|exact HU]|apply (pubB_U s p 2 Hg); [now right|exact Hi|exact HU]].
  - exact (toB_U s Hi HU).
  - exact (toA_U s Hi HU).
Qed.

Theorem sched2_U : forall l s, inv2 gA gB s -> U2 s -> Forall good_act2 l ->
  match run_sched2 gA gB s l with Some s' => U2 s' | None => True end.
Proof.
  induction l as [|a t IH]; intros s Hi HU Hf; cbn [run_sched2]; [exact HU|].
  pose proof (Forall_inv Hf) as Ha. pose proof (Forall_inv_tail Hf) as Ht.
  pose proof (act2_ok gA gB s a Hi Ha) as Hok. pose proof (act2_U s a Hi Ha HU) as HU'.
  destruct (do_act2 gA gB s a) as [s'| |]; [exact (IH s' Hok HU' Ht)|exact (IH s Hi HU Ht)|exact I].
Qed.

Lemma drain2_good n : Forall good_act2 (drain2 n).
Proof. induction n as [|k IH]; cbn [drain2]; [constructor|]. repeat constructor; assumption || exact I. Qed.

(* AT QUIESCENCE, both directions: each application has been notified of exactly what the other published and NO identifier is
   in use on either side *)
Theorem two_way_all_identifiers_released l s : inv2 gA gB s -> U2 s -> Forall good_act2 l ->
  exists s1 s2, run_sched2 gA gB s l = Some s1 /\ run_sched2 gA gB s1 (drain2 (measure2 s1)) = Some s2 /\
                qab s2 = [] /\ qba s2 = [] /\ delB s2 = pubA s1 /\ delA s2 = pubB s1 /\
                (forall y, is_used (ea s2) y = false) /\ (forall y, is_used (eb s2) y = false).
Proof.
  intros Hi HU Hf. destruct (two_way_exactly_once gA gB l s Hi Hf) as (s1 & s2 & R1 & R2 & Q1 & Q2 & D1 & D2).
  exists s1, s2. split; [exact R1|]. split; [exact R2|]. split; [exact Q1|]. split; [exact Q2|]. split; [exact D1|]. split; [exact D2|].
  pose proof (sched2_U l s Hi HU Hf) as U1. rewrite R1 in U1.
  destruct (sched2_ok gA gB l s Hi Hf) as (s1' & R1' & I1). assert (s1' = s1) by congruence. subst s1'.
  pose proof (sched2_U (drain2 (measure2 s1)) s1 I1 U1 (drain2_good _)) as V. rewrite R2 in V. destruct V as [V1 V2].
  unfold U, vAB, vBA in V1, V2. cbn [cs qsr qrs] in V1, V2. rewrite Q1, Q2 in V1, V2. cbn in V1, V2.
  split; intro y; [destruct (is_used (ea s2) y) eqn:E; [exfalso; exact (V1 y E)|reflexivity]|destruct (is_used (eb s2) y) eqn:E; [exfalso; exact (V2 y E)|reflexivity]].
Qed.
End BiIds.
