(* C01 / C12, model side: the v5.0 handshake also establishes the SEQUENTIAL pair invariants — with automatic responses
   (PairSeq5.pair_inv5) and with manual responses (PairManualSeq5.pair_inv5_m) — so that, from freshly constructed objects,
   any sequence of exchanges is delivered exactly once in order, with the applications sending every acknowledgement
   themselves when automatic responses are off. *)
From MQ Require Import Base.Prelude Alloc.Alloc Alloc.SetSpec Alloc.AllocProofs Framing.Framing
                       Conn.Types Conn.TopicAlias Conn.ConnRecord Conn.Step Conn.Run Corr.ConnTrace Conn.Scope Conn.IdsQuota Conn.WfInv
                       Conn.Own Conn.OwnFrame Conn.OwnStep Conn.Qos2Dup Conn.TasBounds Conn.NoPanic
                       Conn.PairQos Conn.PairQos5 Conn.PairSeq Conn.PairSeq5 Conn.PairConc Conn.PairConc5 Conn.PairBi Conn.PairBi5
                       Conn.PairHandshake5 Conn.PairManual Conn.PairManual5 Conn.PairManualSeq Conn.PairManualSeq5.

Lemma handshake5_states gA gB A0 B0 cn ca :
  OWN gA A0 -> OWN gB B0 -> c_version A0 = V50 -> c_version B0 = V50 -> c_status A0 = Disconnected -> c_status B0 = Disconnected ->
  role_client_ok gA = true -> role_server_ok gB = true ->
  k_type cn = T_CONNECT -> k_ver cn = V50 -> k_flag cn = true -> k_tam cn = None -> size_ok A0 cn = true ->
  k_type ca = T_CONNACK -> k_ver ca = V50 -> k_rc ca = 0 -> k_flag ca = false -> k_tam ca = None -> k_rm ca <> Some 0 -> k_mps ca <> Some 0 ->
  k_size ca <= limit_after (k_mps cn) (c_mps_send B0) ->
  exists A1 e1 B1 e2 B2 e3 A2 e4,
    step gA A0 (OSend cn) = Ok (A1, e1, []) /\ sends e1 = [cn] /\ errors e1 = [] /\
    deliver gB B0 cn = Ok (B1, e2) /\ notifies e2 = [cn] /\ errors e2 = [] /\
    step gB B1 (OSend ca) = Ok (B2, e3, []) /\ sends e3 = [ca] /\ errors e3 = [] /\
    deliver gA A1 ca = Ok (A2, e4) /\ notifies e4 = [ca] /\ errors e4 = [] /\
    OWN gA A2 /\ HV A2 Connected (limit_after (k_mps ca) (c_mps_send A0)) (k_rm ca) (k_rm cn) /\ c_auto_pub A2 = c_auto_pub A0 /\
    OWN gB B2 /\ HV B2 Connected (limit_after (k_mps cn) (c_mps_send B0)) (k_rm cn) (k_rm ca) /\ c_auto_pub B2 = c_auto_pub B0.
Proof.
  intros OA OB VA VB SA SB RA RB T1 V1 F1 M1 Z1 T2 V2 C2 F2 M2 R2 Q2 Z2.
  destruct (client_sends_connect5 A0 cn VA SA V1 F1 M1 Z1) as (A1 & e1 & E1 & S1 & X1 & H1 & P1).
  pose proof (send_connect_OR gA A0 cn OA) as O1. rewrite E1 in O1. destruct O1 as [OA1 _].
  destruct (server_receives_connect5 gB B0 cn VB SB F1 M1) as (B1 & e2 & E2 & N2 & X2 & S2 & H2 & P2).
  pose proof (recv_connect_OR gB B0 V50 (PROk cn) OB) as O2. rewrite E2 in O2. destruct O2 as [OB1 _].
  assert (Z2' : size_ok B1 ca = true).
  { unfold size_ok. destruct H2 as (_ & _ & _ & Hm & _). rewrite Hm. apply N.leb_le. exact Z2. }
  destruct (server_sends_connack5 B1 ca _ _ H2 V2 C2 M2 Z2') as (B2 & e3 & E3 & S3 & X3 & H3 & P3).
  pose proof (send_connack_OR gB B1 ca OB1) as O3. rewrite E3 in O3. destruct O3 as [OB2 _].
  destruct (client_receives_connack5 A1 ca _ _ H1 C2 M2 F2 R2 Q2) as (A2 & e4 & E4 & N4 & X4 & S4 & H4 & P4).
  pose proof (recv_connack_OR gA A1 V50 (PROk ca) OA1) as O4. rewrite E4 in O4. destruct O4 as [OA2 _].
  pose proof H1 as (a1 & _). pose proof H2 as (b1 & _).
  exists A1, e1, B1, e2, B2, e3, A2, e4.
  split; [rewrite (step_send_connect gA A0 cn ltac:(congruence) T1 RA), E1; reflexivity|]. split; [exact S1|]. split; [exact X1|].
  split; [unfold deliver, dispatch_recv; rewrite T1, VB; exact E2|]. split; [exact N2|]. split; [exact X2|].
  split; [rewrite (step_send_connack gB B1 ca ltac:(congruence) T2 RB), E3; reflexivity|]. split; [exact S3|]. split; [exact X3|].
  split; [unfold deliver, dispatch_recv; rewrite T2, a1; exact E4|]. split; [exact N4|]. split; [exact X4|].
  split; [exact OA2|]. split; [exact H4|]. split; [congruence|]. split; [exact OB2|]. split; [exact H3|congruence].
Qed.

(* FROM FRESH OBJECTS, MANUAL RESPONSES (the default of a new object): any v5.0 handshake of that shape with non-zero Receive
   Maxima, then any sequence of QoS 1 / QoS 2 messages from the client with the two applications sending every
   acknowledgement: never Fail, notified = sent in order, the vacancy back at the maximum *)
Theorem fresh_v5_manual_sequence gA gB cn ca ps :
  1 <= g_idmax gA -> 1 <= g_idmax gB -> role_client_ok gA = true -> role_server_ok gB = true ->
  k_type cn = T_CONNECT -> k_ver cn = V50 -> k_flag cn = true -> k_tam cn = None -> k_size cn <= MQTT_PACKET_SIZE_NO_LIMIT ->
  k_type ca = T_CONNACK -> k_ver ca = V50 -> k_rc ca = 0 -> k_flag ca = false -> k_tam ca = None -> k_rm ca <> Some 0 -> k_mps ca <> Some 0 ->
  k_size ca <= limit_after (k_mps cn) MQTT_PACKET_SIZE_NO_LIMIT ->
  2 + g_idw gA <= limit_after (k_mps ca) MQTT_PACKET_SIZE_NO_LIMIT -> 2 + g_idw gB <= limit_after (k_mps cn) MQTT_PACKET_SIZE_NO_LIMIT ->
  Forall (fun p => v5_pub p 1 \/ v5_pub p 2) ps ->
  exists A1 e1 B1 e2 B2 e3 A2 e4,
    step gA (conn_new gA V50) (OSend cn) = Ok (A1, e1, []) /\ deliver gB (conn_new gB V50) cn = Ok (B1, e2) /\
    step gB B1 (OSend ca) = Ok (B2, e3, []) /\ deliver gA A1 ca = Ok (A2, e4) /\
    errors e1 = [] /\ errors e2 = [] /\ errors e3 = [] /\ errors e4 = [] /\
    match run_seq5_m gA gB A2 B2 ps with
    | Done A' B' d => d = ps /\ vacancy A' = c_send_max A' /\ c_publish_recv B' = []
    | AppPre => True
    | Fail => False
    end.
Proof.
  intros IA IB RA RB T1 V1 F1 M1 Z1 T2 V2 C2 F2 M2 R2 Q2 Z2 FA FB Hps.
  pose proof (conn_new_OWN gA V50 IA) as OA. pose proof (conn_new_OWN gB V50 IB) as OB.
  assert (Z1' : size_ok (conn_new gA V50) cn = true) by (unfold size_ok; apply N.leb_le; exact Z1).
  destruct (handshake5_states gA gB _ _ cn ca OA OB eq_refl eq_refl eq_refl eq_refl RA RB T1 V1 F1 M1 Z1' T2 V2 C2 F2 M2 R2 Q2 Z2)
    as (A1 & e1 & B1 & e2 & B2 & e3 & A2 & e4 & E1 & _ & X1 & E2 & _ & X2 & E3 & _ & X3 & E4 & _ & X4 & OA2 & HA & PA & OB2 & HB & PB).
  exists A1, e1, B1, e2, B2, e3, A2, e4. repeat (split; [assumption|]).
  destruct HA as (d1 & d2 & d3 & d4 & d5 & d6 & d7 & d8 & d9 & d10). destruct HB as (c1 & c2 & c3 & c4 & c5 & c6 & c7 & c8 & c9 & c10).
  assert (Hinv : pair_inv5_m gA gB A2 B2).
  { split; [exact OA2|]. split; [split; [exact d1|rewrite d2; reflexivity]|]. split; [rewrite PA; reflexivity|]. split; [exact d3|].
    split; [unfold ack_fits; rewrite d4; exact FA|]. split; [exact d5|]. split; [rewrite d8; exact R2|].
    split; [split; [exact c1|rewrite c2; reflexivity]|]. split; [rewrite PB; reflexivity|]. split; [unfold ack_fits; rewrite c4; exact FB|].
    split; [exact c7|]. split; [rewrite c9; exact R2|]. rewrite c6. exact I. }
  pose proof (run_seq5_m_ok gA gB ps A2 B2 Hinv Hps) as H. pose proof (manual_vacancy_returns gA gB ps A2 B2 Hinv Hps) as W.
  destruct (run_seq5_m gA gB A2 B2 ps) as [A' B' d| |]; [|exact I|exact H]. destruct H as [Hd _]. destruct W as [W1 W2].
  split; [exact Hd|]. split; assumption.
Qed.
