(* Layer D — model of src/mqtt/connection/core.rs (GenericConnection), function by function.
   Definitions only.  `res` = the call returns / panics; panics are at the Rust's unwrap/assert sites. *)
From MQ Require Import Base.Prelude Alloc.Alloc Alloc.SetSpec Framing.Framing
                       Conn.Types Conn.TopicAlias Conn.ConnRecord.

Definition P_STORE_ADD : N := 10.      (* store.add(..).unwrap() on a duplicate id *)
Definition P_BUILD : N := 11.          (* builder .build().unwrap() *)
Definition P_UNDETERMINED : N := 12.   (* unreachable!("Protocol version should be set ...") *)
Definition P_SIZE_ASSERT : N := 13.    (* assert!(val != 0) on a received property *)

Definition conn_new (g : cfg) (v : version) : conn :=
  mkConn v (pm_new (g_idmax g)) [] [] [] [] [] false [] false false false false false None None
         None None 0 [] MQTT_PACKET_SIZE_NO_LIMIT MQTT_PACKET_SIZE_NO_LIMIT Disconnected
         None 0 None 0 0 [] false false false pb_init false.

Notation evs := (list event).
Notation R := (res (conn * evs)).

(* ---- small helpers ---- *)
Definition mem := s_mem.
Definition ins := s_insert.
Definition del := s_remove.

Definition is_used (c : conn) (id : N) : bool := pm_is_used (c_pid c) id.

(* `if pid_man.is_used_id(id) { release_id(id); push(NotifyPacketIdReleased) }` *)
Definition release_if_used (c : conn) (id : N) : R :=
  if is_used c id then bindr (pm_release (c_pid c) id) (fun a => Ok (set_pid c a, [EReleased id]))
  else Ok (c, []).

Definition store_has (id : N) (l : list pkt) : bool := existsb (fun p => k_pid p =? id) l.
Definition store_add (c : conn) (p : pkt) : res conn :=
  if store_has (k_pid p) (c_store c) then Panic P_STORE_ADD else Ok (set_store c (c_store c ++ [p])).
(* GenericStore::add without unwrap (restore_packets logs the error) *)
Definition store_add_soft (c : conn) (p : pkt) : conn :=
  if store_has (k_pid p) (c_store c) then c else set_store c (c_store c ++ [p]).

(* what a stored entry waits for: (version, response type) *)
Definition response_of (p : pkt) : N :=
  if k_type p =? T_PUBLISH then (if k_qos p =? 1 then T_PUBACK else T_PUBREC) else T_PUBCOMP.

Fixpoint store_erase_l (v : version) (resp id : N) (l : list pkt) : list pkt :=
  match l with
  | [] => []
  | p :: t => if k_pid p =? id
              then (if version_eqb (k_ver p) v && (response_of p =? resp) then t else l)
              else p :: store_erase_l v resp id t
  end.
Definition store_erase (c : conn) (v : version) (resp id : N) : conn :=
  set_store c (store_erase_l v resp id (c_store c)).

Fixpoint store_erase_publish_l (id : N) (l : list pkt) : bool * list pkt :=
  match l with
  | [] => (false, [])
  | p :: t => if k_pid p =? id
              then (if k_type p =? T_PUBLISH then (true, t) else (false, l))
              else let '(b, t') := store_erase_publish_l id t in (b, p :: t')
  end.

(* send_post_process *)
Definition send_post_process (c : conn) : conn * evs :=
  if c_is_client c then
    let ms := match c_user_ping c with
              | Some t => t
              | None => match c_server_ka_ms c with Some t => t | None => c_keep_alive_ms c end
              end in
    if 0 <? ms then (set_t_send c true, [ETimerReset TPingreqSend ms]) else (c, [])
  else (c, []).

Definition cancel_timers (c : conn) : conn * evs :=
  let '(c1, e1) := if c_t_send c then (set_t_send c false, [ETimerCancel TPingreqSend]) else (c, []) in
  let '(c2, e2) := if c_t_recv c1 then (set_t_recv c1 false, [ETimerCancel TPingreqRecv]) else (c1, []) in
  let '(c3, e3) := if c_t_resp c2 then (set_t_resp c2 false, [ETimerCancel TPingrespRecv]) else (c2, []) in
  (c3, e1 ++ e2 ++ e3).

Definition refresh_pingreq_recv (c : conn) : conn * evs :=
  if negb (c_pingreq_recv_to c =? 0)
  then (set_t_recv c true, [ETimerReset TPingreqRecv (c_pingreq_recv_to c)])
  else (c, []).

Definition size_ok (c : conn) (p : pkt) : bool := k_size p <=? c_mps_send c.

Definition initialize (c : conn) (is_client : bool) : conn :=
  let c := set_send_max c None in
  let c := set_recv_max c None in
  let c := set_send_count c 0 in
  let c := set_ta_send c None in
  let c := set_ta_recv c None in
  let c := set_publish_recv c [] in
  let c := set_need_store c false in
  let c := set_suback c [] in
  let c := set_unsuback c [] in
  let c := set_is_client c is_client in
  let c := set_keep_alive_ms c 0 in
  let c := set_server_ka_ms c None in
  set_pingreq_recv_to c 0.

Definition clear_store_related (c : conn) : conn :=
  let c := set_pid c (pm_clear (c_pid c)) in
  let c := set_puback c [] in
  let c := set_pubrec c [] in
  let c := set_pubcomp c [] in
  let c := set_store c [] in
  let c := set_qos2 c [] in
  set_send_count c 0.        (* F-26: no outbound exchange survives the reset of the session *)

(* send_stored: oversize entries are dropped (id released, forgotten by the three sets); the rest
   are requested for sending again in store order; the count is set from what is resent *)
Fixpoint send_stored_l (mps : N) (l : list pkt) : list pkt * list pkt :=   (* (kept, dropped) *)
  match l with
  | [] => ([], [])
  | p :: t => let '(k, d) := send_stored_l mps t in
              if mps <? k_size p then (k, p :: d) else (p :: k, d)
  end.

(* GenericStorePacket -> GenericPacket (`packet.clone().into()`): the store type has only the
   PUBLISH and PUBREL variants, so the conversion can only yield one of these two kinds *)
Definition store_into (p : pkt) : pkt :=
  if k_type p =? T_PUBLISH then p else
  mkPkt T_PUBREL (k_ver p) (k_pid p) (k_qos p) (k_dup p) (k_retain p) (k_topic p) (k_alias p) (k_plen p)
        (k_paylen p) (k_size p) (k_rc_present p) (k_rc p) (k_flag p) (k_keep_alive p)
        (k_tam p) (k_rm p) (k_mps p) (k_sei p) (k_ska p).

(* events are pushed in store order: a release for a dropped entry, a send for a kept one *)
Fixpoint send_stored_events (mps : N) (l : list pkt) : evs :=
  match l with
  | [] => []
  | p :: t => (if mps <? k_size p then EReleased (k_pid p) else ESend (store_into p) None) :: send_stored_events mps t
  end.

Fixpoint release_all (a : alloc) (ids : list N) : res alloc :=
  match ids with
  | [] => Ok a
  | id :: t => bindr (pm_release a id) (fun a' => release_all a' t)
  end.

Definition min_u16 (n : N) : N := if n <? 65535 then n else 65535.

Definition send_stored (c : conn) : R :=
  let '(kept, dropped) := send_stored_l (c_mps_send c) (c_store c) in
  let ids := map k_pid dropped in
  let c1 := set_puback c (fold_left (fun s i => del i s) ids (c_puback c)) in
  let c1 := set_pubrec c1 (fold_left (fun s i => del i s) ids (c_pubrec c1)) in
  let c1 := set_pubcomp c1 (fold_left (fun s i => del i s) ids (c_pubcomp c1)) in
  bindr (release_all (c_pid c1) ids) (fun a =>
    let c2 := set_store (set_pid c1 a) kept in
    let c3 := match c_send_max c2 with
              | Some _ => set_send_count c2 (min_u16 (N.of_nat (length kept)))
              | None => c2 end in
    Ok (c3, send_stored_events (c_mps_send c) (c_store c))).

(* ---- v5.0 PUBLISH rewriting (view level) ---- *)
Definition alias_prop_len (p : pkt) : N := match k_alias p with Some _ => 3 | None => 0 end.
Definition resize (g : cfg) (p : pkt) : pkt :=
  mkPkt (k_type p) (k_ver p) (k_pid p) (k_qos p) (k_dup p) (k_retain p) (k_topic p) (k_alias p) (k_plen p)
        (k_paylen p) (publish_v5_size (g_idw g) p) (k_rc_present p) (k_rc p) (k_flag p) (k_keep_alive p)
        (k_tam p) (k_rm p) (k_mps p) (k_sei p) (k_ska p).
Definition with_publish (p : pkt) (dup : bool) (topic : list N) (alias : option N) (plen : N) : pkt :=
  mkPkt (k_type p) (k_ver p) (k_pid p) (k_qos p) dup (k_retain p) topic alias plen
        (k_paylen p) (k_size p) (k_rc_present p) (k_rc p) (k_flag p) (k_keep_alive p)
        (k_tam p) (k_rm p) (k_mps p) (k_sei p) (k_ska p).
Definition set_dup (p : pkt) (d : bool) : pkt := with_publish p d (k_topic p) (k_alias p) (k_plen p).
Definition remove_topic_alias (g : cfg) (p : pkt) : pkt :=
  resize g (with_publish p (k_dup p) (k_topic p) None (k_plen p - alias_prop_len p)).
Definition add_topic_alias (g : cfg) (p : pkt) (a : N) : pkt :=
  resize g (with_publish p (k_dup p) (k_topic p) (Some a) (k_plen p - alias_prop_len p + 3)).
Definition remove_topic_add_topic_alias (g : cfg) (p : pkt) (a : N) : pkt :=
  resize g (with_publish p (k_dup p) [] (Some a) (k_plen p - alias_prop_len p + 3)).
Definition remove_topic_alias_add_topic (g : cfg) (p : pkt) (t : list N) : pkt :=
  resize g (with_publish p (k_dup p) t None (k_plen p - alias_prop_len p)).
Definition add_extracted_topic_name (g : cfg) (p : pkt) (t : list N) : pkt :=
  resize g (with_publish p (k_dup p) t (k_alias p) (k_plen p)).

Definition topic_empty (p : pkt) : bool := match k_topic p with [] => true | _ => false end.

(* validate_topic_alias_range / validate_topic_alias (the latter touches the LRU order) *)
Definition validate_topic_alias_range (c : conn) (a : N) : bool :=
  match c_ta_send c with
  | None => false
  | Some s => negb ((a =? 0) || (ts_max s <? a))
  end.
Definition validate_topic_alias (c : conn) (ao : option N) : option (list N) * conn :=
  match ao with
  | None => (None, c)
  | Some a =>
    if negb (validate_topic_alias_range c a) then (None, c) else
    match c_ta_send c with
    | None => (None, c)
    | Some s => let '(t, s') := tas_get s a in
                match t with Some tp => (Some tp, set_ta_send c (Some s')) | None => (None, c) end
    end
  end.

(* ---- generated packets ---- *)
Definition ack_pkt (g : cfg) (t : N) (v : version) (id : N) (rc : option N) : pkt :=
  let base := pkt0 t v in
  let sz := match rc with Some _ => 2 + g_idw g + 1 | None => 2 + g_idw g end in
  mkPkt t v id 0 false false [] None 0 0 sz (match rc with Some _ => true | None => false end)
        (match rc with Some r => r | None => 0 end) false 0 None None None None None.
Definition simple_pkt (t : N) (v : version) (size : N) (rc : N) (rcp : bool) : pkt :=
  mkPkt t v 0 0 false false [] None 0 0 size rcp rc false 0 None None None None None.
Definition disconnect_v5 (rc : N) : pkt := simple_pkt T_DISCONNECT V50 3 rc true.
Definition connack_v311 (rc : N) : pkt := simple_pkt T_CONNACK V311 4 rc true.
Definition connack_v5 (rc : N) : pkt := simple_pkt T_CONNACK V50 5 rc true.
Definition pingreq_pkt (v : version) : pkt := simple_pkt T_PINGREQ v 2 0 false.
Definition pingresp_pkt (v : version) : pkt := simple_pkt T_PINGRESP v 2 0 false.

Definition not_allowed : evs := [EError E_NOT_ALLOWED_TO_SEND].
Definition too_large : evs := [EError E_PACKET_TOO_LARGE].

(* the common tail `push(RequestSendPacket); send_post_process` *)
Definition send_and_post (c : conn) (p : pkt) (rel : option N) (pre : evs) : R :=
  let '(c', e) := send_post_process c in Ok (c', pre ++ [ESend p rel] ++ e).

(* packets that are only allowed when connected and have no other effect *)
Definition send_plain (c : conn) (p : pkt) : R :=
  if version_eqb (k_ver p) V50 && negb (size_ok c p) then Ok (c, too_large) else
  if negb (status_eqb (c_status c) Connected) then Ok (c, not_allowed) else
  send_and_post c p None [].

(* ---- process_send_* ---- *)
Definition send_connect (c : conn) (p : pkt) : R :=
  if version_eqb (k_ver p) V50 && negb (size_ok c p) then Ok (c, too_large) else
  if negb (status_eqb (c_status c) Disconnected) then Ok (c, not_allowed) else
  let c := initialize c true in
  let c := set_status c Connecting in
  let c := set_keep_alive_ms c (k_keep_alive p * 1000) in
  let c := if k_flag p then clear_store_related c else
           (if version_eqb (k_ver p) V311 then set_need_store c true else c) in
  let c :=
    if version_eqb (k_ver p) V50 then
      let c := match k_tam p with Some v => if negb (v =? 0) then set_ta_recv c (Some (tar_new v)) else c | None => c end in
      let c := match k_rm p with Some v => set_recv_max c (Some v) | None => c end in
      let c := match k_mps p with Some v => set_mps_recv c v | None => c end in
      match k_sei p with Some v => if negb (v =? 0) then set_need_store c true else c | None => c end
    else set_ta_send c None in
  send_and_post c p None [].

(* CONNACK sent with success (v5.0): its properties take effect, and Server Keep Alive drives the
   receive timer, before the send is requested *)
Definition connack_send_props (c : conn) (p : pkt) : conn * evs :=
  if version_eqb (k_ver p) V50 && (k_rc p =? 0) then
    let c := match k_tam p with Some v => if negb (v =? 0) then set_ta_recv c (Some (tar_new v)) else c | None => c end in
    let c := match k_rm p with Some v => set_recv_max c (Some v) | None => c end in
    let c := match k_mps p with Some v => set_mps_recv c v | None => c end in
    match k_ska p with
    | Some v =>
      if v =? 0 then
        let '(c1, e1) := if c_t_recv c then (set_t_recv c false, [ETimerCancel TPingreqRecv]) else (c, []) in
        (set_pingreq_recv_to c1 0, e1)
      else
        let to := v * 1000 * 3 / 2 in
        (set_t_recv (set_pingreq_recv_to c to) true, [ETimerReset TPingreqRecv to])
    | None => (c, [])
    end
  else (c, []).

Definition send_connack (c : conn) (p : pkt) : R :=
  if version_eqb (k_ver p) V50 && negb (size_ok c p) then Ok (c, too_large) else
  if negb (status_eqb (c_status c) Connecting) then Ok (c, not_allowed) else
  let ok := k_rc p =? 0 in
  let '(c, pre) := connack_send_props c p in
  if negb ok then
    let c := set_status c Disconnected in
    let '(c, e) := cancel_timers c in
    Ok (c, pre ++ [ESend p None] ++ e ++ [EClose])
  else
    let c := set_status c Connected in
    bindr (send_stored c) (fun '(c, es) =>
      let '(c, e) := send_post_process c in
      Ok (c, pre ++ [ESend p None] ++ es ++ e)).

(* `release + erase_publish + forget` used by the refusals of a v5.0 PUBLISH that was already stored *)
Definition refuse_publish (c : conn) (id : N) (err : N) (pre : evs) : R :=
  if (negb (id =? 0)) && is_used c id then
    bindr (pm_release (c_pid c) id) (fun a =>
      let c := set_pid c a in
      let c := set_store c (snd (store_erase_publish_l id (c_store c))) in
      let c := set_puback c (del id (c_puback c)) in
      let c := set_pubrec c (del id (c_pubrec c)) in
      Ok (c, pre ++ [EError err; EReleased id]))
  else Ok (c, pre ++ [EError err]).

Definition can_store_now (c : conn) : bool :=
  c_need_store c && (negb (status_eqb (c_status c) Disconnected) || c_offline c).

Definition send_publish_v311 (c : conn) (p : pkt) : R :=
  if negb (k_qos p =? 0) then
    let id := k_pid p in
    if negb (status_eqb (c_status c) Connected) && negb (can_store_now c) then
      bindr (release_if_used c id) (fun '(c, e) => Ok (c, not_allowed ++ e))
    else if negb (is_used c id) then Ok (c, [EError E_PID_INVALID])
    else
      bindr (if can_store_now c then bindr (store_add c (set_dup p true)) (fun c' => Ok (c', None))
             else Ok (c, Some id)) (fun '(c, rel) =>
      let c := if k_qos p =? 2 then set_pubrec c (ins id (c_pubrec c)) else set_puback c (ins id (c_puback c)) in
      if status_eqb (c_status c) Connected then send_and_post c p rel [] else Ok (c, []))
  else if negb (status_eqb (c_status c) Connected) then Ok (c, not_allowed)
  else send_and_post c p None [].

Definition send_publish_v5 (g : cfg) (c : conn) (p : pkt) : R :=
  if negb (size_ok c p) then
    (if negb (k_pid p =? 0) then bindr (release_if_used c (k_pid p)) (fun '(c, e) => Ok (c, too_large ++ e))
     else Ok (c, too_large))
  else
  let qos_pos := negb (k_qos p =? 0) in
  let id := k_pid p in
  (* part 1: id bookkeeping and storing *)
  let part1 : res (conn * option N * bool * bool * evs) :=   (* conn, rel, alias_validated, stop, events *)
    if qos_pos then
      if negb (status_eqb (c_status c) Connected) && negb (can_store_now c) then
        bindr (release_if_used c id) (fun '(c, e) => Ok (c, None, false, true, not_allowed ++ e))
      else if negb (is_used c id) then Ok (c, None, false, true, [EError E_PID_INVALID])
      else
        bindr
          (if can_store_now c then
             if topic_empty p then
               let '(topt, c1) := validate_topic_alias c (k_alias p) in
               match topt with
               | None => bindr (release_if_used c1 id) (fun '(c2, e) => Ok (c2, None, false, true, not_allowed ++ e))
               | Some t =>
                 bindr (store_add c1 (set_dup (remove_topic_alias_add_topic g p t) true)) (fun c2 =>
                   Ok (c2, None, true, false, []))
               end
             else
               bindr (store_add c (set_dup (remove_topic_alias g p) true)) (fun c2 => Ok (c2, None, false, false, []))
           else Ok (c, Some id, false, false, []))
          (fun '(c, rel, validated, stop, e) =>
             if stop then Ok (c, rel, validated, stop, e) else
             let c := if k_qos p =? 2 then set_pubrec c (ins id (c_pubrec c)) else set_puback c (ins id (c_puback c)) in
             Ok (c, rel, validated, false, e))
    else if negb (status_eqb (c_status c) Connected) then Ok (c, None, false, true, not_allowed)
    else Ok (c, None, false, false, []) in
  bindr part1 (fun '(c, rel, validated, stop, e1) =>
  if stop then Ok (c, e1) else
  (* Receive Maximum first, so that a refused packet leaves no alias binding behind *)
  if qos_pos && match c_send_max c with Some mx => mx <=? c_send_count c | None => false end then
    refuse_publish c id E_RECEIVE_MAXIMUM_EXCEEDED e1
  else
  (* topic alias handling *)
  let part2 : res (conn * pkt * bool * evs) :=     (* conn, packet to send, stop, events *)
    if topic_empty p then
      if validated then Ok (c, p, false, [])
      else
        let '(topt, c1) := validate_topic_alias c (k_alias p) in
        match topt with
        | Some _ => Ok (c1, p, false, [])
        | None => bindr (refuse_publish c1 id E_NOT_ALLOWED_TO_SEND []) (fun '(c2, e) => Ok (c2, p, true, e))
        end
    else
      match k_alias p with
      | Some a =>
        if validate_topic_alias_range c a then
          if status_eqb (c_status c) Connected then
            match c_ta_send c with
            | Some s => bindr (tas_insert s (k_topic p) a) (fun s' => Ok (set_ta_send c (Some s'), p, false, []))
            | None => Ok (c, p, false, [])
            end
          else Ok (c, p, false, [])
        else bindr (refuse_publish c id E_NOT_ALLOWED_TO_SEND []) (fun '(c2, e) => Ok (c2, p, true, e))
      | None =>
        if status_eqb (c_status c) Connected then
          if c_auto_map c then
            match c_ta_send c with
            | Some s =>
              match tas_find_by_topic s (k_topic p) with
              | Some a => let q := remove_topic_add_topic_alias g p a in
                          Ok (c, (if k_size q <=? c_mps_send c then q else p), false, [])
              | None =>
                bindr (tas_lru s) (fun a =>
                  let q := add_topic_alias g p a in
                  if k_size q <=? c_mps_send c then
                    bindr (tas_insert s (k_topic p) a) (fun s' => Ok (set_ta_send c (Some s'), q, false, []))
                  else Ok (c, p, false, []))
              end
            | None => Ok (c, p, false, [])
            end
          else if c_auto_replace c then
            match c_ta_send c with
            | Some s =>
              match tas_find_by_topic s (k_topic p) with
              | Some a => let q := remove_topic_add_topic_alias g p a in
                          Ok (c, (if k_size q <=? c_mps_send c then q else p), false, [])
              | None => Ok (c, p, false, [])
              end
            | None => Ok (c, p, false, [])
            end
          else Ok (c, p, false, [])
        else Ok (c, p, false, [])
      end in
  bindr part2 (fun '(c, q, stop2, e2) =>
  if stop2 then Ok (c, e1 ++ e2) else
  let c := if qos_pos && match c_send_max c with Some _ => true | None => false end
           then set_send_count c (c_send_count c + 1) else c in
  if status_eqb (c_status c) Connected then send_and_post c q rel (e1 ++ e2) else Ok (c, e1 ++ e2))).

Definition send_puback_like (c : conn) (p : pkt) : R :=
  (* PUBACK / PUBCOMP (v5.0 forget the inbound exchange), PUBREC (v5.0 error forgets it too) *)
  if version_eqb (k_ver p) V50 && negb (size_ok c p) then Ok (c, too_large) else
  if negb (status_eqb (c_status c) Connected) then Ok (c, not_allowed) else
  let c :=
    if version_eqb (k_ver p) V50 then
      if (k_type p =? T_PUBACK) || (k_type p =? T_PUBCOMP) then set_publish_recv c (del (k_pid p) (c_publish_recv c))
      else if (k_type p =? T_PUBREC) && k_rc_present p && (128 <=? k_rc p) then
        set_qos2 (set_publish_recv c (del (k_pid p) (c_publish_recv c))) (del (k_pid p) (c_qos2 c))
      else c
    else c in
  send_and_post c p None [].

Definition send_pubrel (c : conn) (p : pkt) : R :=
  if version_eqb (k_ver p) V50 && negb (size_ok c p) then Ok (c, too_large) else
  if negb (status_eqb (c_status c) Connected) && negb (c_need_store c) then Ok (c, not_allowed) else
  let id := k_pid p in
  if negb (is_used c id) then Ok (c, [EError E_PID_INVALID]) else
  bindr (if c_need_store c then store_add c p else Ok c) (fun c =>
  let c := set_pubcomp c (ins id (c_pubcomp c)) in
  if status_eqb (c_status c) Connected then send_and_post c p None [] else Ok (c, [])).

Definition send_sub_unsub (c : conn) (p : pkt) : R :=
  let id := k_pid p in
  if version_eqb (k_ver p) V50 && negb (size_ok c p) then
    bindr (release_if_used c id) (fun '(c, e) => Ok (c, too_large ++ e))
  else if negb (status_eqb (c_status c) Connected) then
    bindr (release_if_used c id) (fun '(c, e) => Ok (c, not_allowed ++ e))
  else if negb (is_used c id) then Ok (c, [EError E_PID_INVALID])
  else
    let c := if k_type p =? T_SUBSCRIBE then set_suback c (ins id (c_suback c))
             else set_unsuback c (ins id (c_unsuback c)) in
    send_and_post c p (Some id) [].

Definition send_pingreq (c : conn) (p : pkt) : R :=
  if version_eqb (k_ver p) V50 && negb (size_ok c p) then Ok (c, too_large) else
  if negb (status_eqb (c_status c) Connected) then Ok (c, not_allowed) else
  let '(c, e1) := if negb (c_pingresp_recv_to c =? 0)
                  then (set_t_resp c true, [ETimerReset TPingrespRecv (c_pingresp_recv_to c)]) else (c, []) in
  let '(c, e2) := send_post_process c in
  Ok (c, [ESend p None] ++ e1 ++ e2).

Definition send_disconnect (c : conn) (p : pkt) : R :=
  if version_eqb (k_ver p) V50 && negb (size_ok c p) then Ok (c, too_large) else
  if negb (status_eqb (c_status c) Connected) then Ok (c, not_allowed) else
  let c := set_status c Disconnected in
  let '(c, e) := cancel_timers c in
  Ok (c, e ++ [ESend p None; EClose]).

Definition send_auth (c : conn) (p : pkt) : R :=
  if negb (size_ok c p) then Ok (c, too_large) else
  if status_eqb (c_status c) Disconnected then Ok (c, not_allowed) else
  send_and_post c p None [].

Definition role_client_ok (g : cfg) : bool := match g_role g with RServer => false | _ => true end.
Definition role_server_ok (g : cfg) : bool := match g_role g with RClient => false | _ => true end.

(* the 29-way match of send(), by packet type *)
Definition dispatch_send (g : cfg) (c : conn) (p : pkt) : R :=
  let t := k_type p in
  let v5 := version_eqb (k_ver p) V50 in
  if t =? T_CONNECT then send_connect c p
  else if t =? T_CONNACK then send_connack c p
  else if t =? T_PUBLISH then (if v5 then send_publish_v5 g c p else send_publish_v311 c p)
  else if (t =? T_PUBACK) || (t =? T_PUBREC) || (t =? T_PUBCOMP) then send_puback_like c p
  else if t =? T_PUBREL then send_pubrel c p
  else if (t =? T_SUBSCRIBE) || (t =? T_UNSUBSCRIBE) then send_sub_unsub c p
  else if (t =? T_SUBACK) || (t =? T_UNSUBACK) || (t =? T_PINGRESP) then send_plain c p
  else if t =? T_PINGREQ then send_pingreq c p
  else if t =? T_DISCONNECT then send_disconnect c p
  else if t =? T_AUTH then send_auth c p
  else Ok (c, not_allowed).

(* send(): version check, role check, dispatch *)
Definition do_send (g : cfg) (c : conn) (p : pkt) : R :=
  if negb (version_eqb (c_version c) (k_ver p)) then Ok (c, [EError E_VERSION_MISMATCH]) else
  let t := k_type p in
  let v5 := version_eqb (k_ver p) V50 in
  let client_only := (t =? T_CONNECT) || (t =? T_SUBSCRIBE) || (t =? T_UNSUBSCRIBE) || (t =? T_PINGREQ)
                     || ((t =? T_DISCONNECT) && negb v5) in
  let server_only := (t =? T_CONNACK) || (t =? T_SUBACK) || (t =? T_UNSUBACK) || (t =? T_PINGRESP) in
  if client_only && negb (role_client_ok g) then Ok (c, not_allowed) else
  if server_only && negb (role_server_ok g) then Ok (c, not_allowed) else
  dispatch_send g c p.

(* ---- error handlers ---- *)
(* close_with_v5_0_disconnect: a library-generated DISCONNECT that does not fit the peer's
   Maximum Packet Size is replaced by closing without it *)
Definition close_with_disconnect (c : conn) (p : pkt) : R :=
  if status_eqb (c_status c) Connected && negb (size_ok c p) then
    let c := set_status c Disconnected in
    let '(c, e) := cancel_timers c in
    Ok (c, e ++ [EClose])
  else send_disconnect c p.

Definition handle_v311_error (e : N) : evs := [EClose; EError e].
Definition handle_v5_error (c : conn) (e : N) : R :=
  bindr (close_with_disconnect c (disconnect_v5 (disc_rc_of_err e))) (fun '(c, ev) => Ok (c, ev ++ [EError e])).
Definition handle_error (c : conn) (v : version) (e : N) : R :=
  if version_eqb v V50 then handle_v5_error c e else Ok (c, handle_v311_error e).

(* can_receive *)
Definition can_receive (g : cfg) (c : conn) (t : N) : bool :=
  let v311 := version_eqb (c_version c) V311 in
  negb ((match g_role g with RClient => true | _ => false end &&
          ((t =? 1) || (t =? 8) || (t =? 10) || (t =? 12) || ((t =? 14) && v311) || ((t =? 15) && v311)))
        || (match g_role g with RServer => true | _ => false end &&
          ((t =? 2) || (t =? 9) || (t =? 11) || (t =? 13) || ((t =? 15) && v311)))).

(* ---- process_recv_* (after the frame is complete and the parser has been consulted) ---- *)
(* CONNECT accepted by the parser: the new connection's parameters *)
Definition connect_recv_state (c : conn) (v : version) (p : pkt) : res conn :=
  let c := initialize c false in
  let c := if 0 <? k_keep_alive p then set_pingreq_recv_to c (k_keep_alive p * 1000 * 3 / 2) else c in
  let c := if k_flag p then clear_store_related c else
           (if version_eqb v V311 then set_need_store c true else c) in
  if version_eqb v V50 then
    bindr (match k_tam p with
           | Some m => if negb (m =? 0) then bindr (tas_new m) (fun s => Ok (set_ta_send c (Some s))) else Ok c
           | None => Ok c end) (fun c =>
    let c := match k_rm p with Some m => set_send_max c (Some m) | None => c end in
    let c := match k_mps p with Some m => set_mps_send c m | None => c end in
    Ok (match k_sei p with Some m => if negb (m =? 0) then set_need_store c true else c | None => c end))
  else Ok c.

Definition connect_refusal (v : version) (e : N) : pkt :=
  let rc311 := if e =? E_CLIENT_ID_NOT_VALID then 2 else if e =? E_BAD_USER_PASSWORD then 4
               else if e =? E_UNSUPPORTED_VERSION then 1 else 5 in
  let rc5 := if e =? E_CLIENT_ID_NOT_VALID then 133 else if e =? E_BAD_USER_PASSWORD then 134
             else if e =? E_UNSUPPORTED_VERSION then 132 else 128 in
  if version_eqb v V50 then connack_v5 rc5 else connack_v311 rc311.

Definition recv_connect (g : cfg) (c : conn) (v : version) (pr : presult) : R :=
  if negb (status_eqb (c_status c) Disconnected) then handle_error c v E_PROTOCOL else
  let c := set_status c Connecting in
  match pr with
  | PROk p =>
    bindr (connect_recv_state c v p) (fun c =>
    let '(c, e) := refresh_pingreq_recv c in
    Ok (c, e ++ [ENotify p]))
  | PRErr e =>
    bindr (send_connack c (connect_refusal v e)) (fun '(c, ev) => Ok (c, ev ++ [EError e]))
  end.

Definition resume_or_clear (c : conn) (session_present : bool) : R :=
  if session_present then
    bindr (send_stored c) (fun '(c, es) =>
      if existsb (fun e => match e with ESend _ _ => true | _ => false end) es
      then let '(c, e) := send_post_process c in Ok (c, es ++ e)
      else Ok (c, es))
  else Ok (clear_store_related c, []).

(* CONNACK received: Server Keep Alive drives the client's PINGREQ timer *)
Definition connack_recv_ska (c : conn) (p : pkt) : conn * evs :=
  match k_ska p with
  | Some s =>
    let val := s * 1000 in
    let c := set_server_ka_ms c (Some val) in
    match c_user_ping c with
    | Some _ => (c, [])
    | None =>
      if val =? 0 then
        (if c_t_send c then (set_t_send c false, [ETimerCancel TPingreqSend]) else (c, []))
      else (set_t_send c true, [ETimerReset TPingreqSend val])
    end
  | None => (c, [])
  end.

(* CONNACK received: Session Expiry Interval decides whether the session is kept *)
Definition connack_recv_sei (c : conn) (p : pkt) : conn :=
  match k_sei p with
  | Some m => if m =? 0 then clear_store_related (set_need_store c false) else set_need_store c true
  | None => c
  end.

(* CONNACK received: the limits the server announced *)
Definition connack_recv_limits (c : conn) (p : pkt) : res conn :=
  bindr (match k_tam p with
         | Some m => if 0 <? m then bindr (tas_new m) (fun s => Ok (set_ta_send c (Some s))) else Ok c
         | None => Ok c end) (fun c =>
  bindr (match k_rm p with
         | Some m => if m =? 0 then Panic P_SIZE_ASSERT else Ok (set_send_max c (Some m))
         | None => Ok c end) (fun c =>
  match k_mps p with
  | Some m => if m =? 0 then Panic P_SIZE_ASSERT else Ok (set_mps_send c m)
  | None => Ok c end)).

Definition recv_connack (c : conn) (v : version) (pr : presult) : R :=
  if status_eqb (c_status c) Connected then handle_error c v E_PROTOCOL else
  match pr with
  | PROk p =>
    if k_rc p =? 0 then
      let c := set_status c Connected in
      if version_eqb v V50 then
        (* properties in order of appearance; the view keeps one value per kind (parser enforces that) *)
        bindr (connack_recv_limits c p) (fun c =>
        let '(c, e1) := connack_recv_ska c p in
        let c := connack_recv_sei c p in
        bindr (resume_or_clear c (k_flag p)) (fun '(c, e2) => Ok (c, e1 ++ e2 ++ [ENotify p])))
      else
        bindr (resume_or_clear c (k_flag p)) (fun '(c, e2) => Ok (c, e2 ++ [ENotify p]))
    else Ok (c, [ENotify p])
  | PRErr e =>
    if version_eqb v V50 then
      (if status_eqb (c_status c) Connected then handle_v5_error c e else Ok (c, [EError e]))
    else Ok (c, handle_v311_error e)
  end.

Definition recv_publish_v311 (g : cfg) (c : conn) (pr : presult) : R :=
  match pr with
  | PRErr e => Ok (c, handle_v311_error e)
  | PROk p =>
    let id := k_pid p in
    let connected := status_eqb (c_status c) Connected in
    if k_qos p =? 0 then
      let '(c, e) := refresh_pingreq_recv c in Ok (c, e ++ [ENotify p])
    else if k_qos p =? 1 then
      bindr (if connected && c_auto_pub c then send_puback_like c (ack_pkt g T_PUBACK V311 id None) else Ok (c, []))
        (fun '(c, e1) => let '(c, e2) := refresh_pingreq_recv c in Ok (c, e1 ++ e2 ++ [ENotify p]))
    else
      let already := mem id (c_qos2 c) in
      let c := set_qos2 c (ins id (c_qos2 c)) in
      bindr (if connected && (c_auto_pub c || already) then send_puback_like c (ack_pkt g T_PUBREC V311 id None) else Ok (c, []))
        (fun '(c, e1) => let '(c, e2) := refresh_pingreq_recv c in
                         Ok (c, e1 ++ e2 ++ (if already then [] else [ENotify p])))
  end.

Definition alias_out_of_range (c : conn) (a : N) : bool :=
  (a =? 0) || match c_ta_recv c with None => true | Some r => tr_max r <? a end.

(* topic alias resolution of a received v5.0 PUBLISH: (state, packet to deliver, stop, events) *)
Definition resolve_recv_alias (g : cfg) (c : conn) (p : pkt) : res (conn * pkt * bool * evs) :=
  if topic_empty p then
    match k_alias p with
    | Some a =>
      if alias_out_of_range c a then bindr (handle_v5_error c E_TOPIC_ALIAS_INVALID) (fun '(c, e) => Ok (c, p, true, e))
      else match c_ta_recv c with
           | Some r => match tar_get r a with
                       | Some t => Ok (c, add_extracted_topic_name g p t, false, [])
                       | None => bindr (handle_v5_error c E_TOPIC_ALIAS_INVALID) (fun '(c, e) => Ok (c, p, true, e))
                       end
           | None => Ok (c, p, false, [])
           end
    | None => bindr (handle_v5_error c E_TOPIC_ALIAS_INVALID) (fun '(c, e) => Ok (c, p, true, e))
    end
  else
    match k_alias p with
    | Some a =>
      if alias_out_of_range c a then bindr (handle_v5_error c E_TOPIC_ALIAS_INVALID) (fun '(c, e) => Ok (c, p, true, e))
      else match c_ta_recv c with
           | Some r => bindr (tar_insert r (k_topic p) a) (fun r' => Ok (set_ta_recv c (Some r'), p, false, []))
           | None => Ok (c, p, false, [])
           end
    | None => Ok (c, p, false, [])
    end.

(* the inbound bookkeeping of a QoS>0 PUBLISH: the flow-control set (before the alias checks) ... *)
Definition note_inbound (c : conn) (p : pkt) : conn :=
  if negb (k_qos p =? 0) then set_publish_recv c (ins (k_pid p) (c_publish_recv c)) else c.

(* ... and the QoS2 handled set, only once the packet is accepted *)
Definition note_handled (c : conn) (p : pkt) : conn :=
  if k_qos p =? 2 then set_qos2 c (ins (k_pid p) (c_qos2 c)) else c.

Definition recv_publish_v5 (g : cfg) (c : conn) (pr : presult) : R :=
  match pr with
  | PRErr e => if status_eqb (c_status c) Connected then handle_v5_error c e else Ok (c, [EError e])
  | PROk p =>
    let id := k_pid p in
    let connected := status_eqb (c_status c) Connected in
    let over := match c_recv_max c with
                | Some mx => mx <=? N.of_nat (length (c_publish_recv c)) | None => false end in
    if negb (k_qos p =? 0) && over then handle_v5_error c E_RECEIVE_MAXIMUM_EXCEEDED else
    let already := (k_qos p =? 2) && mem id (c_qos2 c) in
    let puback_send := (k_qos p =? 1) && c_auto_pub c && connected in
    let pubrec_send := (k_qos p =? 2) && connected && (c_auto_pub c || already) in
    bindr (resolve_recv_alias g (note_inbound c p) p) (fun '(c, q, stop, e0) =>
    if stop then Ok (c, e0) else
    let c := note_handled c p in
    bindr (if puback_send then send_puback_like c (ack_pkt g T_PUBACK V50 id None) else Ok (c, [])) (fun '(c, e1) =>
    bindr (if pubrec_send then send_puback_like c (ack_pkt g T_PUBREC V50 id None) else Ok (c, [])) (fun '(c, e2) =>
    let '(c, e3) := refresh_pingreq_recv c in
    Ok (c, e1 ++ e2 ++ e3 ++ (if already then [] else [ENotify q])))))
  end.

(* acknowledgements of our own outbound exchanges *)
Definition recv_ack (g : cfg) (c : conn) (v : version) (t : N) (pr : presult) : R :=
  match pr with
  | PRErr e => handle_error c v e
  | PROk p =>
    let id := k_pid p in
    let v5 := version_eqb v V50 in
    let dec (c : conn) := match c_send_max c with
                          | Some _ => set_send_count c (c_send_count c - 1) | None => c end in
    let fin (c : conn) (e1 : evs) : R := let '(c, e2) := refresh_pingreq_recv c in Ok (c, e1 ++ e2 ++ [ENotify p]) in
    if t =? T_PUBACK then
      if mem id (c_puback c) then
        let c := store_erase (set_puback c (del id (c_puback c))) v T_PUBACK id in
        bindr (release_if_used c id) (fun '(c, e1) => fin (if v5 then dec c else c) e1)
      else handle_error c v E_PROTOCOL
    else if t =? T_PUBREC then
      if mem id (c_pubrec c) then
        let c := store_erase (set_pubrec c (del id (c_pubrec c))) v T_PUBREC id in
        let success := negb v5 || negb (k_rc_present p) || (k_rc p <? 128) in   (* PubrecReasonCode::is_success: 0x00, 0x10 *)
        if success then
          bindr (if c_auto_pub c && status_eqb (c_status c) Connected
                 then send_pubrel c (ack_pkt g T_PUBREL v id None) else Ok (c, [])) (fun '(c, e1) => fin c e1)
        else
          bindr (release_if_used c id) (fun '(c, e1) => fin (dec c) e1)
      else handle_error c v E_PROTOCOL
    else if t =? T_PUBCOMP then
      if mem id (c_pubcomp c) then
        let c := store_erase (set_pubcomp c (del id (c_pubcomp c))) v T_PUBCOMP id in
        bindr (release_if_used c id) (fun '(c, e1) => fin (if v5 then dec c else c) e1)
      else handle_error c v E_PROTOCOL
    else if t =? T_SUBACK then
      if mem id (c_suback c) then
        bindr (release_if_used (set_suback c (del id (c_suback c))) id) (fun '(c, e1) => fin c e1)
      else handle_error c v E_PROTOCOL
    else (* UNSUBACK *)
      if mem id (c_unsuback c) then
        bindr (release_if_used (set_unsuback c (del id (c_unsuback c))) id) (fun '(c, e1) => fin c e1)
      else handle_error c v E_PROTOCOL
  end.

Definition recv_pubrel (g : cfg) (c : conn) (v : version) (pr : presult) : R :=
  match pr with
  | PRErr e => handle_error c v e
  | PROk p =>
    let id := k_pid p in
    let removed := mem id (c_qos2 c) in
    let c := set_qos2 c (del id (c_qos2 c)) in
    bindr (if c_auto_pub c && status_eqb (c_status c) Connected then
             send_puback_like c (ack_pkt g T_PUBCOMP v id
                                   (if version_eqb v V50 && negb removed then Some 146 else None))
           else Ok (c, [])) (fun '(c, e1) =>
    let '(c, e2) := refresh_pingreq_recv c in Ok (c, e1 ++ e2 ++ [ENotify p]))
  end.

(* SUBSCRIBE, UNSUBSCRIBE, AUTH: refresh + notify *)
Definition recv_notify (c : conn) (v : version) (pr : presult) : R :=
  match pr with
  | PRErr e => handle_error c v e
  | PROk p => let '(c, e) := refresh_pingreq_recv c in Ok (c, e ++ [ENotify p])
  end.

Definition recv_pingreq (g : cfg) (c : conn) (v : version) (pr : presult) : R :=
  match pr with
  | PRErr e => handle_error c v e
  | PROk p =>
    bindr (if role_server_ok g && negb (c_is_client c) && c_auto_ping c && status_eqb (c_status c) Connected
           then send_plain c (pingresp_pkt v) else Ok (c, [])) (fun '(c, e1) =>
    let '(c, e2) := refresh_pingreq_recv c in Ok (c, e1 ++ e2 ++ [ENotify p]))
  end.

Definition recv_pingresp (c : conn) (v : version) (pr : presult) : R :=
  match pr with
  | PRErr e => handle_error c v e
  | PROk p =>
    let '(c, e) := if c_t_resp c then (set_t_resp c false, [ETimerCancel TPingrespRecv]) else (c, []) in
    Ok (c, e ++ [ENotify p])
  end.

Definition recv_disconnect (c : conn) (v : version) (pr : presult) : R :=
  match pr with
  | PRErr e => handle_error c v e
  | PROk p => let '(c, e) := cancel_timers c in Ok (c, e ++ [ENotify p])
  end.

Definition dispatch_recv (g : cfg) (c : conn) (v : version) (t : N) (pr : presult) : R :=
  if t =? 1 then recv_connect g c v pr
  else if t =? 2 then recv_connack c v pr
  else if t =? 3 then (if version_eqb v V50 then recv_publish_v5 g c pr else recv_publish_v311 g c pr)
  else if (t =? 4) || (t =? 5) || (t =? 7) || (t =? 9) || (t =? 11) then recv_ack g c v t pr
  else if t =? 6 then recv_pubrel g c v pr
  else if (t =? 8) || (t =? 10) then recv_notify c v pr
  else if t =? 12 then recv_pingreq g c v pr
  else if t =? 13 then recv_pingresp c v pr
  else if t =? 14 then (if version_eqb v V50 then recv_disconnect c v pr else recv_disconnect c v pr)
  else if (t =? 15) && version_eqb v V50 then recv_notify c v pr
  else Ok (c, [EError E_MALFORMED]).

(* process_recv_packet: a complete frame (fixed header byte, body) *)
Definition process_recv_packet (g : cfg) (c : conn) (fh : N) (body : list N) (pr : presult) : R :=
  let total := remaining_length_to_total_size (N.of_nat (length body)) in
  if c_mps_recv c <? total then
    if status_eqb (c_status c) Connected then
      bindr (close_with_disconnect c (disconnect_v5 149)) (fun '(c, e) => Ok (c, e ++ [EError E_PACKET_TOO_LARGE]))
    else
      let c := set_status c Disconnected in
      let '(c, e) := cancel_timers c in
      Ok (c, e ++ [EClose; EError E_PACKET_TOO_LARGE])
  else
  let t := fh / 16 in
  if negb (can_receive g c t) then Ok (c, [EError E_PROTOCOL]) else
  match c_version c with
  | V311 => dispatch_recv g c V311 t pr
  | V50 => dispatch_recv g c V50 t pr
  | VUndet =>
    if t =? 1 then
      if N.of_nat (length body) <? 7 then Ok (c, [EError E_MALFORMED]) else
      let lv := nth 6 body 0 in
      if lv =? 4 then recv_connect g (set_version c V311) V311 pr
      else if lv =? 5 then recv_connect g (set_version c V50) V50 pr
      else Ok (c, [EError E_UNSUPPORTED_VERSION])
    else Ok (c, [EError E_MALFORMED])
  end.

(* recv(): one feed() call *)
Definition do_recv (g : cfg) (c : conn) (bytes : list N) (pr : presult) : res (conn * evs * list N) :=
  let '(r, pb', rest) := feed (c_pb c) bytes in
  let c := set_pb c pb' in
  match r with
  | FIncomplete => Ok (c, [], rest)
  | FError _ =>
    let '(c, e) := cancel_timers c in Ok (c, e ++ [EClose; EError E_MALFORMED], rest)
  | FComplete hdr body =>
    bindr (process_recv_packet g c (hd 0 hdr) body pr) (fun '(c, e) => Ok (c, e, rest))
  end.

(* notify_timer_fired *)
Definition do_timer (c : conn) (k : timer) : R :=
  match k with
  | TPingreqSend =>
    let c := set_t_send c false in
    if status_eqb (c_status c) Connected then
      match c_version c with
      | VUndet => Panic P_UNDETERMINED
      | v => send_pingreq c (pingreq_pkt v)
      end
    else Ok (c, [])
  | TPingreqRecv | TPingrespRecv =>
    let c := match k with TPingreqRecv => set_t_recv c false | _ => set_t_resp c false end in
    match c_version c with
    | V311 => Ok (c, [EClose])
    | V50 => if status_eqb (c_status c) Connected then close_with_disconnect c (disconnect_v5 141) else Ok (c, [])
    | VUndet => Panic P_UNDETERMINED
    end
  end.

(* notify_closed: the drains of the five HashSets release what is still in use *)
Fixpoint drain_release (a : alloc) (ids : list N) : res (alloc * evs) :=
  match ids with
  | [] => Ok (a, [])
  | id :: t =>
    if pm_is_used a id then
      bindr (pm_release a id) (fun a' => bindr (drain_release a' t) (fun '(a'', e) => Ok (a'', EReleased id :: e)))
    else drain_release a t
  end.

Definition do_closed (c : conn) : R :=
  let c := set_mps_send c MQTT_PACKET_SIZE_NO_LIMIT in
  let c := set_mps_recv c MQTT_PACKET_SIZE_NO_LIMIT in
  let c := set_status c Disconnected in
  let c := set_pb c pb_init in
  let c := set_ta_send c None in
  let c := set_ta_recv c None in
  bindr (drain_release (c_pid c) (c_suback c)) (fun '(a, e1) =>
  bindr (drain_release a (c_unsuback c)) (fun '(a, e2) =>
  let c := set_unsuback (set_suback (set_pid c a) []) [] in
  bindr
    (if negb (c_need_store c) then
       let c := set_store (set_qos2 c []) [] in
       bindr (drain_release (c_pid c) (c_puback c)) (fun '(a, e3) =>
       bindr (drain_release a (c_pubrec c)) (fun '(a, e4) =>
       bindr (drain_release a (c_pubcomp c)) (fun '(a, e5) =>
       (* F-27: no outbound exchange is left to count against the peer's Receive Maximum *)
       Ok (set_send_count (set_pubcomp (set_pubrec (set_puback (set_pid c a) []) []) []) 0, e3 ++ e4 ++ e5))))
     else Ok (c, [])) (fun '(c, e345) =>
  let '(c, e6) := cancel_timers c in
  Ok (c, e1 ++ e2 ++ e345 ++ e6)))).

Definition do_set_pingreq_interval (c : conn) (o : option N) : R :=
  let c := set_user_ping c o in
  match o with
  | Some ms =>
    if ms =? 0 then
      (if c_t_send c then Ok (set_t_send c false, [ETimerCancel TPingreqSend]) else Ok (c, []))
    else if status_eqb (c_status c) Connected then Ok (set_t_send c true, [ETimerReset TPingreqSend ms])
    else Ok (c, [])
  | None => Ok (c, [])
  end.

Definition do_erase (c : conn) (id : N) : R :=
  let '(b, l) := store_erase_publish_l id (c_store c) in
  if b then
    let c := set_store c l in
    let c := set_puback c (del id (c_puback c)) in
    let c := set_pubrec c (del id (c_pubrec c)) in
    let c := match c_send_max c with
             | Some _ => if 0 <? c_send_count c then set_send_count c (c_send_count c - 1) else c
             | None => c end in
    release_if_used c id
  else Ok (c, []).

(* restore_packets: QoS 0 entries are skipped; the id is registered first, then recorded *)
Fixpoint do_restore (c : conn) (l : list pkt) : conn :=
  match l with
  | [] => c
  | p :: t =>
    let c' :=
      if (k_type p =? T_PUBLISH) && (k_qos p =? 0) then c else
      let '(ok, a) := pm_register (c_pid c) (k_pid p) in
      if ok then
        let c := set_pid c a in
        let c := if k_type p =? T_PUBLISH
                 then (if k_qos p =? 1 then set_puback c (ins (k_pid p) (c_puback c))
                       else set_pubrec c (ins (k_pid p) (c_pubrec c)))
                 else set_pubcomp c (ins (k_pid p) (c_pubcomp c)) in
        store_add_soft c p
      else c in
    do_restore c' t
  end.

(* regulate_for_store: a pure function of the connection; result as [0; view] or [1; error] *)
Definition do_regulate (g : cfg) (c : conn) (p : pkt) : option pkt :=
  if topic_empty p then
    match k_alias p with
    | Some a => match c_ta_send c with
                | Some s => match tas_peek s a with
                            | Some t => Some (remove_topic_alias_add_topic g p t)
                            | None => None end
                | None => None end
    | None => None
    end
  else Some (remove_topic_alias g p).

Definition vacancy (c : conn) : option N :=
  match c_send_max c with Some m => Some (m - c_send_count c) | None => None end.

(* one API call.  Returns the new state, the events, and a numeric return value
   (acquire: [id] / [] ; register: [0/1]; recv: [bytes left unread]; regulate: [0]/[1]) *)
Definition step (g : cfg) (c : conn) (o : op) : res (conn * evs * list N) :=
  let lift (r : R) : res (conn * evs * list N) := bindr r (fun '(c, e) => Ok (c, e, [])) in
  match o with
  | OSend p => lift (do_send g c p)
  | ORecv bytes pr => bindr (do_recv g c bytes pr) (fun '(c, e, rest) => Ok (c, e, [N.of_nat (length rest)]))
  | OTimer k => lift (do_timer c k)
  | OClosed => lift (do_closed c)
  | OSetPingreqInterval o => lift (do_set_pingreq_interval c o)
  | OSetPingrespTimeout n => Ok (set_pingresp_recv_to c n, [], [])
  | OSetOffline b => Ok ((if b then set_need_store (set_offline c b) true else set_offline c b), [], [])
  | OSetAutoPub b => Ok (set_auto_pub c b, [], [])
  | OSetAutoPing b => Ok (set_auto_ping c b, [], [])
  | OSetAutoMap b => Ok (set_auto_map c b, [], [])
  | OSetAutoReplace b => Ok (set_auto_replace c b, [], [])
  | OAcquire => bindr (pm_acquire (c_pid c)) (fun '(r, a) =>
                  Ok (set_pid c a, [], match r with Some id => [id] | None => [] end))
  | ORegister id => let '(b, a) := pm_register (c_pid c) id in Ok (set_pid c a, [], [b2n b])
  | ORelease id => lift (release_if_used c id)
  | OErase id => lift (do_erase c id)
  | ORestorePackets l => Ok (do_restore c l, [], [])
  | ORestoreQos2 l => Ok (set_qos2 c (fold_left (fun s i => ins i s) l []), [], [])
  | ORegulate p => Ok (c, [], match do_regulate g c p with Some _ => [0] | None => [1] end)
  end.
