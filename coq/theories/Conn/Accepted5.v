(* C06, v5.0: a QoS>0 PUBLISH that send() accepts without an error event is requested for sending at once
   (as a PUBLISH with the same identifier) or kept in the store. *)
From MQ Require Import Base.Prelude Alloc.Alloc Alloc.SetSpec Alloc.AllocProofs Framing.Framing
                       Conn.Types Conn.TopicAlias Conn.ConnRecord Conn.Step Conn.Run Corr.ConnTrace Conn.Scope Conn.Qos2Dup.

Definition has_error (e : evs) : Prop := errors e <> [].
Lemma has_error_app_l a b : has_error a -> has_error (a ++ b).
Proof. unfold has_error. rewrite errors_app. destruct (errors a); [contradiction|discriminate]. Qed.
Lemma has_error_app_r a b : has_error b -> has_error (a ++ b).
Proof. unfold has_error. rewrite errors_app. destruct (errors a); [auto|discriminate]. Qed.

Lemma release_store c id c' e : release_if_used c id = Ok (c', e) -> c_store c' = c_store c /\ c_status c' = c_status c.
Proof.
  unfold release_if_used. destruct (is_used c id); [|intro H; inversion H; split; reflexivity].
  destruct (pm_release _ _); cbn [bindr]; [|discriminate]. intro H; inversion H; split; reflexivity.
Qed.
Lemma refuse_has_error c id err pre : match refuse_publish c id err pre with Ok (_, e) => has_error e | Panic _ => True end.
Proof.
  unfold refuse_publish. destruct (_ && _); [destruct (pm_release _ _); cbn [bindr]; [|exact I]|]; apply has_error_app_r; unfold has_error; cbn; discriminate.
Qed.
Lemma store_has_snoc id S q : k_pid q = id -> store_has id (S ++ [q]) = true.
Proof. intro H. unfold store_has. rewrite existsb_app. cbn. rewrite H, N.eqb_refl. now rewrite orb_true_r. Qed.

Theorem accepted_sent_or_stored_v5 g c p :
  (k_qos p =? 0) = false ->
  match send_publish_v5 g c p with
  | Ok (c', e) =>
      has_error e \/ (exists q, In q (sends e) /\ k_type q = k_type p /\ k_pid q = k_pid p) \/
      store_has (k_pid p) (c_store c') = true
  | Panic _ => True
  end.
Proof.
  intro Hq. unfold send_publish_v5. cbv zeta. rewrite Hq. cbn [negb].
  destruct (negb (size_ok c p)).
  { destruct (negb _); [|left; unfold has_error; cbn; discriminate].
    destruct (release_if_used c (k_pid p)) as [[c1 e]|]; cbn [bindr]; [|exact I]. left. apply has_error_app_l. unfold has_error; cbn; discriminate. }
  (* part 1: error, or (stored or connected) *)
  match goal with |- match bindr ?P1 _ with _ => _ end =>
    assert (H1 : match P1 with
                 | Ok (c1, rel, _, stop, e1) =>
                     (stop = true -> has_error e1) /\
                     (stop = false -> store_has (k_pid p) (c_store c1) = true \/ status_eqb (c_status c1) Connected = true)
                 | Panic _ => True end) end.
  { assert (Hrel : forall cx, match bindr (release_if_used cx (k_pid p)) (fun '(c2, e) => Ok (c2, @None N, false, true, not_allowed ++ e)) with
                              | Ok (c1, rel, _, stop, e1) => (stop = true -> has_error e1) /\
                                   (stop = false -> store_has (k_pid p) (c_store c1) = true \/ status_eqb (c_status c1) Connected = true)
                              | Panic _ => True end).
    { intro cx. destruct (release_if_used cx (k_pid p)) as [[c2 e]|]; cbn [bindr]; [|exact I].
      split; [intros _; apply has_error_app_l; unfold has_error; cbn; discriminate|discriminate]. }
    destruct (negb (status_eqb (c_status c) Connected) && negb (can_store_now c)) eqn:Eg; [apply Hrel|].
    destruct (negb (is_used c (k_pid p))); [split; [intros _; unfold has_error; cbn; discriminate|discriminate]|].
    assert (Hst : forall cx q (rel : option N) (val : bool), k_pid q = k_pid p ->
              match bindr (bindr (store_add cx q) (fun c2 => Ok (c2, rel, val, false, @nil event)))
                      (fun '(c0, rel, validated, stop, e) =>
                         if stop then Ok (c0, rel, validated, stop, e) else
                         let c0 := if k_qos p =? 2 then set_pubrec c0 (ins (k_pid p) (c_pubrec c0)) else set_puback c0 (ins (k_pid p) (c_puback c0)) in
                         Ok (c0, rel, validated, false, e)) with
              | Ok (c1, rel, _, stop, e1) => (stop = true -> has_error e1) /\
                   (stop = false -> store_has (k_pid p) (c_store c1) = true \/ status_eqb (c_status c1) Connected = true)
              | Panic _ => True end).
    { intros cx q rel val Hp. unfold store_add. destruct (store_has _ _); cbn [bindr]; [exact I|]. cbv zeta.
      split; [discriminate|]. intros _. left. destruct (_ =? 2); conn_simpl_goal; now apply store_has_snoc. }
    destruct (can_store_now c) eqn:Ec.
    - assert (Hrel2 : forall cx, match bindr (bindr (release_if_used cx (k_pid p)) (fun '(c2, e) => Ok (c2, @None N, false, true, not_allowed ++ e)))
                      (fun '(c0, rel, validated, stop, e) =>
                         if stop then Ok (c0, rel, validated, stop, e) else
                         let c0 := if k_qos p =? 2 then set_pubrec c0 (ins (k_pid p) (c_pubrec c0)) else set_puback c0 (ins (k_pid p) (c_puback c0)) in
                         Ok (c0, rel, validated, false, e)) with
                              | Ok (c1, rel, _, stop, e1) => (stop = true -> has_error e1) /\
                                   (stop = false -> store_has (k_pid p) (c_store c1) = true \/ status_eqb (c_status c1) Connected = true)
                              | Panic _ => True end).
      { intro cx. destruct (release_if_used cx (k_pid p)) as [[c2 e]|]; cbn [bindr]; [|exact I].
        split; [intros _; apply has_error_app_l; unfold has_error; cbn; discriminate|discriminate]. }
      destruct (topic_empty p).
      + destruct (validate_topic_alias c (k_alias p)) as [topt cx]. destruct topt as [t|]; [apply Hst; reflexivity|apply Hrel2].
      + apply Hst; reflexivity.
    - cbn [bindr]. cbv zeta. split; [discriminate|]. intros _. right.
      rewrite andb_true_r in Eg. apply negb_false_iff in Eg. destruct (_ =? 2); conn_simpl_goal; exact Eg. }
  match goal with |- match bindr ?P1 _ with _ => _ end => destruct P1 as [[[[[c1 rel] val] stop] e1]|]; cbn [bindr]; [|exact I] end.
  destruct H1 as [H1a H1b]. destruct stop; [left; now apply H1a|]. specialize (H1b eq_refl).
  match goal with |- match (if ?b then _ else _) with _ => _ end => destruct b end.
  { pose proof (refuse_has_error c1 (k_pid p) E_RECEIVE_MAXIMUM_EXCEEDED e1) as H. destruct (refuse_publish _ _ _ _) as [[c2 e]|]; [now left|exact I]. }
  (* part 2: error, or the store and the status are unchanged and the packet keeps type and identifier *)
  match goal with |- match bindr ?P2 _ with _ => _ end =>
    assert (H2 : match P2 with
                 | Ok (c2, q, stop2, e2) =>
                     (stop2 = true -> has_error e2) /\
                     (stop2 = false -> c_store c2 = c_store c1 /\ c_status c2 = c_status c1 /\ k_type q = k_type p /\ k_pid q = k_pid p)
                 | Panic _ => True end) end.
  { assert (Href : forall cx, match bindr (refuse_publish cx (k_pid p) E_NOT_ALLOWED_TO_SEND []) (fun '(c2, e) => Ok (c2, p, true, e)) with
                              | Ok (c2, q, stop2, e2) => (stop2 = true -> has_error e2) /\
                                  (stop2 = false -> c_store c2 = c_store c1 /\ c_status c2 = c_status c1 /\ k_type q = k_type p /\ k_pid q = k_pid p)
                              | Panic _ => True end).
    { intro cx. pose proof (refuse_has_error cx (k_pid p) E_NOT_ALLOWED_TO_SEND []) as H.
      destruct (refuse_publish _ _ _ _) as [[c2 e]|]; cbn [bindr]; [|exact I]. split; [intros _; exact H|discriminate]. }
    assert (Hok : forall cx q, c_store cx = c_store c1 -> c_status cx = c_status c1 -> k_type q = k_type p -> k_pid q = k_pid p ->
              (false = true -> has_error []) /\ (false = false -> c_store cx = c_store c1 /\ c_status cx = c_status c1 /\ k_type q = k_type p /\ k_pid q = k_pid p)).
    { intros cx q A B C D. split; [discriminate|]. intros _. repeat split; assumption. }
    destruct (topic_empty p).
    - destruct val; [now apply Hok|].
      assert (Hv : c_store (snd (validate_topic_alias c1 (k_alias p))) = c_store c1 /\ c_status (snd (validate_topic_alias c1 (k_alias p))) = c_status c1).
      { unfold validate_topic_alias. destruct (k_alias p) as [a|]; [|split; reflexivity]. destruct (negb _); [split; reflexivity|].
        destruct (c_ta_send c1) as [s|]; [|split; reflexivity]. destruct (tas_get s a) as [[t|] s']; split; reflexivity. }
      destruct (validate_topic_alias c1 (k_alias p)) as [topt cx]. cbn [snd] in Hv. destruct Hv as [Hv1 Hv2].
      destruct topt as [t|]; [now apply Hok|apply Href].
    - destruct (k_alias p) as [a|].
      + destruct (validate_topic_alias_range c1 a); [|apply Href]. destruct (status_eqb _ _); [|now apply Hok].
        destruct (c_ta_send c1) as [s|]; [|now apply Hok]. destruct (tas_insert s _ a); cbn [bindr]; [now apply Hok|exact I].
      + destruct (status_eqb _ _); [|now apply Hok]. destruct (c_auto_map c1).
        * destruct (c_ta_send c1) as [s|]; [|now apply Hok]. destruct (tas_find_by_topic s _) as [a|].
          { cbv zeta. destruct (_ <=? _); now apply Hok. }
          destruct (tas_lru s) as [a|]; cbn [bindr]; [|exact I]. cbv zeta. destruct (_ <=? _); [|now apply Hok].
          destruct (tas_insert s _ a); cbn [bindr]; [now apply Hok|exact I].
        * destruct (c_auto_replace c1); [|now apply Hok]. destruct (c_ta_send c1) as [s|]; [|now apply Hok].
          destruct (tas_find_by_topic s _) as [a|]; [cbv zeta; destruct (_ <=? _)|]; now apply Hok. }
  match goal with |- match bindr ?P2 _ with _ => _ end => destruct P2 as [[[[c2 q] stop2] e2]|]; cbn [bindr]; [|exact I] end.
  destruct H2 as [H2a H2b]. destruct stop2; [left; apply has_error_app_r; now apply H2a|].
  destruct (H2b eq_refl) as (S2 & T2 & Q1 & Q2).
  match goal with |- context [if ?b then set_send_count c2 (c_send_count c2 + 1) else c2] =>
    set (c3 := if b then set_send_count c2 (c_send_count c2 + 1) else c2) end.
  assert (H3 : c_store c3 = c_store c2 /\ c_status c3 = c_status c2) by (subst c3; destruct (_ && _); split; reflexivity).
  destruct H3 as [S3 T3]. rewrite T3, T2.
  destruct (status_eqb (c_status c1) Connected) eqn:Es.
  - unfold send_and_post. destruct (send_post_process c3) as [c4 e]. right. left. exists q.
    split; [|split; assumption]. rewrite !sends_app'. apply in_or_app. right. apply in_or_app. left. cbn. now left.
  - right. right. rewrite S3, S2. destruct H1b as [H|H]; [exact H|discriminate].
Qed.
