(* C01, model side: SEVERAL exchanges in flight.  Two v3.1.1 endpoints with automatic responses, two FIFO links, and an
   arbitrary schedule of three kinds of action — the application publishes a new QoS 1/2 message, the link hands the next
   packet to the receiver, the link hands the next packet to the sender.  For every schedule: no call panics or reports
   an error, every packet handed over is answered as the protocol says, and the messages notified to the receiving
   application are exactly the published ones whose PUBLISH has arrived, once each, in order of publication.  The
   pair invariant relates the packets in flight to the awaited sets of the sender and the handled set of the receiver;
   a measure on the packets in flight bounds the number of deliveries after which both links are empty. *)
From Coq Require Import Permutation.
From MQ Require Import Base.Prelude Alloc.Alloc Alloc.SetSpec Alloc.AllocProofs Framing.Framing
                       Conn.Types Conn.TopicAlias Conn.ConnRecord Conn.Step Conn.Run Corr.ConnTrace Conn.Scope Conn.IdsQuota Conn.WfInv
                       Conn.Own Conn.OwnFrame Conn.OwnStep Conn.Qos2Dup Conn.TasBounds Conn.NoPanic Conn.PairQos Conn.PairSeq.

(* ---- what each step does to the awaited sets and the allocator, exactly ---- *)
Lemma send_and_post_sets cx p rel :
  match send_and_post cx p rel [] with
  | Ok (c1, _) => F8 c1 cx
  | Panic _ => True
  end.
Proof. pose proof (send_and_post_x cx p rel) as H. destruct (send_and_post cx p rel []) as [[c1 e]|]; [|exact I]. apply H. Qed.

Lemma sender_sends_sets c p q : v311_pub p q -> 1 <= q <= 2 -> status_eqb (c_status c) Connected = true ->
  is_used c (k_pid p) = true -> store_has (k_pid p) (c_store c) = false ->
  match send_publish_v311 c p with
  | Ok (c1, _) => c_pid c1 = c_pid c /\ c_pubcomp c1 = c_pubcomp c /\
                  c_puback c1 = (if q =? 2 then c_puback c else ins (k_pid p) (c_puback c)) /\
                  c_pubrec c1 = (if q =? 2 then ins (k_pid p) (c_pubrec c) else c_pubrec c)
  | Panic _ => True
  end.
Proof.
  intros (Ht & Hv & Hq) Hr Rs Hu Hs. unfold send_publish_v311. cbv zeta. rewrite Hq.
  assert (E0 : (q =? 0) = false) by (apply N.eqb_neq; lia). rewrite E0. cbn [negb]. rewrite Rs, Hu. cbn [negb andb].
  assert (Hfin : forall cx rel, c_pid cx = c_pid c -> c_pubcomp cx = c_pubcomp c ->
            c_puback cx = (if q =? 2 then c_puback c else ins (k_pid p) (c_puback c)) ->
            c_pubrec cx = (if q =? 2 then ins (k_pid p) (c_pubrec c) else c_pubrec c) ->
            match send_and_post cx p rel [] with
            | Ok (c1, _) => c_pid c1 = c_pid c /\ c_pubcomp c1 = c_pubcomp c /\
                            c_puback c1 = (if q =? 2 then c_puback c else ins (k_pid p) (c_puback c)) /\
                            c_pubrec c1 = (if q =? 2 then ins (k_pid p) (c_pubrec c) else c_pubrec c)
            | Panic _ => True end).
  { intros cx rel H1 H2 H3 H4. pose proof (send_and_post_sets cx p rel) as K. destruct (send_and_post cx p rel []) as [[c1 e]|]; [|exact I].
    destruct K as (F1 & _ & F3 & F4 & F5 & _). repeat split; congruence. }
  destruct (can_store_now c).
  - unfold store_add. change (k_pid (set_dup p true)) with (k_pid p). rewrite Hs. cbn [bindr].
    destruct (N.eqb_spec q 2) as [E2|E2]; conn_simpl_goal; rewrite Rs; apply Hfin; reflexivity.
  - cbn [bindr]. destruct (N.eqb_spec q 2) as [E2|E2]; conn_simpl_goal; rewrite Rs; apply Hfin; reflexivity.
Qed.

Lemma sender_pubrec_sets g c a : OWN g c -> ready c -> c_auto_pub c = true -> k_ver a = V311 -> k_type a = T_PUBREC ->
  mem (k_pid a) (c_pubrec c) = true -> is_used c (k_pid a) = true ->
  match deliver g c a with
  | Ok (c2, _) => c_pid c2 = c_pid c /\ c_puback c2 = c_puback c /\ c_pubrec c2 = del (k_pid a) (c_pubrec c) /\
                  c_pubcomp c2 = ins (k_pid a) (c_pubcomp c)
  | Panic _ => True
  end.
Proof.
  intros HO [Rv Rs] Ha Hva Hta Hm Hu.
  unfold deliver, dispatch_recv. rewrite Hta, Rv.
  change (T_PUBREC =? 1) with false. change (T_PUBREC =? 2) with false. change (T_PUBREC =? 3) with false.
  change ((T_PUBREC =? 4) || (T_PUBREC =? 5) || (T_PUBREC =? 7) || (T_PUBREC =? 9) || (T_PUBREC =? 11)) with true. cbv iota.
  unfold recv_ack. cbv zeta. change (T_PUBREC =? T_PUBACK) with false. change (T_PUBREC =? T_PUBREC) with true.
  cbv iota. rewrite Hm. cbn [version_eqb negb orb].
  destruct (ack_PB_own g c (k_pid a) HO Hm) as (_ & [_ Hs] & _). cbv zeta in Hs. rewrite Rv in Hs.
  set (c1 := store_erase _ V311 T_PUBREC (k_pid a)) in *.
  assert (A1 : c_auto_pub c1 = true) by exact Ha.
  assert (A2 : c_status c1 = c_status c) by reflexivity.
  assert (A3 : is_used c1 (k_pid a) = true) by exact Hu.
  rewrite A1, A2, Rs. cbn [andb].
  unfold send_pubrel. cbv zeta.
  change (k_ver (ack_pkt g T_PUBREL V311 (k_pid a) None)) with V311. change (k_pid (ack_pkt g T_PUBREL V311 (k_pid a) None)) with (k_pid a).
  cbn [version_eqb andb]. rewrite A2, Rs, A3. cbn [negb andb].
  assert (Hfin : forall cx, c_pid cx = c_pid c -> c_puback cx = c_puback c -> c_pubrec cx = del (k_pid a) (c_pubrec c) ->
     c_pubcomp cx = ins (k_pid a) (c_pubcomp c) ->
     match bindr (send_and_post cx (ack_pkt g T_PUBREL V311 (k_pid a) None) None [])
                 (fun '(c0, e1) => let '(c2, e2) := refresh_pingreq_recv c0 in Ok (c2, e1 ++ e2 ++ [ENotify a])) with
     | Ok (c2, _) => c_pid c2 = c_pid c /\ c_puback c2 = c_puback c /\ c_pubrec c2 = del (k_pid a) (c_pubrec c) /\
                     c_pubcomp c2 = ins (k_pid a) (c_pubcomp c)
     | Panic _ => True end).
  { intros cx H1 H2 H3 H4. pose proof (post_then_refresh_x cx (ack_pkt g T_PUBREL V311 (k_pid a) None) None a) as K.
    destruct (bindr _ _) as [[c2 e]|]; [|exact I]. destruct K as (_ & _ & _ & (F1 & _ & F3 & F4 & F5 & _) & _). repeat split; congruence. }
  destruct (c_need_store c1) eqn:En.
  - unfold store_add. change (k_pid (ack_pkt g T_PUBREL V311 (k_pid a) None)) with (k_pid a). rewrite Hs. cbn [bindr].
    conn_simpl_goal. rewrite A2, Rs. apply Hfin; reflexivity.
  - cbn [bindr]. conn_simpl_goal. rewrite A2, Rs. apply Hfin; reflexivity.
Qed.

Lemma sender_final_sets g c a (r : N) : OWN g c -> ready c -> k_ver a = V311 -> k_type a = r -> (r = T_PUBACK \/ r = T_PUBCOMP) ->
  mem (k_pid a) (if r =? T_PUBACK then c_puback c else c_pubcomp c) = true -> is_used c (k_pid a) = true ->
  match deliver g c a with
  | Ok (c2, _) => (forall y, is_used c2 y = is_used c y && negb (y =? k_pid a)) /\
                  c_puback c2 = (if r =? T_PUBACK then del (k_pid a) (c_puback c) else c_puback c) /\
                  c_pubrec c2 = c_pubrec c /\
                  c_pubcomp c2 = (if r =? T_PUBACK then c_pubcomp c else del (k_pid a) (c_pubcomp c))
  | Panic _ => True
  end.
Proof.
  intros HO [Rv Rs] Hva Hta Hr Hm Hu.
  unfold deliver. unfold dispatch_recv. rewrite Hta, Rv.
  assert (Hfin : forall c1, OWN g c1 -> is_used c1 (k_pid a) = true ->
            match bindr (release_if_used c1 (k_pid a)) (fun '(c0, e1) => let '(c3, e2) := refresh_pingreq_recv c0 in Ok (c3, e1 ++ e2 ++ [ENotify a])) with
            | Ok (c2, _) => (forall y, is_used c2 y = is_used c1 y && negb (y =? k_pid a)) /\
                            c_puback c2 = c_puback c1 /\ c_pubrec c2 = c_pubrec c1 /\ c_pubcomp c2 = c_pubcomp c1
            | Panic _ => True end).
  { intros c1 O1 U1. unfold release_if_used. rewrite U1. unfold is_used, pm_is_used in U1.
    destruct (release_ok g _ _ (o_wf _ _ _ _ _ _ _ _ _ O1) U1) as (a' & Er & _). rewrite Er. cbn [bindr].
    destruct (release_used_spec g _ _ a' (o_wf _ _ _ _ _ _ _ _ _ O1) U1 Er) as [_ Hrel].
    pose proof (refresh_keeps (set_pid c1 a')) as K. cbv zeta in K.
    destruct (refresh_pingreq_recv (set_pid c1 a')) as [c3 e2]. cbn [fst] in K.
    destruct K as ((F1 & _ & F3 & F4 & F5 & _) & _). conn_simpl.
    split; [intro y; unfold is_used, pm_is_used; rewrite F1; apply Hrel|]. repeat split; assumption. }
  destruct Hr as [-> | ->].
  - change (T_PUBACK =? 1) with false. change (T_PUBACK =? 2) with false. change (T_PUBACK =? 3) with false.
    change ((T_PUBACK =? 4) || (T_PUBACK =? 5) || (T_PUBACK =? 7) || (T_PUBACK =? 9) || (T_PUBACK =? 11)) with true. cbv iota.
    unfold recv_ack. cbv zeta. change (T_PUBACK =? T_PUBACK) with true in *. cbv iota in *. rewrite Hm. cbn [version_eqb].
    destruct (ack_PA_own g c (k_pid a) HO Hm) as (O1 & _ & _). cbv zeta in O1. rewrite Rv in O1.
    apply (Hfin _ O1). unfold is_used, store_erase in *. conn_simpl_goal. exact Hu.
  - change (T_PUBCOMP =? 1) with false. change (T_PUBCOMP =? 2) with false. change (T_PUBCOMP =? 3) with false.
    change ((T_PUBCOMP =? 4) || (T_PUBCOMP =? 5) || (T_PUBCOMP =? 7) || (T_PUBCOMP =? 9) || (T_PUBCOMP =? 11)) with true. cbv iota.
    unfold recv_ack. cbv zeta. change (T_PUBCOMP =? T_PUBACK) with false in *. change (T_PUBCOMP =? T_PUBREC) with false.
    change (T_PUBCOMP =? T_PUBCOMP) with true. cbv iota in *. rewrite Hm. cbn [version_eqb].
    destruct (ack_PC_own g c (k_pid a) HO Hm) as (O1 & _ & _). cbv zeta in O1. rewrite Rv in O1.
    apply (Hfin _ O1). unfold is_used, store_erase in *. conn_simpl_goal. exact Hu.
Qed.

(* ---- the system: two endpoints, two FIFO links ---- *)
Section Conc.
Variables gs gr : cfg.

Definition is_pub (x : pkt) : bool := k_type x =? T_PUBLISH.
Definition pubrel_of (id : N) : pkt := ack_pkt gs T_PUBREL V311 id None.
Definition ack_of (t id : N) : pkt := ack_pkt gr t V311 id None.
Definition ids (l : list pkt) : list N := map k_pid l.

Record sys := mkSys { cs : conn; cr : conn; qsr : list pkt; qrs : list pkt; published : list pkt; delivered : list pkt }.

Inductive act := Pub (p : pkt) | ToR | ToS.
Inductive res3 := Next (s : sys) | Skip | Bad.

(* the application publishes: Skip = its own precondition does not hold (identifier out of range, in use or awaited) *)
Definition do_pub (s : sys) (p : pkt) : res3 :=
  let id := k_pid p in
  if negb ((1 <=? id) && (id <=? g_idmax gs) && negb (is_used (cs s) id) && freshb (cs s) id) then Skip else
  match step gs (cs s) (ORegister id) with
  | Ok (cs0, [], [1]) =>
    match step gs cs0 (OSend p) with
    | Ok (cs1, e1, _) =>
      match one (sends e1) with
      | Some p1 => if negb (none (notifies e1) && none (errors e1)) then Bad
                   else Next (mkSys cs1 (cr s) (qsr s ++ [p1]) (qrs s) (published s ++ [p]) (delivered s))
      | None => Bad
      end
    | Panic _ => Bad
    end
  | _ => Bad
  end.

(* the link hands the next packet to the receiver: it must answer with exactly one packet and no error *)
Definition do_to_r (s : sys) : res3 :=
  match qsr s with
  | [] => Skip
  | x :: t =>
    match deliver gr (cr s) x with
    | Ok (cr1, e) =>
      match one (sends e) with
      | Some a => if negb (none (errors e)) then Bad
                  else Next (mkSys (cs s) cr1 t (qrs s ++ [a]) (published s) (delivered s ++ filter is_pub (notifies e)))
      | None => Bad
      end
    | Panic _ => Bad
    end
  end.

(* the link hands the next packet to the sender: either it answers with one packet and keeps the identifier, or it
   answers with nothing and releases exactly that identifier *)
Definition do_to_s (s : sys) : res3 :=
  match qrs s with
  | [] => Skip
  | x :: t =>
    match deliver gs (cs s) x with
    | Ok (cs1, e) =>
      if negb (none (errors e)) then Bad else
      match sends e with
      | [] => match released e with
              | [i] => if i =? k_pid x then Next (mkSys cs1 (cr s) (qsr s) t (published s) (delivered s)) else Bad
              | _ => Bad
              end
      | [r] => if none (released e) then Next (mkSys cs1 (cr s) (qsr s ++ [r]) t (published s) (delivered s)) else Bad
      | _ => Bad
      end
    | Panic _ => Bad
    end
  end.

Definition do_act (s : sys) (a : act) : res3 :=
  match a with Pub p => do_pub s p | ToR => do_to_r s | ToS => do_to_s s end.

(* a schedule; Skip steps leave the system as it is *)
Fixpoint run_sched (s : sys) (l : list act) : option sys :=
  match l with
  | [] => Some s
  | a :: t => match do_act s a with Next s' => run_sched s' t | Skip => run_sched s t | Bad => None end
  end.

(* ---- the pair invariant ---- *)
Definition fl_sr (c : conn) (x : pkt) : Prop :=
  is_used c (k_pid x) = true /\
  ((v311_pub x 1 /\ mem (k_pid x) (c_puback c) = true) \/
   (v311_pub x 2 /\ mem (k_pid x) (c_pubrec c) = true) \/
   (x = pubrel_of (k_pid x) /\ mem (k_pid x) (c_pubcomp c) = true)).
Definition fl_rs (c : conn) (x : pkt) : Prop :=
  is_used c (k_pid x) = true /\
  ((x = ack_of T_PUBACK (k_pid x) /\ mem (k_pid x) (c_puback c) = true) \/
   (x = ack_of T_PUBREC (k_pid x) /\ mem (k_pid x) (c_pubrec c) = true) \/
   (x = ack_of T_PUBCOMP (k_pid x) /\ mem (k_pid x) (c_pubcomp c) = true)).

Definition inv (s : sys) : Prop :=
  OWN gs (cs s) /\ ready (cs s) /\ c_auto_pub (cs s) = true /\
  ready (cr s) /\ c_auto_pub (cr s) = true /\ asc 1 (g_idmax gs) (c_qos2 (cr s)) /\
  Forall (fl_sr (cs s)) (qsr s) /\ Forall (fl_rs (cs s)) (qrs s) /\
  NoDup (ids (qsr s) ++ ids (qrs s)) /\
  (forall y, mem y (c_qos2 (cr s)) = true -> In (ack_of T_PUBREC y) (qrs s) \/ In (pubrel_of y) (qsr s)) /\
  published s = delivered s ++ filter is_pub (qsr s).

(* the sender's state agrees with an earlier one except at one identifier *)
Definition AE (c' c : conn) (id : N) : Prop :=
  forall y, y <> id -> mem y (c_puback c') = mem y (c_puback c) /\ mem y (c_pubrec c') = mem y (c_pubrec c) /\
                       mem y (c_pubcomp c') = mem y (c_pubcomp c) /\ is_used c' y = is_used c y.
Lemma fl_sr_frame c' c id x : AE c' c id -> k_pid x <> id -> fl_sr c x -> fl_sr c' x.
Proof. intros H Hne [Hu Hc]. destruct (H _ Hne) as (H1 & H2 & H3 & H4). unfold fl_sr. rewrite H1, H2, H3, H4. split; assumption. Qed.
Lemma fl_rs_frame c' c id x : AE c' c id -> k_pid x <> id -> fl_rs c x -> fl_rs c' x.
Proof. intros H Hne [Hu Hc]. destruct (H _ Hne) as (H1 & H2 & H3 & H4). unfold fl_rs. rewrite H1, H2, H3, H4. split; assumption. Qed.
Lemma Forall_frame (P Q : pkt -> Prop) l id : (forall x, k_pid x <> id -> P x -> Q x) -> ~ In id (ids l) -> Forall P l -> Forall Q l.
Proof.
  intros H Hn Hf. induction Hf as [|x t Hx Ht IH]; constructor.
  - apply H; [|exact Hx]. intro E. apply Hn. left. exact E.
  - apply IH. intro Hi. apply Hn. right. exact Hi.
Qed.

Lemma mem_del_ne l y id : asc 1 (g_idmax gs) l -> y <> id -> mem y (del id l) = mem y l.
Proof. intros Ha Hne. rewrite (mem_del gs y id l Ha). apply N.eqb_neq in Hne. rewrite Hne. apply andb_true_r. Qed.
Lemma mem_ins_ne l y id : y <> id -> mem y (ins id l) = mem y l.
Proof. intro Hne. rewrite mem_ins. apply N.eqb_neq in Hne. now rewrite Hne. Qed.

Lemma ids_app a b : ids (a ++ b) = ids a ++ ids b. Proof. unfold ids. apply map_app. Qed.
Lemma in_ids x l : In x l -> In (k_pid x) (ids l). Proof. unfold ids. apply in_map. Qed.
Lemma flight_used_sr c l i : Forall (fl_sr c) l -> In i (ids l) -> is_used c i = true.
Proof. intros Hf Hi. unfold ids in Hi. apply in_map_iff in Hi as (x & <- & Hx). rewrite Forall_forall in Hf. apply (Hf x Hx). Qed.
Lemma flight_used_rs c l i : Forall (fl_rs c) l -> In i (ids l) -> is_used c i = true.
Proof. intros Hf Hi. unfold ids in Hi. apply in_map_iff in Hi as (x & <- & Hx). rewrite Forall_forall in Hf. apply (Hf x Hx). Qed.
Lemma nodup_move (i : N) (l1 l2 : list N) : NoDup (i :: l1 ++ l2) -> NoDup (l1 ++ l2 ++ [i]).
Proof. intro H. rewrite app_assoc. apply (Permutation_NoDup (Permutation_cons_append (l1 ++ l2) i) H). Qed.
Lemma pubrel_type id : k_type (pubrel_of id) = T_PUBREL. Proof. reflexivity. Qed.
Lemma pubrel_pid id : k_pid (pubrel_of id) = id. Proof. reflexivity. Qed.
Lemma ack_pid t id : k_pid (ack_of t id) = id. Proof. reflexivity. Qed.
Lemma ack_type t id : k_type (ack_of t id) = t. Proof. reflexivity. Qed.

Ltac fold_acks :=
  repeat match goal with
         | |- context [ack_pkt gr ?t V311 ?i None] => change (ack_pkt gr t V311 i None) with (ack_of t i)
         | |- context [ack_pkt gs T_PUBREL V311 ?i None] => change (ack_pkt gs T_PUBREL V311 i None) with (pubrel_of i)
         end.

(* ---- a packet reaches the receiver ---- *)
Lemma to_r_ok s : inv s -> match do_to_r s with Next s' => inv s' | Skip => True | Bad => False end.
Proof.
  destruct s as [cs0 cr0 qsr0 qrs0 pub0 del0]. unfold inv, do_to_r. cbn [cs cr qsr qrs published delivered].
  intros (HO & Rs & Has & Rr & Har & Hasc & Fsr & Frs & Hnd & Hq & Hpd).
  destruct qsr0 as [|x t]; [exact I|]. inversion Fsr as [|? ? Hx Ht]; subst. cbn [ids map app] in Hnd.
  assert (Hnx : ~ In (k_pid x) (ids t ++ ids qrs0)) by (apply NoDup_cons_iff in Hnd; apply Hnd).
  destruct Hx as [Hu [[Hp Hm]|[[Hp Hm]|[He Hm]]]].
  - (* QoS 1 PUBLISH *)
    pose proof (receiver_q1_x gr cr0 x Rr Har Hp) as H.
    destruct (deliver gr cr0 x) as [[cr1 e]|]; [|destruct H]. destruct H as (N1 & S1 & X1 & Rr1 & Ar1 & Q1).
    rewrite S1, X1, N1. fold_acks. cbn [one none negb filter]. destruct Hp as (Htp & Hv & Hqq).
    assert (Hip : is_pub x = true) by (unfold is_pub; rewrite Htp; reflexivity). rewrite Hip.
    cbn [cs cr qsr qrs published delivered].
    split; [exact HO|]. split; [exact Rs|]. split; [exact Has|]. split; [exact Rr1|]. split; [exact Ar1|]. split; [rewrite Q1; exact Hasc|].
    split; [exact Ht|]. split.
    { apply Forall_app. split; [exact Frs|]. constructor; [|constructor]. unfold fl_rs. rewrite ack_pid. split; [exact Hu|]. left. split; [reflexivity|exact Hm]. }
    split; [rewrite ids_app; cbn [ids map]; rewrite ack_pid; apply nodup_move; exact Hnd|].
    split.
    { intros y Hy. rewrite Q1 in Hy. destruct (Hq y Hy) as [Hi|Hi]; [left; apply in_or_app; now left|].
      destruct Hi as [Hi|Hi]; [|now right]. exfalso. rewrite Hi in Htp. rewrite pubrel_type in Htp. discriminate. }
    cbn [filter]. rewrite ?Hip. rewrite <- app_assoc. reflexivity.
  - (* QoS 2 PUBLISH *)
    assert (Hn2 : mem (k_pid x) (c_qos2 cr0) = false).
    { destruct (mem (k_pid x) (c_qos2 cr0)) eqn:E; [|reflexivity]. exfalso. destruct (Hq _ E) as [Hi|Hi].
      - apply Hnx. apply in_or_app. right. apply in_ids in Hi. rewrite ack_pid in Hi. exact Hi.
      - destruct Hi as [Hi|Hi].
        + destruct Hp as (Htp & _). rewrite Hi in Htp. rewrite pubrel_type in Htp. discriminate.
        + apply Hnx. apply in_or_app. left. apply in_ids in Hi. rewrite pubrel_pid in Hi. exact Hi. }
    pose proof (receiver_q2_x gr cr0 x Rr Har Hp Hn2) as H.
    destruct (deliver gr cr0 x) as [[cr1 e]|]; [|destruct H]. destruct H as (N1 & S1 & X1 & Rr1 & Ar1 & Q1).
    rewrite S1, X1, N1. fold_acks. cbn [one none negb filter]. destruct Hp as (Htp & Hv & Hqq).
    assert (Hip : is_pub x = true) by (unfold is_pub; rewrite Htp; reflexivity). rewrite Hip.
    cbn [cs cr qsr qrs published delivered].
    pose proof (used_range gs _ _ (o_wf _ _ _ _ _ _ _ _ _ HO) Hu) as Hrg.
    split; [exact HO|]. split; [exact Rs|]. split; [exact Has|]. split; [exact Rr1|]. split; [exact Ar1|].
    split; [rewrite Q1; unfold ins; apply asc_insert; [exact Hasc|apply Hrg|apply Hrg]|].
    split; [exact Ht|]. split.
    { apply Forall_app. split; [exact Frs|]. constructor; [|constructor]. unfold fl_rs. rewrite ack_pid. split; [exact Hu|]. right. left. split; [reflexivity|exact Hm]. }
    split; [rewrite ids_app; cbn [ids map]; rewrite ack_pid; apply nodup_move; exact Hnd|].
    split.
    { intros y Hy. rewrite Q1, mem_ins in Hy. apply orb_true_iff in Hy as [Hy|Hy].
      - apply N.eqb_eq in Hy. subst y. left. apply in_or_app. right. now left.
      - destruct (Hq y Hy) as [Hi|Hi]; [left; apply in_or_app; now left|].
        destruct Hi as [Hi|Hi]; [|now right]. exfalso. rewrite Hi in Htp. rewrite pubrel_type in Htp. discriminate. }
    cbn [filter]. rewrite ?Hip. rewrite <- app_assoc. reflexivity.
  - (* PUBREL *)
    assert (Htp : k_type x = T_PUBREL) by (rewrite He; reflexivity).
    pose proof (receiver_pubrel_x gr cr0 x Rr Har Htp) as H.
    destruct (deliver gr cr0 x) as [[cr1 e]|]; [|destruct H]. destruct H as (N1 & S1 & X1 & Rr1 & Ar1 & Q1).
    rewrite S1, X1, N1. fold_acks. cbn [one none negb filter].
    assert (Hip : is_pub x = false) by (unfold is_pub; rewrite Htp; reflexivity). rewrite Hip.
    cbn [cs cr qsr qrs published delivered].
    split; [exact HO|]. split; [exact Rs|]. split; [exact Has|]. split; [exact Rr1|]. split; [exact Ar1|].
    split; [rewrite Q1; unfold del; apply asc_remove; exact Hasc|].
    split; [exact Ht|]. split.
    { apply Forall_app. split; [exact Frs|]. constructor; [|constructor]. unfold fl_rs. rewrite ack_pid. split; [exact Hu|]. right. right. split; [reflexivity|exact Hm]. }
    split; [rewrite ids_app; cbn [ids map]; rewrite ack_pid; apply nodup_move; exact Hnd|].
    split.
    { intros y Hy. rewrite Q1 in Hy. rewrite (mem_del gs y (k_pid x) _ Hasc) in Hy. apply andb_true_iff in Hy as [Hy Hne]. apply negb_true_iff, N.eqb_neq in Hne.
      destruct (Hq y Hy) as [Hi|Hi]; [left; apply in_or_app; now left|].
      destruct Hi as [Hi|Hi]; [|now right]. exfalso. apply Hne. rewrite Hi. reflexivity. }
    cbn [filter]. rewrite ?Hip. rewrite app_nil_r. reflexivity.
Qed.

(* ---- a packet reaches the sender ---- *)
Lemma ae_final c2 c id : OWN gs c ->
  (forall y, is_used c2 y = is_used c y && negb (y =? id)) ->
  (c_puback c2 = del id (c_puback c) /\ c_pubcomp c2 = c_pubcomp c \/ c_puback c2 = c_puback c /\ c_pubcomp c2 = del id (c_pubcomp c)) ->
  c_pubrec c2 = c_pubrec c -> AE c2 c id.
Proof.
  intros HO Hu Hs Hb y Hne. destruct (o_asc _ _ _ _ _ _ _ _ _ HO) as (A1 & A2 & A3 & _).
  rewrite Hb, Hu. assert (E : (y =? id) = false) by now apply N.eqb_neq. rewrite E, andb_true_r.
  destruct Hs as [[-> ->]|[-> ->]]; rewrite ?(mem_del_ne _ y id A1 Hne), ?(mem_del_ne _ y id A3 Hne); repeat split.
Qed.

Lemma to_s_ok s : inv s -> match do_to_s s with Next s' => inv s' | Skip => True | Bad => False end.
Proof.
  destruct s as [cs0 cr0 qsr0 qrs0 pub0 del0]. unfold inv, do_to_s. cbn [cs cr qsr qrs published delivered].
  intros (HO & Rs & Has & Rr & Har & Hasc & Fsr & Frs & Hnd & Hq & Hpd).
  destruct qrs0 as [|x t]; [exact I|]. inversion Frs as [|? ? Hx Ht]; subst. cbn [ids map] in Hnd.
  assert (Hnx : ~ In (k_pid x) (ids qsr0 ++ ids t)) by (apply NoDup_remove_2 in Hnd; exact Hnd).
  assert (Hn1 : ~ In (k_pid x) (ids qsr0)) by (intro Hi; apply Hnx; apply in_or_app; now left).
  assert (Hn2 : ~ In (k_pid x) (ids t)) by (intro Hi; apply Hnx; apply in_or_app; now right).
  destruct Hx as [Hu [[He Hm]|[[He Hm]|[He Hm]]]].
  - (* PUBACK *)
    assert (Hv : k_ver x = V311) by (rewrite He; reflexivity). assert (Htp : k_type x = T_PUBACK) by (rewrite He; reflexivity).
    pose proof (sender_final_ack_x gs cs0 x T_PUBACK HO Rs Hv Htp (or_introl eq_refl) Hm Hu) as H.
    pose proof (sender_final_sets gs cs0 x T_PUBACK HO Rs Hv Htp (or_introl eq_refl) Hm Hu) as H'.
    destruct (deliver gs cs0 x) as [[c2 e]|]; [|destruct H]. destruct H as (L1 & S1 & X1 & O2 & R2 & A2 & _ & _).
    destruct H' as (U2 & P1 & P2 & P3). change (T_PUBACK =? T_PUBACK) with true in P1, P3. cbv iota in P1, P3.
    rewrite X1, S1, L1, N.eqb_refl. cbn [none negb]. cbn [cs cr qsr qrs published delivered].
    assert (HA : AE c2 cs0 (k_pid x)) by (apply ae_final; [exact HO|exact U2|left; split; assumption|exact P2]).
    split; [exact O2|]. split; [exact R2|]. split; [congruence|]. split; [exact Rr|]. split; [exact Har|]. split; [exact Hasc|].
    split; [apply (Forall_frame (fl_sr cs0) (fl_sr c2) qsr0 (k_pid x)); [intros z Hz Hfz; exact (fl_sr_frame c2 cs0 (k_pid x) z HA Hz Hfz)|exact Hn1|exact Fsr]|].
    split; [apply (Forall_frame (fl_rs cs0) (fl_rs c2) t (k_pid x)); [intros z Hz Hfz; exact (fl_rs_frame c2 cs0 (k_pid x) z HA Hz Hfz)|exact Hn2|exact Ht]|].
    split; [apply NoDup_remove_1 in Hnd; exact Hnd|].
    split; [|reflexivity].
    intros y Hy. destruct (Hq y Hy) as [Hi|Hi]; [|now right]. destruct Hi as [Hi|Hi]; [|now left].
    exfalso. rewrite Hi in Htp. rewrite ack_type in Htp. discriminate.
  - (* PUBREC *)
    assert (Hv : k_ver x = V311) by (rewrite He; reflexivity). assert (Htp : k_type x = T_PUBREC) by (rewrite He; reflexivity).
    pose proof (sender_pubrec_x gs cs0 x HO Rs Has Hv Htp Hm Hu) as H.
    pose proof (sender_pubrec_sets gs cs0 x HO Rs Has Hv Htp Hm Hu) as H'.
    destruct (deliver gs cs0 x) as [[c2 e]|]; [|destruct H]. destruct H as (S1 & X1 & L1 & O2 & R2 & A2 & U2 & M2).
    destruct H' as (P0 & P1 & P2 & P3).
    rewrite X1, S1, L1. fold_acks. cbn [none negb]. cbn [cs cr qsr qrs published delivered].
    destruct (o_asc _ _ _ _ _ _ _ _ _ HO) as (A1' & A2' & A3' & _).
    assert (HA : AE c2 cs0 (k_pid x)).
    { intros y Hne. rewrite P1, P2, P3. rewrite (mem_del_ne _ y _ A2' Hne), (mem_ins_ne _ y _ Hne). unfold is_used. rewrite P0. repeat split. }
    split; [exact O2|]. split; [exact R2|]. split; [exact A2|]. split; [exact Rr|]. split; [exact Har|]. split; [exact Hasc|].
    split.
    { apply Forall_app. split; [apply (Forall_frame (fl_sr cs0) (fl_sr c2) qsr0 (k_pid x)); [intros z Hz Hfz; exact (fl_sr_frame c2 cs0 (k_pid x) z HA Hz Hfz)|exact Hn1|exact Fsr]|].
      constructor; [|constructor]. unfold fl_sr. rewrite pubrel_pid. split; [exact U2|]. right. right. split; [reflexivity|exact M2]. }
    split; [apply (Forall_frame (fl_rs cs0) (fl_rs c2) t (k_pid x)); [intros z Hz Hfz; exact (fl_rs_frame c2 cs0 (k_pid x) z HA Hz Hfz)|exact Hn2|exact Ht]|].
    split; [rewrite ids_app; cbn [ids map]; rewrite pubrel_pid; rewrite <- app_assoc; exact Hnd|].
    split.
    { intros y Hy. destruct (Hq y Hy) as [Hi|Hi]; [|right; apply in_or_app; now left]. destruct Hi as [Hi|Hi]; [|now left].
      right. apply in_or_app. right. left. rewrite Hi. reflexivity. }
    rewrite filter_app. cbn [filter]. change (is_pub (pubrel_of (k_pid x))) with false. cbv iota. rewrite app_nil_r. reflexivity.
  - (* PUBCOMP *)
    assert (Hv : k_ver x = V311) by (rewrite He; reflexivity). assert (Htp : k_type x = T_PUBCOMP) by (rewrite He; reflexivity).
    pose proof (sender_final_ack_x gs cs0 x T_PUBCOMP HO Rs Hv Htp (or_intror eq_refl) Hm Hu) as H.
    pose proof (sender_final_sets gs cs0 x T_PUBCOMP HO Rs Hv Htp (or_intror eq_refl) Hm Hu) as H'.
    destruct (deliver gs cs0 x) as [[c2 e]|]; [|destruct H]. destruct H as (L1 & S1 & X1 & O2 & R2 & A2 & _ & _).
    destruct H' as (U2 & P1 & P2 & P3). change (T_PUBCOMP =? T_PUBACK) with false in P1, P3. cbv iota in P1, P3.
    rewrite X1, S1, L1, N.eqb_refl. cbn [none negb]. cbn [cs cr qsr qrs published delivered].
    assert (HA : AE c2 cs0 (k_pid x)) by (apply ae_final; [exact HO|exact U2|right; split; assumption|exact P2]).
    split; [exact O2|]. split; [exact R2|]. split; [congruence|]. split; [exact Rr|]. split; [exact Har|]. split; [exact Hasc|].
    split; [apply (Forall_frame (fl_sr cs0) (fl_sr c2) qsr0 (k_pid x)); [intros z Hz Hfz; exact (fl_sr_frame c2 cs0 (k_pid x) z HA Hz Hfz)|exact Hn1|exact Fsr]|].
    split; [apply (Forall_frame (fl_rs cs0) (fl_rs c2) t (k_pid x)); [intros z Hz Hfz; exact (fl_rs_frame c2 cs0 (k_pid x) z HA Hz Hfz)|exact Hn2|exact Ht]|].
    split; [apply NoDup_remove_1 in Hnd; exact Hnd|].
    split; [|reflexivity].
    intros y Hy. destruct (Hq y Hy) as [Hi|Hi]; [|now right]. destruct Hi as [Hi|Hi]; [|now left].
    exfalso. rewrite Hi in Htp. rewrite ack_type in Htp. discriminate.
Qed.

(* ---- the application publishes ---- *)
Lemma register_ae c id : OWN gs c -> 1 <= id <= g_idmax gs -> is_used c id = false ->
  exists a, step gs c (ORegister id) = Ok (set_pid c a, [], [1]) /\ OWN gs (set_pid c a) /\ is_used (set_pid c a) id = true /\
            (forall y, y <> id -> is_used (set_pid c a) y = is_used c y).
Proof.
  intros HO Hr Hu. pose proof (o_wf _ _ _ _ _ _ _ _ _ HO) as W. change (WFa gs (c_pid c)) with (WFpid gs c) in W.
  pose proof (register_spec gs c id W) as H. pose proof (register_own gs c id HO) as HO'.
  assert (Hfree : free_in c id = true).
  { rewrite (is_used_spec gs c id W) in Hu. destruct (free_in c id); [reflexivity|].
    assert ((1 <=? id) = true) by (apply N.leb_le; lia). assert ((id <=? g_idmax gs) = true) by (apply N.leb_le; lia).
    rewrite H0, H1 in Hu. discriminate. }
  cbn [step] in H |- *. destruct (pm_register (c_pid c) id) as [b a]. cbn [snd] in HO'. destruct H as (_ & Hb & Hfr & W').
  rewrite Hfree in Hb. destruct b; cbn [b2n n2b] in Hb |- *; [|discriminate Hb].
  exists a. split; [reflexivity|]. split; [exact HO'|]. split.
  - rewrite (is_used_spec gs _ id W'), Hfr, N.eqb_refl, andb_false_r. cbn [negb].
    assert (E1 : (1 <=? id) = true) by (apply N.leb_le; lia). assert (E2 : (id <=? g_idmax gs) = true) by (apply N.leb_le; lia).
    rewrite E1, E2. reflexivity.
  - intros y Hne. rewrite (is_used_spec gs _ y W'), (is_used_spec gs c y W), Hfr. apply N.eqb_neq in Hne. rewrite Hne. cbn [negb]. now rewrite andb_true_r.
Qed.

Lemma pub_ok s p q : inv s -> v311_pub p q -> q = 1 \/ q = 2 ->
  match do_pub s p with Next s' => inv s' | Skip => True | Bad => False end.
Proof.
  destruct s as [cs0 cr0 qsr0 qrs0 pub0 del0]. unfold inv, do_pub. cbn [cs cr qsr qrs published delivered]. cbv zeta.
  intros (HO & Rs & Has & Rr & Har & Hasc & Fsr & Frs & Hnd & Hq & Hpd) Hp Hqq.
  destruct (negb _) eqn:Epre; [exact I|]. apply negb_false_iff in Epre.
  apply andb_true_iff in Epre as [Epre E4]. apply andb_true_iff in Epre as [Epre E3]. apply andb_true_iff in Epre as [E1 E2].
  apply N.leb_le in E1, E2. apply negb_true_iff in E3. apply freshb_spec in E4.
  destruct (register_ae cs0 (k_pid p) HO (conj E1 E2) E3) as (a & Ereg & O0 & U0 & Hu0). rewrite Ereg.
  set (c0 := set_pid cs0 a) in *.
  assert (R0 : ready c0) by exact Rs. assert (F0 : fresh c0 (k_pid p)) by exact E4.
  rewrite (step_send_publish_v311 gs c0 p q (proj1 R0) Hp).
  pose proof (sender_sends_x gs c0 p q O0 R0 Hp ltac:(lia) F0 U0) as H1.
  pose proof (sender_sends_sets c0 p q Hp ltac:(lia) (proj2 R0) U0 (proj2 F0)) as H1'.
  destruct (send_publish_v311 c0 p) as [[c1 e1]|]; cbn [bindr]; [|destruct H1].
  destruct H1 as (S1 & N1 & X1 & O1 & R1 & U1 & A1 & M1). destruct H1' as (P0 & P3 & P1 & P2).
  rewrite S1, N1, X1. cbn [one none andb negb]. cbn [cs cr qsr qrs published delivered].
  assert (Hn1 : ~ In (k_pid p) (ids qsr0)) by (intro Hi; rewrite (flight_used_sr cs0 qsr0 _ Fsr Hi) in E3; discriminate).
  assert (Hn2 : ~ In (k_pid p) (ids qrs0)) by (intro Hi; rewrite (flight_used_rs cs0 qrs0 _ Frs Hi) in E3; discriminate).
  assert (HA : AE c1 cs0 (k_pid p)).
  { intros y Hne. rewrite P1, P2, P3. unfold is_used at 1. rewrite P0. fold (is_used c0 y). rewrite (Hu0 y Hne).
    change (c_puback c0) with (c_puback cs0). change (c_pubrec c0) with (c_pubrec cs0). change (c_pubcomp c0) with (c_pubcomp cs0).
    destruct (q =? 2); rewrite ?(mem_ins_ne _ y _ Hne); repeat split. }
  assert (Hip : is_pub p = true) by (destruct Hp as (Htp & _); unfold is_pub; rewrite Htp; reflexivity).
  split; [exact O1|]. split; [exact R1|]. split; [rewrite A1; exact Has|]. split; [exact Rr|]. split; [exact Har|]. split; [exact Hasc|].
  split.
  { apply Forall_app. split; [apply (Forall_frame (fl_sr cs0) (fl_sr c1) qsr0 (k_pid p)); [intros z Hz Hfz; exact (fl_sr_frame c1 cs0 (k_pid p) z HA Hz Hfz)|exact Hn1|exact Fsr]|].
    constructor; [|constructor]. unfold fl_sr. split; [exact U1|].
    destruct Hqq as [-> | ->]; [left|right; left]; (split; [exact Hp|exact M1]). }
  split; [apply (Forall_frame (fl_rs cs0) (fl_rs c1) qrs0 (k_pid p)); [intros z Hz Hfz; exact (fl_rs_frame c1 cs0 (k_pid p) z HA Hz Hfz)|exact Hn2|exact Frs]|].
  split.
  { rewrite ids_app. cbn [ids map]. rewrite <- app_assoc. cbn [app].
    apply (Permutation_NoDup (Permutation_middle (ids qsr0) (ids qrs0) (k_pid p))). constructor; [|exact Hnd].
    intro Hi. apply in_app_or in Hi as [Hi|Hi]; [exact (Hn1 Hi)|exact (Hn2 Hi)]. }
  split; [intros y Hy; destruct (Hq y Hy) as [Hi|Hi]; [now left|right; apply in_or_app; now left]|].
  rewrite Hpd, filter_app. cbn [filter]. rewrite Hip. rewrite <- app_assoc. reflexivity.
Qed.

(* ---- every schedule ---- *)
Definition good_act (a : act) : Prop := match a with Pub p => v311_pub p 1 \/ v311_pub p 2 | _ => True end.

Lemma act_ok s a : inv s -> good_act a -> match do_act s a with Next s' => inv s' | Skip => True | Bad => False end.
Proof.
  intros Hi Hg. destruct a as [p| |]; cbn [do_act good_act] in *.
  - destruct Hg as [Hg|Hg]; [apply (pub_ok s p 1 Hi Hg); now left|apply (pub_ok s p 2 Hi Hg); now right].
  - now apply to_r_ok.
  - now apply to_s_ok.
Qed.

Theorem sched_ok : forall l s, inv s -> Forall good_act l -> exists s', run_sched s l = Some s' /\ inv s'.
Proof.
  induction l as [|a t IH]; intros s Hi Hf; cbn [run_sched]; [exists s; split; [reflexivity|exact Hi]|].
  inversion Hf as [|? ? Ha Ht]; subst. pose proof (act_ok s a Hi Ha) as H.
  destruct (do_act s a) as [s'| |]; [exact (IH s' H Ht)|exact (IH s Hi Ht)|destruct H].
Qed.

(* ---- termination: a measure on the packets in flight ---- *)
Definition w_sr (x : pkt) : nat := if is_pub x then (if k_qos x =? 1 then 2 else 4)%nat else 2%nat.
Definition w_rs (x : pkt) : nat := if k_type x =? T_PUBREC then 3%nat else 1%nat.
Definition wsum (f : pkt -> nat) (l : list pkt) : nat := fold_right (fun x n => (f x + n)%nat) 0%nat l.
Lemma wsum_app f a b : wsum f (a ++ b) = (wsum f a + wsum f b)%nat.
Proof. unfold wsum. induction a as [|x t IH]; cbn [fold_right app]; [reflexivity|]. rewrite IH. lia. Qed.
Definition measure (s : sys) : nat := (wsum w_sr (qsr s) + wsum w_rs (qrs s))%nat.
Lemma w_sr_pos x : (1 <= w_sr x)%nat. Proof. unfold w_sr. destruct (is_pub x); [destruct (k_qos x =? 1)|]; lia. Qed.
Lemma w_rs_pos x : (1 <= w_rs x)%nat. Proof. unfold w_rs. destruct (k_type x =? T_PUBREC); lia. Qed.

Lemma wsum_cons f x t : wsum f (x :: t) = (f x + wsum f t)%nat. Proof. reflexivity. Qed.
Lemma wsum_nil f : wsum f [] = 0%nat. Proof. reflexivity. Qed.
Lemma w_sr_pub1 x : is_pub x = true -> k_qos x = 1 -> w_sr x = 2%nat. Proof. intros H1 H2. unfold w_sr. rewrite H1, H2. reflexivity. Qed.
Lemma w_sr_pub2 x : is_pub x = true -> k_qos x = 2 -> w_sr x = 4%nat. Proof. intros H1 H2. unfold w_sr. rewrite H1, H2. reflexivity. Qed.
Lemma w_sr_rel x : is_pub x = false -> w_sr x = 2%nat. Proof. intros H1. unfold w_sr. rewrite H1. reflexivity. Qed.
Lemma w_sr_pubrel id : w_sr (pubrel_of id) = 2%nat. Proof. reflexivity. Qed.
Lemma w_rs_ack t id : w_rs (ack_of t id) = if t =? T_PUBREC then 3%nat else 1%nat. Proof. reflexivity. Qed.
Lemma w_rs_type x t : k_type x = t -> w_rs x = if t =? T_PUBREC then 3%nat else 1%nat. Proof. intros <-. reflexivity. Qed.

Ltac meas :=
  unfold measure; cbn [qsr qrs]; rewrite ?wsum_app, ?wsum_cons, ?wsum_nil, ?w_sr_pubrel, ?w_rs_ack;
  repeat match goal with
         | Hi : is_pub ?x = true, Hq : k_qos ?x = 1 |- context [w_sr ?x] => rewrite (w_sr_pub1 x Hi Hq)
         | Hi : is_pub ?x = true, Hq : k_qos ?x = 2 |- context [w_sr ?x] => rewrite (w_sr_pub2 x Hi Hq)
         | Hi : is_pub ?x = false |- context [w_sr ?x] => rewrite (w_sr_rel x Hi)
         | Ht : k_type ?x = ?t |- context [w_rs ?x] => rewrite (w_rs_type x t Ht)
         end;
  change (T_PUBACK =? T_PUBREC) with false; change (T_PUBREC =? T_PUBREC) with true; change (T_PUBCOMP =? T_PUBREC) with false;
  cbv iota; lia.

Lemma to_r_step s : inv s -> match do_to_r s with Next s' => inv s' /\ S (measure s') = measure s | Skip => qsr s = [] | Bad => False end.
Proof.
  destruct s as [cs0 cr0 qsr0 qrs0 pub0 del0]. unfold inv, do_to_r. cbn [cs cr qsr qrs published delivered].
  intros (HO & Rs & Has & Rr & Har & Hasc & Fsr & Frs & Hnd & Hq & Hpd).
  destruct qsr0 as [|x t]; [reflexivity|]. inversion Fsr as [|? ? Hx Ht]; subst. cbn [ids map app] in Hnd.
  assert (Hnx : ~ In (k_pid x) (ids t ++ ids qrs0)) by (apply NoDup_cons_iff in Hnd; apply Hnd).
  destruct Hx as [Hu [[Hp Hm]|[[Hp Hm]|[He Hm]]]].
  - (* QoS 1 PUBLISH *)
    pose proof (receiver_q1_x gr cr0 x Rr Har Hp) as H.
    destruct (deliver gr cr0 x) as [[cr1 e]|]; [|destruct H]. destruct H as (N1 & S1 & X1 & Rr1 & Ar1 & Q1).
    rewrite S1, X1, N1. fold_acks. cbn [one none negb filter]. destruct Hp as (Htp & Hv & Hqq).
    assert (Hip : is_pub x = true) by (unfold is_pub; rewrite Htp; reflexivity). rewrite Hip.
    cbn [cs cr qsr qrs published delivered].
    split; [|meas]. split; [exact HO|]. split; [exact Rs|]. split; [exact Has|]. split; [exact Rr1|]. split; [exact Ar1|]. split; [rewrite Q1; exact Hasc|].
    split; [exact Ht|]. split.
    { apply Forall_app. split; [exact Frs|]. constructor; [|constructor]. unfold fl_rs. rewrite ack_pid. split; [exact Hu|]. left. split; [reflexivity|exact Hm]. }
    split; [rewrite ids_app; cbn [ids map]; rewrite ack_pid; apply nodup_move; exact Hnd|].
    split.
    { intros y Hy. rewrite Q1 in Hy. destruct (Hq y Hy) as [Hi|Hi]; [left; apply in_or_app; now left|].
      destruct Hi as [Hi|Hi]; [|now right]. exfalso. rewrite Hi in Htp. rewrite pubrel_type in Htp. discriminate. }
    cbn [filter]. rewrite ?Hip. rewrite <- app_assoc. reflexivity.
  - (* QoS 2 PUBLISH *)
    assert (Hn2 : mem (k_pid x) (c_qos2 cr0) = false).
    { destruct (mem (k_pid x) (c_qos2 cr0)) eqn:E; [|reflexivity]. exfalso. destruct (Hq _ E) as [Hi|Hi].
      - apply Hnx. apply in_or_app. right. apply in_ids in Hi. rewrite ack_pid in Hi. exact Hi.
      - destruct Hi as [Hi|Hi].
        + destruct Hp as (Htp & _). rewrite Hi in Htp. rewrite pubrel_type in Htp. discriminate.
        + apply Hnx. apply in_or_app. left. apply in_ids in Hi. rewrite pubrel_pid in Hi. exact Hi. }
    pose proof (receiver_q2_x gr cr0 x Rr Har Hp Hn2) as H.
    destruct (deliver gr cr0 x) as [[cr1 e]|]; [|destruct H]. destruct H as (N1 & S1 & X1 & Rr1 & Ar1 & Q1).
    rewrite S1, X1, N1. fold_acks. cbn [one none negb filter]. destruct Hp as (Htp & Hv & Hqq).
    assert (Hip : is_pub x = true) by (unfold is_pub; rewrite Htp; reflexivity). rewrite Hip.
    cbn [cs cr qsr qrs published delivered].
    pose proof (used_range gs _ _ (o_wf _ _ _ _ _ _ _ _ _ HO) Hu) as Hrg.
    split; [|meas]. split; [exact HO|]. split; [exact Rs|]. split; [exact Has|]. split; [exact Rr1|]. split; [exact Ar1|].
    split; [rewrite Q1; unfold ins; apply asc_insert; [exact Hasc|apply Hrg|apply Hrg]|].
    split; [exact Ht|]. split.
    { apply Forall_app. split; [exact Frs|]. constructor; [|constructor]. unfold fl_rs. rewrite ack_pid. split; [exact Hu|]. right. left. split; [reflexivity|exact Hm]. }
    split; [rewrite ids_app; cbn [ids map]; rewrite ack_pid; apply nodup_move; exact Hnd|].
    split.
    { intros y Hy. rewrite Q1, mem_ins in Hy. apply orb_true_iff in Hy as [Hy|Hy].
      - apply N.eqb_eq in Hy. subst y. left. apply in_or_app. right. now left.
      - destruct (Hq y Hy) as [Hi|Hi]; [left; apply in_or_app; now left|].
        destruct Hi as [Hi|Hi]; [|now right]. exfalso. rewrite Hi in Htp. rewrite pubrel_type in Htp. discriminate. }
    cbn [filter]. rewrite ?Hip. rewrite <- app_assoc. reflexivity.
  - (* PUBREL *)
    assert (Htp : k_type x = T_PUBREL) by (rewrite He; reflexivity).
    pose proof (receiver_pubrel_x gr cr0 x Rr Har Htp) as H.
    destruct (deliver gr cr0 x) as [[cr1 e]|]; [|destruct H]. destruct H as (N1 & S1 & X1 & Rr1 & Ar1 & Q1).
    rewrite S1, X1, N1. fold_acks. cbn [one none negb filter].
    assert (Hip : is_pub x = false) by (unfold is_pub; rewrite Htp; reflexivity). rewrite Hip.
    cbn [cs cr qsr qrs published delivered].
    split; [|meas]. split; [exact HO|]. split; [exact Rs|]. split; [exact Has|]. split; [exact Rr1|]. split; [exact Ar1|].
    split; [rewrite Q1; unfold del; apply asc_remove; exact Hasc|].
    split; [exact Ht|]. split.
    { apply Forall_app. split; [exact Frs|]. constructor; [|constructor]. unfold fl_rs. rewrite ack_pid. split; [exact Hu|]. right. right. split; [reflexivity|exact Hm]. }
    split; [rewrite ids_app; cbn [ids map]; rewrite ack_pid; apply nodup_move; exact Hnd|].
    split.
    { intros y Hy. rewrite Q1 in Hy. rewrite (mem_del gs y (k_pid x) _ Hasc) in Hy. apply andb_true_iff in Hy as [Hy Hne]. apply negb_true_iff, N.eqb_neq in Hne.
      destruct (Hq y Hy) as [Hi|Hi]; [left; apply in_or_app; now left|].
      destruct Hi as [Hi|Hi]; [|now right]. exfalso. apply Hne. rewrite Hi. reflexivity. }
    cbn [filter]. rewrite ?Hip. rewrite app_nil_r. reflexivity.
Qed.

Lemma to_s_step s : inv s -> match do_to_s s with Next s' => inv s' /\ S (measure s') = measure s | Skip => qrs s = [] | Bad => False end.
Proof.
  destruct s as [cs0 cr0 qsr0 qrs0 pub0 del0]. unfold inv, do_to_s. cbn [cs cr qsr qrs published delivered].
  intros (HO & Rs & Has & Rr & Har & Hasc & Fsr & Frs & Hnd & Hq & Hpd).
  destruct qrs0 as [|x t]; [reflexivity|]. inversion Frs as [|? ? Hx Ht]; subst. cbn [ids map] in Hnd.
  assert (Hnx : ~ In (k_pid x) (ids qsr0 ++ ids t)) by (apply NoDup_remove_2 in Hnd; exact Hnd).
  assert (Hn1 : ~ In (k_pid x) (ids qsr0)) by (intro Hi; apply Hnx; apply in_or_app; now left).
  assert (Hn2 : ~ In (k_pid x) (ids t)) by (intro Hi; apply Hnx; apply in_or_app; now right).
  destruct Hx as [Hu [[He Hm]|[[He Hm]|[He Hm]]]].
  - (* PUBACK *)
    assert (Hv : k_ver x = V311) by (rewrite He; reflexivity). assert (Htp : k_type x = T_PUBACK) by (rewrite He; reflexivity).
    pose proof (sender_final_ack_x gs cs0 x T_PUBACK HO Rs Hv Htp (or_introl eq_refl) Hm Hu) as H.
    pose proof (sender_final_sets gs cs0 x T_PUBACK HO Rs Hv Htp (or_introl eq_refl) Hm Hu) as H'.
    destruct (deliver gs cs0 x) as [[c2 e]|]; [|destruct H]. destruct H as (L1 & S1 & X1 & O2 & R2 & A2 & _ & _).
    destruct H' as (U2 & P1 & P2 & P3). change (T_PUBACK =? T_PUBACK) with true in P1, P3. cbv iota in P1, P3.
    rewrite X1, S1, L1, N.eqb_refl. cbn [none negb]. cbn [cs cr qsr qrs published delivered].
    assert (HA : AE c2 cs0 (k_pid x)) by (apply ae_final; [exact HO|exact U2|left; split; assumption|exact P2]).
    split; [|meas]. split; [exact O2|]. split; [exact R2|]. split; [congruence|]. split; [exact Rr|]. split; [exact Har|]. split; [exact Hasc|].
    split; [apply (Forall_frame (fl_sr cs0) (fl_sr c2) qsr0 (k_pid x)); [intros z Hz Hfz; exact (fl_sr_frame c2 cs0 (k_pid x) z HA Hz Hfz)|exact Hn1|exact Fsr]|].
    split; [apply (Forall_frame (fl_rs cs0) (fl_rs c2) t (k_pid x)); [intros z Hz Hfz; exact (fl_rs_frame c2 cs0 (k_pid x) z HA Hz Hfz)|exact Hn2|exact Ht]|].
    split; [apply NoDup_remove_1 in Hnd; exact Hnd|].
    split; [|reflexivity].
    intros y Hy. destruct (Hq y Hy) as [Hi|Hi]; [|now right]. destruct Hi as [Hi|Hi]; [|now left].
    exfalso. rewrite Hi in Htp. rewrite ack_type in Htp. discriminate.
  - (* PUBREC *)
    assert (Hv : k_ver x = V311) by (rewrite He; reflexivity). assert (Htp : k_type x = T_PUBREC) by (rewrite He; reflexivity).
    pose proof (sender_pubrec_x gs cs0 x HO Rs Has Hv Htp Hm Hu) as H.
    pose proof (sender_pubrec_sets gs cs0 x HO Rs Has Hv Htp Hm Hu) as H'.
    destruct (deliver gs cs0 x) as [[c2 e]|]; [|destruct H]. destruct H as (S1 & X1 & L1 & O2 & R2 & A2 & U2 & M2).
    destruct H' as (P0 & P1 & P2 & P3).
    rewrite X1, S1, L1. fold_acks. cbn [none negb]. cbn [cs cr qsr qrs published delivered].
    destruct (o_asc _ _ _ _ _ _ _ _ _ HO) as (A1' & A2' & A3' & _).
    assert (HA : AE c2 cs0 (k_pid x)).
    { intros y Hne. rewrite P1, P2, P3. rewrite (mem_del_ne _ y _ A2' Hne), (mem_ins_ne _ y _ Hne). unfold is_used. rewrite P0. repeat split. }
    split; [|meas]. split; [exact O2|]. split; [exact R2|]. split; [exact A2|]. split; [exact Rr|]. split; [exact Har|]. split; [exact Hasc|].
    split.
    { apply Forall_app. split; [apply (Forall_frame (fl_sr cs0) (fl_sr c2) qsr0 (k_pid x)); [intros z Hz Hfz; exact (fl_sr_frame c2 cs0 (k_pid x) z HA Hz Hfz)|exact Hn1|exact Fsr]|].
      constructor; [|constructor]. unfold fl_sr. rewrite pubrel_pid. split; [exact U2|]. right. right. split; [reflexivity|exact M2]. }
    split; [apply (Forall_frame (fl_rs cs0) (fl_rs c2) t (k_pid x)); [intros z Hz Hfz; exact (fl_rs_frame c2 cs0 (k_pid x) z HA Hz Hfz)|exact Hn2|exact Ht]|].
    split; [rewrite ids_app; cbn [ids map]; rewrite pubrel_pid; rewrite <- app_assoc; exact Hnd|].
    split.
    { intros y Hy. destruct (Hq y Hy) as [Hi|Hi]; [|right; apply in_or_app; now left]. destruct Hi as [Hi|Hi]; [|now left].
      right. apply in_or_app. right. left. rewrite Hi. reflexivity. }
    rewrite filter_app. cbn [filter]. change (is_pub (pubrel_of (k_pid x))) with false. cbv iota. rewrite app_nil_r. reflexivity.
  - (* PUBCOMP *)
    assert (Hv : k_ver x = V311) by (rewrite He; reflexivity). assert (Htp : k_type x = T_PUBCOMP) by (rewrite He; reflexivity).
    pose proof (sender_final_ack_x gs cs0 x T_PUBCOMP HO Rs Hv Htp (or_intror eq_refl) Hm Hu) as H.
    pose proof (sender_final_sets gs cs0 x T_PUBCOMP HO Rs Hv Htp (or_intror eq_refl) Hm Hu) as H'.
    destruct (deliver gs cs0 x) as [[c2 e]|]; [|destruct H]. destruct H as (L1 & S1 & X1 & O2 & R2 & A2 & _ & _).
    destruct H' as (U2 & P1 & P2 & P3). change (T_PUBCOMP =? T_PUBACK) with false in P1, P3. cbv iota in P1, P3.
    rewrite X1, S1, L1, N.eqb_refl. cbn [none negb]. cbn [cs cr qsr qrs published delivered].
    assert (HA : AE c2 cs0 (k_pid x)) by (apply ae_final; [exact HO|exact U2|right; split; assumption|exact P2]).
    split; [|meas]. split; [exact O2|]. split; [exact R2|]. split; [congruence|]. split; [exact Rr|]. split; [exact Har|]. split; [exact Hasc|].
    split; [apply (Forall_frame (fl_sr cs0) (fl_sr c2) qsr0 (k_pid x)); [intros z Hz Hfz; exact (fl_sr_frame c2 cs0 (k_pid x) z HA Hz Hfz)|exact Hn1|exact Fsr]|].
    split; [apply (Forall_frame (fl_rs cs0) (fl_rs c2) t (k_pid x)); [intros z Hz Hfz; exact (fl_rs_frame c2 cs0 (k_pid x) z HA Hz Hfz)|exact Hn2|exact Ht]|].
    split; [apply NoDup_remove_1 in Hnd; exact Hnd|].
    split; [|reflexivity].
    intros y Hy. destruct (Hq y Hy) as [Hi|Hi]; [|now right]. destruct Hi as [Hi|Hi]; [|now left].
    exfalso. rewrite Hi in Htp. rewrite ack_type in Htp. discriminate.
Qed.

Lemma to_r_pub s s' : do_to_r s = Next s' -> published s' = published s.
Proof.
  unfold do_to_r. destruct (qsr s); [discriminate|]. destruct (deliver gr (cr s) p) as [[c e]|]; [|discriminate].
  destruct (one (sends e)); [|discriminate]. destruct (negb _); [discriminate|]. intro H. injection H as <-. reflexivity.
Qed.
Lemma to_s_pub s s' : do_to_s s = Next s' -> published s' = published s.
Proof.
  unfold do_to_s. destruct (qrs s); [discriminate|]. destruct (deliver gs (cs s) p) as [[c e]|]; [|discriminate].
  destruct (negb _); [discriminate|]. destruct (sends e) as [|r [|r2 t2]]; [| |discriminate].
  - destruct (released e) as [|i [|i2 t2]]; [discriminate| |discriminate]. destruct (i =? k_pid p); [|discriminate]. intro H. injection H as <-. reflexivity.
  - destruct (none (released e)); [|discriminate]. intro H. injection H as <-. reflexivity.
Qed.

Lemma measure_zero s : measure s = 0%nat -> qsr s = [] /\ qrs s = [].
Proof.
  unfold measure. intro H. destruct (qsr s) as [|x t]; [destruct (qrs s) as [|y u]; [split; reflexivity|]|].
  - rewrite wsum_cons, wsum_nil in H. pose proof (w_rs_pos y). lia.
  - rewrite wsum_cons in H. pose proof (w_sr_pos x). lia.
Qed.

(* hand packets over, both ways in turn *)
Fixpoint drain_links (n : nat) : list act := match n with O => [] | S k => ToR :: ToS :: drain_links k end.

Theorem drain_ok : forall n s, inv s -> (measure s <= n)%nat ->
  exists s', run_sched s (drain_links n) = Some s' /\ inv s' /\ qsr s' = [] /\ qrs s' = [] /\ published s' = published s.
Proof.
  induction n as [|k IH]; intros s Hi Hm.
  - assert (H0 : measure s = 0%nat) by lia. destruct (measure_zero s H0) as [Q1 Q2]. exists s. cbn [drain_links run_sched]. split; [reflexivity|]. split; [exact Hi|]. split; [exact Q1|]. split; [exact Q2|reflexivity].
  - cbn [drain_links run_sched do_act]. pose proof (to_r_step s Hi) as H1. destruct (do_to_r s) as [s1| |] eqn:E1; [| |destruct H1].
    + destruct H1 as [Hi1 Hm1]. pose proof (to_r_pub s s1 E1) as P1.
      pose proof (to_s_step s1 Hi1) as H2. destruct (do_to_s s1) as [s2| |] eqn:E2; [| |destruct H2].
      * destruct H2 as [Hi2 Hm2]. pose proof (to_s_pub s1 s2 E2) as P2.
        destruct (IH s2 Hi2 ltac:(lia)) as (s' & R & I' & Q1 & Q2 & P'). exists s'. split; [exact R|]. split; [exact I'|]. split; [exact Q1|]. split; [exact Q2|]. congruence.
      * destruct (IH s1 Hi1 ltac:(lia)) as (s' & R & I' & Q1 & Q2 & P'). exists s'. split; [exact R|]. split; [exact I'|]. split; [exact Q1|]. split; [exact Q2|]. congruence.
    + pose proof (to_s_step s Hi) as H2. destruct (do_to_s s) as [s2| |] eqn:E2; [| |destruct H2].
      * destruct H2 as [Hi2 Hm2]. pose proof (to_s_pub s s2 E2) as P2.
        destruct (IH s2 Hi2 ltac:(lia)) as (s' & R & I' & Q1 & Q2 & P'). exists s'. split; [exact R|]. split; [exact I'|]. split; [exact Q1|]. split; [exact Q2|]. congruence.
      * assert (H0 : measure s = 0%nat) by (unfold measure; rewrite H1, H2; reflexivity).
        destruct (IH s Hi ltac:(lia)) as (s' & R & I' & Q1 & Q2 & P'). exists s'. split; [exact R|]. split; [exact I'|]. split; [exact Q1|]. split; [exact Q2|]. exact P'.
Qed.

(* THE PAIR ON AN INTACT LINK: whatever the schedule of publications and deliveries, nothing fails; and once the links
   are allowed to drain — which takes at most [measure] rounds — both are empty and the receiving application has been
   notified of exactly the published messages, once each, in order of publication *)
Theorem concurrent_exactly_once l s : inv s -> Forall good_act l ->
  exists s1 s2, run_sched s l = Some s1 /\ run_sched s1 (drain_links (measure s1)) = Some s2 /\
                inv s2 /\ qsr s2 = [] /\ qrs s2 = [] /\ delivered s2 = published s1.
Proof.
  intros Hi Hf. destruct (sched_ok l s Hi Hf) as (s1 & R1 & I1).
  destruct (drain_ok (measure s1) s1 I1 (le_n _)) as (s2 & R2 & I2 & Q1 & Q2 & P2).
  exists s1, s2. split; [exact R1|]. split; [exact R2|]. split; [exact I2|]. split; [exact Q1|]. split; [exact Q2|].
  destruct I2 as (_ & _ & _ & _ & _ & _ & _ & _ & _ & _ & Hpd). rewrite Q1 in Hpd. cbn [filter] in Hpd. rewrite app_nil_r in Hpd. congruence.
Qed.

(* two endpoints after the handshake, nothing in flight, nothing handled: the invariant holds *)
Lemma inv_init c1 c2 : OWN gs c1 -> ready c1 -> c_auto_pub c1 = true -> ready c2 -> c_auto_pub c2 = true -> c_qos2 c2 = [] ->
  inv (mkSys c1 c2 [] [] [] []).
Proof.
  intros HO R1 A1 R2 A2 Q. unfold inv. cbn [cs cr qsr qrs published delivered].
  split; [exact HO|]. split; [exact R1|]. split; [exact A1|]. split; [exact R2|]. split; [exact A2|]. split; [rewrite Q; exact I|].
  split; [constructor|]. split; [constructor|]. split; [constructor|]. split; [|reflexivity].
  intros y Hy. rewrite Q in Hy. discriminate.
Qed.
End Conc.
