(* C01 / C08, model side: AT QUIESCENCE EVERY PACKET IDENTIFIER HAS BEEN RELEASED — the v5.0 system of PairConc5.v.  As
   PairConcIds.v: the layered invariant [U] (every identifier in use at the sender belongs to a packet in flight) is kept
   by every action; with the theorem of PairConc5 the quiescent state has: links empty, every message notified once,
   the vacancy at the maximum, nothing outstanding at the receiver, and no identifier in use. *)
From Coq Require Import Permutation.
From MQ Require Import Base.Prelude Alloc.Alloc Alloc.SetSpec Alloc.AllocProofs Framing.Framing
                       Conn.Types Conn.TopicAlias Conn.ConnRecord Conn.Step Conn.Run Corr.ConnTrace Conn.Scope Conn.IdsQuota Conn.WfInv
                       Conn.Own Conn.OwnFrame Conn.OwnStep Conn.Qos2Dup Conn.TasBounds Conn.NoPanic
                       Conn.PairQos Conn.PairQos5 Conn.PairSeq Conn.PairSeq5 Conn.PairConc Conn.PairConc5 Conn.PairBi Conn.PairBi5 Conn.PairConcIds.

Section Ids5.
Variables gs gr : cfg.

Lemma to_r5_U s : inv5 gs gr s -> U s -> match do_to_r gr s with Next s' => U s' | _ => True end.
Proof.
  intros Hi HU. pose proof Hi as Hi'.
  destruct s as [cs0 cr0 qsr0 qrs0 pub0 del0]. unfold inv5, do_to_r, U in *. cbn [cs cr qsr qrs published delivered] in *.
  destruct Hi as (HO & Rs & Has & Hta & Hfs & Hcnt & Rr & Har & Hfr & Hasc & Hpr & Hrm & Fsr & Frs & Hnd & Hq & Hprp & Hplp & Hpd).
  destruct qsr0 as [|x t]; [exact I|]. pose proof (Forall_inv Fsr) as Hx.
  destruct (inv5_head gs gr cs0 cr0 x t qrs0 pub0 del0 Hi') as [Hrq Hk].
  assert (Hmove : forall a, k_pid a = k_pid x -> forall y, is_used cs0 y = true -> In y (ids t ++ ids (qrs0 ++ [a]))).
  { intros a Ha y Hy. specialize (HU y Hy). cbn [ids map app In] in HU. rewrite ids_snoc, Ha.
    destruct HU as [<-|HU]; [apply in_or_app; right; apply in_or_app; right; now left|].
    apply in_app_or in HU as [HU|HU]; apply in_or_app; [now left|right; apply in_or_app; now left]. }
  destruct Hk as [Hp|[[Hp Hn]|[Ht Hm]]].
  - pose proof (receiver_q1_5x gr cr0 x Rr Har Hp (Hrq (proj1 Hp)) Hfr) as H.
    destruct (deliver gr cr0 x) as [[cr1 e]|]; [|exact I]. destruct H as (N1 & S1 & X1 & _).
    rewrite S1, X1. cbn [one none negb]. cbn [cs cr qsr qrs published delivered]. apply Hmove. reflexivity.
  - pose proof (receiver_q2_5x gr cr0 x Rr Har Hp Hn (Hrq (proj1 Hp)) Hfr) as H.
    destruct (deliver gr cr0 x) as [[cr1 e]|]; [|exact I]. destruct H as (N1 & S1 & X1 & _).
    rewrite S1, X1. cbn [one none negb]. cbn [cs cr qsr qrs published delivered]. apply Hmove. reflexivity.
  - pose proof (receiver_pubrel5_x gr cr0 x Rr Har Hfr Ht Hm) as H.
    destruct (deliver gr cr0 x) as [[cr1 e]|]; [|exact I]. destruct H as (N1 & S1 & X1 & _).
    rewrite S1, X1. cbn [one none negb]. cbn [cs cr qsr qrs published delivered]. apply Hmove. reflexivity.
Qed.

Lemma to_s5_U s : inv5 gs gr s -> U s -> match do_to_s gs s with Next s' => U s' | _ => True end.
Proof.
  destruct s as [cs0 cr0 qsr0 qrs0 pub0 del0]. unfold inv5, do_to_s, U. cbn [cs cr qsr qrs published delivered].
  intros (HO & Rs & Has & Hta & Hfs & Hcnt & Rr & Har & Hfr & Hasc & Hpr & Hrm & Fsr & Frs & Hnd & Hq & Hprp & Hplp & Hpd) HU.
  destruct qrs0 as [|x t]; [exact I|]. pose proof (Forall_inv Frs) as Hx.
  assert (Hfinal : forall c2, (forall y, is_used c2 y = is_used cs0 y && negb (y =? k_pid x)) ->
            forall y, is_used c2 y = true -> In y (ids qsr0 ++ ids t)).
  { intros c2 U2 y Hy. rewrite U2 in Hy. apply andb_true_iff in Hy as [Hy Hne]. apply negb_true_iff, N.eqb_neq in Hne.
    specialize (HU y Hy). apply in_app_or in HU as [HU|HU]; apply in_or_app; [now left|right].
    cbn [ids map In] in HU. destruct HU as [E|HU]; [exfalso; apply Hne; symmetry; exact E|exact HU]. }
  destruct Hx as [Hu [[He Hm]|[[He Hm]|[He Hm]]]].
  - assert (Hv : k_ver x = V50) by (rewrite He; reflexivity). assert (Htp : k_type x = T_PUBACK) by (rewrite He; reflexivity).
    pose proof (sender_final_ack5_x gs cs0 x T_PUBACK HO Rs Hv Htp (or_introl eq_refl) Hm Hu) as H.
    pose proof (sender_final5_sets gs cs0 x T_PUBACK HO Rs Hv Htp (or_introl eq_refl) Hm Hu) as H'.
    destruct (deliver gs cs0 x) as [[c2 e]|]; [|exact I]. destruct H as (L1 & S1 & X1 & _). destruct H' as (U2 & _).
    rewrite X1, S1, L1, N.eqb_refl. cbn [none negb]. cbn [cs cr qsr qrs published delivered]. exact (Hfinal c2 U2).
  - assert (Hv : k_ver x = V50) by (rewrite He; reflexivity). assert (Htp : k_type x = T_PUBREC) by (rewrite He; reflexivity).
    assert (Hrc : k_rc_present x = false) by (rewrite He; reflexivity).
    pose proof (sender_pubrec5_x gs cs0 x HO Rs Has Hfs Hv Htp Hrc Hm Hu) as H.
    pose proof (sender_pubrec5_sets gs cs0 x HO Rs Has Hfs Hv Htp Hrc Hm Hu) as H'.
    destruct (deliver gs cs0 x) as [[c2 e]|]; [|exact I]. destruct H as (S1 & X1 & L1 & _). destruct H' as (P0 & _).
    rewrite X1, S1, L1. cbn [none negb]. cbn [cs cr qsr qrs published delivered].
    intros y Hy. unfold is_used in Hy. rewrite P0 in Hy. specialize (HU y Hy). rewrite ids_snoc.
    change (k_pid (ack_pkt gs T_PUBREL V50 (k_pid x) None)) with (k_pid x).
    apply in_app_or in HU as [HU|HU]; apply in_or_app; [left; apply in_or_app; now left|].
    cbn [ids map In] in HU. destruct HU as [<-|HU]; [left; apply in_or_app; right; now left|now right].
  - assert (Hv : k_ver x = V50) by (rewrite He; reflexivity). assert (Htp : k_type x = T_PUBCOMP) by (rewrite He; reflexivity).
    pose proof (sender_final_ack5_x gs cs0 x T_PUBCOMP HO Rs Hv Htp (or_intror eq_refl) Hm Hu) as H.
    pose proof (sender_final5_sets gs cs0 x T_PUBCOMP HO Rs Hv Htp (or_intror eq_refl) Hm Hu) as H'.
    destruct (deliver gs cs0 x) as [[c2 e]|]; [|exact I]. destruct H as (L1 & S1 & X1 & _). destruct H' as (U2 & _).
    rewrite X1, S1, L1, N.eqb_refl. cbn [none negb]. cbn [cs cr qsr qrs published delivered]. exact (Hfinal c2 U2).
Qed.

Lemma pub5_U s p q : inv5 gs gr s -> v5_pub p q -> q = 1 \/ q = 2 -> U s -> match do_pub5 gs s p with Next s' => U s' | _ => True end.
Proof.
  destruct s as [cs0 cr0 qsr0 qrs0 pub0 del0]. unfold inv5, do_pub5, U, flight. cbn [cs cr qsr qrs published delivered]. cbv zeta.
  intros (HO & Rs & Has & Hta & Hfs & Hcnt & _) Hp Hqq HU.
  destruct (negb _) eqn:Epre; [exact I|]. apply negb_false_iff in Epre.
  apply andb_true_iff in Epre as [Epre E6]. apply andb_true_iff in Epre as [Epre E5]. apply andb_true_iff in Epre as [Epre E4].
  apply andb_true_iff in Epre as [Epre E3]. apply andb_true_iff in Epre as [E1 E2].
  apply N.leb_le in E1, E2. apply negb_true_iff in E3. apply freshb_spec in E4.
  destruct (register_k gs cs0 (k_pid p) HO (conj E1 E2) E3 E4) as (c0 & Ereg & O0 & U0 & F0 & K0 & C0). rewrite Ereg.
  pose proof (kf_fields _ _ K0) as (K01 & K02 & K03 & K04 & K05 & K06 & K07).
  assert (R0 : ready5 c0) by exact (ready5_kf _ _ K0 Rs).
  rewrite (step_send_publish_v5 gs c0 p q (proj1 R0) Hp).
  assert (Hsz0 : size_ok c0 p = true) by (unfold size_ok in *; now rewrite K05).
  assert (Hq0 : quota_left c0).
  { unfold quota_left. rewrite K06, C0. destruct (c_send_max cs0) as [mx|]; [apply N.ltb_lt; exact E6|exact I]. }
  assert (Hu0 : forall y, y <> k_pid p -> is_used c0 y = is_used cs0 y).
  { destruct (register_ae gs cs0 (k_pid p) HO (conj E1 E2) E3) as (a & Ereg' & _ & _ & Hu'). rewrite Ereg in Ereg'. injection Ereg' as ->. exact Hu'. }
  pose proof (sender_sends5_x gs c0 p q O0 R0 Hp ltac:(destruct Hqq; lia) F0 U0 Hsz0 ltac:(congruence) Hq0) as H1.
  pose proof (sender_sends5_sets gs c0 p q O0 R0 Hp ltac:(destruct Hqq; lia) F0 U0 Hsz0 ltac:(congruence) Hq0) as H1'.
  destruct (send_publish_v5 gs c0 p) as [[c1 e1]|]; cbn [bindr]; [|exact I].
  destruct H1 as (S1 & N1 & X1 & _). destruct H1' as (P0 & _).
  rewrite S1, N1, X1. cbn [one none andb negb]. cbn [cs cr qsr qrs published delivered].
  intros y Hy. unfold is_used in Hy. rewrite P0 in Hy. fold (is_used c0 y) in Hy. rewrite ids_snoc.
  destruct (N.eq_dec y (k_pid p)) as [->|Hne]; [apply in_or_app; left; apply in_or_app; right; now left|].
  rewrite (Hu0 y Hne) in Hy. specialize (HU y Hy).
  apply in_app_or in HU as [HU|HU]; apply in_or_app; [left; apply in_or_app; now left|now right].
Qed.

Lemma act5_U s a : inv5 gs gr s -> good_act5 a -> U s -> match do_act5 gs gr s a with Next s' => U s' | _ => True end.
Proof.
  intros Hi Hg HU. destruct a as [p| |]; cbn [do_act5 good_act5] in *.
  - destruct Hg as [Hg|Hg]; [apply (pub5_U s p 1 Hi Hg); [now left|exact HU]|apply (pub5_U s p 2 Hi Hg); [now right|exact HU]].
  - exact (to_r5_U s Hi HU).
  - exact (to_s5_U s Hi HU).
Qed.

Theorem sched5_U : forall l s, inv5 gs gr s -> U s -> Forall good_act5 l ->
  match run_sched5 gs gr s l with Some s' => U s' | None => True end.
Proof.
  induction l as [|a t IH]; intros s Hi HU Hf; cbn [run_sched5]; [exact HU|].
  pose proof (Forall_inv Hf) as Ha. pose proof (Forall_inv_tail Hf) as Ht.
  pose proof (act5_ok gs gr s a Hi Ha) as Hok. pose proof (act5_U s a Hi Ha HU) as HU'.
  destruct (do_act5 gs gr s a) as [s'| |]; [exact (IH s' Hok HU' Ht)|exact (IH s Hi HU Ht)|exact I].
Qed.

Lemma drain5_good n : Forall good_act5 (drain5 n).
Proof. induction n as [|k IH]; cbn [drain5]; [constructor|]. repeat constructor; assumption || exact I. Qed.

(* THE QUIESCENT STATE of the v5.0 system, complete: links empty, every message notified once in order, the vacancy at the
   maximum, nothing outstanding at the receiver, no identifier in use at the sender *)
Theorem quiescence5 l s : inv5 gs gr s -> U s -> Forall good_act5 l ->
  exists s1 s2, run_sched5 gs gr s l = Some s1 /\ run_sched5 gs gr s1 (drain5 (measure s1)) = Some s2 /\
                qsr s2 = [] /\ qrs s2 = [] /\ delivered s2 = published s1 /\
                vacancy (cs s2) = c_send_max (cs s2) /\ c_publish_recv (cr s2) = [] /\
                forall y, is_used (cs s2) y = false.
Proof.
  intros Hi HU Hf. destruct (concurrent5_exactly_once gs gr l s Hi Hf) as (s1 & s2 & R1 & R2 & Q1 & Q2 & D & W & P & _).
  exists s1, s2. split; [exact R1|]. split; [exact R2|]. split; [exact Q1|]. split; [exact Q2|]. split; [exact D|]. split; [exact W|]. split; [exact P|].
  pose proof (sched5_U l s Hi HU Hf) as U1. rewrite R1 in U1.
  destruct (sched5_ok gs gr l s Hi Hf) as (s1' & R1' & I1). assert (s1' = s1) by congruence. subst s1'.
  pose proof (sched5_U (drain5 (measure s1)) s1 I1 U1 (drain5_good _)) as U2. rewrite R2 in U2.
  intro y. destruct (is_used (cs s2) y) eqn:E; [|reflexivity]. exfalso. specialize (U2 y E). rewrite Q1, Q2 in U2. exact U2.
Qed.
End Ids5.
